(* SeqProofsString.v -- C14: every String operation refines the list specification, keeps
   the NUL terminator at [Length()] and the pool invariant (no UAF / OOB / null store). *)
From Coq Require Import NArith List Arith Bool Lia.
From Qv Require Import SeqModel SeqLists SeqProofs SeqProofsArray SeqProofsUnits SeqProofsStream.
Import ListNotations.

(* a String's storage is its content, the terminator, and possibly stale cells after it *)
Definition owns_s (h : hN) (o : obj) (l : list N) : Prop :=
  match blk o with
  | None => size o = 0 /\ l = []
  | Some b => exists rest, cells_of h b = Some (l ++ 0%N :: rest) /\ size o = length l
  end.

Lemma owns_s_local : forall (h h' : hN) o l,
  (forall b, blk o = Some b -> cells_of h' b = cells_of h b) -> owns_s h o l -> owns_s h' o l.
Proof.
  intros h h' o l Hf. unfold owns_s. destruct (blk o) as [b|]; [|auto].
  intros (r & Hc & R). exists r. rewrite Hf by reflexivity. auto.
Qed.
Lemma owns_s_live : forall (h : hN) o l b, owns_s h o l -> blk o = Some b -> cells_of h b <> None.
Proof.
  intros h o l b. unfold owns_s. intros H Hb. rewrite Hb in H. destruct H as (c & Hc & _). congruence.
Qed.
Lemma owns_s_null : forall (h : hN), owns_s h null_obj [].
Proof. intros h. cbn. auto. Qed.

Definition sinv := inv owns_s.
Definition sinv_set := inv_set owns_s owns_s_local owns_s_live.
Definition sinv_set_d := inv_set_d owns_s owns_s_local.
Definition sinv_move := inv_move owns_s owns_s_local owns_s_live owns_s_null.
Definition sinv_heap := inv_heap owns_s owns_s_local.
Ltac sset H := eapply (sinv_set _ _ _ _ _ _ H).
Ltac sset_d H := eapply (sinv_set_d _ _ _ _ _ _ H).
Ltac smove H := eapply (sinv_move _ _ _ _ _ _ H).

Lemma sinv_obj : forall (w : wN) s k, sinv w s -> owns_s (hp w) (ob w k) (s k).
Proof. intros w s k (_ & H & _). apply H. Qed.
Lemma sinv_hwf : forall (w : wN) s, sinv w s -> hwf (hp w).
Proof. intros w s (H & _). exact H. Qed.
Lemma sinv_lt : forall (w : wN) s k b, sinv w s -> blk (ob w k) = Some b -> b < next (hp w).
Proof. intros w s k b H. exact (inv_blk_lt owns_s owns_s_live w s k b H). Qed.
Lemma sinv_distinct : forall (w : wN) s k k' b, sinv w s -> k <> k' -> blk (ob w k) = Some b -> blk (ob w k') <> Some b.
Proof. intros w s k k' b H. exact (inv_distinct owns_s w s k k' b H). Qed.

Lemma owns_s_to : forall (h h' : hN) o l, owns_s h o l ->
  (forall b, blk o = Some b -> cells_of h' b = cells_of h b) -> owns_s h' o l.
Proof. intros h h' o l H Hf. eapply owns_s_local; eauto. Qed.

Lemma owns_s_len : forall (h : hN) o l, owns_s h o l -> length l = size o.
Proof.
  intros h o l. unfold owns_s. destruct (blk o) as [b|].
  - intros (r & _ & ->). reflexivity.
  - intros (-> & ->). reflexivity.
Qed.

Lemma firstn_skipn_app_l : forall (l r : list N) off n, off + n <= length l ->
  firstn n (skipn off (l ++ r)) = firstn n (skipn off l).
Proof.
  intros l r off n H. rewrite skipn_app. replace (off - length l) with 0 by lia. cbn [skipn].
  rewrite firstn_app, skipn_length. replace (n - (length l - off)) with 0 by lia.
  now rewrite firstn_O, app_nil_r.
Qed.

Lemma owns_s_read : forall (h : hN) o l off n, owns_s h o l -> off + n <= size o ->
  rd_range h (blk o) off n = Ok (firstn n (skipn off l)).
Proof.
  intros h o l off n. unfold owns_s. destruct (blk o) as [b|].
  - intros (r & Hc & Hs) Hn. rewrite (rd_range_ok h b _ off n Hc) by (rewrite app_length; cbn [length]; lia).
    f_equal. apply firstn_skipn_app_l. lia.
  - intros (Hs & ->) Hn. assert (n = 0) as -> by lia. reflexivity.
Qed.
Lemma owns_s_read_all : forall (h : hN) o l, owns_s h o l -> rd_range h (blk o) 0 (size o) = Ok l.
Proof.
  intros h o l H. rewrite (owns_s_read h o l 0 (size o) H) by lia. cbn [skipn].
  rewrite <- (owns_s_len _ _ _ H). now rewrite firstn_all.
Qed.

(* the content up to and including the terminator, as StringUtils::Count scans it *)
Lemma owns_s_read_term : forall (h : hN) o l off, owns_s h o l -> blk o <> None -> off <= size o ->
  rd_range h (blk o) off (size o + 1 - off) = Ok (skipn off l ++ [0%N]).
Proof.
  intros h o l off. unfold owns_s. destruct (blk o) as [b|]; [|congruence].
  intros (r & Hc & Hs) _ Ho. rewrite (rd_range_ok h b _ off _ Hc) by (rewrite app_length; cbn [length]; lia).
  f_equal. rewrite skipn_app. replace (off - length l) with 0 by lia. cbn [skipn].
  rewrite firstn_app, skipn_length. replace (size o + 1 - off - (length l - off)) with 1 by lia.
  cbn [firstn]. f_equal. apply firstn_all2. rewrite skipn_length. lia.
Qed.

Lemma owns_s_term : forall (h : hN) o l, owns_s h o l -> terminated h o = Ok true.
Proof.
  intros h o l. unfold owns_s, terminated. destruct (blk o) as [b|]; [|reflexivity].
  intros (r & Hc & Hs). unfold rd1.
  rewrite (rd_range_ok h b _ (size o) 1 Hc) by (rewrite app_length; cbn [length]; lia).
  rewrite Hs, skipn_app, skipn_all, Nat.sub_diag. reflexivity.
Qed.

Lemma owns_s_free : forall (h : hN) o l, hwf h -> owns_s h o l ->
  exists h', free h (blk o) = Ok h' /\ hwf h' /\ next h' = next h /\
             (forall b, blk o <> Some b -> cells_of h' b = cells_of h b).
Proof.
  intros h o l Hw. unfold owns_s. destruct (blk o) as [b|].
  - intros (c & Hc & _). destruct (free_ok h b _ Hc) as (h' & Hf & Hu).
    exists h'. split; [assumption|]. split; [eapply hupd_hwf; eauto|].
    destruct Hu as (_ & Ho & Hn). split; [assumption|]. intros b' Hb'. apply Ho. congruence.
  - intros _. exists h. cbn. auto.
Qed.

Lemma owns_s_blk_lt : forall (h : hN) o l b, hwf h -> owns_s h o l -> blk o = Some b -> b < next h.
Proof.
  intros h o l b Hw Ho Hb. destruct (cells_of h b) as [c|] eqn:E; [exact (live_lt _ _ _ Hw E)|].
  exfalso. exact (owns_s_live _ _ _ _ Ho Hb E).
Qed.

Lemma src_ok_s : forall (h : hN) o l off n, hwf h -> owns_s h o l -> off + n <= size o ->
  src_ok h (SPtr (blk o) off) n (firstn n (skipn off l)).
Proof.
  intros h o l off n Hw Ho Hn. pose proof (owns_s_len _ _ _ Ho) as Hlen.
  split; [rewrite firstn_length, skipn_length; lia|]. intros h' Hfr. cbn [rd_src].
  apply owns_s_read; [|assumption]. apply owns_s_to with (h := h); [assumption|].
  intros b Hb. apply Hfr. eapply owns_s_blk_lt; eauto.
Qed.
Lemma src_ok_s_all : forall (h : hN) o l, hwf h -> owns_s h o l -> src_ok h (SPtr (blk o) 0) (size o) l.
Proof.
  intros h o l Hw Ho. pose proof (src_ok_s h o l 0 (size o) Hw Ho ltac:(lia)) as H. cbn [skipn] in H.
  rewrite <- (owns_s_len _ _ _ Ho), firstn_all in H. now rewrite (owns_s_len _ _ _ Ho) in H.
Qed.

Lemma splice_app_mid : forall (p m q x : list N), length x = length m ->
  splice (p ++ m ++ q) (length p) x = p ++ x ++ q.
Proof.
  intros p m q x H. unfold splice.
  rewrite firstn_app, Nat.sub_diag, firstn_O, app_nil_r, firstn_all.
  rewrite skipn_app. rewrite (skipn_all2 p) by lia.
  replace (length p + length x - length p) with (length m) by lia.
  rewrite skipn_app, skipn_all, Nat.sub_diag. reflexivity.
Qed.

Lemma copied_is_owned : forall (h : hN) b data len, cells_of h b = Some (data ++ [0%N]) -> length data = len ->
  owns_s h (mkObj (Some b) len 0) data.
Proof. intros h b data len Hc Hl. unfold owns_s. cbn [blk size]. exists []. auto. Qed.

(* destroy i, then put a freshly copied string there *)
Lemma s_replace_copy : forall (w : wN) s i src len data (h1 : hN) s',
  sinv w s -> hwf h1 -> next h1 = next (hp w) ->
  (forall b, blk (ob w i) <> Some b -> cells_of h1 b = cells_of (hp w) b) ->
  src_ok h1 src len data -> s' i = data -> (forall k, k <> i -> s' k = s k) ->
  exists r, s_copy_string h1 src len = Ok r /\ sinv (mkW (fst r) (upd (ob w) i (snd r))) s'.
Proof.
  intros w s i src len data h1 s' Hinv Hwf1 Hn1 Hfr1 Hsrc Hsi Hsk.
  destruct (s_copy_string_ok_t h1 src len data Hwf1 Hsrc) as (h2 & Hcs & Hwf2 & Hn2 & Hfr2 & Hnew2).
  eexists. split; [exact Hcs|]. cbn [fst snd].
  sset Hinv; [exact Hwf2 | | | exact Hsk | ].
  - intros b Hlt Hne. rewrite Hfr2 by lia. now apply Hfr1.
  - rewrite Hsi. apply copied_is_owned; [assumption|]. now destruct Hsrc.
  - cbn [blk]. intros b Hb. injection Hb as <-. left. lia.
Qed.

(* operator=(String&&) from a temporary that sits in the heap next to the pool *)
Lemma s_take_ok : forall (w0 : wN) s0 i t l' s', sinv w0 s0 -> owns_s (hp w0) t l' ->
  (forall b k, blk t = Some b -> blk (ob w0 k) <> Some b) ->
  s' i = l' -> (forall k, k <> i -> s' k = s0 k) ->
  exists w', s_take (hp w0) (ob w0) i t = Ok w' /\ sinv w' s'.
Proof.
  intros w0 s0 i t l' s' Hinv Ht Horph Hsi Hsk. unfold s_take.
  destruct (owns_s_free _ _ _ (sinv_hwf _ _ Hinv) (sinv_obj _ _ i Hinv)) as (h1 & Hf & Hwf1 & Hn1 & Hfr1).
  rewrite Hf. cbn [bind]. eexists. split; [reflexivity|].
  sset_d Hinv; [exact Hwf1 | | | exact Hsk | ].
  - intros k b Hk Hb. apply Hfr1. intros Hi. exact (sinv_distinct _ _ _ _ _ Hinv Hk Hb Hi).
  - rewrite Hsi. apply owns_s_to with (h := hp w0); [assumption|]. intros b Hb. apply Hfr1.
    intros Hi. exact (Horph b i Hb Hi).
  - intros k b Hk Hb. now apply Horph.
Qed.

(* a temporary built in fresh storage leaves the pool intact *)
Lemma sinv_fresh : forall (w : wN) s (h1 : hN), sinv w s -> hwf h1 ->
  (forall b, b < next (hp w) -> cells_of h1 b = cells_of (hp w) b) -> sinv (mkW h1 (ob w)) s.
Proof.
  intros w s h1 Hinv Hwf1 Hfr. apply (sinv_heap _ _ _ Hinv Hwf1). intros k b Hb. apply Hfr. exact (sinv_lt _ _ _ _ Hinv Hb).
Qed.

Lemma s_reset_ok : forall (w : wN) s i s', sinv w s -> s' i = [] -> (forall k, k <> i -> s' k = s k) ->
  exists h1, free (hp w) (blk (ob w i)) = Ok h1 /\ sinv (mkW h1 (upd (ob w) i null_obj)) s'.
Proof.
  intros w s i s' Hinv Hsi Hsk.
  destruct (owns_s_free _ _ _ (sinv_hwf _ _ Hinv) (sinv_obj _ _ i Hinv)) as (h1 & Hf & Hwf1 & Hn1 & Hfr1).
  exists h1. split; [assumption|].
  sset Hinv; [exact Hwf1 | | | exact Hsk | cbn; discriminate].
  - intros b Hlt Hne. now apply Hfr1.
  - rewrite Hsi. apply owns_s_null.
Qed.

Lemma repeat_split3 : forall a n, repeat junkN (a + n + 1) = repeat junkN a ++ repeat junkN n ++ [junkN].
Proof. intros a n. now rewrite !repeat_app, <- app_assoc. Qed.

(* String::Write *)
Lemma s_write_ok : forall (w : wN) s i src len data s', sinv w s -> src_ok (hp w) src len data ->
  s' i = s i ++ data -> (forall k, k <> i -> s' k = s k) ->
  exists w', s_write w i src len = Ok w' /\ sinv w' s'.
Proof.
  intros w s i src len data s' Hinv Hsrc Hsi Hsk. unfold s_write.
  pose proof (sinv_hwf _ _ Hinv) as Hwf. pose proof (sinv_obj _ _ i Hinv) as Hoi.
  pose proof (owns_s_len _ _ _ Hoi) as Hlen. pose proof Hsrc as (Hdl & Hrd).
  assert (Hnull : src_null src = true -> len = 0).
  { intros Hn. destruct src as [[b|] off|l]; try discriminate. destruct len as [|len']; [reflexivity|].
    pose proof (src_ok_here _ _ _ _ Hsrc) as H. discriminate H. }
  destruct (src_null src || (len =? 0)) eqn:Eskip.
  - assert (len = 0) as Hl0.
    { apply orb_true_iff in Eskip. destruct Eskip as [H|H]; [auto|now apply Nat.eqb_eq]. }
    exists w. split; [reflexivity|]. apply (inv_ext owns_s w s s' Hinv). intros k.
    destruct (Nat.eq_dec k i) as [->|Hk]; [|now apply Hsk].
    rewrite Hsi. destruct data; [now rewrite app_nil_r|cbn in Hdl; lia].
  - apply orb_false_iff in Eskip. destruct Eskip as (_ & Hl0). apply Nat.eqb_neq in Hl0.
    rewrite alloc_eq. unfold copy_in.
    set (a := size (ob w i)) in *. set (b := next (hp w)).
    rewrite (Hrd (halloc junkN (hp w) (a + len + 1))) by (intros b' Hb'; apply halloc_old; lia). cbn [bind].
    destruct (wr_range_ok (halloc junkN (hp w) (a + len + 1)) b _ a data (halloc_new _ _ _)
                ltac:(rewrite repeat_length; lia)) as (h2 & Hwr & Hb2 & Ho2 & Hn2).
    fold b. rewrite Hwr. cbn [bind].
    assert (E2 : splice (repeat junkN (a + len + 1)) a data = repeat junkN a ++ data ++ [junkN]).
    { rewrite repeat_split3. rewrite <- (repeat_length junkN a) at 2. apply splice_app_mid. now rewrite repeat_length. }
    rewrite E2 in Hb2.
    destruct (wr_range_ok h2 b _ (a + len) [0%N] Hb2
                ltac:(rewrite !app_length, repeat_length; cbn [length]; lia)) as (h3 & Hwr3 & Hb3 & Ho3 & Hn3).
    unfold wr1. rewrite Hwr3. cbn [bind].
    assert (E3 : splice (repeat junkN a ++ data ++ [junkN]) (a + len) [0%N] = repeat junkN a ++ data ++ [0%N]).
    { replace (repeat junkN a ++ data ++ [junkN]) with ((repeat junkN a ++ data) ++ [junkN] ++ []) by (now rewrite <- app_assoc).
      replace (a + len) with (length (repeat junkN a ++ data)) by (rewrite app_length, repeat_length; lia).
      rewrite splice_app_mid by reflexivity. now rewrite <- app_assoc. }
    rewrite E3 in Hb3.
    assert (Hwf3 : hwf h3).
    { eapply hupd_hwf; [|split; [eassumption|split; eassumption]|right; rewrite Hn2, halloc_next; lia].
      eapply hupd_hwf; [apply halloc_hwf; eassumption|split; [eassumption|split; eassumption]|right; rewrite halloc_next; lia]. }
    assert (Hold3 : forall b', b' <> b -> cells_of h3 b' = cells_of (hp w) b').
    { intros b' Hb'. rewrite Ho3, Ho2 by assumption. now apply halloc_old. }
    destruct (blk (ob w i)) as [bo|] eqn:Eblk.
    + assert (Hbo : bo < b) by (exact (sinv_lt w s i bo Hinv Eblk)).
      assert (Hoi3 : owns_s h3 (ob w i) (s i)).
      { apply owns_s_to with (h := hp w); [assumption|]. intros b' Hb'. rewrite Eblk in Hb'. injection Hb' as <-. apply Hold3. lia. }
      unfold mcopy, copy_in, rd_src. rewrite <- Eblk. fold a in Hoi3 |- *.
      pose proof (owns_s_read_all _ _ _ Hoi3) as Hr3. fold a in Hr3. rewrite Hr3. cbn [bind].
      destruct (wr_range_ok h3 b _ 0 (s i) Hb3 ltac:(rewrite !app_length, repeat_length; cbn [length]; lia))
        as (h4 & Hwr4 & Hb4 & Ho4 & Hn4).
      rewrite Hwr4. cbn [bind].
      assert (E4 : splice (repeat junkN a ++ data ++ [0%N]) 0 (s i) = s i ++ data ++ [0%N]).
      { change (repeat junkN a ++ data ++ [0%N]) with ([] ++ repeat junkN a ++ data ++ [0%N]).
        change 0 with (length (@nil N)). rewrite splice_app_mid by (rewrite repeat_length; lia). reflexivity. }
      rewrite E4 in Hb4.
      assert (Hwf4 : hwf h4).
      { eapply hupd_hwf; [exact Hwf3|split; [eassumption|split; eassumption]|right; rewrite Hn3, Hn2, halloc_next; lia]. }
      assert (Hoi4 : owns_s h4 (ob w i) (s i)).
      { apply owns_s_to with (h := h3); [assumption|]. intros b' Hb'. rewrite Eblk in Hb'. injection Hb' as <-. apply Ho4. lia. }
      destruct (owns_s_free _ _ _ Hwf4 Hoi4) as (h5 & Hf5 & Hwf5 & Hn5 & Hfr5).
      rewrite Hf5. cbn [bind]. eexists. split; [reflexivity|].
      sset Hinv; [exact Hwf5 | | | exact Hsk | ].
      * intros b' Hlt Hne. rewrite Hfr5 by (rewrite Eblk; rewrite Eblk in Hne; exact Hne).
        rewrite Ho4 by (fold b in Hlt; lia). apply Hold3. fold b in Hlt. lia.
      * rewrite Hsi. unfold owns_s. cbn [blk size]. exists [].
        split; [|rewrite app_length; lia].
        rewrite Hfr5 by (rewrite Eblk; intros Hx; injection Hx as ->; lia).
        rewrite Hb4. now rewrite <- app_assoc.
      * cbn [blk]. intros b' Hb'. injection Hb' as <-. left. subst b. lia.
    + cbn [bind]. eexists. split; [reflexivity|].
      unfold owns_s in Hoi. rewrite Eblk in Hoi. destruct Hoi as (Hsz & Hnil).
      sset Hinv; [exact Hwf3 | | | exact Hsk | ].
      * intros b' Hlt Hne. apply Hold3. fold b in Hlt. lia.
      * rewrite Hsi, Hnil. cbn [app]. unfold owns_s. cbn [blk size]. exists [].
        split; [|lia]. rewrite Hb3. subst a. rewrite Hsz. reflexivity.
      * cbn [blk]. intros b' Hb'. injection Hb' as <-. left. subst b. lia.
Qed.

Ltac bind_rw H :=
  match type of H with _ = ?R =>
    match goal with |- context [bind ?X _] => replace X with R by (symmetry; exact H) end end.

Lemma copy_in_opt : forall (h0 h : hN) b c off src len data,
  src_ok h0 src len data -> (forall b', b' < next h0 -> cells_of h b' = cells_of h0 b') ->
  cells_of h b = Some c -> off + len <= length c ->
  exists h', (if len =? 0 then Ok h else copy_in h (Some b) off src len) = Ok h' /\
             hupd h h' b (Some (splice c off data)).
Proof.
  intros h0 h b c off src len data (Hdl & Hrd) Hfr Hc Hl.
  destruct (Nat.eqb_spec len 0) as [E|E].
  - exists h. split; [reflexivity|]. assert (data = []) as -> by (destruct data; [reflexivity|cbn in Hdl; lia]).
    rewrite splice_nil. repeat split; auto.
  - unfold copy_in. rewrite (Hrd h Hfr). cbn [bind]. apply wr_range_ok; [assumption|lia].
Qed.

(* String::merge: a fresh string holding d1 ++ d2 *)
Lemma s_merge_ok : forall (h : hN) s1 n1 d1 s2 n2 d2, hwf h -> src_ok h s1 n1 d1 -> src_ok h s2 n2 d2 ->
  exists h' t, s_merge h s1 n1 s2 n2 = Ok (h', t) /\ hwf h' /\ next h <= next h' /\
    (forall b, b < next h -> cells_of h' b = cells_of h b) /\ owns_s h' t (d1 ++ d2) /\
    (forall b, blk t = Some b -> next h <= b).
Proof.
  intros h s1 n1 d1 s2 n2 d2 Hwf Hs1 Hs2. unfold s_merge.
  pose proof Hs1 as (Hd1 & _). pose proof Hs2 as (Hd2 & _).
  destruct (n1 + n2) as [|m] eqn:E.
  - exists h, null_obj. split; [reflexivity|]. split; [assumption|]. split; [lia|]. split; [reflexivity|].
    split; [|cbn; discriminate].
    assert (d1 = []) as -> by (destruct d1; [reflexivity|cbn in Hd1; lia]).
    assert (d2 = []) as -> by (destruct d2; [reflexivity|cbn in Hd2; lia]). apply owns_s_null.
  - rewrite <- E. clear m E. rewrite alloc_eq. set (b := next h).
    destruct (wr_range_ok (halloc junkN h (n1 + n2 + 1)) b _ (n1 + n2) [0%N] (halloc_new _ _ _)
                ltac:(rewrite repeat_length; cbn [length]; lia)) as (h2 & Hwr2 & Hb2 & Ho2 & Hn2).
    unfold wr1. rewrite Hwr2. cbn [bind].
    assert (E2 : splice (repeat junkN (n1 + n2 + 1)) (n1 + n2) [0%N] = repeat junkN n1 ++ repeat junkN n2 ++ [0%N]).
    { rewrite repeat_split3.
      replace (repeat junkN n1 ++ repeat junkN n2 ++ [junkN]) with ((repeat junkN n1 ++ repeat junkN n2) ++ [junkN] ++ [])
        by (now rewrite <- app_assoc).
      replace (n1 + n2) with (length (repeat junkN n1 ++ repeat junkN n2)) by (rewrite app_length, !repeat_length; lia).
      rewrite splice_app_mid by reflexivity. now rewrite <- app_assoc. }
    rewrite E2 in Hb2.
    assert (Hfr2 : forall b', b' < next h -> cells_of h2 b' = cells_of h b').
    { intros b' Hb'. rewrite Ho2 by (subst b; lia). apply halloc_old. lia. }
    destruct (copy_in_opt h h2 b _ 0 s1 n1 d1 Hs1 Hfr2 Hb2 ltac:(rewrite !app_length, !repeat_length; cbn [length]; lia))
      as (h3 & Hc3 & Hb3 & Ho3 & Hn3).
    bind_rw Hc3. cbn [bind].
    assert (E3 : splice (repeat junkN n1 ++ repeat junkN n2 ++ [0%N]) 0 d1 = d1 ++ repeat junkN n2 ++ [0%N]).
    { change (repeat junkN n1 ++ repeat junkN n2 ++ [0%N]) with ([] ++ repeat junkN n1 ++ repeat junkN n2 ++ [0%N]).
      change 0 with (length (@nil N)). rewrite splice_app_mid by (rewrite repeat_length; lia). reflexivity. }
    rewrite E3 in Hb3.
    assert (Hfr3 : forall b', b' < next h -> cells_of h3 b' = cells_of h b').
    { intros b' Hb'. rewrite Ho3 by (subst b; lia). now apply Hfr2. }
    destruct (copy_in_opt h h3 b _ n1 s2 n2 d2 Hs2 Hfr3 Hb3 ltac:(rewrite !app_length, !repeat_length; cbn [length]; lia))
      as (h4 & Hc4 & Hb4 & Ho4 & Hn4).
    bind_rw Hc4. cbn [bind].
    assert (E4 : splice (d1 ++ repeat junkN n2 ++ [0%N]) n1 d2 = d1 ++ d2 ++ [0%N]).
    { rewrite <- Hd1. apply splice_app_mid. rewrite repeat_length. lia. }
    rewrite E4 in Hb4.
    exists h4. eexists. split; [reflexivity|].
    split.
    { eapply hupd_hwf; [|split; [eassumption|split; eassumption]|right; rewrite Hn3, Hn2, halloc_next; subst b; lia].
      eapply hupd_hwf; [|split; [eassumption|split; eassumption]|right; rewrite Hn2, halloc_next; subst b; lia].
      eapply hupd_hwf; [apply halloc_hwf; eassumption|split; [eassumption|split; eassumption]|right; rewrite halloc_next; subst b; lia]. }
    split; [rewrite Hn4, Hn3, Hn2, halloc_next; lia|].
    split; [intros b' Hb'; rewrite Ho4 by (subst b; lia); now apply Hfr3|].
    split.
    + unfold owns_s. cbn [blk size]. exists []. split; [rewrite Hb4; now rewrite <- app_assoc | rewrite app_length; lia].
    + cbn [blk]. intros b' Hb'. injection Hb' as <-. subst b. lia.
Qed.

Lemma s_eq_ext_ok : forall (w : wN) s i l len (buf : list N), sinv w s ->
  len <= length buf -> firstn len buf = l -> length l = len ->
  s_eq_ext w i buf len = Ok (list_eqb (s i) l).
Proof.
  intros w s i l len buf Hinv Hlb Hl Hll. unfold s_eq_ext.
  pose proof (sinv_obj _ _ i Hinv) as Hoi. pose proof (owns_s_len _ _ _ Hoi) as Hlen.
  destruct (Nat.eqb_spec (size (ob w i)) len) as [E|E].
  - rewrite <- E. rewrite (owns_s_read_all _ _ _ Hoi). cbn [bind]. now rewrite E, Hl.
  - rewrite list_eqb_len by lia. reflexivity.
Qed.

(* a fresh temporary (heap h1, object t) is moved into slot i *)
Lemma s_take_fresh : forall (w : wN) s i (h1 : hN) t l' s', sinv w s -> hwf h1 ->
  (forall b, b < next (hp w) -> cells_of h1 b = cells_of (hp w) b) ->
  owns_s h1 t l' -> (forall b, blk t = Some b -> next (hp w) <= b) ->
  s' i = l' -> (forall k, k <> i -> s' k = s k) ->
  exists w', s_take h1 (ob w) i t = Ok w' /\ sinv w' s'.
Proof.
  intros w s i h1 t l' s' Hinv Hwf1 Hfr Ht Hnew Hsi Hsk.
  pose proof (sinv_fresh w s h1 Hinv Hwf1 Hfr) as Hinv0.
  apply (s_take_ok (mkW h1 (ob w)) s i t l' s' Hinv0 Ht); auto.
  intros b k Hb Hk. cbn [ob] in Hk. pose proof (Hnew b Hb). pose proof (sinv_lt w s k b Hinv Hk). lia.
Qed.

Definition srun := run sstep.
Definition sspec_run := spec_run sspec.

Theorem sstep_refines : forall (w : wN) s op, sinv w s -> sop_ok op ->
  exists w', sstep w op = Ok (w', snd (sspec s op)) /\ sinv w' (fst (sspec s op)).
Proof.
  intros w s op Hinv Hok.
  pose proof (sinv_hwf _ _ Hinv) as Hwf.
  destruct op as [i|i l|i l|i l|i l|i j|i j|i j|i j|i l|i off|i j|i j|i l|i c|i l|i j k mv|i j l|i j|i j|i l|i|i l|i|i|i n|i idx|i c idx|i|i|i|i];
    cbn [sstep sspec fst snd sop_ok] in *.
  - (* SDefault *)
    destruct (s_reset_ok w s i (upd s i []) Hinv (upd_same _ _ _ _) (fun k Hk => upd_other _ _ _ _ _ Hk)) as (h1 & Hf & Hinv1).
    rewrite Hf. cbn [bind]. eauto.
  - (* SNewLen *)
    destruct (owns_s_free _ _ _ Hwf (sinv_obj _ _ i Hinv)) as (h1 & Hf & Hwf1 & Hn1 & Hfr1).
    rewrite Hf. cbn [bind].
    destruct (length l) as [|n'] eqn:El.
    + eexists. split; [reflexivity|]. sset Hinv; [exact Hwf1 | | | others | cbn; discriminate].
      * intros b Hlt Hne. now apply Hfr1.
      * rewrite upd_same. destruct l; [apply owns_s_null|discriminate].
    + rewrite <- El. clear n' El. rewrite alloc_eq. set (b := next h1).
      destruct (wr_range_ok (halloc junkN h1 (length l + 1)) b _ (length l) [0%N] (halloc_new _ _ _)
                  ltac:(rewrite repeat_length; cbn [length]; lia)) as (h2 & Hwr2 & Hb2 & Ho2 & Hn2).
      unfold wr1. rewrite Hwr2. cbn [bind].
      assert (E2 : splice (repeat junkN (length l + 1)) (length l) [0%N] = repeat junkN (length l) ++ [0%N]).
      { rewrite repeat_app. cbn [repeat]. rewrite <- (repeat_length junkN (length l)) at 2.
        change [junkN] with ([junkN] ++ []). rewrite splice_app_mid by reflexivity. reflexivity. }
      rewrite E2 in Hb2.
      destruct (wr_range_ok h2 b _ 0 l Hb2 ltac:(rewrite app_length, repeat_length; cbn [length]; lia))
        as (h3 & Hwr3 & Hb3 & Ho3 & Hn3).
      rewrite Hwr3. cbn [bind].
      assert (E3 : splice (repeat junkN (length l) ++ [0%N]) 0 l = l ++ [0%N]).
      { change (repeat junkN (length l) ++ [0%N]) with ([] ++ repeat junkN (length l) ++ [0%N]).
        change 0 with (length (@nil N)). rewrite splice_app_mid by (now rewrite repeat_length). reflexivity. }
      rewrite E3 in Hb3.
      eexists. split; [reflexivity|].
      sset Hinv; [ | | | others | ].
      * eapply hupd_hwf; [|split; [eassumption|split; eassumption]|right; rewrite Hn2, halloc_next; subst b; lia].
        eapply hupd_hwf; [apply halloc_hwf; eassumption|split; [eassumption|split; eassumption]|right; rewrite halloc_next; subst b; lia].
      * intros b' Hlt Hne. rewrite Ho3, Ho2 by (subst b; lia). rewrite halloc_old by (subst b; lia). now apply Hfr1.
      * rewrite upd_same. apply copied_is_owned; auto.
      * cbn [blk]. intros b' Hb'. injection Hb' as <-. left. subst b. lia.
  - (* SNewCopy *)
    destruct (owns_s_free _ _ _ Hwf (sinv_obj _ _ i Hinv)) as (h1 & Hf & Hwf1 & Hn1 & Hfr1).
    rewrite Hf. cbn [bind].
    destruct (s_replace_copy w s i (SExt l) (length l) (firstn (length l) l) h1 (upd s i l) Hinv Hwf1 Hn1 Hfr1
                (src_ok_ext _ _ _ (le_n _))) as (r & Hr & Hinv1).
    { rewrite upd_same. symmetry. apply firstn_all. }
    { intros k Hk. now apply upd_other. }
    rewrite Hr. cbn [bind]. eauto.
  - (* SNewCstr *)
    destruct (owns_s_free _ _ _ Hwf (sinv_obj _ _ i Hinv)) as (h1 & Hf & Hwf1 & Hn1 & Hfr1).
    rewrite Hf. cbn [bind]. pose proof (cstr_len_le l) as Hcl.
    destruct (s_replace_copy w s i (SExt (l ++ [0%N])) (cstr_len l) (firstn (cstr_len l) (l ++ [0%N])) h1
                (upd s i (firstn (cstr_len l) l)) Hinv Hwf1 Hn1 Hfr1
                (src_ok_ext h1 (l ++ [0%N]) (cstr_len l) ltac:(rewrite app_length; lia))) as (r & Hr & Hinv1).
    { rewrite upd_same. symmetry. apply firstn_cstr_app. }
    { intros k Hk. now apply upd_other. }
    rewrite Hr. cbn [bind]. eauto.
  - (* SNewAdopt *)
    destruct (owns_s_free _ _ _ Hwf (sinv_obj _ _ i Hinv)) as (h1 & Hf & Hwf1 & Hn1 & Hfr1).
    rewrite Hf. cbn [bind]. rewrite alloc_eq. set (b := next h1).
    destruct (wr_range_ok (halloc junkN h1 (length l + 1)) b _ 0 (l ++ [0%N]) (halloc_new _ _ _)
                ltac:(rewrite repeat_length, app_length; cbn [length]; lia)) as (h2 & Hwr2 & Hb2 & Ho2 & Hn2).
    rewrite Hwr2. cbn [bind].
    assert (E2 : splice (repeat junkN (length l + 1)) 0 (l ++ [0%N]) = l ++ [0%N]).
    { change (repeat junkN (length l + 1)) with ([] ++ repeat junkN (length l + 1)).
      rewrite <- (app_nil_r (repeat junkN (length l + 1))).
      change 0 with (length (@nil N)). rewrite splice_app_mid by (rewrite repeat_length, app_length; cbn [length]; lia).
      cbn [app]. now rewrite app_nil_r. }
    rewrite E2 in Hb2.
    eexists. split; [reflexivity|].
    sset Hinv; [ | | | others | ].
    + eapply hupd_hwf; [apply halloc_hwf; eassumption|split; [eassumption|split; eassumption]|right; rewrite halloc_next; subst b; lia].
    + intros b' Hlt Hne. rewrite Ho2 by (subst b; lia). rewrite halloc_old by (subst b; lia). now apply Hfr1.
    + rewrite upd_same. apply copied_is_owned; auto.
    + cbn [blk]. intros b' Hb'. injection Hb' as <-. left. subst b. lia.
  - (* SCopyCtor *)
    destruct (owns_s_free _ _ _ Hwf (sinv_obj _ _ i Hinv)) as (h1 & Hf & Hwf1 & Hn1 & Hfr1).
    rewrite Hf. cbn [bind].
    assert (Hoj : owns_s h1 (ob w j) (s j)).
    { apply owns_s_to with (h := hp w); [apply (sinv_obj _ _ j Hinv)|]. intros b Hb. apply Hfr1.
      intros Hi. exact (sinv_distinct _ _ _ _ _ Hinv (fun e => Hok (eq_sym e)) Hb Hi). }
    destruct (s_replace_copy w s i (SPtr (blk (ob w j)) 0) (size (ob w j)) (s j) h1 (upd s i (s j)) Hinv Hwf1 Hn1 Hfr1
                (src_ok_s_all _ _ _ Hwf1 Hoj) (upd_same _ _ _ _) (fun k Hk => upd_other _ _ _ _ _ Hk)) as (r & Hr & Hinv1).
    rewrite Hr. cbn [bind]. eauto.
  - (* SMoveCtor *)
    destruct (owns_s_free _ _ _ Hwf (sinv_obj _ _ i Hinv)) as (h1 & Hf & Hwf1 & Hn1 & Hfr1).
    rewrite Hf. cbn [bind]. eexists. split; [reflexivity|].
    smove Hinv; [exact Hok | exact Hwf1 | | | | ].
    + intros b Hlt Hne. now apply Hfr1.
    + rewrite upd_other by auto. now rewrite upd_same.
    + now rewrite upd_same.
    + intros k Hki Hkj. now rewrite !upd_other by auto.
  - (* SMoveAssign *)
    destruct (Nat.eqb_spec i j) as [->|Hij]; [eauto|].
    destruct (owns_s_free _ _ _ Hwf (sinv_obj _ _ i Hinv)) as (h1 & Hf & Hwf1 & Hn1 & Hfr1).
    rewrite Hf. cbn [bind]. eexists. split; [reflexivity|].
    smove Hinv; [exact Hij | exact Hwf1 | | | | ].
    + intros b Hlt Hne. now apply Hfr1.
    + rewrite upd_other by auto. now rewrite upd_same.
    + now rewrite upd_same.
    + intros k Hki Hkj. now rewrite !upd_other by auto.
  - (* SCopyAssign *)
    destruct (Nat.eqb_spec i j) as [->|Hij].
    + eexists. split; [reflexivity|]. apply (inv_ext owns_s w s _ Hinv). intros k.
      destruct (Nat.eq_dec k j) as [->|Hk]; [now rewrite upd_same | now rewrite upd_other].
    + destruct (owns_s_free _ _ _ Hwf (sinv_obj _ _ i Hinv)) as (h1 & Hf & Hwf1 & Hn1 & Hfr1).
      rewrite Hf. cbn [bind].
      assert (Hoj : owns_s h1 (ob w j) (s j)).
      { apply owns_s_to with (h := hp w); [apply (sinv_obj _ _ j Hinv)|]. intros b Hb. apply Hfr1.
        intros Hi. exact (sinv_distinct _ _ _ _ _ Hinv (fun e => Hij (eq_sym e)) Hb Hi). }
      destruct (s_replace_copy w s i (SPtr (blk (ob w j)) 0) (size (ob w j)) (s j) h1 (upd s i (s j)) Hinv Hwf1 Hn1 Hfr1
                  (src_ok_s_all _ _ _ Hwf1 Hoj) (upd_same _ _ _ _) (fun k Hk => upd_other _ _ _ _ _ Hk)) as (r & Hr & Hinv1).
      rewrite Hr. cbn [bind]. eauto.
  - (* SAssignCstr *)
    pose proof (cstr_len_le l) as Hcl.
    destruct (s_copy_string_ok_t (hp w) (SExt (l ++ [0%N])) (cstr_len l) (firstn (cstr_len l) (l ++ [0%N])) Hwf
                (src_ok_ext (hp w) (l ++ [0%N]) (cstr_len l) ltac:(rewrite app_length; lia)))
      as (h1 & Hcs & Hwf1 & Hn1 & Hfr1 & Hnew1).
    rewrite Hcs. cbn [bind fst snd].
    assert (Hoi1 : owns_s h1 (ob w i) (s i)).
    { apply owns_s_to with (h := hp w); [apply (sinv_obj _ _ i Hinv)|]. intros b Hb. apply Hfr1.
      pose proof (sinv_lt w s i b Hinv Hb). lia. }
    destruct (owns_s_free _ _ _ Hwf1 Hoi1) as (h2 & Hf & Hwf2 & Hn2 & Hfr2).
    rewrite Hf. cbn [bind]. eexists. split; [reflexivity|].
    sset Hinv; [exact Hwf2 | | | others | ].
    + intros b Hlt Hne. rewrite Hfr2 by assumption. apply Hfr1. lia.
    + rewrite upd_same. apply copied_is_owned; [|apply firstn_cstr_length].
      rewrite Hfr2 by (intros Hb; pose proof (sinv_lt w s i _ Hinv Hb); lia).
      rewrite Hnew1. now rewrite firstn_cstr_app.
    + cbn [blk]. intros b Hb. injection Hb as <-. left. lia.
  - (* SAssignOwn *)
    pose proof (sinv_obj _ _ i Hinv) as Hoi. pose proof (owns_s_len _ _ _ Hoi) as Hlen. rewrite Hlen.
    destruct (blk (ob w i)) as [bo|] eqn:Eblk.
    + destruct (Nat.leb_spec off (size (ob w i))) as [E|E]; [|eauto].
      rewrite <- Eblk.
      rewrite (owns_s_read_term _ _ _ off Hoi ltac:(congruence) E). cbn [bind].
      rewrite cstr_len_app0.
      set (m := skipn off (s i)). pose proof (cstr_len_le m) as Hcl.
      assert (Hml : length m = size (ob w i) - off) by (subst m; rewrite skipn_length; lia).
      destruct (s_copy_string_ok_t (hp w) (SPtr (blk (ob w i)) off) (cstr_len m) (firstn (cstr_len m) m) Hwf
                  (src_ok_s _ _ _ off (cstr_len m) Hwf Hoi ltac:(lia)))
        as (h1 & Hcs & Hwf1 & Hn1 & Hfr1 & Hnew1).
      rewrite Hcs. cbn [bind fst snd].
      assert (Hoi1 : owns_s h1 (ob w i) (s i)).
      { apply owns_s_to with (h := hp w); [assumption|]. intros b Hb. apply Hfr1.
        pose proof (sinv_lt w s i b Hinv Hb). lia. }
      destruct (owns_s_free _ _ _ Hwf1 Hoi1) as (h2 & Hf & Hwf2 & Hn2 & Hfr2).
      rewrite Hf. cbn [bind]. eexists. split; [reflexivity|].
      sset Hinv; [exact Hwf2 | | | others | ].
      * intros b Hlt Hne. rewrite Hfr2 by assumption. apply Hfr1. lia.
      * rewrite upd_same. apply copied_is_owned; [|apply firstn_cstr_length].
        rewrite Hfr2 by (intros Hb; pose proof (sinv_lt w s i _ Hinv Hb); lia). exact Hnew1.
      * cbn [blk]. intros b Hb. injection Hb as <-. left. lia.
    + unfold owns_s in Hoi. rewrite Eblk in Hoi. destruct Hoi as (Hsz & Hnil).
      eexists. split; [reflexivity|]. apply (inv_ext owns_s w s _ Hinv). intros k.
      destruct (Nat.leb_spec off (size (ob w i))); [|reflexivity].
      destruct (Nat.eq_dec k i) as [->|Hk]; [|now rewrite upd_other].
      rewrite upd_same, Hnil. rewrite skipn_nil. reflexivity.
  - (* SAppendMove *)
    destruct (s_write_ok w s i (SPtr (blk (ob w j)) 0) (size (ob w j)) (s j) (upd s i (s i ++ s j)) Hinv
                (src_ok_s_all _ _ _ Hwf (sinv_obj _ _ j Hinv)) (upd_same _ _ _ _) (fun k Hk => upd_other _ _ _ _ _ Hk))
      as (w1 & Hr & Hinv1).
    rewrite Hr. cbn [bind].
    destruct (s_reset_ok w1 (upd s i (s i ++ s j)) j (upd (upd s i (s i ++ s j)) j []) Hinv1 (upd_same _ _ _ _)
                (fun k Hk => upd_other _ _ _ _ _ Hk)) as (h2 & Hf & Hinv2).
    rewrite Hf. cbn [bind]. eauto.
  - (* SAppendObj *)
    destruct (s_write_ok w s i (SPtr (blk (ob w j)) 0) (size (ob w j)) (s j) (upd s i (s i ++ s j)) Hinv
                (src_ok_s_all _ _ _ Hwf (sinv_obj _ _ j Hinv)) (upd_same _ _ _ _) (fun k Hk => upd_other _ _ _ _ _ Hk))
      as (w1 & Hr & Hinv1).
    rewrite Hr. cbn [bind]. eauto.
  - (* SAppendCstr *)
    pose proof (cstr_len_le l) as Hcl.
    destruct (s_write_ok w s i (SExt (l ++ [0%N])) (cstr_len l) (firstn (cstr_len l) (l ++ [0%N]))
                (upd s i (s i ++ firstn (cstr_len l) l)) Hinv
                (src_ok_ext (hp w) (l ++ [0%N]) (cstr_len l) ltac:(rewrite app_length; lia))) as (w1 & Hr & Hinv1).
    { rewrite upd_same. now rewrite firstn_cstr_app. }
    { intros k Hk. now rewrite upd_other. }
    rewrite Hr. cbn [bind]. eauto.
  - (* SAppendChar *)
    destruct (s_write_ok w s i (SExt [c]) 1 [c] (upd s i (s i ++ [c])) Hinv
                (src_ok_ext (hp w) [c] 1 (le_n _)) (upd_same _ _ _ _) (fun k Hk => upd_other _ _ _ _ _ Hk)) as (w1 & Hr & Hinv1).
    rewrite Hr. cbn [bind]. eauto.
  - (* SWrite *)
    destruct (s_write_ok w s i (SExt l) (length l) (firstn (length l) l) (upd s i (s i ++ l)) Hinv
                (src_ok_ext _ _ _ (le_n _))) as (w1 & Hr & Hinv1).
    { rewrite upd_same. now rewrite firstn_all. }
    { intros k Hk. now rewrite upd_other. }
    rewrite Hr. cbn [bind]. eauto.
  - (* SPlus *)
    destruct (s_merge_ok (hp w) _ _ (s j) _ _ (s k) Hwf (src_ok_s_all _ _ _ Hwf (sinv_obj _ _ j Hinv))
                (src_ok_s_all _ _ _ Hwf (sinv_obj _ _ k Hinv))) as (h1 & t & Hm & Hwf1 & Hn1 & Hfr1 & Hot & Hnew).
    rewrite Hm. cbn [bind fst snd]. destruct mv.
    + pose proof (sinv_fresh w s h1 Hinv Hwf1 Hfr1) as Hinv0.
      destruct (s_reset_ok (mkW h1 (ob w)) s k (upd s k []) Hinv0 (upd_same _ _ _ _) (fun x Hx => upd_other _ _ _ _ _ Hx))
        as (h2 & Hf & Hinv2). cbn [hp ob] in Hf.
      rewrite Hf. cbn [bind].
      pose proof (sinv_obj _ _ k Hinv0) as Hok0. cbn [hp ob] in Hok0.
      assert (Hot2 : owns_s h2 t (s j ++ s k)).
      { destruct (owns_s_free _ _ _ Hwf1 Hok0) as (h2' & Hf' & _ & _ & Hfr2'). rewrite Hf in Hf'. injection Hf' as <-.
        apply owns_s_to with (h := h1); [assumption|]. intros b Hb. apply Hfr2'.
        intros Hk. pose proof (Hnew b Hb). pose proof (sinv_lt w s k b Hinv Hk). lia. }
      destruct (s_take_ok (mkW h2 (upd (ob w) k null_obj)) (upd s k []) i t (s j ++ s k)
                  (upd (upd s k []) i (s j ++ s k)) Hinv2 Hot2) as (w3 & Ht & Hinv3).
      { intros b x Hb Hx. cbn [ob] in Hx. pose proof (Hnew b Hb).
        destruct (Nat.eq_dec x k) as [->|Hxk]; [rewrite upd_same in Hx; discriminate|].
        rewrite upd_other in Hx by assumption. pose proof (sinv_lt w s x b Hinv Hx). lia. }
      { apply upd_same. }
      { intros x Hx. now apply upd_other. }
      cbn [hp ob] in Ht. rewrite Ht. cbn [bind]. eauto.
    + destruct (s_take_fresh w s i h1 t (s j ++ s k) (upd s i (s j ++ s k)) Hinv Hwf1 Hfr1 Hot Hnew (upd_same _ _ _ _)
                  (fun x Hx => upd_other _ _ _ _ _ Hx)) as (w3 & Ht & Hinv3).
      rewrite Ht. cbn [bind]. eauto.
  - (* SPlusCstr *)
    pose proof (cstr_len_le l) as Hcl.
    destruct (s_merge_ok (hp w) _ _ (s j) (SExt (l ++ [0%N])) (cstr_len l) (firstn (cstr_len l) (l ++ [0%N])) Hwf
                (src_ok_s_all _ _ _ Hwf (sinv_obj _ _ j Hinv))
                (src_ok_ext (hp w) (l ++ [0%N]) (cstr_len l) ltac:(rewrite app_length; lia)))
      as (h1 & t & Hm & Hwf1 & Hn1 & Hfr1 & Hot & Hnew).
    rewrite Hm. cbn [bind fst snd]. rewrite firstn_cstr_app in Hot.
    destruct (s_take_fresh w s i h1 t _ (upd s i (s j ++ firstn (cstr_len l) l)) Hinv Hwf1 Hfr1 Hot Hnew (upd_same _ _ _ _)
                (fun x Hx => upd_other _ _ _ _ _ Hx)) as (w3 & Ht & Hinv3).
    rewrite Ht. cbn [bind]. eauto.
  - (* STrim *)
    pose proof (sinv_obj _ _ j Hinv) as Hoj. pose proof (owns_s_len _ _ _ Hoj) as Hlenj.
    rewrite (owns_s_read_all _ _ _ Hoj). cbn [bind].
    destruct (trim_bounds_spec (s j)) as (Htr & Hbd).
    destruct (trim_bounds (s j)) as (off, len) eqn:Etb. cbn [fst snd] in *.
    destruct (s_copy_string_ok_t (hp w) (SPtr (blk (ob w j)) off) len (firstn len (skipn off (s j))) Hwf
                (src_ok_s _ _ _ off len Hwf Hoj ltac:(lia))) as (h1 & Hcs & Hwf1 & Hn1 & Hfr1 & Hnew1).
    rewrite Hcs. cbn [bind fst snd].
    destruct (s_take_fresh w s i h1 (mkObj (Some (next (hp w))) len 0) (trim_spec (s j)) (upd s i (trim_spec (s j)))
                Hinv Hwf1) as (w3 & Ht & Hinv3).
    { intros b Hb. apply Hfr1. lia. }
    { rewrite <- Htr. apply copied_is_owned; [assumption|]. rewrite firstn_length, skipn_length. lia. }
    { cbn [blk]. intros b Hb. injection Hb as <-. lia. }
    { apply upd_same. }
    { intros x Hx. now apply upd_other. }
    rewrite Ht. cbn [bind]. eauto.
  - (* SEqObj *)
    pose proof (sinv_obj _ _ i Hinv) as Hoi. pose proof (owns_s_len _ _ _ Hoi) as Hleni.
    pose proof (sinv_obj _ _ j Hinv) as Hoj. pose proof (owns_s_len _ _ _ Hoj) as Hlenj.
    destruct (Nat.eqb_spec (size (ob w i)) (size (ob w j))) as [E|E].
    + rewrite (owns_s_read_all _ _ _ Hoi). cbn [bind]. rewrite E, (owns_s_read_all _ _ _ Hoj). cbn [bind]. eauto.
    + rewrite list_eqb_len by lia. eauto.
  - (* SEqCstr *)
    pose proof (cstr_len_le l) as Hcl.
    rewrite (s_eq_ext_ok w s i (firstn (cstr_len l) l) (cstr_len l) (l ++ [0%N]) Hinv
               ltac:(rewrite app_length; lia) (firstn_cstr_app _ _) (firstn_cstr_length _)). cbn [bind]. eauto.
  - (* SEqNull *)
    rewrite (owns_s_len _ _ _ (sinv_obj _ _ i Hinv)). eauto.
  - (* SIsEqual *)
    rewrite (s_eq_ext_ok w s i l (length l) l Hinv (le_n _) (firstn_all _) eq_refl). cbn [bind]. eauto.
  - (* SReset *)
    destruct (s_reset_ok w s i (upd s i []) Hinv (upd_same _ _ _ _) (fun k Hk => upd_other _ _ _ _ _ Hk)) as (h1 & Hf & Hinv1).
    rewrite Hf. cbn [bind]. eauto.
  - (* SDetach *)
    destruct (s_reset_ok w s i (upd s i []) Hinv (upd_same _ _ _ _) (fun k Hk => upd_other _ _ _ _ _ Hk)) as (h1 & Hf & Hinv1).
    rewrite Hf. cbn [bind]. eauto.
  - (* SStepBack *)
    pose proof (sinv_obj _ _ i Hinv) as Hoi. pose proof (owns_s_len _ _ _ Hoi) as Hlen. rewrite Hlen.
    destruct (Nat.leb_spec n (size (ob w i))) as [E|E]; [|eauto].
    set (nl := size (ob w i) - n).
    destruct (blk (ob w i)) as [bo|] eqn:Eblk.
    + unfold owns_s in Hoi. rewrite Eblk in Hoi. destruct Hoi as (rest & Hc & Hsz).
      destruct (wr_range_ok (hp w) bo _ nl [0%N] Hc ltac:(rewrite app_length; cbn [length]; lia)) as (h1 & Hwr & Hb1 & Ho1 & Hn1).
      unfold wr1. rewrite Hwr. cbn [bind]. eexists. split; [reflexivity|].
      sset Hinv; [ | | | others | ].
      * eapply hupd_hwf; [exact Hwf|split; [eassumption|split; eassumption]|right; exact (sinv_lt w s i bo Hinv Eblk)].
      * intros b Hlt Hne. apply Ho1. rewrite Eblk in Hne. congruence.
      * rewrite upd_same. unfold owns_s. cbn [blk size].
        exists (skipn (nl + 1) (s i ++ 0%N :: rest)). split; [|rewrite firstn_length; lia].
        rewrite Hb1. f_equal. unfold splice. cbn [length]. rewrite firstn_app.
        replace (nl - length (s i)) with 0 by lia. now rewrite firstn_O, app_nil_r.
      * cbn [blk]. intros b Hb. right. now rewrite Eblk.
    + cbn [bind]. unfold owns_s in Hoi. rewrite Eblk in Hoi. destruct Hoi as (Hsz & Hnil).
      eexists. split; [reflexivity|].
      sset Hinv; [exact Hwf | reflexivity | | others | cbn; discriminate].
      rewrite upd_same, Hnil. rewrite firstn_nil. unfold owns_s. cbn [blk size]. split; [subst nl; lia|reflexivity].
  - (* SReverse *)
    pose proof (sinv_obj _ _ i Hinv) as Hoi. pose proof (owns_s_len _ _ _ Hoi) as Hlen.
    rewrite (owns_s_read_all _ _ _ Hoi). cbn [bind]. rewrite <- Hlen, rev_loop_spec.
    destruct (blk (ob w i)) as [bo|] eqn:Eblk.
    + unfold owns_s in Hoi. rewrite Eblk in Hoi. destruct Hoi as (rest & Hc & Hsz).
      destruct (wr_range_ok (hp w) bo _ 0 (reverse_spec idx (s i)) Hc
                  ltac:(rewrite reverse_spec_length, app_length; lia)) as (h1 & Hwr & Hb1 & Ho1 & Hn1).
      rewrite Hwr. cbn [bind]. eexists. split; [reflexivity|].
      apply (inv_ob_ext owns_s (mkW h1 (upd (ob w) i (mkObj (blk (ob w i)) (size (ob w i)) (cap (ob w i)))))).
      * reflexivity.
      * intros k. cbn [ob]. destruct (Nat.eq_dec k i) as [->|Hk]; [now rewrite upd_same, obj_eta | now rewrite upd_other].
      * sset Hinv; [ | | | others | ].
        -- eapply hupd_hwf; [exact Hwf|split; [eassumption|split; eassumption]|right; exact (sinv_lt w s i bo Hinv Eblk)].
        -- intros b Hlt Hne. apply Ho1. rewrite Eblk in Hne. congruence.
        -- rewrite upd_same. unfold owns_s. cbn [blk size]. rewrite Eblk. exists rest.
           split; [|rewrite reverse_spec_length; lia]. rewrite Hb1. f_equal.
           change (s i ++ 0%N :: rest) with ([] ++ s i ++ 0%N :: rest). change 0 with (length (@nil N)).
           rewrite splice_app_mid by apply reverse_spec_length. reflexivity.
        -- cbn [blk]. intros b Hb. right. exact Hb.
    + unfold owns_s in Hoi. rewrite Eblk in Hoi. destruct Hoi as (Hsz & Hnil).
      rewrite Hnil. unfold reverse_spec. rewrite firstn_nil, skipn_nil. cbn [rev app]. rewrite wr_range_nil. cbn [bind].
      eexists. split; [reflexivity|]. apply (inv_ext owns_s w s _ Hinv). intros k.
      destruct (Nat.eq_dec k i) as [->|Hk]; [now rewrite upd_same | now rewrite upd_other].
  - (* SInsertAt *)
    pose proof (sinv_obj _ _ i Hinv) as Hoi. pose proof (owns_s_len _ _ _ Hoi) as Hlen.
    unfold insert_spec. rewrite Hlen.
    destruct (Nat.ltb_spec idx (size (ob w i))) as [E|E].
    + rewrite (owns_s_read_all _ _ _ Hoi). cbn [bind].
      destruct (insert_shift_spec (s i) c idx ltac:(lia)) as (Hspec & Hsl).
      destruct (insert_shift (s i) c idx) as (c', tmp) eqn:Eis. cbn [fst snd] in *.
      destruct (blk (ob w i)) as [bo|] eqn:Eblk.
      * unfold owns_s in Hoi. rewrite Eblk in Hoi. destruct Hoi as (rest & Hc & Hsz).
        destruct (wr_range_ok (hp w) bo _ 0 c' Hc ltac:(rewrite app_length; lia)) as (h1 & Hwr & Hb1 & Ho1 & Hn1).
        rewrite Hwr. cbn [bind].
        assert (Hinv1 : sinv (mkW h1 (ob w)) (upd s i c')).
        { apply (inv_ob_ext owns_s (mkW h1 (upd (ob w) i (mkObj (blk (ob w i)) (size (ob w i)) (cap (ob w i)))))).
          - reflexivity.
          - intros k. cbn [ob]. destruct (Nat.eq_dec k i) as [->|Hk]; [now rewrite upd_same, obj_eta | now rewrite upd_other].
          - sset Hinv; [ | | | others | ].
            + eapply hupd_hwf; [exact Hwf|split; [eassumption|split; eassumption]|right; exact (sinv_lt w s i bo Hinv Eblk)].
            + intros b Hlt Hne. apply Ho1. rewrite Eblk in Hne. congruence.
            + rewrite upd_same. unfold owns_s. cbn [blk size]. rewrite Eblk. exists rest.
              split; [|lia]. rewrite Hb1. f_equal.
              change (s i ++ 0%N :: rest) with ([] ++ s i ++ 0%N :: rest). change 0 with (length (@nil N)).
              rewrite splice_app_mid by assumption. reflexivity.
            + cbn [blk]. intros b Hb. right. exact Hb. }
        destruct (s_write_ok (mkW h1 (ob w)) (upd s i c') i (SExt [tmp]) 1 [tmp]
                    (upd s i (firstn idx (s i) ++ c :: skipn idx (s i))) Hinv1 (src_ok_ext h1 [tmp] 1 (le_n _)))
          as (w2 & Hr & Hinv2).
        { now rewrite !upd_same, Hspec. }
        { intros k Hk. now rewrite !upd_other. }
        rewrite Hr. cbn [bind]. eauto.
      * unfold owns_s in Hoi. rewrite Eblk in Hoi. destruct Hoi as (Hsz & Hnil). lia.
    + eexists. split; [reflexivity|]. apply (inv_ext owns_s w s _ Hinv). intros k.
      destruct (Nat.eq_dec k i) as [->|Hk]; [now rewrite upd_same | now rewrite upd_other].
  - (* SIter *)
    rewrite (owns_s_read_all _ _ _ (sinv_obj _ _ i Hinv)). cbn [bind]. eauto.
  - (* SLast *)
    pose proof (sinv_obj _ _ i Hinv) as Hoi. pose proof (owns_s_len _ _ _ Hoi) as Hlen.
    rewrite (owns_s_read _ _ _ (size (ob w i) - 1) _ Hoi) by (destruct (Nat.eqb_spec (size (ob w i)) 0); lia).
    cbn [bind]. rewrite Hlen.
    rewrite firstn_all2 by (rewrite skipn_length; destruct (Nat.eqb_spec (size (ob w i)) 0); lia).
    eauto.
  - (* SIsEmpty *)
    rewrite (owns_s_len _ _ _ (sinv_obj _ _ i Hinv)). eauto.
  - (* SStreamOut *)
    pose proof (sinv_obj _ _ i Hinv) as Hoi.
    destruct (blk (ob w i)) as [bo|] eqn:Eblk.
    + rewrite <- Eblk.
      pose proof (owns_s_read_term _ _ _ 0 Hoi ltac:(congruence) ltac:(lia)) as Hrd.
      rewrite Nat.sub_0_r in Hrd. cbn [skipn] in Hrd. rewrite Hrd. cbn [bind].
      rewrite cstr_len_app0, firstn_cstr_app. eauto.
    + unfold owns_s in Hoi. rewrite Eblk in Hoi. destruct Hoi as (_ & Hnil). rewrite Hnil. cbn [cstr_len firstn]. eauto.
Qed.

Lemma sinv0 : sinv world0 spec0.
Proof.
  split; [intros b _; reflexivity|]. split; [intros k; apply owns_s_null|]. intros k k' b _ Hb. discriminate.
Qed.

Theorem srun_refines : forall ops (w : wN) s, sinv w s -> Forall sop_ok ops ->
  exists w', srun ops w = Ok (w', snd (sspec_run ops s)) /\ sinv w' (fst (sspec_run ops s)).
Proof.
  induction ops as [|op ops IH]; intros w s Hinv Hok.
  - cbn. eauto.
  - inversion Hok as [|? ? Hop Hops]; subst.
    destruct (sstep_refines w s op Hinv Hop) as (w1 & Hs & Hinv1).
    destruct (IH w1 _ Hinv1 Hops) as (w2 & Hr & Hinv2).
    unfold srun, sspec_run in *. cbn [run spec_run]. rewrite Hs. cbn [bind fst snd]. rewrite Hr. cbn [bind fst snd].
    eauto.
Qed.

(* what the observer reads: the specification's list, and the terminator at [Length()] *)
Lemma sinv_dump : forall (w : wN) s k, sinv w s -> dump w k = Ok (s k) /\ term_ok w k = Ok true.
Proof.
  intros w s k Hinv. pose proof (sinv_obj _ _ k Hinv) as Ho. split.
  - unfold dump. now apply owns_s_read_all.
  - unfold term_ok. eapply owns_s_term; eauto.
Qed.
