(* BigIntShift.v -- C19 lemmas, part 3: ShiftRight (whole-word move, then bit shift). *)
From Coq Require Import Arith NArith ZArith List Bool Lia Psatz.
From Coq Require Import ZifyBool ZifyNat ZifyN.
From Qv Require Import BigIntModel BigIntProofs BigIntHelpers.
Import ListNotations.
Local Open Scope N_scope.

Lemma nth_skipn_N : forall m (l : list N) j, nth j (skipn m l) 0 = nth (m + j) l 0.
Proof.
  induction m as [|m IH]; intros l j; [reflexivity|].
  destruct l as [|a t]; [destruct j; reflexivity|]. cbn [skipn]. rewrite IH. reflexivity.
Qed.

Section W.
  Variable w : N.
  Notation B := (Bw w).
  Notation val := (value w).
  Notation pw := (pw w).
  Notation bval := (bval w).

  Lemma val_all_zero : forall l, (forall j, nth j l 0 = 0) -> val l = 0.
  Proof.
    induction l as [|a t IH]; intros H; [reflexivity|]. cbn [value].
    rewrite IH by (intros j; exact (H (S j))). pose proof (H O) as H0. cbn in H0. lia.
  Qed.

  Lemma val_ext : forall a b, (forall j, nth j a 0 = nth j b 0) -> val a = val b.
  Proof.
    induction a as [|x a IH]; intros b H.
    - symmetry. apply val_all_zero. intros j. rewrite <- H. destruct j; reflexivity.
    - destruct b as [|y b].
      + apply val_all_zero. intros j. rewrite H. destruct j; reflexivity.
      + cbn [value]. rewrite (IH b) by (intros j; exact (H (S j))).
        pose proof (H O) as H0. cbn in H0. lia.
  Qed.

  Lemma value_split : forall m l, val l = val (firstn m l) + pw m * val (skipn m l).
  Proof.
    induction m as [|m IH]; intros l.
    - cbn [firstn skipn value]. rewrite pw_0. lia.
    - destruct l as [|a t]; [cbn; lia|]. cbn [firstn skipn value]. rewrite (IH t), pw_S. lia.
  Qed.

  Lemma clear_down_spec : forall cnt l lowest, wordsok w l -> (lowest + cnt <= length l)%nat ->
    exists l', clear_down cnt l lowest = Ok l' /\ length l' = length l /\ wordsok w l' /\
      (forall j, (lowest <= j < lowest + cnt)%nat -> nth j l' 0 = 0) /\
      (forall j, (j < lowest \/ lowest + cnt <= j)%nat -> nth j l' 0 = nth j l 0).
  Proof.
    induction cnt as [|c IH]; intros l lowest Hw Hl.
    - exists l. cbn. repeat split; auto. intros j Hj. lia.
    - cbn [clear_down]. rewrite wr_ok by lia. cbn [bind].
      destruct (IH (upd l (lowest + c) 0) lowest) as (l' & Hrun & Hlen & Hw' & Hz & Hs).
      + apply wordsok_upd; [assumption|apply B_pos].
      + rewrite length_upd. lia.
      + rewrite length_upd in Hlen. exists l'. split; [exact Hrun|]. split; [exact Hlen|]. split; [exact Hw'|].
        split.
        * intros j Hj. destruct (Nat.eq_dec j (lowest + c)) as [->|Hne].
          -- rewrite Hs by lia. apply nth_upd_same. lia.
          -- apply Hz. lia.
        * intros j Hj. rewrite Hs by lia. apply nth_upd_other. lia.
  Qed.

  Lemma shr_move_spec : forall cnt l i next, wordsok w l -> (i <= next)%nat -> (next + cnt <= length l)%nat ->
    exists l', shr_move cnt l i next = Ok l' /\ length l' = length l /\ wordsok w l' /\
      (forall j, (i <= j < i + cnt)%nat -> nth j l' 0 = nth (j + (next - i)) l 0) /\
      (forall j, (j < i \/ i + cnt <= j)%nat -> nth j l' 0 = nth j l 0).
  Proof.
    induction cnt as [|c IH]; intros l i next Hw Hi Hl.
    - exists l. cbn. repeat split; auto. intros j Hj. lia.
    - cbn [shr_move]. rewrite rd_ok by lia. cbn [bind]. rewrite wr_ok by lia. cbn [bind].
      set (l1 := upd l i (nth next l 0)).
      destruct (IH l1 (S i) (S next)) as (l' & Hrun & Hlen & Hw' & Hm & Hs).
      + apply wordsok_upd; [assumption|apply wordsok_nth; [assumption|lia]].
      + lia.
      + unfold l1. rewrite length_upd. lia.
      + unfold l1 in Hlen. rewrite length_upd in Hlen.
        exists l'. split; [exact Hrun|]. split; [exact Hlen|]. split; [exact Hw'|]. split.
        * intros j Hj. destruct (Nat.eq_dec j i) as [->|Hne].
          -- rewrite Hs by lia. unfold l1. rewrite nth_upd_same by lia. f_equal; lia.
          -- rewrite Hm by lia. unfold l1. rewrite nth_upd_other by lia. f_equal; lia.
        * intros j Hj. rewrite Hs by lia. unfold l1. apply nth_upd_other. lia.
  Qed.

  (* the whole-word part of ShiftRight *)
  Lemma shr_words_spec : forall s move, WF w s -> (1 <= move <= index s)%nat ->
    exists l1 l2, shr_move (S (index s - move)) (words s) 0 move = Ok l1 /\
      clear_down move l1 (S (index s) - move) = Ok l2 /\
      WF w (mkBig l2 (index s - move)) /\ val l2 = bval s / pw move /\ length l2 = length (words s).
  Proof.
    intros s move HWF Hm. pose proof HWF as ((Hw & Hi & Ha) & Ht).
    destruct (shr_move_spec (S (index s - move)) (words s) 0 move Hw ltac:(lia) ltac:(lia))
      as (l1 & Hrun1 & Hlen1 & Hw1 & Hm1 & Hs1).
    destruct (clear_down_spec move l1 (S (index s) - move) Hw1 ltac:(lia))
      as (l2 & Hrun2 & Hlen2 & Hw2 & Hz2 & Hs2).
    exists l1, l2. split; [exact Hrun1|]. split; [exact Hrun2|].
    assert (Hnth : forall j, nth j l2 0 = nth (move + j) (words s) 0).
    { intros j. destruct (Nat.le_gt_cases j (index s - move)) as [Hj|Hj].
      - rewrite Hs2 by lia. rewrite Hm1 by lia. f_equal; lia.
      - rewrite (Ha (move + j)%nat) by lia.
        destruct (Nat.le_gt_cases j (index s)) as [Hj2|Hj2].
        + apply Hz2. lia.
        + rewrite Hs2 by lia. rewrite Hs1 by lia. apply Ha. lia. }
    split; [|split; [|lia]].
    - split; [split; [exact Hw2|split; [cbn; lia|]]|].
      + intros j Hj. cbn [words index] in *. rewrite Hnth. apply Ha. lia.
      + right. cbn [words index]. rewrite Hnth. replace (move + (index s - move))%nat with (index s) by lia.
        destruct Ht as [Ht|Ht]; [lia|exact Ht].
    - assert (Hv2 : val l2 = val (skipn move (words s))).
      { apply val_ext. intros j. rewrite Hnth, nth_skipn_N. reflexivity. }
      pose proof (value_split move (words s)) as Hsp. rewrite <- Hv2 in Hsp.
      pose proof (value_firstn_bound w (words s) move Hw ltac:(lia)) as Hlow.
      unfold BigIntProofs.bval.
      apply (N.div_unique _ _ _ (val (firstn move (words s)))); [exact Hlow|]. lia.
  Qed.

  (* ----------------------------------------------------------------------- *)
  (* the bit part *)
  Section Bits.
    Variable off : N.
    Hypothesis off_pos : 0 < off.
    Hypothesis off_lt : off < w.
    Let E := 2 ^ off.
    Let F := 2 ^ (w - off).

    Lemma EF : B = E * F.
    Proof. unfold Bw, E, F. rewrite <- N.pow_add_r. f_equal; lia. Qed.
    Lemma E_pos : 0 < E.
    Proof. unfold E. apply N.neq_0_lt_0, N.pow_nonzero. lia. Qed.
    Lemma F_pos : 0 < F.
    Proof. unfold F. apply N.neq_0_lt_0, N.pow_nonzero. lia. Qed.

    Lemma word_split : forall b, b < B ->
      b / E < F /\ (b * F) mod B = (b mod E) * F /\ b = (b / E) * E + b mod E /\ b mod E < E.
    Proof.
      intros b Hb. pose proof EF as HEF. pose proof E_pos as HE. pose proof F_pos as HF.
      pose proof (N.div_mod b E ltac:(lia)) as Hdm. pose proof (N.mod_lt b E ltac:(lia)) as Hml.
      split; [apply N.div_lt_upper_bound; lia|]. split; [|split; [lia|exact Hml]].
      symmetry. apply (N.mod_unique _ _ (b / E)).
      - rewrite HEF. apply N.mul_lt_mono_pos_r; assumption.
      - rewrite HEF. rewrite Hdm at 1. ring.
    Qed.

    Lemma shr_loop_spec : forall cnt l i, wordsok w l -> (i + cnt < length l)%nat ->
      nth i l 0 < F -> (forall j, (i + cnt < j)%nat -> nth j l 0 = 0) ->
      exists l', shr_loop w cnt l i off = Ok l' /\ length l' = length l /\ wordsok w l' /\
        (forall j, (i + cnt < j)%nat -> nth j l' 0 = 0) /\
        E * val l' + val (firstn (S i) l) = val l + E * val (firstn (S i) l).
    Proof.
      pose proof EF as HEF. pose proof E_pos as HE. pose proof F_pos as HF.
      induction cnt as [|c IH]; intros l i Hw Hl Ha Hz.
      - exists l. cbn [shr_loop]. split; [reflexivity|]. split; [reflexivity|]. split; [exact Hw|].
        split; [exact Hz|].
        rewrite (value_firstn_zero_above w l (S i)) by (intros j Hj; apply Hz; lia). lia.
      - cbn [shr_loop]. rewrite rd_ok by lia. cbn [bind]. rewrite rd_ok by lia. cbn [bind].
        set (a := nth i l 0) in *. set (b := nth (S i) l 0).
        pose proof (wordsok_nth w l (S i) Hw ltac:(lia)) as Hb. fold b in Hb.
        destruct (word_split b Hb) as (Hhb & Hshift & Hbsplit & Hlb).
        set (hb := b / E) in *. set (lb := b mod E) in *.
        fold F. fold E. rewrite Hshift.
        unfold F at 1. rewrite lor_disjoint_add by exact Ha. fold F.
        assert (Hnew : a + lb * F < B).
        { rewrite HEF. assert (lb * F + F <= E * F).
          { replace (lb * F + F) with ((lb + 1) * F) by ring. apply N.mul_le_mono_r. lia. }
          lia. }
        rewrite wr_ok by lia. cbn [bind].
        set (l1 := upd l i (a + lb * F)).
        rewrite wr_ok by (unfold l1; rewrite length_upd; lia). cbn [bind].
        set (l2 := upd l1 (S i) hb).
        assert (Hw2 : wordsok w l2).
        { unfold l2, l1. apply wordsok_upd; [apply wordsok_upd; assumption|]. rewrite HEF.
          assert (F <= E * F) by (replace F with (1 * F) at 1 by ring; apply N.mul_le_mono_r; lia). lia. }
        assert (Hlen2 : length l2 = length l) by (unfold l2, l1; rewrite !length_upd; reflexivity).
        destruct (IH l2 (S i) Hw2 ltac:(lia)) as (l' & Hrun & Hlen & Hw' & Hz' & Hval).
        + unfold l2. rewrite nth_upd_same by (unfold l1; rewrite length_upd; lia). exact Hhb.
        + intros j Hj. unfold l2, l1. rewrite !nth_upd_other by lia. apply Hz. lia.
        + exists l'. split; [exact Hrun|]. split; [lia|]. split; [exact Hw'|].
          split; [intros j Hj; apply Hz'; lia|].
          (* algebra *)
          pose proof (value_upd w l i (a + lb * F) ltac:(lia)) as Hv1. fold a l1 in Hv1.
          assert (Hn1 : nth (S i) l1 0 = b) by (unfold l1; apply nth_upd_other; lia).
          pose proof (value_upd w l1 (S i) hb ltac:(unfold l1; rewrite length_upd; lia)) as Hv2.
          fold l2 in Hv2. rewrite Hn1 in Hv2.
          assert (N2a : nth (S i) l2 0 = hb).
          { unfold l2. apply nth_upd_same. unfold l1. rewrite length_upd. lia. }
          assert (N2b : nth i l2 0 = a + lb * F).
          { unfold l2. rewrite nth_upd_other by lia. unfold l1. apply nth_upd_same. lia. }
          assert (F2 : firstn i l2 = firstn i l).
          { unfold l2. rewrite firstn_upd_ge by lia. unfold l1. apply firstn_upd_ge. lia. }
          rewrite (value_firstn_S w l2 (S i)) in Hval by lia.
          rewrite (value_firstn_S w l2 i) in Hval by lia.
          rewrite N2a, N2b, F2 in Hval.
          rewrite (value_firstn_S w l i) by lia. fold a.
          set (f := val (firstn i l)) in *.
          rewrite pw_S in *. set (P := pw i) in *.
          set (V := val l) in *. set (V1 := val l1) in *. set (V2 := val l2) in *. set (V' := val l') in *.
          rewrite HEF in *. clearbody f P V V1 V2 V' hb lb a.
          rewrite Hbsplit in Hv2. clear - Hv1 Hv2 Hval. nia.
    Qed.

    Lemma shr_bits_spec : forall s, WF w s ->
      exists s', shr_bits w s off = Ok s' /\ WF w s' /\ bval s' = bval s / E /\
                 length (words s') = length (words s).
    Proof.
      pose proof EF as HEF. pose proof E_pos as HE. pose proof F_pos as HF.
      intros s HWF. pose proof HWF as ((Hw & Hi & Ha) & Ht). unfold shr_bits.
      destruct (N.eqb_spec off 0) as [|_]; [lia|].
      rewrite rd_ok by lia. cbn [bind]. rewrite wr_ok by lia. cbn [bind].
      set (a0 := nth 0 (words s) 0). fold E.
      pose proof (wordsok_nth w _ 0%nat Hw ltac:(lia)) as Ha0. fold a0 in Ha0.
      destruct (word_split a0 Ha0) as (Hh0 & _ & Hsplit & Hl0).
      set (l0 := upd (words s) 0 (a0 / E)).
      assert (Hw0 : wordsok w l0).
      { unfold l0. apply wordsok_upd; [assumption|]. rewrite HEF.
        assert (F <= E * F) by (replace F with (1 * F) at 1 by ring; apply N.mul_le_mono_r; lia). lia. }
      assert (Hlen0 : length l0 = length (words s)) by (unfold l0; apply length_upd).
      destruct (shr_loop_spec (index s) l0 0 Hw0 ltac:(lia)) as (l1 & Hrun & Hlen1 & Hw1 & Hz1 & Hval).
      { unfold l0. rewrite nth_upd_same by lia. exact Hh0. }
      { intros j Hj. unfold l0. rewrite nth_upd_other by lia. apply Ha. lia. }
      rewrite Hrun. cbn [bind]. rewrite rd_ok by lia. cbn [bind].
      (* the value *)
      rewrite (value_firstn_S w l0 0) in Hval by lia. cbn [firstn value] in Hval. rewrite pw_0 in Hval.
      unfold l0 in Hval at 1 3. rewrite nth_upd_same in Hval by lia.
      pose proof (value_upd w (words s) 0 (a0 / E) ltac:(lia)) as Hv0. fold a0 l0 in Hv0. rewrite pw_0 in Hv0.
      assert (Heq : bval s = E * val l1 + a0 mod E).
      { unfold BigIntProofs.bval. nia. }
      assert (Hq : val l1 = bval s / E).
      { apply (N.div_unique _ _ _ (a0 mod E)); [exact Hl0|exact Heq]. }
      set (t := nth (index s) l1 0).
      destruct (negb (index s =? 0)%nat && (t =? 0)) eqn:Hc.
      - apply andb_true_iff in Hc. destruct Hc as (Hc1 & Hc2).
        apply negb_true_iff, Nat.eqb_neq in Hc1. apply N.eqb_eq in Hc2.
        exists (mkBig l1 (index s - 1)). split; [reflexivity|]. split; [|split; [exact Hq|cbn [words]; lia]].
        split; [split; [exact Hw1|split; [cbn; lia|]]|].
        + intros j Hj. cbn [words index] in *.
          destruct (Nat.eq_dec j (index s)) as [->|Hne]; [exact Hc2|apply Hz1; lia].
        + unfold top_nonzero. cbn [words index].
          destruct (Nat.eq_dec (index s - 1) 0) as [E0|E0]; [left; exact E0|right]. intros Hz.
          assert (Hsmall : val l1 < pw (index s - 1)).
          { rewrite <- (value_firstn_zero_above w l1 (index s - 1)).
            - apply value_firstn_bound; [assumption|lia].
            - intros j Hj. destruct (Nat.eq_dec j (index s - 1)) as [->|Hne]; [exact Hz|].
              destruct (Nat.eq_dec j (index s)) as [->|Hne2]; [exact Hc2|apply Hz1; lia]. }
          pose proof (WF_lower w s HWF Hc1) as Hlow.
          replace (index s) with (S (index s - 1)) in Hlow at 1 by lia. rewrite pw_S in Hlow.
          assert (H1 : E * (val l1 + 1) <= E * pw (index s - 1)) by (apply N.mul_le_mono_l; lia).
          assert (H2 : E * pw (index s - 1) <= B * pw (index s - 1)).
          { apply N.mul_le_mono_r. rewrite HEF.
            replace E with (E * 1) at 1 by ring. apply N.mul_le_mono_l. lia. }
          lia.
      - exists (mkBig l1 (index s)). split; [reflexivity|]. split; [|split; [exact Hq|cbn [words]; lia]].
        split; [split; [exact Hw1|split; [cbn; lia|exact Hz1]]|].
        unfold top_nonzero. cbn [words index]. apply andb_false_iff in Hc. destruct Hc as [Hc|Hc].
        + left. apply negb_false_iff, Nat.eqb_eq in Hc. exact Hc.
        + right. apply N.eqb_neq in Hc. exact Hc.
    Qed.
  End Bits.

  Lemma clear_correct : forall s, WF0 w s ->
    exists s', clear s = Ok s' /\ WF w s' /\ bval s' = 0 /\ length (words s') = length (words s).
  Proof.
    intros s (Hw & Hi & Ha). unfold clear.
    destruct (clear_down_spec (S (index s)) (words s) 0 Hw ltac:(lia)) as (l & Hrun & Hlen & Hw' & Hz & Hs).
    rewrite Hrun. cbn [bind]. exists (mkBig l 0).
    assert (Hall : forall j, nth j l 0 = 0).
    { intros j. destruct (Nat.le_gt_cases j (index s)) as [Hj|Hj]; [apply Hz; lia|].
      rewrite Hs by lia. apply Ha, Hj. }
    split; [reflexivity|]. split; [|split; [apply val_all_zero, Hall|exact Hlen]].
    split; [split; [exact Hw'|split; [cbn; lia|]]|left; reflexivity].
    intros j _. apply Hall.
  Qed.

  Hypothesis w_pos : 0 < w.

  Theorem shift_right_correct : forall s offset, WF w s ->
    exists s', shift_right w s offset = Ok s' /\ WF w s' /\ bval s' = bval s / 2 ^ offset /\
               length (words s') = length (words s).
  Proof.
    intros s offset HWF. unfold shift_right.
    destruct (N.leb_spec w offset) as [Hge|Hlt].
    - (* whole words first *)
      pose proof (N.div_mod offset w ltac:(lia)) as Hdm. pose proof (N.mod_lt offset w ltac:(lia)) as Hml.
      set (mv := offset / w) in *.
      assert (Hoff : offset - mv * w = offset mod w) by lia. rewrite Hoff.
      assert (Hmv : 1 <= mv).
      { unfold mv. apply N.div_le_lower_bound; lia. }
      assert (Hpow : 2 ^ offset = pw (N.to_nat mv) * 2 ^ (offset mod w)).
      { rewrite pw_bits, N2Nat.id, <- N.pow_add_r. f_equal. lia. }
      destruct (Nat.ltb_spec (index s) (N.to_nat mv)) as [Hsmall|Hbig].
      + destruct (clear_correct s (proj1 HWF)) as (s' & Hrun & HWF' & Hv & Hl).
        exists s'. split; [exact Hrun|]. split; [exact HWF'|]. split; [|exact Hl].
        rewrite Hv. symmetry. apply N.div_small.
        pose proof (WF0_bound w s (proj1 HWF)) as Hb.
        assert (pw (S (index s)) <= pw (N.to_nat mv)).
        { replace (N.to_nat mv) with (S (index s) + (N.to_nat mv - S (index s)))%nat by lia.
          rewrite pw_add. pose proof (pw_pos w (N.to_nat mv - S (index s))).
          pose proof (pw_pos w (S (index s))). nia. }
        assert (0 < 2 ^ (offset mod w)) by (apply N.neq_0_lt_0, N.pow_nonzero; lia).
        rewrite Hpow. nia.
      + destruct (shr_words_spec s (N.to_nat mv) HWF ltac:(lia)) as (l1 & l2 & Hr1 & Hr2 & HWF2 & Hv2 & Hl2).
        rewrite Hr1. cbn [bind]. rewrite Hr2. cbn [bind].
        destruct (N.eq_dec (offset mod w) 0) as [Hz|Hnz].
        * unfold shr_bits. rewrite Hz. cbn [N.eqb]. eexists. split; [reflexivity|].
          split; [exact HWF2|]. split; [|exact Hl2].
          unfold BigIntProofs.bval at 1. cbn [words]. rewrite Hv2, Hpow, Hz. cbn. rewrite N.mul_1_r. reflexivity.
        * destruct (shr_bits_spec (offset mod w) ltac:(lia) Hml _ HWF2) as (s' & Hrun & HWF' & Hv & Hl).
          exists s'. split; [exact Hrun|]. split; [exact HWF'|]. split; [|cbn [words] in Hl; lia].
          rewrite Hv. unfold BigIntProofs.bval at 1. cbn [words]. rewrite Hv2, Hpow.
          apply N.div_div; [pose proof (pw_pos w (N.to_nat mv)); lia|apply N.pow_nonzero; lia].
    - destruct (N.eq_dec offset 0) as [->|Hnz].
      + unfold shr_bits. cbn [N.eqb]. exists s. split; [reflexivity|]. split; [exact HWF|].
        split; [cbn; rewrite N.div_1_r; reflexivity|reflexivity].
      + exact (shr_bits_spec offset ltac:(lia) Hlt s HWF).
  Qed.
End W.
