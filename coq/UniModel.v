(* UniModel.v -- C20: executable model of
     Unicode::ToUTF            (Include/Unicode.hpp, char / char16_t / char32_t emitters)
     Digit::HexStringToNumber  (Include/Digit.hpp)
     JSONUtils::UnEscape       (Include/JSONUtils.hpp, complete function; the \u branch
                                with the surrogate test and the recombination is the
                                property's subject) and the string case of JSON parseValue,
   the specification (RFC 3629 / RFC 2781 / UTF-32 encodings written with / and mod,
   RFC 8259 escape text) and the boolean oracles.  Definitions only.

   The model describes the code AFTER finding D11 is repaired (high-surrogate test
   (code & 0xFC00) == 0xD800 instead of (code >> 8) == 0xD8), and with the repairs of
   the JSON component in place that touch UnEscape outside the property's domain:
   D15 (a backslash as the last unit returns 0 instead of reading content[length]) and
   D61 (template flag Closed_T: the parser's calls return 0 when the closing quote is
   missing), and D92 (a high surrogate is joined with the next escape only if the
   next two units are a backslash and u / U; otherwise UnEscape returns 0 -- before,
   the two units were skipped unread) and D93 (each \uXXXX group has to be four
   hexadecimal digits, else UnEscape returns 0 -- before, the scan stopped at the first
   non-digit but four units were consumed anyway).  None of these failure branches is
   reachable from the texts the theorems speak about.

   Conventions: code units and machine integers are N; SizeT32 arithmetic that can
   wrap is written [u32]; Char_T(x) is [cast w x] with w = sizeof(Char_T) in {1,2,4};
   code units are the unsigned value of the unit (a negative char compares below
   '0' in C++ and above 'f' here: neither is a digit or a notation character).
   Offsets/lengths are assumed < 2^32 (SizeT), so offset arithmetic is not wrapped. *)
From Coq Require Import NArith List Bool.
From Qv Require Import gen.Tables_uni.
Import ListNotations.
Local Open Scope N_scope.

(* ------------------------------------------------------------------ *)
(* machine integers                                                     *)

Definition u32 (x : N) : N := x mod 4294967296.
Definition c8 (x : N) : N := x mod 256.
Definition c16 (x : N) : N := x mod 65536.
Definition c32 (x : N) : N := x mod 4294967296.

(* ------------------------------------------------------------------ *)
(* Unicode.hpp                                                          *)

(* UnicodeToUTF<Char_T, Stream_T, 1>::ToUTF *)
Definition to_utf8 (u : N) : list N :=
  if u <? 0x80 then [c8 u]
  else
    (if u <? 0x800 then [c8 (N.lor 0xC0 (N.shiftr u 6))]
     else if u <? 0x10000 then
       [c8 (N.lor 0xE0 (N.shiftr u 12));
        c8 (N.lor 0x80 (N.land (N.shiftr u 6) 0x3F))]
     else
       [c8 (N.lor 0xF0 (N.shiftr u 18));
        c8 (N.lor 0x80 (N.land (N.shiftr u 12) 0x3F));
        c8 (N.lor 0x80 (N.land (N.shiftr u 6) 0x3F))])
    ++ [c8 (N.lor 0x80 (N.land u 0x3F))].

(* UnicodeToUTF<Char_T, Stream_T, 2>::ToUTF *)
Definition to_utf16 (u : N) : list N :=
  if u <? 0x10000 then [c16 u]
  else
    let u' := u32 (u - 0x10000) in      (* u >= 0x10000: no borrow *)
    [c16 (N.lor 0xD800 (N.shiftr u' 10)); c16 (N.lor 0xDC00 (N.land u' 0x3FF))].

(* UnicodeToUTF<Char_T, Stream_T, 4>::ToUTF *)
Definition to_utf32 (u : N) : list N := [c32 u].

(* Unicode::ToUTF<Char_T>: dispatch on sizeof(Char_T) (1, 2 or 4; nothing else compiles) *)
Definition to_utf (w : N) (u : N) : list N :=
  if w =? 1 then to_utf8 u else if w =? 2 then to_utf16 u else to_utf32 u.

(* ------------------------------------------------------------------ *)
(* Digit.hpp: HexStringToNumber<SizeT32>                                *)

(* one iteration of the loop: Some number' (continue) or None (break) *)
Definition hex_step (number digit : N) : option N :=
  if (dch_zero <=? digit) && (digit <=? dch_nine) then
    Some (N.lor (u32 (N.shiftl number 4)) (u32 (digit + 4294967296 - dch_zero)))
  else if (dch_ua <=? digit) && (digit <=? dch_uf) then
    Some (N.lor (u32 (N.shiftl number 4)) (u32 (digit + 4294967296 - dch_seven)))
  else if (dch_a <=? digit) && (digit <=? dch_f) then
    Some (N.lor (u32 (N.shiftl number 4)) (u32 (digit + 4294967296 - dch_uw)))
  else None.

Fixpoint hex_loop (ds : list N) (number : N) : N :=
  match ds with
  | [] => number
  | d :: r => match hex_step number d with
              | Some n' => hex_loop r n'
              | None => number
              end
  end.

(* HexStringToNumber<SizeT32>(value, length): at most [len] units, stops at the
   first unit that is not a hexadecimal digit *)
Definition hex_string_to_number (value : list N) (len : nat) : N :=
  hex_loop (firstn len value) 0.

(* HexStringToNumber<SizeT32>(value, offset, end_offset): the overload that advances the
   caller's offset; the result is the number and how many units were consumed (the loop
   stops at the first unit that is not a hexadecimal digit, or at end_offset) *)
Fixpoint hex_scan (ds : list N) (number : N) : N * nat :=
  match ds with
  | [] => (number, O)
  | d :: r => match hex_step number d with
              | Some n' => let '(n, c) := hex_scan r n' in (n, S c)
              | None => (number, O)
              end
  end.

(* digits_end = offset + 4; code = HexStringToNumber(content, offset, digits_end);
   if (offset != digits_end) return 0;      (D93: \u needs four hexadecimal digits) *)
Definition hex_group4 (value : list N) : option N :=
  let '(n, c) := hex_scan (firstn 4 value) 0 in
  if Nat.eqb c 4 then Some n else None.

(* ------------------------------------------------------------------ *)
(* JSONUtils.hpp: JSONotation_T<Char_T> (values from the generated table) *)

Record jnot := {
  jq : N; jbs : N; jsl : N; jb : N; jt : N; jn : N; jf : N; jr : N; ju : N; jcu : N;
  cbs : N; ctab : N; clf : N; cff : N; ccr : N }.

Definition jnot_of (w : N) : jnot :=
  if w =? 1 then
    {| jq := uni_quote_c8; jbs := uni_bslash_c8; jsl := uni_slash_c8; jb := uni_b_c8; jt := uni_t_c8;
       jn := uni_n_c8; jf := uni_f_c8; jr := uni_r_c8; ju := uni_u_c8; jcu := uni_cu_c8;
       cbs := uni_ctl_bs_c8; ctab := uni_ctl_tab_c8; clf := uni_ctl_lf_c8; cff := uni_ctl_ff_c8;
       ccr := uni_ctl_cr_c8 |}
  else if w =? 2 then
    {| jq := uni_quote_c16; jbs := uni_bslash_c16; jsl := uni_slash_c16; jb := uni_b_c16; jt := uni_t_c16;
       jn := uni_n_c16; jf := uni_f_c16; jr := uni_r_c16; ju := uni_u_c16; jcu := uni_cu_c16;
       cbs := uni_ctl_bs_c16; ctab := uni_ctl_tab_c16; clf := uni_ctl_lf_c16; cff := uni_ctl_ff_c16;
       ccr := uni_ctl_cr_c16 |}
  else
    {| jq := uni_quote_c32; jbs := uni_bslash_c32; jsl := uni_slash_c32; jb := uni_b_c32; jt := uni_t_c32;
       jn := uni_n_c32; jf := uni_f_c32; jr := uni_r_c32; ju := uni_u_c32; jcu := uni_cu_c32;
       cbs := uni_ctl_bs_c32; ctab := uni_ctl_tab_c32; clf := uni_ctl_lf_c32; cff := uni_ctl_ff_c32;
       ccr := uni_ctl_cr_c32 |}.

(* ------------------------------------------------------------------ *)
(* JSONUtils::UnEscape                                                  *)

(* the test that sends a \uXXXX value to the surrogate-pair path (after D11) *)
Definition is_high_surrogate (code : N) : bool := N.land code 0xFC00 =? 0xD800.

(* code = (code ^ 0xD800) << 10;  code += low & 0x3FF;  code += 0x10000; *)
Definition recombine (code low : N) : N :=
  u32 (u32 (u32 (N.shiftl (N.lxor code 0xD800) 10) + N.land low 0x3FF) + 0x10000).

(* result of the case U_Char / CU_Char body; [r2] is the text after the 'u':
   fail (return 0), or the units emitted, the remaining text and the number of
   units consumed after the 'u' *)
Inductive ubr := UBFail | UBOk (emit rest : list N) (adv : N).

(* (content[offset] == BSlashChar) && ((content[offset + 1] == U_Char) || (content[offset + 1] == CU_Char)):
   the low half has to follow as another \u escape (D92) *)
Definition low_escape_follows (J : jnot) (r3 : list N) : bool :=
  match r3 with
  | a :: b :: _ => (a =? jbs J) && ((b =? ju J) || (b =? jcu J))
  | _ => false
  end.

Definition u_branch (w : N) (r2 : list N) : ubr :=
  let J := jnot_of w in
  if Nat.ltb 3 (length r2) then                         (* (length - offset) > 3 *)
    match hex_group4 r2 with
    | None => UBFail                                   (* fewer than four hexadecimal digits: return 0 *)
    | Some code =>
      let r3 := skipn 4 r2 in
      if negb (is_high_surrogate code) then UBOk (to_utf w code) r3 4
      else if Nat.ltb 5 (length r3) && low_escape_follows J r3 then   (* (length - offset) > 5 && \u follows *)
        let r4 := skipn 2 r3 in                        (* offset += 2: the backslash and the u *)
        (* the VALUE of the low half is not checked: low & 0x3FF (pinned by the repository's tests),
           but it has to be four hexadecimal digits as well *)
        match hex_group4 r4 with
        | None => UBFail
        | Some low => UBOk (to_utf w (recombine code low)) (skipn 4 r4) 10
        end
      else UBFail                                      (* lone high surrogate: return 0 *)
    end
  else UBFail.

(* outcome of UnEscape: return value (0 = failure) and the stream's content;
   UFuel = the fuel of the model ran out (excluded by c20_unescape_total).
   No read outside the text remains: content[offset] is read under offset < length only *)
Inductive ures := UFuel | URet (ret : N) (out : list N).

(* if (stream.IsNotEmpty()) stream.Write(content + offset2, offset - offset2) *)
Definition flush (stream pend : list N) : list N :=
  match stream with [] => [] | _ => stream ++ pend end.

(* state: [rest] = content from offset on, [off] = offset, [pend] = content[offset2..offset),
   [stream] = what has been written so far; [closed] = template argument Closed_T *)
Fixpoint unesc (fuel : nat) (closed : bool) (w : N) (rest : list N) (off : N) (pend stream : list N) : ures :=
  match fuel with
  | O => UFuel
  | S k =>
    let J := jnot_of w in
    match rest with
    | [] => if closed then URet 0 stream else URet off (flush stream pend)
    | c :: r =>
      if c =? jq J then URet (off + 1) (flush stream pend)
      else if c =? jbs J then
        let stream1 := stream ++ pend in
        match r with
        | [] => URet 0 stream1                           (* if (offset >= length) return 0 *)
        | ch :: r2 =>
          if (ch =? jq J) || (ch =? jbs J) || (ch =? jsl J) then unesc k closed w r2 (off + 2) [] (stream1 ++ [ch])
          else if ch =? jb J then unesc k closed w r2 (off + 2) [] (stream1 ++ [cbs J])
          else if ch =? jt J then unesc k closed w r2 (off + 2) [] (stream1 ++ [ctab J])
          else if ch =? jn J then unesc k closed w r2 (off + 2) [] (stream1 ++ [clf J])
          else if ch =? jf J then unesc k closed w r2 (off + 2) [] (stream1 ++ [cff J])
          else if ch =? jr J then unesc k closed w r2 (off + 2) [] (stream1 ++ [ccr J])
          else if (ch =? jcu J) || (ch =? ju J) then
            match u_branch w r2 with
            | UBFail => URet 0 stream1
            | UBOk e r' adv => unesc k closed w r' (off + 2 + adv) [] (stream1 ++ e)
            end
          else URet 0 stream1
        end
      else if (c =? clf J) || (c =? ctab J) || (c =? ccr J) then URet 0 stream
      else unesc k closed w r (off + 1) (pend ++ [c]) stream
    end
  end.

Definition unescape (closed : bool) (w : N) (content : list N) : ures :=
  unesc (S (length content)) closed w content 0 [] [].

(* JSON.hpp parseValue, case QuoteChar: [content] is the text after the opening
   quote up to the end of the document (UnEscape<true>); the value is the stream if
   it is not empty, else the first len-1 units of the text itself *)
Inductive pres := PErr (e : ures) | PFail | PStr (s : list N).

Definition parse_string_value (w : N) (content : list N) : pres :=
  match unescape true w content with
  | URet len s =>
    if len =? 0 then PFail
    else PStr (match s with [] => firstn (N.to_nat (len - 1)) content | _ => s end)
  | e => PErr e
  end.

(* ------------------------------------------------------------------ *)
(* Specification                                                        *)

(* Unicode scalar values: 0..10FFFF without the surrogates D800..DFFF *)
Definition scalarb (cp : N) : bool := (cp <? 0xD800) || ((0xDFFF <? cp) && (cp <? 0x110000)).
Definition scalar (cp : N) : Prop := cp < 0xD800 \/ (0xDFFF < cp /\ cp < 0x110000).

(* RFC 3629 section 3: the payload bits of the scalar value, high to low, are
   distributed over 0xxxxxxx / 110xxxxx 10xxxxxx / 1110xxxx 10xxxxxx 10xxxxxx /
   11110xxx 10xxxxxx 10xxxxxx 10xxxxxx *)
Definition std_utf8 (cp : N) : list N :=
  if cp <? 128 then [cp]
  else if cp <? 2048 then [192 + cp / 64; 128 + cp mod 64]
  else if cp <? 65536 then [224 + cp / 4096; 128 + (cp / 64) mod 64; 128 + cp mod 64]
  else [240 + cp / 262144; 128 + (cp / 4096) mod 64; 128 + (cp / 64) mod 64; 128 + cp mod 64].

(* RFC 2781 section 2.1 *)
Definition std_utf16 (cp : N) : list N :=
  if cp <? 65536 then [cp]
  else [55296 + (cp - 65536) / 1024; 56320 + (cp - 65536) mod 1024].

Definition std_utf32 (cp : N) : list N := [cp].

Definition std_utf (w : N) (cp : N) : list N :=
  if w =? 1 then std_utf8 cp else if w =? 2 then std_utf16 cp else std_utf32 cp.

(* independent decoders (used to validate the specification itself: decode (std cp) = cp) *)
Definition dec_utf8 (l : list N) : option N :=
  match l with
  | [a] => if a <? 128 then Some a else None
  | [a; b] => if (192 <=? a) && (a <? 224) && (128 <=? b) && (b <? 192)
              then Some ((a - 192) * 64 + (b - 128)) else None
  | [a; b; c] => if (224 <=? a) && (a <? 240) && (128 <=? b) && (b <? 192) && (128 <=? c) && (c <? 192)
                 then Some ((a - 224) * 4096 + (b - 128) * 64 + (c - 128)) else None
  | [a; b; c; d] => if (240 <=? a) && (a <? 248) && (128 <=? b) && (b <? 192) && (128 <=? c) && (c <? 192)
                       && (128 <=? d) && (d <? 192)
                    then Some ((a - 240) * 262144 + (b - 128) * 4096 + (c - 128) * 64 + (d - 128)) else None
  | _ => None
  end.

Definition dec_utf16 (l : list N) : option N :=
  match l with
  | [a] => if (a <? 55296) || (57343 <? a) then Some a else None
  | [a; b] => if (55296 <=? a) && (a <? 56320) && (56320 <=? b) && (b <? 57344)
              then Some (65536 + (a - 55296) * 1024 + (b - 56320)) else None
  | _ => None
  end.

(* shortest form: the number of UTF-8 units RFC 3629 prescribes *)
Definition utf8_len (cp : N) : nat :=
  if cp <? 128 then 1 else if cp <? 2048 then 2 else if cp <? 65536 then 3 else 4.

(* RFC 8259 section 7: \uXXXX with four hexadecimal digits, letters in either
   case; a code point above FFFF as a surrogate pair.  The text is ASCII. *)
Definition hex_char (upper : bool) (d : N) : N :=
  if d <? 10 then 48 + d else if upper then 55 + d else 87 + d.

(* letter case of the 'u' itself (the code also accepts \U) and of the four digits *)
Record ecase := { cap_u : bool; up1 : bool; up2 : bool; up3 : bool; up4 : bool }.
Definition all_lower : ecase := {| cap_u := false; up1 := false; up2 := false; up3 := false; up4 := false |}.
Definition all_upper : ecase := {| cap_u := false; up1 := true; up2 := true; up3 := true; up4 := true |}.

Definition u_escape (k : ecase) (x : N) : list N :=
  [92; if cap_u k then 85 else 117;
   hex_char (up1 k) (x / 4096); hex_char (up2 k) ((x / 256) mod 16);
   hex_char (up3 k) ((x / 16) mod 16); hex_char (up4 k) (x mod 16)].

Definition json_escape (k1 k2 : ecase) (cp : N) : list N :=
  if cp <? 65536 then u_escape k1 cp
  else u_escape k1 (55296 + (cp - 65536) / 1024) ++ u_escape k2 (56320 + (cp - 65536) mod 1024).

(* a unit that UnEscape copies unchanged: not quote, backslash, LF, TAB, CR *)
Definition plainb (c : N) : bool :=
  negb ((c =? 34) || (c =? 92) || (c =? 10) || (c =? 9) || (c =? 13)).

(* ------------------------------------------------------------------ *)
(* JSON string bodies as sequences of items (for the unbounded theorems) *)

(* a unit copied unchanged, or the escape of one scalar value *)
Inductive item := IPlain (c : N) | IEsc (k1 k2 : ecase) (cp : N).

Definition render_item (it : item) : list N :=
  match it with IPlain c => [c] | IEsc k1 k2 cp => json_escape k1 k2 cp end.
Definition value_item (w : N) (it : item) : list N :=
  match it with IPlain c => [c] | IEsc _ _ cp => std_utf w cp end.
Definition item_ok (it : item) : Prop :=
  match it with IPlain c => plainb c = true | IEsc _ _ cp => scalar cp end.
Definition is_plain (it : item) : bool := match it with IPlain _ => true | IEsc _ _ _ => false end.

(* the JSON text of the body, and the string value it denotes *)
Definition render (items : list item) : list N := concat (map render_item items).
Definition value (w : N) (items : list item) : list N := concat (map (value_item w) items).

(* ------------------------------------------------------------------ *)
(* Oracles (decide the specification on an implementation result)       *)

Fixpoint eqb_list (a b : list N) : bool :=
  match a, b with
  | [], [] => true
  | x :: a', y :: b' => (x =? y) && eqb_list a' b'
  | _, _ => false
  end.

(* direct encoding: the emitted units are the standard encoding *)
Definition c20_oracle_encode (w cp : N) (impl : list N) : bool :=
  eqb_list impl (std_utf w cp).

(* JSON text  pre \uXXXX[\uXXXX] post : the string value is pre, the standard encoding, post *)
Definition c20_oracle_json (w cp : N) (pre post impl : list N) : bool :=
  eqb_list impl (pre ++ std_utf w cp ++ post).

(* character kinds of the correspondence run: 1, 2, 4 = char, char16_t, char32_t (the kind is
   sizeof(Char_T)); 5 = wchar_t, whose code path is chosen by sizeof(wchar_t) of the platform
   (generated table) *)
Definition c20_width (kind : N) : N := if kind =? 5 then uni_sizeof_wc else kind.

(* the model's answer for the same observations *)
Definition c20_model_encode (w cp : N) : list N := to_utf w cp.

Definition c20_json_text (k1 k2 : ecase) (cp : N) (pre post : list N) : list N :=
  pre ++ json_escape k1 k2 cp ++ post ++ [34; 93].       (* closing quote and bracket *)

Definition c20_model_json (w : N) (k1 k2 : ecase) (cp : N) (pre post : list N) : pres :=
  parse_string_value w (c20_json_text k1 k2 cp pre post).

(* raw text (corpus cases: malformed pairs, lone surrogates -- model/implementation
   agreement only, outside the property) *)
Definition c20_model_raw (w : N) (body : list N) : pres :=
  parse_string_value w (body ++ [34; 93]).
