(* ValueModel.v -- executable model of Include/Value.hpp (Value<char>) and the
   abstract JSON document specification it is proved to refine (C12), plus
   Value::GroupBy and its partition specification (C18).  Definitions only;
   proofs are in ValueProofs*.v.

   The model describes the code AFTER the patches findings/D12, D17, D29, D40,
   D42, D43, D44 (GroupBy looks the key up per element and skips removed members;
   Remove(const String&) uses key.Length(); Merge resets before it switches an
   Undefined value to Array; assignment detaches / copies the right-hand side
   before it resets the left-hand side; SetPointerToValue(nullptr) leaves an
   Undefined value; the numeric constructors initialise the whole payload).

   Representation.
   * A value is a kind tag plus payload.  The scalar payloads are shared with
     the specification ([scalar]); reals are exact dyadics q/256 (8 fraction bits), which is
     the class the generator stays in (formatting / parsing of other reals is
     C09/C10's subject).
   * Objects are HArray tables, modelled at the level that C13 proves for
     them: the ordered slot list, [None] being a removed slot (tombstone).  A
     slot can also hold a key whose value is Undefined (created by v[key]).
     Slot numbers are not contractual once a tombstone exists (growth drops
     tombstones): positional operations on such an object are [None]
     (unspecified) in the model and the dump prints its size as '?'.
   * Arrays are lists with Undefined holes.
   * Pointer values point into an immutable pool of pointer-free values.
   * [Undef stale] keeps the payload bytes a move left behind (D29). *)
From Coq Require Import NArith ZArith List Bool.
From Qv Require Import gen.Tables_value.
Import ListNotations.
Local Open Scope N_scope.

Definition str := list N.

Fixpoint str_eqb (a b : str) : bool :=
  match a, b with
  | [], [] => true
  | x :: a', y :: b' => N.eqb x y && str_eqb a' b'
  | _, _ => false
  end.

(* ------------------------------------------------------------------ *)
(* scalars, their texts and coercions (shared by model and spec)        *)

Inductive scalar :=
| SNull | STrue | SFalse
| SUInt (n : N)          (* unsigned long long *)
| SInt (z : Z)           (* long long *)
| SReal (q : Z)          (* double, exactly q/256 *)
| SStr (s : str).

Definition two64 : Z := 18446744073709551616%Z.
Definition two63 : Z := 9223372036854775808%Z.

(* decimal text; fuel = number of binary digits + 1 is always enough *)
Fixpoint dec_fuel (fuel : nat) (n : N) (acc : list N) : list N :=
  match fuel with
  | O => [63]
  | S f => let (q, r) := N.div_eucl n 10 in
           if N.eqb q 0 then (48 + r) :: acc else dec_fuel f q ((48 + r) :: acc)
  end.
Definition dec_N (n : N) : list N := dec_fuel (S (N.to_nat (N.size n))) n [].
Definition dec_Z (z : Z) : list N :=
  match z with
  | Zneg p => 45 :: dec_N (Npos p)
  | _ => dec_N (Z.to_N z)
  end.

(* reals are q / real_den: every dyadic with at most 8 fraction bits (k/4,
   k/8, k/16, ... k/256); their decimal text is exact and has at most 8
   fraction digits (1/256 = 0.00390625) *)
Definition real_den : Z := 256%Z.
Definition real_den_N : N := 256.

(* the (at most 8) fraction digits of r/256: r * 390625 written with 8 digits,
   trailing zeros dropped *)
Definition pad_left (n : nat) (l : list N) : list N := repeat 48 (n - length l) ++ l.
Fixpoint drop_trailing_zeros_rev (l : list N) : list N :=
  match l with 48 :: r => drop_trailing_zeros_rev r | _ => l end.
Definition frac_digits (r : N) : list N :=
  rev (drop_trailing_zeros_rev (rev (pad_left 8 (dec_N (r * 390625))))).

(* Digit::NumberToString(double) with the default format and precision 15 on
   q/256 of moderate size (integer part below 10^7): sign, integer part, then
   "." and the exact fraction digits when there is a fraction *)
Definition real_text (q : Z) : list N :=
  let a := Z.abs q in
  let ip := Z.to_N (Z.quot a real_den) in
  let fr := Z.to_N (Z.rem a real_den) in
  (if Z.ltb q 0 then [45] else []) ++ dec_N ip ++
  (if N.eqb fr 0 then [] else 46 :: frac_digits fr).

(* result of SetNumber *)
Inductive num := NNaN | NNat (n : N) | NInt (z : Z) | NReal (q : Z).

(* Digit::StringToNumber restricted to the canonical class
     -?(0|[1-9][0-9]{0,8})(\.(25|5|75))?     (and not "-0")
   everything else is NNaN here; the generator only produces strings of the
   class or strings without digit, sign, dot or exponent characters. *)
Definition is_digit (c : N) : bool := (48 <=? c) && (c <=? 57).
Fixpoint digits_val (s : str) (acc : N) : option (N * str) :=
  match s with
  | c :: r => if is_digit c then digits_val r (acc * 10 + (c - 48)) else Some (acc, s)
  | [] => Some (acc, [])
  end.
Fixpoint take_digits (s : str) : nat :=
  match s with c :: r => if is_digit c then S (take_digits r) else O | [] => O end.
Definition parse_frac (s : str) : option N :=
  match s with
  | [] => Some 0
  | [46; 50; 53] => Some 1
  | [46; 53] => Some 2
  | [46; 55; 53] => Some 3
  | _ => None
  end.
Definition parse_unsigned (s : str) : option (N * N * bool) :=   (* int part, fraction in quarters, has fraction *)
  let nd := take_digits s in
  match s with
  | [] => None
  | c :: r =>
    if negb (is_digit c) then None
    else if (Nat.ltb 9 nd) then None
    else if N.eqb c 48 && Nat.ltb 1 nd then None
    else match digits_val s 0 with
         | Some (v, rest) =>
           match parse_frac rest with
           | Some f => Some (v, f, negb (N.eqb f 0))
           | None => None
           end
         | None => None
         end
  end.
Definition parse_num (s : str) : num :=
  match s with
  | 45 :: r =>
    match parse_unsigned r with
    | Some (v, f, true) => NReal (- (Z.of_N (real_den_N * v + 64 * f)))
    | Some (v, _, false) => if N.eqb v 0 then NNaN else NInt (- Z.of_N v)
    | None => NNaN
    end
  | _ =>
    match parse_unsigned s with
    | Some (v, f, true) => NReal (Z.of_N (real_den_N * v + 64 * f))
    | Some (v, _, false) => NNat v
    | None => NNaN
    end
  end.

Definition set_number (s : scalar) : num :=
  match s with
  | SUInt n => NNat n
  | SInt z => NInt z
  | SReal q => NReal q
  | STrue => NNat 1
  | SFalse | SNull => NNat 0
  | SStr t => parse_num t
  end.

Definition wrap_u64 (z : Z) : N := Z.to_N (Z.modulo z two64).
Definition wrap_i64 (z : Z) : Z :=
  let m := Z.modulo z two64 in if Z.ltb m two63 then m else (m - two64)%Z.

Definition get_uint64 (x : num) : N :=
  match x with
  | NNat n => n
  | NInt z => wrap_u64 z
  | NReal q => wrap_u64 (Z.quot q real_den)
  | NNaN => 0
  end.
Definition get_int64 (x : num) : Z :=
  match x with
  | NNat n => wrap_i64 (Z.of_N n)
  | NInt z => z
  | NReal q => Z.quot q real_den
  | NNaN => 0%Z
  end.
(* GetDouble in 256ths (exact below 10^15, which is all the dump prints) *)
Definition get_double_q (x : num) : Z :=
  match x with
  | NNat n => (real_den * Z.of_N n)%Z
  | NInt z => (real_den * z)%Z
  | NReal q => q
  | NNaN => 0%Z
  end.

Definition set_bool (s : scalar) : option bool :=
  match s with
  | STrue => Some true
  | SFalse | SNull => Some false
  | SUInt n => Some (0 <? n)
  | SInt z => Some (Z.ltb 0 z)
  | SReal q => Some (Z.ltb 0 q)
  | SStr t => if str_eqb t js_true then Some true else if str_eqb t js_false then Some false else None
  end.

(* SetCharAndLength *)
Definition char_and_length (s : scalar) : option str :=
  match s with
  | SStr t => Some t
  | STrue => Some js_true
  | SFalse => Some js_false
  | SNull => Some js_null
  | _ => None
  end.
(* CopyValueTo(stream) with the default format *)
Definition scalar_text (s : scalar) : str :=
  match s with
  | SStr t => t
  | SUInt n => dec_N n
  | SInt z => dec_Z z
  | SReal q => real_text q
  | STrue => js_true
  | SFalse => js_false
  | SNull => js_null
  end.

(* text skeleton of a JSON string body: what is left when escapes and control
   characters, blanks, non-ASCII units and '?' are dropped (the comparison with the real Stringify drops the
   same things, so it does not depend on the escaper, which is C08's) *)
Definition skel_keep (c : N) : bool :=
  (33 <=? c) && (c <=? 126) && negb (N.eqb c js_quote) && negb (N.eqb c js_bslash)
  && negb (N.eqb c js_slash) && negb (N.eqb c 63).
Definition str_skel (s : str) : str := filter skel_keep s.
Definition quoted (s : str) : list N := js_quote :: str_skel s ++ [js_quote].

Definition scalar_json (s : scalar) : list N :=
  match s with
  | SStr t => quoted t
  | _ => scalar_text s
  end.

(* "replace the trailing comma by the closing bracket, else append it" *)
Definition close_with (body : list N) (c : N) : list N :=
  match body with [] => [c] | _ => removelast body ++ [c] end.

(* the dump alphabet *)
Definition units_text (s : str) : list N :=
  40 :: concat (map (fun c => dec_N c ++ [46]) s) ++ [41].          (* "(" u. u. ")" *)
Definition scalar_dump (s : scalar) : list N :=
  match s with
  | SNull => [78] | STrue => [84] | SFalse => [70]
  | SUInt n => 117 :: dec_N n
  | SInt z => 105 :: dec_Z z
  | SReal q => 114 :: dec_Z q
  | SStr t => 115 :: units_text t
  end.

Definition big_q : Z := 256000000000000000%Z.
Definition dbl_dump (q : Z) : list N :=
  if Z.ltb (Z.abs q) big_q then dec_Z q else [66].
Definition num_dump (x : num) : list N :=
  match x with
  | NNaN => dec_N qn_NotANumber
  | NReal q => dec_N qn_Real ++ [58] ++ dbl_dump q
  | NNat n => dec_N qn_Natural ++ [58] ++ dec_N n
  | NInt z => dec_N qn_Integer ++ [58] ++ dec_Z z
  end.
Definition opt_units (o : option str) : list N :=
  match o with Some s => units_text s | None => [45] end.
Definition bool_dump (o : option bool) : list N :=
  match o with Some true => [49; 49] | Some false => [49; 48] | None => [48; 48] end.

(* the typed getters on a scalar, as printed by the READ operation *)
Definition scalar_read (s : scalar) : list N :=
  let x := set_number s in
  [110] ++ num_dump x ++ [59; 117] ++ dec_N (get_uint64 x) ++ [59; 105] ++ dec_Z (get_int64 x)
  ++ [59; 100] ++ dbl_dump (get_double_q x) ++ [59; 98] ++ bool_dump (set_bool s)
  ++ [59; 99] ++ opt_units (char_and_length s) ++ [59; 116] ++ units_text (scalar_text s)
  ++ [59; 108] ++ dec_N (match s with SStr t => N.of_nat (length t) | _ => 0 end).
(* the same getters on a value that is not a scalar *)
Definition nonscalar_read : list N :=
  [110] ++ num_dump NNaN ++ [59; 117; 48; 59; 105; 48; 59; 100; 48; 59; 98; 48; 48; 59; 99; 45; 59; 116; 45; 59; 108; 48].

Definition size_dump (known : bool) (n : nat) : list N :=
  35 :: (if known then dec_N (N.of_nat n) else [63]).                (* "#n" or "#?" *)

(* ------------------------------------------------------------------ *)
(* the model: values                                                    *)

Inductive value :=
| Undef (stale : N)
| Ptr (id : nat)
| Sc (s : scalar)
| Arr (items : list value)
| Obj (slots : list (option (str * value))).

Definition slots := list (option (str * value)).

Definition is_undef (v : value) : bool := match v with Undef _ => true | _ => false end.

(* payload bytes that survive in a moved-from value *)
Definition stale_of (v : value) : N :=
  match v with
  | Sc (SUInt n) => n
  | Sc (SInt z) => wrap_u64 z
  | Sc (SReal q) => if Z.eqb q 0 then 0 else 1
  | Ptr id => 1 + N.of_nat id
  | Undef s => s
  | _ => 0
  end.

(* the immutable pool pointer values refer to (pointer-free, no Undefined) *)
Definition pool : list value :=
  [ Sc (SUInt 7);
    Sc (SStr [112; 113]);
    Arr [Sc (SInt (-2)); Sc (SStr [120]); Sc SNull];
    Obj [Some ([97], Sc (SUInt 1)); Some ([98], Arr [Sc STrue])] ].
Definition pool_get (id : nat) : value := nth id pool (Undef 0).

Definition has_hole (sl : slots) : bool := existsb (fun o => match o with None => true | Some _ => false end) sl.

Fixpoint slot_find (k : str) (sl : slots) : option value :=
  match sl with
  | [] => None
  | Some (k', x) :: r => if str_eqb k k' then Some x else slot_find k r
  | None :: r => slot_find k r
  end.

(* HArray find-or-insert followed by a write to the member's value *)
Fixpoint slot_put (k : str) (f : option value -> value) (sl : slots) : slots :=
  match sl with
  | [] => [Some (k, f None)]
  | Some (k', x) :: r =>
    if str_eqb k k' then Some (k', f (Some x)) :: r else Some (k', x) :: slot_put k f r
  | None :: r => None :: slot_put k f r
  end.

Fixpoint slot_remove (k : str) (sl : slots) : slots :=
  match sl with
  | [] => []
  | Some (k', x) :: r => if str_eqb k k' then None :: r else Some (k', x) :: slot_remove k r
  | None :: r => None :: slot_remove k r
  end.

Fixpoint live (sl : slots) : list (str * value) :=
  match sl with
  | [] => []
  | Some kv :: r => kv :: live r
  | None :: r => live r
  end.

(* copy construction: deep; a copied table has no tombstones *)
Fixpoint copy_value (v : value) : value :=
  match v with
  | Arr l => Arr (map copy_value l)
  | Obj sl =>
    Obj ((fix go (l : slots) : slots :=
            match l with
            | [] => []
            | None :: r => go r
            | Some (k, x) :: r => Some (k, copy_value x) :: go r
            end) sl)
  | _ => v
  end.

(* object_ += other (HArray::operator+=): every live member of the source is
   found or inserted and its value assigned, in source order *)
Definition slot_merge (dst : slots) (src : list (str * value)) : slots :=
  fold_left (fun acc kv => slot_put (fst kv) (fun _ => snd kv) acc) src dst.

Definition copy_members (m : list (str * value)) : list (str * value) :=
  map (fun kv => (fst kv, copy_value (snd kv))) m.

Definition arr_items (v : value) : list value := match v with Arr l => l | _ => [] end.
Definition obj_slots (v : value) : slots := match v with Obj sl => sl | _ => [] end.

(* Value::Compress *)
Fixpoint compress (v : value) : value :=
  match v with
  | Arr l =>
    Arr ((fix go (l : list value) : list value :=
            match l with
            | [] => []
            | x :: r => if is_undef x then go r else compress x :: go r
            end) l)
  | Obj sl =>
    Obj ((fix go (l : slots) : slots :=
            match l with
            | [] => []
            | None :: r => go r
            | Some (k, x) :: r => Some (k, compress x) :: go r
            end) sl)
  | _ => v
  end.

(* operator[](SizeT) on an array: the element, created (with the gap) when missing *)
Definition arr_extend (l : list value) (i : nat) : list value :=
  l ++ repeat (Undef 0) (S i - length l).
Fixpoint set_nth (i : nat) (x : value) (l : list value) : list value :=
  match l, i with
  | [], _ => []
  | _ :: r, O => x :: r
  | y :: r, S j => y :: set_nth j x r
  end.
Fixpoint set_slot_value (i : nat) (x : value) (sl : slots) : slots :=
  match sl, i with
  | [], _ => []
  | Some (k, _) :: r, O => Some (k, x) :: r
  | None :: r, O => None :: r
  | s :: r, S j => s :: set_slot_value j x r
  end.
Fixpoint clear_slot (i : nat) (sl : slots) : slots :=
  match sl, i with
  | [], _ => []
  | _ :: r, O => None :: r
  | s :: r, S j => s :: clear_slot j r
  end.

(* v[i] = x  (x = None: only the reference is taken).  None = unspecified. *)
Definition idx_write (v : value) (i : nat) (x : option value) : option value :=
  let put (l : list value) := match x with Some y => set_nth i y l | None => l end in
  match v with
  | Arr l => Some (Arr (put (arr_extend l i)))
  | Obj sl =>
    if has_hole sl then None
    else if Nat.ltb i (length sl)
         then Some (Obj (match x with Some y => set_slot_value i y sl | None => sl end))
         else Some (Arr (put (arr_extend [] i)))
  | _ => Some (Arr (put (arr_extend [] i)))
  end.

Definition key_write (v : value) (k : str) (x : option value) : value :=
  Obj (slot_put k (fun old => match x with Some y => y
                                         | None => match old with Some o => o | None => Undef 0 end end)
                (obj_slots v)).

Definition append_value (v : value) (x : value) : value := Arr (arr_items v ++ [x]).

(* t1 += t2 : (new t1, new t2) *)
Definition append_v (mv : bool) (v1 v2 : value) : value * value :=
  match v1, v2 with
  | Obj s1, Obj s2 =>
    if mv then (Obj (slot_merge s1 (live s2)), Undef 0)
    else (Obj (slot_merge s1 (copy_members (live s2))), v2)
  | _, _ =>
    if mv then (append_value v1 v2, Undef (stale_of v2))
    else (append_value v1 (copy_value v2), v2)
  end.

Definition not_undef (v : value) : bool := negb (is_undef v).

Definition merge_v (mv : bool) (v1 v2 : value) : value * value :=
  let v1' := if is_undef v1 then Arr [] else v1 in
  let r :=
    match v1', v2 with
    | Arr l1, Arr l2 =>
      Arr (l1 ++ (if mv then filter not_undef l2 else map copy_value (filter not_undef l2)))
    | Obj s1, Obj s2 =>
      Obj (slot_merge s1 (if mv then live s2 else copy_members (live s2)))
    | _, _ => v1'
    end in
  (r, if mv then Undef 0 else v2).

Definition insert_v (v1 : value) (k : str) (v2 : value) : value * value :=
  (Obj (slot_put k (fun _ => v2) (obj_slots v1)), Undef (stale_of v2)).

Definition remove_key (v : value) (k : str) : value :=
  match v with Obj sl => Obj (slot_remove k sl) | _ => v end.

Definition remove_index (v : value) (i : nat) : option value :=
  match v with
  | Obj sl => if has_hole sl then None else Some (Obj (clear_slot i sl))
  | Arr l => Some (if Nat.ltb i (length l) then Arr (set_nth i (Undef 0) l) else v)
  | _ => Some v
  end.

(* v = ValueType::k (after D44: reset, then the tag): the empty value of that
   kind.  ValueType::ValuePtr (a null pointer) is not generated. *)
Definition empty_of_kind (k : N) : value :=
  if N.eqb k vt_Object then Obj []
  else if N.eqb k vt_Array then Arr []
  else if N.eqb k vt_String then Sc (SStr [])
  else if N.eqb k vt_UIntLong then Sc (SUInt 0)
  else if N.eqb k vt_IntLong then Sc (SInt 0)
  else if N.eqb k vt_Double then Sc (SReal 0)
  else if N.eqb k vt_True then Sc STrue
  else if N.eqb k vt_False then Sc SFalse
  else if N.eqb k vt_Null then Sc SNull
  else Undef 0.

(* t1 = <the ObjectT / ArrayT held by t2>  (operator=(const ObjectT&), (ObjectT&&),
   the constructors from containers): a copy; nothing when t2 holds no container *)
Definition assign_cont (v1 v2 : value) : value * value :=
  (match v2 with Obj _ | Arr _ => copy_value v2 | _ => v1 end, v2).

(* t1 += <the ObjectT / ArrayT held by t2>: an object merges into an object or is
   appended; a non-empty array is concatenated (holes included), an empty one appended *)
Definition append_cont (v1 v2 : value) : value * value :=
  (match v2 with
   | Obj s2 =>
     match v1 with
     | Obj s1 => Obj (slot_merge s1 (copy_members (live s2)))
     | _ => append_value v1 (copy_value v2)
     end
   | Arr [] => append_value v1 (Arr [])
   | Arr l2 => Arr (arr_items v1 ++ map copy_value l2)
   | _ => v1
   end, v2).

Definition set_ptr (id : option nat) : value :=
  match id with Some i => Ptr i | None => Undef 0 end.

(* ------------------------------------------------------------------ *)
(* reads                                                               *)

Fixpoint join_with (sep : N) (l : list (list N)) : list N :=
  match l with
  | [] => []
  | [x] => x
  | x :: r => x ++ sep :: join_with sep r
  end.

(* Stringify (text skeleton).  [pp id] is the text of pool entry id. *)
Fixpoint sv (pp : nat -> list N) (v : value) : list N :=
  match v with
  | Undef _ => []
  | Ptr id => pp id
  | Sc s => scalar_json s
  | Arr l =>
    js_ssquare ::
    close_with ((fix go (l : list value) : list N :=
                   match l with
                   | [] => []
                   | x :: r => if is_undef x then go r else sv pp x ++ js_comma :: go r
                   end) l) js_esquare
  | Obj sl =>
    js_scurly ::
    close_with ((fix go (l : slots) : list N :=
                   match l with
                   | [] => []
                   | None :: r => go r
                   | Some (k, x) :: r =>
                     if is_undef x then go r
                     else quoted k ++ js_colon :: sv pp x ++ js_comma :: go r
                   end) sl) js_ecurly
  end.
Definition pool_sv (id : nat) : list N := sv (fun _ => []) (pool_get id).
(* Stringify of a value that is (or points to) a scalar writes nothing *)
Definition stringify (v : value) : list N :=
  match v with
  | Sc _ => []
  | Ptr id => match pool_get id with Sc _ => [] | w => sv pool_sv w end
  | _ => sv pool_sv v
  end.

(* the canonical dump through the public getters *)
Fixpoint dump (pp : nat -> list N) (v : value) : list N :=
  match v with
  | Undef _ => [85]
  | Ptr id => 80 :: pp id
  | Sc s => scalar_dump s
  | Arr l => 91 :: join_with 44 (map (dump pp) l) ++ [93]
  | Obj sl =>
    123 :: size_dump (negb (has_hole sl)) (length sl) ++ 59 ::
    join_with 44
      ((fix go (l : slots) : list (list N) :=
          match l with
          | [] => []
          | None :: r => go r
          | Some (k, x) :: r => (units_text k ++ 61 :: dump pp x) :: go r
          end) sl) ++ [125]
  end.
Definition pool_dump (id : nat) : list N := dump (fun _ => []) (pool_get id).
Definition dump_value (v : value) : list N := dump pool_dump v ++ 124 :: stringify v.

(* READ: the typed getters; they follow one pointer *)
Definition read_np (v : value) : list N :=
  match v with
  | Sc s => scalar_read s ++ [59; 122; 48]
  | Arr l => nonscalar_read ++ [59; 122] ++ dec_N (N.of_nat (length l))
  | Obj sl => nonscalar_read ++ 59 :: 122 :: (if has_hole sl then [63] else dec_N (N.of_nat (length sl)))
  | _ => nonscalar_read ++ [59; 122; 48]
  end.
Definition read_value (v : value) : list N :=
  match v with Ptr id => read_np (pool_get id) | _ => read_np v end.

(* ------------------------------------------------------------------ *)
(* GroupBy (after D12/D13)                                              *)

Definition deref (v : value) : value := match v with Ptr id => pool_get id | _ => v end.

(* group name: SetCharAndLength, else CopyValueTo *)
Definition group_name (v : value) : option str :=
  match deref v with
  | Sc s => Some (scalar_text s)
  | _ => None
  end.

(* GetKeyIndex: slot number and value of the member with key k *)
Fixpoint key_slot (k : str) (sl : slots) : option (nat * value) :=
  match sl with
  | [] => None
  | Some (k', x) :: r =>
    if str_eqb k k' then Some (O, x)
    else option_map (fun p => (S (fst p), snd p)) (key_slot k r)
  | None :: r => option_map (fun p => (S (fst p), snd p)) (key_slot k r)
  end.

(* the sub-object: every slot except the key's, removed members skipped;
   new_sub_obj[Key] = Value (copy) *)
Fixpoint sub_object_at (pos ki : nat) (sl : slots) (acc : slots) : slots :=
  match sl with
  | [] => acc
  | s :: r =>
    let acc' :=
      if Nat.eqb pos ki then acc
      else match s with
           | Some (k', x) => if is_undef x then acc else slot_put k' (fun _ => copy_value x) acc
           | None => acc
           end in
    sub_object_at (S pos) ki r acc'
  end.

Definition group_step (k : str) (elem : value) (acc : slots) : option slots :=
  match elem with
  | Obj sl =>
    match key_slot k sl with
    | Some (ki, kv) =>
      match group_name kv with
      | Some nm =>
        Some (slot_put nm (fun old => append_value (match old with Some o => o | None => Undef 0 end)
                                                 (Obj (sub_object_at O ki sl []))) acc)
      | None => None
      end
    | None => None
    end
  | _ => None
  end.

Fixpoint group_loop (k : str) (l : list value) (acc : slots) : bool * slots :=
  match l with
  | [] => (true, acc)
  | e :: r =>
    match group_step k e acc with
    | Some acc' => group_loop k r acc'
    | None => (false, acc)
    end
  end.

(* (ok, groupedValue); None = groupedValue not touched *)
Definition group_by (v : value) (k : str) : bool * option value :=
  match deref v with
  | Arr [] => (false, Some (Obj []))
  | Arr l => let (ok, g) := group_loop k l [] in (ok, Some (Obj g))
  | _ => (false, None)
  end.

(* the C18 template
     <loop value="g" group="K">{var:g}=<loop set="g" value="e">(<loop set="e" value="m">{var:m};</loop>)</loop>|</loop>
   rendered over a value: nothing when GroupBy fails; member values are
   printed with CopyValueTo (cases keep them to strings, integers, keywords) *)
Definition render_member (x : value) : list N :=
  match deref x with
  | Sc s => scalar_text s ++ [59]
  | _ => [59]      (* not generated *)
  end.
Definition render_elem (e : value) : list N :=
  40 :: concat (map (fun kv => if is_undef (snd kv) then [] else render_member (snd kv)) (live (obj_slots e))) ++ [41].
Definition render_group (kv : str * value) : list N :=
  if is_undef (snd kv) then []
  else fst kv ++ 61 :: concat (map (fun e => if is_undef e then [] else render_elem e) (arr_items (snd kv))) ++ [124].
Definition render_groups (v : value) (k : str) : list N :=
  match group_by v k with
  | (true, Some g) => filter skel_keep (concat (map render_group (live (obj_slots g))))
  | _ => []
  end.

(* ------------------------------------------------------------------ *)
(* histories                                                            *)

Inductive pstep := K (k : str) | I (i : nat).
Definition path := list pstep.
Definition target := (nat * path)%type.

Inductive op :=
| ONop
| OAssign (t : target) (p : scalar)
| OKeyW (t : target) (k : str) (p : option scalar)       (* t[k] = p ; None: (void)t[k] *)
| OIdxW (t : target) (i : nat) (p : option scalar)       (* t[i] = p ; None: (void)t[i] *)
| OAppend (t : target) (p : scalar)                      (* t += p *)
| OAppendV (t1 t2 : target) (mv : bool)                  (* t1 += t2 / t1 += move(t2) *)
| OMerge (t1 t2 : target) (mv : bool)
| OInsert (t1 : target) (k : str) (t2 : target)          (* t1.Insert(k, move(t2)) *)
| ORemove (t : target) (k : str)
| ORmIdx (t : target) (i : nat)
| OReset (t : target)
| OCompress (t : target)
| OCopy (t1 t2 : target) (ctor : bool)                   (* t1 = t2 / Value tmp{t2}; t1 = move(tmp) *)
| OMove (t1 t2 : target) (ctor : bool)                   (* t1 = move(t2) / Value tmp{move(t2)}; t1 = move(tmp) *)
| OSetPtr (t : target) (id : option nat)
| OAddPtr (t : target) (id : option nat)
| OCtorApp (t : target) (n : scalar) (p : scalar)        (* Value tmp{n}; tmp += p; t = move(tmp) *)
| ORead (t : target)
| OGroupBy (t1 t2 : target) (k : str)                    (* ok = t2.GroupBy(t1, k) *)
| ORender (t : target) (k : str)
| OAssignKind (t : target) (k : N)                       (* t = ValueType::k / Value tmp{k}; t = move(tmp) *)
| OAssignCont (t1 t2 : target)                           (* t1 = *t2.GetObject() / *t2.GetArray() *)
| OAppendCont (t1 t2 : target).                          (* t1 += *t2.GetObject() / *t2.GetArray() *)

(* path resolution by the non-inserting lookups GetValue(key) / GetValue(index):
   fails on a missing or Undefined member *)
Fixpoint upd_slot (k : str) (g : value -> option value) (sl : slots) : option slots :=
  match sl with
  | [] => None
  | Some (k', x) :: r =>
    if str_eqb k k' then
      (if is_undef x then None
       else match g x with Some y => Some (Some (k', y) :: r) | None => None end)
    else option_map (cons (Some (k', x))) (upd_slot k g r)
  | None :: r => option_map (cons None) (upd_slot k g r)
  end.
Fixpoint upd_nth (i : nat) (g : value -> option value) (l : list value) : option (list value) :=
  match l, i with
  | [], _ => None
  | x :: r, O => if is_undef x then None else match g x with Some y => Some (y :: r) | None => None end
  | x :: r, S j => option_map (cons x) (upd_nth j g r)
  end.
Fixpoint upd_at (p : path) (f : value -> option value) (v : value) : option value :=
  match p with
  | [] => f v
  | K k :: r => match v with Obj sl => option_map Obj (upd_slot k (upd_at r f) sl) | _ => None end
  | I i :: r => match v with Arr l => option_map Arr (upd_nth i (upd_at r f) l) | _ => None end
  end.
Fixpoint get_at (p : path) (v : value) : option value :=
  match p with
  | [] => Some v
  | K k :: r =>
    match v with
    | Obj sl => match slot_find k sl with
                | Some x => if is_undef x then None else get_at r x
                | None => None end
    | _ => None
    end
  | I i :: r =>
    match v with
    | Arr l => match nth_error l i with
               | Some x => if is_undef x then None else get_at r x
               | None => None end
    | _ => None
    end
  end.

Definition pstep_eqb (a b : pstep) : bool :=
  match a, b with
  | K x, K y => str_eqb x y
  | I x, I y => Nat.eqb x y
  | _, _ => false
  end.
Fixpoint is_prefix (p q : path) : bool :=
  match p, q with
  | [], _ => true
  | a :: p', b :: q' => pstep_eqb a b && is_prefix p' q'
  | _ :: _, [] => false
  end.
Definition path_eqb (p q : path) : bool := is_prefix p q && is_prefix q p.
Definition related (t1 t2 : target) : bool :=
  Nat.eqb (fst t1) (fst t2) && (is_prefix (snd t1) (snd t2) || is_prefix (snd t2) (snd t1)).
Definition same_target (t1 t2 : target) : bool :=
  Nat.eqb (fst t1) (fst t2) && path_eqb (snd t1) (snd t2).
(* t2 strictly above t1 *)
Definition src_is_ancestor (t1 t2 : target) : bool :=
  Nat.eqb (fst t1) (fst t2) && is_prefix (snd t2) (snd t1) && negb (is_prefix (snd t1) (snd t2)).

Definition state := list value.

Fixpoint set_var (i : nat) (x : value) (st : state) : state :=
  match st, i with
  | [], _ => []
  | _ :: r, O => x :: r
  | y :: r, S j => y :: set_var j x r
  end.

Definition st_get (st : state) (t : target) : option value :=
  match nth_error st (fst t) with Some v => get_at (snd t) v | None => None end.
Definition st_upd (st : state) (t : target) (f : value -> option value) : option state :=
  match nth_error st (fst t) with
  | Some v => match upd_at (snd t) f v with Some v' => Some (set_var (fst t) v' st) | None => None end
  | None => None
  end.
Definition st_set (st : state) (t : target) (x : value) : option state :=
  st_upd st t (fun _ => Some x).

(* outcome of one operation *)
Inductive outcome (St : Type) :=
| Done (st : St) (out : list N)
| Skipped                      (* target does not resolve / excluded aliasing: nothing happens *)
| Unspec.                      (* positional operation on an object with a removed entry *)
Arguments Done {St} _ _.
Arguments Skipped {St}.
Arguments Unspec {St}.

Definition unary (st : state) (t : target) (f : value -> option value) : outcome state :=
  match st_get st t with
  | None => Skipped
  | Some v =>
    match f v with
    | None => Unspec
    | Some v' => match st_set st t v' with Some st' => Done st' [] | None => Skipped end
    end
  end.

(* two-target operation: g gives the new destination and the new source *)
Definition binary (st : state) (t1 t2 : target) (g : value -> value -> value * value) : outcome state :=
  if related t1 t2 then Skipped
  else match st_get st t1, st_get st t2 with
       | Some v1, Some v2 =>
         let (d, s) := g v1 v2 in
         match st_set st t2 s with
         | Some st1 => match st_set st1 t1 d with Some st2 => Done st2 [] | None => Skipped end
         | None => Skipped
         end
       | _, _ => Skipped
       end.

(* assignment t1 = t2 / t1 = move(t2): also between a value and its own members *)
Definition assign_op (st : state) (t1 t2 : target) (mv ctor : bool) : outcome state :=
  match st_get st t1, st_get st t2 with
  | Some v1, Some v2 =>
    if same_target t1 t2 then
      (* this == &val: nothing; through a temporary: a copy (tombstones dropped) / nothing *)
      if ctor && negb mv then match st_set st t1 (copy_value v2) with Some st' => Done st' [] | None => Skipped end
      else Done st []
    else if mv then
      if src_is_ancestor t1 t2 then Skipped
      else match st_set st t2 (Undef (stale_of v2)) with
           | Some st1 => match st_set st1 t1 v2 with Some st2 => Done st2 [] | None => Skipped end
           | None => Skipped
           end
    else match st_set st t1 (copy_value v2) with Some st' => Done st' [] | None => Skipped end
  | _, _ => Skipped
  end.

Definition bool_out (b : bool) : list N := if b then [49] else [48].

Definition step (st : state) (o : op) : outcome state :=
  match o with
  | ONop => Done st []
  | OAssign t p => unary st t (fun _ => Some (Sc p))
  | OKeyW t k p => unary st t (fun v => Some (key_write v k (option_map Sc p)))
  | OIdxW t i p => unary st t (fun v => idx_write v i (option_map Sc p))
  | OAppend t p => unary st t (fun v => Some (append_value v (Sc p)))
  | OAppendV t1 t2 mv => binary st t1 t2 (append_v mv)
  | OMerge t1 t2 mv => binary st t1 t2 (merge_v mv)
  | OInsert t1 k t2 => binary st t1 t2 (fun v1 v2 => insert_v v1 k v2)
  | ORemove t k => unary st t (fun v => Some (remove_key v k))
  | ORmIdx t i => unary st t (fun v => remove_index v i)
  | OReset t => unary st t (fun _ => Some (Undef 0))
  | OCompress t => unary st t (fun v => Some (compress v))
  | OCopy t1 t2 ctor => assign_op st t1 t2 false ctor
  | OMove t1 t2 ctor => assign_op st t1 t2 true ctor
  | OSetPtr t id => unary st t (fun _ => Some (set_ptr id))
  | OAddPtr t id => unary st t (fun v => Some (append_value v (set_ptr id)))
  | OCtorApp t n p => unary st t (fun _ => Some (Arr [Sc p]))
  | ORead t => match st_get st t with Some v => Done st (read_value v) | None => Skipped end
  | OGroupBy t1 t2 k =>
    if related t1 t2 then Skipped
    else match st_get st t1, st_get st t2 with
         | Some _, Some v2 =>
           match group_by v2 k with
           | (ok, Some g) => match st_set st t1 g with Some st' => Done st' (bool_out ok) | None => Skipped end
           | (ok, None) => Done st (bool_out ok)
           end
         | _, _ => Skipped
         end
  | ORender t k => match st_get st t with Some v => Done st (render_groups v k) | None => Skipped end
  | OAssignKind t k => unary st t (fun _ => Some (empty_of_kind k))
  | OAssignCont t1 t2 => binary st t1 t2 assign_cont
  | OAppendCont t1 t2 => binary st t1 t2 append_cont
  end.

Definition dump_state (st : state) : list N := join_with 38 (map dump_value st).   (* '&' between variables *)

(* the observable trace of a history: per step the operation's own output and
   the dump of every variable; 'S' for a skipped step; the run stops with 'X'
   at an unspecified step *)
Fixpoint run (st : state) (ops : list op) : list (list N) :=
  match ops with
  | [] => []
  | o :: r =>
    match step st o with
    | Done st' out => (out ++ 64 :: dump_state st') :: run st' r
    | Skipped => [83] :: run st r
    | Unspec => [[88]]
    end
  end.

Definition init_state : state := [Undef 0; Undef 0; Undef 0].
Definition run_model (ops : list op) : list N := join_with 47 (run init_state ops).   (* '/' between steps *)

(* planner: which positional operations of a history are unspecified (they are
   replaced by ONop before the history is run anywhere) *)
Fixpoint plan (st : state) (ops : list op) : list bool :=
  match ops with
  | [] => []
  | o :: r =>
    match step st o with
    | Done st' _ => false :: plan st' r
    | Skipped => false :: plan st r
    | Unspec => true :: plan st r
    end
  end.
Definition plan_model (ops : list op) : list bool := plan init_state ops.

(* ================================================================== *)
(* the specification: abstract JSON documents                          *)

Inductive doc :=
| DUndef
| DPtr (id : nat)
| DSc (s : scalar)
| DArr (items : list doc)
| DObj (dirty : bool) (members : list (str * doc)).
(* dirty: the object holds a removed entry, i.e. positions are not defined *)

Definition members := list (str * doc).
Definition d_is_undef (d : doc) : bool := match d with DUndef => true | _ => false end.

Fixpoint abs (v : value) : doc :=
  match v with
  | Undef _ => DUndef
  | Ptr id => DPtr id
  | Sc s => DSc s
  | Arr l => DArr (map abs l)
  | Obj sl =>
    DObj (has_hole sl)
         ((fix go (l : slots) : members :=
             match l with
             | [] => []
             | None :: r => go r
             | Some (k, x) :: r => (k, abs x) :: go r
             end) sl)
  end.

Definition dpool : list doc := map abs pool.
Definition dpool_get (id : nat) : doc := nth id dpool DUndef.

Fixpoint m_find (k : str) (m : members) : option doc :=
  match m with
  | [] => None
  | (k', x) :: r => if str_eqb k k' then Some x else m_find k r
  end.
Fixpoint m_put (k : str) (f : option doc -> doc) (m : members) : members :=
  match m with
  | [] => [(k, f None)]
  | (k', x) :: r => if str_eqb k k' then (k', f (Some x)) :: r else (k', x) :: m_put k f r
  end.
(* (found, rest) *)
Fixpoint m_remove (k : str) (m : members) : bool * members :=
  match m with
  | [] => (false, [])
  | (k', x) :: r =>
    if str_eqb k k' then (true, r)
    else let (b, r') := m_remove k r in (b, (k', x) :: r')
  end.

(* a copy is a fresh document: no object in it is dirty *)
Fixpoint d_copy (d : doc) : doc :=
  match d with
  | DArr l => DArr (map d_copy l)
  | DObj _ m => DObj false (map (fun kv => (fst kv, d_copy (snd kv))) m)
  | _ => d
  end.
(* compaction: array holes go, objects become clean, recursively *)
Fixpoint d_compact (d : doc) : doc :=
  match d with
  | DArr l =>
    DArr ((fix go (l : list doc) : list doc :=
             match l with
             | [] => []
             | x :: r => if d_is_undef x then go r else d_compact x :: go r
             end) l)
  | DObj _ m => DObj false (map (fun kv => (fst kv, d_compact (snd kv))) m)
  | _ => d
  end.

Definition m_merge (dst : members) (src : members) : members :=
  fold_left (fun acc kv => m_put (fst kv) (fun _ => snd kv) acc) src dst.
Definition d_copy_members (m : members) : members := map (fun kv => (fst kv, d_copy (snd kv))) m.

Definition d_items (d : doc) : list doc := match d with DArr l => l | _ => [] end.
Definition d_members (d : doc) : members := match d with DObj _ m => m | _ => [] end.
Definition d_dirty (d : doc) : bool := match d with DObj b _ => b | _ => false end.

Definition d_extend (l : list doc) (i : nat) : list doc := l ++ repeat DUndef (S i - length l).
Fixpoint d_set_nth (i : nat) (x : doc) (l : list doc) : list doc :=
  match l, i with
  | [], _ => []
  | _ :: r, O => x :: r
  | y :: r, S j => y :: d_set_nth j x r
  end.
Fixpoint m_set_nth (i : nat) (x : doc) (m : members) : members :=
  match m, i with
  | [], _ => []
  | (k, _) :: r, O => (k, x) :: r
  | kv :: r, S j => kv :: m_set_nth j x r
  end.
Fixpoint m_drop_nth (i : nat) (m : members) : members :=
  match m, i with
  | [], _ => []
  | _ :: r, O => r
  | kv :: r, S j => kv :: m_drop_nth j r
  end.

Definition d_idx_write (d : doc) (i : nat) (x : option doc) : option doc :=
  let put (l : list doc) := match x with Some y => d_set_nth i y l | None => l end in
  match d with
  | DArr l => Some (DArr (put (d_extend l i)))
  | DObj true _ => None
  | DObj false m =>
    if Nat.ltb i (length m)
    then Some (DObj false (match x with Some y => m_set_nth i y m | None => m end))
    else Some (DArr (put (d_extend [] i)))
  | _ => Some (DArr (put (d_extend [] i)))
  end.

Definition d_key_write (d : doc) (k : str) (x : option doc) : doc :=
  DObj (d_dirty d)
       (m_put k (fun old => match x with Some y => y
                                       | None => match old with Some o => o | None => DUndef end end)
              (d_members d)).

Definition d_append (d : doc) (x : doc) : doc := DArr (d_items d ++ [x]).

Definition d_append_v (mv : bool) (d1 d2 : doc) : doc * doc :=
  match d1, d2 with
  | DObj b1 m1, DObj _ m2 =>
    if mv then (DObj b1 (m_merge m1 m2), DUndef)
    else (DObj b1 (m_merge m1 (d_copy_members m2)), d2)
  | _, _ =>
    if mv then (d_append d1 d2, DUndef) else (d_append d1 (d_copy d2), d2)
  end.

Definition d_not_undef (d : doc) : bool := negb (d_is_undef d).

Definition d_merge_v (mv : bool) (d1 d2 : doc) : doc * doc :=
  let d1' := if d_is_undef d1 then DArr [] else d1 in
  let r :=
    match d1', d2 with
    | DArr l1, DArr l2 =>
      DArr (l1 ++ (if mv then filter d_not_undef l2 else map d_copy (filter d_not_undef l2)))
    | DObj b1 m1, DObj _ m2 => DObj b1 (m_merge m1 (if mv then m2 else d_copy_members m2))
    | _, _ => d1'
    end in
  (r, if mv then DUndef else d2).

Definition d_insert_v (d1 : doc) (k : str) (d2 : doc) : doc * doc :=
  (DObj (d_dirty d1) (m_put k (fun _ => d2) (d_members d1)), DUndef).

Definition d_remove_key (d : doc) (k : str) : doc :=
  match d with
  | DObj b m => let (found, m') := m_remove k m in DObj (b || found) m'
  | _ => d
  end.

Definition d_remove_index (d : doc) (i : nat) : option doc :=
  match d with
  | DObj true _ => None
  | DObj false m => Some (if Nat.ltb i (length m) then DObj true (m_drop_nth i m) else d)
  | DArr l => Some (if Nat.ltb i (length l) then DArr (d_set_nth i DUndef l) else d)
  | _ => Some d
  end.

Definition d_empty_of_kind (k : N) : doc :=
  if N.eqb k vt_Object then DObj false []
  else if N.eqb k vt_Array then DArr []
  else if N.eqb k vt_String then DSc (SStr [])
  else if N.eqb k vt_UIntLong then DSc (SUInt 0)
  else if N.eqb k vt_IntLong then DSc (SInt 0)
  else if N.eqb k vt_Double then DSc (SReal 0)
  else if N.eqb k vt_True then DSc STrue
  else if N.eqb k vt_False then DSc SFalse
  else if N.eqb k vt_Null then DSc SNull
  else DUndef.

Definition d_assign_cont (d1 d2 : doc) : doc * doc :=
  (match d2 with DObj _ _ | DArr _ => d_copy d2 | _ => d1 end, d2).

Definition d_append_cont (d1 d2 : doc) : doc * doc :=
  (match d2 with
   | DObj _ m2 =>
     match d1 with
     | DObj b1 m1 => DObj b1 (m_merge m1 (d_copy_members m2))
     | _ => d_append d1 (d_copy d2)
     end
   | DArr [] => d_append d1 (DArr [])
   | DArr l2 => DArr (d_items d1 ++ map d_copy l2)
   | _ => d1
   end, d2).

Definition d_set_ptr (id : option nat) : doc := match id with Some i => DPtr i | None => DUndef end.

Fixpoint d_sv (pp : nat -> list N) (d : doc) : list N :=
  match d with
  | DUndef => []
  | DPtr id => pp id
  | DSc s => scalar_json s
  | DArr l =>
    js_ssquare ::
    close_with ((fix go (l : list doc) : list N :=
                   match l with
                   | [] => []
                   | x :: r => if d_is_undef x then go r else d_sv pp x ++ js_comma :: go r
                   end) l) js_esquare
  | DObj _ m =>
    js_scurly ::
    close_with ((fix go (l : members) : list N :=
                   match l with
                   | [] => []
                   | (k, x) :: r =>
                     if d_is_undef x then go r
                     else quoted k ++ js_colon :: d_sv pp x ++ js_comma :: go r
                   end) m) js_ecurly
  end.
Definition dpool_sv (id : nat) : list N := d_sv (fun _ => []) (dpool_get id).
Definition d_stringify (d : doc) : list N :=
  match d with
  | DSc _ => []
  | DPtr id => match dpool_get id with DSc _ => [] | w => d_sv dpool_sv w end
  | _ => d_sv dpool_sv d
  end.

Fixpoint d_dump (pp : nat -> list N) (d : doc) : list N :=
  match d with
  | DUndef => [85]
  | DPtr id => 80 :: pp id
  | DSc s => scalar_dump s
  | DArr l => 91 :: join_with 44 (map (d_dump pp) l) ++ [93]
  | DObj b m =>
    123 :: size_dump (negb b) (length m) ++ 59 ::
    join_with 44
      ((fix go (l : members) : list (list N) :=
          match l with
          | [] => []
          | (k, x) :: r => (units_text k ++ 61 :: d_dump pp x) :: go r
          end) m) ++ [125]
  end.
Definition dpool_dump (id : nat) : list N := d_dump (fun _ => []) (dpool_get id).
Definition d_dump_value (d : doc) : list N := d_dump dpool_dump d ++ 124 :: d_stringify d.

Definition d_read_np (d : doc) : list N :=
  match d with
  | DSc s => scalar_read s ++ [59; 122; 48]
  | DArr l => nonscalar_read ++ [59; 122] ++ dec_N (N.of_nat (length l))
  | DObj b m => nonscalar_read ++ 59 :: 122 :: (if b then [63] else dec_N (N.of_nat (length m)))
  | _ => nonscalar_read ++ [59; 122; 48]
  end.
Definition d_read (d : doc) : list N :=
  match d with DPtr id => d_read_np (dpool_get id) | _ => d_read_np d end.

(* ---- C18: the partition specification ---- *)

Definition d_deref (d : doc) : doc := match d with DPtr id => dpool_get id | _ => d end.
Definition d_group_name (d : doc) : option str :=
  match d_deref d with DSc s => Some (scalar_text s) | _ => None end.

(* the record without the grouping key (and without removed members), as a fresh copy *)
Definition erase_key (k : str) (m : members) : members :=
  d_copy_members (filter (fun kv => negb (str_eqb k (fst kv)) && d_not_undef (snd kv)) m).

(* the textual value of key k in a record *)
Definition record_name (k : str) (d : doc) : option str :=
  match d with
  | DObj _ m => match m_find k m with Some x => d_group_name x | None => None end
  | _ => None
  end.

(* distinct names in order of first appearance (left to right) *)
Definition names_in_order (names : list str) : list str :=
  fold_left (fun acc n => if existsb (str_eqb n) acc then acc else acc ++ [n]) names [].

Fixpoint all_some {A} (l : list (option A)) : option (list A) :=
  match l with
  | [] => Some []
  | Some x :: r => option_map (cons x) (all_some r)
  | None :: _ => None
  end.

(* partition_by_key: for a non-empty array of records that all carry k with a
   textual value: one member per distinct name, in first-appearance order,
   holding in input order exactly the records with that name, key erased *)
Definition partition_by_key (recs : list doc) (k : str) : option doc :=
  match recs with
  | [] => None
  | _ =>
    match all_some (map (record_name k) recs) with
    | None => None
    | Some names =>
      let tagged := combine names recs in
      Some (DObj false
              (map (fun nm =>
                      (nm, DArr (map (fun nr => DObj false (erase_key k (d_members (snd nr))))
                                     (filter (fun nr => str_eqb nm (fst nr)) tagged))))
                   (names_in_order names)))
    end
  end.

(* the operational reading used by the spec-level run: same loop as the code,
   on documents (members instead of slots) *)
(* only the first member with the key is the grouping member *)
Fixpoint d_sub_object_first (k : str) (m : members) (acc : members) (seen : bool) : members :=
  match m with
  | [] => acc
  | (k', x) :: r =>
    if negb seen && str_eqb k k' then d_sub_object_first k r acc true
    else d_sub_object_first k r (if d_is_undef x then acc else m_put k' (fun _ => d_copy x) acc) seen
  end.
Definition d_group_step (k : str) (e : doc) (acc : members) : option members :=
  match e with
  | DObj _ m =>
    match m_find k m with
    | Some kv =>
      match d_group_name kv with
      | Some nm =>
        Some (m_put nm (fun old => d_append (match old with Some o => o | None => DUndef end)
                                            (DObj false (d_sub_object_first k m [] false))) acc)
      | None => None
      end
    | None => None
    end
  | _ => None
  end.
Fixpoint d_group_loop (k : str) (l : list doc) (acc : members) : bool * members :=
  match l with
  | [] => (true, acc)
  | e :: r =>
    match d_group_step k e acc with
    | Some acc' => d_group_loop k r acc'
    | None => (false, acc)
    end
  end.
Definition d_group_by (d : doc) (k : str) : bool * option doc :=
  match d_deref d with
  | DArr [] => (false, Some (DObj false []))
  | DArr l => let (ok, g) := d_group_loop k l [] in (ok, Some (DObj false g))
  | _ => (false, None)
  end.

Definition d_render_member (x : doc) : list N :=
  match d_deref x with DSc s => scalar_text s ++ [59] | _ => [59] end.
Definition d_render_elem (e : doc) : list N :=
  40 :: concat (map (fun kv => if d_is_undef (snd kv) then [] else d_render_member (snd kv)) (d_members e)) ++ [41].
Definition d_render_group (kv : str * doc) : list N :=
  if d_is_undef (snd kv) then []
  else fst kv ++ 61 :: concat (map (fun e => if d_is_undef e then [] else d_render_elem e) (d_items (snd kv))) ++ [124].
Definition d_render_groups_g (gb : doc -> str -> bool * option doc) (d : doc) (k : str) : list N :=
  match gb d k with
  | (true, Some g) => filter skel_keep (concat (map d_render_group (d_members g)))
  | _ => []
  end.

(* ---- spec-level histories ---- *)

Fixpoint d_upd_member (k : str) (g : doc -> option doc) (m : members) : option members :=
  match m with
  | [] => None
  | (k', x) :: r =>
    if str_eqb k k' then
      (if d_is_undef x then None
       else match g x with Some y => Some ((k', y) :: r) | None => None end)
    else option_map (cons (k', x)) (d_upd_member k g r)
  end.
Fixpoint d_upd_nth (i : nat) (g : doc -> option doc) (l : list doc) : option (list doc) :=
  match l, i with
  | [], _ => None
  | x :: r, O => if d_is_undef x then None else match g x with Some y => Some (y :: r) | None => None end
  | x :: r, S j => option_map (cons x) (d_upd_nth j g r)
  end.
Fixpoint d_upd_at (p : path) (f : doc -> option doc) (d : doc) : option doc :=
  match p with
  | [] => f d
  | K k :: r => match d with DObj b m => option_map (DObj b) (d_upd_member k (d_upd_at r f) m) | _ => None end
  | I i :: r => match d with DArr l => option_map DArr (d_upd_nth i (d_upd_at r f) l) | _ => None end
  end.
Fixpoint d_get_at (p : path) (d : doc) : option doc :=
  match p with
  | [] => Some d
  | K k :: r =>
    match d with
    | DObj _ m => match m_find k m with
                  | Some x => if d_is_undef x then None else d_get_at r x
                  | None => None end
    | _ => None
    end
  | I i :: r =>
    match d with
    | DArr l => match nth_error l i with
                | Some x => if d_is_undef x then None else d_get_at r x
                | None => None end
    | _ => None
    end
  end.

Definition dstate := list doc.
Fixpoint d_set_var (i : nat) (x : doc) (st : dstate) : dstate :=
  match st, i with
  | [], _ => []
  | _ :: r, O => x :: r
  | y :: r, S j => y :: d_set_var j x r
  end.
Definition ds_get (st : dstate) (t : target) : option doc :=
  match nth_error st (fst t) with Some v => d_get_at (snd t) v | None => None end.
Definition ds_upd (st : dstate) (t : target) (f : doc -> option doc) : option dstate :=
  match nth_error st (fst t) with
  | Some v => match d_upd_at (snd t) f v with Some v' => Some (d_set_var (fst t) v' st) | None => None end
  | None => None
  end.
Definition ds_set (st : dstate) (t : target) (x : doc) : option dstate := ds_upd st t (fun _ => Some x).

Definition d_unary (st : dstate) (t : target) (f : doc -> option doc) : outcome dstate :=
  match ds_get st t with
  | None => Skipped
  | Some v =>
    match f v with
    | None => Unspec
    | Some v' => match ds_set st t v' with Some st' => Done st' [] | None => Skipped end
    end
  end.
Definition d_binary (st : dstate) (t1 t2 : target) (g : doc -> doc -> doc * doc) : outcome dstate :=
  if related t1 t2 then Skipped
  else match ds_get st t1, ds_get st t2 with
       | Some v1, Some v2 =>
         let (d, s) := g v1 v2 in
         match ds_set st t2 s with
         | Some st1 => match ds_set st1 t1 d with Some st2 => Done st2 [] | None => Skipped end
         | None => Skipped
         end
       | _, _ => Skipped
       end.
Definition d_assign_op (st : dstate) (t1 t2 : target) (mv ctor : bool) : outcome dstate :=
  match ds_get st t1, ds_get st t2 with
  | Some v1, Some v2 =>
    if same_target t1 t2 then
      if ctor && negb mv then match ds_set st t1 (d_copy v2) with Some st' => Done st' [] | None => Skipped end
      else Done st []
    else if mv then
      if src_is_ancestor t1 t2 then Skipped
      else match ds_set st t2 DUndef with
           | Some st1 => match ds_set st1 t1 v2 with Some st2 => Done st2 [] | None => Skipped end
           | None => Skipped
           end
    else match ds_set st t1 (d_copy v2) with Some st' => Done st' [] | None => Skipped end
  | _, _ => Skipped
  end.

Definition d_step_g (gb : doc -> str -> bool * option doc) (st : dstate) (o : op) : outcome dstate :=
  match o with
  | ONop => Done st []
  | OAssign t p => d_unary st t (fun _ => Some (DSc p))
  | OKeyW t k p => d_unary st t (fun v => Some (d_key_write v k (option_map DSc p)))
  | OIdxW t i p => d_unary st t (fun v => d_idx_write v i (option_map DSc p))
  | OAppend t p => d_unary st t (fun v => Some (d_append v (DSc p)))
  | OAppendV t1 t2 mv => d_binary st t1 t2 (d_append_v mv)
  | OMerge t1 t2 mv => d_binary st t1 t2 (d_merge_v mv)
  | OInsert t1 k t2 => d_binary st t1 t2 (fun v1 v2 => d_insert_v v1 k v2)
  | ORemove t k => d_unary st t (fun v => Some (d_remove_key v k))
  | ORmIdx t i => d_unary st t (fun v => d_remove_index v i)
  | OReset t => d_unary st t (fun _ => Some DUndef)
  | OCompress t => d_unary st t (fun v => Some (d_compact v))
  | OCopy t1 t2 ctor => d_assign_op st t1 t2 false ctor
  | OMove t1 t2 ctor => d_assign_op st t1 t2 true ctor
  | OSetPtr t id => d_unary st t (fun _ => Some (d_set_ptr id))
  | OAddPtr t id => d_unary st t (fun v => Some (d_append v (d_set_ptr id)))
  | OCtorApp t n p => d_unary st t (fun _ => Some (DArr [DSc p]))
  | ORead t => match ds_get st t with Some v => Done st (d_read v) | None => Skipped end
  | OGroupBy t1 t2 k =>
    if related t1 t2 then Skipped
    else match ds_get st t1, ds_get st t2 with
         | Some _, Some v2 =>
           match gb v2 k with
           | (ok, Some g) => match ds_set st t1 g with Some st' => Done st' (bool_out ok) | None => Skipped end
           | (ok, None) => Done st (bool_out ok)
           end
         | _, _ => Skipped
         end
  | ORender t k => match ds_get st t with Some v => Done st (d_render_groups_g gb v k) | None => Skipped end
  | OAssignKind t k => d_unary st t (fun _ => Some (d_empty_of_kind k))
  | OAssignCont t1 t2 => d_binary st t1 t2 d_assign_cont
  | OAppendCont t1 t2 => d_binary st t1 t2 d_append_cont
  end.
Definition d_step := d_step_g d_group_by.
Definition d_render_groups := d_render_groups_g d_group_by.

(* C18: the same run with GroupBy replaced by the partition specification
   wherever that is defined (non-empty array of records that all carry the key
   with a textual value) *)
Definition d_group_by_spec (d : doc) (k : str) : bool * option doc :=
  match d_deref d with
  | DArr l => match partition_by_key l k with Some g => (true, Some g) | None => d_group_by d k end
  | _ => d_group_by d k
  end.

Definition d_dump_state (st : dstate) : list N := join_with 38 (map d_dump_value st).
Fixpoint d_run (st : dstate) (ops : list op) : list (list N) :=
  match ops with
  | [] => []
  | o :: r =>
    match d_step st o with
    | Done st' out => (out ++ 64 :: d_dump_state st') :: d_run st' r
    | Skipped => [83] :: d_run st r
    | Unspec => [[88]]
    end
  end.
Definition d_init : dstate := [DUndef; DUndef; DUndef].
Definition run_spec (ops : list op) : list N := join_with 47 (d_run d_init ops).

(* oracle: the implementation's trace equals the specification's, where a
   '?' in the specification (size of a dirty object) matches any number *)
Fixpoint wild_skip (s : list N) : list N :=
  match s with c :: r => if is_digit c then wild_skip r else s | [] => [] end.
Fixpoint wild_eqb (fuel : nat) (spec impl : list N) : bool :=
  match fuel with
  | O => false
  | S f =>
    match spec, impl with
    | [], [] => true
    | 63 :: s', c :: i' => if is_digit c then wild_eqb f s' (wild_skip i') else false
    | a :: s', b :: i' => N.eqb a b && wild_eqb f s' i'
    | _, _ => false
    end
  end.
Definition c12_oracle (ops : list op) (impl : list N) : bool :=
  let s := run_spec ops in wild_eqb (S (length s)) s impl.

Fixpoint d_run18 (st : dstate) (ops : list op) : list (list N) :=
  match ops with
  | [] => []
  | o :: r =>
    match d_step_g d_group_by_spec st o with
    | Done st' out => (out ++ 64 :: d_dump_state st') :: d_run18 st' r
    | Skipped => [83] :: d_run18 st r
    | Unspec => [[88]]
    end
  end.
Definition run_spec18 (ops : list op) : list N := join_with 47 (d_run18 d_init ops).
Definition c18_oracle (ops : list op) (impl : list N) : bool :=
  let s := run_spec18 ops in wild_eqb (S (length s)) s impl.
