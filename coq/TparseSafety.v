(* TparseSafety.v -- C01 for the parser model: the main loop of Template.hpp::parse
   (TparseModel.v) never reads outside the text, never takes Last() of an empty
   array, never reads a tag record as another kind, never subtracts below zero
   and terminates within its fuel, for EVERY text, width and number scanner --
   with ONE exception that is not excluded here: the IsEqual inside
   checkLoopVariable (site 10), see [parse_safe_partial]. *)
From Coq Require Import NArith ZArith List Bool Arith Lia ZifyBool ZifyNat ZifyN.
From Qv Require Import gen.Tables_tmpl gen.Tables_expr gen.Tables_tparse FinderModel FinderProofs TparseModel TparseProofs.
Import ListNotations.
Ltac Zify.zify_post_hook ::= Z.div_mod_to_equations.

(* ------------------------------------------------------------------ *)
(* Finder: a match advances the cursor by at least the length of the matched token *)
Definition toklen (m : N) : nat :=
  match m with
  | 1%N => 1 | 2%N => 5 | 3%N => 5 | 4%N => 6 | 5%N => 6 | 6%N => 3 | 7%N => 5 | 8%N => 7 | 9%N => 3 | 10%N => 5 | 11%N => 5 | _ => 0
  end.

Lemma toklen_ids : forall m, 1 <= toklen m -> In m [1; 2; 3; 4; 5; 6; 7; 8; 9; 10; 11]%N.
Proof.
  intros m H. unfold toklen in H.
  destruct m as [|p]; [lia|].
  destruct p as [p|p|]; try destruct p as [p|p|]; try destruct p as [p|p|]; try destruct p as [p|p|];
    try lia; cbn; tauto.
Qed.

Section FinderLen.
  Variables (first_chars : list N) (single : N) (groups : list (list (N * list N))) (content : list N).

  Lemma try_group_len : forall g o id off',
    try_group content o g = GMatch id off' -> exists word, In (id, word) g /\ o + length word <= off'.
  Proof.
    intros g; induction g as [|[id0 word] r IH]; intros o id off' H; [discriminate H|].
    assert (Hr : try_group content o r = GMatch id off' ->
                 exists word', In (id, word') ((id0, word) :: r) /\ o + length word' <= off').
    { intros H'. destruct (IH _ _ _ H') as [w' [Hi Hl]]. exists w'. split; [right; exact Hi|exact Hl]. }
    rewrite try_group_cons in H.
    destruct (o + (length word - 1) <? length content); [|auto].
    destruct (nth_error content (o + (length word - 1))) as [c|]; [|discriminate H].
    destruct (N.eqb c (last word 0%N)); [|auto].
    destruct (match_mid content (S (length word - 1)) o (o + (length word - 1)) word) as [r'|]; [|discriminate H].
    destruct (r' =? o + (length word - 1)); [|auto].
    injection H as <- <-. exists word. split; [left; reflexivity|lia].
  Qed.

  Lemma nth_groups_in : forall g (x : N * list N), In x (nth g groups []) -> In x (concat groups).
  Proof.
    intros g x H. destruct (nth_in_or_default g groups []) as [Hin|Hd].
    - apply in_concat. exists (nth g groups []). split; assumption.
    - rewrite Hd in H. destruct H.
  Qed.

  Lemma next_go_len : forall fuel o m off',
    next_go first_chars single groups content fuel o = FOk m off' ->
    (m = 0%N /\ o <= off' /\ length content <= off') \/ (m = 1%N /\ o + 1 <= off') \/
    (exists word, In (m, word) (concat groups) /\ o + 1 + length word <= off').
  Proof.
    intros fuel; induction fuel as [|k IH]; intros o m off' H; [discriminate H|].
    assert (Hr : next_go first_chars single groups content k (S o) = FOk m off' ->
                 (m = 0%N /\ o <= off' /\ length content <= off') \/ (m = 1%N /\ o + 1 <= off') \/
                 (exists word, In (m, word) (concat groups) /\ o + 1 + length word <= off')).
    { intros H'. destruct (IH _ _ _ H') as [[? [? ?]]|[[? ?]|[wd [? ?]]]].
      - left; split; [assumption|lia].
      - right; left; split; [assumption|lia].
      - right; right. exists wd. split; [assumption|lia]. }
    rewrite next_go_S in H.
    destruct (Nat.ltb_spec o (length content)).
    - destruct (nth_error content o) as [c|]; [|discriminate H].
      destruct (index_of c first_chars 0) as [g|].
      + destruct (try_group content (S o) (nth g groups [])) as [id off''| |] eqn:Eg.
        * injection H as <- <-. destruct (try_group_len _ _ _ _ Eg) as [wd [Hi Hl]].
          right; right. exists wd. split; [apply nth_groups_in with (g := g); exact Hi|lia].
        * auto.
        * discriminate H.
      + destruct (N.eqb c single); [|auto].
        injection H as <- <-. right; left. split; [reflexivity|lia].
    - injection H as <- <-. left. split; [reflexivity|lia].
  Qed.
End FinderLen.

Lemma table_toklen : forall m word, In (m, word) (concat finder_groups_c8) -> 1 + length word = toklen m.
Proof.
  intros m word H. cbn in H.
  repeat (destruct H as [H|H]; [injection H as <- <-; reflexivity|]). destruct H.
Qed.

Lemma next_w_c8 : forall w content o, next_w w content o = next finder_first_chars_c8 finder_single_char_c8 finder_groups_c8 content o.
Proof. intros w content o. destruct w as [|[[p|p|]|[p|p|]|]]; reflexivity. Qed.

Section Safety.
  Variable numf : list N -> N * N * nat.
  Variable w : N.
  Variable content : list N.
  Notation len := (length content).
  Notation T := (fun _ => True).

  Ltac gbind X := apply good_bind with (Q := X).
  Ltac pbind X := apply post_bind with (Q := X).

  (* result of Next() from cursor o *)
  Definition stepok (o : nat) (mo : N * nat) : Prop :=
    o <= snd mo /\ (o <= len -> snd mo <= len) /\
    ((fst mo = 0%N /\ len <= snd mo) \/ (snd mo <= len /\ o + toklen (fst mo) <= snd mo /\ 1 <= toklen (fst mo))).

  Lemma fnext_good : forall o, good (stepok o) (fnext w content o).
  Proof.
    intros o. unfold fnext. rewrite next_w_c8.
    destruct (next finder_first_chars_c8 finder_single_char_c8 finder_groups_c8 content o) as [m o'|] eqn:E;
      [|exfalso; revert E; apply next_safe].
    cbn. unfold stepok. cbn [fst snd].
    destruct (Nat.le_gt_cases o len) as [Hle|Hgt].
    - destruct (next_progress _ _ _ _ _ _ _ Hle E) as [Hb Hs].
      rewrite next_unfold in E. destruct (next_go_len _ _ _ _ _ _ _ _ E) as [[Hm [Ho Hl]]|[[Hm Ho]|[wd [Hi Ho]]]].
      + split; [lia|split; [lia|left; split; [exact Hm|exact Hl]]].
      + subst m. split; [lia|split; [lia|right]]. cbn. lia.
      + apply table_toklen in Hi. split; [lia|split; [lia|right]]. lia.
    - rewrite next_unfold in E. replace (len - o) with 0 in E by lia. rewrite next_go_S in E.
      destruct (Nat.ltb_spec o len); [lia|]. injection E as <- <-. split; [lia|split; [lia|left; split; [reflexivity|lia]]].
  Qed.

  (* ---------------------------------------------------------------- *)
  (* list helpers *)
  Lemma split_last_app : forall A (l : list A) x, split_last (l ++ [x]) = Some (l, x).
  Proof.
    intros A l x; induction l as [|y l IH]; [reflexivity|].
    cbn [app split_last]. rewrite IH. reflexivity.
  Qed.
  Lemma split_last_some : forall A (l : list A) i t, split_last l = Some (i, t) -> l = i ++ [t].
  Proof.
    intros A l; induction l as [|y l IH]; intros i t H; [discriminate H|].
    cbn [split_last] in H. destruct (split_last l) as [[i' t']|] eqn:E.
    - injection H as <- <-. rewrite (IH _ _ eq_refl). reflexivity.
    - injection H as <- <-. destruct l; [reflexivity|]. cbn in E. destruct (split_last l) as [[? ?]|]; discriminate E.
  Qed.
  Lemma split_last_none : forall A (l : list A), split_last l = None -> l = [].
  Proof. intros A [|y l] H; [reflexivity|]. cbn in H. destruct (split_last l) as [[? ?]|]; discriminate H. Qed.

  Lemma Forall_snoc : forall A (P : A -> Prop) l x, Forall P (l ++ [x]) <-> Forall P l /\ P x.
  Proof.
    intros A P l x. rewrite Forall_app. split; intros [H1 H2]; split; auto.
    inversion H2; assumption.
  Qed.
  Lemma Forall_removelast : forall A (P : A -> Prop) l, Forall P l -> Forall P (removelast l).
  Proof.
    intros A P l; induction l as [|x l IH]; intros H; [constructor|].
    inversion H; subst. cbn [removelast]. destruct l; [constructor|]. constructor; auto.
  Qed.

  (* ---------------------------------------------------------------- *)
  (* the invariant *)
  Definition leaf_ok (t : tag) : Prop :=
    match t with PVar v | PRaw v => tpp_VariablePrefixLength <= v_off v | _ => True end.

  (* the last element of an array on the stack: a tag that owns an open child array *)
  Definition container_ok (fo : nat) (t : tag) : Prop :=
    match t with
    | PSVar _ _ _ _ | PLoop _ _ => True
    | PIIf i _ _ => i_off i <= fo
    | PIf _ _ cases => cases <> []
    | _ => False
    end.
  Definition open_ok (fo : nat) (top : list tag) : Prop :=
    exists init t, top = init ++ [t] /\ container_ok fo t.

  Definition structok (fo : nat) (stack : list (list tag)) (cur : list tag) : Prop :=
    Forall (open_ok fo) stack /\ Forall (Forall leaf_ok) stack /\ Forall leaf_ok cur.

  Definition finok (fm : N) (fo : nat) : Prop :=
    fm = 0%N \/ (fo <= len /\ toklen fm <= fo /\ 1 <= toklen fm).

  Definition Inv (st : pstate) : Prop :=
    finok (ps_fm st) (ps_fo st) /\ structok (ps_fo st) (ps_stack st) (ps_cur st).

  Lemma container_ok_mono : forall fo fo' t, fo <= fo' -> container_ok fo t -> container_ok fo' t.
  Proof. intros fo fo' t H. destruct t; cbn; auto. lia. Qed.
  Lemma open_ok_mono : forall fo fo' top, fo <= fo' -> open_ok fo top -> open_ok fo' top.
  Proof. intros fo fo' top H (i & t & E & C). exists i, t. split; [exact E|eapply container_ok_mono; eassumption]. Qed.
  Lemma structok_mono : forall fo fo' stack cur, fo <= fo' -> structok fo stack cur -> structok fo' stack cur.
  Proof.
    intros fo fo' stack cur H (H1 & H2 & H3). repeat split; try assumption.
    eapply Forall_impl; [|exact H1]. intros top. apply open_ok_mono; exact H.
  Qed.

  Lemma stepok_finok : forall o mo, stepok o mo -> finok (fst mo) (snd mo).
  Proof. unfold stepok, finok. intros o mo [H1 [H0 [[H2 _]|H2]]]; [left; exact H2|right; lia]. Qed.

  (* what one iteration establishes *)
  Definition stepped (st st' : pstate) : Prop :=
    Inv st' /\ ps_fo st <= ps_fo st' /\ (ps_fm st' = 0%N \/ ps_fo st < ps_fo st').

  Lemma stepped_of : forall st stack cur child chain o mo,
    ps_fo st <= o ->
    stepok o mo -> structok (snd mo) stack cur ->
    stepped st (mkS (snd mo) (fst mo) stack cur child chain).
  Proof.
    intros st stack cur child chain o mo Ho Hs Hst. unfold stepped, Inv. cbn [ps_fo ps_fm ps_stack ps_cur].
    split; [split; [eapply stepok_finok; exact Hs|exact Hst]|].
    destruct Hs as [H1 [H0 [[H2 _]|H2]]].
    - split; [lia|left; exact H2].
    - split; [lia|right; lia].
  Qed.

  (* plugging the open child back *)
  Definition plug (t : tag) (cur : list tag) : tag :=
    match t with
    | PSVar o e v _ => PSVar o e v cur
    | PIIf i c _ => PIIf i c cur
    | PLoop l _ => PLoop l cur
    | PIf o e cases =>
      match split_last cases with
      | Some (ci, PCase co ce cc _) => PIf o e (ci ++ [PCase co ce cc cur])
      | None => t
      end
    | _ => t
    end.

  Lemma writeback_good : forall site fo init t cur, container_ok fo t ->
    writeback site (init ++ [t]) cur = Ok (init ++ [plug t cur]).
  Proof.
    intros site fo init t cur H. unfold writeback. rewrite split_last_app.
    destruct t as [| | | | | |o e cases]; cbn in H; try contradiction; try reflexivity.
    cbn [plug]. destruct (split_last cases) as [[ci [co ce cc sb]]|] eqn:E; [reflexivity|].
    apply split_last_none in E. contradiction.
  Qed.

  Lemma plug_leaf_ok : forall fo t cur, container_ok fo t -> leaf_ok (plug t cur).
  Proof.
    intros fo t cur H. destruct t as [| | | | | |o e cases]; cbn in H; try contradiction; try exact I.
    cbn [plug]. destruct (split_last cases) as [[ci [co ce cc sb]]|]; exact I.
  Qed.

  (* ---------------------------------------------------------------- *)
  (* the cases of the switch *)
  Lemma inv_parts : forall st, Inv st -> ps_fm st <> 0%N ->
    ps_fo st <= len /\ toklen (ps_fm st) <= ps_fo st /\ 1 <= toklen (ps_fm st) /\
    Forall (open_ok (ps_fo st)) (ps_stack st) /\ Forall (Forall leaf_ok) (ps_stack st) /\ Forall leaf_ok (ps_cur st).
  Proof.
    intros st [[H0|H] (H1 & H2 & H3)] Hm; [contradiction|]. repeat split; try assumption; lia.
  Qed.

  Lemma stepped_with_finder : forall st stack cur child chain o mo,
    ps_fo st <= o -> stepok o mo -> structok o stack cur ->
    stepped st (mkS (snd mo) (fst mo) stack cur child chain).
  Proof.
    intros st stack cur child chain o mo Ho Hs Hst.
    apply stepped_of with (o := o); [exact Ho|exact Hs|].
    eapply structok_mono; [|exact Hst]. destruct Hs as [H _]. exact H.
  Qed.

  (* finder.Next() at the end of a case *)
  Lemma then_next_post : forall st r,
    post (fun st1 => structok (ps_fo st1) (ps_stack st1) (ps_cur st1) /\ ps_fo st <= ps_fo st1) r ->
    post (stepped st) (then_next w content r).
  Proof.
    intros st r Hr. unfold then_next.
    pbind (fun st1 => structok (ps_fo st1) (ps_stack st1) (ps_cur st1) /\ ps_fo st <= ps_fo st1); [exact Hr|].
    intros st1 [Hs Ho].
    pbind (stepok (ps_fo st1)); [apply good_post, fnext_good|]. intros mo Hmo.
    cbn [post]. unfold with_finder. apply stepped_with_finder with (o := ps_fo st1); assumption.
  Qed.

  Lemma do_var_post : forall mk st,
    (forall v, tpp_VariablePrefixLength <= v_off v -> leaf_ok (mk v)) ->
    Inv st -> toklen (ps_fm st) = 5 ->
    post (stepped st) (do_var w content mk st).
  Proof.
    intros mk st Hmk HI Hk.
    assert (Hm : ps_fm st <> 0%N) by (intros E; rewrite E in Hk; discriminate Hk).
    destruct (inv_parts st HI Hm) as (Hfo & Htl & _ & Hs1 & Hs2 & Hs3).
    unfold do_var.
    pbind (stepok (ps_fo st)); [apply good_post, fnext_good|]. intros mo Hmo.
    destruct (N.eqb_spec (fst mo) tpp_LineEndID) as [E|E].
    - destruct Hmo as (Hm1 & Hm0 & [[Hz _]|Hm2]); [rewrite Hz in E; discriminate E|].
      rewrite E in Hm2. cbn in Hm2.
      pbind (fun d => d = snd mo - ps_fo st); [apply good_post, csub_good; lia|]. intros d ->.
      pbind (fun d1 : nat => True); [apply good_post; eapply good_weaken; [apply csub_good; unfold tpp_InLineSuffixLength; lia|auto]|].
      intros d1 _.
      pbind (fun cur' => Forall leaf_ok cur').
      { destruct (N.eqb (t8 d1) 0); [exact Hs3|].
        pbind (fun v' => v_off v' = ps_fo st); [eapply post_weaken; [apply check_loop_variable_post|]; cbn; intros a [Ha _]; exact Ha|].
        intros v Hv. cbn [post]. apply Forall_snoc. split; [exact Hs3|apply Hmk; rewrite Hv; unfold tpp_VariablePrefixLength; lia]. }
      intros cur' Hcur.
      pbind (stepok (snd mo)); [apply good_post, fnext_good|]. intros mo2 Hmo2.
      cbn [post]. unfold with_finder, with_cur. cbn [ps_stack ps_cur ps_child ps_chain].
      apply stepped_with_finder with (o := snd mo); [lia|exact Hmo2|].
      eapply structok_mono with (fo := ps_fo st); [lia|]. repeat split; assumption.
    - cbn [post]. unfold with_finder.
      apply stepped_with_finder with (o := ps_fo st); [lia|exact Hmo|]. repeat split; assumption.
  Qed.

  (* ---- math ---- *)
  Lemma math_scan_good : forall fuel o0 mo sv,
    stepok o0 mo -> o0 <= len ->
    (fst mo = 0%N -> 1 <= fuel) -> (fst mo <> 0%N -> 2 + (len - snd mo) <= fuel) ->
    good (fun r => stepok o0 (snd r) /\ (fst r = 0 \/ (1 <= fst r /\ fst r <= len)))
         (math_scan w content fuel mo sv).
  Proof.
    intros fuel; induction fuel as [|f IH]; intros o0 mo sv Hmo Ho0 Hf0 Hf1.
    { destruct (N.eqb_spec (fst mo) 0); [specialize (Hf0 e); lia|specialize (Hf1 n); lia]. }
    cbn [math_scan].
    (* the optional first Next *)
    gbind (fun r : (N * nat) * nat => stepok o0 (fst r) /\ snd mo <= snd (fst r) /\
             (fst (fst r) <> 0%N -> fst mo <> 0%N)).
    { destruct (N.ltb (fst mo) tpp_MathID && negb (N.eqb (fst mo) tpp_LineEndID)).
      - gbind (stepok (snd mo)); [apply fnext_good|]. intros mo' Hmo'. cbn [good fst snd].
        destruct Hmo as (Ha & Hb & Hc). destruct Hmo' as (Ha' & Hb' & Hc').
        split; [|split; [lia|]].
        + split; [lia|split; [intros; apply Hb'; apply Hb; assumption|]].
          destruct Hc' as [Hz|Hn]; [left; exact Hz|right; lia].
        + intros Hn Hz. destruct Hc as [[_ Hl]|Hc]; [|destruct Hc as (Hc1 & Hc2 & Hc3); rewrite Hz in Hc3; cbn in Hc3; lia].
          destruct Hc' as [[Hz' _]|Hc']; [contradiction|]. lia.
      - cbn [good fst snd]. split; [exact Hmo|split; [lia|auto]]. }
    intros [mo1 sv1] (Hmo1 & Hle & Hnz). cbn [fst snd] in *.
    destruct (N.eqb_spec (fst mo1) tpp_LineEndID) as [E|E]; [|cbn; split; [exact Hmo1|left; reflexivity]].
    assert (Hn1 : fst mo1 <> 0%N) by (rewrite E; discriminate).
    assert (Hb1 : snd mo1 <= len /\ 1 <= snd mo1).
    { destruct Hmo1 as (_ & _ & [[Hz _]|Hc]); [contradiction|]. rewrite E in Hc. cbn in Hc. lia. }
    specialize (Hf1 (Hnz Hn1)).
    destruct sv1 as [|sv'].
    - gbind (stepok (snd mo1)); [apply fnext_good|]. intros mo2 Hmo2. cbn [good fst snd].
      split; [|right; lia].
      destruct Hmo1 as (Ha & Hb & Hc). destruct Hmo2 as (Ha' & Hb' & Hc').
      split; [lia|split; [intros; apply Hb'; lia|]].
      destruct Hc' as [Hz|Hn]; [left; exact Hz|right; lia].
    - gbind (stepok (snd mo1)); [apply fnext_good|]. intros mo2 Hmo2.
      apply IH; [| exact Ho0 | intros _; lia |].
      + destruct Hmo1 as (Ha & Hb & Hc). destruct Hmo2 as (Ha' & Hb' & Hc').
        split; [lia|split; [intros; apply Hb'; lia|]].
        destruct Hc' as [Hz|Hn]; [left; exact Hz|right; lia].
      + intros Hn2. destruct Hmo2 as (Ha' & Hb' & [[Hz _]|Hc']); [contradiction|]. lia.
  Qed.

  Lemma do_math_post : forall st, Inv st -> ps_fm st = tpp_MathID -> post (stepped st) (do_math numf w content st).
  Proof.
    intros st HI Hk.
    assert (Hm : ps_fm st <> 0%N) by (rewrite Hk; discriminate).
    destruct (inv_parts st HI Hm) as (Hfo & Htl & _ & Hs1 & Hs2 & Hs3). rewrite Hk in Htl. cbn in Htl.
    unfold do_math.
    pbind (stepok (ps_fo st)); [apply good_post, fnext_good|]. intros mo Hmo.
    pbind (fun r : nat * (N * nat) => stepok (ps_fo st) (snd r) /\ (fst r = 0 \/ (1 <= fst r /\ fst r <= len))).
    { apply good_post, math_scan_good; [exact Hmo|exact Hfo|lia|].
      intros Hn. destruct Hmo as (_ & _ & [[Hz _]|Hc]); [contradiction|]. lia. }
    intros [eo mo'] [Hmo' He]. cbn [fst snd] in *.
    destruct (Nat.eqb_spec eo 0) as [E0|E0].
    - cbn [post]. unfold with_finder. apply stepped_with_finder with (o := ps_fo st); [lia|exact Hmo'|repeat split; assumption].
    - destruct He as [He|He]; [contradiction|].
      pbind (fun _ : nat => True); [apply good_post; eapply good_weaken; [apply csub_good; unfold tpp_MathPrefixLength; lia|auto]|]. intros o _.
      pbind (fun e1 => e1 = eo - tpp_InLineSuffixLength); [apply good_post, csub_good; unfold tpp_InLineSuffixLength; lia|]. intros e1 ->.
      pbind (fun _ : list qexpr => True); [apply pexpr_post; left; unfold tpp_InLineSuffixLength; lia|]. intros ex _.
      cbn [post]. unfold with_finder, with_cur. cbn [ps_stack ps_cur ps_child ps_chain].
      apply stepped_with_finder with (o := ps_fo st); [lia|exact Hmo'|].
      repeat split; try assumption. apply Forall_snoc. split; [assumption|exact I].
  Qed.

  (* pushing a new container tag *)
  Lemma structok_push : forall fo stack cur t,
    structok fo stack cur -> container_ok fo t -> leaf_ok t -> structok fo ((cur ++ [t]) :: stack) [].
  Proof.
    intros fo stack cur t (H1 & H2 & H3) Hc Hl. repeat split.
    - constructor; [exists cur, t; split; [reflexivity|exact Hc]|exact H1].
    - constructor; [apply Forall_snoc; split; assumption|exact H2].
    - constructor.
  Qed.

  Lemma do_svar_post : forall st, Inv st -> ps_fm st = tpp_SuperVariableID -> post (stepped st) (do_svar w content st).
  Proof.
    intros st HI Hk.
    assert (Hm : ps_fm st <> 0%N) by (rewrite Hk; discriminate).
    destruct (inv_parts st HI Hm) as (Hfo & Htl & _ & Hs1 & Hs2 & Hs3). rewrite Hk in Htl. cbn in Htl.
    unfold do_svar.
    pbind (fun _ : nat => True); [apply good_post; eapply good_weaken; [apply csub_good; unfold tpp_SuperVariablePrefixLength; lia|auto]|]. intros so _.
    pbind (stepok (ps_fo st)); [apply good_post, fnext_good|]. intros mo Hmo.
    assert (Hend : snd mo <= len) by (destruct Hmo as (_ & H & _); auto).
    pbind (fun o => ps_fo st <= o); [apply good_post; eapply good_weaken; [apply skip_ne_good; exact Hend|cbn; intros; lia]|]. intros o2 Ho2.
    pbind (fun _ : nat => True); [apply good_post; eapply good_weaken; [apply csub_good; lia|auto]|]. intros d _.
    unfold with_finder. cbn [ps_stack ps_cur ps_child ps_chain].
    destruct (N.eqb (t8 d) 0); cbn [post]; unfold push_tag; cbn [ps_fo ps_fm ps_stack ps_cur].
    - apply stepped_with_finder with (o := ps_fo st); [lia|exact Hmo|repeat split; assumption].
    - apply stepped_with_finder with (o := ps_fo st); [lia|exact Hmo|].
      apply structok_push; [repeat split; assumption|exact I|exact I].
  Qed.

  (* ---- inline if ---- *)
  Lemma stepok_chain : forall o0 mo1 mo2, stepok o0 mo1 -> stepok (snd mo1) mo2 -> o0 <= len -> stepok o0 mo2.
  Proof.
    intros o0 mo1 mo2 (Ha & Hb & Hc) (Ha' & Hb' & Hc') Ho.
    split; [lia|split; [intros; apply Hb'; apply Hb; assumption|]].
    destruct Hc' as [Hz|Hn]; [left; exact Hz|right; lia].
  Qed.

  Lemma iif_case_scan_good : forall fuel o0 quote offset mo,
    stepok o0 mo -> o0 <= len -> offset <= snd mo ->
    (fst mo = 0%N -> 1 <= fuel) -> (fst mo <> 0%N -> 2 + (len - snd mo) <= fuel) ->
    good (fun r => let '(off', mtch, mo') := r in
                   stepok o0 mo' /\ offset <= off' /\ (mtch <> 0%N -> off' < len))
         (iif_case_scan w content fuel quote offset (snd mo) mo).
  Proof.
    intros fuel; induction fuel as [|f IH]; intros o0 quote offset mo Hmo Ho0 Hoff Hf0 Hf1.
    { destruct (N.eqb_spec (fst mo) 0); [specialize (Hf0 e); lia|specialize (Hf1 n); lia]. }
    cbn [iif_case_scan].
    destruct (N.eqb_spec (fst mo) 0) as [Ez|Ez]; [cbn; split; [exact Hmo|split; [lia|intros H; contradiction]]|].
    specialize (Hf1 Ez).
    assert (Hb : snd mo <= len) by (destruct Hmo as (_ & _ & [[Hz _]|Hc]); [contradiction|lia]).
    gbind (fun o => offset <= o /\ (o <= snd mo \/ o = offset)); [apply skip_ne_good; exact Hb|]. intros o1 Ho1.
    destruct (Nat.ltb_spec o1 (snd mo)) as [Hlt|Hge]; [cbn; split; [exact Hmo|split; [lia|intros; lia]]|].
    gbind (stepok (snd mo)); [apply fnext_good|]. intros mo1 Hmo1.
    assert (Hc1 : stepok o0 mo1) by (eapply stepok_chain; eassumption).
    destruct (N.eqb_spec (fst mo1) tpp_LineEndID) as [E|E].
    - gbind (stepok (snd mo1)); [apply fnext_good|]. intros mo2 Hmo2.
      assert (Hc2 : stepok o0 mo2) by (eapply stepok_chain; eassumption).
      assert (Hlt1 : snd mo < snd mo1).
      { destruct Hmo1 as (_ & _ & [[Hz _]|Hc]); [rewrite Hz in E; discriminate E|]. lia. }
      eapply good_weaken; [apply (IH o0 quote o1 mo2); [exact Hc2|exact Ho0| |intros _; lia|]|].
      + destruct Hmo2 as (H & _). lia.
      + intros Hn2. destruct Hmo2 as (_ & _ & [[Hz _]|Hc]); [contradiction|]. lia.
      + intros [[off' mtch] mo'] (H1 & H2 & H3). split; [exact H1|split; [lia|exact H3]].
    - cbn. split; [exact Hc1|split; [lia|]]. intros Hn.
      destruct Hmo1 as (_ & _ & [[Hz _]|Hc]); [contradiction|]. lia.
  Qed.

  Lemma do_iif_post : forall st, Inv st -> ps_fm st = tpp_InLineIfID -> post (stepped st) (do_iif numf w content st).
  Proof.
    intros st HI Hk.
    assert (Hm : ps_fm st <> 0%N) by (rewrite Hk; discriminate).
    destruct (inv_parts st HI Hm) as (Hfo & Htl & _ & Hs1 & Hs2 & Hs3). rewrite Hk in Htl. cbn in Htl.
    assert (Hst : structok (ps_fo st) (ps_stack st) (ps_cur st)) by (repeat split; assumption).
    unfold do_iif.
    pbind (fun d => d = ps_fo st - tpp_InLineIfPrefixLength); [apply good_post, csub_good; unfold tpp_InLineIfPrefixLength; lia|]. intros io ->.
    pbind (stepok (ps_fo st)); [apply good_post, fnext_good|]. intros mo Hmo.
    assert (Hend : snd mo <= len) by (destruct Hmo as (_ & H & _); auto).
    assert (Hplain : stepped st (with_finder st mo)).
    { unfold with_finder. apply stepped_with_finder with (o := ps_fo st); [lia|exact Hmo|exact Hst]. }
    pbind (fun o => ps_fo st <= o); [apply good_post; eapply good_weaken; [apply skip_eq_good; exact Hend|cbn; intros; lia]|]. intros o1 Ho1.
    pbind (fun _ : bool => True).
    { destruct (o1 <? snd mo); [apply good_post, word_at_good; exact Hend|exact I]. }
    intros is_case _. destruct is_case; [|exact Hplain].
    pbind (fun o => ps_fo st <= o); [apply good_post; eapply good_weaken; [apply skip_ne_good; exact Hend|cbn; intros; lia]|]. intros o2 Ho2.
    pbind (fun o => ps_fo st < o); [apply good_post; eapply good_weaken; [apply skip_eq_do_good; exact Hend|cbn; intros; lia]|]. intros o3 Ho3.
    destruct (Nat.ltb_spec o3 (snd mo)) as [Hlt|Hge]; [|exact Hplain].
    pbind (fun _ : N => True); [apply good_post, rd_good; lia|]. intros quote _.
    pbind (fun r : nat * N * (N * nat) => let '(off', mtch, mo') := r in
             stepok (ps_fo st) mo' /\ S o3 <= off' /\ (mtch <> 0%N -> off' < len)).
    { apply good_post, iif_case_scan_good; [exact Hmo|exact Hfo|lia|lia|].
      intros Hn. destruct Hmo as (_ & _ & [[Hz _]|Hc]); [contradiction|]. lia. }
    intros [[off' mtch] mo'] (Hmo' & Hoff' & Hlen').
    destruct (N.eqb_spec mtch 0) as [Ez|Ez].
    - cbn [post]. unfold with_finder. apply stepped_with_finder with (o := ps_fo st); [lia|exact Hmo'|exact Hst].
    - specialize (Hlen' Ez).
      pbind (fun _ : list qexpr => True); [apply pexpr_post; left; exact Hlen'|]. intros ex _.
      pbind (fun _ : nat => True); [apply good_post; eapply good_weaken; [apply csub_good; lia|auto]|]. intros d _.
      cbn [post]. unfold push_tag, with_finder. cbn [ps_fo ps_fm ps_stack ps_cur ps_child ps_chain].
      apply stepped_with_finder with (o := ps_fo st); [lia|exact Hmo'|].
      apply structok_push; [exact Hst|cbn; lia|exact I].
  Qed.

  (* ---- loop ---- *)
  Lemma do_loop_post : forall st, Inv st -> ps_fm st = tpp_LoopID -> post (stepped st) (do_loop w content st).
  Proof.
    intros st HI Hk.
    assert (Hm : ps_fm st <> 0%N) by (rewrite Hk; discriminate).
    destruct (inv_parts st HI Hm) as (Hfo & Htl & _ & Hs1 & Hs2 & Hs3). rewrite Hk in Htl. cbn in Htl.
    assert (Hst : structok (ps_fo st) (ps_stack st) (ps_cur st)) by (repeat split; assumption).
    unfold do_loop.
    pbind (fun d => d = ps_fo st - tpp_LoopPrefixLength); [apply good_post, csub_good; unfold tpp_LoopPrefixLength; lia|]. intros lo ->.
    pbind (stepok (ps_fo st)); [apply good_post, fnext_good|]. intros mo Hmo.
    assert (Hend : snd mo <= len) by (destruct Hmo as (_ & H & _); auto).
    pbind (fun o => ps_fo st <= o); [apply good_post; eapply good_weaken; [apply skip_ne_good; exact Hend|cbn; intros; lia]|]. intros o1 Ho1.
    destruct (Nat.ltb_spec o1 (snd mo)) as [Hlt|Hge].
    - pbind (fun _ : looprec => True); [eapply post_weaken; [apply parse_loop_attributes_post; lia|auto]|]. intros l1 _.
      pbind (fun _ : nat => True); [apply good_post; eapply good_weaken; [apply csub_good; unfold tpp_LoopPrefixLength; lia|auto]|]. intros d _.
      cbn [post]. unfold push_tag, with_finder. cbn [ps_fo ps_fm ps_stack ps_cur ps_child ps_chain].
      apply stepped_with_finder with (o := ps_fo st); [lia|exact Hmo|].
      apply structok_push; [exact Hst|exact I|exact I].
    - cbn [post]. unfold with_finder. apply stepped_with_finder with (o := ps_fo st); [lia|exact Hmo|exact Hst].
  Qed.

  Definition rested (st st1 : pstate) : Prop :=
    structok (ps_fo st1) (ps_stack st1) (ps_cur st1) /\ ps_fo st <= ps_fo st1.

  Lemma rested_refl : forall st, Inv st -> rested st st.
  Proof. intros st [_ H]. split; [exact H|lia]. Qed.

  Lemma do_loop_end_post : forall st, Inv st -> ps_fm st = tpp_LoopEndID -> post (rested st) (do_loop_end st).
  Proof.
    intros st HI Hk.
    assert (Hm : ps_fm st <> 0%N) by (rewrite Hk; discriminate).
    destruct (inv_parts st HI Hm) as (Hfo & Htl & _ & Hs1 & Hs2 & Hs3). rewrite Hk in Htl. cbn in Htl.
    unfold do_loop_end.
    destruct (ps_chain st) as [|li chain]; [apply rested_refl; exact HI|].
    destruct (ps_stack st) as [|top rest] eqn:Est; [apply rested_refl; exact HI|].
    inversion Hs1 as [|? ? (init & t & Et & Hc) Hr1]; subst. inversion Hs2 as [|? ? Hl Hr2]; subst.
    rewrite split_last_app. apply Forall_snoc in Hl. destruct Hl as [Hli _].
    destruct t as [| | | | |l sb|]; try (apply rested_refl; exact HI).
    pbind (fun _ : nat => True); [apply good_post; eapply good_weaken; [apply csub_good; unfold tpp_LoopSuffixLength; lia|auto]|]. intros e _.
    cbn [post]. unfold rested. cbn [ps_fo ps_stack ps_cur]. split; [|lia].
    repeat split; try assumption.
    match goal with |- Forall _ (if ?c then _ else _) => destruct c end; [exact Hli|].
    apply Forall_snoc. split; [exact Hli|exact I].
  Qed.

  (* ---- if ---- *)
  Lemma do_if_post : forall st, Inv st -> ps_fm st = tpp_IfID -> post (stepped st) (do_if numf w content st).
  Proof.
    intros st HI Hk.
    assert (Hm : ps_fm st <> 0%N) by (rewrite Hk; discriminate).
    destruct (inv_parts st HI Hm) as (Hfo & Htl & _ & Hs1 & Hs2 & Hs3). rewrite Hk in Htl. cbn in Htl.
    assert (Hst : structok (ps_fo st) (ps_stack st) (ps_cur st)) by (repeat split; assumption).
    unfold do_if.
    pbind (fun _ : nat => True); [apply good_post; eapply good_weaken; [apply csub_good; unfold tpp_IfPrefixLength; lia|auto]|]. intros io _.
    pbind (fun r : nat * nat * nat => let '(o, co, ce) := r in ps_fo st <= o /\ (o < len -> ce < len));
      [apply good_post, parse_if_case_good|].
    intros [[o co] ce] [Ho Hce].
    pbind (fun st1 => ps_fo st1 = ps_fo st /\ structok (ps_fo st) (ps_stack st1) (ps_cur st1)).
    { destruct (Nat.ltb_spec o len) as [Hlt|Hge]; [|cbn; split; [reflexivity|exact Hst]].
      pbind (fun _ : list qexpr => True); [apply pexpr_post; left; auto|]. intros ex _.
      cbn [post]. unfold push_tag. cbn [ps_fo ps_stack ps_cur]. split; [reflexivity|].
      apply structok_push; [exact Hst|cbn; discriminate|exact I]. }
    intros st1 [Hfo1 Hst1].
    pbind (stepok o); [apply good_post, fnext_good|]. intros mo Hmo.
    cbn [post]. unfold with_finder. apply stepped_with_finder with (o := o); [lia|exact Hmo|].
    eapply structok_mono; [|exact Hst1]. lia.
  Qed.

  Lemma cases_split : forall cases : list ifcase, cases <> [] ->
    exists ci co ce cc sb, split_last cases = Some (ci, PCase co ce cc sb).
  Proof.
    intros cases H. destruct (split_last cases) as [[ci [co ce cc sb]]|] eqn:E.
    - exists ci, co, ce, cc, sb. reflexivity.
    - apply split_last_none in E. contradiction.
  Qed.

  Lemma do_if_end_post : forall st, Inv st -> ps_fm st = tpp_IfEndID -> post (rested st) (do_if_end st).
  Proof.
    intros st HI Hk.
    assert (Hm : ps_fm st <> 0%N) by (rewrite Hk; discriminate).
    destruct (inv_parts st HI Hm) as (Hfo & Htl & _ & Hs1 & Hs2 & Hs3). rewrite Hk in Htl. cbn in Htl.
    unfold do_if_end.
    destruct (ps_stack st) as [|top rest] eqn:Est; [apply rested_refl; exact HI|].
    inversion Hs1 as [|? ? (init & t & Et & Hc) Hr1]; subst. inversion Hs2 as [|? ? Hl Hr2]; subst.
    rewrite split_last_app. apply Forall_snoc in Hl. destruct Hl as [Hli _].
    destruct t as [| | | | | |o eo cases]; try (apply rested_refl; exact HI).
    cbn in Hc. destruct (cases_split cases Hc) as (ci & co & ce & cc & sb & E). rewrite E.
    pbind (fun _ : nat => True); [apply good_post; eapply good_weaken; [apply csub_good; unfold tpp_IfSuffixLength; lia|auto]|]. intros e _.
    cbn [post]. unfold rested. cbn [ps_fo ps_stack ps_cur]. split; [|lia].
    repeat split; try assumption. apply Forall_snoc. split; [exact Hli|exact I].
  Qed.

  Lemma else_scan_good : forall fuel offset, len - offset <= fuel ->
    good (fun r => offset <= fst r) (else_scan content fuel offset).
  Proof.
    intros fuel; induction fuel as [|f IH]; intros offset Hf.
    - cbn [else_scan]. destruct (Nat.ltb_spec offset len); [lia|]. cbn. lia.
    - cbn [else_scan]. destruct (Nat.ltb_spec offset len) as [Hlt|Hge]; [|cbn; lia].
      gbind (fun _ : N => True); [apply rd_good; exact Hlt|]. intros ch _.
      destruct (N.eqb ch tpp_MultiLineLastChar); [cbn; lia|].
      destruct (N.eqb ch tpp_IfFirstChar); [cbn; lia|].
      eapply good_weaken; [apply IH; lia|]. cbn. intros; lia.
  Qed.

  Lemma do_else_post : forall st, Inv st -> ps_fm st = tpp_ElseID ->
    post (fun r : pstate * bool => if snd r then rested st (fst r) else stepped st (fst r)) (do_else numf w content st).
  Proof.
    intros st HI Hk.
    assert (Hm : ps_fm st <> 0%N) by (rewrite Hk; discriminate).
    destruct (inv_parts st HI Hm) as (Hfo & Htl & _ & Hs1 & Hs2 & Hs3). rewrite Hk in Htl. cbn in Htl.
    unfold do_else.
    destruct (ps_stack st) as [|top rest] eqn:Est; [cbn; apply rested_refl; exact HI|].
    inversion Hs1 as [|? ? (init & t & Et & Hc) Hr1]; subst. inversion Hs2 as [|? ? Hl Hr2]; subst.
    rewrite split_last_app. apply Forall_snoc in Hl. destruct Hl as [Hli _].
    destruct t as [| | | | | |o eo cases]; try (cbn; apply rested_refl; exact HI).
    cbn in Hc. destruct (cases_split cases Hc) as (ci & co & ce & cc & sb & E). rewrite E.
    pbind (fun _ : nat => True); [apply good_post; eapply good_weaken; [apply csub_good; unfold tpp_ElsePrefixLength; lia|auto]|]. intros e _.
    assert (Hbad : forall fo fm, ps_fo st <= fo ->
              rested st (mkS fo fm rest init (ps_child st) (ps_chain st))).
    { intros fo fm Hle. unfold rested. cbn [ps_fo ps_stack ps_cur]. split; [|exact Hle].
      eapply structok_mono; [exact Hle|]. repeat split; assumption. }
    assert (Hopen : forall coff ex oo mo, ps_fo st <= oo -> stepok oo mo ->
              stepped st (mkS (snd mo) (fst mo)
                 ((init ++ [PIf o eo ((ci ++ [PCase co e cc (ps_cur st)]) ++ [PCase coff 0 ex []])]) :: rest) []
                 (ps_child st) (ps_chain st))).
    { intros coff ex oo mo Hle Hmo. apply stepped_with_finder with (o := oo); [exact Hle|exact Hmo|].
      eapply structok_mono; [exact Hle|]. repeat split.
      - constructor; [|exact Hr1]. eexists init, _. split; [reflexivity|]. cbn. intros Hn. apply app_eq_nil in Hn. destruct Hn as [_ Hn]. discriminate Hn.
      - constructor; [|exact Hr2]. apply Forall_snoc. split; [exact Hli|exact I].
      - constructor. }
    pbind (fun sc : nat * bool => ps_fo st <= fst sc); [apply good_post, else_scan_good; lia|]. intros [offset isie] Hsc. cbn [fst snd] in *.
    destruct isie.
    - pbind (fun r : nat * nat * nat => let '(o', co', ce') := r in offset <= o' /\ (o' < len -> ce' < len));
        [apply good_post, parse_if_case_good|].
      intros [[o' co'] ce'] [Ho' Hce'].
      pbind (stepok o'); [apply good_post, fnext_good|]. intros mo Hmo.
      destruct (Nat.ltb_spec o' len) as [Hlt|Hge]; cbn [andb].
      + destruct (negb (ce' =? 0)).
        * pbind (fun _ : list qexpr => True); [apply pexpr_post; left; auto|]. intros ex _.
          cbn [post fst snd]. apply Hopen with (oo := o'); [lia|exact Hmo].
        * cbn [post fst snd]. apply Hbad. destruct Hmo as [H _]. lia.
      + cbn [post fst snd]. apply Hbad. destruct Hmo as [H _]. lia.
    - destruct (Nat.ltb_spec offset len) as [Hlt|Hge].
      + pbind (stepok (S offset)); [apply good_post, fnext_good|]. intros mo Hmo.
        cbn [post fst snd]. apply Hopen with (oo := S offset); [lia|exact Hmo].
      + cbn [post fst snd]. apply Hbad. lia.
  Qed.

  (* ---- closing brace ---- *)
  Lemma finalize_iif_good : forall fo rest init i c subs chain,
    fo <= len -> i_off i <= fo ->
    Forall (open_ok fo) rest -> Forall (Forall leaf_ok) rest -> Forall leaf_ok init -> Forall leaf_ok subs ->
    good (fun st1 => structok fo (ps_stack st1) (ps_cur st1) /\ ps_fo st1 = fo)
         (finalize_iif content fo rest init i c subs chain).
  Proof.
    intros fo rest init i c subs chain Hfo Hi Hr1 Hr2 Hinit Hsubs. unfold finalize_iif.
    gbind (fun _ : nat => True); [eapply good_weaken; [apply csub_good; exact Hi|auto]|]. intros d _.
    set (i1 := mkI (i_off i) (t16 d) 0 (i_tlen i) (i_foff i) (i_flen i) (i_tid i) (i_fid i)).
    gbind (fun r : iifrec * bool => isame i1 (fst r)).
    { apply iif_attrs_good; [exact Hfo|cbn; lia|lia]. }
    intros [i2 repush] [Eoff _]. cbn [fst snd] in *. cbn in Eoff.
    (* the four shapes of the resulting state *)
    assert (Hpush : forall i' cur', i_off i' = i_off i -> Forall leaf_ok cur' ->
              structok fo ((init ++ [PIIf i' c subs]) :: rest) cur').
    { intros i' cur' E Hc. repeat split.
      - constructor; [|exact Hr1]. exists init, (PIIf i' c subs). split; [reflexivity|]. cbn. lia.
      - constructor; [|exact Hr2]. apply Forall_snoc. split; [exact Hinit|exact I].
      - exact Hc. }
    assert (Hplain : forall cur', Forall leaf_ok cur' -> structok fo rest cur') by (intros; repeat split; assumption).
    assert (Hdropped : structok fo
              (ps_stack (if repush then mkS fo 0 ((init ++ [PIIf i2 c subs]) :: rest) (removelast subs) true chain
                         else mkS fo 0 rest init false chain))
              (ps_cur (if repush then mkS fo 0 ((init ++ [PIIf i2 c subs]) :: rest) (removelast subs) true chain
                       else mkS fo 0 rest init false chain)) /\
            ps_fo (if repush then mkS fo 0 ((init ++ [PIIf i2 c subs]) :: rest) (removelast subs) true chain
                   else mkS fo 0 rest init false chain) = fo).
    { destruct repush; cbn [ps_stack ps_cur ps_fo]; (split; [|reflexivity]).
      - apply Hpush; [exact Eoff|apply Forall_removelast; exact Hsubs].
      - apply Hplain; exact Hinit. }
    destruct (negb (N.eqb (i_toff i2) 0) || negb (N.eqb (i_foff i2) 0)); [|exact Hdropped].
    destruct (startid_scan subs _ 0) as [id|]; [|exact Hdropped].
    match goal with |- good _ (bind (sub_tags_valid ?i3 subs) _) =>
      assert (E3 : i_off i3 = i_off i) by (destruct (N.ltb (i_toff i2) (i_foff i2)); cbn; exact Eoff);
      generalize dependent i3 end.
    intros i3 E3.
    gbind (fun _ : bool => True); [apply sub_tags_valid_good; exact Hsubs|]. intros ok _.
    destruct ok; destruct repush; cbn [good ps_stack ps_cur ps_fo]; (split; [|reflexivity]).
    - apply Hpush; [exact E3|exact Hsubs].
    - apply Hplain. apply Forall_snoc. split; [exact Hinit|exact I].
    - apply Hpush; [exact E3|apply Forall_removelast; exact Hsubs].
    - apply Hplain; exact Hinit.
  Qed.

  Lemma do_line_end_post : forall st, Inv st -> ps_fm st = tpp_LineEndID -> post (rested st) (do_line_end content st).
  Proof.
    intros st HI Hk.
    assert (Hm : ps_fm st <> 0%N) by (rewrite Hk; discriminate).
    destruct (inv_parts st HI Hm) as (Hfo & Htl & _ & Hs1 & Hs2 & Hs3).
    unfold do_line_end.
    destruct (ps_child st); [|apply rested_refl; exact HI].
    destruct (ps_stack st) as [|top rest] eqn:Est; [apply rested_refl; exact HI|].
    inversion Hs1 as [|? ? (init & t & Et & Hc) Hr1]; subst. inversion Hs2 as [|? ? Hl Hr2]; subst.
    apply Forall_snoc in Hl. destruct Hl as [Hli _].
    rewrite (writeback_good 1 (ps_fo st) init t (ps_cur st) Hc). cbn [bind]. rewrite split_last_app.
    assert (Hrest : forall cur', Forall leaf_ok cur' ->
              rested st (mkS (ps_fo st) 0 rest cur' false (ps_chain st))).
    { intros cur' Hc'. unfold rested. cbn [ps_fo ps_stack ps_cur]. split; [|lia]. repeat split; assumption. }
    destruct t as [| | |o e v sb|i c sb|l sb|o eo cases]; cbn in Hc; try contradiction; cbn [plug].
    - cbn [post]. apply Hrest. apply Forall_snoc. split; [exact Hli|exact I].
    - apply good_post. eapply good_weaken; [apply finalize_iif_good; try assumption|].
      intros st1 [H1 H2]. unfold rested. rewrite H2. split; [exact H1|lia].
    - cbn [post]. apply Hrest. apply Forall_snoc. split; [exact Hli|exact I].
    - destruct (cases_split cases Hc) as (ci & co & ce & cc & sb & E). rewrite E.
      cbn [post]. apply Hrest. apply Forall_snoc. split; [exact Hli|exact I].
  Qed.

  (* ---- one iteration ---- *)
  Lemma step_post : forall st, Inv st -> ps_fm st <> 0%N -> post (stepped st) (step numf w content st).
  Proof.
    intros st HI Hm. unfold step.
    destruct (N.eqb_spec (ps_fm st) tpp_LineEndID) as [E|N1]; [apply then_next_post, do_line_end_post; assumption|].
    destruct (N.eqb_spec (ps_fm st) tpp_VariableID) as [E|N2]; [apply do_var_post; [intros v H; exact H|exact HI|rewrite E; reflexivity]|].
    destruct (N.eqb_spec (ps_fm st) tpp_RawVariableID) as [E|N3]; [apply do_var_post; [intros v H; exact H|exact HI|rewrite E; reflexivity]|].
    destruct (N.eqb_spec (ps_fm st) tpp_MathID) as [E|N4]; [apply do_math_post; assumption|].
    destruct (N.eqb_spec (ps_fm st) tpp_SuperVariableID) as [E|N5]; [apply do_svar_post; assumption|].
    destruct (N.eqb_spec (ps_fm st) tpp_InLineIfID) as [E|N6]; [apply do_iif_post; assumption|].
    destruct (N.eqb_spec (ps_fm st) tpp_LoopID) as [E|N7]; [apply do_loop_post; assumption|].
    destruct (N.eqb_spec (ps_fm st) tpp_LoopEndID) as [E|N8]; [apply then_next_post, do_loop_end_post; assumption|].
    destruct (N.eqb_spec (ps_fm st) tpp_IfID) as [E|N9]; [apply do_if_post; assumption|].
    destruct (N.eqb_spec (ps_fm st) tpp_IfEndID) as [E|N10]; [apply then_next_post, do_if_end_post; assumption|].
    destruct (N.eqb_spec (ps_fm st) tpp_ElseID) as [E|E11].
    - pbind (fun r : pstate * bool => if snd r then rested st (fst r) else stepped st (fst r)); [apply do_else_post; assumption|].
      intros [st1 b] H. cbn [fst snd] in *. destruct b; [apply then_next_post; exact H|exact H].
    - (* no other match id has a token *)
      exfalso. destruct (inv_parts st HI Hm) as (_ & _ & H1 & _).
      apply toklen_ids in H1. cbn in H1.
      repeat (destruct H1 as [H1|H1]; [symmetry in H1; contradiction|]). exact H1.
  Qed.

  (* ---- the main loop: the fuel (length + 2) is never exhausted ---- *)
  Lemma main_loop_post : forall fuel st, Inv st ->
    (ps_fm st <> 0%N -> len - ps_fo st < fuel) ->
    post (fun st' => Inv st' /\ ps_fm st' = 0%N) (main_loop numf w content fuel st).
  Proof.
    intros fuel; induction fuel as [|f IH]; intros st HI Hf.
    - cbn [main_loop]. destruct (N.eqb_spec (ps_fm st) 0) as [E|E]; [cbn; auto|specialize (Hf E); lia].
    - cbn [main_loop]. destruct (N.eqb_spec (ps_fm st) 0) as [E|E]; [cbn; auto|]. specialize (Hf E).
      pbind (stepped st); [apply step_post; assumption|].
      intros st' (HI' & Hle & Hadv). apply IH; [exact HI'|].
      intros Hn. destruct Hadv as [Hz|Hlt]; [contradiction|].
      destruct (inv_parts st' HI' Hn) as (Hfo' & _). lia.
  Qed.

  Lemma parse_state_post : post (fun st' => Inv st' /\ ps_fm st' = 0%N) (parse_state numf w content).
  Proof.
    unfold parse_state.
    pbind (stepok 0); [apply good_post, fnext_good|]. intros mo Hmo.
    apply main_loop_post.
    - split; [eapply stepok_finok; exact Hmo|]. cbn [ps_fo ps_stack ps_cur]. repeat split; constructor.
    - cbn [ps_fo ps_fm]. intros _. lia.
  Qed.

  (* C01, parser: for every text, width and number scanner the parser model returns a tree, or stops
     with the one error this development does not exclude: EOob 10, an out-of-range read by the
     IsEqual of checkLoopVariable.  In particular: no other out-of-bounds read of the text (the
     Finder, the skip loops, the word tests, parseIfCase, parseLoopAttributes, the inline-if attribute
     scanner, getOperation's one-unit look-ahead, isExpression, TrimLeft/TrimRight, parseValue), no
     Last() of an empty array, no tag record read as another kind, no unsigned subtraction below zero,
     and no fuel exhaustion (termination: at most length + 2 iterations of the main loop). *)
  Theorem parse_gen_safe_partial : forall e, parse_gen numf w content = Error e -> e = EOob 10.
  Proof.
    intros e H. unfold parse_gen in H.
    pose proof parse_state_post as P. destruct (parse_state numf w content) as [st|e']; cbn in *.
    - discriminate H.
    - injection H as <-. exact P.
  Qed.
End Safety.

Theorem parse_safe_partial : forall w content e, parse_model w content = Error e -> e = EOob 10.
Proof. intros w content e. apply parse_gen_safe_partial. Qed.

(* the errors excluded outright *)
Corollary parse_no_fuel : forall w content, parse_model w content <> Error EFuel.
Proof. intros w content H. apply parse_safe_partial in H. discriminate H. Qed.
Corollary parse_no_empty_last : forall w content s, parse_model w content <> Error (EEmpty s).
Proof. intros w content s H. apply parse_safe_partial in H. discriminate H. Qed.
Corollary parse_no_kind_confusion : forall w content s, parse_model w content <> Error (EKind s).
Proof. intros w content s H. apply parse_safe_partial in H. discriminate H. Qed.
Corollary parse_no_negative : forall w content s, parse_model w content <> Error (ENeg s).
Proof. intros w content s H. apply parse_safe_partial in H. discriminate H. Qed.
Corollary parse_no_oob_but_10 : forall w content s, s <> 10%N -> parse_model w content <> Error (EOob s).
Proof. intros w content s Hs H. apply parse_safe_partial in H. injection H as H. contradiction. Qed.

(* non-vacuity: a text on which every case of the switch runs and a tree comes out *)
Example parse_example :
  exists l, parse_model 0 [123;118;97;114;58;97;125; 60;108;111;111;112;32;118;97;108;117;101;61;34;118;34;62;
                           123;118;97;114;58;118;125; 60;47;108;111;111;112;62]%N = Ok l /\ length l = 2.
Proof. vm_compute. eexists; split; reflexivity. Qed.
