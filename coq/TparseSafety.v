(* TparseSafety.v -- C01 for the parser model: the main loop of Template.hpp::parse
   (TparseModel.v) never reads outside the text, never takes Last() of an empty
   array, never reads a tag record as another kind, never subtracts below zero
   and terminates within its fuel, for EVERY text, width and number scanner
   ([parse_safe]).  The invariant [Inv]: every array on the parent_storage stack
   ends in a tag that owns an open child array (so Last() exists and is of the
   kind that was pushed); the value name of every loop in the loop_tag chain (and
   in the Parent chain of every open loop) lies inside the text and contains
   neither '>' nor '}'; the finder cursor is inside the text and at least one
   token length from its start. *)
From Coq Require Import NArith ZArith List Bool Arith Lia ZifyBool ZifyNat ZifyN.
From Qv Require Import gen.Tables_tmpl gen.Tables_expr gen.Tables_tparse FinderModel FinderProofs TparseModel TparseFinder TparseProofs.
Import ListNotations.
Ltac Zify.zify_post_hook ::= Z.div_mod_to_equations.

Section Safety.
  Variable numf : list N -> N * N * nat.
  Variable w : N.
  Variable content : list N.
  Notation len := (length content).
  Notation T := (fun _ => True).

  Ltac gbind X := apply good_bind with (Q := X).
  Ltac pbind X := apply post_bind with (Q := X).

  (* result of Next() from cursor o *)
  (* "<loop" stands before the cursor after a LoopID match: no '>' and no '}' in it *)
  Definition headfree (fm : N) (fo : nat) : Prop :=
    fm = 7%N -> forall i, fo - 5 <= i < fo -> exists c, nth_error content i = Some c /\ clean c.
  Definition stepok (o : nat) (mo : N * nat) : Prop :=
    o <= snd mo /\ (o <= len -> snd mo <= len) /\
    ((fst mo = 0%N /\ len <= snd mo) \/ (snd mo <= len /\ o + toklen (fst mo) <= snd mo /\ 1 <= toklen (fst mo))) /\
    (fst mo = 1%N -> nth_error content (snd mo - 1) = Some 125%N) /\ headfree (fst mo) (snd mo).
  (* the only closing brace between the old and the new cursor is the matched one *)
  Definition onlybrace (o : nat) (mo : N * nat) : Prop :=
    forall i, o <= i < snd mo -> nth_error content i = Some 125%N -> fst mo = 1%N /\ S i = snd mo.

Lemma fnext_good2 : forall o, good (fun mo => stepok o mo /\ onlybrace o mo) (fnext w content o).
  Proof.
    intros o. unfold fnext.
    destruct (next_w w content o) as [m o'|] eqn:E.
    2:{ exfalso. rewrite next_w_c8 in E. revert E. apply next_safe. }
    cbn [good]. unfold stepok, onlybrace, headfree. cbn [fst snd].
    destruct (Nat.le_gt_cases o len) as [Hle|Hgt].
    - destruct (next_w_facts _ _ _ _ _ Hle E) as (F1 & F2 & F3 & F4 & F5 & F6).
      split; [split; [lia|split; [lia|split; [|split; [exact F5|]]]]|exact F4].
      + destruct (N.eq_dec m 0) as [Ez|Ez]; [left; split; [exact Ez|apply F2; exact Ez]|right].
        destruct (F3 Ez). lia.
      + intros E7 i Hi. destruct (F6 E7 i Hi) as (c & Hc & C1 & C2). exists c. split; [exact Hc|split; assumption].
    - rewrite next_w_c8 in E. unfold next_c8 in E. rewrite next_unfold in E. replace (len - o) with 0 in E by lia.
      rewrite next_go_S in E. destruct (Nat.ltb_spec o len); [lia|]. injection E as <- <-.
      split; [split; [lia|split; [lia|split; [left; split; [reflexivity|lia]|split; [discriminate|discriminate]]]]|].
      intros i Hi; lia.
  Qed.

  Lemma fnext_good : forall o, good (stepok o) (fnext w content o).
  Proof. intros o. eapply good_weaken; [apply fnext_good2|]. intros mo [H _]. exact H. Qed.

  (* ---------------------------------------------------------------- *)
  (* list helpers *)
  Lemma split_last_app : forall A (l : list A) x, split_last (l ++ [x]) = Some (l, x).
  Proof.
    intros A l x; induction l as [|y l IH]; [reflexivity|].
    cbn [app split_last]. rewrite IH. reflexivity.
  Qed.
  Lemma split_last_some : forall A (l : list A) i t, split_last l = Some (i, t) -> l = i ++ [t].
  Proof.
    intros A l; induction l as [|y l IH]; intros i t H; [discriminate H|].
    cbn [split_last] in H. destruct (split_last l) as [[i' t']|] eqn:E.
    - injection H as <- <-. rewrite (IH _ _ eq_refl). reflexivity.
    - injection H as <- <-. destruct l; [reflexivity|]. cbn in E. destruct (split_last l) as [[? ?]|]; discriminate E.
  Qed.
  Lemma split_last_none : forall A (l : list A), split_last l = None -> l = [].
  Proof. intros A [|y l] H; [reflexivity|]. cbn in H. destruct (split_last l) as [[? ?]|]; discriminate H. Qed.

  Lemma Forall_snoc : forall A (P : A -> Prop) l x, Forall P (l ++ [x]) <-> Forall P l /\ P x.
  Proof.
    intros A P l x. rewrite Forall_app. split; intros [H1 H2]; split; auto.
    inversion H2; assumption.
  Qed.
  Lemma Forall_removelast : forall A (P : A -> Prop) l, Forall P l -> Forall P (removelast l).
  Proof.
    intros A P l; induction l as [|x l IH]; intros H; [constructor|].
    inversion H; subst. cbn [removelast]. destruct l; [constructor|]. constructor; auto.
  Qed.

  (* ---------------------------------------------------------------- *)
  (* the invariant *)
  Definition leaf_ok (t : tag) : Prop :=
    match t with PVar v | PRaw v => tpp_VariablePrefixLength <= v_off v | _ => True end.

  (* the last element of an array on the stack: a tag that owns an open child array *)
  Definition container_ok (fo : nat) (t : tag) : Prop :=
    match t with
    | PSVar _ _ _ _ => True
    | PLoop l _ => Forall (li_ok content) (l_parent l)
    | PIIf i _ _ => i_off i <= fo
    | PIf _ _ cases => cases <> []
    | _ => False
    end.
  Definition open_ok (fo : nat) (top : list tag) : Prop :=
    exists init t, top = init ++ [t] /\ container_ok fo t.

  Definition structok (fo : nat) (stack : list (list tag)) (cur : list tag) : Prop :=
    Forall (open_ok fo) stack /\ Forall (Forall leaf_ok) stack /\ Forall leaf_ok cur.

  (* loop_tag is exactly the chain of the loops whose storage is on the stack *)
  Definition frame_loop (top : list tag) : list loopinfo :=
    match split_last top with Some (_, PLoop l _) => [info_of l] | _ => [] end.
  Fixpoint open_loops (stack : list (list tag)) : list loopinfo :=
    match stack with [] => [] | top :: rest => frame_loop top ++ open_loops rest end.
  Fixpoint parents_ok (stack : list (list tag)) : Prop :=
    match stack with
    | [] => True
    | top :: rest =>
      match split_last top with Some (_, PLoop l _) => l_parent l = open_loops rest | _ => True end /\ parents_ok rest
    end.
  Definition chainok (stack : list (list tag)) (chain : list loopinfo) : Prop :=
    chain = open_loops stack /\ parents_ok stack /\ Forall (li_ok content) chain.

  Definition finok (fm : N) (fo : nat) : Prop :=
    fm = 0%N \/ (fo <= len /\ toklen fm <= fo /\ 1 <= toklen fm /\ headfree fm fo).

  Definition Inv (st : pstate) : Prop :=
    finok (ps_fm st) (ps_fo st) /\ structok (ps_fo st) (ps_stack st) (ps_cur st) /\ chainok (ps_stack st) (ps_chain st).

  Lemma container_ok_mono : forall fo fo' t, fo <= fo' -> container_ok fo t -> container_ok fo' t.
  Proof. intros fo fo' t H. destruct t; cbn [container_ok]; auto. lia. Qed.
  Lemma open_ok_mono : forall fo fo' top, fo <= fo' -> open_ok fo top -> open_ok fo' top.
  Proof. intros fo fo' top H (i & t & E & C). exists i, t. split; [exact E|eapply container_ok_mono; eassumption]. Qed.
  Lemma structok_mono : forall fo fo' stack cur, fo <= fo' -> structok fo stack cur -> structok fo' stack cur.
  Proof.
    intros fo fo' stack cur H (H1 & H2 & H3). repeat split; try assumption.
    eapply Forall_impl; [|exact H1]. intros top. apply open_ok_mono; exact H.
  Qed.

  Lemma stepok_finok : forall o mo, stepok o mo -> finok (fst mo) (snd mo).
  Proof.
    unfold stepok, finok. intros o mo (H1 & H0 & [[H2 _]|H2] & _ & H4); [left; exact H2|right].
    repeat split; try lia. exact H4.
  Qed.

  (* what one iteration establishes *)
  Definition stepped (st st' : pstate) : Prop :=
    Inv st' /\ ps_fo st <= ps_fo st' /\ (ps_fm st' = 0%N \/ ps_fo st < ps_fo st').

  Lemma stepped_of : forall st stack cur child chain o mo,
    ps_fo st <= o ->
    stepok o mo -> structok (snd mo) stack cur -> chainok stack chain ->
    stepped st (mkS (snd mo) (fst mo) stack cur child chain).
  Proof.
    intros st stack cur child chain o mo Ho Hs Hst Hch. unfold stepped, Inv. cbn [ps_fo ps_fm ps_stack ps_cur ps_chain].
    split; [split; [eapply stepok_finok; exact Hs|split; [exact Hst|exact Hch]]|].
    destruct Hs as (H1 & H0 & [[H2 _]|H2] & _).
    - split; [lia|left; exact H2].
    - split; [lia|right; lia].
  Qed.

  (* plugging the open child back *)
  Definition plug (t : tag) (cur : list tag) : tag :=
    match t with
    | PSVar o e v _ => PSVar o e v cur
    | PIIf i c _ => PIIf i c cur
    | PLoop l _ => PLoop l cur
    | PIf o e cases =>
      match split_last cases with
      | Some (ci, PCase co ce cc _) => PIf o e (ci ++ [PCase co ce cc cur])
      | None => t
      end
    | _ => t
    end.

  Lemma writeback_good : forall site fo init t cur, container_ok fo t ->
    writeback site (init ++ [t]) cur = Ok (init ++ [plug t cur]).
  Proof.
    intros site fo init t cur H. unfold writeback. rewrite split_last_app.
    destruct t as [| | | | | |o e cases]; cbn [container_ok] in H; try contradiction; try reflexivity.
    cbn [plug]. destruct (split_last cases) as [[ci [co ce cc sb]]|] eqn:E; [reflexivity|].
    apply split_last_none in E. contradiction.
  Qed.

  Lemma plug_leaf_ok : forall fo t cur, container_ok fo t -> leaf_ok (plug t cur).
  Proof.
    intros fo t cur H. destruct t as [| | | | | |o e cases]; cbn [container_ok] in H; try contradiction; try exact I.
    cbn [plug]. destruct (split_last cases) as [[ci [co ce cc sb]]|]; exact I.
  Qed.

  (* ---------------------------------------------------------------- *)
  (* the cases of the switch *)
  Lemma inv_parts : forall st, Inv st -> ps_fm st <> 0%N ->
    ps_fo st <= len /\ toklen (ps_fm st) <= ps_fo st /\ 1 <= toklen (ps_fm st) /\
    Forall (open_ok (ps_fo st)) (ps_stack st) /\ Forall (Forall leaf_ok) (ps_stack st) /\ Forall leaf_ok (ps_cur st).
  Proof.
    intros st [[H0|H] ((H1 & H2 & H3) & _)] Hm; [contradiction|]. repeat split; try assumption; lia.
  Qed.
  Lemma inv_chain : forall st, Inv st -> Forall (li_ok content) (ps_chain st).
  Proof. intros st (_ & _ & _ & _ & H). exact H. Qed.
  Lemma inv_chainok : forall st, Inv st -> chainok (ps_stack st) (ps_chain st).
  Proof. intros st (_ & _ & H). exact H. Qed.

  (* pushing / popping frames *)
  Lemma chainok_push : forall stack chain cur t,
    chainok stack chain -> (forall l sb, t <> PLoop l sb) -> chainok ((cur ++ [t]) :: stack) chain.
  Proof.
    intros stack chain cur t (E & P & F) Hn. unfold chainok. cbn [open_loops parents_ok]. unfold frame_loop.
    rewrite split_last_app. destruct t; try (split; [exact E|split; [split; [exact I|exact P]|exact F]]).
    exfalso. eapply Hn. reflexivity.
  Qed.
  Lemma chainok_push_loop : forall stack chain cur l sb,
    chainok stack chain -> l_parent l = chain -> li_ok content (info_of l) ->
    chainok ((cur ++ [PLoop l sb]) :: stack) (info_of l :: chain).
  Proof.
    intros stack chain cur l sb (E & P & F) Hp Hl. unfold chainok. cbn [open_loops parents_ok]. unfold frame_loop.
    rewrite split_last_app. split; [cbn; rewrite E; reflexivity|split; [split; [rewrite Hp; exact E|exact P]|constructor; assumption]].
  Qed.
  Lemma chainok_pop : forall init t rest chain,
    chainok ((init ++ [t]) :: rest) chain -> (forall l sb, t <> PLoop l sb) -> chainok rest chain.
  Proof.
    intros init t rest chain (E & P & F) Hn. unfold chainok in *. cbn [open_loops parents_ok] in *. unfold frame_loop in *.
    rewrite split_last_app in *. destruct P as [_ P].
    destruct t; try (split; [exact E|split; [exact P|exact F]]). exfalso. eapply Hn. reflexivity.
  Qed.
  Lemma chainok_pop_loop : forall init l sb rest chain,
    chainok ((init ++ [PLoop l sb]) :: rest) chain -> chainok rest (l_parent l).
  Proof.
    intros init l sb rest chain (E & P & F). unfold chainok in *. cbn [open_loops parents_ok] in *. unfold frame_loop in *.
    rewrite split_last_app in *. destruct P as [Hp P]. cbn in E. subst chain. inversion F; subst.
    split; [exact Hp|split; [exact P|rewrite Hp; assumption]].
  Qed.
  Lemma chainok_swap : forall init t t' rest chain,
    chainok ((init ++ [t]) :: rest) chain -> (forall l sb, t <> PLoop l sb) -> (forall l sb, t' <> PLoop l sb) ->
    chainok ((init ++ [t']) :: rest) chain.
  Proof.
    intros init t t' rest chain H Hn Hn'. apply chainok_push; [eapply chainok_pop; eassumption|exact Hn'].
  Qed.
  Lemma inv_headfree : forall st, Inv st -> ps_fm st <> 0%N -> headfree (ps_fm st) (ps_fo st).
  Proof. intros st [[H0|(_ & _ & _ & H)] _] Hm; [contradiction|exact H]. Qed.

  Lemma stepped_with_finder : forall st stack cur child chain o mo,
    ps_fo st <= o -> stepok o mo -> structok o stack cur -> chainok stack chain ->
    stepped st (mkS (snd mo) (fst mo) stack cur child chain).
  Proof.
    intros st stack cur child chain o mo Ho Hs Hst Hch.
    apply stepped_of with (o := o); [exact Ho|exact Hs| |exact Hch].
    eapply structok_mono; [|exact Hst]. destruct Hs as [H _]. exact H.
  Qed.

  (* finder.Next() at the end of a case *)
  Definition rested (st st1 : pstate) : Prop :=
    structok (ps_fo st1) (ps_stack st1) (ps_cur st1) /\ ps_fo st <= ps_fo st1 /\ chainok (ps_stack st1) (ps_chain st1).

  Lemma rested_refl : forall st, Inv st -> rested st st.
  Proof. intros st (_ & H & Hc). split; [exact H|split; [lia|exact Hc]]. Qed.

  Lemma then_next_post : forall st r,
    post (rested st) r -> post (stepped st) (then_next w content r).
  Proof.
    intros st r Hr. unfold then_next.
    pbind (rested st); [exact Hr|].
    intros st1 (Hs & Ho & Hc).
    pbind (stepok (ps_fo st1)); [apply good_post, fnext_good|]. intros mo Hmo.
    cbn [post]. unfold with_finder. apply stepped_with_finder with (o := ps_fo st1); assumption.
  Qed.

  Lemma do_var_post : forall mk st,
    (forall v, tpp_VariablePrefixLength <= v_off v -> leaf_ok (mk v)) ->
    Inv st -> toklen (ps_fm st) = 5 ->
    post (stepped st) (do_var w content mk st).
  Proof.
    intros mk st Hmk HI Hk.
    assert (Hm : ps_fm st <> 0%N) by (intros E; rewrite E in Hk; discriminate Hk).
    destruct (inv_parts st HI Hm) as (Hfo & Htl & _ & Hs1 & Hs2 & Hs3).
    pose proof (inv_chain st HI) as Hch.
    unfold do_var.
    pbind (stepok (ps_fo st)); [apply good_post, fnext_good|]. intros mo Hmo.
    destruct (N.eqb_spec (fst mo) tpp_LineEndID) as [E|E].
    - pose proof Hmo as Hmo_all.
      destruct Hmo as (Hm1 & Hm0 & [[Hz _]|Hm2] & Hbrace & _); [rewrite Hz in E; discriminate E|].
      rewrite E in Hm2. cbn in Hm2. specialize (Hbrace E).
      pbind (fun d => d = snd mo - ps_fo st); [apply good_post, csub_good; lia|]. intros d ->.
      pbind (fun d1 : nat => True); [apply good_post; eapply good_weaken; [apply csub_good; unfold tpp_InLineSuffixLength; lia|auto]|].
      intros d1 _.
      pbind (fun cur' => Forall leaf_ok cur').
      { destruct (N.eqb (t8 d1) 0); [exact Hs3|].
        pbind (fun v' => v_off v' = ps_fo st).
        { eapply post_weaken; [apply check_loop_variable_post; [exact Hch|]|cbn; intros a [Ha _]; exact Ha].
          cbn [v_off]. exists (snd mo - 1), 125%N. split; [lia|split; [exact Hbrace|right; reflexivity]]. }
        intros v Hv. cbn [post]. apply Forall_snoc. split; [exact Hs3|apply Hmk; rewrite Hv; unfold tpp_VariablePrefixLength; lia]. }
      intros cur' Hcur.
      pbind (stepok (snd mo)); [apply good_post, fnext_good|]. intros mo2 Hmo2.
      cbn [post]. unfold with_finder, with_cur. cbn [ps_stack ps_cur ps_child ps_chain].
      apply stepped_with_finder with (o := snd mo); [lia|exact Hmo2| |exact (inv_chainok st HI)].
      eapply structok_mono with (fo := ps_fo st); [lia|]. repeat split; assumption.
    - cbn [post]. unfold with_finder.
      apply stepped_with_finder with (o := ps_fo st); [lia|exact Hmo| |exact (inv_chainok st HI)]. repeat split; assumption.
  Qed.

  Lemma stepok_chain : forall o0 mo1 mo2, stepok o0 mo1 -> stepok (snd mo1) mo2 -> o0 <= len -> stepok o0 mo2.
  Proof.
    intros o0 mo1 mo2 (Ha & Hb & Hc & _) (Ha' & Hb' & Hc' & Hd' & He') Ho.
    split; [lia|split; [intros; apply Hb'; apply Hb; assumption|split; [|split; assumption]]].
    destruct Hc' as [Hz|Hn]; [left; exact Hz|right; lia].
  Qed.
  Lemma stepok_nz : forall o mo, stepok o mo -> fst mo <> 0%N ->
    snd mo <= len /\ o + toklen (fst mo) <= snd mo /\ 1 <= toklen (fst mo).
  Proof. intros o mo (_ & _ & [[Hz _]|Hc] & _) Hn; [contradiction|exact Hc]. Qed.
  Lemma stepok_z : forall o mo, stepok o mo -> fst mo = 0%N -> len <= snd mo.
  Proof.
    intros o mo (_ & _ & [[_ Hl]|(H1 & H2 & H3)] & _) Hz; [exact Hl|]. rewrite Hz in H3. cbn in H3. lia.
  Qed.
  Lemma stepok_le : forall o mo, stepok o mo -> o <= snd mo.
  Proof. intros o mo (H & _). exact H. Qed.

  (* ---- math ---- *)
  Lemma math_scan_good : forall fuel o0 mo sv,
    stepok o0 mo -> o0 <= len ->
    (fst mo = 0%N -> 1 <= fuel) -> (fst mo <> 0%N -> 2 + (len - snd mo) <= fuel) ->
    good (fun r => stepok o0 (snd r) /\ (fst r = 0 \/ (1 <= fst r /\ fst r <= len /\ o0 <= fst r /\ fnext w content (fst r) = Ok (snd r))))
         (math_scan w content fuel mo sv).
  Proof.
    intros fuel; induction fuel as [|f IH]; intros o0 mo sv Hmo Ho0 Hf0 Hf1.
    { destruct (N.eqb_spec (fst mo) 0); [specialize (Hf0 e); lia|specialize (Hf1 n); lia]. }
    cbn [math_scan].
    (* the optional first Next *)
    gbind (fun r : (N * nat) * nat => stepok o0 (fst r) /\ snd mo <= snd (fst r) /\
             (fst (fst r) <> 0%N -> fst mo <> 0%N)).
    { destruct (N.ltb (fst mo) tpp_MathID && negb (N.eqb (fst mo) tpp_LineEndID)).
      - gbind (stepok (snd mo)); [apply fnext_good|]. intros mo' Hmo'. cbn [good fst snd].
        split; [eapply stepok_chain; eassumption|split; [apply (stepok_le _ _ Hmo')|]].
        intros Hn Hz. pose proof (stepok_z _ _ Hmo Hz). destruct (stepok_nz _ _ Hmo' Hn). lia.
      - cbn [good fst snd]. split; [exact Hmo|split; [lia|auto]]. }
    intros [mo1 sv1] (Hmo1 & Hle & Hnz). cbn [fst snd] in *.
    destruct (N.eqb_spec (fst mo1) tpp_LineEndID) as [E|E]; [|cbn; split; [exact Hmo1|left; reflexivity]].
    assert (Hn1 : fst mo1 <> 0%N) by (rewrite E; discriminate).
    assert (Hb1 : snd mo1 <= len /\ 1 <= snd mo1).
    { destruct (stepok_nz _ _ Hmo1 Hn1) as (H1 & H2 & H3). rewrite E in H2. cbn in H2. lia. }
    specialize (Hf1 (Hnz Hn1)).
    destruct sv1 as [|sv'].
    - destruct (fnext w content (snd mo1)) as [mo2|err] eqn:Efn; [|exfalso; pose proof (fnext_good (snd mo1)) as G; rewrite Efn in G; exact G].
      assert (Hmo2 : stepok (snd mo1) mo2) by (pose proof (fnext_good (snd mo1)) as G; rewrite Efn in G; exact G).
      cbn [bind good fst snd].
      split; [eapply stepok_chain; eassumption|right]. split; [lia|split; [lia|split; [apply (stepok_le _ _ Hmo1)|exact Efn]]].
    - gbind (stepok (snd mo1)); [apply fnext_good|]. intros mo2 Hmo2.
      apply IH; [eapply stepok_chain; eassumption| exact Ho0 | intros _; lia |].
      intros Hn2. destruct (stepok_nz _ _ Hmo2 Hn2). lia.
  Qed.

  Lemma do_math_post : forall st, Inv st -> ps_fm st = tpp_MathID -> post (stepped st) (do_math numf w content st).
  Proof.
    intros st HI Hk.
    assert (Hm : ps_fm st <> 0%N) by (rewrite Hk; discriminate).
    destruct (inv_parts st HI Hm) as (Hfo & Htl & _ & Hs1 & Hs2 & Hs3). rewrite Hk in Htl. cbn in Htl.
    pose proof (inv_chain st HI) as Hch.
    unfold do_math.
    pbind (stepok (ps_fo st)); [apply good_post, fnext_good|]. intros mo Hmo.
    pbind (fun r : nat * (N * nat) => stepok (ps_fo st) (snd r) /\ (fst r = 0 \/ (1 <= fst r /\ fst r <= len))).
    { apply good_post. eapply good_weaken with (P := fun r : nat * (N * nat) => stepok (ps_fo st) (snd r) /\
          (fst r = 0 \/ (1 <= fst r /\ fst r <= len /\ ps_fo st <= fst r /\ fnext w content (fst r) = Ok (snd r)))).
      2:{ intros r [R1 R2]. split; [exact R1|]. destruct R2 as [R2|R2]; [left; exact R2|right; lia]. }
      apply math_scan_good; [exact Hmo|exact Hfo|lia|].
      intros Hn. destruct Hmo as (_ & _ & [[Hz _]|Hc] & _); [contradiction|]. lia. }
    intros [eo mo'] [Hmo' He]. cbn [fst snd] in *.
    destruct (Nat.eqb_spec eo 0) as [E0|E0].
    - cbn [post]. unfold with_finder. apply stepped_with_finder with (o := ps_fo st); [lia|exact Hmo'|repeat split; assumption|exact (inv_chainok st HI)].
    - destruct He as [He|He]; [contradiction|].
      pbind (fun _ : nat => True); [apply good_post; eapply good_weaken; [apply csub_good; unfold tpp_MathPrefixLength; lia|auto]|]. intros o _.
      pbind (fun e1 => e1 = eo - tpp_InLineSuffixLength); [apply good_post, csub_good; unfold tpp_InLineSuffixLength; lia|]. intros e1 ->.
      pbind (fun _ : list qexpr => True); [apply pexpr_post; [exact Hch|left; unfold tpp_InLineSuffixLength; lia]|]. intros ex _.
      cbn [post]. unfold with_finder, with_cur. cbn [ps_stack ps_cur ps_child ps_chain].
      apply stepped_with_finder with (o := ps_fo st); [lia|exact Hmo'| |exact (inv_chainok st HI)].
      repeat split; try assumption. apply Forall_snoc. split; [assumption|exact I].
  Qed.

  (* pushing a new container tag *)
  Lemma structok_push : forall fo stack cur t,
    structok fo stack cur -> container_ok fo t -> leaf_ok t -> structok fo ((cur ++ [t]) :: stack) [].
  Proof.
    intros fo stack cur t (H1 & H2 & H3) Hc Hl. repeat split.
    - constructor; [exists cur, t; split; [reflexivity|exact Hc]|exact H1].
    - constructor; [apply Forall_snoc; split; assumption|exact H2].
    - constructor.
  Qed.

  Lemma do_svar_post : forall st, Inv st -> ps_fm st = tpp_SuperVariableID -> post (stepped st) (do_svar w content st).
  Proof.
    intros st HI Hk.
    assert (Hm : ps_fm st <> 0%N) by (rewrite Hk; discriminate).
    destruct (inv_parts st HI Hm) as (Hfo & Htl & _ & Hs1 & Hs2 & Hs3). rewrite Hk in Htl. cbn in Htl.
    pose proof (inv_chain st HI) as Hch.
    unfold do_svar.
    pbind (fun _ : nat => True); [apply good_post; eapply good_weaken; [apply csub_good; unfold tpp_SuperVariablePrefixLength; lia|auto]|]. intros so _.
    pbind (stepok (ps_fo st)); [apply good_post, fnext_good|]. intros mo Hmo.
    assert (Hend : snd mo <= len) by (destruct Hmo as (_ & H & _); auto).
    pbind (fun o => ps_fo st <= o); [apply good_post; eapply good_weaken; [apply skip_ne_good; exact Hend|cbn; intros; lia]|]. intros o2 Ho2.
    pbind (fun _ : nat => True); [apply good_post; eapply good_weaken; [apply csub_good; lia|auto]|]. intros d _.
    unfold with_finder. cbn [ps_stack ps_cur ps_child ps_chain].
    destruct (N.eqb (t8 d) 0); cbn [post]; unfold push_tag; cbn [ps_fo ps_fm ps_stack ps_cur].
    - apply stepped_with_finder with (o := ps_fo st); [lia|exact Hmo|repeat split; assumption|exact (inv_chainok st HI)].
    - apply stepped_with_finder with (o := ps_fo st); [lia|exact Hmo| |apply chainok_push; [exact (inv_chainok st HI)|discriminate]].
      apply structok_push; [repeat split; assumption|exact I|exact I].
  Qed.

  (* ---- inline if ---- *)
  Lemma iif_case_scan_good : forall fuel o0 quote offset mo,
    stepok o0 mo -> o0 <= len -> offset <= snd mo ->
    (fst mo = 0%N -> 1 <= fuel) -> (fst mo <> 0%N -> 2 + (len - snd mo) <= fuel) ->
    good (fun r => let '(off', mtch, mo') := r in
                   stepok o0 mo' /\ offset <= off' /\ (mtch <> 0%N -> off' < len))
         (iif_case_scan w content fuel quote offset (snd mo) mo).
  Proof.
    intros fuel; induction fuel as [|f IH]; intros o0 quote offset mo Hmo Ho0 Hoff Hf0 Hf1.
    { destruct (N.eqb_spec (fst mo) 0); [specialize (Hf0 e); lia|specialize (Hf1 n); lia]. }
    cbn [iif_case_scan].
    destruct (N.eqb_spec (fst mo) 0) as [Ez|Ez]; [cbn; split; [exact Hmo|split; [lia|intros H; contradiction]]|].
    specialize (Hf1 Ez).
    assert (Hb : snd mo <= len) by (destruct Hmo as (_ & _ & [[Hz _]|Hc] & _); [contradiction|lia]).
    gbind (fun o => offset <= o /\ (o <= snd mo \/ o = offset)); [apply skip_ne_good; exact Hb|]. intros o1 Ho1.
    destruct (Nat.ltb_spec o1 (snd mo)) as [Hlt|Hge]; [cbn; split; [exact Hmo|split; [lia|intros; lia]]|].
    gbind (stepok (snd mo)); [apply fnext_good|]. intros mo1 Hmo1.
    assert (Hc1 : stepok o0 mo1) by (eapply stepok_chain; eassumption).
    destruct (N.eqb_spec (fst mo1) tpp_LineEndID) as [E|E].
    - gbind (stepok (snd mo1)); [apply fnext_good|]. intros mo2 Hmo2.
      assert (Hc2 : stepok o0 mo2) by (eapply stepok_chain; eassumption).
      assert (Hlt1 : snd mo < snd mo1).
      { destruct Hmo1 as (_ & _ & [[Hz _]|Hc] & _); [rewrite Hz in E; discriminate E|]. lia. }
      eapply good_weaken; [apply (IH o0 quote o1 mo2); [exact Hc2|exact Ho0| |intros _; lia|]|].
      + destruct Hmo2 as (H & _). lia.
      + intros Hn2. destruct Hmo2 as (_ & _ & [[Hz _]|Hc] & _); [contradiction|]. lia.
      + intros [[off' mtch] mo'] (H1 & H2 & H3). split; [exact H1|split; [lia|exact H3]].
    - cbn. split; [exact Hc1|split; [lia|]]. intros Hn.
      destruct Hmo1 as (_ & _ & [[Hz _]|Hc] & _); [contradiction|]. lia.
  Qed.

  Lemma do_iif_post : forall st, Inv st -> ps_fm st = tpp_InLineIfID -> post (stepped st) (do_iif numf w content st).
  Proof.
    intros st HI Hk.
    assert (Hm : ps_fm st <> 0%N) by (rewrite Hk; discriminate).
    destruct (inv_parts st HI Hm) as (Hfo & Htl & _ & Hs1 & Hs2 & Hs3). rewrite Hk in Htl. cbn in Htl.
    assert (Hst : structok (ps_fo st) (ps_stack st) (ps_cur st)) by (repeat split; assumption).
    pose proof (inv_chain st HI) as Hch.
    unfold do_iif.
    pbind (fun d => d = ps_fo st - tpp_InLineIfPrefixLength); [apply good_post, csub_good; unfold tpp_InLineIfPrefixLength; lia|]. intros io ->.
    pbind (stepok (ps_fo st)); [apply good_post, fnext_good|]. intros mo Hmo.
    assert (Hend : snd mo <= len) by (destruct Hmo as (_ & H & _); auto).
    assert (Hplain : stepped st (with_finder st mo)).
    { unfold with_finder. apply stepped_with_finder with (o := ps_fo st); [lia|exact Hmo|exact Hst|exact (inv_chainok st HI)]. }
    pbind (fun o => ps_fo st <= o); [apply good_post; eapply good_weaken; [apply skip_eq_good; exact Hend|cbn; intros; lia]|]. intros o1 Ho1.
    pbind (fun _ : bool => True).
    { destruct (o1 <? snd mo); [apply good_post, word_at_good; exact Hend|exact I]. }
    intros is_case _. destruct is_case; [|exact Hplain].
    pbind (fun o => ps_fo st <= o); [apply good_post; eapply good_weaken; [apply skip_ne_good; exact Hend|cbn; intros; lia]|]. intros o2 Ho2.
    pbind (fun o => ps_fo st < o); [apply good_post; eapply good_weaken; [apply skip_eq_do_good; exact Hend|cbn; intros; lia]|]. intros o3 Ho3.
    destruct (Nat.ltb_spec o3 (snd mo)) as [Hlt|Hge]; [|exact Hplain].
    pbind (fun _ : N => True); [apply good_post, rd_good; lia|]. intros quote _.
    pbind (fun r : nat * N * (N * nat) => let '(off', mtch, mo') := r in
             stepok (ps_fo st) mo' /\ S o3 <= off' /\ (mtch <> 0%N -> off' < len)).
    { apply good_post, iif_case_scan_good; [exact Hmo|exact Hfo|lia|lia|].
      intros Hn. destruct Hmo as (_ & _ & [[Hz _]|Hc] & _); [contradiction|]. lia. }
    intros [[off' mtch] mo'] (Hmo' & Hoff' & Hlen').
    destruct (N.eqb_spec mtch 0) as [Ez|Ez].
    - cbn [post]. unfold with_finder. apply stepped_with_finder with (o := ps_fo st); [lia|exact Hmo'|exact Hst|exact (inv_chainok st HI)].
    - specialize (Hlen' Ez).
      pbind (fun _ : list qexpr => True); [apply pexpr_post; [exact Hch|left; exact Hlen']|]. intros ex _.
      pbind (fun _ : nat => True); [apply good_post; eapply good_weaken; [apply csub_good; lia|auto]|]. intros d _.
      cbn [post]. unfold push_tag, with_finder. cbn [ps_fo ps_fm ps_stack ps_cur ps_child ps_chain].
      apply stepped_with_finder with (o := ps_fo st); [lia|exact Hmo'| |apply chainok_push; [exact (inv_chainok st HI)|discriminate]].
      apply structok_push; [exact Hst|cbn; lia|exact I].
  Qed.

  (* ---- loop ---- *)
Lemma do_loop_post : forall st, Inv st -> ps_fm st = tpp_LoopID -> post (stepped st) (do_loop w content st).
  Proof.
    intros st HI Hk.
    assert (Hm : ps_fm st <> 0%N) by (rewrite Hk; discriminate).
    destruct (inv_parts st HI Hm) as (Hfo & Htl & _ & Hs1 & Hs2 & Hs3). rewrite Hk in Htl. cbn in Htl.
    assert (Hst : structok (ps_fo st) (ps_stack st) (ps_cur st)) by (repeat split; assumption).
    pose proof (inv_chain st HI) as Hch.
    pose proof (inv_headfree st HI Hm Hk) as Hhead.
    unfold do_loop.
    pbind (fun d => d = ps_fo st - tpp_LoopPrefixLength); [apply good_post, csub_good; unfold tpp_LoopPrefixLength; lia|]. intros lo ->.
    pbind (fun mo => stepok (ps_fo st) mo /\ onlybrace (ps_fo st) mo); [apply good_post, fnext_good2|]. intros mo [Hmo Honly].
    assert (Hend : snd mo <= len) by (destruct Hmo as (_ & H & _); auto).
    unfold skip_ne.
    destruct (skip_while content 106 (fun ch => negb (N.eqb ch tpp_MultiLineLastChar)) (snd mo - ps_fo st) (ps_fo st) (snd mo))
      as [o1|err] eqn:Esk.
    2:{ exfalso. pose proof (skip_while_good content 106 (fun ch => negb (N.eqb ch tpp_MultiLineLastChar))
                    (snd mo - ps_fo st) (ps_fo st) (snd mo) Hend (Nat.le_refl _)) as G. rewrite Esk in G. exact G. }
    cbn [bind].
    assert (Ho1 : ps_fo st <= o1).
    { pose proof (skip_while_good content 106 (fun ch => negb (N.eqb ch tpp_MultiLineLastChar))
                    (snd mo - ps_fo st) (ps_fo st) (snd mo) Hend (Nat.le_refl _)) as G. rewrite Esk in G. cbn in G. lia. }
    destruct (Nat.ltb_spec o1 (snd mo)) as [Hlt|Hge]; cbn [andb].
    2:{ cbn [post]. unfold with_finder. apply stepped_with_finder with (o := ps_fo st); [lia|exact Hmo|exact Hst|exact (inv_chainok st HI)]. }
    destruct (Nat.leb_spec (length (ps_stack st)) 255) as [Hdep|Hdep].
    2:{ cbn [post]. unfold with_finder. apply stepped_with_finder with (o := ps_fo st); [lia|exact Hmo|exact Hst|exact (inv_chainok st HI)]. }
    - (* the head [fo - 5, o1) holds neither '>' nor '}', and '>' stands at o1 *)
      assert (Hgt : nth_error content o1 = Some 62%N).
      { destruct (skip_while_stop _ _ _ _ _ _ _ Esk Hlt) as (ch & Hch1 & Hp).
        apply negb_false_iff, N.eqb_eq in Hp. rewrite Hp in Hch1. exact Hch1. }
      assert (Hclean : forall i, ps_fo st - tpp_LoopPrefixLength <= i < o1 -> exists c, nth_error content i = Some c /\ clean c).
      { intros i Hi. destruct (Nat.lt_ge_cases i (ps_fo st)) as [Hlo|Hhi].
        - apply Hhead. unfold tpp_LoopPrefixLength in Hi. lia.
        - destruct (skip_while_all _ _ _ _ _ _ _ Esk i) as (ch & Hc1 & Hc2); [lia|].
          exists ch. split; [exact Hc1|]. split.
          + apply negb_true_iff, N.eqb_neq in Hc2. exact Hc2.
          + intros E125. subst ch. destruct (Honly i) as [_ E2]; [lia|exact Hc1|]. lia. }
      pbind (fun l' => lsame (mkL (ps_fo st - tpp_LoopPrefixLength) 0 0 0 0 0 0 0 (t8 (length (ps_stack st))) (mkV 0 0 0 0) (ps_chain st)) l' /\
                       vreg o1 l').
      { apply parse_loop_attributes_post; [lia|exact Hch|exact Hgt|]. unfold vreg. cbn. lia. }
      intros l1 [(E1 & E2 & E3 & E4 & E5) Hv1]. cbn [l_off l_end l_coff l_level l_parent] in *.
      pbind (fun _ : nat => True); [apply good_post; eapply good_weaken; [apply csub_good; unfold tpp_LoopPrefixLength; lia|auto]|]. intros d _.
      cbn [post]. unfold push_tag, with_finder. cbn [ps_fo ps_fm ps_stack ps_cur ps_child ps_chain].
      apply stepped_with_finder with (o := ps_fo st); [lia|exact Hmo| |].
      + apply structok_push; [exact Hst|cbn [container_ok l_parent]; rewrite E5; exact Hch|exact I].
      + apply chainok_push_loop; [exact (inv_chainok st HI)|cbn [l_parent]; exact E5|].
        unfold li_ok, info_of. cbn [li_off li_voff li_vlen l_off l_voff l_vlen].
        intros k Hk1. unfold vreg in Hv1. rewrite E1 in *. apply Hclean. lia.
  Qed.

  Lemma do_loop_end_post : forall st, Inv st -> ps_fm st = tpp_LoopEndID -> post (rested st) (do_loop_end st).
  Proof.
    intros st HI Hk.
    assert (Hm : ps_fm st <> 0%N) by (rewrite Hk; discriminate).
    destruct (inv_parts st HI Hm) as (Hfo & Htl & _ & Hs1 & Hs2 & Hs3). rewrite Hk in Htl. cbn in Htl.
    unfold do_loop_end.
    pose proof (inv_chainok st HI) as Hck.
    destruct (ps_chain st) as [|li chain] eqn:Ech; [apply rested_refl; exact HI|].
    destruct (ps_stack st) as [|top rest] eqn:Est; [apply rested_refl; exact HI|].
    inversion Hs1 as [|? ? (init & t & Et & Hc) Hr1]; subst. inversion Hs2 as [|? ? Hl Hr2]; subst.
    rewrite split_last_app. apply Forall_snoc in Hl. destruct Hl as [Hli _].
    destruct t as [| | | | |l sb|]; try (apply rested_refl; exact HI).
    pbind (fun _ : nat => True); [apply good_post; eapply good_weaken; [apply csub_good; unfold tpp_LoopSuffixLength; lia|auto]|]. intros e _.
    cbn [post]. unfold rested. cbn [ps_fo ps_stack ps_cur ps_chain]. split; [|split; [lia|eapply chainok_pop_loop; exact Hck]].
    repeat split; try assumption.
    match goal with |- Forall _ (if ?c then _ else _) => destruct c end; [exact Hli|].
    apply Forall_snoc. split; [exact Hli|exact I].
  Qed.

  (* ---- if ---- *)
  Lemma do_if_post : forall st, Inv st -> ps_fm st = tpp_IfID -> post (stepped st) (do_if numf w content st).
  Proof.
    intros st HI Hk.
    assert (Hm : ps_fm st <> 0%N) by (rewrite Hk; discriminate).
    destruct (inv_parts st HI Hm) as (Hfo & Htl & _ & Hs1 & Hs2 & Hs3). rewrite Hk in Htl. cbn in Htl.
    assert (Hst : structok (ps_fo st) (ps_stack st) (ps_cur st)) by (repeat split; assumption).
    pose proof (inv_chain st HI) as Hch.
    unfold do_if.
    pbind (fun _ : nat => True); [apply good_post; eapply good_weaken; [apply csub_good; unfold tpp_IfPrefixLength; lia|auto]|]. intros io _.
    pbind (fun r : nat * nat * nat => let '(o, co, ce) := r in ps_fo st <= o /\ (o < len -> ce < len));
      [apply good_post, parse_if_case_good|].
    intros [[o co] ce] [Ho Hce].
    pbind (fun st1 => chainok (ps_stack st1) (ps_chain st1) /\ structok (ps_fo st) (ps_stack st1) (ps_cur st1)).
    { destruct (Nat.ltb_spec o len) as [Hlt|Hge]; [|cbn; split; [exact (inv_chainok st HI)|exact Hst]].
      pbind (fun _ : list qexpr => True); [apply pexpr_post; [exact Hch|left; auto]|]. intros ex _.
      cbn [post]. unfold push_tag. cbn [ps_chain ps_stack ps_cur]. split; [apply chainok_push; [exact (inv_chainok st HI)|discriminate]|].
      apply structok_push; [exact Hst|cbn; discriminate|exact I]. }
    intros st1 [Hch1 Hst1].
    pbind (stepok o); [apply good_post, fnext_good|]. intros mo Hmo.
    cbn [post]. unfold with_finder. apply stepped_with_finder with (o := o); [lia|exact Hmo| |exact Hch1].
    eapply structok_mono; [|exact Hst1]. lia.
  Qed.

  Lemma cases_split : forall cases : list ifcase, cases <> [] ->
    exists ci co ce cc sb, split_last cases = Some (ci, PCase co ce cc sb).
  Proof.
    intros cases H. destruct (split_last cases) as [[ci [co ce cc sb]]|] eqn:E.
    - exists ci, co, ce, cc, sb. reflexivity.
    - apply split_last_none in E. contradiction.
  Qed.

  Lemma do_if_end_post : forall st, Inv st -> ps_fm st = tpp_IfEndID -> post (rested st) (do_if_end st).
  Proof.
    intros st HI Hk.
    assert (Hm : ps_fm st <> 0%N) by (rewrite Hk; discriminate).
    destruct (inv_parts st HI Hm) as (Hfo & Htl & _ & Hs1 & Hs2 & Hs3). rewrite Hk in Htl. cbn in Htl.
    unfold do_if_end.
    destruct (ps_stack st) as [|top rest] eqn:Est; [apply rested_refl; exact HI|].
    inversion Hs1 as [|? ? (init & t & Et & Hc) Hr1]; subst. inversion Hs2 as [|? ? Hl Hr2]; subst.
    rewrite split_last_app. apply Forall_snoc in Hl. destruct Hl as [Hli _].
    destruct t as [| | | | | |o eo cases]; try (apply rested_refl; exact HI).
    cbn [container_ok] in Hc. destruct (cases_split cases Hc) as (ci & co & ce & cc & sb & E). rewrite E.
    pbind (fun _ : nat => True); [apply good_post; eapply good_weaken; [apply csub_good; unfold tpp_IfSuffixLength; lia|auto]|]. intros e _.
    cbn [post]. unfold rested. cbn [ps_fo ps_stack ps_cur ps_chain]. split; [|split; [lia|]].
    2:{ pose proof (inv_chainok st HI) as Hck. rewrite Est in Hck. eapply chainok_pop; [exact Hck|discriminate]. }
    repeat split; try assumption. apply Forall_snoc. split; [exact Hli|exact I].
  Qed.

  Lemma else_scan_good : forall fuel offset, len - offset <= fuel ->
    good (fun r => offset <= fst r) (else_scan content fuel offset).
  Proof.
    intros fuel; induction fuel as [|f IH]; intros offset Hf.
    - cbn [else_scan]. destruct (Nat.ltb_spec offset len); [lia|]. cbn. lia.
    - cbn [else_scan]. destruct (Nat.ltb_spec offset len) as [Hlt|Hge]; [|cbn; lia].
      gbind (fun _ : N => True); [apply rd_good; exact Hlt|]. intros ch _.
      destruct (N.eqb ch tpp_MultiLineLastChar); [cbn; lia|].
      destruct (N.eqb ch tpp_IfFirstChar); [cbn; lia|].
      eapply good_weaken; [apply IH; lia|]. cbn. intros; lia.
  Qed.

  Lemma do_else_post : forall st, Inv st -> ps_fm st = tpp_ElseID ->
    post (fun r : pstate * bool => if snd r then rested st (fst r) else stepped st (fst r)) (do_else numf w content st).
  Proof.
    intros st HI Hk.
    assert (Hm : ps_fm st <> 0%N) by (rewrite Hk; discriminate).
    destruct (inv_parts st HI Hm) as (Hfo & Htl & _ & Hs1 & Hs2 & Hs3). rewrite Hk in Htl. cbn in Htl.
    unfold do_else.
    pose proof (inv_chain st HI) as Hch. pose proof (inv_chainok st HI) as Hck.
    destruct (ps_stack st) as [|top rest] eqn:Est; [cbn [post fst snd]; apply rested_refl; exact HI|].
    inversion Hs1 as [|? ? (init & t & Et & Hc) Hr1]; subst. inversion Hs2 as [|? ? Hl Hr2]; subst.
    rewrite split_last_app. apply Forall_snoc in Hl. destruct Hl as [Hli _].
    destruct t as [| | | | | |o eo cases]; try (cbn [post fst snd]; apply rested_refl; exact HI).
    cbn [container_ok] in Hc. destruct (cases_split cases Hc) as (ci & co & ce & cc & sb & E). rewrite E.
    pbind (fun _ : nat => True); [apply good_post; eapply good_weaken; [apply csub_good; unfold tpp_ElsePrefixLength; lia|auto]|]. intros e _.
    assert (Hbad : forall fo fm, ps_fo st <= fo ->
              rested st (mkS fo fm rest init (ps_child st) (ps_chain st))).
    { intros fo fm Hle. unfold rested. cbn [ps_fo ps_stack ps_cur ps_chain]. split; [|split; [exact Hle|eapply chainok_pop; [exact Hck|discriminate]]].
      eapply structok_mono; [exact Hle|]. repeat split; assumption. }
    assert (Hopen : forall coff ex oo mo, ps_fo st <= oo -> stepok oo mo ->
              stepped st (mkS (snd mo) (fst mo)
                 ((init ++ [PIf o eo ((ci ++ [PCase co e cc (ps_cur st)]) ++ [PCase coff 0 ex []])]) :: rest) []
                 (ps_child st) (ps_chain st))).
    { intros coff ex oo mo Hle Hmo. apply stepped_with_finder with (o := oo); [exact Hle|exact Hmo| |eapply chainok_swap; [exact Hck|discriminate|discriminate]].
      eapply structok_mono; [exact Hle|]. repeat split.
      - constructor; [|exact Hr1]. eexists init, _. split; [reflexivity|]. cbn. intros Hn. apply app_eq_nil in Hn. destruct Hn as [_ Hn]. discriminate Hn.
      - constructor; [|exact Hr2]. apply Forall_snoc. split; [exact Hli|exact I].
      - constructor. }
    pbind (fun sc : nat * bool => ps_fo st <= fst sc); [apply good_post, else_scan_good; lia|]. intros [offset isie] Hsc. cbn [fst snd] in *.
    destruct isie.
    - pbind (fun r : nat * nat * nat => let '(o', co', ce') := r in offset <= o' /\ (o' < len -> ce' < len));
        [apply good_post, parse_if_case_good|].
      intros [[o' co'] ce'] [Ho' Hce'].
      pbind (stepok o'); [apply good_post, fnext_good|]. intros mo Hmo.
      destruct (Nat.ltb_spec o' len) as [Hlt|Hge]; cbn [andb].
      + destruct (negb (ce' =? 0)).
        * pbind (fun _ : list qexpr => True); [apply pexpr_post; [exact Hch|left; auto]|]. intros ex _.
          cbn [post fst snd]. apply Hopen with (oo := o'); [lia|exact Hmo].
        * cbn [post fst snd]. apply Hbad. destruct Hmo as [H _]. lia.
      + cbn [post fst snd]. apply Hbad. destruct Hmo as [H _]. lia.
    - destruct (Nat.ltb_spec offset len) as [Hlt|Hge].
      + pbind (stepok (S offset)); [apply good_post, fnext_good|]. intros mo Hmo.
        cbn [post fst snd]. apply Hopen with (oo := S offset); [lia|exact Hmo].
      + cbn [post fst snd]. apply Hbad. lia.
  Qed.

  (* ---- closing brace ---- *)
  Lemma finalize_iif_good : forall fo rest init i c subs chain,
    fo <= len -> i_off i <= fo ->
    Forall (open_ok fo) rest -> Forall (Forall leaf_ok) rest -> Forall leaf_ok init -> Forall leaf_ok subs ->
    chainok rest chain ->
    good (fun st1 => structok fo (ps_stack st1) (ps_cur st1) /\ ps_fo st1 = fo /\ chainok (ps_stack st1) (ps_chain st1))
         (finalize_iif content fo rest init i c subs chain).
  Proof.
    intros fo rest init i c subs chain Hfo Hi Hr1 Hr2 Hinit Hsubs Hck. unfold finalize_iif.
    assert (Hckp : forall i', chainok ((init ++ [PIIf i' c subs]) :: rest) chain)
      by (intros i'; apply chainok_push; [exact Hck|discriminate]).
    gbind (fun _ : nat => True); [eapply good_weaken; [apply csub_good; exact Hi|auto]|]. intros d _.
    set (i1 := mkI (i_off i) (t16 d) 0 (i_tlen i) (i_foff i) (i_flen i) (i_tid i) (i_fid i)).
    destruct (N.ltb 65535 (N.of_nat d)).
    { cbn [good ps_stack ps_cur ps_fo ps_chain]. split; [repeat split; assumption|split; [reflexivity|exact Hck]]. }
    gbind (fun r : iifrec * bool => isame i1 (fst r)).
    { apply iif_attrs_good; [exact Hfo|cbn; lia|lia]. }
    intros [i2 repush] [Eoff _]. cbn [fst snd] in *. cbn in Eoff.
    assert (Hplain : forall cur', Forall leaf_ok cur' -> structok fo rest cur') by (intros; repeat split; assumption).
    destruct repush.
    { cbn [good ps_stack ps_cur ps_fo ps_chain]. split; [|split; [reflexivity|apply Hckp]]. repeat split.
      - constructor; [|exact Hr1]. exists init, (PIIf i2 c subs). split; [reflexivity|]. cbn. lia.
      - constructor; [|exact Hr2]. apply Forall_snoc. split; [exact Hinit|exact I].
      - exact Hsubs. }
    assert (Hdropped : structok fo rest init /\ fo = fo /\ chainok rest chain)
      by (split; [apply Hplain; exact Hinit|split; [reflexivity|exact Hck]]).
    destruct (negb (N.eqb (i_toff i2) 0) || negb (N.eqb (i_foff i2) 0)); [|exact Hdropped].
    destruct (startid_scan subs _ 0) as [id|]; [|exact Hdropped].
    destruct (255 <? id); [exact Hdropped|].
    match goal with |- good _ (bind (sub_tags_valid ?i3 subs) _) => generalize i3 end.
    intros i3.
    gbind (fun _ : bool => True); [apply sub_tags_valid_good; exact Hsubs|]. intros ok _.
    destruct ok; cbn [good ps_stack ps_cur ps_fo ps_chain]; [|exact Hdropped].
    split; [|split; [reflexivity|exact Hck]]. apply Hplain. apply Forall_snoc. split; [exact Hinit|exact I].
  Qed.

  Lemma do_line_end_post : forall st, Inv st -> ps_fm st = tpp_LineEndID -> post (rested st) (do_line_end content st).
  Proof.
    intros st HI Hk.
    assert (Hm : ps_fm st <> 0%N) by (rewrite Hk; discriminate).
    destruct (inv_parts st HI Hm) as (Hfo & Htl & _ & Hs1 & Hs2 & Hs3).
    unfold do_line_end.
    destruct (ps_child st); [|apply rested_refl; exact HI].
    destruct (ps_stack st) as [|top rest] eqn:Est; [apply rested_refl; exact HI|].
    inversion Hs1 as [|? ? (init & t & Et & Hc) Hr1]; subst. inversion Hs2 as [|? ? Hl Hr2]; subst.
    apply Forall_snoc in Hl. destruct Hl as [Hli _].
    rewrite (writeback_good 1 (ps_fo st) init t (ps_cur st) Hc). cbn [bind]. rewrite split_last_app.
    pose proof (inv_chainok st HI) as Hck. rewrite Est in Hck.
    assert (Hrest : forall cur' chain', Forall leaf_ok cur' -> chainok rest chain' ->
              rested st (mkS (ps_fo st) 0 rest cur' false chain')).
    { intros cur' chain' Hc' Hk'. unfold rested. cbn [ps_fo ps_stack ps_cur ps_chain]. split; [|split; [lia|exact Hk']]. repeat split; assumption. }
    destruct t as [| | |o e v sb|i c sb|l sb|o eo cases]; cbn [container_ok] in Hc; try contradiction; cbn [plug].
    - cbn [post]. apply Hrest; [apply Forall_snoc; split; [exact Hli|exact I]|eapply chainok_pop; [exact Hck|discriminate]].
    - apply good_post. eapply good_weaken; [apply finalize_iif_good; try assumption; eapply chainok_pop; [exact Hck|discriminate]|].
      intros st1 (H1 & H2 & H3). unfold rested. rewrite H2. split; [exact H1|split; [lia|exact H3]].
    - cbn [post]. apply Hrest; [apply Forall_snoc; split; [exact Hli|exact I]|eapply chainok_pop_loop; exact Hck].
    - destruct (cases_split cases Hc) as (ci & co & ce & cc & sb & E). rewrite E.
      cbn [post]. apply Hrest; [apply Forall_snoc; split; [exact Hli|exact I]|eapply chainok_pop; [exact Hck|discriminate]].
  Qed.

  (* ---- one iteration ---- *)
  Lemma step_post : forall st, Inv st -> ps_fm st <> 0%N -> post (stepped st) (step numf w content st).
  Proof.
    intros st HI Hm. unfold step.
    destruct (N.eqb_spec (ps_fm st) tpp_LineEndID) as [E|N1]; [apply then_next_post, do_line_end_post; assumption|].
    destruct (N.eqb_spec (ps_fm st) tpp_VariableID) as [E|N2]; [apply do_var_post; [intros v H; exact H|exact HI|rewrite E; reflexivity]|].
    destruct (N.eqb_spec (ps_fm st) tpp_RawVariableID) as [E|N3]; [apply do_var_post; [intros v H; exact H|exact HI|rewrite E; reflexivity]|].
    destruct (N.eqb_spec (ps_fm st) tpp_MathID) as [E|N4]; [apply do_math_post; assumption|].
    destruct (N.eqb_spec (ps_fm st) tpp_SuperVariableID) as [E|N5]; [apply do_svar_post; assumption|].
    destruct (N.eqb_spec (ps_fm st) tpp_InLineIfID) as [E|N6]; [apply do_iif_post; assumption|].
    destruct (N.eqb_spec (ps_fm st) tpp_LoopID) as [E|N7]; [apply do_loop_post; assumption|].
    destruct (N.eqb_spec (ps_fm st) tpp_LoopEndID) as [E|N8]; [apply then_next_post, do_loop_end_post; assumption|].
    destruct (N.eqb_spec (ps_fm st) tpp_IfID) as [E|N9]; [apply do_if_post; assumption|].
    destruct (N.eqb_spec (ps_fm st) tpp_IfEndID) as [E|N10]; [apply then_next_post, do_if_end_post; assumption|].
    destruct (N.eqb_spec (ps_fm st) tpp_ElseID) as [E|E11].
    - pbind (fun r : pstate * bool => if snd r then rested st (fst r) else stepped st (fst r)); [apply do_else_post; assumption|].
      intros [st1 b] H. cbn [fst snd] in *. destruct b; [apply then_next_post; exact H|exact H].
    - (* no other match id has a token *)
      exfalso. destruct (inv_parts st HI Hm) as (_ & _ & H1 & _).
      apply toklen_ids in H1. cbn in H1.
      repeat (destruct H1 as [H1|H1]; [symmetry in H1; contradiction|]). exact H1.
  Qed.

  (* ---- the main loop: the fuel (length + 2) is never exhausted ---- *)
  Lemma main_loop_post : forall fuel st, Inv st ->
    (ps_fm st <> 0%N -> len - ps_fo st < fuel) ->
    post (fun st' => Inv st' /\ ps_fm st' = 0%N) (main_loop numf w content fuel st).
  Proof.
    intros fuel; induction fuel as [|f IH]; intros st HI Hf.
    - cbn [main_loop]. destruct (N.eqb_spec (ps_fm st) 0) as [E|E]; [cbn; auto|specialize (Hf E); lia].
    - cbn [main_loop]. destruct (N.eqb_spec (ps_fm st) 0) as [E|E]; [cbn; auto|]. specialize (Hf E).
      pbind (stepped st); [apply step_post; assumption|].
      intros st' (HI' & Hle & Hadv). apply IH; [exact HI'|].
      intros Hn. destruct Hadv as [Hz|Hlt]; [contradiction|].
      destruct (inv_parts st' HI' Hn) as (Hfo' & _). lia.
  Qed.

  Lemma parse_state_post : post (fun st' => Inv st' /\ ps_fm st' = 0%N) (parse_state numf w content).
  Proof.
    unfold parse_state.
    pbind (stepok 0); [apply good_post, fnext_good|]. intros mo Hmo.
    apply main_loop_post.
    - split; [eapply stepok_finok; exact Hmo|]. cbn [ps_fo ps_stack ps_cur ps_chain]. repeat split; constructor.
    - cbn [ps_fo ps_fm]. intros _. lia.
  Qed.

(* C01, parser: for EVERY text, width and number scanner the parser model returns a tree: no
     out-of-bounds read of the text (Finder, skip loops, word tests, parseIfCase, parseLoopAttributes,
     the inline-if attribute scanner, getOperation's one-unit look-ahead, isExpression, TrimLeft /
     TrimRight, parseValue, the IsEqual of checkLoopVariable), no Last() of an empty array, no tag
     record read as another kind, no unsigned subtraction below zero, and no fuel exhaustion
     (termination: at most length + 2 iterations of the main loop). *)
  Theorem parse_gen_safe : exists l, parse_gen numf w content = Ok l.
  Proof.
    unfold parse_gen.
    pose proof parse_state_post as P. destruct (parse_state numf w content) as [st|e']; cbn in *.
    - eexists; reflexivity.
    - destruct P.
  Qed.

  (* the state in which the main loop ends satisfies the invariant *)
  Theorem parse_state_inv : exists st, parse_state numf w content = Ok st /\ Inv st /\ ps_fm st = 0%N.
  Proof.
    pose proof parse_state_post as P. destruct (parse_state numf w content) as [st|e']; cbn in *.
    - exists st. split; [reflexivity|exact P].
    - destruct P.
  Qed.
End Safety.

Theorem parse_safe : forall w content e, parse_model w content <> Error e.
Proof.
  intros w content e H. destruct (parse_gen_safe numf_digit w content) as [l Hl].
  unfold parse_model in H. rewrite Hl in H. discriminate H.
Qed.

Corollary parse_total : forall w content, exists l, parse_model w content = Ok l.
Proof. intros w content. apply parse_gen_safe. Qed.

(* non-vacuity: a text on which a loop with a value name, two variables and a closing tag are parsed *)
Example parse_example :
  exists l, parse_model 0 [123;118;97;114;58;97;125; 60;108;111;111;112;32;118;97;108;117;101;61;34;118;34;62;
                           123;118;97;114;58;118;125; 60;47;108;111;111;112;62]%N = Ok l /\ length l = 2.
Proof. vm_compute. eexists; split; reflexivity. Qed.

(* loop_tag never dangles: in every state of the run (every state satisfying the invariant, which
   [parse_state_post] / [step_post] establish for the initial state and preserve) the loop_tag chain is
   exactly the list of the loops whose storage is on the parent_storage stack, and the Parent chain of each
   of them is the list of the open loops below it.  (With findings/D72; without it the chain can point into
   a freed LoopTag.) *)
Theorem chain_is_open_loops : forall content st, Inv content st ->
  ps_chain st = open_loops (ps_stack st) /\ parents_ok (ps_stack st).
Proof. intros content st (_ & _ & E & P & _). split; assumption. Qed.

Theorem inv_preserved : forall numf w content st, Inv content st -> ps_fm st <> 0%N ->
  exists st', step numf w content st = Ok st' /\ Inv content st'.
Proof.
  intros numf w content st HI Hm. pose proof (step_post numf w content st HI Hm) as P.
  destruct (step numf w content st) as [st'|e]; cbn in P; [|destruct P].
  exists st'. split; [reflexivity|]. destruct P as [H _]. exact H.
Qed.
