(* Extract_tfull.v -- extraction for the C02-on-the-faithful-models checks (wf_template, the expected tree,
   the composed pipeline and the reference interpreter). *)
From Coq Require Import Extraction ExtrOcamlBasic NArith ZArith.
From Qv Require Import EscapeModel TmplModel TparseModel TrenderModel TfullModel.
Extraction Language OCaml.
Set Extraction Optimize.
Extraction "model_tfull.ml"
  N.add N.mul N.sub N.div_eucl N.compare Z.add Z.mul Z.sub Z.div_eucl Z.compare Z.of_N Z.to_N Z.opp
  TfullModel.wf_template TfullModel.tree_of_full TfullModel.render_all_jv TparseModel.parse_model
  TmplModel.expand TmplModel.print_nodes EscapeModel.auto_of EscapeModel.list_eqb TmplModel.jv_of_numeral.
