(* DigitProofsRoundtripInt.v -- C11 on the model for integers: for every natural n with
   0 < n < 2^53 the double n is printed (17 significant digits, Default) as the decimal
   numeral of n, and that numeral is parsed back as the natural number n, which denotes
   the same double.  (0 and the negative integers: by the same paths; 0 is a computed example.) *)
From Coq Require Import NArith ZArith List Bool Lia ZifyBool ZifyN ZifyNat.
From Qv Require Import gen.Tables_digit DigitModel DigitModelSpec DigitProofsInt DigitProofsParse.
Import ListNotations.
Local Open Scope N_scope.
Ltac Zify.zify_post_hook ::= Z.div_mod_to_equations.

(* ---- count of trailing zero bits ---- *)
Lemma ctz_double : forall x, x <> 0 -> ctz (2 * x) = 1 + ctz x.
Proof. intros [|p] H; [congruence|]. reflexivity. Qed.

Lemma ctz_mul_pow2 : forall k n, n <> 0 -> N.of_nat k <= ctz (n * 2 ^ N.of_nat k).
Proof.
  induction k as [|k IH]; intros n Hn; [cbn; lia|].
  rewrite Nat2N.inj_succ, N.pow_succ_r'.
  replace (n * (2 * 2 ^ N.of_nat k)) with (2 * (n * 2 ^ N.of_nat k)) by lia.
  rewrite ctz_double.
  - specialize (IH n Hn). lia.
  - apply N.neq_mul_0. split; [exact Hn|apply N.pow_nonzero; lia].
Qed.

Lemma pow2_ctz_le : forall x, x <> 0 -> 2 ^ ctz x <= x.
Proof.
  intros [|p] H; [congruence|]. clear H. induction p as [p IH|p IH|].
  - cbn [ctz ctz_pos]. cbn. lia.
  - change (ctz (N.pos p~0)) with (1 + ctz (N.pos p)). rewrite N.pow_add_r. change (2 ^ 1) with 2.
    change (N.pos p~0) with (2 * N.pos p). lia.
  - cbn. lia.
Qed.

(* ---- the short Default path: at most 17 digits, no fraction ---- *)
Lemma step_back_zero : forall l, step_back l 0 = l.
Proof.
  intros l. unfold step_back, blen. rewrite N.sub_0_r, Nat2N.id, firstn_all. destruct (0 <=? len l); reflexivity.
Qed.

Lemma format_default_short : forall ds calc,
  blen ds <= 17 -> format_default ds 0 17 calc 0 true false = Ok (rev ds).
Proof.
  intros ds calc Hl. unfold format_default.
  assert (E : sub32 (blen ds) 0 = blen ds).
  { unfold sub32, two32. assert (blen ds < 4294967296) by lia. lia. }
  rewrite E.
  assert (E2 : (17 <? blen ds) = false) by (apply N.ltb_ge; exact Hl). rewrite E2. cbn [bind].
  change (negb (0 =? 0)) with false. cbv iota. cbn [bind].
  change (sub32 0 0) with 0. rewrite step_back_zero.
  unfold reverse_from. cbn [N.to_nat firstn skipn app]. reflexivity.
Qed.

(* a decimal representation of a number below 10^k has at most k digits *)
Lemma decimal_length : forall n s k, decimal_of n s -> 0 < n -> n < 10 ^ k -> len s <= k.
Proof.
  intros n s k [Hd [Hv [Hne Hh]]] Hn Hk.
  destruct s as [|a t]; [congruence|].
  rewrite <- Hv in Hn, Hk. clear Hv.
  destruct Hh as [Hh|Hh]; [|inversion Hh; subst a t; unfold dval in Hn; cbn in Hn; lia].
  cbn [hd] in Hh. inversion Hd as [|? ? Ha Ht]; subst. unfold dig in Ha.
  rewrite dval_cons1 in Hk.
  destruct (N.le_gt_cases (len (a :: t)) k) as [H|H]; [exact H|exfalso].
  cbn [length] in H. rewrite Nat2N.inj_succ in H.
  assert (10 ^ k <= 10 ^ len t) by (apply N.pow_le_mono_r; lia).
  assert (1 <= a - 48) by lia. nia.
Qed.

(* ---- the text of an integer-valued double, from its fields ---- *)
Section IntegerDouble.
  Variables (number n e : N).
  Hypothesis He : e <= 52.
  Hypothesis Hn : 2 ^ e <= n < 2 ^ (e + 1).
  (* exponent field 1023 + e, mantissa field n * 2^(52-e) - 2^52, sign 0 *)
  Hypothesis Fexp : N.land number dg_d_expmask = (1023 + e) * 2 ^ 52.
  Hypothesis Fsign : N.land number dg_d_signmask = 0.
  Hypothesis Fmant : N.lor (N.land number dg_d_mantmask) dg_d_leadbit = n * 2 ^ (52 - e).

  Lemma n_pos : n <> 0.
  Proof. assert (1 <= 2 ^ e) by (apply N.lt_succ_r, N.lt_pred_lt_succ; cbn; apply N.neq_0_lt_0, N.pow_nonzero; lia). lia. Qed.

  Lemma n_lt_2_53 : n < 2 ^ 53.
  Proof. destruct Hn as [_ H]. eapply N.lt_le_trans; [exact H|]. apply N.pow_le_mono_r; lia. Qed.

  Lemma real_int_text : real_to_string finfo_double [] number 17 rf_default = Ok (u64_to_string n).
  Proof.
    pose proof n_pos as Hn0. pose proof n_lt_2_53 as Hn53.
    unfold real_to_string. cbn [fi_expmask fi_sign fi_mantmask fi_lead fi_msize fi_bias fi_maxcut fi_maxindex finfo_double].
    change ((rf_default =? rf_semifixed) || (rf_default =? rf_fixed)) with false.
    change ((17 =? 0) && negb false) with false. cbv iota.
    rewrite Fexp, Fsign, Fmant.
    set (P52 := 2 ^ 52) in *. assert (HP52 : P52 = 4503599627370496) by reflexivity.
    assert (E1 : ((1023 + e) * P52 =? dg_d_expmask) = false).
    { apply N.eqb_neq. change dg_d_expmask with (2047 * 4503599627370496). lia. }
    rewrite E1. cbn [negb]. change (0 =? 0) with true. cbn [negb app].
    assert (E2 : ((1023 + e) * P52 =? 0) = false) by (apply N.eqb_neq; lia).
    rewrite E2. cbn [negb]. rewrite orb_true_r.
    set (m := n * 2 ^ (52 - e)) in *.
    assert (Hbe : N.shiftr ((1023 + e) * P52) dg_d_mantsize = 1023 + e).
    { change dg_d_mantsize with 52. rewrite N.shiftr_div_pow2. fold P52. apply N.div_mul. lia. }
    rewrite Hbe.
    change dg_d_bias with 1023.
    assert (E3 : (1023 <=? 1023 + e) = true) by (apply N.leb_le; lia). rewrite E3.
    replace (1023 + e - 1023) with e by lia.
    (* trailing zero bits of the mantissa *)
    assert (Hm0 : m <> 0).
    { unfold m. apply N.neq_mul_0. split; [exact Hn0|apply N.pow_nonzero; lia]. }
    assert (Hc1 : 52 - e <= ctz m).
    { unfold m. rewrite <- (N2Nat.id (52 - e)). apply ctz_mul_pow2. exact Hn0. }
    assert (Hm53 : m < 2 ^ 53).
    { unfold m. replace 53 with (e + 1 + (52 - e)) by lia. rewrite N.pow_add_r.
      apply N.mul_lt_mono_pos_r; [apply N.neq_0_lt_0, N.pow_nonzero; lia|]. apply Hn. }
    assert (Hc2 : ctz m <= 52).
    { pose proof (pow2_ctz_le m Hm0) as H. destruct (N.le_gt_cases (ctz m) 52) as [H'|H']; [exact H'|exfalso].
      assert (2 ^ 53 <= 2 ^ ctz m) by (apply N.pow_le_mono_r; lia). lia. }
    assert (Hfb : sub32 dg_d_mantsize (ctz m) = 52 - ctz m).
    { change dg_d_mantsize with 52. unfold sub32, two32. lia. }
    rewrite Hfb.
    assert (E4 : (52 - ctz m <=? e) = true) by (apply N.leb_le; lia). rewrite E4.
    assert (Hea : add32 e 0 = e) by (unfold add32, two32; lia). rewrite Hea.
    set (digits := add32 (e * 30103 mod two32 / 100000) 1).
    assert (Hdg : digits <= 16).
    { unfold digits, add32, two32. lia. }
    assert (E5 : (17 <? digits) = false) by (apply N.ltb_ge; lia). rewrite E5.
    cbn [andb orb negb]. change (0 =? 0) with true. cbn [negb].
    change (add32 dg_d_mantsize 0) with 52.
    assert (E6 : (52 <? e) = false) by (apply N.ltb_ge; exact He). rewrite E6. cbn [bind negb andb].
    assert (E7 : (ctz m <? 52 - e) = false) by (apply N.ltb_ge; exact Hc1). rewrite E7.
    assert (Hsh : N.shiftr m (52 - e) = n).
    { rewrite N.shiftr_div_pow2. unfold m. apply N.div_mul. apply N.pow_nonzero. lia. }
    rewrite Hsh.
    (* the digits *)
    unfold big_to_string.
    assert (E8 : (two64 <=? n) = false).
    { apply N.leb_gt. unfold two64. change 18446744073709551616 with (2 ^ 64).
      eapply N.lt_trans; [exact Hn53|]. vm_compute. reflexivity. }
    rewrite E8. assert (E9 : (n =? 0) = false) by (apply N.eqb_neq; exact Hn0). rewrite E9. cbn [bind].
    change (rf_default =? rf_semifixed) with false. change (rf_default =? rf_fixed) with false. cbv iota.
    rewrite u64_to_string_rev_mirror.
    assert (Hdec : decimal_of n (u64_to_string n)).
    { apply u64_to_string_decimal. eapply N.lt_trans; [exact Hn53|]. vm_compute. reflexivity. }
    assert (Hlen : len (u64_to_string n) <= 16).
    { apply (decimal_length n); [exact Hdec|lia|]. eapply N.lt_trans; [exact Hn53|]. vm_compute. reflexivity. }
    rewrite format_default_short.
    - cbn [bind]. rewrite rev_involutive. reflexivity.
    - unfold blen. rewrite rev_length. lia.
  Qed.

  (* ... and the numeral is read back as the natural number n *)
  Lemma int_text_parses : string_to_number (u64_to_string n) = Ok (mkPres qn_natural n (len (u64_to_string n))).
  Proof.
    pose proof n_pos as Hn0. pose proof n_lt_2_53 as Hn53.
    assert (Hdec : decimal_of n (u64_to_string n)).
    { apply u64_to_string_decimal. eapply N.lt_trans; [exact Hn53|]. vm_compute. reflexivity. }
    assert (Hlen : len (u64_to_string n) <= 16).
    { apply (decimal_length n); [exact Hdec|lia|]. eapply N.lt_trans; [exact Hn53|]. vm_compute. reflexivity. }
    destruct Hdec as [Hd [Hv [Hne Hh]]].
    destruct (u64_to_string n) as [|d ds] eqn:Es; [congruence|].
    destruct Hh as [Hh|Hh]; [|inversion Hh; subst d ds; unfold dval in Hv; cbn in Hv; lia].
    cbn [hd] in Hh. inversion Hd as [|? ? Hdd Hds]; subst x l.
    assert (Hnz : is_nz_digit d = true).
    { unfold is_nz_digit. change ch_zero with 48. change ch_nine with 57. unfold dig in Hdd.
      apply andb_true_intro. split; [apply N.ltb_lt|apply N.leb_le]; lia. }
    rewrite <- (app_nil_r ds) at 1.
    rewrite (stn_unsigned_int d ds [] Hnz Hds I); [|cbn [length] in Hlen; lia].
    rewrite Hv. cbn [length]. rewrite Nat2N.inj_succ. replace (1 + len ds) with (N.succ (len ds)) by lia. reflexivity.
  Qed.

  Theorem roundtrip_integer :
    roundtrip finfo_double 17 number = Ok (u64_to_string n, mkPres qn_natural n (len (u64_to_string n))).
  Proof. unfold roundtrip. rewrite real_int_text. cbn [bind]. rewrite int_text_parses. reflexivity. Qed.
End IntegerDouble.

(* ---- the bit pattern of the double n ---- *)
Definition double_of_nat (n : N) : N :=
  let e := N.log2 n in (1023 + e) * 2 ^ 52 + (n * 2 ^ (52 - e) - 2 ^ 52).

Lemma land_pow2_high : forall x k, x < 2 ^ k -> N.land x (2 ^ k) = 0.
Proof.
  intros x k H. apply N.bits_inj_0. intros i. rewrite N.land_spec, N.pow2_bits_eqb.
  destruct (N.eqb_spec k i) as [<-|Hne]; [|apply andb_false_r].
  rewrite <- (N.mod_small x (2 ^ k)) by exact H. rewrite N.mod_pow2_bits_high by lia. reflexivity.
Qed.

Lemma lor_pow2_high : forall x k, x < 2 ^ k -> N.lor x (2 ^ k) = x + 2 ^ k.
Proof.
  intros x k H. pose proof (land_pow2_high x k H) as Hl.
  rewrite (N.add_nocarry_lxor x (2 ^ k) Hl). symmetry. apply N.lxor_lor. exact Hl.
Qed.

Lemma land_shiftl_mask : forall a b k, N.land a (N.shiftl b k) = N.shiftl (N.land (N.shiftr a k) b) k.
Proof.
  intros a b k. apply N.bits_inj. intros i. rewrite N.land_spec.
  destruct (N.le_gt_cases k i) as [H|H].
  - rewrite !N.shiftl_spec_high' by exact H. rewrite N.land_spec, N.shiftr_spec'.
    replace (i - k + k) with i by lia. reflexivity.
  - rewrite !N.shiftl_spec_low by exact H. apply andb_false_r.
Qed.

Theorem roundtrip_integer_double : forall n, 0 < n -> n < 2 ^ 53 ->
  roundtrip finfo_double 17 (double_of_nat n) = Ok (u64_to_string n, mkPres qn_natural n (len (u64_to_string n))).
Proof.
  intros n Hpos H53. set (e := N.log2 n).
  assert (Hlog : 2 ^ e <= n < 2 ^ N.succ e) by (apply N.log2_spec; exact Hpos).
  assert (He : e <= 52).
  { destruct (N.le_gt_cases e 52) as [H|H]; [exact H|exfalso].
    assert (2 ^ 53 <= 2 ^ e) by (apply N.pow_le_mono_r; lia). lia. }
  set (P := 2 ^ 52). assert (HP : P = 4503599627370496) by reflexivity.
  set (m := n * 2 ^ (52 - e)).
  assert (Hm : P <= m < 2 * P).
  { assert (HPeq : P = 2 ^ e * 2 ^ (52 - e)) by (unfold P; rewrite <- N.pow_add_r; f_equal; lia).
    assert (HB : 0 < 2 ^ (52 - e)) by (apply N.neq_0_lt_0, N.pow_nonzero; lia).
    rewrite N.pow_succ_r' in Hlog. rewrite HPeq. unfold m.
    set (A := 2 ^ e) in *. set (B := 2 ^ (52 - e)) in *.
    split.
    - apply N.mul_le_mono_r. apply Hlog.
    - replace (2 * (A * B)) with ((2 * A) * B) by lia. apply N.mul_lt_mono_pos_r; [exact HB|apply Hlog]. }
  assert (Hnum : double_of_nat n = (1023 + e) * P + (m - P)) by reflexivity.
  apply (roundtrip_integer (double_of_nat n) n e He).
  - rewrite N.add_1_r. exact Hlog.
  - (* exponent field *)
    rewrite Hnum. change dg_d_expmask with (N.shiftl (N.ones 11) 52).
    rewrite land_shiftl_mask. rewrite N.shiftr_div_pow2. fold P.
    rewrite N.div_add_l by lia. rewrite (N.div_small (m - P) P) by lia. rewrite N.add_0_r.
    rewrite N.land_ones. rewrite N.mod_small by (change (2 ^ 11) with 2048; lia).
    rewrite N.shiftl_mul_pow2. reflexivity.
  - (* sign *)
    rewrite Hnum. change dg_d_signmask with (2 ^ 63). apply land_pow2_high.
    change (2 ^ 63) with (2048 * 4503599627370496). lia.
  - (* mantissa with the leading bit *)
    rewrite Hnum. change dg_d_mantmask with (N.ones 52). rewrite N.land_ones. fold P.
    rewrite N.add_comm, N.mod_add by lia. rewrite N.mod_small by lia.
    change dg_d_leadbit with (2 ^ 52). rewrite lor_pow2_high by (fold P; lia). fold P. fold m. lia.
Qed.

Example double_of_nat_examples :
  double_of_nat 1 = 4607182418800017408 /\ double_of_nat 3 = 4613937818241073152
  /\ double_of_nat 9007199254740991 = 4845873199050653695.
Proof. repeat (match goal with |- _ /\ _ => split end); vm_compute; reflexivity. Qed.
