(* HtabModel.v -- C13: executable model of Include/HashTable.hpp (+ HArray.hpp, HList.hpp)
   and of StringUtils::Hash; association-list specification; observation
   functions and the oracle used by the correspondence run.  Definitions only.

   Representation (HashTable.hpp:407-424): one block = `cap` bucket heads
   followed by the items.  Heads and Next fields hold 1-based item numbers, 0 =
   end of chain.  item.Hash = 0 marks a removed item.  Sizes, indices and links
   are `nat`, hashes and payloads `N`.  `option` results: `None` = a chain walk
   ran out of fuel (Error Fuel); HtabProofs shows it never happens under Inv.
   Assumption: all sizes stay below 2^31 (no SizeT wrap in capacity arithmetic). *)
From Coq Require Import List NArith Arith Bool.
Import ListNotations.

Fixpoint upd {A} (l : list A) (i : nat) (x : A) : list A :=
  match l, i with
  | [], _ => []
  | _ :: t, O => x :: t
  | a :: t, S j => a :: upd t j x
  end.

Inductive link := Head (b : nat) | NextOf (i : nat).

Section HT.
Context {K V : Type}.
Variable keqb : K -> K -> bool.   (* Key.IsEqual(key, length) *)
Variable klt : K -> K -> bool.    (* Key < Key (String::operator<, strict) *)
Variable H : K -> N.              (* StringUtils::Hash *)
Variable kdef : K.                (* Key_T{}   *)
Variable vdef : V.                (* Value_T{} *)

Record item := mkItem { ikey : K; ihash : N; inext : nat; ival : V }.
Record ht := mkHt { cap : nat; heads : list nat; items : list item }.

Definition dummy := mkItem kdef 0%N 0 vdef.
Definition it (s : ht) (i : nat) : item := nth i (items s) dummy.
Definition size (s : ht) : nat := length (items s).
Definition empty_ht : ht := mkHt 0 [] [].

(* hash & getBase(); never evaluated with cap = 0 in the C++ (guards) *)
Definition bucket (c : nat) (h : N) : nat := N.to_nat (N.land h (N.pred (N.of_nat c))).

Definition rd_link (s : ht) (l : link) : nat :=
  match l with Head b => nth b (heads s) 0 | NextOf i => inext (it s i) end.
Definition set_next (x : item) (n : nat) := mkItem (ikey x) (ihash x) n (ival x).
Definition wr_link (s : ht) (l : link) (v : nat) : ht :=
  match l with
  | Head b => mkHt (cap s) (upd (heads s) b v) (items s)
  | NextOf i => mkHt (cap s) (heads s) (upd (items s) i (set_next (it s i) v))
  end.
Definition set_item (s : ht) (i : nat) (x : item) : ht := mkHt (cap s) (heads s) (upd (items s) i x).
Definition set_val (s : ht) (i : nat) (v : V) : ht :=
  set_item s i (mkItem (ikey (it s i)) (ihash (it s i)) (inext (it s i)) v).

Definition live_item (x : item) : bool := negb (N.eqb (ihash x) 0).

(* ---- HashTable::find (522-541): returns the link to patch and the item found ---- *)
Fixpoint find (fuel : nat) (s : ht) (l : link) (k : K) (h : N) : option (link * option nat) :=
  match fuel with
  | O => None
  | S f =>
    match rd_link s l with
    | O => Some (l, None)
    | S i => if N.eqb (ihash (it s i)) h && keqb (ikey (it s i)) k then Some (l, Some i)
             else find f s (NextOf i) k h
    end
  end.
Definition find_key (s : ht) (k : K) (h : N) := find (S (size s)) s (Head (bucket (cap s) h)) k h.

(* ---- generateHash (543-565) ---- *)
Fixpoint walk_end (fuel : nat) (s : ht) (l : link) : option link :=
  match fuel with
  | O => None
  | S f => match rd_link s l with O => Some l | S j => walk_end f s (NextOf j) end
  end.
Definition gh_step (s : ht) (i : nat) : option ht :=
  let s1 := wr_link s (NextOf i) 0 in
  match walk_end (S (size s)) s1 (Head (bucket (cap s) (ihash (it s i)))) with
  | None => None
  | Some l => Some (wr_link s1 l (S i))
  end.
Fixpoint gh_loop (idx : list nat) (s : ht) : option ht :=
  match idx with
  | [] => Some s
  | i :: r => match gh_step s i with None => None | Some s' => gh_loop r s' end
  end.
Definition generate_hash (s : ht) : option ht := gh_loop (seq 0 (size s)) s.

(* ---- allocate (407-424): capacity = AlignSize(n + (n & 1)) ---- *)
Definition alloc_cap (n : nat) : nat :=
  let n1 := (N.of_nat n + N.modulo (N.of_nat n) 2)%N in
  let s := N.shiftl 1 (N.log2 n1) in
  N.to_nat (if N.ltb s n1 then N.double s else s).
Definition zero_heads (c : nat) : list nat := repeat 0 c.
Definition fresh (n : nat) (its : list item) : ht := mkHt (alloc_cap n) (zero_heads (alloc_cap n)) its.

(* ---- resize (500-520): drop removed items, new block, rebuild chains ---- *)
Definition resize (n : nat) (s : ht) : option ht := generate_hash (fresh n (filter live_item (items s))).
Definition expand (s : ht) : option ht := resize (((if cap s =? 0 then 1 else 0) + cap s) * 2) s.
Definition grow_if_full (s : ht) : option ht := if size s =? cap s then expand s else Some s.

(* ---- insert (450-461) ---- *)
Definition insert_item (s : ht) (l : link) (k : K) (h : N) (v : V) : ht :=
  wr_link (mkHt (cap s) (heads s) (items s ++ [mkItem k h 0 v])) l (S (size s)).

(* HArray::Insert (199-214): insert or replace *)
Definition insert (k : K) (v : V) (s : ht) : option ht :=
  match grow_if_full s with
  | None => None
  | Some s1 =>
    match find_key s1 k (H k) with
    | None => None
    | Some (l, Some i) => Some (set_val s1 i v)
    | Some (l, None) => Some (insert_item s1 l k (H k) v)
    end
  end.
(* HArray::Get / operator[] (155-197), HList::Insert (145-157): get or create; returns the slot *)
Definition get (k : K) (s : ht) : option (ht * nat) :=
  match grow_if_full s with
  | None => None
  | Some s1 =>
    match find_key s1 k (H k) with
    | None => None
    | Some (l, Some i) => Some (s1, i)
    | Some (l, None) => Some (insert_item s1 l k (H k) vdef, size s1)
    end
  end.

(* ---- remove (463-476): unlink, then tombstone ---- *)
Definition tomb : item := mkItem kdef 0%N 0 vdef.
Definition remove_h (k : K) (h : N) (s : ht) : option ht :=
  if size s =? 0 then Some s else
  match find_key s k h with
  | None => None
  | Some (l, Some i) => Some (set_item (wr_link s l (inext (it s i))) i tomb)
  | Some (l, None) => Some s
  end.
Definition remove (k : K) (s : ht) : option ht := remove_h k (H k) s.
Definition remove_index (i : nat) (s : ht) : option ht :=
  if (i <? size s) && live_item (it s i) then remove_h (ikey (it s i)) (ihash (it s i)) s else Some s.

(* ---- Rename (207-236) ---- *)
Definition rename (from to : K) (s : ht) : option (ht * bool) :=
  if size s =? 0 then Some (s, false) else
  match find_key s from (H from) with
  | None => None
  | Some (ll, _) =>
    match rd_link s ll with
    | O => Some (s, false)
    | S idx =>
      match find_key s to (H to) with
      | None => None
      | Some (rl, _) =>
        match rd_link s rl with
        | S _ => Some (s, false)
        | O =>
          let s1 := wr_link s rl (rd_link s ll) in          (* *right_index = *left_index  *)
          let s2 := wr_link s1 ll (inext (it s1 idx)) in     (* *left_index  = item->Next   *)
          let x := it s2 idx in
          Some (set_item s2 idx (mkItem to (H to) 0 (ival x)), true)
        end
      end
    end
  end.

(* ---- lookups ---- *)
Definition lookup (k : K) (s : ht) : option (option nat) :=
  if size s =? 0 then Some None else
  match find_key s k (H k) with None => None | Some (_, r) => Some r end.
(* GetKeyIndex (162-175) reads the index through the returned link *)
Definition get_key_index (k : K) (s : ht) : option (option nat) :=
  if size s =? 0 then Some None else
  match find_key s k (H k) with
  | None => None
  | Some (l, Some _) => Some (Some (pred (rd_link s l)))
  | Some (l, None) => Some None
  end.
Definition get_slot (i : nat) (s : ht) : option (K * V) :=
  if (i <? size s) && live_item (it s i) then Some (ikey (it s i), ival (it s i)) else None.
Definition actual_size (s : ht) : nat := length (filter live_item (items s)).

(* ---- Reserve / Clear / Reset / Resize / Expect / Compress (242-326) ---- *)
Definition reset (s : ht) : ht := if cap s =? 0 then s else empty_ht.
Definition reserve (n : nat) (s : ht) : ht := if n =? 0 then reset s else fresh n [].
Definition clear (s : ht) : ht := if size s =? 0 then s else mkHt (cap s) (zero_heads (cap s)) [].
Definition resize_pub (n : nat) (s : ht) : option ht :=
  if n =? 0 then Some (reset s) else
  resize n (if n <? size s then mkHt (cap s) (heads s) (firstn n (items s)) else s).
Definition expect (count : nat) (s : ht) : option ht :=
  let n := count + size s in if cap s <? n then resize n s else Some s.
Definition compress (s : ht) : option ht :=
  let a := actual_size s in
  if a =? 0 then Some (reset s) else if a <? size s then resize a s else Some s.

(* ---- Sort (300-311): Memory::Sort (Memory.hpp:116-147, a quicksort around arr[start])
   on ALL items (removed ones carry Key_T{}), zero the heads, generateHash ---- *)
Definition item_before (asc : bool) (a b : item) : bool :=
  if asc then klt (ikey a) (ikey b) else klt (ikey b) (ikey a).
Definition swap (arr : list item) (i j : nat) : list item :=
  upd (upd arr i (nth j arr dummy)) j (nth i arr dummy).
(* the partition loop: n = end - offset iterations left *)
Fixpoint qpart (asc : bool) (arr : list item) (pivot : item) (index offset n : nat) : list item * nat :=
  match n with
  | O => (arr, index)
  | S n' =>
    if item_before asc (nth offset arr dummy) pivot
    then qpart asc (swap arr (S index) offset) pivot (S index) (S offset) n'
    else qpart asc arr pivot index (S offset) n'
  end.
Fixpoint qsort (fuel : nat) (asc : bool) (arr : list item) (start stop : nat) : option (list item) :=
  match fuel with
  | O => None
  | S f =>
    if start =? stop then Some arr else
    let (arr1, index) := qpart asc arr (nth start arr dummy) start (S start) (stop - S start) in
    let arr2 := if index =? start then arr1 else swap arr1 index start in
    match qsort f asc arr2 start index with
    | None => None
    | Some arr3 => qsort f asc arr3 (S index) stop
    end
  end.
Definition sort_items (asc : bool) (l : list item) : option (list item) := qsort (S (length l)) asc l 0 (length l).
Definition sort (asc : bool) (s : ht) : option ht :=
  match sort_items asc (items s) with
  | None => None
  | Some its => generate_hash (mkHt (cap s) (zero_heads (cap s)) its)
  end.

(* ---- copyTable (478-498) / copy assignment; move leaves the state as it is ---- *)
Definition copy (src : ht) : option ht :=
  if size src =? 0 then Some empty_ht else generate_hash (fresh (size src) (filter live_item (items src))).

(* ---- HArray::operator+= (98-153), HList::operator+= : replace or append ---- *)
Definition merge_one (x : item) (s : ht) : option ht :=
  if live_item x then
    match find_key s (ikey x) (ihash x) with
    | None => None
    | Some (l, Some i) => Some (set_val s i (ival x))
    | Some (l, None) => Some (insert_item s l (ikey x) (ihash x) (ival x))
    end
  else Some s.
Fixpoint merge_loop (xs : list item) (s : ht) : option ht :=
  match xs with
  | [] => Some s
  | x :: r => match merge_one x s with None => None | Some s' => merge_loop r s' end
  end.
Definition merge (src : ht) (s : ht) : option ht :=
  let n := size s + size src in
  match (if cap s <? n then resize n s else Some s) with
  | None => None
  | Some s1 => merge_loop (items src) s1
  end.

(* ---- abstraction: the live entries in iteration order ---- *)
Definition live (s : ht) : list (K * V) :=
  map (fun x => (ikey x, ival x)) (filter live_item (items s)).
Definition dead (s : ht) : nat := size s - actual_size s.

(* ================= specification: an association list ================= *)
Definition alist := list (K * V).
Fixpoint sp_get (l : alist) (k : K) : option V :=
  match l with [] => None | (k', v) :: r => if keqb k' k then Some v else sp_get r k end.
Fixpoint sp_index (l : alist) (k : K) : option nat :=
  match l with
  | [] => None
  | (k', v) :: r => if keqb k' k then Some 0 else option_map S (sp_index r k)
  end.
Definition sp_has (l : alist) (k : K) : bool := match sp_get l k with Some _ => true | None => false end.
Fixpoint sp_put (l : alist) (k : K) (v : V) : alist :=
  match l with
  | [] => [(k, v)]
  | (k', v') :: r => if keqb k' k then (k', v) :: r else (k', v') :: sp_put r k v
  end.
Definition sp_getc (l : alist) (k : K) : alist := if sp_has l k then l else l ++ [(k, vdef)].
Fixpoint sp_remove (l : alist) (k : K) : alist :=
  match l with [] => [] | (k', v) :: r => if keqb k' k then r else (k', v) :: sp_remove r k end.
Fixpoint sp_rekey (l : alist) (from to : K) : alist :=
  match l with [] => [] | (k', v) :: r => if keqb k' from then (to, v) :: r else (k', v) :: sp_rekey r from to end.
Definition sp_rename (l : alist) (from to : K) : alist * bool :=
  if sp_has l from && negb (sp_has l to) then (sp_rekey l from to, true) else (l, false).
Definition sp_merge (l src : alist) : alist := fold_left (fun a kv => sp_put a (fst kv) (snd kv)) src l.
Definition pair_before (asc : bool) (a b : K * V) : bool :=
  if asc then klt (fst a) (fst b) else klt (fst b) (fst a).
Fixpoint sp_sort_ins (asc : bool) (x : K * V) (l : alist) : alist :=
  match l with
  | [] => [x]
  | y :: r => if pair_before asc x y then x :: y :: r else y :: sp_sort_ins asc x r
  end.
Definition sp_sort (asc : bool) (l : alist) : alist := fold_right (sp_sort_ins asc) [] l.
Definition sp_remove_nth (l : alist) (i : nat) : alist := firstn i l ++ skipn (S i) l.

(* ================= operations of a history ================= *)
Inductive op :=
| OInsert (k : K) (v : V)            (* HArray::Insert: insert or replace *)
| OGet (k : K) (v : V)               (* x = Get(k) / operator[]: report x, then x = v *)
| OTryInsert (k : K)                 (* HList::Insert / Get without assignment *)
| ORemove (k : K)
| ORemoveIndex (i : nat)
| ORemoveAt (k : K)                  (* if GetKeyIndex(i, k): RemoveIndex(i) *)
| ORename (from to : K)
| OResize (n : nat)
| OExpect (n : nat)
| OCompress
| OClear
| OReset
| OReserve (n : nat)
| OSort (asc : bool)
| OCopy                              (* c(h); h = c *)
| OMove                              (* m(Move(h)); h = Move(m) *)
| OMerge (ins : list (K * V)) (rm : list K).  (* o := inserts then removals; h += o (by copy or by move) *)

Inductive out := ONone | OBool (b : bool) | OVal (v : V).

Definition bind {A B} (x : option A) (f : A -> option B) : option B :=
  match x with None => None | Some a => f a end.

Fixpoint build_ins (ins : list (K * V)) (s : ht) : option ht :=
  match ins with [] => Some s | (k, v) :: r => bind (insert k v s) (build_ins r) end.
Fixpoint build_rm (rm : list K) (s : ht) : option ht :=
  match rm with [] => Some s | k :: r => bind (remove k s) (build_rm r) end.
Definition build_src (ins : list (K * V)) (rm : list K) : option ht :=
  bind (build_ins ins empty_ht) (build_rm rm).

Definition step (o : op) (s : ht) : option (ht * out) :=
  match o with
  | OInsert k v => bind (insert k v s) (fun s' => Some (s', ONone))
  | OGet k v => bind (get k s) (fun r => Some (set_val (fst r) (snd r) v, OVal (ival (it (fst r) (snd r)))))
  | OTryInsert k => bind (get k s) (fun r => Some (fst r, ONone))
  | ORemove k => bind (remove k s) (fun s' => Some (s', ONone))
  | ORemoveIndex i => bind (remove_index i s) (fun s' => Some (s', ONone))
  | ORemoveAt k => bind (get_key_index k s) (fun r =>
                     match r with
                     | Some i => bind (remove_index i s) (fun s' => Some (s', ONone))
                     | None => Some (s, ONone)
                     end)
  | ORename a b => bind (rename a b s) (fun r => Some (fst r, OBool (snd r)))
  | OResize n => bind (resize_pub n s) (fun s' => Some (s', ONone))
  | OExpect n => bind (expect n s) (fun s' => Some (s', ONone))
  | OCompress => bind (compress s) (fun s' => Some (s', ONone))
  | OClear => Some (clear s, ONone)
  | OReset => Some (reset s, ONone)
  | OReserve n => Some (reserve n s, ONone)
  | OSort a => bind (sort a s) (fun s' => Some (s', ONone))
  | OCopy => bind (copy s) (fun c => bind (copy c) (fun s' => Some (s', ONone)))
  | OMove => Some (s, ONone)
  | OMerge ins rm => bind (build_src ins rm) (fun src => bind (merge src s) (fun s' => Some (s', ONone)))
  end.

Fixpoint run (ops : list op) (s : ht) : option (ht * list out) :=
  match ops with
  | [] => Some (s, [])
  | o :: r => bind (step o s) (fun p => bind (run r (fst p)) (fun q => Some (fst q, snd p :: snd q)))
  end.

(* The specification of a step on (association list, clean flag).  `clean = true`
   means: certainly no removed slot is present, so positions are meaningful.
   Positional operations (RemoveIndex, a shrinking Resize) in a possibly
   tombstoned state have no position-free specification: `None`. *)
Definition sp_build (ins : list (K * V)) (rm : list K) : alist :=
  fold_left sp_remove rm (fold_left (fun a kv => sp_put a (fst kv) (snd kv)) ins []).
Definition sp_step (o : op) (st : alist * bool) : option (alist * bool * out) :=
  let (l, c) := st in
  match o with
  | OInsert k v => Some (sp_put l k v, c, ONone)
  | OGet k v => Some (sp_put (sp_getc l k) k v, c, OVal (match sp_get l k with Some x => x | None => vdef end))
  | OTryInsert k => Some (sp_getc l k, c, ONone)
  | ORemove k => Some (sp_remove l k, c && negb (sp_has l k), ONone)
  | ORemoveIndex i => if c then Some (sp_remove_nth l i, negb (i <? length l), ONone) else None
  | ORemoveAt k => Some (sp_remove l k, c && negb (sp_has l k), ONone)
  | ORename a b => let r := sp_rename l a b in Some (fst r, c, OBool (snd r))
  | OResize n => if c || (length l =? 0) || (n =? 0) then Some (firstn n l, true, ONone) else None
  | OExpect n => Some (l, c, ONone)
  | OCompress => Some (l, true, ONone)
  | OClear => Some ([], true, ONone)
  | OReset => Some ([], true, ONone)
  | OReserve n => Some ([], true, ONone)
  | OSort a => Some (sp_sort a l, c, ONone)
  | OCopy => Some (l, true, ONone)
  | OMove => Some (l, c, ONone)
  | OMerge ins rm => Some (sp_merge l (sp_build ins rm), c, ONone)
  end.
Fixpoint sp_run (ops : list op) (st : alist * bool) : option (alist * bool * list out) :=
  match ops with
  | [] => Some (st, [])
  | o :: r => bind (sp_step o st) (fun p => bind (sp_run r (fst p)) (fun q => Some (fst q, snd p :: snd q)))
  end.

End HT.

Arguments item : clear implicits.
Arguments ht : clear implicits.
Arguments op : clear implicits.
Arguments out : clear implicits.

(* ================= StringUtils::Hash (165-187), Char_T = char ================= *)
Local Open Scope N_scope.
Definition w32 : N := 4294967296.
(* SizeT(key[i]) for a (signed) char holding the byte u *)
Definition cvt_char (u : N) : N := if u <? 128 then u else u + (w32 - 256).
Fixpoint hash_loop (fuel : nat) (key : list N) (hash base offset length : N) : option N :=
  match fuel with
  | O => None
  | S f =>
    if offset <? length then
      let hash := (hash + base * offset * cvt_char (nth (N.to_nat offset) key 0)) mod w32 in
      let base := (base + offset) mod w32 in
      if negb (offset =? length) then
        let hash := (hash * N.lxor length offset) mod w32 in
        let base := (base + offset) mod w32 in
        let length := length - 1 in
        let hash := (hash + cvt_char (nth (N.to_nat length) key 0)) mod w32 in
        hash_loop f key hash base (offset + 1) length
      else hash_loop f key hash base (offset + 1) length
    else Some hash
  end.
Definition c13_hash_raw (key : list N) : option N :=
  hash_loop (S (List.length key)) key 11 33 0 (N.of_nat (List.length key)).
Definition c13_hash (key : list N) : N :=
  match c13_hash_raw key with Some h => N.lor h 2147483648 | None => 0 end.

(* ================= the char instance ================= *)
Definition key := list N.
Fixpoint key_eqb (a b : key) : bool :=
  match a, b with
  | [], [] => true
  | x :: a', y :: b' => (x =? y) && key_eqb a' b'
  | _, _ => false
  end.
(* order of a signed char, as an order-preserving map into N (injective on all of N;
   code units >= 256 do not occur for Char_T = char) *)
Definition sbyte (u : N) : N := if u <? 128 then u + 128 else if u <? 256 then u - 128 else u + 128.
(* StringUtils::IsLess(..., orEqual = false) with the D3 fix: a proper prefix is less *)
Fixpoint key_ltb (a b : key) : bool :=
  match a, b with
  | [], [] => false
  | [], _ :: _ => true
  | _ :: _, [] => false
  | x :: a', y :: b' => if sbyte y <? sbyte x then false else if sbyte x <? sbyte y then true else key_ltb a' b'
  end.

Definition cht := ht key N.
Definition cop := op key N.
Definition c13_step : cop -> cht -> option (cht * out N) := step key_eqb key_ltb c13_hash [] 0.
Definition c13_sp_step := @sp_step key N key_eqb key_ltb 0.

(* ---- observations after a step (everything the correspondence run compares) ----
   groups of numbers:
     [out]                                  0 none | 1+b bool | 3+v value
     [ActualSize]
     [ki, v, ki, v, ...]                    GetKey(i)/GetValue(i) for i < Size, live slots only
     [has, v, rt] per table key             Has, *GetValue(key), key -> index -> key round trip
     [Size, idx+1 ...] per table key        only when `clean` (no removed slot can be present) *)
Definition obs := list (list N).
Fixpoint kindex (keys : list key) (k : key) : N :=
  match keys with [] => 0 | k' :: r => if key_eqb k' k then 0 else 1 + kindex r k end.
Definition enc_out (o : out N) : N :=
  match o with ONone => 0 | OBool b => if b then 2 else 1 | OVal v => 3 + v end.

Definition m_probe (s : cht) (k : key) : option (list N) :=
  match lookup key_eqb c13_hash [] 0 k s, get_key_index key_eqb c13_hash [] 0 k s with
  | Some r, Some gi =>
    let has := match r with Some _ => 1 | None => 0 end in
    let v := match r with Some i => ival (it [] 0 s i) | None => 0 end in
    let rt := match gi with
              | None => 0
              | Some i => match get_slot [] 0 i s, r with
                          | Some (k', v'), Some j => if key_eqb k' k && (v' =? v) && (Nat.eqb i j) then 1 else 2
                          | _, _ => 2
                          end
              end in
    Some [has; v; rt]
  | _, _ => None
  end.
Fixpoint m_probes (s : cht) (keys : list key) : option (list N) :=
  match keys with
  | [] => Some []
  | k :: r => match m_probe s k, m_probes s r with Some a, Some b => Some (a ++ b) | _, _ => None end
  end.
Fixpoint m_indices (s : cht) (keys : list key) : option (list N) :=
  match keys with
  | [] => Some []
  | k :: r => match get_key_index key_eqb c13_hash [] 0 k s, m_indices s r with
              | Some gi, Some b => Some (match gi with Some i => N.of_nat (S i) | None => 0 end :: b)
              | _, _ => None
              end
  end.
Definition flat_live (keys : list key) (l : list (key * N)) : list N :=
  flat_map (fun kv => [kindex keys (fst kv); snd kv]) l.
Definition m_slots (s : cht) : list (key * N) :=
  flat_map (fun i => match get_slot [] 0 i s with Some kv => [kv] | None => [] end) (seq 0 (size s)).
Definition m_obs (keys : list key) (o : out N) (clean : bool) (s : cht) : option obs :=
  match m_probes s keys, m_indices s keys with
  | Some p, Some ix =>
    Some [[enc_out o]; [N.of_nat (actual_size s)]; flat_live keys (m_slots s); p;
          if clean then N.of_nat (size s) :: ix else []]
  | _, _ => None
  end.

Definition s_obs (keys : list key) (o : out N) (clean : bool) (l : list (key * N)) : obs :=
  [[enc_out o]; [N.of_nat (length l)]; flat_live keys l;
   flat_map (fun k => match sp_get key_eqb l k with Some v => [1; v; 1] | None => [0; 0; 0] end) keys;
   if clean then N.of_nat (length l) :: map (fun k => match sp_index key_eqb l k with Some i => N.of_nat (S i) | None => 0 end) keys
   else []].

Definition fallback_clean (o : cop) : bool := match o with OResize _ => true | _ => false end.

(* model trace: the `clean` flag is the specification's (it only selects what is printed) *)
Fixpoint c13_model_trace (keys : list key) (ops : list cop) (s : cht) (st : list (key * N) * bool)
  : list (option obs) :=
  match ops with
  | [] => []
  | o :: r =>
    match c13_step o s with
    | None => [None]
    | Some (s', ou) =>
      (* clean flag: the specification's; where the specification is undefined the run
         continues from the model's own live list *)
      let st' := match c13_sp_step o st with
                 | Some (l', c', _) => (l', c')
                 | None => (live s', fallback_clean o)
                 end in
      m_obs keys ou (snd st') s' :: c13_model_trace keys r s' st'
    end
  end.

(* ---- the oracle: the implementation's observations judged by the specification ---- *)
Fixpoint list_eqb (a b : list N) : bool :=
  match a, b with [] , [] => true | x :: a', y :: b' => (x =? y) && list_eqb a' b' | _, _ => false end.
Fixpoint obs_eqb (a b : obs) : bool :=
  match a, b with [], [] => true | x :: a', y :: b' => list_eqb x y && obs_eqb a' b' | _, _ => false end.
Fixpoint unflat (keys : list key) (l : list N) : list (key * N) :=
  match l with
  | ki :: v :: r => (nth (N.to_nat ki) keys [], v) :: unflat keys r
  | _ => []
  end.
Fixpoint is_prefix (a b : list (key * N)) : bool :=
  match a, b with
  | [], _ => true
  | (k, v) :: a', (k', v') :: b' => key_eqb k k' && (v =? v') && is_prefix a' b'
  | _, _ => false
  end.
Fixpoint is_minus_one (a b : list (key * N)) : bool :=   (* a = b, or b with one entry deleted *)
  match a, b with
  | [], [] => true
  | [], [_] => true
  | (k, v) :: a', (k', v') :: b' =>
    if key_eqb k k' && (v =? v') then is_minus_one a' b' else
    (* the head of b was deleted: the rest must agree *)
    is_prefix a b' && Nat.eqb (length a) (length b')
  | _, _ => false
  end.
(* one step: Some st' when the observation is acceptable (st' = state to continue from) *)
Definition c13_oracle_step (keys : list key) (o : cop) (st : list (key * N) * bool) (ob : obs)
  : option (list (key * N) * bool) :=
  match c13_sp_step o st with
  | Some (l', c', ou) => if obs_eqb (s_obs keys ou c' l') ob then Some (l', c') else None
  | None =>
    (* positional operation on a state that may hold removed slots: the result must
       be a prefix (Resize) / the list with at most one entry deleted (RemoveIndex),
       all key lookups must agree with it, and the run continues from it *)
    match ob with
    | [_; _; fl; _; _] =>
      let l' := unflat keys fl in
      let okshape := match o with
                     | OResize n => is_prefix l' (fst st) && Nat.leb (length l') n
                     | ORemoveIndex _ => is_minus_one l' (fst st)
                     | _ => false
                     end in
      if okshape && obs_eqb (s_obs keys ONone (fallback_clean o) l') ob then Some (l', fallback_clean o) else None
    | _ => None
    end
  end.
Fixpoint c13_oracle (keys : list key) (ops : list cop) (st : list (key * N) * bool) (tr : list obs) : bool :=
  match ops, tr with
  | [], [] => true
  | o :: r, ob :: tr' =>
    match c13_oracle_step keys o st ob with Some st' => c13_oracle keys r st' tr' | None => false end
  | _, _ => false
  end.

(* hash case: the property-relevant fact is "never 0 / top bit set, 32 bit" *)
Definition c13_hash_ok (h : N) : bool := N.testbit h 31 && (h <? w32).
