(* LedgerProofsValue.v -- C16, phase 2: the ownership ledger of Value trees: counting lemmas, the heap,
   paths, and the two ways an operation touches the state ([apply_local], [apply_absorb]). *)
From Coq Require Import NArith List Arith Bool Lia.
From Qv Require Import SeqModel LedgerProofs LedgerValueModel.
Import ListNotations.

(* ---------- counting ---------- *)
Lemma cnt_app : forall x a b, cnt x (a ++ b) = cnt x a + cnt x b.
Proof. intros. unfold cnt. apply count_occ_app. Qed.
Lemma cnt_nil : forall x, cnt x [] = 0.
Proof. reflexivity. Qed.
Lemma cnt_cons : forall x a l, cnt x (a :: l) = b2n (a =? x) + cnt x l.
Proof.
  intros x a l. unfold cnt. cbn [count_occ]. destruct (Nat.eq_dec a x) as [->|Hne].
  - now rewrite Nat.eqb_refl.
  - destruct (Nat.eqb_spec a x); [contradiction|reflexivity].
Qed.
Lemma cnt_seq : forall x n a, cnt x (seq a n) = b2n ((a <=? x) && (x <? a + n)).
Proof.
  intros x n. induction n as [|n IH]; intros a.
  - cbn [seq]. rewrite cnt_nil. destruct (Nat.leb_spec a x); destruct (Nat.ltb_spec x (a + 0)); cbn; try reflexivity; lia.
  - cbn [seq]. rewrite cnt_cons, IH.
    destruct (Nat.eqb_spec a x); destruct (Nat.leb_spec (S a) x); destruct (Nat.ltb_spec x (S a + n));
      destruct (Nat.leb_spec a x); destruct (Nat.ltb_spec x (a + S n)); cbn; try reflexivity; lia.
Qed.
Lemma cnt_In : forall x l, In x l <-> 0 < cnt x l.
Proof. intros. unfold cnt. apply count_occ_In. Qed.
Lemma cnt_NoDup : forall l, NoDup l <-> forall x, cnt x l <= 1.
Proof. intros. unfold cnt. apply NoDup_count_occ. Qed.

Lemma cnt_flat_map_app : forall {T} (f : T -> list nat) x a b, cnt x (flat_map f (a ++ b)) = cnt x (flat_map f a) + cnt x (flat_map f b).
Proof. intros. now rewrite flat_map_app, cnt_app. Qed.

Lemma cnt_flat_map_replace : forall {T} (f : T -> list nat) x l k a a', nth_error l k = Some a ->
  cnt x (flat_map f (replace_nth l k a')) + cnt x (f a) = cnt x (f a') + cnt x (flat_map f l).
Proof.
  intros T f x l. induction l as [|b l IH]; intros k a a' H; destruct k as [|k]; cbn in H; try discriminate.
  - injection H as ->. cbn [replace_nth flat_map]. rewrite !cnt_app. lia.
  - cbn [replace_nth flat_map]. rewrite !cnt_app. specialize (IH k a a' H). lia.
Qed.

Lemma cnt_flat_map_filter : forall {T} (f : T -> list nat) (p : T -> bool) x l,
  cnt x (flat_map f l) = cnt x (flat_map f (filter p l)) + cnt x (flat_map f (filter (fun v => negb (p v)) l)).
Proof.
  intros T f p x l. induction l as [|a l IH]; [reflexivity|]. cbn [filter flat_map].
  destruct (p a); cbn [negb flat_map]; rewrite !cnt_app; lia.
Qed.

Lemma replace_nth_length : forall {T} (l : list T) k x, length (replace_nth l k x) = length l.
Proof. intros T l. induction l as [|a l IH]; intros [|k] x; cbn; auto. Qed.

(* ---------- induction on values ---------- *)
Lemma val_ind' : forall (P : val -> Prop),
  (forall t own kids, Forall P kids -> P (Node t own kids)) -> forall v, P v.
Proof.
  intros P H. fix IH 1. intros [t own kids]. apply H.
  induction kids as [|c r IHr]; constructor; [apply IH|exact IHr].
Qed.

(* a relabelled shape owns exactly the ids n .. n + (number of its blocks) - 1 *)
Lemma relabel_blocks : forall v n, fst (relabel n v) = n + length (blocks v) /\
  blocks (snd (relabel n v)) = seq n (length (blocks v)).
Proof.
  induction v as [t own kids IH] using val_ind'. intros n. cbn [relabel blocks].
  set (go := fix go (n : nat) (l : list val) : nat * list val :=
               match l with
               | [] => (n, [])
               | c :: r => let '(n1, c') := relabel n c in let '(n2, r') := go n1 r in (n2, c' :: r')
               end).
  assert (Hgo : forall n, fst (go n kids) = n + length (flat_map blocks kids) /\
                          flat_map blocks (snd (go n kids)) = seq n (length (flat_map blocks kids))).
  { clear own. induction kids as [|c r IHr]; intros m.
    - cbn. split; [lia|reflexivity].
    - inversion IH as [|? ? Hc Hr]; subst. cbn [go flat_map].
      destruct (relabel m c) as (n1, c') eqn:E1. destruct (go n1 r) as (n2, r') eqn:E2.
      destruct (Hc m) as (Hc1 & Hc2). rewrite E1 in Hc1, Hc2. cbn [fst snd] in *.
      destruct (IHr Hr n1) as (Hr1 & Hr2). rewrite E2 in Hr1, Hr2. cbn [fst snd] in *.
      cbn [fst snd flat_map]. rewrite app_length. split; [lia|]. rewrite Hc2, Hr2, Hc1. now rewrite <- seq_app. }
  destruct (go n kids) as (n1, kids') eqn:E. destruct (Hgo n) as (H1 & H2). rewrite E in H1, H2. cbn [fst snd] in *.
  cbn [fst snd blocks]. rewrite app_length. split; [lia|]. rewrite H2, H1. now rewrite <- seq_app.
Qed.

Lemma copy_of_blocks : forall n v, blocks (copy_of n v) = seq n (length (blocks (norm v))).
Proof. intros. unfold copy_of. apply relabel_blocks. Qed.

(* ---------- heap ---------- *)
Lemma valloc_cnt : forall h n, (forall x, nxt h <= x -> live h x = false) ->
  forall x, b2n (live (valloc_n h n) x) = b2n (live h x) + cnt x (seq (nxt h) n).
Proof.
  intros h n Hf x. cbn [valloc_n live]. rewrite cnt_seq.
  destruct ((nxt h <=? x) && (x <? nxt h + n)) eqn:E; cbn [orb b2n]; [|lia].
  apply andb_true_iff in E as (E1 & _). apply Nat.leb_le in E1. rewrite (Hf x E1). reflexivity.
Qed.

Lemma vfree_list_ok : forall l h, (forall x, cnt x l <= b2n (live h x)) ->
  exists h', vfree_list h l = Ok h' /\ nxt h' = nxt h /\ forall x, b2n (live h' x) + cnt x l = b2n (live h x).
Proof.
  induction l as [|b r IH]; intros h H.
  - exists h. split; [reflexivity|]. split; [reflexivity|]. intros x. rewrite cnt_nil. lia.
  - cbn [vfree_list]. unfold vfree. pose proof (H b) as Hb. rewrite cnt_cons, Nat.eqb_refl in Hb. cbn [b2n] in Hb.
    destruct (live h b) eqn:Eb; [|cbn in Hb; lia]. cbn [bind].
    assert (Hpre : forall x, cnt x r <= b2n (live (mkVH (fun x => if x =? b then false else live h x) (nxt h)) x)).
    { intros y. specialize (H y). rewrite cnt_cons in H. cbn [live]. rewrite (Nat.eqb_sym b y) in H.
      destruct (Nat.eqb_spec y b) as [Hyb|Hyb]; cbn [b2n] in *; [subst y; rewrite Eb in H; cbn in H; lia|lia]. }
    destruct (IH _ Hpre) as (h' & E & Hn & Hc).
    exists h'. split; [exact E|]. split; [exact Hn|]. intros y. specialize (Hc y). rewrite cnt_cons.
    cbn [live] in Hc. rewrite (Nat.eqb_sym b y). destruct (Nat.eqb_spec y b) as [Hyb|Hyb]; cbn [b2n] in *; [subst y; rewrite Eb; cbn; lia|lia].
Qed.

(* what a successful release means: every released block was live and is not afterwards *)
Lemma vfree_list_inv : forall l h h', vfree_list h l = Ok h' ->
  nxt h' = nxt h /\ forall x, b2n (live h' x) + cnt x l = b2n (live h x).
Proof.
  induction l as [|b r IH]; intros h h' H.
  - injection H as <-. split; [reflexivity|]. intros x. rewrite cnt_nil. lia.
  - cbn [vfree_list] in H. apply bind_ok in H as (h1 & E1 & H). unfold vfree in E1.
    destruct (live h b) eqn:Eb; [|discriminate]. injection E1 as <-.
    destruct (IH _ _ H) as (Hn & Hc). split; [exact Hn|]. intros x. specialize (Hc x). cbn [live] in Hc.
    rewrite cnt_cons, (Nat.eqb_sym b x). destruct (Nat.eqb_spec x b) as [Hxb|Hxb]; cbn [b2n] in *; [subst x; rewrite Eb; cbn; lia|lia].
Qed.

Lemma check_live_ok : forall l h, (forall x, In x l -> live h x = true) -> check_live h l = Ok tt.
Proof.
  induction l as [|b r IH]; intros h H; [reflexivity|]. cbn [check_live]. rewrite (H b) by (left; reflexivity).
  apply IH. intros x Hx. apply H. now right.
Qed.

(* ---------- paths ---------- *)
Lemma vset_cnt : forall p v c, vget v p = Some c ->
  forall y x, cnt x (blocks (vset v p y)) + cnt x (blocks c) = cnt x (blocks y) + cnt x (blocks v).
Proof.
  induction p as [|k r IH]; intros v c H y x.
  - injection H as <-. cbn [vset]. lia.
  - cbn [vget vset] in *. destruct (nth_error (vkids v) k) as [ck|] eqn:E; [|discriminate].
    destruct v as [t own kids]. cbn [vkids vtag vown blocks] in *. rewrite !cnt_app.
    pose proof (cnt_flat_map_replace blocks x kids k ck (vset ck r y) E) as H1.
    specialize (IH ck c H y x). lia.
Qed.

Lemma vget_cnt_le : forall p v c, vget v p = Some c -> forall x, cnt x (blocks c) <= cnt x (blocks v).
Proof. intros p v c H x. pose proof (vset_cnt p v c H undef x) as H1. cbn [blocks undef flat_map app] in H1. rewrite cnt_nil in H1. lia. Qed.

Lemma vset_top_length : forall p v y, p <> [] -> length (vkids (vset v p y)) = length (vkids v).
Proof.
  intros [|k r] v y Hp; [contradiction|]. cbn [vset]. destruct (nth_error (vkids v) k); [|reflexivity].
  cbn [vkids]. apply replace_nth_length.
Qed.

Lemma vpos_nonempty : forall root p, vpos root p = true -> p <> [].
Proof. intros root [|a p] H; [discriminate|discriminate]. Qed.

(* ---------- the ledger ---------- *)
Lemma vledger_NoDup : forall st, vledger st -> NoDup (blocks (snd st)).
Proof. intros st (Hc & _). apply cnt_NoDup. intros x. rewrite Hc. destruct (live (fst st) x); cbn; lia. Qed.

Lemma vledger_live_iff : forall st x, vledger st -> (live (fst st) x = true <-> In x (blocks (snd st))).
Proof.
  intros st x (Hc & _). rewrite cnt_In, Hc. destruct (live (fst st) x); cbn; split; intros; try lia; try reflexivity; discriminate.
Qed.

Definition local_ok (f : local) : Prop := forall n c c' k rem, f n c = (c', k, rem) ->
  forall x, cnt x (blocks c') + cnt x rem = cnt x (blocks c) + cnt x (seq n k).

Definition absorb_ok (g : absorb) : Prop := forall sub n c c' k rem, g sub n c = (c', k, rem) ->
  forall x, cnt x (blocks c') + cnt x rem = cnt x (blocks c) + cnt x (blocks sub) + cnt x (seq n k).

(* the common end of both: the node at p of root1 becomes c'; rem is released, k fresh blocks are used *)
Lemma finish_ledger : forall (h : vheap) root root1 p c c' k rem (extra : list nat),
  vledger (h, root) -> vget root1 p = Some c ->
  (forall x, cnt x (blocks root1) + cnt x extra = cnt x (blocks root)) ->
  (forall x, cnt x (blocks c') + cnt x rem = cnt x (blocks c) + cnt x extra + cnt x (seq (nxt h) k)) ->
  exists h2, vfree_list (valloc_n h k) rem = Ok h2 /\ vledger (h2, vset root1 p c').
Proof.
  intros h root root1 p c c' k rem extra (Hc & Hf) Hg Hr1 Hok. cbn [fst snd] in *.
  pose proof (valloc_cnt h k Hf) as Ha.
  assert (Hpre : forall x, cnt x rem <= b2n (live (valloc_n h k) x)).
  { intros x. rewrite Ha. specialize (Hok x). specialize (Hr1 x). specialize (Hc x).
    pose proof (vget_cnt_le p root1 c Hg x). lia. }
  destruct (vfree_list_ok rem (valloc_n h k) Hpre) as (h2 & E & Hn & Hfr).
  exists h2. split; [exact E|]. split; cbn [fst snd].
  - intros x. pose proof (vset_cnt p root1 c Hg c' x). specialize (Hok x). specialize (Hr1 x). specialize (Hc x).
    specialize (Hfr x). rewrite Ha in Hfr. lia.
  - intros x Hx. rewrite Hn in Hx. cbn [valloc_n nxt] in Hx. specialize (Hfr x). rewrite Ha in Hfr.
    rewrite (Hf x) in Hfr by lia. rewrite cnt_seq in Hfr.
    destruct (Nat.ltb_spec x (nxt h + k)); [lia|]. rewrite andb_false_r in Hfr. cbn [b2n] in Hfr.
    destruct (live h2 x); [cbn in Hfr; lia|reflexivity].
Qed.

Theorem apply_local_ledger : forall st p reads f, vledger st -> local_ok f ->
  (forall x, In x reads -> In x (blocks (snd st))) ->
  exists st', apply_local st p reads f = Ok st' /\ vledger st' /\ length (vkids (snd st')) = length (vkids (snd st)).
Proof.
  intros (h, root) p reads f Hl Hok Hreads. unfold apply_local. cbn [snd] in *.
  destruct (vpos root p) eqn:Ep; [|exists (h, root); auto].
  destruct (vget root p) as [c|] eqn:Eg; [|exists (h, root); auto].
  rewrite (check_live_ok reads h). 2:{ intros x Hx. apply (vledger_live_iff (h, root) x Hl). now apply Hreads. }
  cbn [bind]. destruct (f (nxt h) c) as ((c', k), rem) eqn:Ef.
  destruct (finish_ledger h root root p c c' k rem [] Hl Eg) as (h2 & E & Hl2).
  - intros x. rewrite cnt_nil. lia.
  - intros x. rewrite cnt_nil. pose proof (Hok _ _ _ _ _ Ef x). lia.
  - rewrite E. cbn [bind]. eexists. split; [reflexivity|]. split; [assumption|]. cbn [snd].
    apply vset_top_length. now apply (vpos_nonempty root).
Qed.

Theorem apply_absorb_ledger : forall st d s g, vledger st -> absorb_ok g ->
  exists st', apply_absorb st d s g = Ok st' /\ vledger st' /\ length (vkids (snd st')) = length (vkids (snd st)).
Proof.
  intros (h, root) d s g Hl Hok. unfold apply_absorb. cbn [snd] in *.
  destruct (vpos root d && vpos root s) eqn:Ep; [|exists (h, root); auto].
  apply andb_true_iff in Ep as (Epd & Eps).
  destruct (vget root s) as [sub|] eqn:Es; [|exists (h, root); auto].
  rewrite (check_live_ok (vown sub) h).
  2:{ intros x Hx. apply (vledger_live_iff (h, root) x Hl). cbn [snd]. apply cnt_In.
      pose proof (vget_cnt_le s root sub Es x). destruct sub as [t own kids]. cbn [vown blocks] in *. rewrite cnt_app in H.
      apply cnt_In in Hx. lia. }
  cbn [bind]. destruct (vget (vset root s undef) d) as [c|] eqn:Ed; [|exists (h, root); auto].
  destruct (g sub (nxt h) c) as ((c', k), rem) eqn:Eg.
  destruct (finish_ledger h root (vset root s undef) d c c' k rem (blocks sub) Hl Ed) as (h2 & E & Hl2).
  - intros x. pose proof (vset_cnt s root sub Es undef x) as H1. cbn [blocks undef flat_map app] in H1. rewrite cnt_nil in H1. lia.
  - intros x. pose proof (Hok _ _ _ _ _ _ Eg x). lia.
  - rewrite E. cbn [bind]. eexists. split; [reflexivity|]. split; [assumption|]. cbn [snd].
    rewrite (vset_top_length d _ c' (vpos_nonempty root d Epd)). apply (vset_top_length s _ undef (vpos_nonempty root s Eps)).
Qed.
