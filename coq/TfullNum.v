(* TfullNum.v -- the number scanner of the parser model (Digit::StringToNumber, DigitModel.v) on the decimal text
   TmplModel.dec of a natural below 10^19: kind Natural, the value, all units consumed. *)
From Coq Require Import NArith ZArith List Bool Arith Lia ZifyBool ZifyNat ZifyN.
From Qv Require Import gen.Tables_digit DigitModel DigitProofsInt DigitProofsParse TmplModel TparseModel TfullExpr.
Import ListNotations.

Definition stepf (a c : N) : N := (a * 10 + (c - 48))%N.

Lemma dec_go_val : forall k n acc, (n < 10 ^ N.of_nat (S k))%N ->
  exists s, dec_go (S k) n acc = s ++ acc /\ s <> [] /\ forallb isdig s = true /\
    (forall a, fold_left stepf s a = a * 10 ^ N.of_nat (length s) + n)%N /\
    ((0 < n)%N -> (48 < hd 0%N s)%N /\ (10 ^ N.of_nat (length s - 1) <= n)%N).
Proof.
  intros k; induction k as [|k IH]; intros n acc Hn.
  - rewrite dec_go_S. change (10 ^ N.of_nat 1)%N with 10%N in Hn. destruct (N.ltb_spec n 10) as [_|X]; [|lia].
    exists [(48 + n)%N]. split; [reflexivity|]. split; [discriminate|]. split; [cbn [forallb]; unfold isdig; lia|].
    split; [intros a; cbn [fold_left length]; unfold stepf; change (10 ^ N.of_nat 1)%N with 10%N; lia|].
    intros Hp. cbn [hd length Nat.sub]. change (10 ^ N.of_nat 0)%N with 1%N. lia.
  - rewrite dec_go_S. destruct (N.ltb_spec n 10) as [H10|H10].
    + exists [(48 + n)%N]. split; [reflexivity|]. split; [discriminate|]. split; [cbn [forallb]; unfold isdig; lia|].
      split; [intros a; cbn [fold_left length]; unfold stepf; change (10 ^ N.of_nat 1)%N with 10%N; lia|].
      intros Hp. cbn [hd length Nat.sub]. change (10 ^ N.of_nat 0)%N with 1%N. lia.
    + assert (Hd : (n / 10 < 10 ^ N.of_nat (S k))%N).
      { apply N.div_lt_upper_bound; [lia|]. replace (N.of_nat (S (S k))) with (N.succ (N.of_nat (S k))) in Hn by lia.
        rewrite N.pow_succ_r' in Hn. exact Hn. }
      destruct (IH (n / 10)%N ((48 + n mod 10)%N :: acc) Hd) as (s & E & Hne & Hdg & Hv & Hh).
      assert (Hm : (n mod 10 < 10)%N) by (apply N.mod_lt; lia).
      assert (Hq : (0 < n / 10)%N) by (apply N.div_str_pos; lia).
      destruct (Hh Hq) as [Hh1 Hh2].
      exists (s ++ [(48 + n mod 10)%N]). split; [rewrite E, <- app_assoc; reflexivity|]. split; [destruct s; discriminate|].
      split; [rewrite forallb_app, Hdg; cbn [forallb]; unfold isdig; lia|].
      split.
      * intros a. rewrite fold_left_app, Hv. cbn [fold_left]. unfold stepf. rewrite app_length. cbn [length].
        replace (N.of_nat (length s + 1)) with (N.succ (N.of_nat (length s))) by lia. rewrite N.pow_succ_r'.
        pose proof (N.div_mod n 10 ltac:(lia)). lia.
      * intros _. split; [destruct s; [contradiction|exact Hh1]|].
        rewrite app_length. cbn [length]. replace (length s + 1 - 1) with (S (length s - 1)) by (destruct s; [contradiction|cbn; lia]).
        replace (N.of_nat (S (length s - 1))) with (N.succ (N.of_nat (length s - 1))) by lia. rewrite N.pow_succ_r'.
        pose proof (N.div_mod n 10 ltac:(lia)). lia.
Qed.

Lemma numf_digit_dec : forall n, (n < 10000000000000000000)%N -> numf_digit (dec n) = (qn_natural, n, length (dec n)).
Proof.
  intros n Hn. destruct (N.eq_dec n 0) as [->|Hn0]; [vm_compute; reflexivity|].
  unfold dec.
  destruct (dec_go_val (N.to_nat (N.size n)) n []) as (s & E & Hne & Hdg & Hv & Hh).
  - replace (N.of_nat (S (N.to_nat (N.size n)))) with (N.succ (N.size n)) by lia.
    destruct n as [|p]; [contradiction|]. pose proof (N.size_gt (N.pos p)) as H1.
    assert (H2 : (2 ^ N.size (N.pos p) <= 10 ^ N.size (N.pos p))%N) by (apply N.pow_le_mono_l; lia).
    assert (H3 : (10 ^ N.size (N.pos p) <= 10 ^ N.succ (N.size (N.pos p)))%N) by (apply N.pow_le_mono_r; lia).
    lia.
  - rewrite E, app_nil_r. destruct (Hh ltac:(lia)) as [Hh1 Hh2].
    destruct s as [|d ds]; [contradiction|]. cbn [hd length] in *. cbn [forallb] in Hdg. apply andb_prop in Hdg. destruct Hdg as [Hd Hds].
    assert (Hlen : length ds <= 18).
    { destruct (Nat.le_gt_cases (length ds) 18) as [L|L]; [exact L|exfalso].
      assert (H19 : (10 ^ 19 <= 10 ^ N.of_nat (S (length ds) - 1))%N) by (apply N.pow_le_mono_r; lia).
      change (10 ^ 19)%N with 10000000000000000000%N in H19. lia. }
    unfold numf_digit.
    replace (d :: ds) with (d :: ds ++ []) by (rewrite app_nil_r; reflexivity).
    rewrite (stn_unsigned_int d ds []); [| | |exact I|exact Hlen].
    + cbn [p_kind p_bits p_off]. rewrite ?app_nil_r. f_equal; [f_equal|cbn [length]; lia].
      unfold dval. change (fun a c : N => (a * 10 + (c - 48))%N) with stepf. rewrite Hv. lia.
    + unfold is_nz_digit, ch_zero, ch_nine. unfold isdig in Hd. lia.
    + apply Forall_forall. intros c Hc. rewrite forallb_forall in Hds. specialize (Hds c Hc). unfold isdig in Hds. unfold dig. lia.
Qed.
