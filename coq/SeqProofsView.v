(* SeqProofsView.v -- C14: StringView operations (non-owning pointer + length over
   caller-owned buffers that stay allocated) refine the list specification. *)
From Coq Require Import NArith List Arith Bool Lia.
From Qv Require Import SeqModel SeqLists SeqProofs SeqProofsArray SeqProofsUnits SeqProofsStream.
Import ListNotations.

Definition views (h : hN) (o : obj) (l : list N) : Prop :=
  match blk o with
  | None => size o = 0 /\ l = []
  | Some b => exists c, cells_of h b = Some c /\ size o <= length c /\ l = firstn (size o) c
  end.

Definition vinv (w : wN) (s : nat -> list N) : Prop :=
  hwf (hp w) /\ forall k, views (hp w) (ob w k) (s k).

Lemma views_read : forall (h : hN) o l, views h o l -> rd_range h (blk o) 0 (size o) = Ok l /\ length l = size o.
Proof.
  intros h o l. unfold views. destruct (blk o) as [b|].
  - intros (c & Hc & Hs & ->). rewrite (rd_range_ok h b c 0 (size o) Hc) by lia. cbn [skipn].
    split; [reflexivity|]. rewrite firstn_length. lia.
  - intros (-> & ->). split; reflexivity.
Qed.

Lemma views_to : forall (h h' : hN) o l, hwf h -> views h o l ->
  (forall b, b < next h -> cells_of h' b = cells_of h b) -> views h' o l.
Proof.
  intros h h' o l Hw. unfold views. destruct (blk o) as [b|]; [|auto].
  intros (c & Hc & R) Hfr. exists c. rewrite Hfr by (exact (live_lt _ _ _ Hw Hc)). auto.
Qed.

Lemma vinv_new : forall (w : wN) s i (buf : list N) n s', vinv w s -> n <= length buf ->
  s' i = firstn n buf -> (forall k, k <> i -> s' k = s k) ->
  exists h2, wr_range (halloc junkN (hp w) (length buf)) (Some (next (hp w))) 0 buf = Ok h2 /\
             vinv (mkW h2 (upd (ob w) i (mkObj (Some (next (hp w))) n 0))) s'.
Proof.
  intros w s i buf n s' (Hwf & Hv) Hn Hsi Hsk.
  destruct (fresh_fill junkN (hp w) (length buf) buf Hwf (le_n _)) as (h2 & Hwr & Hwf2 & Hn2 & Hfr2 & Hown2).
  exists h2. split; [assumption|]. split; [assumption|]. intros k. cbn [hp ob].
  destruct (Nat.eq_dec k i) as [->|Hk].
  - rewrite upd_same, Hsi. unfold views. cbn [blk size]. unfold owns in Hown2. cbn [blk size cap] in Hown2.
    destruct Hown2 as (c & Hc & Hl & _ & Hbuf). exists c. split; [assumption|]. split; [lia|].
    rewrite Hbuf at 1. rewrite firstn_firstn. f_equal. lia.
  - rewrite upd_other, Hsk by assumption. apply views_to with (h := hp w); auto. intros b Hb. apply Hfr2. lia.
Qed.

Lemma v_eq_ext_ok : forall (w : wN) s i l len (buf : list N), vinv w s ->
  len <= length buf -> firstn len buf = l -> length l = len ->
  t_eq_ext w i buf len = Ok (list_eqb (s i) l).
Proof.
  intros w s i l len buf (_ & Hv) Hlb Hl Hll. unfold t_eq_ext.
  destruct (views_read _ _ _ (Hv i)) as (Hrd & Hlen).
  destruct (Nat.eqb_spec (size (ob w i)) len) as [E|E].
  - rewrite <- E. rewrite Hrd. cbn [bind]. now rewrite E, Hl.
  - rewrite list_eqb_len by lia. reflexivity.
Qed.

Definition vrun := run vstep.
Definition vspec_run := spec_run vspec.

Theorem vstep_refines : forall (w : wN) s op, vinv w s ->
  exists w', vstep w op = Ok (w', snd (vspec s op)) /\ vinv w' (fst (vspec s op)).
Proof.
  intros w s op Hinv. pose proof Hinv as (Hwf & Hv).
  destruct op as [i l|i l|i j|i j|i|i j|i l|i l|i|i|i]; cbn [vstep vspec fst snd].
  - (* VNew *)
    rewrite alloc_eq.
    destruct (vinv_new w s i l (length l) (upd s i l) Hinv (le_n _)) as (h2 & Hwr & Hinv2).
    { rewrite upd_same. symmetry. apply firstn_all. }
    { intros k Hk. now apply upd_other. }
    rewrite Hwr. cbn [bind]. eauto.
  - (* VNewCstr *)
    rewrite alloc_eq. pose proof (cstr_len_le l) as Hcl.
    destruct (vinv_new w s i (l ++ [0%N]) (cstr_len l) (upd s i (firstn (cstr_len l) l)) Hinv
                ltac:(rewrite app_length; lia)) as (h2 & Hwr & Hinv2).
    { rewrite upd_same. symmetry. apply firstn_cstr_app. }
    { intros k Hk. now apply upd_other. }
    rewrite app_length in Hwr. cbn [length] in Hwr. rewrite Hwr. cbn [bind]. eauto.
  - (* VCopy *)
    eexists. split; [reflexivity|]. split; [exact Hwf|]. intros k. cbn [hp ob].
    destruct (Nat.eq_dec k i) as [->|Hk]; [rewrite !upd_same; apply Hv | rewrite !upd_other by assumption; apply Hv].
  - (* VMove *)
    destruct (Nat.eqb_spec i j) as [->|Hij]; [eauto|].
    eexists. split; [reflexivity|]. split; [exact Hwf|]. intros k. cbn [hp ob].
    destruct (Nat.eq_dec k j) as [->|Hkj].
    + rewrite !upd_same. cbn. auto.
    + rewrite (upd_other _ _ j) by assumption. rewrite (upd_other _ _ j) by assumption.
      destruct (Nat.eq_dec k i) as [->|Hk]; [rewrite !upd_same; apply Hv | rewrite !upd_other by assumption; apply Hv].
  - (* VReset *)
    eexists. split; [reflexivity|]. split; [exact Hwf|]. intros k. cbn [hp ob].
    destruct (Nat.eq_dec k i) as [->|Hk]; [rewrite !upd_same; cbn; auto | rewrite !upd_other by assumption; apply Hv].
  - (* VEqObj *)
    destruct (views_read _ _ _ (Hv i)) as (Hri & Hli). destruct (views_read _ _ _ (Hv j)) as (Hrj & Hlj).
    destruct (Nat.eqb_spec (size (ob w i)) (size (ob w j))) as [E|E].
    + rewrite Hri. cbn [bind]. rewrite E, Hrj. cbn [bind]. eauto.
    + rewrite list_eqb_len by lia. eauto.
  - (* VEqCstr *)
    pose proof (cstr_len_le l) as Hcl.
    rewrite (v_eq_ext_ok w s i (firstn (cstr_len l) l) (cstr_len l) (l ++ [0%N]) Hinv
               ltac:(rewrite app_length; lia) (firstn_cstr_app _ _) (firstn_cstr_length _)). cbn [bind]. eauto.
  - (* VIsEqual *)
    rewrite (v_eq_ext_ok w s i l (length l) l Hinv (le_n _) (firstn_all _) eq_refl). cbn [bind]. eauto.
  - (* VIter *)
    destruct (views_read _ _ _ (Hv i)) as (Hrd & _). rewrite Hrd. cbn [bind]. eauto.
  - (* VStreamOut *)
    destruct (views_read _ _ _ (Hv i)) as (Hrd & _). rewrite Hrd. cbn [bind]. eauto.
  - (* VIsEmpty *)
    destruct (views_read _ _ _ (Hv i)) as (_ & Hlen). rewrite Hlen. eauto.
Qed.

Lemma vinv0 : vinv world0 spec0.
Proof. split; [intros b _; reflexivity|]. intros k. cbn. auto. Qed.

Theorem vrun_refines : forall ops (w : wN) s, vinv w s ->
  exists w', vrun ops w = Ok (w', snd (vspec_run ops s)) /\ vinv w' (fst (vspec_run ops s)).
Proof.
  induction ops as [|op ops IH]; intros w s Hinv.
  - cbn. eauto.
  - destruct (vstep_refines w s op Hinv) as (w1 & Hs & Hinv1).
    destruct (IH w1 _ Hinv1) as (w2 & Hr & Hinv2).
    unfold vrun, vspec_run in *. cbn [run spec_run]. rewrite Hs. cbn [bind fst snd]. rewrite Hr. cbn [bind fst snd].
    eauto.
Qed.

Lemma vinv_dump : forall (w : wN) s k, vinv w s -> dump w k = Ok (s k).
Proof. intros w s k (_ & Hv). unfold dump. now destruct (views_read _ _ _ (Hv k)). Qed.
