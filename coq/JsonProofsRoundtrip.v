(* JsonProofsRoundtrip.v -- C08: Stringify then Parse returns the normalised tree.
   [vtext v] is the text Value::Stringify writes for [v] (proved: str_value v st = st ++ vtext v,
   which contains the soundness of the last-comma patch); [Val w (vtext v ++ rest) (normalize v) rest]
   by induction on the tree, with the string round trip (JsonProofsWrite) and integer exactness
   (JsonProofsInt + the digit component's u64_to_string_decimal) as ingredients.  Reals carry the text
   NumberToString emitted and are assumed to be real numerals ([real_numeral]). *)
From Coq Require Import NArith ZArith List Bool Lia.
From Qv Require Import gen.Tables_json JsonModel JsonSpec JsonProofsBase JsonProofsStr JsonProofsNum JsonProofsParse
  JsonProofsComplete JsonProofsDoc JsonProofsInt JsonProofsWrite.
From Qv Require DigitModel DigitProofsInt.
Import ListNotations.
Local Open Scope N_scope.

(* ---------------- the text ---------------- *)
Definition kw_text (lit : list N) (len : N) : list N := firstn (N.to_nat len) lit.

Fixpoint vtext (v : vt) : list N :=
  match v with
  | VObj ms =>
    close_with jc_ecurly
      (jc_scurly ::
       (fix mt (ms : list (list N * vt)) : list N :=
          match ms with
          | [] => []
          | (k, x) :: t => if v_undef x then mt t else ([jc_quote] ++ escape_json k ++ [jc_quote; jc_colon]) ++ vtext x ++ [jc_comma] ++ mt t
          end) ms)
  | VArr xs =>
    close_with jc_esquare
      (jc_ssquare ::
       (fix it (xs : list vt) : list N :=
          match xs with
          | [] => []
          | x :: t => if v_undef x then it t else vtext x ++ [jc_comma] ++ it t
          end) xs)
  | VStr s => [jc_quote] ++ escape_json s ++ [jc_quote]
  | VNat n => dec n
  | VInt z => dec_z z
  | VReal txt => txt
  | VFalse => kw_text jc_false_lit jc_false_len
  | VTrue => kw_text jc_true_lit jc_true_len
  | VNull => kw_text jc_null_lit jc_null_len
  | VPtr p => vtext p
  | VUndef => []
  end.

Definition mtext := fix mt (ms : list (list N * vt)) : list N :=
  match ms with
  | [] => []
  | (k, x) :: t => if v_undef x then mt t else ([jc_quote] ++ escape_json k ++ [jc_quote; jc_colon]) ++ vtext x ++ [jc_comma] ++ mt t
  end.
Definition itext := fix it (xs : list vt) : list N :=
  match xs with
  | [] => []
  | x :: t => if v_undef x then it t else vtext x ++ [jc_comma] ++ it t
  end.

Lemma close_with_app : forall c st l, l <> [] -> close_with c (st ++ l) = st ++ close_with c l.
Proof.
  intros c st l Hl. unfold close_with. rewrite rev_app_distr.
  destruct (rev l) as [|x pre] eqn:E.
  - apply (f_equal (@rev N)) in E. rewrite rev_involutive in E. cbn in E. congruence.
  - cbn [app]. destruct (x =? jc_comma).
    + rewrite rev_app_distr, rev_involutive, <- app_assoc. reflexivity.
    + rewrite <- app_assoc. reflexivity.
Qed.

Fixpoint tsize (v : vt) : nat :=
  match v with
  | VArr xs => S ((fix go (l : list vt) : nat := match l with [] => O | x :: t => (tsize x + go t)%nat end) xs)
  | VObj ms => S ((fix go (l : list (list N * vt)) : nat := match l with [] => O | (_, x) :: t => (tsize x + go t)%nat end) ms)
  | VPtr p => S (tsize p)
  | _ => 1%nat
  end.

(* the writer appends exactly [vtext v] *)
Lemma str_value_text : forall n v, (tsize v < n)%nat -> forall st, str_value v st = st ++ vtext v.
Proof.
  induction n as [|n IH]; intros v Hn st; [lia|].
  destruct v as [| | | |x|z|txt|s|xs|ms|p]; cbn [str_value vtext]; try reflexivity; try (rewrite app_nil_r; reflexivity).
  - (* array *)
    fold itext. cbn [tsize] in Hn.
    assert (Hit : forall xs st0,
       ((fix go (l : list vt) : nat := match l with [] => O | x :: t => (tsize x + go t)%nat end) xs < n)%nat ->
       (fix items (xs0 : list vt) (st1 : list N) {struct xs0} : list N :=
          match xs0 with
          | [] => st1
          | x :: t => if v_undef x then items t st1 else items t (str_value x st1 ++ [jc_comma])
          end) xs st0 = st0 ++ itext xs).
    { induction xs0 as [|x t IHt]; intros st0 Hs; cbn [itext]; [rewrite app_nil_r; reflexivity|].
      destruct (v_undef x); [apply IHt; lia|].
      rewrite IHt by lia. rewrite IH by lia. rewrite <- !app_assoc. reflexivity. }
    rewrite Hit by lia.
    rewrite <- app_assoc. cbn [app]. apply close_with_app. discriminate.
  - (* object *)
    fold mtext. cbn [tsize] in Hn.
    assert (Hmt : forall ms0 st0,
       ((fix go (l : list (list N * vt)) : nat := match l with [] => O | (_, x) :: t => (tsize x + go t)%nat end) ms0 < n)%nat ->
       (fix members (ms1 : list (list N * vt)) (st1 : list N) {struct ms1} : list N :=
          match ms1 with
          | [] => st1
          | (k, x) :: t =>
            if v_undef x then members t st1
            else members t (str_value x (st1 ++ [jc_quote] ++ escape_json k ++ [jc_quote; jc_colon]) ++ [jc_comma])
          end) ms0 st0 = st0 ++ mtext ms0).
    { induction ms0 as [|[k x] t IHt]; intros st0 Hs; cbn [mtext]; [rewrite app_nil_r; reflexivity|].
      destruct (v_undef x); [apply IHt; lia|].
      rewrite IHt by lia. rewrite IH by lia. rewrite <- !app_assoc. reflexivity. }
    rewrite Hmt by lia.
    rewrite <- app_assoc. cbn [app]. apply close_with_app. discriminate.
  - (* pointer *) apply IH. cbn [tsize] in Hn. lia.
Qed.

Theorem stringify_text : forall v, stringify v = match v with VObj _ | VArr _ => vtext v | _ => stringify v end.
Proof. intros v. destruct v; try reflexivity; cbn [stringify]; rewrite (str_value_text (S (tsize _)) _ (Nat.lt_succ_diag_r _)); reflexivity. Qed.

(* ---------------- the last-comma patch ---------------- *)
Fixpoint jt (l : list (list N)) : list N :=
  match l with
  | [] => []
  | [t] => t
  | t :: l' => t ++ jc_comma :: jt l'
  end.

Lemma flat_comma : forall l, l <> [] -> flat_map (fun t => t ++ [jc_comma]) l = jt l ++ [jc_comma].
Proof.
  induction l as [|t l IH]; intros H; [congruence|]. cbn [flat_map jt].
  destruct l as [|t2 l]; [cbn; rewrite app_nil_r; reflexivity|].
  rewrite IH by discriminate. rewrite <- !app_assoc. reflexivity.
Qed.

Lemma close_with_snoc_comma : forall c l, close_with c (l ++ [jc_comma]) = l ++ [c].
Proof. intros c l. unfold close_with. rewrite rev_app_distr. cbn [rev app]. change (jc_comma =? jc_comma) with true. cbn iota. rewrite rev_involutive. reflexivity. Qed.

Definition live (xs : list vt) : list vt := filter (fun x => negb (v_undef x)) xs.
Definition livem (ms : list (list N * vt)) : list (list N * vt) := filter (fun kv => negb (v_undef (snd kv))) ms.

Lemma itext_flat : forall xs, itext xs = flat_map (fun t => t ++ [jc_comma]) (map vtext (live xs)).
Proof.
  induction xs as [|x t IH]; [reflexivity|]. cbn [itext live filter]. fold (live t).
  destruct (v_undef x); cbn [negb]; [exact IH|]. cbn [map flat_map]. rewrite IH. rewrite <- app_assoc. reflexivity.
Qed.

Definition member_text1 (kv : list N * vt) : list N :=
  [jc_quote] ++ escape_json (fst kv) ++ [jc_quote; jc_colon] ++ vtext (snd kv).

Lemma mtext_flat : forall ms, mtext ms = flat_map (fun t => t ++ [jc_comma]) (map member_text1 (livem ms)).
Proof.
  induction ms as [|[k x] t IH]; [reflexivity|]. cbn [mtext livem filter snd]. fold (livem t).
  destruct (v_undef x); cbn [negb]; [exact IH|]. cbn [map flat_map]. rewrite IH.
  unfold member_text1. cbn [fst snd]. rewrite <- !app_assoc. reflexivity.
Qed.

(* the unit in front of a closing bracket is a comma exactly when this container wrote a member:
   the text of a container is  open ++ members joined by commas ++ close *)
Theorem arr_text : forall xs, vtext (VArr xs) = jc_ssquare :: jt (map vtext (live xs)) ++ [jc_esquare].
Proof.
  intros xs. cbn [vtext]. fold itext. rewrite itext_flat.
  destruct (map vtext (live xs)) as [|t l] eqn:E; [reflexivity|].
  rewrite flat_comma by discriminate.
  change (jc_ssquare :: jt (t :: l) ++ [jc_comma]) with ((jc_ssquare :: jt (t :: l)) ++ [jc_comma]).
  apply close_with_snoc_comma.
Qed.

Theorem obj_text : forall ms, vtext (VObj ms) = jc_scurly :: jt (map member_text1 (livem ms)) ++ [jc_ecurly].
Proof.
  intros ms. cbn [vtext]. fold mtext. rewrite mtext_flat.
  destruct (map member_text1 (livem ms)) as [|t l] eqn:E; [reflexivity|].
  rewrite flat_comma by discriminate.
  change (jc_scurly :: jt (t :: l) ++ [jc_comma]) with ((jc_scurly :: jt (t :: l)) ++ [jc_comma]).
  apply close_with_snoc_comma.
Qed.

(* ---------------- well-formed trees ---------------- *)
Fixpoint twf (v : vt) : Prop :=
  match v with
  | VUndef => False
  | VNull | VTrue | VFalse | VStr _ => True
  | VNat n => n < 18446744073709551616
  | VInt z => (- 9223372036854775808 <= z < 9223372036854775808)%Z
  | VReal txt => real_numeral txt
  | VArr xs => (fix go (l : list vt) : Prop := match l with [] => True | x :: t => (v_undef x = true \/ twf x) /\ go t end) xs
  | VObj ms =>
    (fix go (l : list (list N * vt)) : Prop := match l with [] => True | (_, x) :: t => (v_undef x = true \/ twf x) /\ go t end) ms
    /\ NoDup (map fst (livem ms))
  | VPtr p => twf p
  end.

Fixpoint tcontainer (v : vt) : bool :=
  match v with VObj _ | VArr _ => true | VPtr p => tcontainer p | _ => false end.

Section RT.
Variable w : N.

Definition tprop (txt : list N) (v : jv) : Prop :=
  forall rest, num_follow rest = true -> Val w (txt ++ rest) v rest.

Lemma follow_comma : forall r, num_follow (jc_comma :: r) = true.
Proof. reflexivity. Qed.
Lemma follow_esq : forall r, num_follow (jc_esquare :: r) = true.
Proof. reflexivity. Qed.
Lemma follow_ecu : forall r, num_follow (jc_ecurly :: r) = true.
Proof. reflexivity. Qed.

Lemma trim_id_val : forall r v r', Val w r v r' -> trim r = r.
Proof. intros r v r' H. destruct (val_head_nonws _ _ _ _ H) as (c & t & E & Hc). subst r. apply trim_nonws. assumption. Qed.

(* elements joined by commas, then the closing bracket *)
Lemma elems_joined : forall l, l <> [] -> Forall (fun p => tprop (fst p) (snd p)) l ->
  forall acc rest, Elems w (jt (map fst l) ++ jc_esquare :: rest) acc (acc ++ map snd l) rest.
Proof.
  induction l as [|[t v] l IH]; intros Hne Hall acc rest; [congruence|].
  inversion Hall as [|? ? Hp Hl]; subst. cbn [fst snd] in Hp.
  destruct l as [|[t2 v2] l].
  - cbn [map jt fst snd]. eapply E_last; [apply Hp; apply follow_esq|reflexivity].
  - change (jt (map fst ((t, v) :: (t2, v2) :: l))) with (t ++ jc_comma :: jt (map fst ((t2, v2) :: l))).
    rewrite <- app_assoc. cbn [app].
    eapply E_more; [apply Hp; apply follow_comma|reflexivity|].
    specialize (IH ltac:(discriminate) Hl (acc ++ [v]) rest).
    assert (Hhead : exists r1, Val w (jt (map fst ((t2, v2) :: l)) ++ jc_esquare :: rest) v2 r1).
    { inversion Hl as [|? ? Hp2 _]; subst. cbn [fst snd] in Hp2. cbn [map fst].
      destruct l as [|[t3 v3] l].
      - cbn [jt map]. eexists. apply Hp2. apply follow_esq.
      - change (jt (t2 :: map fst ((t3, v3) :: l))) with (t2 ++ jc_comma :: jt (map fst ((t3, v3) :: l))).
        rewrite <- app_assoc. cbn [app]. eexists. apply Hp2. apply follow_comma. }
    destruct Hhead as (r1 & Hh). rewrite (trim_id_val _ _ _ Hh).
    replace (acc ++ map snd ((t, v) :: (t2, v2) :: l)) with ((acc ++ [v]) ++ map snd ((t2, v2) :: l))
      by (rewrite <- app_assoc; reflexivity).
    exact IH.
Qed.

(* members  "key":value  joined by commas, then the closing bracket; keys not yet in the object *)
Definition mprop (p : list N * list N * list N * jv) : Prop :=
  match p with (sb, key, txt, v) => SBody w sb key /\ tprop txt v end.
Definition mtxt (p : list N * list N * list N * jv) : list N :=
  match p with (sb, key, txt, v) => jc_quote :: sb ++ jc_quote :: jc_colon :: txt end.
Definition mkv (p : list N * list N * list N * jv) : list N * jv :=
  match p with (sb, key, txt, v) => (key, v) end.

Lemma members_joined : forall l, l <> [] -> Forall mprop l ->
  forall acc rest, Members w (jt (map mtxt l) ++ jc_ecurly :: rest) acc (fold_left (fun a p => obj_insert a (fst (mkv p)) (snd (mkv p))) l acc) rest.
Proof.
  induction l as [|[[[sb key] txt] v] l IH]; intros Hne Hall acc rest; [congruence|].
  inversion Hall as [|? ? Hp Hl]; subst. cbn [mprop] in Hp. destruct Hp as [HS Hp].
  destruct l as [|p2 l].
  - cbn [map jt mtxt fold_left mkv fst snd]. cbn [app]. rewrite <- app_assoc. cbn [app].
    pose proof (Hp (jc_ecurly :: rest) (follow_ecu rest)) as Hv.
    eapply M_last; [exact HS|reflexivity| | ].
    + cbn [trim]. rewrite (trim_id_val _ _ _ Hv). exact Hv.
    + reflexivity.
  - change (jt (map mtxt ((sb, key, txt, v) :: p2 :: l))) with (mtxt (sb, key, txt, v) ++ jc_comma :: jt (map mtxt (p2 :: l))).
    cbn [mtxt]. cbn [app]. rewrite <- app_assoc. cbn [app]. rewrite <- app_assoc. cbn [app].
    pose proof (Hp (jc_comma :: jt (map mtxt (p2 :: l)) ++ jc_ecurly :: rest) (follow_comma _)) as Hv.
    eapply M_more; [exact HS|reflexivity| | | ].
    + cbn [trim]. rewrite (trim_id_val _ _ _ Hv). exact Hv.
    + reflexivity.
    + specialize (IH ltac:(discriminate) Hl (obj_insert acc key v) rest). cbn [fold_left mkv fst snd].
      assert (Hq : trim (jt (map mtxt (p2 :: l)) ++ jc_ecurly :: rest) = jt (map mtxt (p2 :: l)) ++ jc_ecurly :: rest).
      { destruct p2 as [[[sb2 key2] txt2] v2]. cbn [map mtxt]. destruct l; cbn [jt map app]; reflexivity. }
      rewrite Hq. exact IH.
Qed.

End RT.

(* ---------------- integers printed by the writer ---------------- *)
Lemma dec_wf : forall n, n < 18446744073709551616 -> digits_wf (dec n) = true /\ dval (dec n) = n.
Proof.
  intros n Hn. unfold dec.
  assert (Hn' : n < 2 ^ 64) by (change (2 ^ 64) with 18446744073709551616; exact Hn).
  destruct (DigitProofsInt.u64_to_string_decimal n Hn') as (Hd & Hv & Hne & Hh).
  set (s := DigitModel.u64_to_string n) in *.
  split; [|exact Hv].
  unfold digits_wf. apply andb_true_iff. split.
  - apply forallb_forall. intros c Hc. rewrite Forall_forall in Hd. specialize (Hd c Hc). unfold DigitProofsInt.dig in Hd.
    unfold is_dig. change dc_zero with 48. change dc_nine with 57.
    apply andb_true_iff. split; apply N.leb_le; lia.
  - destruct s as [|d [|d2 t]]; [congruence|reflexivity|].
    destruct Hh as [Hh|Hh]; [|discriminate]. cbn in Hh. apply negb_true_iff. apply N.eqb_neq. exact Hh.
Qed.

Section RT2.
Variable w : N.

Lemma val_nat : forall n rest, n < 18446744073709551616 -> num_follow rest = true -> Val w (dec n ++ rest) (JNat n) rest.
Proof.
  intros n rest Hn Hf. destruct (dec_wf n Hn) as [Hwf Hv].
  pose proof (nat_ok (dec n) rest Hwf ltac:(rewrite Hv; exact Hn) Hf) as Hs. rewrite Hv in Hs.
  destruct (dec n) as [|c t] eqn:E; [discriminate|]. cbn [app] in *.
  eapply V_num; [|exact Hs|reflexivity].
  apply is_dig_num_start. unfold digits_wf in Hwf. apply andb_true_iff in Hwf. destruct Hwf as [Hd _].
  cbn [forallb] in Hd. apply andb_true_iff in Hd. tauto.
Qed.

Lemma val_int : forall z rest, (- 9223372036854775808 <= z < 9223372036854775808)%Z -> num_follow rest = true ->
  Val w (dec_z z ++ rest) (if (0 <=? z)%Z then JNat (Z.to_N z) else JInt z) rest.
Proof.
  intros z rest Hz Hf. destruct z as [|p|p]; cbn [dec_z Z.leb Z.compare].
  - apply val_nat; [reflexivity|assumption].
  - apply val_nat; [|assumption]. cbn. lia.
  - assert (Hn : Npos p < 18446744073709551616) by lia.
    destruct (dec_wf (Npos p) Hn) as [Hwf Hv].
    assert (Hpos : 0 < dval (dec (Npos p))) by (rewrite Hv; reflexivity).
    assert (Hmax : dval (dec (Npos p)) <= int_min_abs) by (rewrite Hv; unfold int_min_abs; lia).
    pose proof (neg_ok (dec (Npos p)) rest Hwf Hpos Hmax Hf) as Hs. rewrite Hv in Hs. cbn [app].
    eapply V_num; [reflexivity|exact Hs|reflexivity].
Qed.

Lemma forall_live_items : forall (P : vt -> Prop) n xs,
  ((fix go (l : list vt) : nat := match l with [] => O | x :: t => (tsize x + go t)%nat end) xs < n)%nat ->
  (fix go (l : list vt) : Prop := match l with [] => True | x :: t => (v_undef x = true \/ twf x) /\ go t end) xs ->
  (forall x, (tsize x < n)%nat -> twf x -> P x) ->
  Forall P (live xs).
Proof.
  intros P n xs. induction xs as [|x t IH]; intros Hs Hw HP; [constructor|].
  destruct Hw as [Hx Ht]. cbn [live filter]. fold (live t).
  destruct (v_undef x) eqn:E; cbn [negb]; [apply IH; auto; lia|].
  constructor; [|apply IH; auto; lia].
  apply HP; [lia|]. destruct Hx as [Hx|Hx]; [congruence|assumption].
Qed.

Lemma forall_live_members : forall (P : vt -> Prop) n ms,
  ((fix go (l : list (list N * vt)) : nat := match l with [] => O | (_, x) :: t => (tsize x + go t)%nat end) ms < n)%nat ->
  (fix go (l : list (list N * vt)) : Prop := match l with [] => True | (_, x) :: t => (v_undef x = true \/ twf x) /\ go t end) ms ->
  (forall x, (tsize x < n)%nat -> twf x -> P x) ->
  Forall (fun kv => P (snd kv)) (livem ms).
Proof.
  intros P n ms. induction ms as [|[k x] t IH]; intros Hs Hw HP; [constructor|].
  destruct Hw as [Hx Ht]. cbn [livem filter snd]. fold (livem t).
  destruct (v_undef x) eqn:E; cbn [negb]; [apply IH; auto; lia|].
  constructor; [|apply IH; auto; lia].
  cbn [snd]. apply HP; [lia|]. destruct Hx as [Hx|Hx]; [congruence|assumption].
Qed.

Lemma normalize_arr : forall xs, normalize (VArr xs) = JArr (map normalize (live xs)).
Proof.
  intros xs. cbn [normalize]. f_equal. induction xs as [|x t IH]; [reflexivity|].
  cbn [live filter]. fold (live t). destruct (v_undef x); cbn [negb map]; [exact IH|]. rewrite IH. reflexivity.
Qed.

Lemma normalize_obj : forall ms, normalize (VObj ms) = JObj (map (fun kv => (fst kv, normalize (snd kv))) (livem ms)).
Proof.
  intros ms. cbn [normalize]. f_equal. induction ms as [|[k x] t IH]; [reflexivity|].
  cbn [livem filter snd]. fold (livem t). destruct (v_undef x); cbn [negb map fst snd]; [exact IH|]. rewrite IH. reflexivity.
Qed.

(* inserting members with pairwise different keys appends them *)
Lemma fold_insert_fresh : forall (l : list (list N * list N * list N * jv)) acc,
  NoDup (map fst acc ++ map (fun p => fst (mkv p)) l) ->
  fold_left (fun a p => obj_insert a (fst (mkv p)) (snd (mkv p))) l acc = acc ++ map mkv l.
Proof.
  induction l as [|p l IH]; intros acc Hnd; cbn [fold_left map]; [rewrite app_nil_r; reflexivity|].
  assert (Hfresh : forall kv, In kv acc -> list_eqb (fst (mkv p)) (fst kv) = false).
  { intros kv Hin. destruct (list_eqb (fst (mkv p)) (fst kv)) eqn:E; [|reflexivity]. apply list_eqb_eq in E.
    exfalso. cbn [map] in Hnd. apply NoDup_remove_2 in Hnd. apply Hnd. apply in_or_app. left. rewrite E. apply in_map. assumption. }
  assert (Hins : obj_insert acc (fst (mkv p)) (snd (mkv p)) = acc ++ [mkv p]).
  { clear -Hfresh. induction acc as [|[k' v'] acc IHa]; cbn; [destruct (mkv p); reflexivity|].
    pose proof (Hfresh (k', v') (or_introl eq_refl)) as Hk. cbn [fst] in Hk. rewrite Hk. rewrite IHa; [reflexivity|].
    intros kv Hin. apply Hfresh. right. assumption. }
  rewrite Hins. rewrite IH.
  - rewrite <- app_assoc. reflexivity.
  - rewrite map_app. cbn [map]. rewrite <- app_assoc. cbn [app]. cbn [map] in Hnd.
    replace (map fst acc ++ fst (mkv p) :: map (fun p0 => fst (mkv p0)) l) with (map fst acc ++ [fst (mkv p)] ++ map (fun p0 => fst (mkv p0)) l) in Hnd by reflexivity.
    exact Hnd.
Qed.

Theorem tree_val : forall n v, (tsize v < n)%nat -> twf v ->
  forall rest, (tcontainer v = true \/ num_follow rest = true) -> Val w (vtext v ++ rest) (normalize v) rest.
Proof.
  induction n as [|n IH]; intros v Hn Hw rest Hrest; [lia|].
  destruct v as [| | | |x|z|txt|s|xs|ms|p]; cbn [twf] in Hw; try contradiction.
  - apply V_null.
  - apply V_true.
  - apply V_false.
  - destruct Hrest as [Hr|Hr]; [discriminate|]. cbn [vtext normalize]. apply val_nat; assumption.
  - destruct Hrest as [Hr|Hr]; [discriminate|]. cbn [vtext normalize]. apply val_int; assumption.
  - destruct Hrest as [Hr|Hr]; [discriminate|]. cbn [vtext normalize].
    destruct Hw as [Hne Hs]. specialize (Hs rest Hr).
    destruct txt as [|c t]; [congruence|]. cbn [app] in *.
    eapply V_num; [|exact Hs|].
    + eapply scan_first_num_start; [exact Hs|discriminate].
    + cbn [num_value]. f_equal. f_equal. f_equal.
      change (c :: t ++ rest) with ((c :: t) ++ rest). rewrite app_length.
      replace (length (c :: t) + length rest - length rest)%nat with (length (c :: t)) by lia.
      apply firstn_app_exact.
  - cbn [vtext normalize]. rewrite <- !app_assoc. cbn [app]. apply V_str. apply escape_json_body.
  - (* array *)
    rewrite arr_text, normalize_arr. cbn [app]. rewrite <- app_assoc. cbn [app]. cbn [tsize] in Hn.
    assert (Hall : Forall (fun x => tprop w (vtext x) (normalize x)) (live xs)).
    { apply (forall_live_items _ n xs); [lia|exact Hw|]. intros x Hx Hwx rest' Hf. apply IH; auto. }
    destruct (live xs) as [|x0 l0] eqn:El.
    + cbn [map jt app]. apply V_arr0. reflexivity.
    + apply V_arr.
      set (l := map (fun x => (vtext x, normalize x)) (x0 :: l0)).
      assert (E1 : map vtext (x0 :: l0) = map fst l) by (unfold l; rewrite map_map; reflexivity).
      assert (E2 : map normalize (x0 :: l0) = [] ++ map snd l) by (unfold l; rewrite map_map; reflexivity).
      rewrite E1, E2.
      assert (Hl : Forall (fun p => tprop w (fst p) (snd p)) l).
      { unfold l. apply Forall_forall. intros p Hp. apply in_map_iff in Hp. destruct Hp as (x & Ex & Hin). subst p. cbn [fst snd].
        rewrite Forall_forall in Hall. apply Hall. assumption. }
      pose proof (elems_joined w l ltac:(unfold l; discriminate) Hl [] rest) as He.
      assert (Hhead : trim (jt (map fst l) ++ jc_esquare :: rest) = jt (map fst l) ++ jc_esquare :: rest).
      { inversion He as [? ? ? ? ? Hv _|? ? ? ? ? ? ? Hv _ _]; subst; eapply trim_id_val; eauto. }
      rewrite Hhead. exact He.
  - (* object *)
    destruct Hw as [Hw Hnd].
    rewrite obj_text, normalize_obj. cbn [app]. rewrite <- app_assoc. cbn [app]. cbn [tsize] in Hn.
    assert (Hall : Forall (fun kv => tprop w (vtext (snd kv)) (normalize (snd kv))) (livem ms)).
    { apply (forall_live_members (fun x => tprop w (vtext x) (normalize x)) n ms); [lia|exact Hw|]. intros x Hx Hwx rest' Hf. apply IH; auto. }
    destruct (livem ms) as [|m0 l0] eqn:El.
    + cbn [map jt app]. apply V_obj0. reflexivity.
    + apply V_obj.
      set (l := map (fun kv => (escape_json (fst kv), fst kv, vtext (snd kv), normalize (snd kv))) (m0 :: l0)).
      assert (E1 : map member_text1 (m0 :: l0) = map mtxt l).
      { unfold l. rewrite map_map. apply map_ext. intros [k x]. unfold member_text1, mtxt. cbn [fst snd]. cbn [app]. reflexivity. }
      assert (E2 : map (fun kv => (fst kv, normalize (snd kv))) (m0 :: l0) = [] ++ map mkv l).
      { unfold l. rewrite map_map. reflexivity. }
      rewrite E1, E2.
      assert (Hl : Forall (mprop w) l).
      { unfold l. apply Forall_forall. intros p Hp. apply in_map_iff in Hp. destruct Hp as (kv & Ex & Hin). subst p. cbn [mprop].
        split; [apply escape_json_body|]. rewrite Forall_forall in Hall. apply Hall. assumption. }
      pose proof (members_joined w l ltac:(unfold l; discriminate) Hl [] rest) as Hm.
      rewrite fold_insert_fresh in Hm.
      2:{ cbn [map app]. unfold l. rewrite map_map. cbn [mkv fst]. exact Hnd. }
      assert (Hhead : trim (jt (map mtxt l) ++ jc_ecurly :: rest) = jt (map mtxt l) ++ jc_ecurly :: rest).
      { unfold l. cbn [map mtxt]. destruct (map _ l0); cbn [jt app]; reflexivity. }
      rewrite Hhead. exact Hm.
  - (* pointer *)
    cbn [vtext normalize tcontainer] in *. apply IH; [cbn [tsize] in Hn; lia|assumption|assumption].
Qed.

(* C08 *)
Theorem stringify_roundtrip : forall t, twf t -> tcontainer t = true -> parse w (stringify t) = JOk (normalize t).
Proof.
  intros t Hw Hc.
  assert (Hs : stringify t = vtext t).
  { clear Hw. induction t; try discriminate.
    - cbn [stringify]. rewrite (str_value_text (S (tsize (VArr l))) _ (Nat.lt_succ_diag_r _)). reflexivity.
    - cbn [stringify]. rewrite (str_value_text (S (tsize (VObj l))) _ (Nat.lt_succ_diag_r _)). reflexivity.
    - cbn [stringify vtext]. apply IHt. exact Hc. }
  rewrite Hs. apply parse_complete.
  pose proof (tree_val (S (tsize t)) t (Nat.lt_succ_diag_r _) Hw [] (or_introl Hc)) as Hv. rewrite app_nil_r in Hv.
  exists []. split; [|reflexivity]. rewrite (trim_id_val w _ _ _ Hv). exact Hv.
Qed.

End RT2.

(* ---------------- the fixed point ---------------- *)
(* a parsed value seen as a tree again *)
Fixpoint embed (v : jv) : vt :=
  match v with
  | JUndef => VUndef | JNull => VNull | JTrue => VTrue | JFalse => VFalse
  | JNat n => VNat n | JInt z => VInt z | JReal txt => VReal txt | JStr s => VStr s
  | JArr l => VArr (map embed l)
  | JObj l => VObj (map (fun kv => (fst kv, embed (snd kv))) l)
  end.

Lemma twf_defined : forall v, twf v -> v_undef (embed (normalize v)) = false.
Proof.
  induction v; cbn [twf]; intros H; try contradiction; try reflexivity.
  - cbn [normalize]. destruct (0 <=? z)%Z; reflexivity.
  - cbn [normalize]. apply IHv. exact H.
Qed.

Lemma live_all : forall l, (forall x, In x l -> v_undef x = false) -> live l = l.
Proof.
  induction l as [|x t IH]; intros H; [reflexivity|]. cbn [live filter]. rewrite (H x (or_introl eq_refl)). cbn [negb].
  f_equal. apply IH. intros y Hy. apply H. right. exact Hy.
Qed.

Lemma livem_all : forall l, (forall kv, In kv l -> v_undef (snd kv) = false) -> livem l = l.
Proof.
  induction l as [|x t IH]; intros H; [reflexivity|]. cbn [livem filter]. rewrite (H x (or_introl eq_refl)). cbn [negb].
  f_equal. apply IH. intros y Hy. apply H. right. exact Hy.
Qed.

Lemma live_twf : forall xs,
  (fix go (l : list vt) : Prop := match l with [] => True | x :: t => (v_undef x = true \/ twf x) /\ go t end) xs ->
  forall x, In x (live xs) -> twf x.
Proof.
  induction xs as [|y t IH]; intros H x Hin; [contradiction|]. destruct H as [Hy Ht].
  cbn [live filter] in Hin. destruct (v_undef y) eqn:E; cbn [negb] in Hin.
  - apply IH; assumption.
  - destruct Hin as [Hin|Hin]; [subst; destruct Hy; [congruence|assumption]|apply IH; assumption].
Qed.

Lemma livem_twf : forall ms,
  (fix go (l : list (list N * vt)) : Prop := match l with [] => True | (_, x) :: t => (v_undef x = true \/ twf x) /\ go t end) ms ->
  forall kv, In kv (livem ms) -> twf (snd kv).
Proof.
  induction ms as [|[k y] t IH]; intros H kv Hin; [contradiction|]. destruct H as [Hy Ht].
  cbn [livem filter snd] in Hin. destruct (v_undef y) eqn:E; cbn [negb] in Hin.
  - apply IH; assumption.
  - destruct Hin as [Hin|Hin]; [subst; cbn [snd]; destruct Hy; [congruence|assumption]|apply IH; assumption].
Qed.

Lemma vtext_fix : forall n v, (tsize v < n)%nat -> twf v -> vtext (embed (normalize v)) = vtext v.
Proof.
  induction n as [|n IH]; intros v Hn Hw; [lia|].
  destruct v as [| | | |x|z|txt|s|xs|ms|p]; cbn [twf] in Hw; try contradiction; try reflexivity.
  - cbn [normalize]. destruct z; reflexivity.
  - rewrite normalize_arr. cbn [embed]. rewrite !arr_text. f_equal. f_equal. f_equal.
    rewrite live_all.
    2:{ intros y Hy. rewrite map_map in Hy. apply in_map_iff in Hy. destruct Hy as (x & Ex & Hin). subst y.
        apply twf_defined. eapply live_twf; eauto. }
    rewrite !map_map. apply map_ext_in. intros x Hin. apply IH.
    + cbn [tsize] in Hn. clear -Hn Hin. induction xs as [|y t IHt]; [contradiction|].
      cbn [live filter] in Hin. destruct (v_undef y); cbn [negb] in Hin.
      * assert (tsize x < n)%nat by (apply IHt; [lia|assumption]). assumption.
      * destruct Hin as [Hin|Hin]; [subst; lia|]. apply IHt; [lia|assumption].
    + eapply live_twf; eauto.
  - destruct Hw as [Hw Hnd]. rewrite normalize_obj. cbn [embed]. rewrite !obj_text. f_equal. f_equal. f_equal.
    rewrite livem_all.
    2:{ intros y Hy. rewrite map_map in Hy. apply in_map_iff in Hy. destruct Hy as (kv & Ex & Hin). subst y. cbn [snd].
        apply twf_defined. apply (livem_twf ms Hw kv Hin). }
    rewrite !map_map. apply map_ext_in. intros kv Hin. unfold member_text1. cbn [fst snd]. f_equal. f_equal. f_equal.
    apply IH.
    + cbn [tsize] in Hn. clear -Hn Hin. induction ms as [|[k y] t IHt]; [contradiction|].
      cbn [livem filter snd] in Hin. destruct (v_undef y); cbn [negb] in Hin.
      * assert (tsize (snd kv) < n)%nat by (apply IHt; [lia|assumption]). assumption.
      * destruct Hin as [Hin|Hin]; [subst; cbn [snd]; lia|]. apply IHt; [lia|assumption].
    + apply (livem_twf ms Hw kv Hin).
  - cbn [normalize vtext]. apply IH; [cbn [tsize] in Hn; lia|assumption].
Qed.

(* printing the value that was read back gives the same text again *)
Theorem stringify_fixpoint : forall t, twf t -> tcontainer t = true ->
  stringify (embed (normalize t)) = stringify t.
Proof.
  intros t Hw Hc.
  assert (Hs : forall v, tcontainer v = true -> stringify v = vtext v).
  { induction v; try discriminate; intros H.
    - cbn [stringify]. rewrite (str_value_text (S (tsize (VArr l))) _ (Nat.lt_succ_diag_r _)). reflexivity.
    - cbn [stringify]. rewrite (str_value_text (S (tsize (VObj l))) _ (Nat.lt_succ_diag_r _)). reflexivity.
    - cbn [stringify vtext]. apply IHv. exact H. }
  rewrite (Hs t Hc). rewrite <- (vtext_fix (S (tsize t)) t (Nat.lt_succ_diag_r _) Hw).
  apply Hs. clear Hs. induction t; try discriminate; try reflexivity.
  cbn [normalize tcontainer] in *. apply IHt; assumption.
Qed.
