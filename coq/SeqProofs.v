(* SeqProofs.v -- C14 lemmas (heap frame lemmas, per-operation refinement). *)
From Coq Require Import NArith List Arith Bool Lia.
From Qv Require Import SeqModel.
Import ListNotations.

Lemma upd_same : forall T (f : nat -> T) i v, upd f i v i = v.
Proof. intros T f i v. unfold upd. now rewrite Nat.eqb_refl. Qed.
