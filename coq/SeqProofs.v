(* SeqProofs.v -- C14: heap frame lemmas, the pool invariant and the Array
   refinement proof (generic in the element type). *)
From Coq Require Import NArith List Arith Bool Lia.
From Qv Require Import SeqModel SeqLists.
Import ListNotations.

Lemma upd_same : forall T (f : nat -> T) i v, upd f i v i = v.
Proof. intros T f i v. unfold upd. now rewrite Nat.eqb_refl. Qed.
Lemma upd_other : forall T (f : nat -> T) i v k, k <> i -> upd f i v k = f k.
Proof. intros T f i v k H. unfold upd. destruct (Nat.eqb_spec k i); [contradiction|reflexivity]. Qed.

(* ---------- splice ---------- *)
Section Splice.
Context {T : Type}.
Lemma splice_length : forall (c : list T) off l, off + length l <= length c -> length (splice c off l) = length c.
Proof.
  intros c off l H. unfold splice. rewrite !app_length, firstn_length, skipn_length. lia.
Qed.
Lemma splice_nil : forall (c : list T) off, splice c off [] = c.
Proof. intros c off. unfold splice. cbn [length app]. rewrite Nat.add_0_r. apply firstn_skipn. Qed.
Lemma firstn_splice_le : forall (c : list T) off l k, k <= off -> off <= length c ->
  firstn k (splice c off l) = firstn k c.
Proof.
  intros c off l k Hk Ho. unfold splice. rewrite firstn_app.
  rewrite firstn_length. replace (k - Nat.min off (length c)) with 0 by lia.
  rewrite firstn_O, app_nil_r, firstn_firstn. f_equal. lia.
Qed.
Lemma firstn_splice_app : forall (c : list T) off l, off <= length c ->
  firstn (off + length l) (splice c off l) = firstn off c ++ l.
Proof.
  intros c off l Ho. unfold splice. rewrite firstn_app.
  rewrite firstn_length. replace (Nat.min off (length c)) with off by lia.
  rewrite (firstn_all2 (firstn off c)) by (rewrite firstn_length; lia).
  replace (off + length l - off) with (length l) by lia.
  rewrite firstn_app, Nat.sub_diag, firstn_O, app_nil_r. now rewrite firstn_all.
Qed.
Lemma nth_splice_at : forall (c : list T) off x d, off <= length c -> nth off (splice c off [x]) d = x.
Proof.
  intros c off x d Ho. unfold splice.
  rewrite app_nth2 by (rewrite firstn_length; lia).
  rewrite firstn_length. replace (off - Nat.min off (length c)) with 0 by lia. reflexivity.
Qed.
Lemma firstn_splice_in : forall (c : list T) off l n, off + length l <= n -> n <= length c ->
  firstn n (splice c off l) = splice (firstn n c) off l.
Proof.
  intros c off l n Hn Hc. unfold splice.
  rewrite firstn_app, firstn_length. replace (Nat.min off (length c)) with off by lia.
  rewrite (firstn_all2 (firstn off c)) by (rewrite firstn_length; lia).
  rewrite firstn_app. rewrite (firstn_all2 l) by lia.
  rewrite firstn_firstn. replace (Nat.min off n) with off by lia.
  rewrite firstn_skipn_comm. replace (off + length l + (n - off - length l)) with n by lia.
  reflexivity.
Qed.
End Splice.

(* ---------- heap ---------- *)
Section HeapFacts.
Context {A : Type} (junk : A).
Notation heap := (@heap A).
Notation world := (@world A).

Definition hwf (h : heap) : Prop := forall b, next h <= b -> cells_of h b = None.

Lemma live_lt : forall h b c, hwf h -> cells_of h b = Some c -> b < next h.
Proof.
  intros h b c Hw Hc. destruct (Nat.lt_ge_cases b (next h)) as [|Hge]; [assumption|].
  rewrite (Hw b Hge) in Hc. discriminate.
Qed.

(* h' is h with block b set to v *)
Definition hupd (h h' : heap) (b : nat) (v : option (list A)) : Prop :=
  cells_of h' b = v /\ (forall b', b' <> b -> cells_of h' b' = cells_of h b') /\ next h' = next h.

Lemma hupd_hwf : forall h h' b v, hwf h -> hupd h h' b v -> (v = None \/ b < next h) -> hwf h'.
Proof.
  intros h h' b v Hw (Hb & Ho & Hn) Hv b' Hge. rewrite Hn in Hge.
  destruct (Nat.eq_dec b' b) as [->|Hne].
  - destruct Hv as [->|Hlt]; [assumption|lia].
  - rewrite Ho by assumption. now apply Hw.
Qed.

Definition halloc (h : heap) (n : nat) : heap := fst (alloc junk h n).
Lemma alloc_eq : forall h n, alloc junk h n = (halloc h n, next h).
Proof. reflexivity. Qed.
Lemma halloc_new : forall h n, cells_of (halloc h n) (next h) = Some (repeat junk n).
Proof. intros. cbn. apply upd_same. Qed.
Lemma halloc_old : forall h n b, b <> next h -> cells_of (halloc h n) b = cells_of h b.
Proof. intros. cbn. now apply upd_other. Qed.
Lemma halloc_next : forall h n, next (halloc h n) = S (next h).
Proof. reflexivity. Qed.
Lemma halloc_hwf : forall h n, hwf h -> hwf (halloc h n).
Proof.
  intros h n Hw b Hge. rewrite halloc_next in Hge. rewrite halloc_old by lia. apply Hw. lia.
Qed.
Opaque halloc.

Lemma rd_range_ok : forall (h : heap) b c off n, cells_of h b = Some c -> off + n <= length c ->
  rd_range h (Some b) off n = Ok (firstn n (skipn off c)).
Proof.
  intros h b c off n Hc Hl. unfold rd_range. destruct n as [|n]; [reflexivity|].
  rewrite Hc. destruct (Nat.leb_spec (off + S n) (length c)); [reflexivity|lia].
Qed.
Lemma rd_range_0 : forall (h : heap) p off, rd_range h p off 0 = Ok [].
Proof. reflexivity. Qed.

Lemma wr_range_ok : forall (h : heap) b c off l, cells_of h b = Some c -> off + length l <= length c ->
  exists h', wr_range h (Some b) off l = Ok h' /\ hupd h h' b (Some (splice c off l)).
Proof.
  intros h b c off l Hc Hl. unfold wr_range. destruct l as [|x l].
  - exists h. split; [reflexivity|]. rewrite splice_nil. repeat split; auto.
  - rewrite Hc. destruct (Nat.leb_spec (off + length (x :: l)) (length c)); [|lia].
    eexists. split; [reflexivity|]. repeat split; cbn.
    + apply upd_same.
    + intros b' Hb. now apply upd_other.
Qed.
Lemma wr_range_nil : forall (h : heap) p off, wr_range h p off [] = Ok h.
Proof. reflexivity. Qed.

Lemma free_ok : forall (h : heap) b c, cells_of h b = Some c ->
  exists h', free h (Some b) = Ok h' /\ hupd h h' b None.
Proof.
  intros h b c Hc. unfold free. rewrite Hc. eexists. split; [reflexivity|]. repeat split; cbn.
  - apply upd_same.
  - intros b' Hb. now apply upd_other.
Qed.

(* ---------- the pool invariant, generic in the ownership predicate ---------- *)
Section Inv.
Variable own : heap -> obj -> list A -> Prop.
Hypothesis own_local : forall h h' o l,
  (forall b, blk o = Some b -> cells_of h' b = cells_of h b) -> own h o l -> own h' o l.
Hypothesis own_live : forall h o l b, own h o l -> blk o = Some b -> cells_of h b <> None.
Hypothesis own_null : forall h, own h null_obj [].

Definition inv (w : world) (s : nat -> list A) : Prop :=
  hwf (hp w) /\ (forall k, own (hp w) (ob w k) (s k)) /\
  (forall k k' b, k <> k' -> blk (ob w k) = Some b -> blk (ob w k') <> Some b).

Lemma inv_blk_lt : forall w s k b, inv w s -> blk (ob w k) = Some b -> b < next (hp w).
Proof.
  intros w s k b (Hw & Ho & _) Hb.
  destruct (cells_of (hp w) b) as [c|] eqn:E.
  - exact (live_lt _ _ _ Hw E).
  - exfalso. exact (own_live _ _ _ _ (Ho k) Hb E).
Qed.

(* object i replaced; only its old block and fresh blocks differ *)
Lemma inv_set : forall w s i h' o' s',
  inv w s -> hwf h' ->
  (forall b, b < next (hp w) -> blk (ob w i) <> Some b -> cells_of h' b = cells_of (hp w) b) ->
  own h' o' (s' i) ->
  (forall k, k <> i -> s' k = s k) ->
  (forall b, blk o' = Some b -> next (hp w) <= b \/ blk (ob w i) = Some b) ->
  inv (mkW h' (upd (ob w) i o')) s'.
Proof.
  intros w s i h' o' s' Hinv Hw' Hfr Hown Hs' Hnew.
  pose proof Hinv as (Hw & Ho & Hd).
  split; [exact Hw'|]. split.
  - intros k. cbn [hp ob]. destruct (Nat.eq_dec k i) as [->|Hne].
    + now rewrite upd_same.
    + rewrite upd_other by assumption. rewrite Hs' by assumption.
      apply own_local with (h := hp w); [|apply Ho].
      intros b Hb. apply Hfr.
      * eapply inv_blk_lt; eauto.
      * intros Hi. exact (Hd k i b Hne Hb Hi).
  - intros k k' b Hkk. cbn [ob].
    destruct (Nat.eq_dec k i) as [->|Hk]; destruct (Nat.eq_dec k' i) as [->|Hk'];
      try contradiction; rewrite ?upd_same, ?upd_other by assumption.
    + intros Hb Hb'. destruct (Hnew b Hb) as [Hge|Hold].
      * pose proof (inv_blk_lt w s k' b Hinv Hb'). lia.
      * exact (Hd i k' b Hkk Hold Hb').
    + intros Hb Hb'. destruct (Hnew b Hb') as [Hge|Hold].
      * pose proof (inv_blk_lt w s k b Hinv Hb). lia.
      * exact (Hd k i b Hkk Hb Hold).
    + apply Hd; assumption.
Qed.

(* same, with the frame condition stated on the other objects' blocks only *)
Lemma inv_set' : forall w s i h' o' s',
  inv w s -> hwf h' ->
  (forall k b, k <> i -> blk (ob w k) = Some b -> cells_of h' b = cells_of (hp w) b) ->
  own h' o' (s' i) ->
  (forall k, k <> i -> s' k = s k) ->
  (forall b, blk o' = Some b -> next (hp w) <= b \/ blk (ob w i) = Some b) ->
  inv (mkW h' (upd (ob w) i o')) s'.
Proof.
  intros w s i h' o' s' Hinv Hw' Hfr Hown Hs' Hnew.
  pose proof Hinv as (Hw & Ho & Hd).
  split; [exact Hw'|]. split.
  - intros k. cbn [hp ob]. destruct (Nat.eq_dec k i) as [->|Hne].
    + now rewrite upd_same.
    + rewrite upd_other by assumption. rewrite Hs' by assumption.
      apply own_local with (h := hp w); [|apply Ho].
      intros b Hb. now apply (Hfr k).
  - intros k k' b Hkk. cbn [ob].
    destruct (Nat.eq_dec k i) as [->|Hk]; destruct (Nat.eq_dec k' i) as [->|Hk'];
      try contradiction; rewrite ?upd_same, ?upd_other by assumption.
    + intros Hb Hb'. destruct (Hnew b Hb) as [Hge|Hold].
      * pose proof (inv_blk_lt w s k' b Hinv Hb'). lia.
      * exact (Hd i k' b Hkk Hold Hb').
    + intros Hb Hb'. destruct (Hnew b Hb') as [Hge|Hold].
      * pose proof (inv_blk_lt w s k b Hinv Hb). lia.
      * exact (Hd k i b Hkk Hb Hold).
    + apply Hd; assumption.
Qed.

(* same, with the distinctness of the new object's block stated directly *)
Lemma inv_set_d : forall w s i h' o' s',
  inv w s -> hwf h' ->
  (forall k b, k <> i -> blk (ob w k) = Some b -> cells_of h' b = cells_of (hp w) b) ->
  own h' o' (s' i) ->
  (forall k, k <> i -> s' k = s k) ->
  (forall k b, k <> i -> blk o' = Some b -> blk (ob w k) <> Some b) ->
  inv (mkW h' (upd (ob w) i o')) s'.
Proof.
  intros w s i h' o' s' Hinv Hw' Hfr Hown Hs' Hnew.
  pose proof Hinv as (Hw & Ho & Hd).
  split; [exact Hw'|]. split.
  - intros k. cbn [hp ob]. destruct (Nat.eq_dec k i) as [->|Hne].
    + now rewrite upd_same.
    + rewrite upd_other by assumption. rewrite Hs' by assumption.
      apply own_local with (h := hp w); [|apply Ho].
      intros b Hb. now apply (Hfr k).
  - intros k k' b Hkk. cbn [ob].
    destruct (Nat.eq_dec k i) as [->|Hk]; destruct (Nat.eq_dec k' i) as [->|Hk'];
      try contradiction; rewrite ?upd_same, ?upd_other by assumption.
    + intros Hb Hb'. exact (Hnew k' b Hk' Hb Hb').
    + intros Hb Hb'. exact (Hnew k b Hk Hb' Hb).
    + apply Hd; assumption.
Qed.

(* the heap changed only outside the blocks owned by the pool *)
Lemma inv_heap : forall w s h',
  inv w s -> hwf h' ->
  (forall k b, blk (ob w k) = Some b -> cells_of h' b = cells_of (hp w) b) ->
  inv (mkW h' (ob w)) s.
Proof.
  intros w s h' (Hw & Ho & Hd) Hw' Hfr. split; [exact Hw'|]. split; [|exact Hd].
  intros k. cbn [hp ob]. apply own_local with (h := hp w); [|apply Ho].
  intros b Hb. now apply (Hfr k).
Qed.

Lemma inv_ob_ext : forall w w' s, hp w' = hp w -> (forall k, ob w' k = ob w k) -> inv w s -> inv w' s.
Proof.
  intros w w' s Hh Ho (Hw & Hown & Hd). split; [now rewrite Hh|]. split.
  - intros k. rewrite Hh, Ho. apply Hown.
  - intros k k' b. rewrite !Ho. apply Hd.
Qed.

Lemma inv_distinct : forall w s k k' b, inv w s -> k <> k' -> blk (ob w k) = Some b -> blk (ob w k') <> Some b.
Proof. intros w s k k' b (_ & _ & Hd). apply Hd. Qed.

(* object i takes over object j's state, j becomes empty *)
Lemma inv_move : forall w s i j h' s',
  inv w s -> i <> j -> hwf h' ->
  (forall b, b < next (hp w) -> blk (ob w i) <> Some b -> cells_of h' b = cells_of (hp w) b) ->
  s' i = s j -> s' j = [] -> (forall k, k <> i -> k <> j -> s' k = s k) ->
  inv (mkW h' (upd (upd (ob w) i (ob w j)) j null_obj)) s'.
Proof.
  intros w s i j h' s' Hinv Hij Hw' Hfr Hsi Hsj Hsk.
  pose proof Hinv as (Hw & Ho & Hd).
  assert (Hloc : forall k, k <> i -> own h' (ob w k) (s k)).
  { intros k Hk. apply own_local with (h := hp w); [|apply Ho].
    intros b Hb. apply Hfr; [eapply inv_blk_lt; eauto|]. intros Hi. exact (Hd k i b Hk Hb Hi). }
  split; [exact Hw'|]. split.
  - intros k. cbn [hp ob]. destruct (Nat.eq_dec k j) as [->|Hkj].
    + rewrite upd_same, Hsj. apply own_null.
    + rewrite upd_other by assumption. destruct (Nat.eq_dec k i) as [->|Hki].
      * rewrite upd_same, Hsi. apply Hloc. auto.
      * rewrite upd_other by assumption. rewrite Hsk by assumption. now apply Hloc.
  - intros k k' b Hkk. cbn [ob].
    assert (Hget : forall x, blk (upd (upd (ob w) i (ob w j)) j null_obj x) = Some b ->
                   x <> j /\ blk (ob w (if Nat.eq_dec x i then j else x)) = Some b).
    { intros x. destruct (Nat.eq_dec x j) as [->|Hxj].
      - rewrite upd_same. discriminate.
      - rewrite upd_other by assumption. destruct (Nat.eq_dec x i) as [->|Hxi].
        + rewrite upd_same. auto.
        + rewrite upd_other by assumption. auto. }
    intros Hb Hb'. apply Hget in Hb. apply Hget in Hb'.
    destruct Hb as (Hkj & Hb), Hb' as (Hk'j & Hb').
    destruct (Nat.eq_dec k i) as [->|Hki]; destruct (Nat.eq_dec k' i) as [->|Hk'i]; try contradiction.
    + exact (Hd j k' b (fun e => Hk'j (eq_sym e)) Hb Hb').
    + exact (Hd k j b Hkj Hb Hb').
    + exact (Hd k k' b Hkk Hb Hb').
Qed.

Lemma inv_ext : forall w s s', inv w s -> (forall k, s' k = s k) -> inv w s'.
Proof.
  intros w s s' (Hw & Ho & Hd) He. split; [assumption|]. split; [|assumption].
  intros k. rewrite He. apply Ho.
Qed.
End Inv.

(* ---------- Array / StringStream ownership: {blk; size; cap} ---------- *)
Definition owns (h : heap) (o : obj) (l : list A) : Prop :=
  match blk o with
  | None => size o = 0 /\ cap o = 0 /\ l = []
  | Some b => exists c, cells_of h b = Some c /\ length c = cap o /\ size o <= cap o /\ l = firstn (size o) c
  end.

Lemma owns_local : forall h h' o l,
  (forall b, blk o = Some b -> cells_of h' b = cells_of h b) -> owns h o l -> owns h' o l.
Proof.
  intros h h' o l Hf. unfold owns. destruct (blk o) as [b|]; [|auto].
  intros (c & Hc & R). exists c. rewrite Hf by reflexivity. auto.
Qed.
Lemma owns_live : forall h o l b, owns h o l -> blk o = Some b -> cells_of h b <> None.
Proof.
  intros h o l b. unfold owns. intros H Hb. rewrite Hb in H. destruct H as (c & Hc & _). congruence.
Qed.
Lemma owns_null : forall h, owns h null_obj [].
Proof. intros h. cbn. auto. Qed.

Lemma owns_len : forall h o l, owns h o l -> length l = size o /\ size o <= cap o.
Proof.
  intros h o l. unfold owns. destruct (blk o) as [b|].
  - intros (c & Hc & Hl & Hs & ->). rewrite firstn_length. lia.
  - intros (-> & -> & ->). auto.
Qed.

(* reading any part of the constructed prefix *)
Lemma owns_read : forall h o l off n, owns h o l -> off + n <= size o ->
  rd_range h (blk o) off n = Ok (firstn n (skipn off l)).
Proof.
  intros h o l off n. unfold owns. destruct (blk o) as [b|].
  - intros (c & Hc & Hl & Hs & ->) Hn. rewrite (rd_range_ok h b c) by (auto; lia). f_equal.
    rewrite skipn_firstn_comm, firstn_firstn. f_equal. lia.
  - intros (Hs & _ & ->) Hn. assert (n = 0) as -> by lia. reflexivity.
Qed.
Lemma owns_read_all : forall h o l, owns h o l -> rd_range h (blk o) 0 (size o) = Ok l.
Proof.
  intros h o l H. rewrite (owns_read h o l 0 (size o) H) by lia. cbn [skipn].
  destruct (owns_len _ _ _ H) as (Hl & _). rewrite <- Hl. now rewrite firstn_all.
Qed.

(* releasing the storage of an object *)
Lemma owns_free : forall h o l, hwf h -> owns h o l ->
  exists h', free h (blk o) = Ok h' /\ hwf h' /\ next h' = next h /\
             (forall b, blk o <> Some b -> cells_of h' b = cells_of h b).
Proof.
  intros h o l Hw. unfold owns. destruct (blk o) as [b|].
  - intros (c & Hc & _). destruct (free_ok h b c Hc) as (h' & Hf & Hu).
    exists h'. split; [assumption|]. split; [eapply hupd_hwf; eauto|].
    destruct Hu as (_ & Ho & Hn). split; [assumption|]. intros b' Hb'. apply Ho. congruence.
  - intros _. exists h. cbn. auto.
Qed.

(* writing into the storage of an object (x may be empty; then nothing is touched) *)
Lemma owns_write : forall h o l off x, hwf h -> owns h o l -> off + length x <= cap o ->
  exists h', wr_range h (blk o) off x = Ok h' /\ hwf h' /\ next h' = next h /\
             (forall b, blk o <> Some b -> cells_of h' b = cells_of h b) /\
             (forall sz, sz <= off -> off <= size o -> owns h' (mkObj (blk o) sz (cap o)) (firstn sz l)) /\
             (off <= size o -> owns h' (mkObj (blk o) (off + length x) (cap o)) (firstn off l ++ x)).
Proof.
  intros h o l off x Hw. unfold owns. destruct (blk o) as [b|] eqn:Eb.
  - intros (c & Hc & Hl & Hs & ->) Hx.
    destruct (wr_range_ok h b c off x Hc ltac:(lia)) as (h' & Hwr & Hu).
    exists h'. split; [assumption|]. split; [eapply hupd_hwf; eauto; right; eapply live_lt; eauto|].
    destruct Hu as (Hb & Ho & Hn). split; [assumption|].
    split; [intros b' Hb'; apply Ho; congruence|].
    split.
    + intros sz Hsz Hoff. cbn [blk size cap]. exists (splice c off x). split; [assumption|].
      split; [rewrite splice_length; lia|]. split; [lia|].
      rewrite firstn_splice_le by lia. rewrite firstn_firstn. f_equal. lia.
    + intros Hoff. cbn [blk size cap]. exists (splice c off x). split; [assumption|].
      split; [rewrite splice_length; lia|]. split; [lia|].
      rewrite firstn_splice_app by lia. f_equal. rewrite firstn_firstn. f_equal. lia.
  - intros (Hs & Hc & ->) Hx. assert (x = []) as -> by (destruct x; [reflexivity|cbn in Hx; lia]).
    exists h. split; [reflexivity|]. split; [assumption|]. split; [reflexivity|]. split; [auto|].
    cbn [blk size cap length]. split.
    + intros sz Hsz Hoff. assert (sz = 0) as -> by lia. rewrite Hc. cbn. auto.
    + intros Hoff. assert (off = 0) as -> by lia. rewrite Hc. cbn. auto.
Qed.

(* overwriting cells inside the constructed prefix *)
Lemma owns_write_in : forall h o l off x, hwf h -> owns h o l -> off + length x <= size o ->
  exists h', wr_range h (blk o) off x = Ok h' /\ hwf h' /\ next h' = next h /\
             (forall b, blk o <> Some b -> cells_of h' b = cells_of h b) /\
             owns h' o (splice l off x).
Proof.
  intros h o l off x Hw. unfold owns. destruct (blk o) as [b|] eqn:Eb.
  - intros (c & Hc & Hl & Hs & ->) Hx.
    destruct (wr_range_ok h b c off x Hc ltac:(lia)) as (h' & Hwr & Hu).
    exists h'. split; [assumption|]. split; [eapply hupd_hwf; eauto; right; eapply live_lt; eauto|].
    destruct Hu as (Hb & Ho & Hn). split; [assumption|].
    split; [intros b' Hb'; apply Ho; congruence|].
    exists (splice c off x). split; [assumption|].
    split; [rewrite splice_length; lia|]. split; [lia|].
    symmetry. apply firstn_splice_in; lia.
  - intros (Hs & Hc & ->) Hx. assert (x = []) as -> by (destruct x; [reflexivity|cbn in Hx; lia]).
    exists h. split; [reflexivity|]. split; [assumption|]. split; [reflexivity|]. split; [auto|].
    rewrite splice_nil. auto.
Qed.

(* a freshly allocated block, filled from offset 0 *)
Lemma fresh_fill : forall h n x, hwf h -> length x <= n ->
  exists h', wr_range (halloc h n) (Some (next h)) 0 x = Ok h' /\ hwf h' /\ next h' = S (next h) /\
             (forall b, b <> next h -> cells_of h' b = cells_of h b) /\
             owns h' (mkObj (Some (next h)) (length x) n) x.
Proof.
  intros h n x Hw Hx.
  destruct (wr_range_ok (halloc h n) (next h) (repeat junk n) 0 x (halloc_new h n)
              ltac:(rewrite repeat_length; cbn; lia)) as (h' & Hwr & Hb & Ho & Hn).
  exists h'. split; [assumption|].
  split.
  { eapply hupd_hwf; [apply halloc_hwf; eassumption| split; [eassumption|split; eassumption] |].
    right. rewrite halloc_next. lia. }
  split; [rewrite Hn; apply halloc_next|].
  split; [intros b Hne; rewrite Ho by assumption; now apply halloc_old|].
  cbn [owns blk size cap]. unfold owns. cbn [blk size cap].
  exists (splice (repeat junk n) 0 x). split; [assumption|].
  split; [rewrite splice_length; rewrite repeat_length; cbn; lia|]. split; [assumption|].
  pose proof (firstn_splice_app (repeat junk n) 0 x ltac:(lia)) as E. cbn [Nat.add firstn app] in E. now rewrite E.
Qed.

Definition ainv := inv owns.
Definition ainv_set := inv_set owns owns_local owns_live.
Definition ainv_move := inv_move owns owns_local owns_live owns_null.
Definition ainv_set' := inv_set' owns owns_local owns_live.
Definition ainv_heap := inv_heap owns owns_local.
Definition ainv_distinct := inv_distinct owns.
Definition ainv_ob_ext := inv_ob_ext owns.

Lemma skipn_splice : forall (c : list A) off x, off <= length c ->
  firstn (length x) (skipn off (splice c off x)) = x.
Proof.
  intros c off x Ho. unfold splice. rewrite skipn_app.
  rewrite firstn_length. replace (Nat.min off (length c)) with off by lia.
  rewrite (skipn_all2 (firstn off c)) by (rewrite firstn_length; lia).
  rewrite Nat.sub_diag. cbn [skipn app].
  rewrite firstn_app, Nat.sub_diag, firstn_O, app_nil_r. apply firstn_all.
Qed.

(* reading back what was just written *)
Lemma owns_write_read : forall h o l off x h', owns h o l -> off + length x <= cap o ->
  wr_range h (blk o) off x = Ok h' -> rd_range h' (blk o) off (length x) = Ok x.
Proof.
  intros h o l off x h'. unfold owns. destruct (blk o) as [b|].
  - intros (c & Hc & Hl & Hs & _) Hx Hwr.
    destruct (wr_range_ok h b c off x Hc ltac:(lia)) as (h2 & Hwr2 & Hb & _).
    rewrite Hwr in Hwr2. injection Hwr2 as ->.
    rewrite (rd_range_ok _ _ _ off (length x) Hb) by (rewrite splice_length; lia).
    f_equal. apply skipn_splice. lia.
  - intros (_ & Hc & _) Hx _. assert (x = []) as -> by (destruct x; [reflexivity|cbn in Hx; lia]). reflexivity.
Qed.

Lemma ainv_obj : forall w s k, ainv w s -> owns (hp w) (ob w k) (s k).
Proof. intros w s k (_ & H & _). apply H. Qed.
Lemma ainv_hwf : forall w s, ainv w s -> hwf (hp w).
Proof. intros w s (H & _). exact H. Qed.

End HeapFacts.
