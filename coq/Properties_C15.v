(* Properties_C15.v -- the C15 theorems and nothing else.  Each is closed by
   [exact] of a lemma proved in CmpProofs.v / CmpProofsValue.v and followed by
   Print Assumptions.  All quantify over every string of code units in N, every
   value (NaN excluded where stated), every list, every comparison function.
   The model (CmpModel.v) describes /repo with findings D3, D4, D5 applied.

   Not proved here (correspondence only, see tools/props/c15.py):
   - key lookups after HashTable::Sort (generateHash; C13 owns that model);
   - Array / HArray storage management and the Template loop around Sort;
   - that the sort oracles (sortedb/permb) decide StronglySorted/Permutation
     (they are small boolean programs, run on the implementation's output). *)
From Coq Require Import NArith ZArith List Bool Permutation Sorted.
From Coq Require Import Floats.SpecFloat.
From Qv Require Import gen.Tables_cmp CmpModel CmpProofs CmpProofsValue CmpProofsDbl.
Import ListNotations.
Local Open Scope N_scope.

(** * Strings (String and StringView operator families over IsLess/IsGreater/IsEqual) *)

(* operator== never reads out of bounds, and exactly one of  a<b, a==b, a>b  holds *)
Theorem c15_trichotomy_str : forall w a b,
  exists e, str_eq a b = Some e /\ exactly_one (str_lt w a b) e (str_gt w a b).
Proof. exact str_trichotomy. Qed.
Print Assumptions c15_trichotomy_str.

Theorem c15_le_is_lt_or_eq : forall w a b, str_le w a b = str_lt w a b || str_eqb a b.
Proof. exact str_le_lt_or_eq. Qed.
Print Assumptions c15_le_is_lt_or_eq.

Theorem c15_ge_is_gt_or_eq : forall w a b, str_ge w a b = str_gt w a b || str_eqb a b.
Proof. exact str_ge_gt_or_eq. Qed.
Print Assumptions c15_ge_is_gt_or_eq.

Theorem c15_lt_trans : forall w a b c, str_lt w a b = true -> str_lt w b c = true -> str_lt w a c = true.
Proof. exact str_lt_trans. Qed.
Print Assumptions c15_lt_trans.

(* < is the lexicographic order by code unit, a proper prefix first; > is its converse; == is identity *)
Theorem c15_lt_iff_lex : forall w a b, str_lt w a b = true <-> lex_lt w a b.
Proof. exact str_lt_iff_lex. Qed.
Print Assumptions c15_lt_iff_lex.

Theorem c15_gt_is_converse : forall w a b, str_gt w a b = str_lt w b a.
Proof. exact str_gt_flip. Qed.
Print Assumptions c15_gt_is_converse.

Theorem c15_eq_is_identity : forall a b, str_eq a b = Some true <-> a = b.
Proof. exact str_eq_iff. Qed.
Print Assumptions c15_eq_is_identity.

(* all six operators at once: they are the six results of the three-way lexicographic comparison *)
Theorem c15_six_operators : forall w a b, str_ops w a b = Some (ops_of_cmp (lex_cmp w a b)).
Proof. exact str_ops_spec. Qed.
Print Assumptions c15_six_operators.

(* the model's six results satisfy the specification oracle for every pair of strings *)
Theorem c15_str_model_meets_spec : forall w a b bits,
  str_ops w a b = Some bits -> str_pair_oracle w a b bits = true.
Proof. exact str_oracle_accepts_model. Qed.
Print Assumptions c15_str_model_meets_spec.

(* the (const Char_T * ) overloads of String and StringView: the same six results, the right operand
   being what precedes its first NUL (StringUtils::Count); identical to the object form when it holds no NUL *)
Theorem c15_cstring_overloads : forall w a b,
  cstr_ops w a b = Some (ops_of_cmp (lex_cmp w a (cstr_cut b))) /\
  (~ In 0 b -> cstr_ops w a b = str_ops w a b) /\
  ~ In 0 (cstr_cut b) /\ (cstr_cut b = b \/ exists r, b = cstr_cut b ++ 0 :: r).
Proof. exact (fun w a b => conj (cstr_ops_spec w a b) (conj (cstr_ops_no_nul w a b) (cstr_cut_spec b))). Qed.
Print Assumptions c15_cstring_overloads.

(* HAItem_T / HLItem_T  < > <= >= ==  are the results of the same comparison on the keys *)
Theorem c15_item_operators : forall w ka kb, item_ops w ka kb = Some (item_ops_of_cmp (lex_cmp w ka kb)).
Proof. exact item_ops_spec. Qed.
Print Assumptions c15_item_operators.

Theorem c15_prefix_sorts_first : forall w a x b,
  str_lt w a (a ++ x :: b) = true /\ str_gt w (a ++ x :: b) a = true /\
  str_le w a (a ++ x :: b) = true /\ str_ge w (a ++ x :: b) a = true.
Proof. exact prefix_sorts_first. Qed.
Print Assumptions c15_prefix_sorts_first.

(* the order of two code units: unsigned for char16_t / char32_t, two's complement for char *)
Theorem c15_unit_order : (forall a b, cu_lt 1 a b = (a <? b)) /\ (forall a b, cu_lt 2 a b = (a <? b)) /\
  (char8_signed = true -> forall a b, a < 256 -> b < 256 -> cu_lt 0 a b = (signed8 a <? signed8 b)%Z).
Proof. exact (conj cu_lt_unsigned16 (conj cu_lt_unsigned32 cu_lt_char)). Qed.
Print Assumptions c15_unit_order.

(** * Values *)

(* every operator follows pointers on both sides *)
Theorem c15_value_pointers : forall w op a b, v_op w op a b = v_core w op (deref a) (deref b).
Proof. exact v_op_deref. Qed.
Print Assumptions c15_value_pointers.

(* the five operators are the results of one three-way comparison: kind, then content *)
Theorem c15_value_operators : forall w op a b, v_nan a = false -> v_nan b = false ->
  v_op w op a b = op_of_cmp op (v_cmp w a b).
Proof. exact v_op_spec. Qed.
Print Assumptions c15_value_operators.

Theorem c15_value_trichotomy : forall w a b, v_nan a = false -> v_nan b = false ->
  exactly_one (v_lt w a b) (v_eq w a b) (v_gt w a b).
Proof. exact v_trichotomy. Qed.
Print Assumptions c15_value_trichotomy.

Theorem c15_value_trans : forall w a b c, v_nan a = false -> v_nan b = false -> v_nan c = false ->
  v_lt w a b = true -> v_lt w b c = true -> v_lt w a c = true.
Proof. exact v_lt_trans. Qed.
Print Assumptions c15_value_trans.

Theorem c15_value_eq_trans : forall w a b c, v_nan a = false -> v_nan b = false -> v_nan c = false ->
  v_eq w a b = true -> v_eq w b c = true -> v_eq w a c = true.
Proof. exact v_eq_trans. Qed.
Print Assumptions c15_value_eq_trans.

Theorem c15_value_gt_is_converse : forall w a b, v_nan a = false -> v_nan b = false -> v_gt w a b = v_lt w b a.
Proof. exact v_gt_flip. Qed.
Print Assumptions c15_value_gt_is_converse.

(* for all values, NaN included *)
Theorem c15_value_le_is_lt_or_eq : forall w a b, v_le w a b = v_lt w a b || v_eq w a b.
Proof. exact v_le_lt_or_eq. Qed.
Print Assumptions c15_value_le_is_lt_or_eq.

Theorem c15_value_ge_is_gt_or_eq : forall w a b, v_ge w a b = v_gt w a b || v_eq w a b.
Proof. exact v_ge_gt_or_eq. Qed.
Print Assumptions c15_value_ge_is_gt_or_eq.

(* values of different kinds are never == *)
Theorem c15_value_eq_same_kind : forall w a b, v_eq w a b = true -> rank (deref a) = rank (deref b).
Proof. exact v_eq_same_kind. Qed.
Print Assumptions c15_value_eq_same_kind.

(* numbers of one kind compare by magnitude *)
Theorem c15_value_numbers : (forall w x y, v_lt w (VUInt x) (VUInt y) = (x <? y)) /\
                            (forall w x y, v_lt w (VInt x) (VInt y) = (x <? y)%Z).
Proof. exact (conj v_lt_uint v_lt_int). Qed.
Print Assumptions c15_value_numbers.

(* the comparison behind the operators is a total preorder *)
Theorem c15_value_order : forall w,
  (forall a, v_cmp w a a = Eq) /\
  (forall a b, v_cmp w b a = CompOpp (v_cmp w a b)) /\
  (forall a b c, v_cmp w a b = Lt -> v_cmp w b c = Lt -> v_cmp w a c = Lt) /\
  (forall a b c, v_cmp w a b = Eq -> v_cmp w b c = Eq -> v_cmp w a c = Eq) /\
  (forall a b c, v_cmp w a b = Eq -> v_cmp w b c = Lt -> v_cmp w a c = Lt) /\
  (forall a b c, v_cmp w a b = Lt -> v_cmp w b c = Eq -> v_cmp w a c = Lt).
Proof.
  exact (fun w => conj (v_cmp_refl w) (conj (v_cmp_antisym w) (conj (v_cmp_lt_trans w)
        (conj (v_cmp_eq_trans w) (conj (v_cmp_eq_lt w) (v_cmp_lt_eq w)))))).
Qed.
Print Assumptions c15_value_order.

Theorem c15_value_kinds_distinct :
  NoDup [vt_undefined; vt_valueptr; vt_object; vt_array; vt_string; vt_uintlong; vt_intlong; vt_double; vt_true; vt_false; vt_null].
Proof. exact ranks_distinct. Qed.
Print Assumptions c15_value_kinds_distinct.

(* doubles: the model's comparison of two bit patterns is SpecFloat's comparison of the decoded binary64 values *)
Theorem c15_double_model_is_specfloat : forall a b, a < 2 ^ 64 -> b < 2 ^ 64 ->
  SFcompare (sf_of_bits a) (sf_of_bits b) =
  if dbl_isnan a || dbl_isnan b then None else Some (dbl_key a ?= dbl_key b)%Z.
Proof. exact dbl_model_is_specfloat. Qed.
Print Assumptions c15_double_model_is_specfloat.

(* the model's five results satisfy the specification oracle (kind, then content; SpecFloat for doubles;
   all five false when a NaN is compared with a double) for EVERY pair of values, NaN included *)
Theorem c15_value_model_meets_spec : forall w a b, v_wf a -> v_wf b ->
  val_pair_oracle w a b (v_ops w a b) = true.
Proof. exact value_model_meets_spec. Qed.
Print Assumptions c15_value_model_meets_spec.

(** * Memory::Sort *)

(* a permutation of the input, for ANY comparison function; the fuel (length + 1) always suffices *)
Theorem c15_sort_perm : forall (A : Type) (cmp : A -> A -> bool) (l l' : list A),
  sort cmp l = Some l' -> Permutation l' l.
Proof. exact (@sort_perm). Qed.
Print Assumptions c15_sort_perm.

Theorem c15_sort_fuel : forall (A : Type) (cmp : A -> A -> bool) (l : list A), exists l', sort cmp l = Some l'.
Proof. exact (@sort_total). Qed.
Print Assumptions c15_sort_fuel.

(* ordered, when the comparison is irreflexive and transitive *)
Theorem c15_sort_sorted : forall (A : Type) (cmp : A -> A -> bool),
  (forall x, cmp x x = false) ->
  (forall x y z, cmp x y = true -> cmp y z = true -> cmp x z = true) ->
  forall l, exists l', sort cmp l = Some l' /\ Permutation l' l /\
                       StronglySorted (fun a b => cmp b a = false) l'.
Proof. exact sort_correct. Qed.
Print Assumptions c15_sort_sorted.

(* instances: both directions *)
Theorem c15_sort_numbers : forall asc l, exists l',
  sort_n asc l = Some l' /\ Permutation l' l /\
  StronglySorted (fun a b => if asc then a <= b else b <= a) l'.
Proof. exact sort_n_correct. Qed.
Print Assumptions c15_sort_numbers.

Theorem c15_sort_strings : forall w asc l, exists l',
  sort_str w asc l = Some l' /\ Permutation l' l /\
  StronglySorted (fun a b => lex_cmp w a b <> (if asc then Gt else Lt)) l'.
Proof. exact sort_str_correct. Qed.
Print Assumptions c15_sort_strings.

Theorem c15_sort_harray_items : forall w asc l, exists l',
  sort_items w asc l = Some l' /\ Permutation l' l /\
  StronglySorted (fun a b => lex_cmp w (fst a) (fst b) <> (if asc then Gt else Lt)) l'.
Proof. exact sort_items_correct. Qed.
Print Assumptions c15_sort_harray_items.

Theorem c15_sort_values : forall w asc l, Forall (fun v => v_nan v = false) l -> exists l',
  sort_val w asc l = Some l' /\ Permutation l' l /\
  StronglySorted (fun a b => v_cmp w a b <> (if asc then Gt else Lt)) l'.
Proof. exact sort_val_correct. Qed.
Print Assumptions c15_sort_values.

(* with NaN members the result is still a permutation *)
Theorem c15_sort_values_perm : forall w asc l l', sort_val w asc l = Some l' -> Permutation l' l.
Proof. exact sort_val_perm. Qed.
Print Assumptions c15_sort_values_perm.
