(* Properties_C10.v -- C10: number to text.  PARTIAL.
   Proved (unbounded, on the model coq/DigitModel.v):
     integers of every width and sign print as their exact decimal representation,
     the digit tables, infinities / NaN / zeros in every format, append-only.
   NOT proved: "the text of every finite double equals the printf reference".
   That statement is a Definition below.  The model describes Digit.hpp after
   findings/D48 (integer zeros trimmed with the fraction) and D49 (half-way
   rounding ignored the dropped part), which removed the two classes of
   counterexamples; it is tested by the correspondence run against the reference
   formatter of DigitModelSpec.v, not proved. *)
From Coq Require Import NArith ZArith List Bool.
From Qv Require Import gen.Tables_digit DigitModel DigitModelSpec DigitProofsInt DigitProofsReal DigitProofsSafety DigitProofsAccScale DigitProofsAccEmit DigitProofsAccRound.
Import ListNotations.
Local Open Scope N_scope.

(* decimal_of n s : s consists of decimal digits, denotes n, and has no leading zero (s = "0" for 0) *)
Theorem c10_int_exact : forall n, n < 2 ^ 64 -> decimal_of n (u64_to_string n).
Proof. exact u64_to_string_decimal. Qed.
Print Assumptions c10_int_exact.

(* signed / narrow types, minimum values included: prefix, then '-' iff negative, then the decimal magnitude *)
Theorem c10_int_all_widths : forall pre w sgn pat,
  (w = 8 \/ w = 16 \/ w = 32 \/ w = 64) -> pat < 2 ^ w ->
  exists s, int_number_to_string pre w sgn pat
            = pre ++ (if (int_value w sgn pat <? 0)%Z then [ch_neg] else []) ++ s
         /\ decimal_of (Z.abs_N (int_value w sgn pat)) s.
Proof. exact int_number_to_string_exact. Qed.
Print Assumptions c10_int_all_widths.

(* the reversed writer used for the digit chunks of reals is the mirror image *)
Theorem c10_int_reverse_mirror : forall n, u64_to_string_rev n = rev (u64_to_string n).
Proof. exact u64_to_string_rev_mirror. Qed.
Print Assumptions c10_int_reverse_mirror.

Theorem c10_digit_tables_ok :
  dg_table1 = flat_map (fun i => [48 + i / 10; 48 + i mod 10]) (map N.of_nat (seq 0 100))
  /\ dg_table2 = map (fun i => 48 + i) (map N.of_nat (seq 0 10)).
Proof. exact tables_exact. Qed.
Print Assumptions c10_digit_tables_ok.

(* the text is appended: what the stream held stays, and the appended text does not depend on it *)
Theorem c10_prefix_untouched : forall fi pre number prec fmt,
  real_to_string fi pre number prec fmt =
  match real_to_string fi [] number prec fmt with Ok t => Ok (pre ++ t) | Err e => Err e end.
Proof. exact real_to_string_prefix. Qed.
Print Assumptions c10_prefix_untouched.

Theorem c10_special_nan : forall fi pre number prec fmt,
  N.land number (fi_expmask fi) = fi_expmask fi -> N.land number (fi_mantmask fi) <> 0 ->
  real_to_string fi pre number prec fmt = Ok (pre ++ [110; 97; 110]).
Proof. exact real_nan. Qed.
Print Assumptions c10_special_nan.

Theorem c10_special_inf : forall fi pre number prec fmt,
  N.land number (fi_expmask fi) = fi_expmask fi -> N.land number (fi_mantmask fi) = 0 ->
  real_to_string fi pre number prec fmt =
  Ok (pre ++ (if N.land number (fi_sign fi) =? 0 then [] else [45]) ++ [105; 110; 102]).
Proof. exact real_inf. Qed.
Print Assumptions c10_special_inf.

Theorem c10_special_zero : forall fi pre number prec fmt,
  fi_expmask fi <> 0 ->
  N.land number (fi_expmask fi) = 0 -> N.land number (fi_mantmask fi) = 0 -> prec <= 100000 ->
  real_to_string fi pre number prec fmt =
  Ok (pre ++ (if N.land number (fi_sign fi) =? 0 then [] else [45])
          ++ (if (fmt =? rf_fixed) && negb (prec =? 0) then [48; 46] ++ repeat 48 (N.to_nat prec) else [48])).
Proof. exact real_zero. Qed.
Print Assumptions c10_special_zero.

(* the full claim, kept as a statement: NOT proved.  Until findings/D48 and D49 the faithful model
   refuted it (classes KF-C10c and KF-C10b); after the two repairs no counterexample is known
   and the former witnesses print the reference (computed below). *)
Definition c10_real_matches_reference : Prop := c10_real_matches_reference_stmt.

Theorem c10_repaired_cases : repaired_ok = true.
Proof. exact c10_repaired_cases_ok. Qed.
Print Assumptions c10_repaired_cases.

(* strongest partial fact available inside Coq: agreement on a fixed sample (vm_compute) *)
Theorem c10_real_partial : sample_ok = true.
Proof. exact c10_real_partial_sample. Qed.
Print Assumptions c10_real_partial.

(* ================= Phase 3: memory safety of the carry / rounding helpers ================= *)
(* the full statement -- NOT proved; 0 model errors in every correspondence run (> 500k cases) *)
Definition c10_no_model_error : Prop :=
  forall bits prec fmt, prec <= 40 -> fmt <= 2 ->
    (bits < 2 ^ 64 -> exists t, real_to_string finfo_double [] bits prec fmt = Ok t)
    /\ (bits < 2 ^ 32 -> exists t, real_to_string finfo_float [] bits prec fmt = Ok t).

(* Digit::roundStringNumber, for ANY stream contents and ANY index inside the stream (D33 was here):
   no access outside; the returned index is inside; the stream keeps its length or grows by the one
   appended carry digit, and then the index is that digit; a carry ends on the leading digit *)
Theorem c10_round_helper_safe : forall buf started_at index ru,
  index < blen buf -> blen buf < 2 ^ 32 ->
  exists b i p, round_string_number buf started_at index ru = Ok (b, i, p)
    /\ index < i /\ i <= blen b
    /\ (blen b = blen buf \/ (blen b = blen buf + 1 /\ p = true /\ i = blen buf))
    /\ (p = true -> blen b <= i + 1).
Proof. exact round_string_number_safe. Qed.
Print Assumptions c10_round_helper_safe.

(* the give-back of integer zeros (D48 was here): without a carry it always stays inside the stream
   and ends exactly at the decimal point *)
Theorem c10_restore_zeros_no_carry_safe : forall buf dot_index index nl fl,
  dot_index <= index -> index <= blen buf -> blen buf <= 100000 ->
  exists b, restore_zeros buf dot_index index nl fl false = Ok (b, dot_index) /\ blen b = blen buf.
Proof. exact restore_zeros_no_carry_safe. Qed.
Print Assumptions c10_restore_zeros_no_carry_safe.

Theorem c10_restore_zeros_carry_safe : forall buf dot_index index nl fl,
  fl <= nl -> nl - fl <= index -> index <= blen buf -> blen buf <= 100000 -> nl <= 100000 ->
  exists b, restore_zeros buf dot_index index nl fl true = Ok (b, index - (nl - fl)) /\ blen b = blen buf.
Proof. exact restore_zeros_carry_safe. Qed.
Print Assumptions c10_restore_zeros_carry_safe.

(* the zero / nine scans never read outside *)
Theorem c10_skip_scans_safe : forall fuel buf index,
  blen buf <= index + N.of_nat fuel -> fuel <> O ->
  (exists pos, skip_zeros fuel buf index = Ok pos /\ index <= pos /\ (pos = index \/ pos < blen buf))
  /\ (exists pos, skip_nines fuel buf index = Ok pos /\ index <= pos /\ (pos = index \/ pos < blen buf)).
Proof.
  intros fuel buf index H1 H2. split; [apply skip_zeros_safe; assumption|].
  destruct (skip_nines_safe fuel buf index H1 H2) as [pos [A [B [C _]]]]. exists pos. auto.
Qed.
Print Assumptions c10_skip_scans_safe.

(* ================= Accuracy phase: the scaling step of realToString is EXACT for |value| >= 1 ================= *)
(* real_scale (DigitProofsAccScale) is, verbatim, the scaling block of real_to_string: *)
Theorem c10_scale_is_the_block_of_real_to_string : forall fi pre number prec fmt,
  let is_fixed := (fmt =? rf_semifixed) || (fmt =? rf_fixed) in
  let precision := if (prec =? 0) && negb is_fixed then 1 else prec in
  let bias := N.land number (fi_expmask fi) in
  (bias =? fi_expmask fi) = false -> (bias =? 0) = false ->
  real_to_string fi pre number prec fmt =
  (let s1 := if negb (N.land number (fi_sign fi) =? 0) then pre ++ [ch_neg] else pre in
   let mantissa := N.lor (N.land number (fi_mantmask fi)) (fi_lead fi) in
   let be := N.shiftr bias (fi_msize fi) in
   do '(b, fraction_length, round_up) <- real_scale fi mantissa be precision is_fixed;
   do ds <- big_to_string 80 b;
   let digits := add32 ((add32 (if fi_bias fi <=? be then be - fi_bias fi else fi_bias fi - be) 0 * 30103) mod two32 / 100000) 1 in
   do run <-
     (if fmt =? rf_semifixed then format_fixed false ds 0 precision digits fraction_length round_up
      else if fmt =? rf_fixed then format_fixed true ds 0 precision digits fraction_length round_up
      else format_default ds 0 precision digits fraction_length (fi_bias fi <=? be) round_up);
   Ok (s1 ++ run)).
Proof. exact real_to_string_scale. Qed.
Print Assumptions c10_scale_is_the_block_of_real_to_string.

(* integer path (value has no fraction bits left, or more integer digits than asked for): with
   value = mantissa * 2^pe / 2^ms  the big integer is  floor (value / 10^drop)  and the flag is exactly
   "value / 10^drop is not an integer" (this is what D49 repaired). *)
Theorem c10_scale_exact_integer_path : forall fi mantissa be precision is_fixed b fl ru,
  let ms := fi_msize fi in let pe := be - fi_bias fi in
  mantissa <> 0 -> ms <= 64 -> fi_bias fi <= be -> be - fi_bias fi <= 4000 -> precision < 2 ^ 20 ->
  let first_bit := ms - ctz mantissa in
  let digits := (pe * 30103) / 100000 + 1 in
  ((first_bit <=? pe) || ((precision <? digits) && negb is_fixed)) = true -> ctz mantissa <= ms ->
  real_scale fi mantissa be precision is_fixed = Ok (b, fl, ru) ->
  fl = 0 /\ exists drop, (drop = 0 \/ (is_fixed = false /\ drop = digits - (precision + 1)))
    /\ b = (mantissa * 2 ^ pe) / (2 ^ ms * 10 ^ drop)
    /\ ru = negb ((mantissa * 2 ^ pe) mod (2 ^ ms * 10 ^ drop) =? 0).
Proof. exact scale_integer_path. Qed.
Print Assumptions c10_scale_exact_integer_path.

(* fraction path, values >= 1: with o the odd part of the mantissa and value = o / 2^F, the big integer is
   floor (value * 10^fl) = floor (o * 5^fl / 2^(F - fl)), the flag is "value * 10^fl is not an integer", and
   fl = min F (requested fraction digits + 1).  No 64-bit word is dropped early here (the binary shift is < 64).
   NOT covered: values below 1 (exponent field < bias, incl. subnormals), where whole low words are dropped early
   and the result is not provably the exact floor; the formatters that follow. *)
Theorem c10_scale_exact_fraction_path_ge1 : forall fi mantissa be precision is_fixed b fl ru,
  let ms := fi_msize fi in let pe := be - fi_bias fi in
  mantissa <> 0 -> ms <= 63 -> fi_bias fi <= be -> be - fi_bias fi <= 4000 -> precision < 2 ^ 20 ->
  let fs := ctz mantissa in
  let digits := (pe * 30103) / 100000 + 1 in
  fs <= ms -> ((ms - fs <=? pe) || ((precision <? digits) && negb is_fixed)) = false ->
  real_scale fi mantissa be precision is_fixed = Ok (b, fl, ru) ->
  let o := mantissa / 2 ^ fs in
  let F := ms - fs - pe in
  fl <= F /\ b = (o * 5 ^ fl) / 2 ^ (F - fl) /\ ru = negb ((o * 5 ^ fl) mod 2 ^ (F - fl) =? 0)
  /\ fl = N.min F ((if is_fixed then precision else precision - digits) + 1).
Proof. exact scale_fraction_path_ge1. Qed.
Print Assumptions c10_scale_exact_fraction_path_ge1.

(* non-vacuity: 11150.001 at Fixed 2 -> floor (11150.001 * 10^3) = 11150001 with the flag set;
   1e22 at 6 significant digits -> floor (1e22 / 10^15) = 10^7, nothing cut off *)
Theorem c10_scale_examples :
  real_scale finfo_double (N.lor (N.land 4667355392203070374 dg_d_mantmask) dg_d_leadbit) 1036 2 true
    = Ok (11150001, 3, true)
  /\ real_scale finfo_double (N.lor (N.land 4936209963552724370 dg_d_mantmask) dg_d_leadbit) 1096 6 false
    = Ok (10000000, 0, false).
Proof. exact scale_examples. Qed.
Print Assumptions c10_scale_examples.

(* ================= Accuracy phase 2: digit emission and the rounding decision ================= *)
(* bigIntToString writes exactly the decimal digits of the big integer, least significant first
   (decimal_of b s: s consists of digits, denotes b, has no leading zero) *)
Theorem c10_big_to_string_digits : forall fuel b ds,
  big_to_string fuel b = Ok ds -> (b = 0 /\ ds = []) \/ (b <> 0 /\ decimal_of b (rev ds)).
Proof. exact big_to_string_digits. Qed.
Print Assumptions c10_big_to_string_digits.

(* chained with the exact scaling: for |value| >= 1 the digit run handed to the formatter is the exact truncated
   decimal expansion of floor (value * 10^fl) (fraction path) resp. floor (value / 10^drop) (integer path), and
   round_up says exactly whether something non-zero was cut off *)
Theorem c10_digit_run_exact_fraction_ge1 : forall fi mantissa be precision is_fixed b fl ru ds,
  let ms := fi_msize fi in let pe := be - fi_bias fi in
  mantissa <> 0 -> ms <= 63 -> fi_bias fi <= be -> be - fi_bias fi <= 4000 -> precision < 2 ^ 20 ->
  let fs := ctz mantissa in
  let digits := (pe * 30103) / 100000 + 1 in
  fs <= ms -> ((ms - fs <=? pe) || ((precision <? digits) && negb is_fixed)) = false ->
  real_scale fi mantissa be precision is_fixed = Ok (b, fl, ru) ->
  big_to_string 80 b = Ok ds ->
  let o := mantissa / 2 ^ fs in let F := ms - fs - pe in
  let X := (o * 5 ^ fl) / 2 ^ (F - fl) in
  ru = negb ((o * 5 ^ fl) mod 2 ^ (F - fl) =? 0)
  /\ ((X = 0 /\ ds = []) \/ (X <> 0 /\ decimal_of X (rev ds))).
Proof. exact digit_run_exact_fraction_ge1. Qed.
Print Assumptions c10_digit_run_exact_fraction_ge1.

Theorem c10_digit_run_exact_integer : forall fi mantissa be precision is_fixed b fl ru ds,
  let ms := fi_msize fi in let pe := be - fi_bias fi in
  mantissa <> 0 -> ms <= 64 -> fi_bias fi <= be -> be - fi_bias fi <= 4000 -> precision < 2 ^ 20 ->
  let first_bit := ms - ctz mantissa in
  let digits := (pe * 30103) / 100000 + 1 in
  ((first_bit <=? pe) || ((precision <? digits) && negb is_fixed)) = true -> ctz mantissa <= ms ->
  real_scale fi mantissa be precision is_fixed = Ok (b, fl, ru) ->
  big_to_string 80 b = Ok ds ->
  fl = 0 /\ exists drop, (drop = 0 \/ (is_fixed = false /\ drop = digits - (precision + 1)))
    /\ let X := (mantissa * 2 ^ pe) / (2 ^ ms * 10 ^ drop) in
       ru = negb ((mantissa * 2 ^ pe) mod (2 ^ ms * 10 ^ drop) =? 0)
       /\ ((X = 0 /\ ds = []) \/ (X <> 0 /\ decimal_of X (rev ds))).
Proof. exact digit_run_exact_integer. Qed.
Print Assumptions c10_digit_run_exact_integer.

(* the rounding decision of roundStringNumber IS round-half-even on the exact value: for a run lo ++ c :: hi of
   decimal digits (least significant first) denoting X = lval (..), rounding at the digit c with the flag ru
   ("something non-zero was cut off below the run"), the code rounds up iff
   half_even_up X i ru:  X mod 10^(i+1) > 5 * 10^i, or = 5 * 10^i and (ru or the kept quotient is odd).
   NOT proved: that the text assembled afterwards (carry propagation, zero trimming / give-back, point and
   padding) equals the reference %.{p}f -- that remains tested against DigitModelSpec on every generated case. *)
Theorem c10_round_decision_is_half_even : forall lo c hi ru,
  let buf := lo ++ c :: hi in let i := N.of_nat (length lo) in
  Forall dig lo -> dig c -> Forall dig hi -> blen buf < 2 ^ 32 ->
  round_string_number buf 0 i ru =
  if half_even_up (lval buf) i ru then round_carry buf (i + 1) else Ok (buf, i + 1, false).
Proof. exact round_string_number_half_even. Qed.
Print Assumptions c10_round_decision_is_half_even.

Theorem c10_emit_round_examples :
  big_to_string 80 11150001 = Ok [49; 48; 48; 48; 53; 49; 49; 49]
  /\ half_even_up 25 0 false = false /\ half_even_up 35 0 false = true /\ half_even_up 25 0 true = true.
Proof.
  destruct emit_examples as [E1 _]. destruct round_examples2 as [R1 [R2 [R3 _]]]. auto.
Qed.
Print Assumptions c10_emit_round_examples.
