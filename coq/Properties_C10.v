(* Properties_C10.v -- C10: number to text.  PARTIAL.
   Proved (unbounded, on the model coq/DigitModel.v):
     integers of every width and sign print as their exact decimal representation,
     the digit tables, infinities / NaN / zeros in every format, append-only.
   NOT proved: "the text of every finite double equals the printf reference".
   That statement is a Definition below.  The model describes Digit.hpp after
   findings/D48 (integer zeros trimmed with the fraction) and D49 (half-way
   rounding ignored the dropped part), which removed the two classes of
   counterexamples; it is tested by the correspondence run against the reference
   formatter of DigitModelSpec.v, not proved. *)
From Coq Require Import NArith ZArith List Bool.
From Qv Require Import gen.Tables_digit DigitModel DigitModelSpec DigitProofsInt DigitProofsReal DigitProofsSafety.
Import ListNotations.
Local Open Scope N_scope.

(* decimal_of n s : s consists of decimal digits, denotes n, and has no leading zero (s = "0" for 0) *)
Theorem c10_int_exact : forall n, n < 2 ^ 64 -> decimal_of n (u64_to_string n).
Proof. exact u64_to_string_decimal. Qed.
Print Assumptions c10_int_exact.

(* signed / narrow types, minimum values included: prefix, then '-' iff negative, then the decimal magnitude *)
Theorem c10_int_all_widths : forall pre w sgn pat,
  (w = 8 \/ w = 16 \/ w = 32 \/ w = 64) -> pat < 2 ^ w ->
  exists s, int_number_to_string pre w sgn pat
            = pre ++ (if (int_value w sgn pat <? 0)%Z then [ch_neg] else []) ++ s
         /\ decimal_of (Z.abs_N (int_value w sgn pat)) s.
Proof. exact int_number_to_string_exact. Qed.
Print Assumptions c10_int_all_widths.

(* the reversed writer used for the digit chunks of reals is the mirror image *)
Theorem c10_int_reverse_mirror : forall n, u64_to_string_rev n = rev (u64_to_string n).
Proof. exact u64_to_string_rev_mirror. Qed.
Print Assumptions c10_int_reverse_mirror.

Theorem c10_digit_tables_ok :
  dg_table1 = flat_map (fun i => [48 + i / 10; 48 + i mod 10]) (map N.of_nat (seq 0 100))
  /\ dg_table2 = map (fun i => 48 + i) (map N.of_nat (seq 0 10)).
Proof. exact tables_exact. Qed.
Print Assumptions c10_digit_tables_ok.

(* the text is appended: what the stream held stays, and the appended text does not depend on it *)
Theorem c10_prefix_untouched : forall fi pre number prec fmt,
  real_to_string fi pre number prec fmt =
  match real_to_string fi [] number prec fmt with Ok t => Ok (pre ++ t) | Err e => Err e end.
Proof. exact real_to_string_prefix. Qed.
Print Assumptions c10_prefix_untouched.

Theorem c10_special_nan : forall fi pre number prec fmt,
  N.land number (fi_expmask fi) = fi_expmask fi -> N.land number (fi_mantmask fi) <> 0 ->
  real_to_string fi pre number prec fmt = Ok (pre ++ [110; 97; 110]).
Proof. exact real_nan. Qed.
Print Assumptions c10_special_nan.

Theorem c10_special_inf : forall fi pre number prec fmt,
  N.land number (fi_expmask fi) = fi_expmask fi -> N.land number (fi_mantmask fi) = 0 ->
  real_to_string fi pre number prec fmt =
  Ok (pre ++ (if N.land number (fi_sign fi) =? 0 then [] else [45]) ++ [105; 110; 102]).
Proof. exact real_inf. Qed.
Print Assumptions c10_special_inf.

Theorem c10_special_zero : forall fi pre number prec fmt,
  fi_expmask fi <> 0 ->
  N.land number (fi_expmask fi) = 0 -> N.land number (fi_mantmask fi) = 0 -> prec <= 100000 ->
  real_to_string fi pre number prec fmt =
  Ok (pre ++ (if N.land number (fi_sign fi) =? 0 then [] else [45])
          ++ (if (fmt =? rf_fixed) && negb (prec =? 0) then [48; 46] ++ repeat 48 (N.to_nat prec) else [48])).
Proof. exact real_zero. Qed.
Print Assumptions c10_special_zero.

(* the full claim, kept as a statement: NOT proved.  Until findings/D48 and D49 the faithful model
   refuted it (classes KF-C10c and KF-C10b); after the two repairs no counterexample is known
   and the former witnesses print the reference (computed below). *)
Definition c10_real_matches_reference : Prop := c10_real_matches_reference_stmt.

Theorem c10_repaired_cases : repaired_ok = true.
Proof. exact c10_repaired_cases_ok. Qed.
Print Assumptions c10_repaired_cases.

(* strongest partial fact available inside Coq: agreement on a fixed sample (vm_compute) *)
Theorem c10_real_partial : sample_ok = true.
Proof. exact c10_real_partial_sample. Qed.
Print Assumptions c10_real_partial.

(* ================= Phase 3: memory safety of the carry / rounding helpers ================= *)
(* the full statement -- NOT proved; 0 model errors in every correspondence run (> 500k cases) *)
Definition c10_no_model_error : Prop :=
  forall bits prec fmt, prec <= 40 -> fmt <= 2 ->
    (bits < 2 ^ 64 -> exists t, real_to_string finfo_double [] bits prec fmt = Ok t)
    /\ (bits < 2 ^ 32 -> exists t, real_to_string finfo_float [] bits prec fmt = Ok t).

(* Digit::roundStringNumber, for ANY stream contents and ANY index inside the stream (D33 was here):
   no access outside; the returned index is inside; the stream keeps its length or grows by the one
   appended carry digit, and then the index is that digit; a carry ends on the leading digit *)
Theorem c10_round_helper_safe : forall buf started_at index ru,
  index < blen buf -> blen buf < 2 ^ 32 ->
  exists b i p, round_string_number buf started_at index ru = Ok (b, i, p)
    /\ index < i /\ i <= blen b
    /\ (blen b = blen buf \/ (blen b = blen buf + 1 /\ p = true /\ i = blen buf))
    /\ (p = true -> blen b <= i + 1).
Proof. exact round_string_number_safe. Qed.
Print Assumptions c10_round_helper_safe.

(* the give-back of integer zeros (D48 was here): without a carry it always stays inside the stream
   and ends exactly at the decimal point *)
Theorem c10_restore_zeros_no_carry_safe : forall buf dot_index index nl fl,
  dot_index <= index -> index <= blen buf -> blen buf <= 100000 ->
  exists b, restore_zeros buf dot_index index nl fl false = Ok (b, dot_index) /\ blen b = blen buf.
Proof. exact restore_zeros_no_carry_safe. Qed.
Print Assumptions c10_restore_zeros_no_carry_safe.

Theorem c10_restore_zeros_carry_safe : forall buf dot_index index nl fl,
  fl <= nl -> nl - fl <= index -> index <= blen buf -> blen buf <= 100000 -> nl <= 100000 ->
  exists b, restore_zeros buf dot_index index nl fl true = Ok (b, index - (nl - fl)) /\ blen b = blen buf.
Proof. exact restore_zeros_carry_safe. Qed.
Print Assumptions c10_restore_zeros_carry_safe.

(* the zero / nine scans never read outside *)
Theorem c10_skip_scans_safe : forall fuel buf index,
  blen buf <= index + N.of_nat fuel -> fuel <> O ->
  (exists pos, skip_zeros fuel buf index = Ok pos /\ index <= pos /\ (pos = index \/ pos < blen buf))
  /\ (exists pos, skip_nines fuel buf index = Ok pos /\ index <= pos /\ (pos = index \/ pos < blen buf)).
Proof.
  intros fuel buf index H1 H2. split; [apply skip_zeros_safe; assumption|].
  destruct (skip_nines_safe fuel buf index H1 H2) as [pos [A [B [C _]]]]. exists pos. auto.
Qed.
Print Assumptions c10_skip_scans_safe.
