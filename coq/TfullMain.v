(* TfullMain.v -- C02 as a theorem on the faithful models.
   [render_all_jv auto w content root] is Template::Render on the models: the parser model (TparseModel.v,
   correspondence with TemplateCore::Parse on 200k texts, safe and tree_ok for every text) followed by the renderer
   model (TrenderModel.v, every access checked, correspondence on the complete output) instantiated with the value
   model of TmplModel.v.  For the printed text of every AST that satisfies the boolean [wf_template] it returns exactly
   the documented expansion [expand] -- without an error, i.e. with every access of both models inside its array.

   Fragment covered by [wf_template] (TfullModel.v): text, {var:}, {raw:}, {math:expr}, <if case=expr> with else-if / else
   cases, <loop> with set / value / group / sort, nested (loops up to the 8-bit Level); expressions are the integer fragment of
   TmplModel (naturals below 10^19, variables, parenthesised binary expressions with the operators + - * == != < > <= >= && ||).
   Expression evaluation of the instance ([jv_math] / [jv_cond], TfullModel.v) is TmplModel.eval_expr transcribed to the
   QExpression arrays the parser model builds ([qexpr_of]); [TfullSem.q_top_expr] proves the two equal.
   Not covered yet: {svar:} and the inline if.  The statement for all constructors is kept as [c02_full_statement]. *)
From Coq Require Import NArith List Bool.
From Qv Require Import gen.Tables EscapeModel TmplModel TmplRender TmplProofs TparseModel TrenderModel TrenderProofs TrenderInst
  TfullModel TfullSem TfullParse TfullExpr TfullNum TfullParseMain.
Import ListNotations.

Theorem c02_full_if_math : forall auto w root ast, wf_template ast = true ->
  render_all_jv auto w (print_nodes ast) root = ROk (expand auto w root ast).
Proof.
  intros auto w root ast Hwf. unfold render_all_jv, render_all. rewrite (parse_print_full w ast Hwf).
  exact (render_tree_expand auto w root ast Hwf).
Qed.

(* the earlier name (the fragment of phase 3 is included in the present one) *)
Corollary c02_full_loops : forall auto w root ast, wf_template ast = true ->
  render_all_jv auto w (print_nodes ast) root = ROk (expand auto w root ast).
Proof. exact c02_full_if_math. Qed.

(* the full statement, instantiated with the well-formedness predicate proved so far *)
Corollary c02_full_wf_template : c02_full_statement wf_template.
Proof. unfold c02_full_statement. exact c02_full_if_math. Qed.

(* the two halves, for reference *)
Definition c02_parse_print := parse_print_full.      (* parse_model w (print_nodes ast) = Ok (tree_of_full ast) *)
Definition c02_render_tree_jv := render_tree_expand.  (* render_tree_jv ... (tree_of_full ast) = ROk (expand ...) *)

(* non-vacuity:  a<loop set="items" value="it" sort="ascend">{var:it[name]}<loop value="v" group="g" sort="descend">{raw:v}{var:it[k][0]}</loop>;</loop>{var:n1} *)
Example wf_template_example :
  wf_template
    [TText [97]%N;
     TLoop (Some ([105;116;101;109;115]%N, [])) [105;116]%N [] 1
       [TVar ([105;116]%N, [[110;97;109;101]%N]);
        TLoop None [118]%N [103]%N 2 [TRaw ([118]%N, []); TVar ([105;116]%N, [[107]%N; [48]%N])];
        TText [59]%N];
     TVar ([110;49]%N, [])] = true.
Proof. reflexivity. Qed.

(* ... with expressions:  <if case="({var:n} + 2) * 3 >= {var:list[0]}">{math:{var:n} - 1}<else if case="{var:s} == 7">b<else>c</if> *)
Example wf_template_example2 :
  wf_template
    [TIf (EBin 8 (EBin 2 (EBin 0 (EVar ([110]%N, [])) (ENum 2)) (ENum 3)) (EVar ([108;105;115;116]%N, [[48]%N])))
         [TMath (EBin 1 (EVar ([110]%N, [])) (ENum 1))]
         [(Some (EBin 3 (EVar ([115]%N, [])) (ENum 7)), [TText [98]%N]); (None, [TText [99]%N])]] = true.
Proof. reflexivity. Qed.
