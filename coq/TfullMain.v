(* TfullMain.v -- C02 as a theorem on the faithful models.
   [render_all_jv auto w content root] is Template::Render on the models: the parser model (TparseModel.v,
   correspondence with TemplateCore::Parse on 200k texts, safe and tree_ok for every text) followed by the renderer
   model (TrenderModel.v, every access checked, correspondence on the complete output) instantiated with the value
   model of TmplModel.v.  For the printed text of every AST that satisfies the boolean [wf_template] it returns exactly
   the documented expansion [expand] -- without an error, i.e. with every access of both models inside its array.

   Fragment covered by [wf_template] (TfullModel.v): text, {var:}, {raw:}, {math:expr}, the inline if with a true and an optional
   false value (values: text without a double quote, var, raw, math; at most 255 sub tags, at most 65535 units),
   <if case=expr> with else-if / else cases, <loop> with set / value / group / sort, nested (loops up to the 8-bit Level);
   expressions are the integer fragment of
   TmplModel (naturals below 10^19, variables, parenthesised binary expressions with the operators + - * == != < > <= >= && ||).
   Expression evaluation of the instance ([jv_math] / [jv_cond], TfullModel.v) is TmplModel.eval_expr transcribed to the
   QExpression arrays the parser model builds ([qexpr_of]); [TfullSem.q_top_expr] proves the two equal.
   the super variable with at least one value (values: var, raw, math; its own name holds no comma and no value name of an
   enclosing loop is a prefix of it -- parse does not call checkLoopVariable for it).
   Every constructor of TmplModel.tnode is covered; [c02_full_statement wf_template] is the statement for all of them. *)
From Coq Require Import NArith List Bool.
From Qv Require Import gen.Tables EscapeModel TmplModel TmplRender TmplProofs TparseModel TrenderModel TrenderProofs TrenderInst
  TfullModel TfullSem TfullParse TfullExpr TfullNum TfullIif TfullParseMain.
Import ListNotations.

Theorem c02_full : forall auto w root ast, wf_template ast = true ->
  render_all_jv auto w (print_nodes ast) root = ROk (expand auto w root ast).
Proof.
  intros auto w root ast Hwf. unfold render_all_jv, render_all. rewrite (parse_print_full w ast Hwf).
  exact (render_tree_expand auto w root ast Hwf).
Qed.

(* the earlier names (the earlier fragments are included in the present one) *)
Corollary c02_full_iif : forall auto w root ast, wf_template ast = true ->
  render_all_jv auto w (print_nodes ast) root = ROk (expand auto w root ast).
Proof. exact c02_full. Qed.
Corollary c02_full_if_math : forall auto w root ast, wf_template ast = true ->
  render_all_jv auto w (print_nodes ast) root = ROk (expand auto w root ast).
Proof. exact c02_full. Qed.

Corollary c02_full_loops : forall auto w root ast, wf_template ast = true ->
  render_all_jv auto w (print_nodes ast) root = ROk (expand auto w root ast).
Proof. exact c02_full_if_math. Qed.

(* the full statement, instantiated with the well-formedness predicate proved so far *)
Corollary c02_full_wf_template : c02_full_statement wf_template.
Proof. unfold c02_full_statement. exact c02_full. Qed.

(* the two halves, for reference *)
Definition c02_parse_print := parse_print_full.      (* parse_model w (print_nodes ast) = Ok (tree_of_full ast) *)
Definition c02_render_tree_jv := render_tree_expand.  (* render_tree_jv ... (tree_of_full ast) = ROk (expand ...) *)

(* non-vacuity:  a<loop set="items" value="it" sort="ascend">{var:it[name]}<loop value="v" group="g" sort="descend">{raw:v}{var:it[k][0]}</loop>;</loop>{var:n1} *)
Example wf_template_example :
  wf_template
    [TText [97]%N;
     TLoop (Some ([105;116;101;109;115]%N, [])) [105;116]%N [] 1
       [TVar ([105;116]%N, [[110;97;109;101]%N]);
        TLoop None [118]%N [103]%N 2 [TRaw ([118]%N, []); TVar ([105;116]%N, [[107]%N; [48]%N])];
        TText [59]%N];
     TVar ([110;49]%N, [])] = true.
Proof. reflexivity. Qed.

(* ... with expressions:  <if case="({var:n} + 2) * 3 >= {var:list[0]}">{math:{var:n} - 1}<else if case="{var:s} == 7">b<else>c</if> *)
Example wf_template_example2 :
  wf_template
    [TIf (EBin 8 (EBin 2 (EBin 0 (EVar ([110]%N, [])) (ENum 2)) (ENum 3)) (EVar ([108;105;115;116]%N, [[48]%N])))
         [TMath (EBin 1 (EVar ([110]%N, [])) (ENum 1))]
         [(Some (EBin 3 (EVar ([115]%N, [])) (ENum 7)), [TText [98]%N]); (None, [TText [99]%N])]] = true.
Proof. reflexivity. Qed.

(* ... with an inline if:  {if case="{var:n} > 1" true="a{var:n}" false="{math:{var:n} + 1}b"}{if case="0" true="x"} *)
Example wf_template_example3 :
  wf_template
    [TIIf (EBin 6 (EVar ([110]%N, [])) (ENum 1)) [TText [97]%N; TVar ([110]%N, [])]
          (Some [TMath (EBin 0 (EVar ([110]%N, [])) (ENum 1)); TText [98]%N]);
     TIIf (ENum 0) [TText [120]%N] None] = true.
Proof. reflexivity. Qed.

(* ... with a super variable:  <loop value="v">{svar:phrase, {var:v}, {math:{var:n} * 2}, {raw:s[0]}}</loop> *)
Example wf_template_example4 :
  wf_template
    [TLoop None [118]%N [] 0
       [TSVar ([112;104;114;97;115;101]%N, [])
              [TVar ([118]%N, []); TMath (EBin 2 (EVar ([110]%N, [])) (ENum 2)); TRaw ([115]%N, [[48]%N])]]] = true.
Proof. reflexivity. Qed.
