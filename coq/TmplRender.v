(* TmplRender.v -- implementation layer of the template renderer: the tag tree
   with offsets into the template text, and the renderer working on slices of
   the text exactly as Template.hpp render / renderVariable / renderRawVariable /
   renderMath / renderSuperVariable / renderInLineIf / renderLoop / renderIf do
   (literal text between tags is copied by offset arithmetic; unresolved tags
   echo a slice of the text).  Definitions only.

   Abstractions (tied to the code by the correspondence run only): variable
   paths and expressions are kept as AST values inside the tag records instead
   of being re-scanned from the text, and loop items are found by value name
   (a list of bindings) instead of by nesting level in an array.

   [lay_nodes] builds, for an AST, the tag tree the parser builds for its printed
   text (offsets computed from the printer); that the real parser agrees with
   it is checked by the correspondence run (C++ parses the printed text). *)
From Coq Require Import NArith ZArith List Bool.
From Qv Require Import gen.Tables EscapeModel TmplModel.
Import ListNotations.
Local Open Scope nat_scope.

(* the slice content[a, b) *)
Definition sub (content : list N) (a b : nat) : list N := firstn (b - a) (skipn a content).

Inductive gtag :=
| GVar (off len : nat) (p : path)                 (* Offset: first unit after "{var:", Length of the name *)
| GRaw (off len : nat) (p : path)
| GMath (off endoff : nat) (e : expr)             (* Offset at the brace, EndOffset after the closing brace *)
| GSVar (off endoff : nat) (p : path) (subs : list gtag)
| GIIf (off len : nat) (c : expr)
       (toff tlen : nat) (tsubs : list gtag)      (* true slice: absolute start, length, its sub tags *)
       (foff flen : nat) (fsubs : list gtag)      (* false slice (length 0, no tags when absent) *)
| GIf (off endoff : nat) (first : expr) (foff fend : nat) (fsubs : list gtag)
      (more : list (option expr * (nat * nat) * list gtag))   (* case: condition, Offset, EndOffset, sub tags *)
| GLoop (off endoff coff : nat) (set : option path) (val group : list N) (sort : N) (subs : list gtag).

Definition prefix_len_var := 5.   (* VariablePrefixLength = RawVariablePrefixLength *)
Definition loop_suffix_len := 7.  (* LoopSuffixLength *)

Section Render.
  Variable auto : bool.
  Variable w : N.
  Variable root : jv.
  Variable content : list N.
  Let esc := var_text_cfg auto w.

  (* one leaf tag: returns (text written before and for the tag, new offset) *)
  Definition r_var (ctx : list binding) (off len : nat) (p : path) (offset : nat) : list N * nat :=
    let t_offset := off - prefix_len_var in
    let length := len + prefix_len_var + 1 in
    (sub content offset t_offset ++ var_out auto w root ctx p (sub content t_offset (t_offset + length)),
     t_offset + length).
  Definition r_raw (ctx : list binding) (off len : nat) (p : path) (offset : nat) : list N * nat :=
    let t_offset := off - prefix_len_var in
    let length := len + prefix_len_var + 1 in
    (sub content offset t_offset ++ raw_out root ctx p (sub content t_offset (t_offset + length)),
     t_offset + length).
  Definition r_math (ctx : list binding) (off endoff : nat) (e : expr) (offset : nat) : list N * nat :=
    (sub content offset off ++ math_out root ctx e (sub content off endoff), endoff).

  (* a sub tag of a super variable / an inline value rendered on its own:
     the cursor starts at the tag, so nothing precedes it *)
  Definition r_leaf_alone (ctx : list binding) (t : gtag) : list N :=
    match t with
    | GVar off len p => fst (r_var ctx off len p (off - prefix_len_var))
    | GRaw off len p => fst (r_raw ctx off len p (off - prefix_len_var))
    | GMath off endoff e => fst (r_math ctx off endoff e off)
    | _ => []
    end.

  Fixpoint render_tag (ctx : list binding) (t : gtag) (offset : nat) {struct t} : list N * nat :=
    let rl := fix rl (ctx : list binding) (l : list gtag) (offset end_offset : nat) {struct l} : list N :=
                match l with
                | [] => sub content offset end_offset
                | x :: r => let (o, off') := render_tag ctx x offset in o ++ rl ctx r off' end_offset
                end in
    match t with
    | GVar off len p => r_var ctx off len p offset
    | GRaw off len p => r_raw ctx off len p offset
    | GMath off endoff e => r_math ctx off endoff e offset
    | GSVar off endoff p subs =>
      (sub content offset off ++
       match subs with
       | [] => sub content off endoff
       | _ =>
         match match fst (resolve root ctx p) with Some v => char_and_length v | None => None end with
         | Some phrase => svar_go auto w (map (r_leaf_alone ctx) subs) phrase [] 0
         | None => sub content off endoff
         end
       end, endoff)
    | GIIf off len c toff tlen tsubs foff flen fsubs =>
      (sub content offset off ++
       match truth root ctx c with
       | Some true => rl ctx tsubs toff (toff + tlen)
       | Some false => rl ctx fsubs foff (foff + flen)
       | None => []
       end, off + len)
    | GIf off endoff c coff cend csubs more =>
      (sub content offset off ++
       match truth root ctx c with
       | Some true => rl ctx csubs coff cend
       | _ =>
         (fix pick (l : list (option expr * (nat * nat) * list gtag)) : list N :=
            match l with
            | [] => []
            | (None, (o, e), s) :: _ => rl ctx s o e
            | (Some cond, (o, e), s) :: r =>
              match truth root ctx cond with Some true => rl ctx s o e | _ => pick r end
            end) more
       end, endoff)
    | GLoop off endoff coff set val group sort subs =>
      (sub content offset off ++
       (let s0 := match set with Some p => fst (resolve root ctx p) | None => Some root end in
        let s1 := match s0 with
                  | Some s => match group with [] => Some s | g => group_by g s end
                  | None => None
                  end in
        match s1 with
        | None => []
        | Some s =>
          let s2 := match sort with 0%N => s | 1%N => sort_set true s | _ => sort_set false s end in
          (fix each (ms : list (jv * list N)) : list N :=
             match ms with
             | [] => []
             | (item, key) :: r =>
               rl ({| b_name := val; b_item := item; b_key := key |} :: ctx) subs coff endoff ++ each r
             end) (members s2)
        end), endoff + loop_suffix_len)
    end.

  Fixpoint render_list (ctx : list binding) (l : list gtag) (offset end_offset : nat) : list N :=
    match l with
    | [] => sub content offset end_offset
    | x :: r => let (o, off') := render_tag ctx x offset in o ++ render_list ctx r off' end_offset
    end.
End Render.

(* TemplateCore::Render: render(tags, 0, length) *)
Definition render (auto : bool) (w : N) (root : jv) (content : list N) (tags : list gtag) : list N :=
  render_list auto w root content [] tags 0 (length content).

(* ------------------------------------------------------------------ *)
(* The tag tree of a printed AST.  [off] is the offset at which the node's
   text starts. *)
Definition plen (l : list tnode) : nat := length (print_nodes l).

Fixpoint lay_node (off : nat) (n : tnode) {struct n} : list gtag :=
  let ll := fix ll (off : nat) (l : list tnode) {struct l} : list gtag :=
              match l with
              | [] => []
              | x :: r => lay_node off x ++ ll (off + length (print_node x)) r
              end in
  match n with
  | TText _ => []
  | TVar p => [GVar (off + 5) (length (print_path p)) p]
  | TRaw p => [GRaw (off + 5) (length (print_path p)) p]
  | TMath e => [GMath off (off + length (print_node n)) e]
  | TSVar p subs =>
    [GSVar off (off + length (print_node n)) p
       ((fix ls (o : nat) (l : list tnode) : list gtag :=
           match l with
           | [] => []
           | x :: r => lay_node (o + 2) x ++ ls (o + 2 + length (print_node x)) r
           end) (off + 6 + length (print_path p)) subs)]
  | TIIf c t f =>
    let toff := off + length s_iif_open + length (print_expr c) + length s_true_attr in
    let tlen := plen t in
    let foff := toff + tlen + length s_false_attr in
    match f with
    | Some fl => [GIIf off (length (print_node n)) c toff tlen (ll toff t) foff (plen fl) (ll foff fl)]
    | None => [GIIf off (length (print_node n)) c toff tlen (ll toff t) off 0 []]
    end
  | TIf c body more =>
    let coff := off + length s_if_open + length (print_expr c) + length s_tag_close in
    let cend := coff + plen body in
    [GIf off (off + length (print_node n)) c coff cend (ll coff body)
       ((fix lm (o : nat) (l : list (option expr * list tnode)) : list (option expr * (nat * nat) * list gtag) :=
           match l with
           | [] => []
           | (Some e, b) :: r =>
             let bo := o + length s_elseif_open + length (print_expr e) + length s_tag_close in
             (Some e, (bo, bo + plen b), ll bo b) :: lm (bo + plen b) r
           | (None, b) :: r =>
             let bo := o + length s_else in
             (None, (bo, bo + plen b), ll bo b) :: lm (bo + plen b) r
           end) cend more)]
  | TLoop set val group sort body =>
    let coff := off + length (print_node n) - plen body - length s_loop_end in
    [GLoop off (coff + plen body) coff set val group sort (ll coff body)]
  end.
Fixpoint lay_nodes (off : nat) (l : list tnode) : list gtag :=
  match l with
  | [] => []
  | x :: r => lay_node off x ++ lay_nodes (off + length (print_node x)) r
  end.

(* render the printed template of an AST through the tag tree *)
Definition render_ast (auto : bool) (w : N) (root : jv) (ast : list tnode) : list N :=
  render auto w root (print_nodes ast) (lay_nodes 0 ast).
