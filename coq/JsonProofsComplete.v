(* JsonProofsComplete.v -- completeness of the reader for the grammar Val: every document of
   the grammar is accepted with exactly the value the grammar assigns. *)
From Coq Require Import NArith ZArith List Bool Lia.
From Qv Require Import gen.Tables_json JsonModel JsonSpec JsonProofsBase JsonProofsStr JsonProofsNum JsonProofsParse.
Import ListNotations.
Local Open Scope N_scope.

Lemma scan_first : forall c t n, scan_number (c :: t) = JOk n -> n <> NumNaN ->
  (c =? dc_neg) || (c =? dc_pos) || is_dig19 c || (c =? dc_zero) || (c =? dc_dot) = true.
Proof.
  intros c t n H Hn. unfold scan_number in H. cbn [has negb rd bind] in H.
  destruct (c =? dc_neg); [reflexivity|]. destruct (c =? dc_pos); [reflexivity|]. cbn [orb].
  unfold scan_unsigned in H. cbn [has negb rd bind] in H.
  destruct (is_dig19 c); [reflexivity|]. cbn [orb].
  destruct ((c =? dc_zero) || (c =? dc_dot)) eqn:E; [reflexivity|].
  inversion H; subst. congruence.
Qed.

Lemma val_head : forall w r v r', Val w r v r' ->
  exists c t, r = c :: t /\ (c =? jc_esquare) = false /\ (c =? jc_ecurly) = false.
Proof.
  intros w r v r' H. destruct H; try (eexists; eexists; split; [reflexivity|split; reflexivity]).
  exists c, t. split; [reflexivity|].
  assert (Hn : n <> NumNaN) by (intros E; subst n; discriminate).
  pose proof (scan_first c t n H0 Hn) as Hc.
  destruct (c =? jc_esquare) eqn:E1; [apply N.eqb_eq in E1; subst c; discriminate|].
  destruct (c =? jc_ecurly) eqn:E2; [apply N.eqb_eq in E2; subst c; discriminate|].
  auto.
Qed.

Lemma elems_head : forall w r acc out r', Elems w r acc out r' ->
  exists c t, r = c :: t /\ (c =? jc_esquare) = false.
Proof. intros w r acc out r' H. destruct H as [r v r1 r' acc H _|r v r1 r2 acc vs r' H _ _]; apply val_head in H; destruct H as (c & t & H1 & H2 & _); eauto. Qed.

Lemma members_head : forall w r acc out r', Members w r acc out r' -> exists t, r = jc_quote :: t.
Proof. intros w r acc out r' H. destruct H; eauto. Qed.

Lemma val_len : forall w r v r', Val w r v r' -> (length r' < length r)%nat.
Proof.
  intros w r v r' H. destruct (proj1 (Val_consumes_all w) _ _ _ H) as (b & Hb & E). subst r.
  rewrite app_length. destruct b; [congruence|cbn; lia].
Qed.

Definition pcomplete (w : N) : Prop :=
  (forall r v r', Val w r v r' -> forall f, (2 * length r < f)%nat -> pval f w [] r = JOk (v, r', [])) /\
  (forall r acc out r', Elems w r acc out r' -> forall f, (2 * length r + 1 < f)%nat -> arr_loop f w acc [] r = JOk (JArr out, r', [])) /\
  (forall r acc out r', Members w r acc out r' -> forall f, (2 * length r + 1 < f)%nat -> obj_loop f w acc [] r = JOk (JObj out, r', [])).

Lemma kw_complete : forall lit l0 body v r0, lit = l0 :: body ++ [0] -> Forall (fun t => t <> 0) body ->
  kw_match lit v (body ++ r0) = JOk (Some (v, r0)).
Proof.
  intros lit l0 body v r0 Hl Hb. subst lit.
  destruct (kw_match_spec l0 body v (body ++ r0) Hb) as [(r2 & H1 & H2)|[H1 H2]].
  - apply app_inv_head in H1. subst r2. assumption.
  - exfalso. eapply H1. reflexivity.
Qed.

Lemma pcomplete_all : forall w, pcomplete w.
Proof.
  intros w. apply (Val_mutind w
    (fun r v r' => forall f, (2 * length r < f)%nat -> pval f w [] r = JOk (v, r', []))
    (fun r acc out r' => forall f, (2 * length r + 1 < f)%nat -> arr_loop f w acc [] r = JOk (JArr out, r', []))
    (fun r acc out r' => forall f, (2 * length r + 1 < f)%nat -> obj_loop f w acc [] r = JOk (JObj out, r', []))).
  - (* null *) intros r f Hf. destruct f as [|f]; [lia|]. change (strip0 jc_null_lit ++ r) with (110 :: ([117; 108; 108] ++ r)). cbn [pval has negb rd bind adv].
    change (110 =? jc_scurly) with false. change (110 =? jc_ssquare) with false. change (110 =? jc_quote) with false.
    change (110 =? jc_t) with false. change (110 =? jc_f) with false. change (110 =? jc_n) with true. cbn iota.
    rewrite (kw_complete jc_null_lit 110 [117; 108; 108] JNull r); [reflexivity|reflexivity|repeat constructor; discriminate].
  - (* true *) intros r f Hf. destruct f as [|f]; [lia|]. change (strip0 jc_true_lit ++ r) with (116 :: ([114; 117; 101] ++ r)). cbn [pval has negb rd bind adv].
    change (116 =? jc_scurly) with false. change (116 =? jc_ssquare) with false. change (116 =? jc_quote) with false.
    change (116 =? jc_t) with true. cbn iota.
    rewrite (kw_complete jc_true_lit 116 [114; 117; 101] JTrue r); [reflexivity|reflexivity|repeat constructor; discriminate].
  - (* false *) intros r f Hf. destruct f as [|f]; [lia|]. change (strip0 jc_false_lit ++ r) with (102 :: ([97; 108; 115; 101] ++ r)). cbn [pval has negb rd bind adv].
    change (102 =? jc_scurly) with false. change (102 =? jc_ssquare) with false. change (102 =? jc_quote) with false.
    change (102 =? jc_t) with false. change (102 =? jc_f) with true. cbn iota.
    rewrite (kw_complete jc_false_lit 102 [97; 108; 115; 101] JFalse r); [reflexivity|reflexivity|repeat constructor; discriminate].
  - (* number *) intros c t n v r' Hs Hn Hv f Hf. destruct f as [|f]; [lia|]. cbn [pval has negb rd bind].
    unfold num_start in Hs. apply negb_true_iff in Hs.
    repeat (apply orb_false_iff in Hs; destruct Hs as [Hs ?]).
    rewrite Hs. repeat match goal with H : (c =? _) = false |- _ => rewrite H end.
    rewrite Hn. cbn [bind]. destruct n; cbn in Hv; inversion Hv; subst; reflexivity.
  - (* string *) intros sb s r HS f Hf. destruct f as [|f]; [lia|]. cbn [pval has negb rd bind adv].
    change (jc_quote =? jc_scurly) with false. change (jc_quote =? jc_ssquare) with false. rewrite N.eqb_refl. cbn iota.
    rewrite (pstring_complete w sb s r HS). reflexivity.
  - (* empty array *) intros r1 r Ht f Hf. destruct f as [|f]; [lia|]. cbn [pval has negb rd bind adv].
    change (jc_ssquare =? jc_scurly) with false. rewrite N.eqb_refl. cbn iota.
    rewrite Ht. cbn [has negb rd bind adv]. rewrite N.eqb_refl. reflexivity.
  - (* array *) intros r1 vs r He IH f Hf. destruct f as [|f]; [lia|]. cbn [pval has negb rd bind adv].
    change (jc_ssquare =? jc_scurly) with false. rewrite N.eqb_refl. cbn iota.
    destruct (elems_head _ _ _ _ _ He) as (c & t & E1 & E2). rewrite E1 in *. cbn [has negb rd bind adv]. rewrite E2. cbn iota.
    apply IH. pose proof (trim_length r1). rewrite E1 in H. cbn in *. lia.
  - (* empty object *) intros r1 r Ht f Hf. destruct f as [|f]; [lia|]. cbn [pval has negb rd bind adv].
    rewrite N.eqb_refl. cbn iota.
    rewrite Ht. cbn [has negb rd bind adv]. rewrite N.eqb_refl. reflexivity.
  - (* object *) intros r1 ms r He IH f Hf. destruct f as [|f]; [lia|]. cbn [pval has negb rd bind adv].
    rewrite N.eqb_refl. cbn iota.
    destruct (members_head _ _ _ _ _ He) as (t & E1). rewrite E1 in *. cbn [has negb rd bind adv].
    change (jc_quote =? jc_ecurly) with false. cbn iota.
    apply IH. pose proof (trim_length r1). rewrite E1 in H. cbn in *. lia.
  - (* last element *) intros r v r1 r' acc Hv IHv Ht f Hf. destruct f as [|f]; [lia|]. cbn [arr_loop].
    destruct (val_head _ _ _ _ Hv) as (c & t & E1 & _). rewrite E1 in *. cbn [has].
    rewrite IHv by lia. cbn [bind]. rewrite Ht. cbn [has rd bind adv].
    change (jc_esquare =? jc_comma) with false. rewrite N.eqb_refl. reflexivity.
  - (* more elements *) intros r v r1 r2 acc vs r' Hv IHv Ht He IHe f Hf. destruct f as [|f]; [lia|]. cbn [arr_loop].
    pose proof (val_len _ _ _ _ Hv) as Hl.
    destruct (val_head _ _ _ _ Hv) as (c & t & E1 & _). rewrite E1 in *. cbn [has].
    rewrite IHv by lia. cbn [bind]. rewrite Ht. cbn [has rd bind adv]. rewrite N.eqb_refl.
    apply IHe. pose proof (trim_length r1). pose proof (trim_length r2). rewrite Ht in H. cbn in *. lia.
  - (* last member *) intros sb key r2 r3 v r4 r' acc HS Ht2 Hv IHv Ht4 f Hf. destruct f as [|f]; [lia|]. cbn [obj_loop has rd bind adv].
    rewrite N.eqb_refl. cbn [bind]. rewrite (pstring_complete w sb key r2 HS). cbn [bind].
    rewrite Ht2. cbn [has rd bind adv]. rewrite N.eqb_refl. cbn [bind].
    rewrite IHv.
    2:{ pose proof (trim_length r2). pose proof (trim_length r3). rewrite Ht2 in H. cbn in *. rewrite app_length in Hf. cbn in *. lia. }
    cbn [bind]. rewrite Ht4. cbn [has rd bind adv].
    change (jc_ecurly =? jc_comma) with false. rewrite N.eqb_refl. reflexivity.
  - (* more members *) intros sb key r2 r3 v r4 r5 acc out r' HS Ht2 Hv IHv Ht4 Hm IHm f Hf. destruct f as [|f]; [lia|]. cbn [obj_loop has rd bind adv].
    rewrite N.eqb_refl. cbn [bind]. rewrite (pstring_complete w sb key r2 HS). cbn [bind].
    rewrite Ht2. cbn [has rd bind adv]. rewrite N.eqb_refl. cbn [bind].
    pose proof (val_len _ _ _ _ Hv) as Hl.
    pose proof (trim_length r2) as L2. pose proof (trim_length r3) as L3. rewrite Ht2 in L2.
    pose proof (trim_length r4) as L4. pose proof (trim_length r5) as L5. rewrite Ht4 in L4.
    rewrite IHv by (cbn in *; rewrite app_length in Hf; cbn in *; lia).
    cbn [bind]. rewrite Ht4. cbn [has rd bind adv]. rewrite N.eqb_refl.
    apply IHm. cbn in *. rewrite app_length in Hf. cbn in *. lia.
Qed.

Theorem parse_complete : forall w s v, Document w s v -> parse w s = JOk v.
Proof.
  intros w s v (r1 & Hv & Ht). unfold parse, parse_fuel.
  destruct (val_head _ _ _ _ Hv) as (c & t & E1 & _).
  destruct (length s =? 0)%nat eqn:E0.
  { apply Nat.eqb_eq in E0. destruct s; [cbn in E1; discriminate|discriminate]. }
  destruct (pcomplete_all w) as [Hc _]. rewrite (Hc _ _ _ Hv) by (pose proof (trim_length s); lia).
  cbn [bind]. rewrite Ht. reflexivity.
Qed.

(* the reader is a function: a text is a document of at most one value *)
Theorem document_unique : forall w s v1 v2, Document w s v1 -> Document w s v2 -> v1 = v2.
Proof. intros w s v1 v2 H1 H2. apply parse_complete in H1. apply parse_complete in H2. congruence. Qed.
