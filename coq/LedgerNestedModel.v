(* LedgerNestedModel.v -- C16, phase 3: a container whose elements own nested containers of the same kind,
   Array<Node> with Node = {id; kids : Array<Node>} (cpp/drv_nested.cpp), with the ELEMENT BLOCK explicit:
   the record of root[i].kids lives inside root's element block, so a C++ reference to it dangles as soon as
   root grows (relocation = new block, bitwise transfer of the element records, release of the old block).

   Representation (types of coq/LedgerValueModel.v):
     an Array<Node>   [Node TArr own kids]   own = its element block ([] while the capacity is 0)
     a Node record    [Node (TItem id) [] [its kids array]]   (the record itself lies in the parent's block)
     the variable     [Node TRoot [] [a]]   ("a" of drv_nested.cpp lives on the stack: path [0])
     locations        a = [0], a[i].kids = [0; i; 0], a[i].kids[j].kids = [0; i; 0; j; 0]
   A reference to the array record at location s is only usable while the block that HOLDS the record is
   live: [holder tree s] is that block (the element block of the enclosing array; nothing for the variable).
   [deref] = check_live of the holder: Error UAF through a dangling reference.  Whether an append
   reallocates is capacity policy: the operation carries a flag (forced when there is no storage).

   Operations, in the order of the CURRENT code (Array.hpp after D50 / D52):
     NPush d id grow        d += Node{id}
     NMoveAssign d s        d = Move(s)      read and clear the source record, then dispose the old elements of d
                                             and release its old block    (ops 0 and 5 of drv_nested.cpp)
     NCopyAssign d s        d = s            read the source, build the copy, then dispose / release the old state  (op 1)
     NAppendCopy d s grow   d += s           read the source record (pointer, size) FIRST, then grow, then copy the
                                             items (they lie in the source's own block, which does not move)      (op 2)
     NAppendMove d s grow   d += Move(s)     read and clear the source record FIRST, then grow, transfer the element
                                             records bitwise, release the source's block                          (op 4)
   [append_copy_resize_first] / [append_move_resize_first] are the orders before D52 (grow, then read src). *)
From Coq Require Import NArith List Arith Bool.
From Qv Require Import SeqModel LedgerValueModel.
Import ListNotations.

Definition empty_arr : val := Node TArr [] [].
Definition leaf (id : nat) : val := Node (TItem id) [] [empty_arr].
Definition is_arr (v : val) : bool := match vtag v with TArr => true | _ => false end.

(* the block that holds the array record at location s *)
Definition holder (tree : val) (s : path) : list nat :=
  match rev s with
  | 0 :: _ :: rq => match vget tree (rev rq) with Some par => vown par | None => [] end
  | _ => []
  end.

(* state: heap, tree, and the blocks currently held by locals of the running operation (none between operations) *)
Definition nstate := (vheap * val)%type.
Definition nstate0 : nstate := (vheap0, Node TRoot [] [empty_arr]).

(* the node at p becomes c' using k fresh blocks; rem is released *)
Definition change (h : vheap) (tree : val) (p : path) (c' : val) (k : nat) (rem : list nat) : res nstate :=
  h2 <- vfree_list (valloc_n h k) rem ;; Ok (h2, vset tree p c').

Definition arr_at (tree : val) (p : path) : option val :=
  match vget tree p with Some c => if is_arr c then Some c else None | None => None end.

(* Array::resize of the array c: new block, bitwise transfer, release of the old block *)
Definition resized (grow : bool) (c : val) (n : nat) : val * nat * list nat :=
  let '(own', k, rem) := grown grow (vown c) n in (Node TArr own' (vkids c), k, rem).

Definition npush (st : nstate) (d : path) (id : nat) (grow : bool) : res nstate :=
  let '(h, tree) := st in
  match arr_at tree d with
  | Some c => let '(c1, k, rem) := resized grow c (nxt h) in
              change h tree d (Node TArr (vown c1) (vkids c ++ [leaf id])) k rem
  | None => Ok st
  end.

Definition nmove_assign (st : nstate) (d s : path) : res nstate :=
  let '(h, tree) := st in
  match arr_at tree d, arr_at tree s with
  | Some _, Some sub =>
      _ <- check_live h (holder tree s) ;;                   (* read src.Storage() / Size() / Capacity() *)
      let tree1 := vset tree s empty_arr in                   (* src.clearStorage() ...: written through the reference *)
      match vget tree1 d with
      | Some c => change h tree1 d sub 0 (blocks c)           (* Dispose(old elements); Deallocate(old block) *)
      | None => Ok st                                         (* d inside s: outside the domain *)
      end
  | _, _ => Ok st
  end.

Definition ncopy_assign (st : nstate) (d s : path) : res nstate :=
  let '(h, tree) := st in
  match arr_at tree d, arr_at tree s with
  | Some c, Some src =>
      _ <- check_live h (holder tree s) ;;                   (* src.Size() *)
      _ <- check_live h (blocks src) ;;                      (* copyArray(src) reads the items and everything below *)
      change h tree d (copy_of (nxt h) src) (length (blocks (norm src))) (blocks c)
  | _, _ => Ok st
  end.

Definition nappend_copy (st : nstate) (d s : path) (grow : bool) : res nstate :=
  let '(h, tree) := st in
  match arr_at tree d, arr_at tree s with
  | Some c, Some src0 =>
      _ <- check_live h (holder tree s) ;;                   (* src.Size(), src.First(): BEFORE resizing *)
      match vkids src0 with
      | [] => Ok st
      | _ =>
        let '(c1, k, rem) := resized grow c (nxt h) in
        st1 <- change h tree d c1 k rem ;;                    (* resize(n_size) *)
        let '(h1, tree1) := st1 in
        match arr_at tree1 s with
        | Some src =>
            _ <- check_live h1 (blocks src) ;;                (* the items are read through the saved pointer *)
            let '(n1, news) := copies (nxt h1) (vkids src) in
            change h1 tree1 d (Node TArr (vown c1) (vkids c1 ++ news)) (n1 - nxt h1) []
        | None => Ok st1
        end
      end
  | _, _ => Ok st
  end.

Definition nappend_move (st : nstate) (d s : path) (grow : bool) : res nstate :=
  let '(h, tree) := st in
  if unrelated d s || is_prefix d s then
  match arr_at tree d, arr_at tree s with
  | Some _, Some sub =>
      _ <- check_live h (holder tree s) ;;                   (* src.Storage() ... read, then cleared: BEFORE resizing *)
      let tree1 := vset tree s empty_arr in
      match arr_at tree1 d with
      | Some c =>
          match vown c with
          | [] => change h tree1 d (Node TArr (vown sub) (vkids c ++ vkids sub)) 0 []      (* Capacity() == 0: adopt the storage *)
          | _ =>
            let '(c1, k, rem) := resized grow c (nxt h) in
            st1 <- change h tree1 d c1 k rem ;;               (* resize(n_size) *)
            let '(h1, tree2) := st1 in
            _ <- check_live h1 (vown sub) ;;                  (* Memory::Copy from src_storage *)
            change h1 tree2 d (Node TArr (vown c1) (vkids c1 ++ vkids sub)) 0 (vown sub)   (* Deallocate(src_storage) *)
          end
      | None => Ok st
      end
  | _, _ => Ok st
  end
  else Ok st.

Inductive nop :=
| NPush (d : path) (id : nat) (grow : bool)
| NMoveAssign (d s : path) | NCopyAssign (d s : path)
| NAppendCopy (d s : path) (grow : bool) | NAppendMove (d s : path) (grow : bool).

Definition nstep (st : nstate) (op : nop) : res nstate :=
  match op with
  | NPush d id grow => npush st d id grow
  | NMoveAssign d s => nmove_assign st d s
  | NCopyAssign d s => ncopy_assign st d s
  | NAppendCopy d s grow => nappend_copy st d s grow
  | NAppendMove d s grow => nappend_move st d s grow
  end.

Fixpoint nrun (ops : list nop) (st : nstate) : res nstate :=
  match ops with [] => Ok st | op :: r => st1 <- nstep st op ;; nrun r st1 end.

(* ---- the orders before D52: grow first, then read the source record through the (dangling) reference ---- *)
Definition append_copy_resize_first (st : nstate) (d s : path) (grow : bool) : res nstate :=
  let '(h, tree) := st in
  match arr_at tree d, arr_at tree s with
  | Some c, Some _ =>
      let '(c1, k, rem) := resized grow c (nxt h) in
      st1 <- change h tree d c1 k rem ;;
      _ <- check_live (fst st1) (holder tree s) ;;            (* src.First() / src.Size() after the relocation *)
      Ok st1
  | _, _ => Ok st
  end.

Definition append_move_resize_first (st : nstate) (d s : path) (grow : bool) : res nstate :=
  let '(h, tree) := st in
  match arr_at tree d, arr_at tree s with
  | Some c, Some _ =>
      let '(c1, k, rem) := resized grow c (nxt h) in
      st1 <- change h tree d c1 k rem ;;
      _ <- check_live (fst st1) (holder tree s) ;;            (* src.Storage() after the relocation *)
      Ok st1
  | _, _ => Ok st
  end.

(* ---- abstract contents: what drv_nested.cpp prints with flat() (ids in order, brackets as 0-tokens) ---- *)
Inductive tok := TOpen | TClose | TId (n : nat).
Fixpoint flat (v : val) : list tok :=
  match v with
  | Node TArr _ kids => TOpen :: flat_map flat kids ++ [TClose]
  | Node (TItem id) _ kids => TId id :: flat_map flat kids
  | Node _ _ kids => flat_map flat kids
  end.
Definition contents (st : nstate) : list tok := flat (snd st).

(* ---- correspondence: the trace of contents of a history (what cpp/drv_ledger_nested.cpp prints) ---- *)
Fixpoint ntrace (ops : list nop) (st : nstate) : res (list (list tok)) :=
  match ops with
  | [] => Ok []
  | op :: r => st1 <- nstep st op ;; t <- ntrace r st1 ;; Ok (contents st1 :: t)
  end.

(* ---- specification: nested vectors with value semantics (the std::vector mirror of drv_nested.cpp) ---- *)
Inductive ptree := PNode (id : nat) (kids : list ptree).
Definition pkids (t : ptree) := match t with PNode _ k => k end.

(* a model location 0 :: i :: 0 :: j :: 0 ... as the indices i, j, ... *)
Fixpoint spath_pairs (p : path) : option (list nat) :=
  match p with
  | [] => Some []
  | i :: 0 :: r => match spath_pairs r with Some q => Some (i :: q) | None => None end
  | _ => None
  end.
Definition spath (p : path) : option (list nat) := match p with 0 :: r => spath_pairs r | _ => None end.

Fixpoint sget (arr : list ptree) (q : list nat) : option (list ptree) :=
  match q with
  | [] => Some arr
  | i :: r => match nth_error arr i with Some t => sget (pkids t) r | None => None end
  end.
Fixpoint sset (arr : list ptree) (q : list nat) (x : list ptree) : list ptree :=
  match q with
  | [] => x
  | i :: r => match nth_error arr i with
              | Some (PNode id kids) => replace_nth arr i (PNode id (sset kids r x))
              | None => arr
              end
  end.

Definition sstep_nested (arr : list ptree) (op : nop) : list ptree :=
  match op with
  | NPush d id _ =>
      match spath d with
      | Some qd => match sget arr qd with Some dv => sset arr qd (dv ++ [PNode id []]) | None => arr end
      | None => arr
      end
  | NMoveAssign d s =>
      match spath d, spath s with
      | Some qd, Some qs =>
          match sget arr qd, sget arr qs with
          | Some _, Some sub => let arr1 := sset arr qs [] in
                                match sget arr1 qd with Some _ => sset arr1 qd sub | None => arr end
          | _, _ => arr
          end
      | _, _ => arr
      end
  | NCopyAssign d s =>
      match spath d, spath s with
      | Some qd, Some qs => match sget arr qd, sget arr qs with Some _, Some sub => sset arr qd sub | _, _ => arr end
      | _, _ => arr
      end
  | NAppendCopy d s _ =>
      match spath d, spath s with
      | Some qd, Some qs => match sget arr qd, sget arr qs with Some dv, Some sub => sset arr qd (dv ++ sub) | _, _ => arr end
      | _, _ => arr
      end
  | NAppendMove d s _ =>
      if unrelated d s || is_prefix d s then
        match spath d, spath s with
        | Some qd, Some qs =>
            match sget arr qd, sget arr qs with
            | Some _, Some sub => let arr1 := sset arr qs [] in
                                  match sget arr1 qd with Some dv => sset arr1 qd (dv ++ sub) | None => arr end
            | _, _ => arr
            end
        | _, _ => arr
        end
      else arr
  end.

Fixpoint pflat (t : ptree) : list tok :=
  match t with PNode id kids => TId id :: TOpen :: flat_map pflat kids ++ [TClose] end.
Definition pcontents (arr : list ptree) : list tok := TOpen :: flat_map pflat arr ++ [TClose].

Fixpoint strace (ops : list nop) (arr : list ptree) : list (list tok) :=
  match ops with
  | [] => []
  | op :: r => let arr1 := sstep_nested arr op in pcontents arr1 :: strace r arr1
  end.
