(* Extract_ledgervalue.v -- extraction of the Value-tree ownership model (coq/LedgerValueModel.v) to OCaml
   (ExtrOcamlBasic only; nat, positive, N, Z stay the extracted inductive types). *)
From Coq Require Import Extraction ExtrOcamlBasic NArith ZArith.
From Qv Require Import SeqModel LedgerValueModel.
Extraction Language OCaml.
Set Extraction Optimize.
Extraction "model_ledgervalue.ml"
  N.add N.mul N.sub N.div_eucl N.compare Z.add Z.mul Z.sub Z.div_eucl Z.compare Z.of_N Z.to_N Z.opp
  LedgerValueModel.vstate0 LedgerValueModel.vstep_obs LedgerValueModel.vfinal_live.
