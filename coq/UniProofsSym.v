(* UniProofsSym.v -- C20: second, symbolic proof of the encoder theorems, by ranges
   (shift = division, mask = remainder, or with disjoint bits = sum).  It does not
   use the UniSweep*.v files: the only computations are over at most 1024 values. *)
From Coq Require Import NArith ZArith List Bool Lia ZifyBool ZifyNat ZifyN.
From Qv Require Import UniModel UniProofsBase.
Import ListNotations.
Local Open Scope N_scope.
Ltac Zify.zify_post_hook ::= Z.div_mod_to_equations.

(* or-ing a lead pattern with a payload that fits under it is addition *)
Lemma lor_lead : forall lead bits b,
  forall_bits bits 0 (fun x => N.lor lead x =? lead + x) = true ->
  b < 2 ^ N.of_nat bits -> N.lor lead b = lead + b.
Proof.
  intros lead bits b H Hb. pose proof (forall_bits_below bits _ H b Hb) as E. cbv beta in E.
  now apply N.eqb_eq in E.
Qed.

Lemma lor_80 : forall b, b < 64 -> N.lor 0x80 b = 128 + b.
Proof. intros b Hb. apply (lor_lead 0x80 6 b); [vm_compute; reflexivity|exact Hb]. Qed.
Lemma lor_C0 : forall b, b < 32 -> N.lor 0xC0 b = 192 + b.
Proof. intros b Hb. apply (lor_lead 0xC0 5 b); [vm_compute; reflexivity|exact Hb]. Qed.
Lemma lor_E0 : forall b, b < 16 -> N.lor 0xE0 b = 224 + b.
Proof. intros b Hb. apply (lor_lead 0xE0 4 b); [vm_compute; reflexivity|exact Hb]. Qed.
Lemma lor_F0 : forall b, b < 8 -> N.lor 0xF0 b = 240 + b.
Proof. intros b Hb. apply (lor_lead 0xF0 3 b); [vm_compute; reflexivity|exact Hb]. Qed.
Lemma lor_D800 : forall b, b < 1024 -> N.lor 0xD800 b = 55296 + b.
Proof. intros b Hb. apply (lor_lead 0xD800 10 b); [vm_compute; reflexivity|exact Hb]. Qed.
Lemma lor_DC00 : forall b, b < 1024 -> N.lor 0xDC00 b = 56320 + b.
Proof. intros b Hb. apply (lor_lead 0xDC00 10 b); [vm_compute; reflexivity|exact Hb]. Qed.

Lemma shr6 : forall u, N.shiftr u 6 = u / 64.
Proof. intros u. now rewrite N.shiftr_div_pow2. Qed.
Lemma shr10 : forall u, N.shiftr u 10 = u / 1024.
Proof. intros u. now rewrite N.shiftr_div_pow2. Qed.
Lemma shr12 : forall u, N.shiftr u 12 = u / 4096.
Proof. intros u. now rewrite N.shiftr_div_pow2. Qed.
Lemma shr18 : forall u, N.shiftr u 18 = u / 262144.
Proof. intros u. now rewrite N.shiftr_div_pow2. Qed.
Lemma and3F : forall u, N.land u 0x3F = u mod 64.
Proof. intros u. change 0x3F with (N.ones 6). now rewrite N.land_ones. Qed.
Lemma and3FF : forall u, N.land u 0x3FF = u mod 1024.
Proof. intros u. change 0x3FF with (N.ones 10). now rewrite N.land_ones. Qed.

Lemma c8_small : forall x, x < 256 -> c8 x = x.
Proof. intros x H. unfold c8. now apply N.mod_small. Qed.
Lemma c16_small : forall x, x < 65536 -> c16 x = x.
Proof. intros x H. unfold c16. now apply N.mod_small. Qed.

(* holds for every value below 0x110000, surrogates included *)
Lemma encode_utf8_sym : forall cp, cp < 0x110000 -> to_utf8 cp = std_utf8 cp.
Proof.
  intros cp Hcp. unfold to_utf8, std_utf8.
  rewrite !shr6, !shr12, !shr18, !and3F.
  destruct (N.ltb_spec cp 0x80) as [H1|H1]; [rewrite c8_small by lia; reflexivity|].
  destruct (N.ltb_spec cp 0x800) as [H2|H2].
  { cbn [app]. rewrite lor_C0, lor_80 by lia. rewrite !c8_small by lia. reflexivity. }
  destruct (N.ltb_spec cp 0x10000) as [H3|H3].
  { cbn [app]. rewrite lor_E0 by lia. rewrite !lor_80 by lia. rewrite !c8_small by lia. reflexivity. }
  cbn [app]. rewrite lor_F0 by lia. rewrite !lor_80 by lia. rewrite !c8_small by lia. reflexivity.
Qed.

Lemma encode_utf16_sym : forall cp, scalar cp -> to_utf16 cp = std_utf16 cp.
Proof.
  intros cp Hs. pose proof Hs as Hb. unfold scalar in Hb. unfold to_utf16, std_utf16.
  destruct (N.ltb_spec cp 0x10000) as [H1|H1]; [rewrite c16_small by lia; reflexivity|].
  cbv zeta. unfold u32. rewrite (N.mod_small (cp - 0x10000)) by lia.
  rewrite shr10, and3FF. rewrite lor_D800, lor_DC00 by lia. rewrite !c16_small by lia. reflexivity.
Qed.

(* the specification against the independent decoders, symbolically *)
Lemma if_true : forall (b : bool) (x : N), b = true -> (if b then Some x else None) = Some x.
Proof. intros b x H. now rewrite H. Qed.

Lemma dec_utf8_sym : forall cp, scalar cp -> dec_utf8 (std_utf8 cp) = Some cp.
Proof.
  intros cp Hs. unfold scalar in Hs. unfold std_utf8.
  destruct (N.ltb_spec cp 128) as [H1|H1]; [cbn [dec_utf8]; rewrite if_true by lia; reflexivity|].
  destruct (N.ltb_spec cp 2048) as [H2|H2]; [cbn [dec_utf8]; rewrite if_true by lia; f_equal; lia|].
  destruct (N.ltb_spec cp 65536) as [H3|H3]; [cbn [dec_utf8]; rewrite if_true by lia; f_equal; lia|].
  cbn [dec_utf8]. rewrite if_true by lia. f_equal. lia.
Qed.

Lemma dec_utf16_sym : forall cp, scalar cp -> dec_utf16 (std_utf16 cp) = Some cp.
Proof.
  intros cp Hs. unfold scalar in Hs. unfold std_utf16.
  destruct (N.ltb_spec cp 65536) as [H1|H1]; [cbn [dec_utf16]; rewrite if_true by lia; reflexivity|].
  cbn [dec_utf16]. rewrite if_true by lia. f_equal. lia.
Qed.
