(* Properties_C14.v -- the C14 theorems and nothing else. *)
From Coq Require Import NArith List.
From Qv Require Import SeqModel SeqProofs.
Import ListNotations.

Theorem c14_placeholder : forall T (f : nat -> T) i v, upd f i v i = v.
Proof. exact upd_same. Qed.
Print Assumptions c14_placeholder.
