(* Properties_C14.v -- the C14 theorems and nothing else.  Each is closed by [exact] of a
   lemma from SeqProofs*.v and followed by Print Assumptions.
   Model: coq/SeqModel.v (heap of blocks; reads / writes through freed, out-of-range or
   null positions are Error UAF / OOB / NullDeref).  All statements quantify over every
   finite operation history / every state satisfying the pool invariant (induction, no bound),
   every pool size (objects are indexed by nat) and, for Array, every element type. *)
From Coq Require Import NArith List.
From Qv Require Import SeqModel SeqProofs SeqProofsArray SeqProofsStream SeqProofsString SeqProofsView SeqProofsMem SeqProofsTop.
Import ListNotations.

(* ---- Array<T>: histories from the empty pool ---- *)
(* the model never fails, its outputs are the list specification's outputs, what an observer
   reads of every object is the specification's list, and size <= capacity *)
Theorem c14_array_history : forall (A : Type) (junk d : A) (ops : list (@aop A)), Forall aop_ok ops ->
  exists w, run (astep junk d) ops world0 = Ok (w, snd (spec_run (aspec d) ops spec0)) /\
    forall k, dump w k = Ok (fst (spec_run (aspec d) ops spec0) k) /\ size (ob w k) <= cap (ob w k).
Proof. exact @array_history. Qed.
Print Assumptions c14_array_history.

(* no use-after-free, out-of-bounds or null access in any history *)
Theorem c14_array_no_uaf_oob : forall (A : Type) (junk d : A) (ops : list (@aop A)) e,
  Forall aop_ok ops -> run (astep junk d) ops world0 <> Error e.
Proof. exact @array_no_error. Qed.
Print Assumptions c14_array_no_uaf_oob.

(* per operation, from every state of the pool invariant *)
Theorem c14_array_step : forall (A : Type) (junk d : A) (w : @world A) s op, ainv w s -> aop_ok op ->
  exists w', astep junk d w op = Ok (w', snd (aspec d s op)) /\ ainv w' (fst (aspec d s op)).
Proof. exact @astep_refines. Qed.
Print Assumptions c14_array_step.

(* the invariant means: contents = specification, size <= capacity *)
Theorem c14_array_invariant_meaning : forall (A : Type) (w : @world A) s k, ainv w s ->
  dump w k = Ok (s k) /\ size (ob w k) <= cap (ob w k).
Proof. exact @ainv_dump. Qed.
Print Assumptions c14_array_invariant_meaning.

(* appends (item, another array, the array itself, one of its own elements) keep every earlier
   element and every other object *)
Theorem c14_array_append_keeps_prefix : forall (A : Type) (junk d : A) (w : @world A) s op i, ainv w s -> aop_ok op ->
  (exists x, op = AAppendItem i x) \/ (exists j, op = AAppendCopy i j) \/ (exists k, op = AAppendOwn i k) ->
  exists w' tail, astep junk d w op = Ok (w', ONone) /\ dump w' i = Ok (s i ++ tail) /\
    forall k, k <> i -> dump w' k = Ok (s k).
Proof. exact @array_append_keeps_prefix. Qed.
Print Assumptions c14_array_append_keeps_prefix.

(* capacity changes never lose or duplicate elements *)
Theorem c14_array_capacity_keeps_content : forall (A : Type) (junk d : A) (w : @world A) s op, ainv w s ->
  (exists i n, op = AExpect i n) \/ (exists i, op = ACompress i) \/ (exists i n, op = AResize i n /\ length (s i) <= n) ->
  exists w', astep junk d w op = Ok (w', ONone) /\ forall k, dump w' k = Ok (s k).
Proof. exact @array_capacity_keeps_content. Qed.
Print Assumptions c14_array_capacity_keeps_content.

(* Swap(Storage()[k1], Storage()[k2]): what the specification's list becomes is the exchange of the two
   positions (same length, position k2 holds the old k1, k1 the old k2, every other position unchanged);
   range-for, Last, IsEmpty and the stream-insertion operators are read-only operations of the histories
   above: their outputs are the specification's list / its last element / length = 0 / its C-string prefix *)
Theorem c14_swap_meaning : forall (T : Type) (l : list T) k1 k2 d, k1 < length l -> k2 < length l ->
  let l' := splice (splice l k1 [nth k2 l d]) k2 [nth k1 l d] in
  length l' = length l /\
  forall k, nth k l' d = if Nat.eqb k k2 then nth k1 l d else if Nat.eqb k k1 then nth k2 l d else nth k l d.
Proof. exact @swap_spec_meaning. Qed.
Print Assumptions c14_swap_meaning.

(* ---- String ---- *)
(* as above, and the NUL terminator is present at [Length()] of every object after every history *)
Theorem c14_string_history : forall ops : list sop, Forall sop_ok ops ->
  exists w, run sstep ops world0 = Ok (w, snd (spec_run sspec ops spec0)) /\
    forall k, dump w k = Ok (fst (spec_run sspec ops spec0) k) /\ term_ok w k = Ok true.
Proof. exact string_history. Qed.
Print Assumptions c14_string_history.

Theorem c14_string_no_uaf_oob : forall (ops : list sop) e, Forall sop_ok ops -> run sstep ops world0 <> Error e.
Proof. exact string_no_error. Qed.
Print Assumptions c14_string_no_uaf_oob.

Theorem c14_string_step : forall (w : wN) s op, sinv w s -> sop_ok op ->
  exists w', sstep w op = Ok (w', snd (sspec s op)) /\ sinv w' (fst (sspec s op)).
Proof. exact sstep_refines. Qed.
Print Assumptions c14_string_step.

Theorem c14_string_invariant_meaning : forall (w : wN) s k, sinv w s -> dump w k = Ok (s k) /\ term_ok w k = Ok true.
Proof. exact sinv_dump. Qed.
Print Assumptions c14_string_invariant_meaning.

(* ---- StringStream ---- *)
Theorem c14_stream_history : forall ops : list top, Forall top_ok ops ->
  exists w, run tstep ops world0 = Ok (w, snd (spec_run tspec ops spec0)) /\
    forall k, dump w k = Ok (fst (spec_run tspec ops spec0) k) /\ size (ob w k) <= cap (ob w k).
Proof. exact stream_history. Qed.
Print Assumptions c14_stream_history.

Theorem c14_stream_no_uaf_oob : forall (ops : list top) e, Forall top_ok ops -> run tstep ops world0 <> Error e.
Proof. exact stream_no_error. Qed.
Print Assumptions c14_stream_no_uaf_oob.

Theorem c14_stream_step : forall (w : wN) s op, ainv w s -> top_ok op ->
  exists w', tstep w op = Ok (w', snd (tspec s op)) /\ ainv w' (fst (tspec s op)).
Proof. exact tstep_refines. Qed.
Print Assumptions c14_stream_step.

(* D19: a stream appended to itself, from every state, growing or not *)
Theorem c14_stream_self_append : forall (w : wN) s i, ainv w s ->
  exists w', tstep w (TAppendObj i i) = Ok (w', ONone) /\ dump w' i = Ok (s i ++ s i) /\
    forall k, k <> i -> dump w' k = Ok (s k).
Proof. exact stream_self_append. Qed.
Print Assumptions c14_stream_self_append.

(* ---- StringView ---- *)
Theorem c14_view_history : forall ops : list vop,
  exists w, run vstep ops world0 = Ok (w, snd (spec_run vspec ops spec0)) /\
    forall k, dump w k = Ok (fst (spec_run vspec ops spec0) k).
Proof. exact view_history. Qed.
Print Assumptions c14_view_history.

(* ---- the loops behind Reverse / InsertAt / Trim equal their list meaning ---- *)
Theorem c14_reverse_loop : forall c idx, rev_loop (length c) idx (length c) c = firstn idx c ++ rev (skipn idx c).
Proof. exact SeqProofsUnits.rev_loop_spec. Qed.
Print Assumptions c14_reverse_loop.

(* ---- Memory::Copy / Memory::SetToZero: every block size 2^shift, every length, scalar or SIMD ---- *)
Theorem c14_copy_blocks : forall simd shift n src dst, n <= length src -> n <= length dst ->
  copy_blocks simd shift n src dst = Ok (firstn n src ++ skipn n dst).
Proof. exact copy_blocks_is_memcpy. Qed.
Print Assumptions c14_copy_blocks.

Theorem c14_zero_blocks : forall simd shift n dst, n <= length dst ->
  zero_blocks simd shift n dst = Ok (repeat 0%N n ++ skipn n dst).
Proof. exact zero_blocks_is_memset. Qed.
Print Assumptions c14_zero_blocks.
