(* Properties_C07.v -- C07: JSON parsing is all-or-nothing.
   Statements only; proofs in JsonProofsParse.v.  [Val w r v r'] (JsonSpec.v) is the accepted
   language as an inductive grammar: value [v] read off the front of [r] leaving [r'];
   [Document w s v]: whitespace, one value, whitespace.
   The grammar is the one of the reader AFTER the repairs D92 and D93: inside a string a backslash-u escape has exactly four
   hexadecimal digits, and a high surrogate escape is followed by a second backslash-u escape (four hexadecimal digits, value
   unchecked).  "Undefined exactly when the text is not a document" (c07_rejected_iff_not_document) speaks about this stricter
   grammar: texts such as ["\u1","abcd"], ["\u00zz"] or ["\uD800abcde","]"], accepted before, are not documents. *)
From Coq Require Import NArith ZArith List Bool.
From Qv Require Import gen.Tables_json JsonModel JsonSpec JsonProofsBase JsonProofsStr JsonProofsNum JsonProofsParse
  JsonProofsComplete JsonProofsDoc JsonProofsCst JsonProofsInt JsonProofsC06 JsonProofsPrefix JsonProofsDamage
  JsonProofsNumAlpha JsonProofsCount.
Import ListNotations.
Local Open Scope N_scope.

(* whatever the reader returns is Undefined or a fully defined value denoted by the WHOLE text:
   s = ws1 ++ body ++ ws2, body one complete value of the grammar *)
Theorem c07_all_or_nothing : forall w s v,
  parse w s = JOk v -> v <> JUndef ->
  definedb v = true /\
  exists ws1 body ws2, s = ws1 ++ body ++ ws2 /\ all_ws ws1 /\ all_ws ws2 /\ body <> [] /\ Val w (body ++ ws2) v ws2.
Proof.
  intros w s v H Hv. unfold parse in H. apply parse_fuel_sound in H. destruct H as [H|[H1 H2]]; [contradiction|].
  split; [assumption|]. apply document_shape. assumption.
Qed.
Print Assumptions c07_all_or_nothing.

(* the sub-parser invariant behind it: a sub-parser returns either (Undefined, cursor = length)
   or a value of the grammar with the scratch stream empty again *)
Theorem c07_subparser_invariant : forall f w r v r' st',
  pval f w [] r = JOk (v, r', st') -> (v = JUndef /\ r' = []) \/ (Val w r v r' /\ st' = []).
Proof. intros f w r v r' st' H. destruct (psound_all f) as [Hs _]. apply Hs in H. exact H. Qed.
Print Assumptions c07_subparser_invariant.

(* no partially built tree: no Undefined node inside a returned value *)
Theorem c07_no_partial_tree : forall w s v, parse w s = JOk v -> v = JUndef \/ definedb v = true.
Proof. intros w s v H. unfold parse in H. apply parse_fuel_sound in H. destruct H as [H|[H _]]; auto. Qed.
Print Assumptions c07_no_partial_tree.

(* a value of the grammar uses up a non-empty piece of text *)
Theorem c07_value_consumes : forall w r v r', Val w r v r' -> exists body, body <> [] /\ r = body ++ r'.
Proof. intros w. apply (Val_consumes_all w). Qed.
Print Assumptions c07_value_consumes.

(* converse: the reader rejects nothing of the grammar -- so "Undefined" means "not a document" *)
Theorem c07_rejected_iff_not_document : forall w s, parse w s = JOk JUndef <-> (forall v, ~ Document w s v).
Proof.
  intros w s. split.
  - intros H v Hd. pose proof (parse_complete w s v Hd) as Hp. rewrite Hp in H. inversion H; subst.
    destruct Hd as (r1 & Hv & _). apply Val_defined in Hv. discriminate.
  - intros H. destruct (parse_total w s) as (v & Hp & [Hv|[_ Hd]]); [subst; exact Hp|]. exfalso. eapply H; eauto.
Qed.
Print Assumptions c07_rejected_iff_not_document.

(* a complete printed document followed by anything but whitespace is rejected *)
Theorem c07_suffix_rejected : forall w c ws1 x rest,
  cval_wf w c = true -> reals_ok c -> is_container c = true -> ws_wf ws1 = true -> trim (x :: rest) <> [] ->
  parse w (ws1 ++ cprint w c ++ x :: rest) = JOk JUndef.
Proof. exact suffix_rejected_all. Qed.
Print Assumptions c07_suffix_rejected.

(* every proper prefix of a printed container document is rejected -- in particular the document
   without its last closing bracket.  [reals_ok2] adds to [reals_ok] that a truncated real numeral,
   if the scanner accepts it at all, is taken whole (the scanner on reals is C09's subject). *)
Theorem c07_prefix_rejected : forall w c k,
  cval_wf w c = true -> reals_ok2 w c -> is_container c = true -> (k < length (cprint w c))%nat ->
  parse w (firstn k (cprint w c)) = JOk JUndef.
Proof. exact prefix_rejected_all. Qed.
Print Assumptions c07_prefix_rejected.

(* non-vacuity: every one of the proper prefixes of the example document of C06 *)
Theorem c07_prefix_example : forall k, (k < length (cprint 1 ex_tree))%nat -> parse 1 (firstn k (cprint 1 ex_tree)) = JOk JUndef.
Proof. exact ex_tree_prefixes. Qed.
Print Assumptions c07_prefix_example.

(* ONE closing bracket replaced by the other kind, or ONE separator (comma / colon) blanked,
   anywhere in the tree.  [Dmg w c t] (JsonProofsDamage.v): t is the text of the well-formed tree c
   with exactly one such damage -- constructors D_arr_empty_swap / DA_swap / D_obj_empty_swap /
   DO_swap (wrong closing bracket), DA_blank / DO_comma (comma blanked), DO_colon (colon blanked),
   DA_child / DO_child / DA_later / DO_later (the damage lies deeper / further right). *)
Theorem c07_wrong_bracket_or_blank_separator_rejected : forall w c t ws1 ws2,
  Dmg w c t -> ws_wf ws1 = true -> parse w (ws1 ++ t ++ ws2) = JOk JUndef.
Proof. exact damaged_rejected_all. Qed.
Print Assumptions c07_wrong_bracket_or_blank_separator_rejected.

(* ONE closing bracket removed, anywhere: [RmP w c P b S] (JsonProofsCount.v) says the text of c is
   P ++ b :: S with b a structural closing bracket (of c or of a container nested in it).
   Proof by counting: [net] = opening minus closing brackets outside strings is 0 for every document
   of the grammar (c07_document_brackets_balanced) and 1 for P ++ S. *)
Theorem c07_bracket_removed_rejected : forall w c P b S ws1 ws2,
  RmP w c P b S -> cval_wf w c = true -> reals_ok c -> ws_wf ws1 = true -> ws_wf ws2 = true ->
  parse w (ws1 ++ P ++ S ++ ws2) = JOk JUndef.
Proof. exact bracket_removed_rejected_all. Qed.
Print Assumptions c07_bracket_removed_rejected.

Theorem c07_removed_position_is_a_bracket_of_the_text : forall w c P b S, RmP w c P b S -> cprint w c = P ++ b :: S.
Proof. intros w. apply rmp_print. Qed.
Print Assumptions c07_removed_position_is_a_bracket_of_the_text.

Theorem c07_document_brackets_balanced : forall w s v, Document w s v -> net MOut s = 0%Z.
Proof. exact document_net_zero. Qed.
Print Assumptions c07_document_brackets_balanced.

(* the number scanner never takes a quote or a bracket into a numeral (used by the count) *)
Theorem c07_numerals_are_plain : forall r n r', scan_number r = JOk n -> num_rest n = Some r' ->
  exists body, r = body ++ r' /\ forallb plain body = true.
Proof. exact scan_number_plain. Qed.
Print Assumptions c07_numerals_are_plain.

(* non-vacuity:  [{"a":1},true]  with the inner brace turned into a bracket / the comma blanked /
   the colon blanked / the inner brace removed *)
Theorem c07_damage_examples :
  parse 0 [91; 123; 34; 97; 34; 58; 49; 93; 44; 116; 114; 117; 101; 93] = JOk JUndef /\
  parse 0 [91; 123; 34; 97; 34; 58; 49; 125; 32; 116; 114; 117; 101; 93] = JOk JUndef /\
  parse 0 [91; 123; 34; 97; 34; 32; 49; 125; 44; 116; 114; 117; 101; 93] = JOk JUndef /\
  parse 0 [91; 123; 34; 97; 34; 58; 49; 44; 116; 114; 117; 101; 93] = JOk JUndef.
Proof. split; [exact dmg_ex_swap|split; [exact dmg_ex_comma|split; [exact dmg_ex_colon|exact rm_ex]]]. Qed.
Print Assumptions c07_damage_examples.

(* the inputs of D2 and D61 *)
Example c07_d2_rejected : parse 0 [91; 91; 49; 32; 50; 93] = JOk JUndef /\ parse 0 [123; 34; 97; 34; 58; 91; 49; 32; 50; 125] = JOk JUndef.
Proof. split; vm_compute; reflexivity. Qed.
Example c07_d61_rejected : parse 0 [34; 97; 98; 99] = JOk JUndef /\ parse 0 [34; 97; 92; 34] = JOk JUndef.
Proof. split; vm_compute; reflexivity. Qed.

(* D92: a high surrogate escape not followed by backslash-u makes the string reader fail (count 0), wherever it stands; before
   the repair the two units behind it were skipped unread and four more taken as the low half, which could swallow the closing
   quote of the string.  The input of the finding: the text and the proper prefix that used to be accepted *)
Theorem c07_lone_high_surrogate_rejected : forall f w ch h1 h2 h3 h4 t k pend st,
  esc_simple ch = None -> is_u ch = true -> is_high (hex4v h1 h2 h3 h4) = true -> low_escape_follows t = false ->
  unesc (S f) w (jc_bslash :: ch :: h1 :: h2 :: h3 :: h4 :: t) k pend st = JOk (O, st ++ pend).
Proof. exact unesc_lone_high_rejected. Qed.
Print Assumptions c07_lone_high_surrogate_rejected.
Example c07_d92_rejected :
  parse 0 [91; 34; 92; 117; 68; 56; 48; 48; 97; 98; 99; 100; 101; 34; 44; 34; 93] = JOk JUndef /\
  parse 0 [91; 34; 92; 117; 68; 56; 48; 48; 97; 98; 99; 100; 101; 34; 44; 34; 93; 34; 93] = JOk JUndef.
Proof. split; vm_compute; reflexivity. Qed.

(* D93: a hexadecimal group with fewer than four hexadecimal digits makes the string reader fail (count 0), in the first escape
   and in the second half of a pair; before the repair the value of the digits read so far was used and four units were skipped
   regardless, which could swallow the closing quote of the string.  The two texts of the finding *)
Theorem c07_short_hex_escape_rejected : forall f w ch t k pend st,
  esc_simple ch = None -> is_u ch = true -> (hexcount 4 t =? 4)%nat = false ->
  unesc (S f) w (jc_bslash :: ch :: t) k pend st = JOk (O, st ++ pend).
Proof. exact unesc_short_hex_rejected. Qed.
Print Assumptions c07_short_hex_escape_rejected.
Theorem c07_short_low_half_rejected : forall f w ch h1 h2 h3 h4 ch2 t k pend st,
  esc_simple ch = None -> is_u ch = true -> is_high (hex4v h1 h2 h3 h4) = true -> is_u ch2 = true ->
  (hexcount 4 t =? 4)%nat = false ->
  unesc (S f) w (jc_bslash :: ch :: h1 :: h2 :: h3 :: h4 :: jc_bslash :: ch2 :: t) k pend st = JOk (O, st ++ pend).
Proof. exact unesc_short_low_rejected. Qed.
Print Assumptions c07_short_low_half_rejected.
Example c07_d93_rejected :
  parse 0 [91; 34; 92; 117; 49; 34; 44; 34; 97; 98; 99; 100; 34; 93] = JOk JUndef /\
  parse 0 [91; 34; 92; 117; 48; 48; 122; 122; 34; 93] = JOk JUndef /\
  parse 0 [91; 34; 92; 117; 68; 56; 51; 68; 92; 117; 68; 69; 34; 44; 34; 48; 48; 34; 93] = JOk JUndef.
Proof. repeat split; vm_compute; reflexivity. Qed.
