(* Properties_C07.v -- C07: JSON parsing is all-or-nothing.
   Statements only; proofs in JsonProofsParse.v.  [Val w r v r'] (JsonSpec.v) is the accepted
   language as an inductive grammar: value [v] read off the front of [r] leaving [r'];
   [Document w s v]: whitespace, one value, whitespace. *)
From Coq Require Import NArith ZArith List Bool.
From Qv Require Import gen.Tables_json JsonModel JsonSpec JsonProofsBase JsonProofsStr JsonProofsNum JsonProofsParse
  JsonProofsComplete JsonProofsDoc JsonProofsCst JsonProofsInt JsonProofsC06 JsonProofsPrefix.
Import ListNotations.
Local Open Scope N_scope.

(* whatever the reader returns is Undefined or a fully defined value denoted by the WHOLE text:
   s = ws1 ++ body ++ ws2, body one complete value of the grammar *)
Theorem c07_all_or_nothing : forall w s v,
  parse w s = JOk v -> v <> JUndef ->
  definedb v = true /\
  exists ws1 body ws2, s = ws1 ++ body ++ ws2 /\ all_ws ws1 /\ all_ws ws2 /\ body <> [] /\ Val w (body ++ ws2) v ws2.
Proof.
  intros w s v H Hv. unfold parse in H. apply parse_fuel_sound in H. destruct H as [H|[H1 H2]]; [contradiction|].
  split; [assumption|]. apply document_shape. assumption.
Qed.
Print Assumptions c07_all_or_nothing.

(* the sub-parser invariant behind it: a sub-parser returns either (Undefined, cursor = length)
   or a value of the grammar with the scratch stream empty again *)
Theorem c07_subparser_invariant : forall f w r v r' st',
  pval f w [] r = JOk (v, r', st') -> (v = JUndef /\ r' = []) \/ (Val w r v r' /\ st' = []).
Proof. intros f w r v r' st' H. destruct (psound_all f) as [Hs _]. apply Hs in H. exact H. Qed.
Print Assumptions c07_subparser_invariant.

(* no partially built tree: no Undefined node inside a returned value *)
Theorem c07_no_partial_tree : forall w s v, parse w s = JOk v -> v = JUndef \/ definedb v = true.
Proof. intros w s v H. unfold parse in H. apply parse_fuel_sound in H. destruct H as [H|[H _]]; auto. Qed.
Print Assumptions c07_no_partial_tree.

(* a value of the grammar uses up a non-empty piece of text *)
Theorem c07_value_consumes : forall w r v r', Val w r v r' -> exists body, body <> [] /\ r = body ++ r'.
Proof. intros w. apply (Val_consumes_all w). Qed.
Print Assumptions c07_value_consumes.

(* converse: the reader rejects nothing of the grammar -- so "Undefined" means "not a document" *)
Theorem c07_rejected_iff_not_document : forall w s, parse w s = JOk JUndef <-> (forall v, ~ Document w s v).
Proof.
  intros w s. split.
  - intros H v Hd. pose proof (parse_complete w s v Hd) as Hp. rewrite Hp in H. inversion H; subst.
    destruct Hd as (r1 & Hv & _). apply Val_defined in Hv. discriminate.
  - intros H. destruct (parse_total w s) as (v & Hp & [Hv|[_ Hd]]); [subst; exact Hp|]. exfalso. eapply H; eauto.
Qed.
Print Assumptions c07_rejected_iff_not_document.

(* a complete printed document followed by anything but whitespace is rejected *)
Theorem c07_suffix_rejected : forall w c ws1 x rest,
  cval_wf w c = true -> reals_ok c -> is_container c = true -> ws_wf ws1 = true -> trim (x :: rest) <> [] ->
  parse w (ws1 ++ cprint w c ++ x :: rest) = JOk JUndef.
Proof. exact suffix_rejected_all. Qed.
Print Assumptions c07_suffix_rejected.

(* every proper prefix of a printed container document is rejected -- in particular the document
   without its last closing bracket.  [reals_ok2] adds to [reals_ok] that a truncated real numeral,
   if the scanner accepts it at all, is taken whole (the scanner on reals is C09's subject). *)
Theorem c07_prefix_rejected : forall w c k,
  cval_wf w c = true -> reals_ok2 w c -> is_container c = true -> (k < length (cprint w c))%nat ->
  parse w (firstn k (cprint w c)) = JOk JUndef.
Proof. exact prefix_rejected_all. Qed.
Print Assumptions c07_prefix_rejected.

(* non-vacuity: every one of the proper prefixes of the example document of C06 *)
Theorem c07_prefix_example : forall k, (k < length (cprint 1 ex_tree))%nat -> parse 1 (firstn k (cprint 1 ex_tree)) = JOk JUndef.
Proof. exact ex_tree_prefixes. Qed.
Print Assumptions c07_prefix_example.

(* NOT proved (correspondence only): a closing bracket in the MIDDLE of a document replaced by the
   other kind or removed, a separator blanked.  The check damages every structural closing bracket
   and every separator of every generated document on every run (C++ and model must both say
   Undefined).  The outermost closing bracket removed is the case k = length - 1 above. *)

(* the inputs of D2 and D61 *)
Example c07_d2_rejected : parse 0 [91; 91; 49; 32; 50; 93] = JOk JUndef /\ parse 0 [123; 34; 97; 34; 58; 91; 49; 32; 50; 125] = JOk JUndef.
Proof. split; vm_compute; reflexivity. Qed.
Example c07_d61_rejected : parse 0 [34; 97; 98; 99] = JOk JUndef /\ parse 0 [34; 97; 92; 34] = JOk JUndef.
Proof. split; vm_compute; reflexivity. Qed.
