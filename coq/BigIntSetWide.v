(* BigIntSetWide.v -- C19 lemmas, part 9: operator=(N_Number_T) with an operand type at
   least two words wide (doOperation<Set>: one word per iteration, ++index_), followed by
   the clearing loop of operator=. *)
From Coq Require Import Arith NArith ZArith List Bool Lia Psatz.
From Coq Require Import ZifyBool ZifyNat ZifyN.
From Qv Require Import BigIntModel BigIntProofs BigIntShift BigIntWide.
Import ListNotations.
Local Open Scope N_scope.

Section W.
  Variable w : N.
  Hypothesis w_pos : 0 < w.
  Notation B := (Bw w).
  Notation val := (value w).
  Notation pw := (pw w).
  Notation bval := (bval w).

  Lemma pw_lt_inv : forall a b, pw a < pw b -> (a < b)%nat.
  Proof.
    intros a b H. destruct (Nat.lt_ge_cases a b) as [|Hge]; [assumption|exfalso].
    replace a with (b + (a - b))%nat in H by lia. rewrite pw_add in H.
    pose proof (pw_pos w (a - b)). pose proof (pw_pos w b). nia.
  Qed.

  Lemma wide_set_loop : forall fuel s number i, (1 <= i)%nat -> index s = (i - 1)%nat ->
    wordsok w (words s) -> (N.size_nat number < fuel)%nat ->
    (number = 0 \/ number * pw i < pw (length (words s))) ->
    exists s' j, wide_loop w fuel KSet s number i = Ok (s', j) /\ (i <= j)%nat /\
      (j = i \/ j <= length (words s))%nat /\
      index s' = (j - 1)%nat /\ wordsok w (words s') /\ length (words s') = length (words s) /\
      (forall p, (p < i \/ j <= p)%nat -> nth p (words s') 0 = nth p (words s) 0) /\
      val (firstn j (words s')) = val (firstn i (words s)) + number * pw i /\
      (j = i \/ nth (j - 1) (words s') 0 <> 0).
  Proof.
    induction fuel as [|f IH]; intros s number i Hi Hidx Hw Hf Hroom; [lia|].
    cbn [wide_loop]. destruct (N.eqb_spec number 0) as [->|Hnz].
    - exists s, i. split; [reflexivity|]. repeat split; auto; lia.
    - destruct Hroom as [|Hroom]; [contradiction|].
      cbn [wide_step].
      pose proof (B_pos w) as HB. pose proof (pw_pos w i) as Hp.
      pose proof (N.div_mod number B ltac:(lia)) as Hdm. pose proof (N.mod_lt number B ltac:(lia)) as Hml.
      assert (Hil : (i < length (words s))%nat).
      { apply pw_lt_inv. assert (pw i <= number * pw i) by nia. lia. }
      rewrite wr_ok by assumption. cbn [bind].
      set (x := number mod B) in *. set (l1 := upd (words s) i x).
      assert (Hq : number / B * B <= number) by (rewrite N.mul_comm; lia).
      destruct (IH (mkBig l1 (S (index s))) (number / B) (S i)) as (s' & j & Hrun & Hij & Hjl & Hidx' & Hw' & Hl' & Hsame & Hval & Hnz').
      + lia.
      + cbn [index]. lia.
      + cbn [words]. unfold l1. apply wordsok_upd; assumption.
      + pose proof (size_nat_div w w_pos number Hnz). lia.
      + destruct (N.eq_dec (number / B) 0) as [|Hq0]; [left; assumption|right].
        cbn [words]. unfold l1. rewrite length_upd, pw_S.
        assert (number / B * (B * pw i) <= number * pw i).
        { replace (number / B * (B * pw i)) with (number / B * B * pw i) by ring. apply N.mul_le_mono_r. exact Hq. }
        lia.
      + cbn [words] in *. unfold l1 in Hl'. rewrite length_upd in Hl'.
        assert (Hv1 : val (firstn (S i) l1) = val (firstn i (words s)) + x * pw i).
        { rewrite value_firstn_S by (unfold l1; rewrite length_upd; lia).
          unfold l1. rewrite firstn_upd_ge by lia. rewrite nth_upd_same by lia. reflexivity. }
        exists s', j. split; [exact Hrun|]. split; [lia|]. split.
        { right. destruct Hjl as [->|Hjl]; [lia|]. unfold l1 in Hjl. rewrite length_upd in Hjl. exact Hjl. }
        split; [exact Hidx'|]. split; [exact Hw'|]. split; [exact Hl'|]. split; [|split].
        * intros p Hp'. rewrite Hsame by lia. unfold l1. apply nth_upd_other. lia.
        * rewrite Hval, Hv1, pw_S.
          assert (E : number * pw i = x * pw i + number / B * (B * pw i)) by (rewrite Hdm at 1; ring).
          lia.
        * right. destruct Hnz' as [Hj|Hnz']; [|exact Hnz'].
          (* the loop stopped right after this word: it is the whole (non-zero) rest *)
          subst j. replace (S i - 1)%nat with i by lia. rewrite Hsame by lia.
          unfold l1. rewrite nth_upd_same by lia.
          assert (Hf1 : firstn (S i) (words s') = firstn (S i) l1).
          { apply firstn_ext_nth; [unfold l1; rewrite length_upd; lia|]. intros p Hp'. apply Hsame. lia. }
          rewrite Hf1 in Hval. pose proof (pw_pos w (S i)).
          assert (number / B = 0) by nia. unfold x. intros Hx0. lia.
  Qed.

  Theorem assign_wide_correct : forall ow s v, 1 < ow / w -> WF w s -> v < pw (length (words s)) ->
    exists s', assign w ow s v = Ok s' /\ WF w s' /\ bval s' = v /\ length (words s') = length (words s).
  Proof.
    intros ow s v How HWF Hfit. pose proof HWF as ((Hw & Hi & Ha) & _).
    unfold assign, do_operation.
    destruct (N.eqb_spec ow w) as [->|_].
    { rewrite N.div_same in How by lia. lia. }
    unfold do_operation_t. cbn [word0_step]. rewrite wr_ok by lia. cbn [bind].
    destruct (N.ltb_spec 1 (ow / w)) as [_|]; [|lia].
    pose proof (B_pos w) as HB.
    pose proof (N.div_mod v B ltac:(lia)) as Hdm. pose proof (N.mod_lt v B ltac:(lia)) as Hml.
    set (l0 := upd (words s) 0 (v mod B)).
    rewrite size_nat_equiv.
    destruct (wide_set_loop (S (N.size_nat v)) (mkBig l0 0) (v / B) 1 ltac:(lia) eq_refl)
      as (s1 & j & Hrun & Hij & Hjl & Hidx1 & Hw1 & Hl1 & Hsame & Hval & Hnz).
    - cbn [words]. unfold l0. apply wordsok_upd; assumption.
    - destruct (N.eq_dec v 0) as [->|Hvnz]; [cbn; lia|]. pose proof (size_nat_div w w_pos v Hvnz). lia.
    - destruct (N.eq_dec (v / B) 0) as [|Hq0]; [left; assumption|right].
      cbn [words]. unfold l0. rewrite length_upd, pw_S, pw_0. lia.
    - rewrite Hrun. cbn [bind]. cbn [words] in *. unfold l0 in Hl1. rewrite length_upd in Hl1.
      assert (Hjn : (j <= length (words s))%nat).
      { destruct Hjl as [->|Hjl]; [lia|]. unfold l0 in Hjl. rewrite length_upd in Hjl. exact Hjl. }
      destruct (clear_down_spec w (index s - index s1) (words s1) (S (index s1)) Hw1) as (l2 & Hrun2 & Hl2 & Hw2 & Hz2 & Hs2).
      { rewrite Hl1, Hidx1. lia. }
      rewrite Hrun2. cbn [bind]. exists (mkBig l2 (index s1)).
      assert (Hzero : forall p, (j <= p)%nat -> nth p l2 0 = 0).
      { intros p Hp. destruct (Nat.le_gt_cases p (index s)) as [Hp2|Hp2].
        - apply Hz2. rewrite Hidx1. lia.
        - rewrite Hs2 by (rewrite Hidx1; lia). rewrite Hsame by lia.
          unfold l0. rewrite nth_upd_other by lia. apply Ha, Hp2. }
      assert (Hlow : forall p, (p < j)%nat -> nth p l2 0 = nth p (words s1) 0).
      { intros p Hp. apply Hs2. rewrite Hidx1. lia. }
      assert (Hv0 : val (firstn 1 l0) = v mod B).
      { rewrite value_firstn_S by (unfold l0; rewrite length_upd; lia). cbn [firstn value].
        unfold l0. rewrite nth_upd_same by lia. rewrite pw_0. lia. }
      split; [reflexivity|]. split; [|split; [|cbn [words]; lia]].
      + split; [split; [exact Hw2|split; [cbn [words index]; lia|]]|].
        * intros p Hp. cbn [words index] in *. apply Hzero. lia.
        * unfold top_nonzero. cbn [words index]. rewrite Hidx1.
          destruct Hnz as [->|Hnz]; [left; reflexivity|right]. rewrite Hlow by lia. exact Hnz.
      + unfold BigIntProofs.bval. cbn [words].
        rewrite <- (value_firstn_zero_above w l2 j) by exact Hzero.
        rewrite (firstn_ext_nth j (words s1) l2) by (try lia; exact Hlow).
        rewrite Hval, Hv0, pw_S, pw_0. lia.
  Qed.
End W.
