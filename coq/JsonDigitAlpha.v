(* JsonDigitAlpha.v -- the ALPHABET of what Digit::RealToString emits in the Default format (DigitModel.real_to_string,
   any precision, any finite input): decimal digits, the point, e, + and -.  This is the part of the shape of the
   real's text that C08 needs for the STRUCTURE of the document: a real leaf cannot contribute a quote, a bracket, a
   comma, a colon or a blank.  The order of the characters (one point between digits, the exponent at the end) is not
   proved here. *)
From Coq Require Import NArith List Bool Lia.
From Qv Require Import gen.Tables_digit DigitModel.
Import ListNotations.
Local Open Scope N_scope.

Definition isd (c : N) : bool := (48 <=? c) && (c <=? 57).
Definition nch (c : N) : bool := isd c || (c =? 46) || (c =? 101) || (c =? 43) || (c =? 45).
Definition D (l : list N) : Prop := Forall (fun c => isd c = true) l.
Definition A (l : list N) : Prop := Forall (fun c => nch c = true) l.

Lemma isd_nch : forall c, isd c = true -> nch c = true.
Proof. intros c H. unfold nch. rewrite H. reflexivity. Qed.
Lemma D_A : forall l, D l -> A l.
Proof. intros l H. eapply Forall_impl; [|exact H]. apply isd_nch. Qed.

Lemma Fa_firstn : forall (P : N -> Prop) l n, Forall P l -> Forall P (firstn n l).
Proof. intros P l n H. revert n. induction H; intros [|n]; cbn [firstn]; constructor; auto. Qed.
Lemma Fa_skipn : forall (P : N -> Prop) l n, Forall P l -> Forall P (skipn n l).
Proof. intros P l n H. revert n. induction H; intros [|n]; cbn [skipn]; try constructor; auto. Qed.
Lemma Fa_upd : forall (P : N -> Prop) l i x, Forall P l -> P x -> Forall P (upd l i x).
Proof. intros P l i x H Hx. revert i. induction H; intros [|i]; cbn [upd]; constructor; auto. Qed.
Lemma Fa_app : forall (P : N -> Prop) a b, Forall P a -> Forall P b -> Forall P (a ++ b).
Proof. intros. apply Forall_app. split; assumption. Qed.

(* ---------------- the digit tables ---------------- *)
Lemma tbl1_dig : forall i, i < 200 -> isd (tbl dg_table1 i) = true.
Proof.
  intros i H. assert (H0 : forallb (fun k => isd (tbl dg_table1 (N.of_nat k))) (seq 0 200) = true) by (vm_compute; reflexivity).
  rewrite forallb_forall in H0. specialize (H0 (N.to_nat i)). rewrite N2Nat.id in H0. apply H0. apply in_seq. lia.
Qed.
Lemma tbl2_dig : forall i, i < 10 -> isd (tbl dg_table2 i) = true.
Proof.
  intros i H. assert (H0 : forallb (fun k => isd (tbl dg_table2 (N.of_nat k))) (seq 0 10) = true) by (vm_compute; reflexivity).
  rewrite forallb_forall in H0. specialize (H0 (N.to_nat i)). rewrite N2Nat.id in H0. apply H0. apply in_seq. lia.
Qed.

Lemma mod100 : forall n, n mod 100 * 2 < 200 /\ n mod 100 * 2 + 1 < 200.
Proof. intros n. assert (n mod 100 < 100) by (apply N.mod_lt; lia). lia. Qed.

Lemma rev_digits : forall f n st, D (int_to_string_rev f n st).
Proof.
  induction f as [|f IH]; intros n st; cbn [int_to_string_rev]; [constructor|].
  destruct (mod100 n) as [H1 H2]. destruct (10 <=? n) eqn:E.
  - constructor; [apply tbl1_dig; exact H2|]. constructor; [apply tbl1_dig; exact H1|apply IH].
  - apply N.leb_gt in E. destruct (negb (n =? 0) || negb st); [|constructor].
    constructor; [apply tbl2_dig; exact E|constructor].
Qed.

Lemma fwd_digits : forall f n acc, D acc -> D (int_to_string_fwd f n acc).
Proof.
  induction f as [|f IH]; intros n acc Ha; cbn [int_to_string_fwd]; [exact Ha|].
  destruct (mod100 n) as [H1 H2]. destruct (10 <=? n) eqn:E.
  - apply IH. constructor; [apply tbl1_dig; exact H1|]. constructor; [apply tbl1_dig; exact H2|exact Ha].
  - apply N.leb_gt in E. destruct (negb (n =? 0) || match acc with [] => true | _ => false end); [|exact Ha].
    constructor; [apply tbl2_dig; exact E|exact Ha].
Qed.

Lemma u64_digits : forall n, D (u64_to_string n).
Proof. intros n. apply fwd_digits. constructor. Qed.

Lemma zeros_digits : forall n z, zeros n = Ok z -> D z.
Proof.
  intros n z H. unfold zeros in H. destruct (100000 <? n); [discriminate|]. inversion H; subst z.
  apply Forall_forall. intros x Hx. apply repeat_spec in Hx. subst x. reflexivity.
Qed.

Ltac bd H :=
  match type of H with
  | bind ?X _ = Ok _ => let E := fresh "E" in destruct X eqn:E; cbn [bind] in H; [|discriminate]
  end.
Tactic Notation "bdn" hyp(H) ident(x) ident(E) :=
  match type of H with
  | bind ?X _ = Ok _ => destruct X as [x|] eqn:E; cbn [bind] in H; [|discriminate]
  end.

Lemma big_digits : forall f b ds, big_to_string f b = Ok ds -> D ds.
Proof.
  induction f as [|f IH]; intros b ds H; cbn [big_to_string] in H; [discriminate|].
  destruct (two64 <=? b).
  - bd H. bd H. inversion H; subst ds. apply Fa_app; [apply rev_digits|]. apply Fa_app; [eapply zeros_digits; eassumption|eapply IH; eassumption].
  - destruct (b =? 0); inversion H; subst ds; [constructor|apply rev_digits].
Qed.

(* ---------------- the stream primitives ---------------- *)
Lemma getc_in : forall s buf i c, getc s buf i = Ok c -> In c buf.
Proof. intros s buf i c H. unfold getc in H. destruct (nth_error buf (N.to_nat i)) eqn:E; [|discriminate]. inversion H; subst. eapply nth_error_In; eassumption. Qed.

Lemma setc_fa : forall (P : N -> Prop) s buf i c b, setc s buf i c = Ok b -> Forall P buf -> P c -> Forall P b.
Proof. intros P s buf i c b H Hb Hc. unfold setc in H. destruct (i <? N.of_nat (length buf)); [|discriminate]. inversion H; subst b. apply Fa_upd; assumption. Qed.

Lemma insert_at_fa : forall (P : N -> Prop) buf c i, Forall P buf -> P c -> Forall P (insert_at buf c i).
Proof.
  intros P buf c i Hb Hc. unfold insert_at. destruct (i <? blen buf); [|exact Hb].
  apply Fa_app; [apply Fa_firstn; exact Hb|]. constructor; [exact Hc|apply Fa_skipn; exact Hb].
Qed.

Lemma reverse_from_fa : forall (P : N -> Prop) buf s, Forall P buf -> Forall P (reverse_from buf s).
Proof. intros P buf s Hb. unfold reverse_from. apply Fa_app; [apply Fa_firstn; exact Hb|]. apply Forall_rev. apply Fa_skipn. exact Hb. Qed.

Lemma step_back_fa : forall (P : N -> Prop) buf n, Forall P buf -> Forall P (step_back buf n).
Proof. intros P buf n Hb. unfold step_back. destruct (n <=? blen buf); [apply Fa_firstn; exact Hb|exact Hb]. Qed.

Lemma write_zeros_fa : forall f buf index z b i, write_zeros_down f buf index z = Ok (b, i) -> A buf -> A b.
Proof.
  induction f as [|f IH]; intros buf index z b i H Hb; cbn [write_zeros_down] in H; [discriminate|].
  destruct (z =? 0); [inversion H; subst; exact Hb|]. destruct (index =? 0); [discriminate|].
  bd H. eapply IH; [exact H|]. eapply setc_fa; [exact E|exact Hb|reflexivity].
Qed.

Lemma restore_zeros_fa : forall buf di idx nl fl pinc b i, restore_zeros buf di idx nl fl pinc = Ok (b, i) -> A buf -> A b.
Proof.
  intros buf di idx nl fl pinc b i H Hb. unfold restore_zeros in H.
  destruct (100000 <? (if pinc then sub32 nl fl else sub32 idx di)); [discriminate|]. eapply write_zeros_fa; eassumption.
Qed.

Lemma insert_power_fa : forall buf power positive, A buf -> A (insert_power_of_ten buf power positive).
Proof.
  intros buf power positive Hb. unfold insert_power_of_ten. apply Fa_app; [exact Hb|].
  cbn [app]. constructor; [reflexivity|]. constructor; [destruct positive; reflexivity|].
  apply Fa_app; [destruct (power <? 10); [constructor; [reflexivity|constructor]|constructor]|apply D_A; apply u64_digits].
Qed.

(* ---------------- rounding keeps a run of digits a run of digits ---------------- *)
Lemma isd_succ : forall c, isd c = true -> (c =? ch_nine) = false -> isd (c + 1) = true.
Proof.
  intros c H E. apply N.eqb_neq in E. change ch_nine with 57 in E. unfold isd in *. apply andb_true_iff in H. destruct H as [H1 H2].
  apply N.leb_le in H1. apply N.leb_le in H2. apply andb_true_iff. split; apply N.leb_le; lia.
Qed.

Lemma round_digits : forall buf sa index ru b i p, round_string_number buf sa index ru = Ok (b, i, p) -> D buf -> D b.
Proof.
  intros buf sa index ru b i p H Hb. unfold round_string_number in H.
  bdn H c Ec. bdn H odd Eodd.
  match type of H with (if ?c then _ else _) = _ => destruct c end.
  - bdn H pos Epos. destruct (blen buf - 1 <? pos); [inversion H; subst; apply Fa_app; [exact Hb|constructor; [reflexivity|constructor]]|].
    bdn H c2 Ec2. pose proof (getc_in _ _ _ _ Ec2) as Hin. unfold D in Hb. rewrite Forall_forall in Hb. pose proof (Hb _ Hin) as Hd2.
    destruct (c2 =? ch_nine) eqn:E9.
    + bdn H b3 E3. inversion H; subst. eapply setc_fa; [exact E3| |reflexivity]. apply Forall_forall. exact Hb.
    + bdn H b3 E3. inversion H; subst. eapply setc_fa; [exact E3| |apply isd_succ; assumption]. apply Forall_forall. exact Hb.
  - inversion H; subst. exact Hb.
Qed.

(* ---------------- the Default format ---------------- *)
Lemma dot_zero_A : forall z, D z -> A (z ++ [ch_dot; ch_zero]).
Proof. intros z Hz. apply Fa_app; [apply D_A; exact Hz|]. constructor; [reflexivity|]. constructor; [reflexivity|constructor]. Qed.

Lemma format_default_alphabet : forall buf sa precision calc fl ipe ru out,
  format_default buf sa precision calc fl ipe ru = Ok out -> D buf -> A out.
Proof.
  intros buf sa precision calc fl ipe ru out H Hb. unfold format_default in H.
  (* first stage: rounding *)
  match type of H with bind ?X _ = Ok _ =>
    assert (H1 : forall b i p pi f, X = Ok (b, i, p, pi, f) -> D b) end.
  { intros b i p pi f E.
    destruct (precision <? sub32 (blen buf) sa); [|inversion E; subst; exact Hb].
    bdn E a E0. destruct a as [[b0 i0] p0]. pose proof (round_digits _ _ _ _ _ _ _ E0 Hb) as Hb0.
    destruct ipe; [|inversion E; subst; exact Hb0].
    match type of E with (if ?c then _ else _) = _ => destruct c end; [bd E|]; inversion E; subst; exact Hb0. }
  match type of H with bind ?X _ = Ok _ => destruct X as [[[[[buf1 index1] power1] pinc] fl1]|] end; cbn [bind] in H; [|discriminate].
  specialize (H1 _ _ _ _ _ eq_refl). cbv beta iota in H.
  (* second stage: the point and the zeros *)
  match type of H with bind ?X _ = Ok _ =>
    assert (H2 : forall b i p, X = Ok (b, i, p) -> A b) end.
  { intros b i p E.
    destruct (negb (fl1 =? 0)); [|inversion E; subst; apply D_A; exact H1].
    bdn E a Ea.
    destruct (sub32 (blen buf) sa <=? fl1).
    - destruct (negb pinc).
      + match type of E with (if ?c then _ else _) = _ => destruct c end.
        * bd E. inversion E; subst. apply Fa_app; [apply D_A; exact H1|]. apply dot_zero_A. eapply zeros_digits; eassumption.
        * inversion E; subst. apply D_A; exact H1.
      + match type of E with (if ?c then _ else _) = _ => destruct c end.
        * bd E. inversion E; subst. apply Fa_app; [apply D_A; exact H1|]. apply dot_zero_A. eapply zeros_digits; eassumption.
        * inversion E; subst. apply D_A; exact H1.
    - destruct (a <? add32 sa fl1).
      + inversion E; subst. apply insert_at_fa; [apply D_A; exact H1|reflexivity].
      + bdn E a0 Ea0. destruct a0 as [b0 i0]. inversion E; subst. eapply restore_zeros_fa; [eassumption|apply D_A; exact H1]. }
  match type of H with bind ?X _ = Ok _ => destruct X as [[[buf2 index2] power2]|] end; cbn [bind] in H; [|discriminate].
  specialize (H2 _ _ _ eq_refl). cbv beta iota in H.
  assert (H3 : A (step_back (reverse_from buf2 sa) (sub32 index2 sa))) by (apply step_back_fa; apply reverse_from_fa; exact H2).
  destruct (negb (power2 =? 0)); inversion H; subst out; [|exact H3].
  apply insert_power_fa. apply insert_at_fa; [exact H3|reflexivity].
Qed.

(* ---------------- RealToString, Default format, a finite input ---------------- *)
Theorem real_to_string_alphabet : forall fi number precision txt,
  real_to_string fi [] number precision rf_default = Ok txt ->
  N.land number (fi_expmask fi) <> fi_expmask fi -> A txt.
Proof.
  intros fi number precision txt H Hfin. unfold real_to_string in H.
  change (rf_default =? rf_semifixed) with false in H. change (rf_default =? rf_fixed) with false in H.
  cbn [orb andb negb] in H.
  apply N.eqb_neq in Hfin. rewrite Hfin in H. cbn [negb] in H.
  assert (Hs : A (if negb (N.land number (fi_sign fi) =? 0) then [] ++ [ch_neg] else [])).
  { destruct (negb (N.land number (fi_sign fi) =? 0)); [constructor; [reflexivity|constructor]|constructor]. }
  match type of H with (if ?c then _ else _) = _ => destruct c end.
  - bdn H a Ea. destruct a as [[b fl] ru]. bdn H ds Eds. bdn H run Erun. inversion H; subst txt.
    apply Fa_app; [exact Hs|]. eapply format_default_alphabet; [eassumption|]. eapply big_digits; eassumption.
  - inversion H; subst txt. apply Fa_app; [exact Hs|]. constructor; [reflexivity|constructor].
Qed.

(* ---------------- for the JSON writer: the text of a double leaf ---------------- *)
From Qv Require gen.Tables_json JsonModel JsonProofsNumAlpha JsonDigitC08.

Definition finite_bits (bits : N) : bool := negb (N.land bits dg_d_expmask =? dg_d_expmask).

Theorem dtext_alphabet : forall bits, finite_bits bits = true -> A (JsonDigitC08.dtext bits).
Proof.
  intros bits H. unfold JsonDigitC08.dtext.
  destruct (real_to_string finfo_double [] bits 17 rf_default) as [t|e] eqn:E; [|constructor].
  apply (real_to_string_alphabet finfo_double bits 17 t E).
  unfold finite_bits in H. apply negb_true_iff in H. apply N.eqb_neq in H. exact H.
Qed.

(* none of these characters has a role in the structure of a JSON text *)
Lemma nch_not_structural : forall c, nch c = true ->
  JsonProofsNumAlpha.plain c = true /\ JsonModel.is_ws c = false /\
  c <> Tables_json.jc_comma /\ c <> Tables_json.jc_colon /\ c <> Tables_json.jc_bslash.
Proof.
  intros c H. unfold nch in H.
  assert (Hc : (48 <= c /\ c <= 57) \/ c = 46 \/ c = 101 \/ c = 43 \/ c = 45).
  { repeat (apply orb_true_iff in H; destruct H as [H|H]); try (apply N.eqb_eq in H; auto).
    left. unfold isd in H. apply andb_true_iff in H. destruct H as [H1 H2]. apply N.leb_le in H1. apply N.leb_le in H2. auto. }
  assert (Hnum : JsonProofsNumAlpha.plain c = true).
  { destruct Hc as [[H1 H2]|[->|[->|[->| ->]]]]; try reflexivity.
    apply JsonProofsNumAlpha.dig_plain. unfold JsonModel.is_dig. apply andb_true_iff. split; apply N.leb_le; assumption. }
  split; [exact Hnum|].
  split.
  { unfold JsonModel.is_ws. repeat (apply orb_false_iff; split); apply N.eqb_neq;
      change Tables_json.ws_space with 32; change Tables_json.ws_line with 10; change Tables_json.ws_tab with 9; change Tables_json.ws_cr with 13; lia. }
  change Tables_json.jc_comma with 44. change Tables_json.jc_colon with 58. change Tables_json.jc_bslash with 92. lia.
Qed.

Theorem dtext_not_structural : forall bits c, finite_bits bits = true -> In c (JsonDigitC08.dtext bits) ->
  JsonProofsNumAlpha.plain c = true /\ JsonModel.is_ws c = false /\
  c <> Tables_json.jc_comma /\ c <> Tables_json.jc_colon /\ c <> Tables_json.jc_bslash.
Proof.
  intros bits c Hf Hin. apply nch_not_structural. pose proof (dtext_alphabet bits Hf) as HA. unfold A in HA.
  rewrite Forall_forall in HA. apply HA. exact Hin.
Qed.

(* non-vacuity: the six doubles of JsonDigitC08.bits_ex are finite, their texts are not empty *)
Example alpha_ex : forallb (fun b => finite_bits b && negb (match JsonDigitC08.dtext b with [] => true | _ => false end)) JsonDigitC08.bits_ex = true.
Proof. vm_compute. reflexivity. Qed.
