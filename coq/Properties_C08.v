(* Properties_C08.v -- theorems of property C08 (statements only; proofs in JsonProofs*.v). *)
From Coq Require Import NArith ZArith List Bool.
From Qv Require Import gen.Tables_json JsonModel JsonProofsBase.
Import ListNotations.
Local Open Scope N_scope.

Theorem c08_tables_ok : jc_same_in_all_widths = true /\ jc_quote = 34 /\ jc_bslash = 92.
Proof. repeat split; apply tables_json_ok. Qed.
Print Assumptions c08_tables_ok.
