(* Properties_C08.v -- C08: Stringify then Parse returns the same tree, and the text is valid JSON.
   Statements only; proofs in JsonProofsWrite.v (strings) and JsonProofsRoundtrip.v (structure).
   [vt] is a Value tree as the writer sees it (Undefined members, pointer members), [stringify]
   the model of Value::Stringify (after D16), [normalize] the tree the text denotes (Undefined
   members dropped, pointers followed, a non-negative signed integer reads back as unsigned).
   [twf t]: integers in range, keys of the live members of an object pairwise different (an
   invariant of HArray), no pointer to an Undefined value, every real carries a text that the
   scanner takes as a real numeral ([real_numeral]: the number round trip is C10/C11's subject). *)
From Coq Require Import NArith ZArith List Bool.
From Qv Require Import gen.Tables_json JsonModel JsonSpec JsonProofsBase JsonProofsStr JsonProofsNum JsonProofsParse
  JsonProofsComplete JsonProofsDoc JsonProofsInt JsonProofsWrite JsonProofsRoundtrip JsonProofsRfc JsonDigitExt JsonDigitRfc JsonDigitC06 JsonDigitC08 JsonDigitBig JsonDigitForms.
From Qv Require JsonDigitAlpha JsonDigitForm JsonDigitShape JsonProofsNumAlpha DigitModel gen.Tables_digit.
Import ListNotations.
Local Open Scope N_scope.

(* the round trip, for every width and every well-formed tree with a container at the top *)
Theorem c08_roundtrip : forall w t, twf t -> tcontainer t = true -> parse w (stringify t) = JOk (normalize t).
Proof. exact stringify_roundtrip. Qed.
Print Assumptions c08_roundtrip.

(* strings: what Escape writes between two quotes is read back unit for unit -- every code unit,
   including NUL, controls, quote, backslash, lone surrogates, at every width *)
Theorem c08_str_roundtrip : forall w s rest,
  pstring w (escape_json s ++ jc_quote :: rest) [] = JOk (Some (s, rest), []).
Proof. exact escape_roundtrip. Qed.
Print Assumptions c08_str_roundtrip.

(* the escaped text is a string of RFC 8259 (nothing below 0x20, no bare quote or backslash) *)
Theorem c08_str_rfc_valid : forall s rest, rfc_string (escape_json s ++ 34 :: rest) = Some rest.
Proof. exact escape_json_rfc. Qed.
Print Assumptions c08_str_rfc_valid.

(* the writer appends exactly the text [vtext v] to the stream, whatever the stream holds ... *)
Theorem c08_writer_appends : forall v st, str_value v st = st ++ vtext v.
Proof. intros v st. apply (str_value_text (S (tsize v))). apply Nat.lt_succ_diag_r. Qed.
Print Assumptions c08_writer_appends.

(* ... and the last-comma patch is sound: a container's text is open bracket, the live members
   joined by single commas, close bracket -- the overwritten unit is a comma this container wrote *)
Theorem c08_comma_patch_sound_array : forall xs, vtext (VArr xs) = jc_ssquare :: jt (map vtext (live xs)) ++ [jc_esquare].
Proof. exact arr_text. Qed.
Print Assumptions c08_comma_patch_sound_array.
Theorem c08_comma_patch_sound_object : forall ms, vtext (VObj ms) = jc_scurly :: jt (map member_text1 (livem ms)) ++ [jc_ecurly].
Proof. exact obj_text. Qed.
Print Assumptions c08_comma_patch_sound_object.

(* integers are printed as their decimal numeral and read back exactly *)
Theorem c08_int_roundtrip : forall w z rest, (- 9223372036854775808 <= z < 9223372036854775808)%Z -> num_follow rest = true ->
  Val w (dec_z z ++ rest) (if (0 <=? z)%Z then JNat (Z.to_N z) else JInt z) rest.
Proof. exact val_int. Qed.
Print Assumptions c08_int_roundtrip.

(* the fixed point: printing the value that was read back ([embed]: a parsed value seen as a tree)
   gives the same text again -- with c08_roundtrip: stringify . parse . stringify = stringify *)
Theorem c08_fixpoint : forall t, twf t -> tcontainer t = true -> stringify (embed (normalize t)) = stringify t.
Proof. exact stringify_fixpoint. Qed.
Print Assumptions c08_fixpoint.

(* non-vacuity: a tree with removed members, a pointer, controls, boundary integers *)
Definition c08_ex : vt :=
  VObj [([1; 34; 92], VArr [VUndef; VNat 18446744073709551615; VInt (-9223372036854775808); VUndef]);
        ([], VUndef); ([0], VPtr (VStr [0; 31; 127; 8; 47])); ([97], VObj [([98], VUndef)]); ([98], VInt 7);
        ([99], VPtr (VPtr VUndef))].
Example c08_example : parse 0 (stringify c08_ex) = JOk (normalize c08_ex) /\ rfc_ok (stringify c08_ex) = true.
Proof. split; vm_compute; reflexivity. Qed.

(* the text is valid JSON: the independent recogniser of RFC 8259 (rfc_ok, JsonModel.v) accepts the
   whole text of every well-formed tree.  [reals_rfc t]: the text of every real is a number of the
   RFC grammar (what NumberToString emits is C10's subject). *)
Theorem c08_rfc_valid : forall t, twf t -> reals_rfc t -> tcontainer t = true -> rfc_ok (stringify t) = true.
Proof. exact stringify_rfc_valid. Qed.
Print Assumptions c08_rfc_valid.

(* ------------------------------------------------------------------ *)
(* REALS DISCHARGED TO BOOLEANS ON THE TEXT (JsonDigitC08.v): the predicates real_numeral / real_rfc become, per real leaf,
   [vleafb txt] = real_wholeb txt && rfc_numb txt ("the scanner takes the text whole as a real" and "the text is a number of
   the RFC grammar", both computed on the text alone); [twf_shape] is twf without the clause on reals. *)
Theorem c08_roundtrip_reals_decided : forall w t, twf_shape t -> vreals_okb t = true -> tcontainer t = true ->
  parse w (stringify t) = JOk (normalize t) /\ rfc_ok (stringify t) = true /\ stringify (embed (normalize t)) = stringify t.
Proof. exact stringify_roundtrip_decided. Qed.
Print Assumptions c08_roundtrip_reals_decided.

(* the RFC recogniser's verdict on a number does not depend on what follows either: real_rfc is decided on the text alone *)
Theorem c08_real_rfc_decided : forall txt, rfc_numb txt = true -> real_rfc txt.
Proof. exact real_rfc_decided. Qed.
Print Assumptions c08_real_rfc_decided.

(* the leaf guard in grammar terms (JsonDigitForms.v, JsonDigitBig.v): vleafb holds exactly for the texts the independent RFC
   recogniser accepts that are REAL TEXTS (a fraction or an exponent, or digits that do not fit the integer kind of their sign)
   and that the scanner's range tests do not reject.  So an integral double printed as 5 is NOT a real leaf (it reads back as
   the integer 5; the check's R kind compares number kinds loosely for that reason), while 1e+22 and 1.8446744073709552e+19 are *)
Theorem c08_leaf_guard_in_grammar_terms : forall txt,
  vleafb txt = true <-> rfc_numb txt = true /\ RfcRealText txt /\ real_in_range txt = true.
Proof. exact vleafb_iff. Qed.
Print Assumptions c08_leaf_guard_in_grammar_terms.

(* leaves that are doubles: [dtext bits] is DigitModel.real_to_string (double, 17 digits, Default format); the per-leaf boolean
   [bits_leaf_okb bits] = vleafb (dtext bits) && "DigitModel.string_to_number (dtext bits) is a real with these bits" -- the last
   conjunct is the digit-level round trip, C11's subject (proved there for integers below 2^53, tested for the rest) *)
Theorem c08_bits_leaf : forall bits, bits_leaf_okb bits = true ->
  vleafb (dtext bits) = true /\ values (JReal (dtext bits)) = WReal (Some bits).
Proof. exact bits_leaf. Qed.
Print Assumptions c08_bits_leaf.

(* the composed statement: stringify, parse, read the values off (reals as bits through DigitModel.string_to_number) *)
Theorem c08_stringify_parse_values : forall w t, twf_shape t -> vreals_okb t = true -> tcontainer t = true ->
  parse_values w (stringify t) = Some (values (normalize t)).
Proof. exact stringify_parse_values. Qed.
Print Assumptions c08_stringify_parse_values.

(* non-vacuity: 1.5, 0.1, 1e22, the largest double, the smallest subnormal, -2.5e-5 all pass the three booleans, and a tree
   holding their 17-digit texts (with an Undefined member and a pointer member) round-trips and is RFC-valid *)
Theorem c08_doubles_example :
  forallb bits_leaf_okb bits_ex = true /\
  parse 0 (stringify bits_tree) = JOk (normalize bits_tree) /\ rfc_ok (stringify bits_tree) = true.
Proof. split; [exact bits_ex_ok|exact bits_tree_roundtrip]. Qed.
Print Assumptions c08_doubles_example.

(* the ALPHABET of the text of a double (JsonDigitAlpha.v), proved from the formatter model DigitModel.real_to_string (Default
   format, ANY precision, any finite input -- the exponent field not all ones): decimal digits, the point, e, + and -.  So a real
   leaf never contributes a quote, a bracket, a brace, a comma, a colon, a backslash or a blank to the text of the document *)
Theorem c08_real_text_alphabet : forall fi number precision txt,
  DigitModel.real_to_string fi [] number precision Tables_digit.rf_default = DigitModel.Ok txt ->
  N.land number (DigitModel.fi_expmask fi) <> DigitModel.fi_expmask fi ->
  Forall (fun c => JsonDigitAlpha.nch c = true) txt.
Proof. exact JsonDigitAlpha.real_to_string_alphabet. Qed.
Print Assumptions c08_real_text_alphabet.

Theorem c08_real_text_not_structural : forall bits c, JsonDigitAlpha.finite_bits bits = true -> In c (dtext bits) ->
  JsonProofsNumAlpha.plain c = true /\ is_ws c = false /\ c <> jc_comma /\ c <> jc_colon /\ c <> jc_bslash.
Proof. exact JsonDigitAlpha.dtext_not_structural. Qed.
Print Assumptions c08_real_text_not_structural.

Theorem c08_real_text_example :
  forallb (fun b => JsonDigitAlpha.finite_bits b && negb (match dtext b with [] => true | _ => false end)) bits_ex = true.
Proof. exact JsonDigitAlpha.alpha_ex. Qed.
Print Assumptions c08_real_text_example.

(* the FORM of the text of a double (JsonDigitForm.v), proved from the formatter model (Default format, any precision, any finite
   input):   [-] digits [ . digits ] [ e (+|-) digits+ ]   -- at most one point, never first in its group, the exponent part last *)
Theorem c08_real_text_form : forall fi number precision txt,
  DigitModel.real_to_string fi [] number precision Tables_digit.rf_default = DigitModel.Ok txt ->
  N.land number (DigitModel.fi_expmask fi) <> DigitModel.fi_expmask fi ->
  exists sg l, txt = sg ++ l /\ (sg = [] \/ sg = [Tables_digit.ch_neg]) /\ JsonDigitForm.Form l.
Proof. exact JsonDigitForm.real_to_string_form. Qed.
Print Assumptions c08_real_text_form.

(* the form meets the reader (JsonDigitShape.v): a text of that form which starts with a digit after the optional minus
   (head_digitb, the one fact about the start of the text that is not proved) is taken WHOLE by the number scanner, whatever may
   follow a number in a document; with a point or an exponent in it (has_pointb) the verdict is Real, or NaN by the range tests;
   so the reader-side half of the leaf guard, real_wholeb, is then the range test alone *)
Theorem c08_double_text_taken_whole : forall bits, JsonDigitShape.finite_bits bits = true -> JsonDigitShape.head_digitb (dtext bits) = true ->
  exists n, scan_number (dtext bits) = JOk n /\ whole n /\
    forall rest, num_follow rest = true -> scan_number (dtext bits ++ rest) = JOk (ext_rest n rest).
Proof. exact JsonDigitShape.dtext_taken_whole. Qed.
Print Assumptions c08_double_text_taken_whole.

Theorem c08_double_text_real : forall bits, JsonDigitShape.finite_bits bits = true -> JsonDigitShape.head_digitb (dtext bits) = true ->
  JsonDigitShape.has_pointb (dtext bits) = true ->
  (scan_number (dtext bits) = JOk (NumReal []) \/ scan_number (dtext bits) = JOk NumNaN) /\
  real_wholeb (dtext bits) = real_in_range (dtext bits).
Proof. intros bits H1 H2 H3. split; [apply JsonDigitShape.dtext_real|apply JsonDigitShape.dtext_wholeb]; assumption. Qed.
Print Assumptions c08_double_text_real.

Theorem c08_double_text_example :
  forallb (fun b => JsonDigitShape.finite_bits b && JsonDigitShape.head_digitb (dtext b) && JsonDigitShape.has_pointb (dtext b)) bits_ex = true.
Proof. exact JsonDigitShape.shape_ex. Qed.
Print Assumptions c08_double_text_example.

(* What remains a predicate / a gap.  Proved from the formatter model: the alphabet and the form above.  NOT proved: that the first
   group of digits is not empty (head_digitb), that the group after the point is not empty, that there is no superfluous leading
   zero -- these need the arithmetic of the formatter (the digit count estimate, the big-number division), which is C10's subject;
   so RFC validity of a double leaf stays the per-leaf boolean rfc_numb (dtext bits) (c08_leaf_guard_in_grammar_terms), and the
   digit-level round trip the per-leaf boolean in bits_leaf_okb (C11). *)

(* NOT proved: reals -- that NumberToString(17) emits a real numeral of the RFC grammar which
   reads back to the same double (C10 / C11); the predicates real_numeral and real_rfc stand for it. *)
