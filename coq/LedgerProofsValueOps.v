(* LedgerProofsValueOps.v -- C16, phase 2: every local change / absorbing change of the Value operations
   balances: blocks of the new node + released blocks = blocks of the old node (+ detached source) + fresh blocks. *)
From Coq Require Import NArith List Arith Bool Lia.
From Qv Require Import SeqModel LedgerProofs LedgerValueModel LedgerProofsValue.
Import ListNotations.

Lemma cnt_seq_app : forall x n a b, cnt x (seq n (a + b)) = cnt x (seq n a) + cnt x (seq (n + a) b).
Proof. intros. now rewrite seq_app, cnt_app. Qed.
Lemma cnt_seq1 : forall x n, cnt x (seq n 1) = cnt x [n].
Proof. reflexivity. Qed.
Lemma cnt_seq0 : forall x n, cnt x (seq n 0) = 0.
Proof. reflexivity. Qed.

Ltac cnt_norm1 := cbn [blocks flat_map undef scalar vown vkids vtag app] in *; rewrite ?cnt_app, ?cnt_flat_map_app, ?cnt_nil, ?app_nil_r, ?cnt_seq0 in *.
Ltac cnt_norm := cnt_norm1; cnt_norm1; cnt_norm1.

Lemma f_replace_ok : forall y, blocks y = [] -> local_ok (f_replace y).
Proof. intros y Hy n c c' k rem H x. injection H as <- <- <-. rewrite Hy. cnt_norm. lia. Qed.

Lemma f_str_ok : forall len, local_ok (f_str len).
Proof. intros [|len] n c c' k rem H x; injection H as <- <- <-; cnt_norm; try rewrite cnt_seq1; lia. Qed.

Lemma grown_ok : forall grow own n own' k rem, grown grow own n = (own', k, rem) ->
  forall x, cnt x own' + cnt x rem = cnt x own + cnt x (seq n k).
Proof.
  intros grow own n own' k rem H x. unfold grown in H. destruct own as [|b own]; [|destruct grow]; injection H as <- <- <-;
    rewrite ?cnt_seq1, ?cnt_seq0, ?cnt_nil; lia.
Qed.

Lemma regrown_obj_ok : forall grow own kids n own' kids' k rem, regrown_obj grow own kids n = (own', kids', k, rem) ->
  forall x, cnt x (flat_map blocks kids') + cnt x own' + cnt x rem = cnt x (flat_map blocks kids) + cnt x own + cnt x (seq n k).
Proof.
  intros grow own kids n own' kids' k rem H x. unfold regrown_obj in H. destruct grow; injection H as <- <- <- <-.
  - pose proof (cnt_flat_map_filter blocks is_tomb_slot x kids) as Hf. unfold live_slots, tomb_blocks.
    rewrite !cnt_app, cnt_seq1. lia.
  - rewrite cnt_seq0, cnt_nil. lia.
Qed.

Lemma f_insert_ok : forall key grow, local_ok (f_insert key grow).
Proof.
  intros key grow n c c' k rem H x. unfold f_insert in H. destruct c as [t own kids].
  destruct t; try (injection H as <- <- <-; cnt_norm; cbn [seq]; rewrite ?Nat.add_1_r; rewrite ?cnt_cons, ?cnt_nil; lia).
  destruct (regrown_obj (match own with [] => negb (has_key key kids) | _ => grow end) own kids n) as (((own', kids'), k0), rem0) eqn:Eg.
  pose proof (regrown_obj_ok _ _ _ _ _ _ _ _ Eg x) as Hg.
  destruct (has_key key kids); injection H as <- <- <-; cnt_norm; [lia|]. rewrite cnt_seq_app, cnt_seq1. lia.
Qed.

Lemma f_append_ok : forall grow, local_ok (f_append grow).
Proof.
  intros grow n c c' k rem H x. unfold f_append in H. destruct c as [t own kids].
  destruct t; try (injection H as <- <- <-; cnt_norm; rewrite ?cnt_seq1; lia).
  destruct (grown grow own n) as ((own', k0), rem0) eqn:Eg. injection H as <- <- <-.
  pose proof (grown_ok _ _ _ _ _ _ Eg x) as Hg. cnt_norm. lia.
Qed.

Lemma f_remove_ok : forall k0, local_ok (f_remove k0).
Proof.
  intros k0 n c c' k rem H x. unfold f_remove in H. destruct c as [t own kids].
  destruct t; try (injection H as <- <- <-; cnt_norm; lia).
  - destruct (nth_error kids k0) as [e|] eqn:E; injection H as <- <- <-; cnt_norm; [|lia].
    pose proof (cnt_flat_map_replace blocks x kids k0 e undef E) as H1. cnt_norm. lia.
  - destruct (nth_error kids k0) as [e|] eqn:E; injection H as <- <- <-; cnt_norm; [|lia].
    pose proof (cnt_flat_map_replace blocks x kids k0 e (Node TTomb [] []) E) as H1. cnt_norm. lia.
Qed.

Lemma f_compress_ok : forall re, local_ok (f_compress re).
Proof.
  intros re n c c' k rem H x. unfold f_compress in H. destruct c as [t own kids].
  pose proof (cnt_flat_map_filter blocks is_dead_slot x kids) as Hf.
  destruct t; try (injection H as <- <- <-; cnt_norm; lia);
    (destruct re; [|injection H as <- <- <-; cnt_norm; lia]);
    destruct (filter (fun v => negb (is_dead_slot v)) kids) as [|a keep] eqn:Ek; injection H as <- <- <-;
    cnt_norm; rewrite ?cnt_seq1; cnt_norm; lia.
Qed.

Lemma f_copy_ok : forall src, local_ok (f_copy src).
Proof. intros src n c c' k rem H x. injection H as <- <- <-. rewrite copy_of_blocks. lia. Qed.

Lemma g_move_ok : absorb_ok g_move.
Proof. intros sub n c c' k rem H x. injection H as <- <- <-. cnt_norm. lia. Qed.

Lemma f_append_copy_ok : forall src grow, local_ok (f_append_copy src grow).
Proof.
  intros src grow n c c' k rem H x. unfold f_append_copy in H. destruct c as [t own kids].
  destruct t; try (injection H as <- <- <-; cnt_norm; rewrite copy_of_blocks, cnt_seq_app, cnt_seq1; cnt_norm; lia).
  destruct (grown grow own (n + length (blocks (norm src)))) as ((own', k0), rem0) eqn:Eg. injection H as <- <- <-.
  pose proof (grown_ok _ _ _ _ _ _ Eg x) as Hg. cnt_norm. rewrite copy_of_blocks, cnt_seq_app. cnt_norm. lia.
Qed.

Lemma g_append_move_ok : forall grow, absorb_ok (g_append_move grow).
Proof.
  intros grow sub n c c' k rem H x. unfold g_append_move in H. destruct c as [t own kids].
  destruct t; try (injection H as <- <- <-; cnt_norm; rewrite ?cnt_seq1; cnt_norm; lia).
  destruct (grown grow own n) as ((own', k0), rem0) eqn:Eg. injection H as <- <- <-.
  pose proof (grown_ok _ _ _ _ _ _ Eg x) as Hg. cnt_norm. lia.
Qed.

(* ---------- Merge ---------- *)
Lemma copies_ok : forall l n n1 news, copies n l = (n1, news) ->
  n <= n1 /\ forall x, cnt x (flat_map blocks news) = cnt x (seq n (n1 - n)).
Proof.
  induction l as [|v r IH]; intros n n1 news H; cbn [copies] in H.
  - injection H as <- <-. split; [lia|]. intros x. rewrite Nat.sub_diag. reflexivity.
  - destruct (relabel n (norm v)) as (m, v') eqn:E1. destruct (copies m r) as (m2, r') eqn:E2. injection H as <- <-.
    destruct (relabel_blocks (norm v) n) as (H1 & H2). rewrite E1 in H1, H2. cbn [fst snd] in *.
    destruct (IH _ _ _ E2) as (Hle & Hc). split; [lia|]. intros x. cbn [flat_map]. rewrite cnt_app, H2, Hc.
    replace (m2 - n) with (length (blocks (norm v)) + (m2 - m)) by lia. rewrite cnt_seq_app. rewrite <- H1. reflexivity.
Qed.

Lemma put_value_ok : forall key v items items' rel, put_value key v items = Some (items', rel) ->
  length items' = length items /\
  forall x, cnt x (flat_map blocks items') + cnt x rel = cnt x (flat_map blocks items) + cnt x (blocks v).
Proof.
  intros key v items. induction items as [|it r IH]; intros items' rel H; cbn [put_value] in H; [discriminate|].
  assert (Hskip : forall r' rel', put_value key v r = Some (r', rel') -> items' = it :: r' -> rel = rel' ->
            length items' = length (it :: r) /\
            forall x, cnt x (flat_map blocks items') + cnt x rel = cnt x (flat_map blocks (it :: r)) + cnt x (blocks v)).
  { intros r' rel' E -> ->. destruct (IH _ _ E) as (Hl & Hc). split; [cbn; lia|]. intros x. cbn [flat_map]. rewrite !cnt_app. specialize (Hc x). lia. }
  destruct it as [t kown kids].
  destruct t; try (destruct (put_value key v r) as [(r', rel')|] eqn:E; [|discriminate]; injection H as <- <-; now apply (Hskip r' rel')).
  destruct kids as [|old [|? ?]]; try (destruct (put_value key v r) as [(r', rel')|] eqn:E; [|discriminate]; injection H as <- <-; now apply (Hskip r' rel')).
  destruct (key0 =? key).
  - injection H as <- <-. split; [reflexivity|]. intros x. cnt_norm. lia.
  - destruct (put_value key v r) as [(r', rel')|] eqn:E; [|discriminate]. injection H as <- <-. now apply (Hskip r' rel').
Qed.

Lemma merge_move_ok : forall src dst d2 rel, merge_move src dst = (d2, rel) ->
  forall x, cnt x (flat_map blocks d2) + cnt x rel = cnt x (flat_map blocks dst) + cnt x (flat_map blocks src).
Proof.
  induction src as [|it r IH]; intros dst d2 rel H x; cbn [merge_move] in H.
  - injection H as <- <-. cnt_norm. lia.
  - assert (Hdef : forall d2' rel2, merge_move r dst = (d2', rel2) -> d2 = d2' -> rel = blocks it ++ rel2 ->
              cnt x (flat_map blocks d2) + cnt x rel = cnt x (flat_map blocks dst) + cnt x (flat_map blocks (it :: r))).
    { intros d2' rel2 E -> ->. specialize (IH _ _ _ E x). cbn [flat_map]. rewrite !cnt_app. lia. }
    destruct it as [t kown kids].
    destruct t; try (destruct (merge_move r dst) as (d2', rel2) eqn:E; injection H as <- <-; now apply (Hdef d2' rel2)).
    destruct kids as [|v [|? ?]]; try (destruct (merge_move r dst) as (d2', rel2) eqn:E; injection H as <- <-; now apply (Hdef d2' rel2)).
    destruct (put_value key v dst) as [(dst', rel1)|] eqn:Ep.
    + destruct (merge_move r dst') as (d2', rel2) eqn:E. injection H as <- <-.
      destruct (put_value_ok _ _ _ _ _ Ep) as (_ & Hp). specialize (Hp x). specialize (IH _ _ _ E x). cnt_norm. lia.
    + destruct (merge_move r (dst ++ [Node (TItem key) kown [v]])) as (d2', rel2) eqn:E. injection H as <- <-.
      specialize (IH _ _ _ E x). cnt_norm. lia.
Qed.

Lemma merge_copy_ok : forall src n dst d2 n2 rel, merge_copy n src dst = (d2, n2, rel) ->
  n <= n2 /\ forall x, cnt x (flat_map blocks d2) + cnt x rel = cnt x (flat_map blocks dst) + cnt x (seq n (n2 - n)).
Proof.
  induction src as [|it r IH]; intros n dst d2 n2 rel H; cbn [merge_copy] in H.
  - injection H as <- <- <-. split; [lia|]. intros x. rewrite Nat.sub_diag. cnt_norm. lia.
  - destruct it as [t kown kids].
    destruct t; try (now apply IH in H).
    destruct kids as [|v [|? ?]]; try (now apply IH in H).
    destruct (relabel n (norm v)) as (n1, v') eqn:E1.
    destruct (relabel_blocks (norm v) n) as (H1 & H2). rewrite E1 in H1, H2. cbn [fst snd] in *.
    destruct (put_value key v' dst) as [(dst', rel1)|] eqn:Ep.
    + destruct (merge_copy n1 r dst') as ((d2', n2'), rel2) eqn:E. injection H as <- <- <-.
      destruct (put_value_ok _ _ _ _ _ Ep) as (_ & Hp). destruct (IH _ _ _ _ _ E) as (Hle & Hc). split; [lia|].
      intros x. specialize (Hp x). specialize (Hc x). rewrite H2 in Hp. rewrite cnt_app.
      replace (n2' - n) with (length (blocks (norm v)) + (n2' - n1)) by lia. rewrite cnt_seq_app, <- H1. lia.
    + destruct (merge_copy (n1 + 1) r (dst ++ [Node (TItem key) [n1] [v']])) as ((d2', n2'), rel2) eqn:E. injection H as <- <- <-.
      destruct (IH _ _ _ _ _ E) as (Hle & Hc). split; [lia|]. intros x. specialize (Hc x). cnt_norm. rewrite H2 in Hc.
      replace (n2' - n) with (length (blocks (norm v)) + (1 + (n2' - (n1 + 1)))) by lia.
      rewrite cnt_seq_app, cnt_seq_app, <- H1, cnt_seq1. lia.
Qed.

Lemma to_array_blocks : forall c, blocks (to_array c) = blocks c.
Proof. intros [t o k]. destruct t; reflexivity. Qed.

Lemma f_merge_copy_ok : forall src grow, local_ok (f_merge_copy src grow).
Proof.
  intros src grow n c c' k rem H x. unfold f_merge_copy in H. rewrite <- (to_array_blocks c).
  destruct (to_array c) as [t own kids]. destruct src as [ts sown skids].
  destruct t; try (injection H as <- <- <-; cnt_norm; lia);
    destruct ts; try (injection H as <- <- <-; cnt_norm; lia).
  - (* array += array *)
    destruct (copies n (filter defined skids)) as (n1, news) eqn:Ec. destruct (copies_ok _ _ _ _ Ec) as (Hle & Hc).
    destruct news as [|e news]; [injection H as <- <- <-; cnt_norm; lia|].
    destruct (grown grow own n1) as ((own', k0), rem0) eqn:Eg. injection H as <- <- <-.
    pose proof (grown_ok _ _ _ _ _ _ Eg x) as Hg. specialize (Hc x). cnt_norm.
    rewrite cnt_seq_app. replace (n + (n1 - n)) with n1 by lia. cnt_norm. lia.
  - (* object += object *)
    destruct (merge_copy n skids kids) as ((kids', n1), rel) eqn:Em. destruct (merge_copy_ok _ _ _ _ _ _ Em) as (Hle & Hc).
    specialize (Hc x).
    destruct (regrown_obj grow own kids' n1) as (((own', kids''), k0), rem0) eqn:Eg. injection H as <- <- <-.
    pose proof (regrown_obj_ok _ _ _ _ _ _ _ _ Eg x) as Hg. cnt_norm. rewrite cnt_seq_app. replace (n + (n1 - n)) with n1 by lia. lia.
Qed.

Lemma g_merge_move_ok : forall grow, absorb_ok (g_merge_move grow).
Proof.
  intros grow sub n c c' k rem H x. unfold g_merge_move in H. rewrite <- (to_array_blocks c).
  destruct (to_array c) as [t own kids]. destruct sub as [ts sown skids].
  destruct t; try (injection H as <- <- <-; cnt_norm; lia);
    destruct ts; try (injection H as <- <- <-; cnt_norm; lia).
  - (* array += Move(array) *)
    pose proof (cnt_flat_map_filter blocks is_dead_slot x skids) as Hf.
    change (filter defined skids) with (filter (fun v => negb (is_dead_slot v)) skids) in H.
    destruct (filter (fun v => negb (is_dead_slot v)) skids) as [|e moved] eqn:Ek.
    + injection H as <- <- <-. cnt_norm. lia.
    + destruct (grown grow own n) as ((own', k0), rem0) eqn:Eg. injection H as <- <- <-.
      pose proof (grown_ok _ _ _ _ _ _ Eg x) as Hg. cnt_norm. lia.
  - (* object += Move(object) *)
    destruct (merge_move skids kids) as (kids', rel) eqn:Em. pose proof (merge_move_ok _ _ _ _ Em x) as Hc.
    destruct (regrown_obj grow own kids' n) as (((own', kids''), k0), rem0) eqn:Eg. injection H as <- <- <-.
    pose proof (regrown_obj_ok _ _ _ _ _ _ _ _ Eg x) as Hg. cnt_norm. lia.
Qed.
