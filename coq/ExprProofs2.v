(* ExprProofs2.v -- C04, part 2: the precedence theorem instantiated on the
   model (through parentheses, by depth), the rank table against the
   documented levels, results of comparisons / logic, no trap. *)
From Coq Require Import NArith ZArith List Bool Lia Arith.
From Qv Require Import gen.Tables_expr ExprModel ExprProofs.
Import ListNotations.
Local Open Scope N_scope.

(* ------------------------------------------------------------------ *)
(* every operator that answers "true" leaves a number behind *)

Ltac inv_ok H := inversion H; subst; clear H.

Ltac crush_nan H :=
  repeat match type of H with
  | Ok _ = Ok _ => inversion H; subst; clear H; reflexivity
  | NoValue = Ok _ => discriminate H
  | Err _ = Ok _ => discriminate H
  | context [match ?x with _ => _ end] => destruct x eqn:?; cbn [bind] in H
  | context [if ?x then _ else _] => destruct x eqn:?; cbn [bind] in H
  end.

Lemma of_bool_num : forall b, is_nan_type (of_bool b) = false.
Proof. reflexivity. Qed.

Ltac crush_ex H :=
  repeat match type of H with
  | Ok _ = Ok _ => inversion H; subst; clear H; eexists; reflexivity
  | NoValue = Ok _ => discriminate H
  | Err _ = Ok _ => discriminate H
  | context [match ?x with _ => _ end] => destruct x eqn:?; cbn [bind] in H
  | context [if ?x then _ else _] => destruct x eqn:?; cbn [bind] in H
  end.

(* isEqual answers Natural 0 / 1 *)
Lemma is_equal_nat : forall e a b v, is_equal e a b = Ok v -> exists n, v = QNat n.
Proof.
  intros e a b v H. unfold is_equal, of_bool, bind in H. crush_ex H.
Qed.

Lemma apply_not_nan : forall e op a b v, apply_op e op a b = Ok v -> is_nan_type v = false.
Proof.
  intros e op a b v H. unfold apply_op in H.
  repeat match type of H with
  | (if ?c then _ else _) = _ => destruct c
  end;
  try discriminate H.
  all: try (apply is_equal_nat in H; destruct H as [n ->]; reflexivity).
  all: unfold q_pow, q_rem, q_mul, q_div, q_add, q_sub, q_bit, q_lt, q_le, q_gt, q_ge, q_cmp, q_true,
       pow_left, pow_right, q_nonzero, to_real, to_i64, of_bool, bind in H.
  all: try (crush_nan H; fail).
  (* != *)
  destruct (is_equal e a b) as [w| |x] eqn:E; try discriminate H.
  destruct (is_equal_nat _ _ _ _ E) as [n ->]. inversion H; reflexivity.
Qed.

(* ------------------------------------------------------------------ *)
(* the precedence theorem on the model *)

(* GetExpressionValue as evaluate calls it never looks at the item's own
   operator except to recognise the lone operand *)
Lemma leaf_value_own : forall e s1 s2 c own o,
  (c = 0 -> own = 0) ->
  match o with OSub l' => s1 l' = s2 l' | _ => True end ->
  leaf_value e s1 c own o = leaf_value e s2 c op_NoOp o.
Proof.
  intros e s1 s2 c own o Hc Hs. destruct o as [v|s|name|l']; cbn [leaf_value]; try reflexivity.
  - replace ((c =? op_NoOp) && (own =? op_NoOp)) with ((c =? op_NoOp) && (op_NoOp =? op_NoOp)); [reflexivity|].
    destruct (N.eqb_spec c op_NoOp) as [E|E]; [|reflexivity].
    rewrite noop_is_zero in E. rewrite (Hc E). reflexivity.
  - exact Hs.
Qed.

(* one level: the flat evaluation of a well-formed list is the evaluation of
   its precedence-climbing tree; parenthesised groups are whatever [sub] makes of them *)
Theorem precedence_level : forall e sub l, wf l ->
  exists t, std_tree l = Some t /\
    ev_top (leaf_value e sub) (apply_op e) is_nan_type l =
    tree_eval_top (fun ctx o => leaf_value e sub ctx op_NoOp o) (apply_op e) is_nan_type t.
Proof.
  intros e sub l Hw.
  apply (precedence_generic (leaf_value e sub) (fun ctx o => leaf_value e sub ctx op_NoOp o)
           (apply_op e) is_nan_type (fun _ => True)).
  - intros c own o _ Hc. apply leaf_value_own; [exact Hc|destruct o; auto].
  - apply apply_not_nan.
  - exact Hw.
  - apply Forall_forall. auto.
Qed.

(* well-formed at every nesting level, nesting depth below d *)
Fixpoint wf_deep (d : nat) (l : items) : Prop :=
  match d with
  | O => False
  | S d' => wf l /\ Forall (fun it : item => match fst it with OSub l' => wf_deep d' l' | _ => True end) l
  end.

(* all levels: the model of Evaluate equals the specification [spec_items]
   (precedence climbing + tree evaluation at every parenthesis level) *)
Theorem precedence_model : forall e d l, wf_deep d l -> eval_items e d l = spec_items e d l.
Proof.
  intros e. induction d as [|d IH]; intros l Hd; [destruct Hd|].
  destruct Hd as [Hw HF]. cbn [eval_items spec_items].
  destruct (precedence_generic (leaf_value e (eval_items e d))
              (fun ctx o => leaf_value e (spec_items e d) ctx op_NoOp o)
              (apply_op e) is_nan_type
              (fun o => match o with OSub l' => eval_items e d l' = spec_items e d l' | _ => True end))
    with (l := l) as (t & Ht & Heq).
  - intros c own o Ho Hc. apply leaf_value_own; assumption.
  - apply apply_not_nan.
  - exact Hw.
  - eapply Forall_impl; [|exact HF]. intros [o op] Ho. cbn [fst] in *. destruct o; auto.
  - rewrite Ht. exact Heq.
Qed.

(* non-vacuity: D1's witness.  10 - 2 * 3 ^ 2 + 5 *)
Definition ex_d1 : items :=
  [(ONum (QNat 10), op_Subtraction); (ONum (QNat 2), op_Multiplication); (ONum (QNat 3), op_Exponent);
   (ONum (QNat 2), op_Addition); (ONum (QNat 5), op_NoOp)].
Example ex_d1_wf : wf_deep 1 ex_d1.
Proof. cbn. repeat split; try discriminate. repeat constructor. Qed.
Example ex_d1_tree : std_tree ex_d1 =
  Some (Node op_Addition
          (Node op_Subtraction (Leaf (ONum (QNat 10)))
             (Node op_Multiplication (Leaf (ONum (QNat 2)))
                (Node op_Exponent (Leaf (ONum (QNat 3))) (Leaf (ONum (QNat 2))))))
          (Leaf (ONum (QNat 5)))).
Proof. vm_compute. reflexivity. Qed.
Example ex_d1_value : eval_items [] 1 ex_d1 = Ok (QInt (wrapZ (-3))).
Proof. vm_compute. reflexivity. Qed.
(* a nested one with a failing group: (1 / 0) + 2 has no value on both sides *)
Definition ex_nov : items :=
  [(OSub [(ONum (QNat 1), op_Division); (ONum (QNat 0), op_NoOp)], op_Addition); (ONum (QNat 2), op_NoOp)].
Example ex_nov_wf : wf_deep 2 ex_nov.
Proof. cbn. repeat split; try discriminate. repeat constructor; cbn; repeat split; try discriminate; repeat constructor. Qed.
Example ex_nov_value : eval_items [] 2 ex_nov = NoValue /\ spec_items [] 2 ex_nov = NoValue.
Proof. split; vm_compute; reflexivity. Qed.

(* ------------------------------------------------------------------ *)
(* the rank table and the documented levels *)

Lemma rank_monotone_doc : forall a b, In a all_ops -> In b all_ops -> doc_level a < doc_level b -> a < b.
Proof.
  intros a b Ha Hb. simpl in Ha, Hb.
  repeat (destruct Ha as [<-|Ha];
          [repeat (destruct Hb as [<-|Hb]; [vm_compute; try reflexivity; intros H; discriminate H|]); destruct Hb|]).
  destruct Ha.
Qed.

(* every documented operator has a level, the six levels are all inhabited, NoOp is below everything *)
Lemma rank_levels : (forall a, In a all_ops -> 1 <= doc_level a <= 6 /\ op_NoOp < a /\ a < op_Error) /\ NoDup all_ops.
Proof.
  split.
  - intros a Ha. simpl in Ha. repeat (destruct Ha as [<-|Ha]; [vm_compute; repeat split; discriminate|]). destruct Ha.
  - repeat constructor; simpl; intros H; repeat (destruct H as [H|H]; [discriminate H|]); exact H.
Qed.

(* the code's order inside the levels (recorded; the documentation lists the
   members of a level without ordering them) *)
Lemma rank_within_levels :
  op_Remainder < op_Exponent /\ op_Multiplication < op_Division /\ op_Addition < op_Subtraction /\
  op_BitwiseOr < op_BitwiseAnd /\
  op_Equal < op_NotEqual /\ op_NotEqual < op_GreaterOrEqual /\ op_GreaterOrEqual < op_LessOrEqual /\
  op_LessOrEqual < op_Greater /\ op_Greater < op_Less /\
  op_Or < op_And.
Proof. vm_compute. repeat split; reflexivity. Qed.

(* ------------------------------------------------------------------ *)
(* comparisons and logic answer 0 or 1; truth is "greater than zero" *)

Definition cmp_logic_ops : list N :=
  [op_Or; op_And; op_Equal; op_NotEqual; op_GreaterOrEqual; op_LessOrEqual; op_Greater; op_Less].

Lemma bind_bool_01 : forall (x : outcome bool) v, bind x (fun b => Ok (of_bool b)) = Ok v -> v = QNat 0 \/ v = QNat 1.
Proof. intros [[|]| |] v H; cbn in H; inversion H; auto. Qed.

Lemma is_equal_01 : forall e a b v, is_equal e a b = Ok v -> v = QNat 0 \/ v = QNat 1.
Proof.
  intros e a b v H. unfold is_equal in H.
  destruct (eq_classify e a) as [sl| |]; cbn [bind] in H; try discriminate.
  destruct (eq_classify e b) as [sr| |]; cbn [bind] in H; try discriminate.
  assert (G : forall (x : outcome qval), bind x (fun a0 => bind (eq_force_number sr) (fun b0 => bind (q_eq a0 b0) (fun c => Ok (of_bool c)))) = Ok v -> v = QNat 0 \/ v = QNat 1).
  { intros [a0| |]; cbn [bind]; try discriminate. destruct (eq_force_number sr) as [b0| |]; cbn [bind]; try discriminate. apply bind_bool_01. }
  destruct sl as [nl|tl vl], sr as [nr|tr vr]; try (exact (G _ H)).
  inversion H. destruct (list_eqb tl tr); auto.
Qed.

Lemma cmp_logic_01 : forall e op a b v, In op cmp_logic_ops -> apply_op e op a b = Ok v -> v = QNat 0 \/ v = QNat 1.
Proof.
  intros e op a b v Hop H. simpl in Hop.
  repeat (destruct Hop as [<-|Hop]; [vm_compute (_ =? _) in H|]); try destruct Hop.
  all: unfold apply_op in H; cbn [N.eqb Pos.eqb] in H.
  all: repeat match type of H with (if ?c then _ else _) = _ => let E := fresh in destruct c eqn:E; [try (vm_compute in E; discriminate E)|try (vm_compute in E; discriminate E)] end.
  all: try (apply bind_bool_01 in H; exact H).
  all: try (apply is_equal_01 in H; exact H).
  all: try (destruct (q_true a) as [x| |]; cbn [bind] in H; try discriminate H; destruct (q_true b) as [y| |]; cbn [bind] in H; try discriminate H; inversion H; destruct x, y; auto).
  (* != *)
  destruct (is_equal e a b) as [w| |] eqn:E; cbn [bind] in H; try discriminate H.
  destruct (is_equal_01 _ _ _ _ E) as [-> | ->]; inversion H; auto.
Qed.

(* truth: Natural > 0, Integer > 0 (signed), Real > 0.0 *)
Lemma truth_is_gt0 :
  (forall n, q_true (QNat n) = Ok (0 <? n)) /\
  (forall b, q_true (QInt b) = Ok (0 <? signed b)%Z) /\
  (forall f, q_true (QReal f) = Ok (f_gt f fzero)) /\
  (forall e a b, apply_op e op_And a b = bind (q_true a) (fun x => bind (q_true b) (fun y => Ok (of_bool (x && y))))) /\
  (forall e a b, apply_op e op_Or a b = bind (q_true a) (fun x => bind (q_true b) (fun y => Ok (of_bool (x || y))))).
Proof. repeat split. Qed.

(* ------------------------------------------------------------------ *)
(* == and != : numeric when either side is a number, textual when neither is *)

Lemma list_eqb_spec : forall a b, list_eqb a b = true <-> a = b.
Proof.
  induction a as [|x a IH]; destruct b as [|y b]; cbn [list_eqb]; split; intros H; try reflexivity; try discriminate.
  - apply andb_true_iff in H. destruct H as [H1 H2]. apply N.eqb_eq in H1. apply IH in H2. subst. reflexivity.
  - inversion H; subst. apply andb_true_iff. split; [apply N.eqb_refl|apply IH; reflexivity].
Qed.

(* how isEqual classifies an operand *)
Lemma eq_classify_cases : forall e x,
  match x with
  | QNat _ | QInt _ | QReal _ => eq_classify e x = Ok (SideNum x)       (* a number *)
  | QText s => eq_classify e x = Ok (SideText s None)                     (* literal text *)
  | QVar name =>
    match get_value e name with
    | Ok (Some v) =>
      if is_number_value v                                                 (* a variable holding a number *)
      then eq_classify e x = bind (set_number v) (fun n => Ok (SideNum n))
      else match char_and_length v with                                    (* string, true, false, null: its text *)
           | Some s => eq_classify e x = Ok (SideText s (Some v))
           | None => eq_classify e x = NoValue                             (* array / object *)
           end
    | Ok None => eq_classify e x = NoValue                                 (* missing *)
    | NoValue => eq_classify e x = NoValue
    | Err er => eq_classify e x = Err er
    end
  end.
Proof.
  intros e [b|b|f|s|name]; cbn [eq_classify]; try reflexivity.
  destruct (get_value e name) as [[v|]| |er]; cbn [bind]; try reflexivity.
  destruct (is_number_value v); [reflexivity|]. destruct (char_and_length v); reflexivity.
Qed.

Lemma eq_numeric_or_textual : forall e a b sa sb,
  eq_classify e a = Ok sa -> eq_classify e b = Ok sb ->
  match sa, sb with
  | SideText s1 _, SideText s2 _ =>
    (* neither is a number: the texts are compared *)
    is_equal e a b = Ok (of_bool (list_eqb s1 s2)) /\
    apply_op e op_NotEqual a b = Ok (of_bool (negb (list_eqb s1 s2)))
  | _, _ =>
    (* either is a number: both are read as numbers (a text side only through its Value:
       numeric string, true = 1, false = null = 0; otherwise no value) and compared numerically *)
    is_equal e a b =
      bind (eq_force_number sa) (fun x => bind (eq_force_number sb) (fun y => bind (q_eq x y) (fun c => Ok (of_bool c))))
  end.
Proof.
  intros e a b sa sb Ha Hb. unfold apply_op. cbn [N.eqb]. unfold is_equal. rewrite Ha, Hb. cbn [bind].
  destruct sa as [na|s1 v1], sb as [nb|s2 v2]; try reflexivity.
  split; [reflexivity|].
  replace (op_NotEqual =? op_Exponent) with false by reflexivity.
  vm_compute (op_NotEqual =? _). cbn [bind]. destruct (list_eqb s1 s2); reflexivity.
Qed.
