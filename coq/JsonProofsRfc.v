(* JsonProofsRfc.v -- C08: the text Stringify writes is accepted by the independent RFC 8259
   recogniser rfc_ok (JsonModel.v), for every well-formed tree. *)
From Coq Require Import NArith ZArith List Bool Lia.
From Qv Require Import gen.Tables_json JsonModel JsonSpec JsonProofsBase JsonProofsDoc JsonProofsInt JsonProofsWrite JsonProofsRoundtrip.
Import ListNotations.
Local Open Scope N_scope.

(* reals: the text NumberToString wrote is a number of the RFC grammar (C10's subject) *)
Definition real_rfc (txt : list N) : Prop :=
  forall rest, num_follow rest = true -> rfc_number (txt ++ rest) = Some rest.

Fixpoint reals_rfc (v : vt) : Prop :=
  match v with
  | VReal txt => real_rfc txt
  | VArr xs => (fix go (l : list vt) : Prop := match l with [] => True | x :: t => reals_rfc x /\ go t end) xs
  | VObj ms => (fix go (l : list (list N * vt)) : Prop := match l with [] => True | (_, x) :: t => reals_rfc x /\ go t end) ms
  | VPtr p => reals_rfc p
  | _ => True
  end.

(* [rprop txt]: txt is one RFC value, whatever admissible text follows *)
Definition rprop (txt : list N) : Prop :=
  txt <> [] /\ rfc_ws txt = txt /\ hd 0 txt <> 93 /\ hd 0 txt <> 125 /\
  forall rest f, num_follow rest = true -> (length txt < f)%nat -> rfc_value f (txt ++ rest) = Some rest.

Lemma rfc_ws_follow_comma : forall t, rfc_ws (44 :: t) = 44 :: t. Proof. reflexivity. Qed.

Lemma follow_not_digit : forall c r, num_follow (c :: r) = true -> rfc_dig c = false /\ (c =? 46) = false /\ (c =? 101) = false /\ (c =? 69) = false.
Proof.
  intros c r H. cbn [num_follow] in H. unfold is_ws in H.
  repeat (apply orb_true_iff in H; destruct H as [H|H]); apply N.eqb_eq in H; subst c; repeat split; reflexivity.
Qed.

Lemma rfc_digits_run : forall t rest, forallb is_dig t = true -> num_follow rest = true -> rfc_digits (t ++ rest) = rest.
Proof.
  induction t as [|c t IH]; intros rest Ht Hf; cbn [app].
  - destruct rest as [|c r]; [reflexivity|]. cbn [rfc_digits]. destruct (follow_not_digit c r Hf) as [H _]. rewrite H. reflexivity.
  - cbn [forallb] in Ht. apply andb_true_iff in Ht. destruct Ht as [Hc Ht]. cbn [rfc_digits].
    assert (Hd : rfc_dig c = true) by exact Hc. rewrite Hd. apply IH; assumption.
Qed.

Lemma rfc_number_tail : forall rest, num_follow rest = true ->
  (match rest with c2 :: t2 => if c2 =? 46 then rfc_digits1 t2 else Some rest | [] => Some rest end) = Some rest /\
  (match rest with
   | c3 :: t3 => if (c3 =? 101) || (c3 =? 69) then match t3 with s :: t4 => if (s =? 43) || (s =? 45) then rfc_digits1 t4 else rfc_digits1 t3 | [] => None end else Some rest
   | [] => Some rest end) = Some rest.
Proof.
  intros [|c r] Hf; [split; reflexivity|]. destruct (follow_not_digit c r Hf) as (_ & H1 & H2 & H3).
  rewrite H1, H2, H3. split; reflexivity.
Qed.

Lemma rfc_number_digits : forall ds rest, digits_wf ds = true -> num_follow rest = true -> rfc_number (ds ++ rest) = Some rest.
Proof.
  intros ds rest Hw Hf. unfold digits_wf in Hw. apply andb_true_iff in Hw. destruct Hw as [Hd Hh].
  destruct ds as [|d t]; [discriminate|]. cbn [forallb] in Hd. apply andb_true_iff in Hd. destruct Hd as [Hd Ht].
  pose proof (is_dig_bounds _ Hd) as Hb.
  unfold rfc_number. cbn [app].
  replace (d =? 45) with false by (symmetry; apply N.eqb_neq; lia).
  destruct (rfc_number_tail rest Hf) as [T1 T2].
  destruct (d =? 48) eqn:E0.
  - destruct t as [|d2 t]; [|apply negb_true_iff in Hh; apply N.eqb_eq in E0; subst d; discriminate].
    cbn [app]. rewrite T1. exact T2.
  - assert (Hdd : rfc_dig d = true) by exact Hd. rewrite Hdd. rewrite rfc_digits_run by assumption. rewrite T1. exact T2.
Qed.

Lemma rfc_number_neg : forall ds rest, digits_wf ds = true -> num_follow rest = true -> rfc_number (45 :: ds ++ rest) = Some rest.
Proof.
  intros ds rest Hw Hf. pose proof (rfc_number_digits ds rest Hw Hf) as H.
  unfold rfc_number in *. cbn [N.eqb Pos.eqb]. 
  destruct ds as [|d t]; [discriminate|]. cbn [app] in *.
  unfold digits_wf in Hw. apply andb_true_iff in Hw. destruct Hw as [Hd _]. cbn [forallb] in Hd. apply andb_true_iff in Hd. destruct Hd as [Hd _].
  pose proof (is_dig_bounds _ Hd) as Hb.
  replace (d =? 45) with false in H by (symmetry; apply N.eqb_neq; lia). exact H.
Qed.

Lemma is_dig_value_head : forall d t rest f, is_dig d = true -> rfc_value (S f) ((d :: t) ++ rest) = rfc_number ((d :: t) ++ rest).
Proof.
  intros d t rest f Hd. apply is_dig_bounds in Hd. cbn [app rfc_value].
  replace (d =? 123) with false by (symmetry; apply N.eqb_neq; lia).
  replace (d =? 91) with false by (symmetry; apply N.eqb_neq; lia).
  replace (d =? 34) with false by (symmetry; apply N.eqb_neq; lia).
  replace (d =? 116) with false by (symmetry; apply N.eqb_neq; lia).
  replace (d =? 102) with false by (symmetry; apply N.eqb_neq; lia).
  replace (d =? 110) with false by (symmetry; apply N.eqb_neq; lia). reflexivity.
Qed.

Lemma rfc_ws_nonws : forall c t, is_ws c = false -> rfc_ws (c :: t) = c :: t.
Proof.
  intros c t H. cbn [rfc_ws]. unfold is_ws in H.
  change ws_space with 32 in H. change ws_line with 10 in H. change ws_tab with 9 in H. change ws_cr with 13 in H.
  apply orb_false_iff in H. destruct H as [H H4]. apply orb_false_iff in H. destruct H as [H H3]. apply orb_false_iff in H. destruct H as [H1 H2].
  rewrite H1, H3, H2, H4. reflexivity.
Qed.

Lemma rprop_nat : forall n, n < 18446744073709551616 -> rprop (dec n).
Proof.
  intros n Hn. destruct (dec_wf n Hn) as [Hw _].
  assert (Hne : dec n <> []) by (intros E; rewrite E in Hw; discriminate).
  destruct (dec n) as [|d t] eqn:E; [congruence|].
  assert (Hd : is_dig d = true).
  { unfold digits_wf in Hw. apply andb_true_iff in Hw. destruct Hw as [Hd _]. cbn [forallb] in Hd. apply andb_true_iff in Hd. tauto. }
  split; [discriminate|]. split; [|split; [|split]].
  - apply rfc_ws_nonws. apply is_dig_bounds in Hd. unfold is_ws.
    change ws_space with 32. change ws_line with 10. change ws_tab with 9. change ws_cr with 13.
    repeat (apply orb_false_iff; split); apply N.eqb_neq; lia.
  - apply is_dig_bounds in Hd. cbn [hd]. lia.
  - apply is_dig_bounds in Hd. cbn [hd]. lia.
  - intros rest f Hf Hlen. destruct f as [|f]; [lia|]. rewrite is_dig_value_head by assumption.
    apply rfc_number_digits; assumption.
Qed.

Lemma rprop_int : forall z, (- 9223372036854775808 <= z < 9223372036854775808)%Z -> rprop (dec_z z).
Proof.
  intros z Hz. destruct z as [|p|p]; cbn [dec_z].
  - apply rprop_nat. reflexivity.
  - apply rprop_nat. cbn. lia.
  - assert (Hn : Npos p < 18446744073709551616) by lia. destruct (dec_wf (Npos p) Hn) as [Hw _].
    split; [discriminate|]. split; [reflexivity|]. split; [cbn; discriminate|]. split; [cbn; discriminate|].
    intros rest f Hf Hlen. destruct f as [|f]; [cbn in Hlen; lia|].
    change ((dc_neg :: dec (N.pos p)) ++ rest) with (45 :: dec (N.pos p) ++ rest).
    cbn [rfc_value]. cbn [N.eqb Pos.eqb]. apply rfc_number_neg; assumption.
Qed.

Lemma rprop_kw : forall lit len, (lit = jc_null_lit /\ len = jc_null_len) \/ (lit = jc_true_lit /\ len = jc_true_len) \/ (lit = jc_false_lit /\ len = jc_false_len) ->
  rprop (kw_text lit len).
Proof.
  intros lit len H. destruct H as [[-> ->]|[[-> ->]|[-> ->]]];
    (split; [discriminate|]; split; [reflexivity|]; split; [cbn; discriminate|]; split; [cbn; discriminate|];
     intros rest f Hf Hlen; destruct f as [|f]; [cbn in Hlen; lia|]; reflexivity).
Qed.

Lemma rprop_str : forall s, rprop ([jc_quote] ++ escape_json s ++ [jc_quote]).
Proof.
  intros s. split; [discriminate|]. split; [reflexivity|]. split; [cbn; discriminate|]. split; [cbn; discriminate|].
  intros rest f Hf Hlen. destruct f as [|f]; [lia|].
  rewrite <- !app_assoc. cbn [app rfc_value]. cbn [N.eqb Pos.eqb]. apply escape_json_rfc.
Qed.

Lemma rprop_real : forall txt, real_numeral txt -> real_rfc txt -> rprop txt.
Proof.
  intros txt [Hne Hs] Hr. destruct txt as [|c t]; [congruence|].
  pose proof (Hs [] eq_refl) as Hs0. rewrite app_nil_r in Hs0.
  assert (Hc : (c =? dc_neg) || (c =? dc_pos) || is_dig19 c || (c =? dc_zero) || (c =? dc_dot) = true)
    by (eapply JsonProofsComplete.scan_first; [exact Hs0|discriminate]).
  assert (Hcases : c = 45 \/ c = 43 \/ c = 46 \/ is_dig c = true).
  { repeat (apply orb_true_iff in Hc; destruct Hc as [Hc|Hc]).
    all: try (apply N.eqb_eq in Hc; subst c;
              first [left; reflexivity | right; left; reflexivity | right; right; left; reflexivity | right; right; right; reflexivity]).
    right. right. right. unfold is_dig19 in Hc. unfold is_dig. apply andb_true_iff in Hc. destruct Hc as [H1 H2].
    rewrite H2. apply N.ltb_lt in H1. replace (dc_zero <=? c) with true by (symmetry; apply N.leb_le; lia). reflexivity. }
  assert (Hdisp : forall rest f, rfc_value (S f) ((c :: t) ++ rest) = rfc_number ((c :: t) ++ rest)).
  { intros rest f. destruct Hcases as [->|[->|[->|Hd]]]; try reflexivity. apply is_dig_value_head. exact Hd. }
  assert (Hnw : is_ws c = false).
  { destruct Hcases as [->|[->|[->|Hd]]]; try reflexivity. apply is_dig_bounds in Hd. unfold is_ws.
    change ws_space with 32. change ws_line with 10. change ws_tab with 9. change ws_cr with 13.
    repeat (apply orb_false_iff; split); apply N.eqb_neq; lia. }
  split; [discriminate|]. split; [apply rfc_ws_nonws; exact Hnw|].
  split; [cbn [hd]; destruct Hcases as [->|[->|[->|Hd]]]; try discriminate; apply is_dig_bounds in Hd; lia|].
  split; [cbn [hd]; destruct Hcases as [->|[->|[->|Hd]]]; try discriminate; apply is_dig_bounds in Hd; lia|].
  intros rest f Hf Hlen. destruct f as [|f]; [cbn in Hlen; lia|]. rewrite Hdisp. apply Hr. exact Hf.
Qed.

Lemma rprop_ws_app : forall txt y, rprop txt -> rfc_ws (txt ++ y) = txt ++ y.
Proof.
  intros txt y (Hne & Hws & _). destruct txt as [|c t]; [congruence|]. cbn [app rfc_ws] in *.
  destruct ((c =? 32) || (c =? 9) || (c =? 10) || (c =? 13)); [|reflexivity].
  exfalso. apply (f_equal (@length N)) in Hws. cbn [length] in Hws.
  assert (Hl : (length (rfc_ws t) <= length t)%nat).
  { clear. induction t as [|a t IH]; cbn; [lia|]. destruct ((a =? 32) || (a =? 9) || (a =? 10) || (a =? 13)); cbn; lia. }
  lia.
Qed.

Lemma follow93 : forall r, num_follow (93 :: r) = true. Proof. reflexivity. Qed.
Lemma follow125 : forall r, num_follow (125 :: r) = true. Proof. reflexivity. Qed.
Lemma follow44 : forall r, num_follow (44 :: r) = true. Proof. reflexivity. Qed.

Lemma rfc_ws_nws : forall c z, ((c =? 32) || (c =? 9) || (c =? 10) || (c =? 13)) = false -> rfc_ws (c :: z) = c :: z.
Proof. intros c z H. cbn [rfc_ws]. rewrite H. reflexivity. Qed.

Lemma rfc_items_joined : forall l, l <> [] -> Forall rprop l ->
  forall rest f, (length (jt l) + 1 < f)%nat -> rfc_items f (jt l ++ 93 :: rest) = Some rest.
Proof.
  induction l as [|t l IH]; intros Hne Hall rest f Hf; [congruence|].
  inversion Hall as [|? ? Ht Hl]; subst. destruct Ht as (Htne & Htws & _ & _ & Htv).
  destruct f as [|f]; [lia|]. cbn [rfc_items].
  destruct l as [|t2 l].
  - cbn [jt] in *. rewrite (Htv (93 :: rest) f (follow93 _)) by lia.
    rewrite (rfc_ws_nws 93) by reflexivity. reflexivity.
  - change (jt (t :: t2 :: l)) with (t ++ jc_comma :: jt (t2 :: l)) in *. rewrite <- app_assoc. cbn [app].
    rewrite app_length in Hf. cbn [length] in Hf.
    change jc_comma with 44. rewrite (Htv (44 :: jt (t2 :: l) ++ 93 :: rest) f (follow44 _)) by lia.
    rewrite (rfc_ws_nws 44) by reflexivity. cbn [N.eqb Pos.eqb].
    assert (Hhd : rfc_ws (jt (t2 :: l) ++ 93 :: rest) = jt (t2 :: l) ++ 93 :: rest).
    { inversion Hl as [|? ? Ht2 _]; subst. destruct l as [|t3 l]; cbn [jt].
      - apply rprop_ws_app. exact Ht2.
      - rewrite <- app_assoc. apply rprop_ws_app. exact Ht2. }
    rewrite Hhd. apply IH; [discriminate|assumption|lia].
Qed.

(* members: (key, text of the value) *)
Definition mtext1 (p : list N * list N) : list N := [jc_quote] ++ escape_json (fst p) ++ [jc_quote; jc_colon] ++ snd p.

Lemma mtext1_cons : forall k t y, mtext1 (k, t) ++ y = 34 :: escape_json k ++ 34 :: 58 :: t ++ y.
Proof. intros. unfold mtext1. cbn [fst snd]. rewrite <- !app_assoc. reflexivity. Qed.

Lemma mtext1_len : forall k t, length (mtext1 (k, t)) = (3 + length (escape_json k) + length t)%nat.
Proof. intros. unfold mtext1. cbn [fst snd]. repeat (rewrite app_length; cbn [length]). lia. Qed.

Lemma member_step : forall f k t y r, rprop t -> (length t < f)%nat -> num_follow y = true ->
  (forall c z, y = c :: z ->
     (if c =? 44 then rfc_members f (rfc_ws z) else if c =? 125 then Some z else None) = r) ->
  y <> [] -> rfc_ws y = y ->
  rfc_members (S f) (mtext1 (k, t) ++ y) = r.
Proof.
  intros f k t y r Ht Hlen Hy Hr Hne Hws. pose proof Ht as (_ & _ & _ & _ & Htv).
  rewrite mtext1_cons. cbn [rfc_members N.eqb Pos.eqb].
  rewrite escape_json_rfc. rewrite (rfc_ws_nws 58) by reflexivity. cbn [N.eqb Pos.eqb].
  rewrite rprop_ws_app by exact Ht. rewrite (Htv y f Hy Hlen). rewrite Hws.
  destruct y as [|c z]; [congruence|]. apply (Hr c z eq_refl).
Qed.

Lemma rfc_members_joined : forall l, l <> [] -> Forall (fun p => rprop (snd p)) l ->
  forall rest f, (length (jt (map mtext1 l)) + 1 < f)%nat -> rfc_members f (jt (map mtext1 l) ++ 125 :: rest) = Some rest.
Proof.
  induction l as [|[k t] l IH]; intros Hne Hall rest f Hf; [congruence|].
  inversion Hall as [|? ? Ht Hl]; subst. cbn [snd] in Ht.
  destruct f as [|f]; [lia|].
  destruct l as [|p2 l].
  - cbn [map jt] in *. rewrite mtext1_len in Hf.
    apply member_step; [exact Ht|lia|reflexivity| |discriminate|reflexivity].
    intros c z E. inversion E; subst. reflexivity.
  - change (jt (map mtext1 ((k, t) :: p2 :: l))) with (mtext1 (k, t) ++ jc_comma :: jt (map mtext1 (p2 :: l))) in *.
    rewrite <- app_assoc. cbn [app]. rewrite app_length, mtext1_len in Hf. cbn [length] in Hf.
    apply member_step; [exact Ht|lia|reflexivity| |discriminate|reflexivity].
    intros c z E. inversion E; subst.
    change (rfc_members f (rfc_ws (jt (map mtext1 (p2 :: l)) ++ 125 :: rest)) = Some rest).
    assert (Hhd : rfc_ws (jt (map mtext1 (p2 :: l)) ++ 125 :: rest) = jt (map mtext1 (p2 :: l)) ++ 125 :: rest).
    { destruct p2 as [k2 t2]. cbn [map]. destruct (map mtext1 l); cbn [jt]; rewrite ?mtext1_cons; try (rewrite <- app_assoc; rewrite mtext1_cons); reflexivity. }
    rewrite Hhd. apply IH; [discriminate|assumption|lia].
Qed.

Lemma live_rprop : forall n xs,
  ((fix go (l : list vt) : nat := match l with [] => O | x :: t => (tsize x + go t)%nat end) xs < n)%nat ->
  (fix go (l : list vt) : Prop := match l with [] => True | x :: t => (v_undef x = true \/ twf x) /\ go t end) xs ->
  (fix go (l : list vt) : Prop := match l with [] => True | x :: t => reals_rfc x /\ go t end) xs ->
  (forall x, (tsize x < n)%nat -> twf x -> reals_rfc x -> rprop (vtext x)) ->
  Forall rprop (map vtext (live xs)).
Proof.
  intros n xs. induction xs as [|x t IH]; intros Hs Hw Hr HP; [constructor|].
  destruct Hw as [Hx Ht]. destruct Hr as [Hr1 Hr2]. cbn [live filter]. fold (live t).
  destruct (v_undef x) eqn:E; cbn [negb map]; [apply IH; auto; lia|].
  constructor; [|apply IH; auto; lia].
  apply HP; [lia| |assumption]. destruct Hx as [Hx|Hx]; [congruence|assumption].
Qed.

Lemma livem_rprop : forall n ms,
  ((fix go (l : list (list N * vt)) : nat := match l with [] => O | (_, x) :: t => (tsize x + go t)%nat end) ms < n)%nat ->
  (fix go (l : list (list N * vt)) : Prop := match l with [] => True | (_, x) :: t => (v_undef x = true \/ twf x) /\ go t end) ms ->
  (fix go (l : list (list N * vt)) : Prop := match l with [] => True | (_, x) :: t => reals_rfc x /\ go t end) ms ->
  (forall x, (tsize x < n)%nat -> twf x -> reals_rfc x -> rprop (vtext x)) ->
  Forall (fun p => rprop (snd p)) (map (fun kv => (fst kv, vtext (snd kv))) (livem ms)).
Proof.
  intros n ms. induction ms as [|[k x] t IH]; intros Hs Hw Hr HP; [constructor|].
  destruct Hw as [Hx Ht]. destruct Hr as [Hr1 Hr2]. cbn [livem filter snd]. fold (livem t).
  destruct (v_undef x) eqn:E; cbn [negb map]; [apply IH; auto; lia|].
  constructor; [|apply IH; auto; lia].
  cbn [snd]. apply HP; [lia| |assumption]. destruct Hx as [Hx|Hx]; [congruence|assumption].
Qed.

Lemma tree_rprop : forall n v, (tsize v < n)%nat -> twf v -> reals_rfc v -> rprop (vtext v).
Proof.
  induction n as [|n IH]; intros v Hn Hw Hr; [lia|].
  destruct v as [| | | |x|z|txt|s|xs|ms|p]; cbn [twf] in Hw; try contradiction.
  - apply rprop_kw. auto.
  - apply rprop_kw. auto.
  - apply rprop_kw. auto.
  - apply rprop_nat. exact Hw.
  - apply rprop_int. exact Hw.
  - apply rprop_real; [exact Hw|exact Hr].
  - apply rprop_str.
  - (* array *)
    rewrite arr_text. cbn [tsize] in Hn. cbn [reals_rfc] in Hr.
    pose proof (live_rprop n xs ltac:(lia) Hw Hr (fun x Hx => IH x Hx)) as Hall.
    set (l := map vtext (live xs)) in *.
    split; [discriminate|]. split; [apply rfc_ws_nws; reflexivity|]. split; [cbn; discriminate|]. split; [cbn; discriminate|].
    intros rest f Hf Hlen. destruct f as [|f]; [lia|].
    change ((jc_ssquare :: jt l ++ [jc_esquare]) ++ rest) with (91 :: (jt l ++ [jc_esquare]) ++ rest).
    rewrite <- app_assoc. cbn [app rfc_value N.eqb Pos.eqb]. change jc_esquare with 93.
    cbn [length] in Hlen. rewrite app_length in Hlen. cbn [length] in Hlen.
    destruct l as [|t1 l'] eqn:El.
    + cbn [jt app]. rewrite (rfc_ws_nws 93) by reflexivity. reflexivity.
    + inversion Hall as [|? ? Ht1 _]; subst.
      assert (Hws : rfc_ws (jt (t1 :: l') ++ 93 :: rest) = jt (t1 :: l') ++ 93 :: rest).
      { destruct l'; cbn [jt]; [|rewrite <- app_assoc]; apply rprop_ws_app; exact Ht1. }
      rewrite Hws.
      pose proof (rfc_items_joined (t1 :: l') ltac:(discriminate) Hall rest f ltac:(lia)) as Hit.
      destruct Ht1 as (Hne1 & _ & Hh1 & _).
      destruct t1 as [|c1 t1']; [congruence|]. cbn [hd] in Hh1.
      assert (Hshape : exists z, jt ((c1 :: t1') :: l') ++ 93 :: rest = c1 :: z) by (destruct l'; cbn [jt app]; eauto).
      destruct Hshape as [z Hz]. rewrite Hz in *.
      replace (c1 =? 93) with false by (symmetry; apply N.eqb_neq; exact Hh1). exact Hit.
  - (* object *)
    destruct Hw as [Hw _]. rewrite obj_text. cbn [tsize] in Hn. cbn [reals_rfc] in Hr.
    pose proof (livem_rprop n ms ltac:(lia) Hw Hr (fun x Hx => IH x Hx)) as Hall.
    assert (El : map member_text1 (livem ms) = map mtext1 (map (fun kv => (fst kv, vtext (snd kv))) (livem ms))).
    { rewrite map_map. apply map_ext. intros [k x]. reflexivity. }
    rewrite El. set (l := map (fun kv => (fst kv, vtext (snd kv))) (livem ms)) in *.
    split; [discriminate|]. split; [apply rfc_ws_nws; reflexivity|]. split; [cbn; discriminate|]. split; [cbn; discriminate|].
    intros rest f Hf Hlen. destruct f as [|f]; [lia|].
    change ((jc_scurly :: jt (map mtext1 l) ++ [jc_ecurly]) ++ rest) with (123 :: (jt (map mtext1 l) ++ [jc_ecurly]) ++ rest).
    rewrite <- app_assoc. cbn [app rfc_value N.eqb Pos.eqb]. change jc_ecurly with 125.
    cbn [length] in Hlen. rewrite app_length in Hlen. cbn [length] in Hlen.
    destruct l as [|[k1 t1] l'] eqn:Elist.
    + cbn [map jt app]. rewrite (rfc_ws_nws 125) by reflexivity. reflexivity.
    + pose proof (rfc_members_joined ((k1, t1) :: l') ltac:(discriminate) Hall rest f ltac:(lia)) as Hit.
      assert (Hshape : exists z, jt (map mtext1 ((k1, t1) :: l')) ++ 125 :: rest = 34 :: z).
      { cbn [map]. destruct (map mtext1 l'); cbn [jt]; [rewrite mtext1_cons|rewrite <- app_assoc; rewrite mtext1_cons]; eauto. }
      destruct Hshape as [z Hz]. rewrite Hz in *. rewrite (rfc_ws_nws 34) by reflexivity. cbn [N.eqb Pos.eqb]. exact Hit.
  - (* pointer *) cbn [vtext]. apply IH; [cbn [tsize] in Hn; lia|exact Hw|exact Hr].
Qed.

(* C08: the text is valid JSON *)
Theorem stringify_rfc_valid : forall t, twf t -> reals_rfc t -> tcontainer t = true -> rfc_ok (stringify t) = true.
Proof.
  intros t Hw Hr Hc.
  assert (Hs : stringify t = vtext t).
  { clear Hw Hr. induction t; try discriminate.
    - cbn [stringify]. rewrite (str_value_text (S (tsize (VArr l))) _ (Nat.lt_succ_diag_r _)). reflexivity.
    - cbn [stringify]. rewrite (str_value_text (S (tsize (VObj l))) _ (Nat.lt_succ_diag_r _)). reflexivity.
    - cbn [stringify vtext]. apply IHt. exact Hc. }
  rewrite Hs. destruct (tree_rprop (S (tsize t)) t (Nat.lt_succ_diag_r _) Hw Hr) as (_ & Hws & _ & _ & Hv).
  unfold rfc_ok. rewrite Hws. rewrite <- (app_nil_r (vtext t)) at 2.
  rewrite (Hv [] (S (length (vtext t))) eq_refl (Nat.lt_succ_diag_r _)). reflexivity.
Qed.
