(* JsonDigitForm.v -- the FORM of what Digit::RealToString emits in the Default format (DigitModel.real_to_string, any
   precision, any finite input), proved from the formatter model:
       [-]  digits [ . digits ]  [ e (+|-) digits+ ]
   with at most one point, the point never first, the exponent part at the end.  What is NOT proved: that the first
   group of digits is not empty (the text starts with a digit), that the group after the point is not empty, and that
   there is no superfluous leading zero. *)
From Coq Require Import NArith List Bool Lia.
From Qv Require Import gen.Tables_digit DigitModel JsonDigitAlpha.
Import ListNotations.
Local Open Scope N_scope.

(* reading order / stream order (the formatters work on the reversed run) *)
Definition DF (l : list N) : Prop := exists a b, D a /\ D b /\ (l = a \/ (l = a ++ ch_dot :: b /\ a <> [])).
Definition DFr (l : list N) : Prop := exists a b, D a /\ D b /\ (l = a \/ (l = b ++ ch_dot :: a /\ a <> [])).
Definition EPf (ep : list N) : Prop :=
  ep = [] \/ exists s ds, ep = ch_e :: s :: ds /\ (s = ch_pos \/ s = ch_neg) /\ D ds /\ ds <> [].
Definition Form (txt : list N) : Prop := exists body ep, txt = body ++ ep /\ DF body /\ EPf ep.

Lemma D_DF : forall l, D l -> DF l.
Proof. intros l H. exists l, []. split; [exact H|]. split; [constructor|left; reflexivity]. Qed.
Lemma D_DFr : forall l, D l -> DFr l.
Proof. intros l H. exists l, []. split; [exact H|]. split; [constructor|left; reflexivity]. Qed.
Lemma D_rev : forall l, D l -> D (rev l).
Proof. intros l H. apply Forall_rev. exact H. Qed.

Lemma DFr_rev : forall l, DFr l -> DF (rev l).
Proof.
  intros l (a & b & Ha & Hb & [->|[-> Hne]]).
  - apply D_DF. apply D_rev. exact Ha.
  - exists (rev a), (rev b). split; [apply D_rev; exact Ha|]. split; [apply D_rev; exact Hb|]. right. split.
    + rewrite rev_app_distr. cbn [rev]. rewrite <- app_assoc. reflexivity.
    + intros E. apply Hne. rewrite <- (rev_involutive a). rewrite E. reflexivity.
Qed.

Lemma DF_firstn : forall l n, DF l -> DF (firstn n l).
Proof.
  intros l n (a & b & Ha & Hb & [->|[-> Hne]]).
  - apply D_DF. apply Fa_firstn. exact Ha.
  - rewrite firstn_app. destruct (n - length a)%nat as [|m] eqn:E.
    + cbn [firstn]. rewrite app_nil_r. apply D_DF. apply Fa_firstn. exact Ha.
    + rewrite firstn_all2 by lia. cbn [firstn]. exists a, (firstn m b). split; [exact Ha|]. split; [apply Fa_firstn; exact Hb|].
      right. split; [reflexivity|exact Hne].
Qed.

Lemma write_zeros_D : forall f buf index z b i, write_zeros_down f buf index z = Ok (b, i) -> D buf -> D b.
Proof.
  induction f as [|f IH]; intros buf index z b i H Hb; cbn [write_zeros_down] in H; [discriminate|].
  destruct (z =? 0); [inversion H; subst; exact Hb|]. destruct (index =? 0); [discriminate|].
  bdn H b1 E. eapply IH; [exact H|]. eapply setc_fa; [exact E|exact Hb|reflexivity].
Qed.

Lemma restore_zeros_D : forall buf di idx nl fl pinc b i, restore_zeros buf di idx nl fl pinc = Ok (b, i) -> D buf -> D b.
Proof.
  intros buf di idx nl fl pinc b i H Hb. unfold restore_zeros in H.
  destruct (100000 <? (if pinc then sub32 nl fl else sub32 idx di)); [discriminate|]. eapply write_zeros_D; eassumption.
Qed.

Lemma dot_zero_DFr : forall b z, D b -> D z -> DFr (b ++ z ++ [ch_dot; ch_zero]).
Proof.
  intros b z Hb Hz. exists [ch_zero], (b ++ z). split; [constructor; [reflexivity|constructor]|]. split; [apply Fa_app; assumption|].
  right. split; [rewrite <- app_assoc; reflexivity|discriminate].
Qed.

Lemma insert_dot_DFr : forall buf i, D buf -> DFr (insert_at buf ch_dot i).
Proof.
  intros buf i Hb. unfold insert_at. destruct (i <? blen buf) eqn:E; [|apply D_DFr; exact Hb].
  exists (skipn (N.to_nat i) buf), (firstn (N.to_nat i) buf). split; [apply Fa_skipn; exact Hb|]. split; [apply Fa_firstn; exact Hb|].
  right. split; [reflexivity|]. intros E0. apply (f_equal (@length N)) in E0. rewrite skipn_length in E0. cbn [length] in E0.
  apply N.ltb_lt in E. unfold blen in E. lia.
Qed.

Lemma insert_dot_DF1 : forall buf, D buf -> DF (insert_at buf ch_dot 1).
Proof.
  intros buf Hb. unfold insert_at. destruct (1 <? blen buf) eqn:E; [|apply D_DF; exact Hb].
  exists (firstn (N.to_nat 1) buf), (skipn (N.to_nat 1) buf). split; [apply Fa_firstn; exact Hb|]. split; [apply Fa_skipn; exact Hb|].
  right. split; [reflexivity|]. apply N.ltb_lt in E. unfold blen in E. destruct buf; [cbn in E; lia|discriminate].
Qed.

Lemma fwd_suffix : forall f n acc, exists p, int_to_string_fwd f n acc = p ++ acc.
Proof.
  induction f as [|f IH]; intros n acc; cbn [int_to_string_fwd]; [exists []; reflexivity|].
  destruct (10 <=? n).
  - destruct (IH (n / 100) (tbl dg_table1 (n mod 100 * 2) :: tbl dg_table1 (n mod 100 * 2 + 1) :: acc)) as (p & E).
    rewrite E. exists (p ++ [tbl dg_table1 (n mod 100 * 2); tbl dg_table1 (n mod 100 * 2 + 1)]). rewrite <- app_assoc. reflexivity.
  - destruct (negb (n =? 0) || match acc with [] => true | _ => false end); [exists [tbl dg_table2 n]; reflexivity|exists []; reflexivity].
Qed.

Lemma fwd_nonempty : forall f n, 10 <= n -> int_to_string_fwd (S f) n [] <> [].
Proof.
  intros f n E. cbn [int_to_string_fwd]. replace (10 <=? n) with true by (symmetry; apply N.leb_le; exact E).
  match goal with |- int_to_string_fwd f ?m ?acc <> [] => destruct (fwd_suffix f m acc) as (p & Ep) end.
  rewrite Ep. destruct p; discriminate.
Qed.

Lemma power_digits : forall power, D ((if power <? 10 then [ch_zero] else []) ++ u64_to_string power) /\
  (if power <? 10 then [ch_zero] else []) ++ u64_to_string power <> [].
Proof.
  intros power. split.
  - apply Fa_app; [destruct (power <? 10); [constructor; [reflexivity|constructor]|constructor]|apply u64_digits].
  - destruct (power <? 10) eqn:E; [discriminate|]. cbn [app]. apply N.ltb_ge in E.
    apply (fwd_nonempty 11 power E).
Qed.

Lemma insert_power_form : forall body power positive, DF body -> Form (insert_power_of_ten body power positive).
Proof.
  intros body power positive Hb. unfold insert_power_of_ten. exists body. eexists. split; [reflexivity|]. split; [exact Hb|].
  right. destruct (power_digits power) as [Hd Hne]. cbn [app]. eexists. eexists. split; [reflexivity|].
  split; [destruct positive; auto|]. split; assumption.
Qed.

(* ---------------- the Default format on a run that starts the stream (started_at = 0) ---------------- *)
Lemma format_default_form : forall buf precision calc fl ipe ru out,
  format_default buf 0 precision calc fl ipe ru = Ok out -> D buf -> Form out.
Proof.
  intros buf precision calc fl ipe ru out H Hb. unfold format_default in H.
  match type of H with bind ?X _ = Ok _ =>
    assert (H1 : forall b i p pi f, X = Ok (b, i, p, pi, f) -> D b /\ ((f =? 0) = false -> p = 0)) end.
  { intros b i p pi f E.
    destruct (precision <? sub32 (blen buf) 0); [|inversion E; subst; split; [exact Hb|reflexivity]].
    bdn E a E0. destruct a as [[b0 i0] p0]. pose proof (round_digits _ _ _ _ _ _ _ E0 Hb) as Hb0.
    destruct ipe; [|inversion E; subst; split; [exact Hb0|reflexivity]].
    match type of E with (if ?c then _ else _) = _ => destruct c end; [bdn E a Ea|]; inversion E; subst; (split; [exact Hb0|]); [discriminate|reflexivity]. }
  match type of H with bind ?X _ = Ok _ => destruct X as [[[[[buf1 index1] power1] pinc] fl1]|] end; cbn [bind] in H; [|discriminate].
  destruct (H1 _ _ _ _ _ eq_refl) as [Hb1 Hp1]. clear H1. cbv beta iota in H.
  match type of H with bind ?X _ = Ok _ =>
    assert (H2 : forall b i p, X = Ok (b, i, p) -> DFr b /\ (p <> 0 -> D b)) end.
  { intros b i p E.
    destruct (fl1 =? 0) eqn:Efl; cbn [negb] in E; [inversion E; subst; split; [apply D_DFr; exact Hb1|intros _; exact Hb1]|].
    specialize (Hp1 eq_refl). subst power1.
    bdn E a Ea.
    destruct (sub32 (blen buf) 0 <=? fl1).
    - destruct (negb pinc).
      + match type of E with (if ?c then _ else _) = _ => destruct c end.
        * bdn E z Ez. inversion E; subst. split; [apply dot_zero_DFr; [exact Hb1|eapply zeros_digits; eassumption]|intros Hc; congruence].
        * inversion E; subst. split; [apply D_DFr; exact Hb1|intros _; exact Hb1].
      + match type of E with (if ?c then _ else _) = _ => destruct c end.
        * bdn E z Ez. inversion E; subst. split; [apply dot_zero_DFr; [exact Hb1|eapply zeros_digits; eassumption]|intros Hc; congruence].
        * inversion E; subst. split; [apply D_DFr; exact Hb1|intros _; exact Hb1].
    - destruct (a <? add32 0 fl1).
      + inversion E; subst. split; [apply insert_dot_DFr; exact Hb1|intros Hc; congruence].
      + bdn E a0 Ea0. destruct a0 as [b0 i0]. inversion E; subst.
        pose proof (restore_zeros_D _ _ _ _ _ _ _ _ Ea0 Hb1) as Hb0. split; [apply D_DFr; exact Hb0|intros _; exact Hb0]. }
  match type of H with bind ?X _ = Ok _ => destruct X as [[[buf2 index2] power2]|] end; cbn [bind] in H; [|discriminate].
  destruct (H2 _ _ _ eq_refl) as [Hb2 Hp2]. clear H2. cbv beta iota in H.
  assert (Hrev : reverse_from buf2 0 = rev buf2) by reflexivity. rewrite Hrev in H.
  assert (H3 : DF (step_back (rev buf2) (sub32 index2 0))).
  { unfold step_back. destruct (sub32 index2 0 <=? blen (rev buf2)); [apply DF_firstn|]; apply DFr_rev; exact Hb2. }
  assert (H3d : D buf2 -> D (step_back (rev buf2) (sub32 index2 0))).
  { intros Hd. apply step_back_fa. apply D_rev. exact Hd. }
  destruct (power2 =? 0) eqn:Ep; cbn [negb] in H; inversion H; subst out.
  - exists (step_back (rev buf2) (sub32 index2 0)), []. split; [rewrite app_nil_r; reflexivity|]. split; [exact H3|left; reflexivity].
  - apply N.eqb_neq in Ep. apply insert_power_form. change (add32 0 1) with 1. apply insert_dot_DF1. apply H3d. apply Hp2. exact Ep.
Qed.

(* ---------------- RealToString, Default format, a finite input ---------------- *)
Theorem real_to_string_form : forall fi number precision txt,
  real_to_string fi [] number precision rf_default = Ok txt ->
  N.land number (fi_expmask fi) <> fi_expmask fi ->
  exists sg l, txt = sg ++ l /\ (sg = [] \/ sg = [ch_neg]) /\ Form l.
Proof.
  intros fi number precision txt H Hfin. unfold real_to_string in H.
  change (rf_default =? rf_semifixed) with false in H. change (rf_default =? rf_fixed) with false in H.
  cbn [orb andb negb] in H.
  apply N.eqb_neq in Hfin. rewrite Hfin in H. cbn [negb] in H.
  assert (Hs : forall X : list N, (if negb (N.land number (fi_sign fi) =? 0) then [] ++ [ch_neg] else []) = X -> X = [] \/ X = [ch_neg]).
  { intros X <-. destruct (negb (N.land number (fi_sign fi) =? 0)); auto. }
  match type of H with (if ?c then _ else _) = _ => destruct c end.
  - bdn H a Ea. destruct a as [[b fl] ru]. bdn H ds Eds. bdn H run Erun. inversion H; subst txt.
    eexists. exists run. split; [reflexivity|]. split; [apply Hs; reflexivity|].
    eapply format_default_form; [eassumption|]. eapply big_digits; eassumption.
  - inversion H; subst txt. eexists. exists [ch_zero]. split; [reflexivity|]. split; [apply Hs; reflexivity|].
    exists [ch_zero], []. split; [reflexivity|]. split; [apply D_DF; constructor; [reflexivity|constructor]|left; reflexivity].
Qed.
