(* Properties_C16.v -- the C16 theorems and nothing else (PARTIAL, see below).  Each is closed by
   [exact] of a lemma from LedgerProofs*.v and followed by Print Assumptions.

   Model: the block heap of coq/SeqModel.v (the model of the C14 theorems, tied to Array.hpp / String.hpp /
   StringStream.hpp by the C14 correspondence run) observed through coq/LedgerModel.v:
     al h b            block b is live          live_blocks h     all live block ids
     ledger_inv w      ids not yet handed out are not live; no object holds a released block; no block has
                       two owners (no sharing after copy, move transfers ownership); every live block has an owner (no leak)
     destroy_all n w   run the destructor of the objects 0 .. n-1 (release the storage)
     within idx n ops  every operation of the history names objects below n (the pool has n objects)
   In this model a release of a block that is not live is [Error UAF] of [run] (c16_release_not_live_is_error),
   an id is never handed out twice (c16_alloc_fresh), and every access to a released block is [Error UAF]
   (SeqModel.rd_range / wr_range), so "released exactly once, never used after release, nothing unallocated
   released" is: [run] never fails and the ledger invariant holds; "net allocation zero" is c16_*_ledger.

   Phase 2 -- Value trees (coq/LedgerValueModel.v, independent of the C12 model ValueModel.v which has no heap):
   a value is what it owns -- an object its HArray storage block, the key block and the value of every item
   (recursively), an array its element block and its elements, a string its character block, a pointer value
   nothing.  Operations = Value.hpp as it stands after D29, D40v, D42v, D43v, D52, D63, in the ORDER of the code
   (copy first / detach first, then release, then adopt): assignment by copy and by move incl. from an own member
   (D40) and copy from an ancestor, get-or-create member, append, append of a value by copy / move, Merge by copy /
   by move (what is not adopted is released, the source ends Undefined), Remove / RemoveIndex (tombstone),
   Compress (one level), Reset, destruction.  [vledger]: every block is owned exactly as often as it is live
   (0 or 1 times) -- no block with two owners, no released block reachable from a variable, every live block owned.
   A release or a read of a dead block is Error UAF of the model, so [vrun ... = Ok] says there is none.

   NOT proved (no ownership model; covered by the runtime ledger of tools/props/c16.py only): the storage of
   Array<String> elements (elements are values in SeqModel), tag records (Tags.hpp), QExpression lists, the failure paths of the JSON and template parsers.
   Whether a C++ destructor really runs is decided by the C++ runtime, not by these theorems. *)
From Coq Require Import NArith List.
From Qv Require Import SeqModel LedgerModel LedgerProofs LedgerProofsArray LedgerProofsString LedgerProofsStream LedgerProofsTop.
From Qv Require Import LedgerValueModel LedgerProofsValue LedgerProofsValueOps LedgerProofsValueTop.
From Qv Require Import LedgerNestedModel LedgerProofsNested.
From Qv Require Import HtabLedgerModel HtabLedgerProofsTop.
Import ListNotations.

(* ---- all histories from the empty pool: the run succeeds (no release of a dead block, no access to one),
        the ledger holds at the end, destroying the n objects succeeds and leaves no live block ---- *)
Theorem c16_array_ledger : forall (A : Type) (junk d : A) (ops : list (@aop A)) n, Forall aop_ok ops -> within aidx n ops ->
  exists w outs w', run (astep junk d) ops world0 = Ok (w, outs) /\ ledger_inv w /\
    destroy_all n w = Ok w' /\ live_blocks (hp w') = [] /\ next (hp w') = next (hp w).
Proof. exact @array_ledger. Qed.
Print Assumptions c16_array_ledger.

Theorem c16_string_ledger : forall (ops : list sop) n, Forall sop_ok ops -> within sidx n ops ->
  exists w outs w', run sstep ops world0 = Ok (w, outs) /\ ledger_inv w /\
    destroy_all n w = Ok w' /\ live_blocks (hp w') = [] /\ next (hp w') = next (hp w).
Proof. exact string_ledger. Qed.
Print Assumptions c16_string_ledger.

Theorem c16_stream_ledger : forall (ops : list top) n, Forall top_ok ops -> within tidx n ops ->
  exists w outs w', run tstep ops world0 = Ok (w, outs) /\ ledger_inv w /\
    destroy_all n w = Ok w' /\ live_blocks (hp w') = [] /\ next (hp w') = next (hp w).
Proof. exact stream_ledger. Qed.
Print Assumptions c16_stream_ledger.

(* ---- per operation, from every state of the ledger: the ledger is kept and only the named objects change ---- *)
Theorem c16_array_step : forall (A : Type) (junk d : A) (w w' : @world A) op o, arr_inv w -> aop_ok op ->
  astep junk d w op = Ok (w', o) -> arr_inv w' /\ forall k, ~ In k (aidx op) -> ob w' k = ob w k.
Proof. exact @astep_ledger. Qed.
Print Assumptions c16_array_step.

Theorem c16_string_step : forall (w w' : wN) op o, ledger_inv w -> sop_ok op ->
  sstep w op = Ok (w', o) -> ledger_inv w' /\ forall k, ~ In k (sidx op) -> ob w' k = ob w k.
Proof. exact sstep_ledger. Qed.
Print Assumptions c16_string_step.

Theorem c16_stream_step : forall (w w' : wN) op o, ledger_inv w -> top_ok op ->
  tstep w op = Ok (w', o) -> ledger_inv w' /\ forall k, ~ In k (tidx op) -> ob w' k = ob w k.
Proof. exact tstep_ledger. Qed.
Print Assumptions c16_stream_step.

(* ---- net allocation zero from any ledger state whose owners are among the first n objects ---- *)
Theorem c16_destroy_all_empty : forall (A : Type) n (w : @world A), ledger_inv w -> pool_within n w ->
  exists w', destroy_all n w = Ok w' /\ live_blocks (hp w') = [] /\ (forall b, al (hp w') b = false) /\
    next (hp w') = next (hp w).
Proof. exact @destroy_all_empty. Qed.
Print Assumptions c16_destroy_all_empty.

(* ---- every live block is owned by exactly one object ---- *)
Theorem c16_live_block_one_owner : forall (A : Type) (w : @world A) b, ledger_inv w ->
  (In b (live_blocks (hp w)) <-> exists! k, blk (ob w k) = Some b).
Proof. exact live_block_one_owner. Qed.
Print Assumptions c16_live_block_one_owner.

(* ---- what the model's errors mean ---- *)
Theorem c16_release_not_live_is_error : forall (A : Type) (h : @heap A) b, al h b = false -> free h (Some b) = Error UAF.
Proof. exact @free_not_live_is_error. Qed.
Print Assumptions c16_release_not_live_is_error.

Theorem c16_release_once : forall (A : Type) (h h' : @heap A) b, free h (Some b) = Ok h' ->
  al h b = true /\ al h' b = false /\ free h' (Some b) = Error UAF.
Proof. exact @free_once. Qed.
Print Assumptions c16_release_once.

Theorem c16_alloc_fresh : forall (A : Type) (junk : A) (w : @world A) n, ledger_inv w ->
  al (hp w) (snd (alloc junk (hp w) n)) = false /\ next (fst (alloc junk (hp w) n)) = S (next (hp w)).
Proof. exact @alloc_fresh. Qed.
Print Assumptions c16_alloc_fresh.

(* ================= phase 2: Value trees ================= *)
(* ---- every history on a pool of n variables: the run succeeds (no release of, no read through a dead block),
        the ledger holds at the end, destroying every variable succeeds and leaves no live block ---- *)
Theorem c16_value_ledger : forall n (ops : list vop),
  exists st st', vrun ops (vstate0 n) = Ok st /\ vledger st /\
    destroy_all_values st = Ok st' /\ live_ids (fst st') = [] /\ snd st' = root0 n.
Proof. exact value_ledger. Qed.
Print Assumptions c16_value_ledger.

(* ---- per operation, from every ledger state (any tree shape, any targets): it succeeds and keeps the ledger ---- *)
Theorem c16_value_step : forall st op, vledger st ->
  exists st', vstep st op = Ok st' /\ vledger st' /\ length (vkids (snd st')) = length (vkids (snd st)).
Proof. exact vstep_ledger. Qed.
Print Assumptions c16_value_step.

(* ---- the ledger means: no block has two owners; live = owned; the live ids are exactly the owned blocks ---- *)
Theorem c16_value_ledger_meaning : forall st, vledger st ->
  NoDup (blocks (snd st)) /\ (forall x, live (fst st) x = true <-> In x (blocks (snd st))) /\
  (forall x, In x (live_ids (fst st)) <-> In x (blocks (snd st))).
Proof. exact vledger_meaning. Qed.
Print Assumptions c16_value_ledger_meaning.

(* ---- destruction from any ledger state ---- *)
Theorem c16_value_destroy_all : forall st, vledger st ->
  exists st', destroy_all_values st = Ok st' /\ (forall x, live (fst st') x = false) /\ live_ids (fst st') = [] /\
    snd st' = root0 (length (vkids (snd st))) /\ nxt (fst st') = nxt (fst st).
Proof. exact destroy_all_values_empty. Qed.
Print Assumptions c16_value_destroy_all.

(* ---- the two disciplines, for ANY balanced change: copy-then-release at a target; detach-release-adopt ---- *)
Theorem c16_value_local_change : forall st p reads f, vledger st -> local_ok f ->
  (forall x, In x reads -> In x (blocks (snd st))) ->
  exists st', apply_local st p reads f = Ok st' /\ vledger st' /\ length (vkids (snd st')) = length (vkids (snd st)).
Proof. exact apply_local_ledger. Qed.
Print Assumptions c16_value_local_change.

Theorem c16_value_absorbing_change : forall st d s g, vledger st -> absorb_ok g ->
  exists st', apply_absorb st d s g = Ok st' /\ vledger st' /\ length (vkids (snd st')) = length (vkids (snd st)).
Proof. exact apply_absorb_ledger. Qed.
Print Assumptions c16_value_absorbing_change.

Theorem c16_value_release_dead_is_error : forall h b, live h b = false -> vfree h b = Error UAF.
Proof. exact vfree_dead_is_error. Qed.
Print Assumptions c16_value_release_dead_is_error.

(* ================= phase 3: Array<Node> with nested Array<Node> (cpp/drv_nested.cpp, D52) ================= *)
(* coq/LedgerNestedModel.v: the element block is explicit -- the record of a[i].kids lies in a's element block, a
   reference to it is usable only while that block is live ([holder], check_live = Error UAF through a dangling
   reference); growing = new block, bitwise transfer of the records, release of the old block.  Operations in the
   order of the current code: d += Node, d = Move(s), d = s, d += s, d += Move(s) with s anywhere (in particular
   inside d: a = Move(a[i].kids), a = a[i].kids, a += a[i].kids, a += Move(a[i].kids), a = Move(a[i].kids[j].kids)). *)

(* ---- every history from the empty array: no dangling read, no release of a dead block, the ledger holds,
        destruction leaves no live block ---- *)
Theorem c16_nested_ledger : forall ops : list nop,
  exists st st', nrun ops nstate0 = Ok st /\ vledger st /\ destroy_all_values st = Ok st' /\ live_ids (fst st') = [].
Proof. exact nested_ledger. Qed.
Print Assumptions c16_nested_ledger.

(* ---- per operation, from every ledger state ---- *)
Theorem c16_nested_step : forall st op, vledger st ->
  exists st', nstep st op = Ok st' /\ vledger st' /\ nxt (fst st) <= nxt (fst st').
Proof. exact nstep_ledger. Qed.
Print Assumptions c16_nested_step.

(* ---- D52 as a class: if the source record lies in the destination's element block and the append reallocates,
        the order before the repair (grow first, then read the source record) reads a released block ---- *)
Theorem c16_nested_d52_resize_first_is_uaf : forall h tree d s c src,
  vledger (h, tree) -> arr_at tree d = Some c -> arr_at tree s = Some src ->
  vown c <> [] -> holder tree s = vown c ->
  append_copy_resize_first (h, tree) d s true = Error UAF /\ append_move_resize_first (h, tree) d s true = Error UAF.
Proof. exact d52_resize_first_is_uaf. Qed.
Print Assumptions c16_nested_d52_resize_first_is_uaf.

(* ================= phase 4: HashTable / HArray / HList storage, keys and values (coq/HtabLedgerModel.v) ================= *)
(* One storage block per table (heads + items, HashTable::allocate; none while the capacity is 0); a live item owns its
   key token and (HArray) its value token, a tombstone owns nothing.  Operations in the order of HashTable.hpp /
   HArray.hpp as they stand: insert / get-or-create (may resize: new block, live items moved bitwise without being
   disposed, old block released), Remove / RemoveIndex, Rename, Resize(n), Expect, Compress, Clear, Reset, Reserve, Sort,
   copy and move assignment, += by copy, += by MOVE (adopts what is new, releases the old value and disposes the
   source's key of what it does not adopt, source left empty), destruction.  Which item a key names is abstracted to
   key names (finding it is C13's subject); capacity is a grow flag (both choices covered). *)

(* ---- every history on a pool of n tables succeeds (no release of, no access through a dead block), keeps the
        ledger, and destroying every table leaves nothing live ---- *)
Theorem c16_htab_ledger : forall n ops, exists st st',
  lrun ops (lstate0 n) = Ok st /\ lledger st /\ l_destroy_all st = Ok st' /\ llive_ids (fst st') = [] /\
  snd st' = repeat ltable0 n.
Proof. exact htab_ledger. Qed.
Print Assumptions c16_htab_ledger.

(* ---- per operation, from every ledger state ---- *)
Theorem c16_htab_step : forall st o, lledger st ->
  exists st', lstep st o = Ok st' /\ lledger st' /\ length (snd st') = length (snd st).
Proof. exact lstep_ledger. Qed.
Print Assumptions c16_htab_step.

(* ---- the ledger means: no token has two owners, live = owned (no leak, nothing dangling) ---- *)
Theorem c16_htab_ledger_meaning : forall st, lledger st ->
  NoDup (pool_ids (snd st)) /\ (forall x, lv (fst st) x = true <-> In x (pool_ids (snd st))) /\
  (forall x, In x (llive_ids (fst st)) <-> In x (pool_ids (snd st))).
Proof. exact lledger_meaning. Qed.
Print Assumptions c16_htab_ledger_meaning.

(* ---- what the model's errors mean ---- *)
Theorem c16_htab_release_not_live_is_error : forall h b, lv h b = false -> lfree h b = Error UAF.
Proof. exact lfree_not_live_is_error. Qed.
Print Assumptions c16_htab_release_not_live_is_error.

Theorem c16_htab_touch_released_is_error : forall h b, lv h b = false -> ltouch h (Some b) = Error UAF.
Proof. exact ltouch_released_is_error. Qed.
Print Assumptions c16_htab_touch_released_is_error.
