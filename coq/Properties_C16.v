(* Properties_C16.v -- the C16 theorems and nothing else (PARTIAL, see below).  Each is closed by
   [exact] of a lemma from LedgerProofs*.v and followed by Print Assumptions.

   Model: the block heap of coq/SeqModel.v (the model of the C14 theorems, tied to Array.hpp / String.hpp /
   StringStream.hpp by the C14 correspondence run) observed through coq/LedgerModel.v:
     al h b            block b is live          live_blocks h     all live block ids
     ledger_inv w      ids not yet handed out are not live; no object holds a released block; no block has
                       two owners (no sharing after copy, move transfers ownership); every live block has an owner (no leak)
     destroy_all n w   run the destructor of the objects 0 .. n-1 (release the storage)
     within idx n ops  every operation of the history names objects below n (the pool has n objects)
   In this model a release of a block that is not live is [Error UAF] of [run] (c16_release_not_live_is_error),
   an id is never handed out twice (c16_alloc_fresh), and every access to a released block is [Error UAF]
   (SeqModel.rd_range / wr_range), so "released exactly once, never used after release, nothing unallocated
   released" is: [run] never fails and the ledger invariant holds; "net allocation zero" is c16_*_ledger.

   NOT proved (no heap in the existing models; covered by the runtime ledger of tools/props/c16.py only):
   the storage of Array<String> elements (elements are values in SeqModel), Value trees, HArray / HList /
   HashTable, tag records (Tags.hpp), QExpression lists, the failure paths of the JSON and template parsers.
   Whether a C++ destructor really runs is decided by the C++ runtime, not by these theorems. *)
From Coq Require Import NArith List.
From Qv Require Import SeqModel LedgerModel LedgerProofs LedgerProofsArray LedgerProofsString LedgerProofsStream LedgerProofsTop.
Import ListNotations.

(* ---- all histories from the empty pool: the run succeeds (no release of a dead block, no access to one),
        the ledger holds at the end, destroying the n objects succeeds and leaves no live block ---- *)
Theorem c16_array_ledger : forall (A : Type) (junk d : A) (ops : list (@aop A)) n, Forall aop_ok ops -> within aidx n ops ->
  exists w outs w', run (astep junk d) ops world0 = Ok (w, outs) /\ ledger_inv w /\
    destroy_all n w = Ok w' /\ live_blocks (hp w') = [] /\ next (hp w') = next (hp w).
Proof. exact @array_ledger. Qed.
Print Assumptions c16_array_ledger.

Theorem c16_string_ledger : forall (ops : list sop) n, Forall sop_ok ops -> within sidx n ops ->
  exists w outs w', run sstep ops world0 = Ok (w, outs) /\ ledger_inv w /\
    destroy_all n w = Ok w' /\ live_blocks (hp w') = [] /\ next (hp w') = next (hp w).
Proof. exact string_ledger. Qed.
Print Assumptions c16_string_ledger.

Theorem c16_stream_ledger : forall (ops : list top) n, Forall top_ok ops -> within tidx n ops ->
  exists w outs w', run tstep ops world0 = Ok (w, outs) /\ ledger_inv w /\
    destroy_all n w = Ok w' /\ live_blocks (hp w') = [] /\ next (hp w') = next (hp w).
Proof. exact stream_ledger. Qed.
Print Assumptions c16_stream_ledger.

(* ---- per operation, from every state of the ledger: the ledger is kept and only the named objects change ---- *)
Theorem c16_array_step : forall (A : Type) (junk d : A) (w w' : @world A) op o, arr_inv w -> aop_ok op ->
  astep junk d w op = Ok (w', o) -> arr_inv w' /\ forall k, ~ In k (aidx op) -> ob w' k = ob w k.
Proof. exact @astep_ledger. Qed.
Print Assumptions c16_array_step.

Theorem c16_string_step : forall (w w' : wN) op o, ledger_inv w -> sop_ok op ->
  sstep w op = Ok (w', o) -> ledger_inv w' /\ forall k, ~ In k (sidx op) -> ob w' k = ob w k.
Proof. exact sstep_ledger. Qed.
Print Assumptions c16_string_step.

Theorem c16_stream_step : forall (w w' : wN) op o, ledger_inv w -> top_ok op ->
  tstep w op = Ok (w', o) -> ledger_inv w' /\ forall k, ~ In k (tidx op) -> ob w' k = ob w k.
Proof. exact tstep_ledger. Qed.
Print Assumptions c16_stream_step.

(* ---- net allocation zero from any ledger state whose owners are among the first n objects ---- *)
Theorem c16_destroy_all_empty : forall (A : Type) n (w : @world A), ledger_inv w -> pool_within n w ->
  exists w', destroy_all n w = Ok w' /\ live_blocks (hp w') = [] /\ (forall b, al (hp w') b = false) /\
    next (hp w') = next (hp w).
Proof. exact @destroy_all_empty. Qed.
Print Assumptions c16_destroy_all_empty.

(* ---- every live block is owned by exactly one object ---- *)
Theorem c16_live_block_one_owner : forall (A : Type) (w : @world A) b, ledger_inv w ->
  (In b (live_blocks (hp w)) <-> exists! k, blk (ob w k) = Some b).
Proof. exact live_block_one_owner. Qed.
Print Assumptions c16_live_block_one_owner.

(* ---- what the model's errors mean ---- *)
Theorem c16_release_not_live_is_error : forall (A : Type) (h : @heap A) b, al h b = false -> free h (Some b) = Error UAF.
Proof. exact @free_not_live_is_error. Qed.
Print Assumptions c16_release_not_live_is_error.

Theorem c16_release_once : forall (A : Type) (h h' : @heap A) b, free h (Some b) = Ok h' ->
  al h b = true /\ al h' b = false /\ free h' (Some b) = Error UAF.
Proof. exact @free_once. Qed.
Print Assumptions c16_release_once.

Theorem c16_alloc_fresh : forall (A : Type) (junk : A) (w : @world A) n, ledger_inv w ->
  al (hp w) (snd (alloc junk (hp w) n)) = false /\ next (fst (alloc junk (hp w) n)) = S (next (hp w)).
Proof. exact @alloc_fresh. Qed.
Print Assumptions c16_alloc_fresh.
