(* JsonProofsStr.v -- JSONUtils::UnEscape against the string-body grammar SBody:
   soundness, completeness, and absence of out-of-bounds reads. *)
From Coq Require Import NArith ZArith List Bool Lia.
From Qv Require Import gen.Tables_json JsonModel JsonSpec JsonProofsBase.
Import ListNotations.
Local Open Scope N_scope.

Ltac break_hyp H :=
  match type of H with
  | context [match ?x with _ => _ end] =>
    first [ is_var x; destruct x | let E := fresh "E" in destruct x eqn:E ]
  end.

(* the stream handed back for a body [sb] that decodes to [d] *)
Definition str_out (st pend sb d : list N) : list N :=
  if has st then st ++ pend ++ d else if forallb raw_ok sb then [] else pend ++ d.

Lemma hexrd_site : forall s1 s2 n r acc x, hexrd s1 n r acc = JOk x -> hexrd s2 n r acc = JOk x.
Proof.
  induction n as [|n IH]; intros r acc x H; cbn in *; [assumption|].
  destruct r as [|d t]; [discriminate|]. destruct (hexval d); [eauto|assumption].
Qed.

Lemma hexrd_4 : forall site h1 h2 h3 h4 t, hexrd site 4 (h1 :: h2 :: h3 :: h4 :: t) 0 = JOk (hex4v h1 h2 h3 h4).
Proof.
  intros. unfold hex4v. cbn.
  destruct (hexval h1); [|reflexivity]. destruct (hexval h2); [|reflexivity].
  destruct (hexval h3); [|reflexivity]. destruct (hexval h4); reflexivity.
Qed.

Lemma hexcount_4 : forall h1 h2 h3 h4 t, (hexcount 4 (h1 :: h2 :: h3 :: h4 :: t) =? 4)%nat = hex4ok h1 h2 h3 h4.
Proof.
  intros. unfold hex4ok. cbn [hexcount].
  destruct (is_hexd h1); [|reflexivity]. destruct (is_hexd h2); [|reflexivity].
  destruct (is_hexd h3); [|reflexivity]. destruct (is_hexd h4); reflexivity.
Qed.

Lemma hexrd_no_err : forall site n r acc e, (n <= length r)%nat -> hexrd site n r acc <> JErr e.
Proof.
  induction n as [|n IH]; intros r acc e Hn; cbn; [discriminate|].
  destruct r as [|d t]; cbn in Hn; [lia|]. destruct (hexval d); [apply IH; lia|discriminate].
Qed.

Lemma to_utf_nonempty : forall w c, to_utf w c <> [].
Proof.
  intros w c. unfold to_utf.
  destruct (w =? 0); [destruct (c <? 128); [discriminate|]|].
  - destruct (c <? 2048); [discriminate|]. destruct (c <? 65536); discriminate.
  - destruct (w =? 1); [destruct (c <? 65536)|]; discriminate.
Qed.

Lemma has_app_r : forall a b, b <> [] -> has (a ++ b) = true.
Proof. intros a b H. destruct a; cbn; [destruct b; [congruence|reflexivity]|reflexivity]. Qed.

Lemma raw_ok_facts : forall c, raw_ok c = true ->
  (c =? jc_quote) = false /\ (c =? jc_bslash) = false /\ ((c =? jc_ctl_n) || (c =? jc_ctl_t) || (c =? jc_ctl_r)) = false.
Proof.
  intros c H. unfold raw_ok in H. apply andb_true_iff in H. destruct H as [H H3].
  apply andb_true_iff in H. destruct H as [H1 H2].
  rewrite negb_true_iff in *. auto.
Qed.

(* ---------------- completeness ---------------- *)
Lemma unesc_complete : forall w sb d, SBody w sb d ->
  forall f k pend st rest, (length sb < f)%nat ->
  unesc f w (sb ++ jc_quote :: rest) k pend st = JOk (S (k + length sb), str_out st pend sb d).
Proof.
  intros w sb d HS. induction HS as [| c t d Hc HS IH | ch v t d Hv HS IH | ch h1 h2 h3 h4 t d Hn Hu Hx Hh HS IH
                                     | ch h1 h2 h3 h4 ch2 l1 l2 l3 l4 t d Hn Hu Hx Hh Hu2 Hx2 HS IH];
    intros f k pend st rest Hf; (destruct f as [|f]; [cbn in Hf; lia|]).
  - cbn [app unesc has negb rd bind]. rewrite N.eqb_refl. unfold str_out. cbn [length forallb].
    rewrite Nat.add_0_r. destruct st; cbn [has]; [|rewrite app_nil_r]; reflexivity.
  - cbn [app unesc has negb rd bind adv]. destruct (raw_ok_facts _ Hc) as [H1 [H2 H3]].
    rewrite H1, H2, H3. rewrite IH by (cbn in Hf; lia). f_equal. f_equal; [cbn; lia|].
    unfold str_out. cbn [forallb]. rewrite Hc. cbn [andb].
    destruct (has st); [|destruct (forallb raw_ok t)]; rewrite <- ?app_assoc; reflexivity.
  - cbn [app unesc has negb rd bind adv].
    assert (Hq : (jc_bslash =? jc_quote) = false) by reflexivity. rewrite Hq, N.eqb_refl.
    cbn [has negb rd bind adv].
    unfold esc_simple in Hv.
    assert (Hrec : unesc f w (t ++ jc_quote :: rest) (S (S k)) [] ((st ++ pend) ++ [v])
                   = JOk (S (k + length (jc_bslash :: ch :: t)), str_out st pend (jc_bslash :: ch :: t) (v :: d))).
    { rewrite IH by (cbn in Hf; lia). f_equal. f_equal; [cbn; lia|].
      unfold str_out. rewrite has_app_r by discriminate. cbn [forallb]. 
      assert (Hb : raw_ok jc_bslash = false) by reflexivity. rewrite Hb. cbn [andb app].
      destruct (has st) eqn:Es; rewrite <- ?app_assoc; cbn [app]; [reflexivity|].
      destruct st; [reflexivity|discriminate]. }
    destruct ((ch =? jc_quote) || (ch =? jc_bslash) || (ch =? jc_slash)); [inversion Hv; subst; exact Hrec|].
    destruct (ch =? jc_b); [inversion Hv; subst; exact Hrec|].
    destruct (ch =? jc_t); [inversion Hv; subst; exact Hrec|].
    destruct (ch =? jc_n); [inversion Hv; subst; exact Hrec|].
    destruct (ch =? jc_f); [inversion Hv; subst; exact Hrec|].
    destruct (ch =? jc_r); [inversion Hv; subst; exact Hrec|discriminate].
  - cbn [app unesc has negb rd bind adv].
    assert (Hq : (jc_bslash =? jc_quote) = false) by reflexivity. rewrite Hq, N.eqb_refl.
    cbn [has negb rd bind adv].
    unfold esc_simple in Hn.
    destruct ((ch =? jc_quote) || (ch =? jc_bslash) || (ch =? jc_slash)); [discriminate|].
    destruct (ch =? jc_b); [discriminate|]. destruct (ch =? jc_t); [discriminate|].
    destruct (ch =? jc_n); [discriminate|]. destruct (ch =? jc_f); [discriminate|].
    destruct (ch =? jc_r); [discriminate|].
    unfold is_u in Hu. rewrite Hu.
    replace (3 <? length (h1 :: h2 :: h3 :: h4 :: t ++ jc_quote :: rest))%nat with true
      by (symmetry; apply Nat.ltb_lt; cbn; lia).
    rewrite hexrd_4. cbn [bind]. rewrite hexcount_4, Hx. cbn [negb bind advn]. unfold is_high in Hh. rewrite Hh. cbn [negb].
    rewrite IH by (cbn in Hf; lia). f_equal. f_equal; [cbn; lia|].
    unfold str_out. rewrite has_app_r by apply to_utf_nonempty. cbn [forallb].
    assert (Hb : raw_ok jc_bslash = false) by reflexivity. rewrite Hb. cbn [andb app].
    destruct (has st) eqn:Es; rewrite <- ?app_assoc; cbn [app]; [reflexivity|].
    destruct st; [reflexivity|discriminate].
  - cbn [app unesc has negb rd bind adv].
    assert (Hq : (jc_bslash =? jc_quote) = false) by reflexivity. rewrite Hq, N.eqb_refl.
    cbn [has negb rd bind adv].
    unfold esc_simple in Hn.
    destruct ((ch =? jc_quote) || (ch =? jc_bslash) || (ch =? jc_slash)); [discriminate|].
    destruct (ch =? jc_b); [discriminate|]. destruct (ch =? jc_t); [discriminate|].
    destruct (ch =? jc_n); [discriminate|]. destruct (ch =? jc_f); [discriminate|].
    destruct (ch =? jc_r); [discriminate|].
    unfold is_u in Hu. rewrite Hu.
    replace (3 <? length (h1 :: h2 :: h3 :: h4 :: jc_bslash :: ch2 :: l1 :: l2 :: l3 :: l4 :: t ++ jc_quote :: rest))%nat with true
      by (symmetry; apply Nat.ltb_lt; cbn; lia).
    rewrite hexrd_4. cbn [bind]. rewrite hexcount_4, Hx. cbn [negb bind advn]. unfold is_high in Hh. rewrite Hh. cbn [negb].
    replace (5 <? length (jc_bslash :: ch2 :: l1 :: l2 :: l3 :: l4 :: t ++ jc_quote :: rest))%nat with true
      by (symmetry; apply Nat.ltb_lt; cbn; lia).
    cbn [rd adv bind]. rewrite N.eqb_refl. unfold is_u in Hu2. rewrite Hu2. cbn [andb].
    cbn [bind advn]. rewrite hexrd_4. cbn [bind]. rewrite hexcount_4, Hx2. cbn [negb bind advn].
    rewrite IH by (cbn in Hf; lia). f_equal. f_equal; [cbn; lia|].
    unfold str_out. unfold pair_code.
    rewrite has_app_r by apply to_utf_nonempty. cbn [forallb].
    assert (Hb : raw_ok jc_bslash = false) by reflexivity. rewrite Hb. cbn [andb app].
    destruct (has st) eqn:Es; rewrite <- ?app_assoc; cbn [app]; [reflexivity|].
    destruct st; [reflexivity|discriminate].
Qed.

(* ---------------- soundness ---------------- *)
Ltac rw_bools :=
  repeat match goal with
         | H : _ = true |- _ => rewrite H
         | H : _ = false |- _ => rewrite H
         end.

Lemma str_out_esc : forall st pend ch sb v d,
  str_out ((st ++ pend) ++ [v]) [] sb d = str_out st pend (jc_bslash :: ch :: sb) (v :: d).
Proof.
  intros. unfold str_out. rewrite has_app_r by discriminate. cbn [forallb].
  assert (Hb : raw_ok jc_bslash = false) by reflexivity. rewrite Hb. cbn [andb app].
  destruct st; cbn [has app]; rewrite <- ?app_assoc; reflexivity.
Qed.

Lemma str_out_utf : forall st pend w code sb0 sb d, sb0 <> [] -> hd 0 sb0 = jc_bslash ->
  str_out ((st ++ pend) ++ to_utf w code) [] sb d = str_out st pend (sb0 ++ sb) (to_utf w code ++ d).
Proof.
  intros st pend w code sb0 sb d Hne Hhd. unfold str_out. rewrite has_app_r by apply to_utf_nonempty.
  destruct sb0 as [|c sb0]; [congruence|]. cbn in Hhd. subst c. cbn [app forallb].
  assert (Hb : raw_ok jc_bslash = false) by reflexivity. rewrite Hb. cbn [andb app].
  destruct st; cbn [has app]; rewrite <- ?app_assoc; reflexivity.
Qed.

Lemma unesc_sound : forall f w r k pend st n st',
  unesc f w r k pend st = JOk (S n, st') ->
  exists sb d rest, r = sb ++ jc_quote :: rest /\ SBody w sb d /\ n = (k + length sb)%nat /\ st' = str_out st pend sb d.
Proof.
  induction f as [|f IH]; intros w r k pend st n st' H; [discriminate|].
  cbn [unesc] in H. destruct r as [|c t]; cbn [has negb rd bind adv] in H; [inversion H|].
  destruct (c =? jc_quote) eqn:Eq.
  { inversion H; subst. apply N.eqb_eq in Eq; subst. exists [], [], t.
    split; [reflexivity|]. split; [constructor|]. split; [cbn; lia|].
    unfold str_out. cbn [forallb]. destruct st; cbn [has]; [reflexivity|]. rewrite app_nil_r. reflexivity. }
  destruct (c =? jc_bslash) eqn:Eb.
  { apply N.eqb_eq in Eb; subst c.
    destruct t as [|ch t2]; cbn [has negb rd bind adv] in H; [inversion H|].
    assert (Hsimple : forall v, esc_simple ch = Some v ->
              unesc f w t2 (S (S k)) [] ((st ++ pend) ++ [v]) = JOk (S n, st') ->
              exists sb d rest, jc_bslash :: ch :: t2 = sb ++ jc_quote :: rest /\ SBody w sb d /\
                                n = (k + length sb)%nat /\ st' = str_out st pend sb d).
    { intros v Hv Hr. apply IH in Hr. destruct Hr as (sb & d & rest & H1 & H2 & H3 & H4).
      exists (jc_bslash :: ch :: sb), (v :: d), rest. subst t2.
      split; [reflexivity|]. split; [constructor; assumption|]. split; [cbn; lia|].
      subst st'. apply str_out_esc. }
    destruct ((ch =? jc_quote) || (ch =? jc_bslash) || (ch =? jc_slash)) eqn:E1.
    { apply (Hsimple ch); [unfold esc_simple; rw_bools; reflexivity|assumption]. }
    destruct (ch =? jc_b) eqn:E2. { apply (Hsimple jc_ctl_b); [unfold esc_simple; rw_bools; reflexivity|assumption]. }
    destruct (ch =? jc_t) eqn:E3. { apply (Hsimple jc_ctl_t); [unfold esc_simple; rw_bools; reflexivity|assumption]. }
    destruct (ch =? jc_n) eqn:E4. { apply (Hsimple jc_ctl_n); [unfold esc_simple; rw_bools; reflexivity|assumption]. }
    destruct (ch =? jc_f) eqn:E5. { apply (Hsimple jc_ctl_f); [unfold esc_simple; rw_bools; reflexivity|assumption]. }
    destruct (ch =? jc_r) eqn:E6. { apply (Hsimple jc_ctl_r); [unfold esc_simple; rw_bools; reflexivity|assumption]. }
    assert (Hnone : esc_simple ch = None) by (unfold esc_simple; rw_bools; reflexivity).
    destruct ((ch =? jc_cu) || (ch =? jc_u)) eqn:Eu; [|inversion H].
    destruct (3 <? length t2)%nat eqn:E3l; [|inversion H].
    apply Nat.ltb_lt in E3l.
    destruct t2 as [|h1 [|h2 [|h3 [|h4 t6]]]]; cbn in E3l; try lia.
    rewrite hexrd_4 in H. cbn [bind] in H. rewrite hexcount_4 in H.
    destruct (hex4ok h1 h2 h3 h4) eqn:Ex; cbn [negb] in H; [|inversion H]. cbn [bind advn] in H.
    destruct (negb (N.land (hex4v h1 h2 h3 h4) 64512 =? 55296)) eqn:Eh.
    { apply IH in H. destruct H as (sb & d & rest & H1 & H2 & H3 & H4).
      exists (jc_bslash :: ch :: h1 :: h2 :: h3 :: h4 :: sb), (to_utf w (hex4v h1 h2 h3 h4) ++ d), rest. subst t6.
      split; [reflexivity|]. split.
      - apply SB_u; try assumption. unfold is_high. apply negb_true_iff in Eh. assumption.
      - split; [cbn; lia|]. subst st'.
        apply (str_out_utf st pend w _ [jc_bslash; ch; h1; h2; h3; h4]); [discriminate|reflexivity]. }
    destruct (5 <? length t6)%nat eqn:E5l; [|inversion H].
    apply Nat.ltb_lt in E5l.
    destruct t6 as [|x1 [|x2 [|l1 [|l2 [|l3 [|l4 t12]]]]]]; cbn in E5l; try lia.
    cbn [rd adv bind] in H.
    destruct (x1 =? jc_bslash) eqn:Ex1; cbn [andb] in H; [|inversion H]. apply N.eqb_eq in Ex1. subst x1.
    destruct ((x2 =? jc_cu) || (x2 =? jc_u)) eqn:Ex2; [|inversion H].
    cbn [bind advn] in H. rewrite hexrd_4 in H. cbn [bind] in H. rewrite hexcount_4 in H.
    destruct (hex4ok l1 l2 l3 l4) eqn:Exl; cbn [negb] in H; [|inversion H]. cbn [bind advn] in H.
    apply IH in H. destruct H as (sb & d & rest & H1 & H2 & H3 & H4).
    exists (jc_bslash :: ch :: h1 :: h2 :: h3 :: h4 :: jc_bslash :: x2 :: l1 :: l2 :: l3 :: l4 :: sb),
           (to_utf w (pair_code (hex4v h1 h2 h3 h4) (hex4v l1 l2 l3 l4)) ++ d), rest. subst t12.
    split; [reflexivity|]. split.
    - apply SB_pair; try assumption. unfold is_high. apply negb_false_iff in Eh. assumption.
    - split; [cbn; lia|]. subst st'. unfold pair_code.
      apply (str_out_utf st pend w _ [jc_bslash; ch; h1; h2; h3; h4; jc_bslash; x2; l1; l2; l3; l4]); [discriminate|reflexivity]. }
  destruct ((c =? jc_ctl_n) || (c =? jc_ctl_t) || (c =? jc_ctl_r)) eqn:Ec; [inversion H|].
  apply IH in H. destruct H as (sb & d & rest & H1 & H2 & H3 & H4).
  assert (Hraw : raw_ok c = true) by (unfold raw_ok; rewrite Eq, Eb, Ec; reflexivity).
  exists (c :: sb), (c :: d), rest. subst t.
  split; [reflexivity|]. split; [constructor; assumption|]. split; [cbn; lia|].
  subst st'. unfold str_out. cbn [forallb]. rewrite Hraw. cbn [andb].
  destruct (has st); [|destruct (forallb raw_ok sb)]; rewrite <- ?app_assoc; reflexivity.
Qed.

(* ---------------- no out-of-bounds read, no overrun; fuel ---------------- *)
Lemma unesc_no_err : forall f w r k pend st e,
  unesc f w r k pend st = JErr e -> e = Fuel /\ (f <= length r)%nat.
Proof.
  induction f as [|f IH]; intros w r k pend st e H.
  { cbn in H. inversion H. split; [reflexivity|lia]. }
  cbn [unesc] in H. destruct r as [|c t]; cbn [has negb rd bind adv] in H; [discriminate|].
  destruct (c =? jc_quote); [discriminate|].
  destruct (c =? jc_bslash).
  { destruct t as [|ch t2]; cbn [has negb rd bind adv] in H; [discriminate|].
    assert (Hrec : forall k' st2, unesc f w t2 k' [] st2 = JErr e -> e = Fuel /\ (S f <= length (c :: ch :: t2))%nat).
    { intros k' st2 Hr. apply IH in Hr. cbn. split; [tauto|lia]. }
    destruct ((ch =? jc_quote) || (ch =? jc_bslash) || (ch =? jc_slash)); [eauto|].
    destruct (ch =? jc_b); [eauto|]. destruct (ch =? jc_t); [eauto|]. destruct (ch =? jc_n); [eauto|].
    destruct (ch =? jc_f); [eauto|]. destruct (ch =? jc_r); [eauto|].
    destruct ((ch =? jc_cu) || (ch =? jc_u)); [|discriminate].
    destruct (3 <? length t2)%nat eqn:E3l; [|discriminate].
    apply Nat.ltb_lt in E3l.
    destruct t2 as [|h1 [|h2 [|h3 [|h4 t6]]]]; cbn in E3l; try lia.
    rewrite hexrd_4 in H. cbn [bind] in H.
    destruct (negb (hexcount 4 (h1 :: h2 :: h3 :: h4 :: t6) =? 4)%nat); [discriminate|]. cbn [bind advn] in H.
    destruct (negb (N.land (hex4v h1 h2 h3 h4) 64512 =? 55296)).
    { apply IH in H. cbn. split; [tauto|lia]. }
    destruct (5 <? length t6)%nat eqn:E5l; [|discriminate].
    apply Nat.ltb_lt in E5l.
    destruct t6 as [|x1 [|x2 [|l1 [|l2 [|l3 [|l4 t12]]]]]]; cbn in E5l; try lia.
    cbn [rd adv bind] in H. destruct ((x1 =? jc_bslash) && ((x2 =? jc_cu) || (x2 =? jc_u))); [|discriminate].
    cbn [bind advn] in H. rewrite hexrd_4 in H. cbn [bind] in H.
    destruct (negb (hexcount 4 (l1 :: l2 :: l3 :: l4 :: t12) =? 4)%nat); [discriminate|]. cbn [bind advn] in H.
    apply IH in H. cbn. split; [tauto|lia]. }
  destruct ((c =? jc_ctl_n) || (c =? jc_ctl_t) || (c =? jc_ctl_r)); [discriminate|].
  apply IH in H. cbn. split; [tauto|lia].
Qed.

Lemma unescape_no_err : forall w r st e, unescape w r st <> JErr e.
Proof. intros w r st e H. unfold unescape in H. apply unesc_no_err in H. lia. Qed.

(* the count handed back never exceeds what is there *)
Lemma unesc_count : forall f w r k pend st n st',
  unesc f w r k pend st = JOk (n, st') -> n = O \/ (k < n /\ n <= k + length r)%nat.
Proof.
  intros f w r k pend st n st' H. destruct n as [|n]; [left; reflexivity|right].
  apply unesc_sound in H. destruct H as (sb & d & rest & H1 & _ & H3 & _). subst.
  rewrite app_length. cbn. lia.
Qed.

(* ---------------- pstring ---------------- *)
Lemma SBody_raw : forall w sb d, SBody w sb d -> forallb raw_ok sb = true -> d = sb.
Proof.
  intros w sb d H. induction H; cbn [forallb]; intros Hr; try reflexivity;
    try (assert (Hb : raw_ok jc_bslash = false) by reflexivity; rewrite Hb in Hr; discriminate).
  apply andb_true_iff in Hr. destruct Hr as [_ Hr]. f_equal. auto.
Qed.

Lemma SBody_escaped_nonempty : forall w sb d, SBody w sb d -> forallb raw_ok sb = false -> d <> [].
Proof.
  intros w sb d H. induction H; cbn [forallb]; intros Hr; try discriminate.
  - intros Hd. destruct (to_utf w (hex4v h1 h2 h3 h4)) eqn:E; [apply to_utf_nonempty in E; assumption|discriminate].
  - intros Hd. destruct (to_utf w (pair_code (hex4v h1 h2 h3 h4) (hex4v l1 l2 l3 l4))) eqn:E;
      [apply to_utf_nonempty in E; assumption|discriminate].
Qed.

Lemma firstn_app_exact : forall (a b : list N), firstn (length a) (a ++ b) = a.
Proof. intros. rewrite firstn_app, Nat.sub_diag, firstn_all. cbn. apply app_nil_r. Qed.

Lemma skipn_app_exact : forall (a b : list N), skipn (length a) (a ++ b) = b.
Proof. intros. rewrite skipn_app, Nat.sub_diag, skipn_all. reflexivity. Qed.

Lemma pstring_complete : forall w sb d rest, SBody w sb d ->
  pstring w (sb ++ jc_quote :: rest) [] = JOk (Some (d, rest), []).
Proof.
  intros w sb d rest HS. unfold pstring, unescape.
  rewrite (unesc_complete w sb d HS) by (rewrite app_length; cbn; lia).
  cbn [bind Nat.add Nat.eqb].
  rewrite advn_ok by (rewrite app_length; cbn; lia).
  replace (S (length sb)) with (length (sb ++ [jc_quote])) by (rewrite app_length; cbn; lia).
  replace (sb ++ jc_quote :: rest) with ((sb ++ [jc_quote]) ++ rest) by (rewrite <- app_assoc; reflexivity).
  rewrite skipn_app_exact. cbn [bind].
  unfold str_out. cbn [has app].
  destruct (forallb raw_ok sb) eqn:Er.
  - cbn [has]. rewrite app_length. cbn [length]. replace (length sb + 1 - 1)%nat with (length sb) by lia.
    rewrite <- app_assoc. rewrite firstn_app_exact. rewrite (SBody_raw w sb d HS Er). reflexivity.
  - pose proof (SBody_escaped_nonempty w sb d HS Er) as Hne.
    destruct d as [|x d]; [congruence|]. reflexivity.
Qed.

Lemma pstring_sound : forall w r str r2 st',
  pstring w r [] = JOk (Some (str, r2), st') ->
  exists sb, r = sb ++ jc_quote :: r2 /\ SBody w sb str /\ st' = [].
Proof.
  intros w r str r2 st' H. unfold pstring, unescape in H.
  apply bind_JOk in H. destruct H as [[len st1] [Hu H]].
  destruct len as [|n]; cbn [Nat.eqb] in H; [inversion H|].
  apply unesc_sound in Hu. destruct Hu as (sb & d & rest & H1 & H2 & H3 & H4). cbn in H3. subst n r.
  rewrite advn_ok in H by (rewrite app_length; cbn; lia).
  replace (S (length sb)) with (length (sb ++ [jc_quote])) in H by (rewrite app_length; cbn; lia).
  replace (sb ++ jc_quote :: rest) with ((sb ++ [jc_quote]) ++ rest) in H by (rewrite <- app_assoc; reflexivity).
  rewrite skipn_app_exact in H. cbn [bind] in H.
  unfold str_out in H4. cbn [has app] in H4.
  destruct (forallb raw_ok sb) eqn:Er.
  - subst st1. cbn [has] in H. inversion H; subst. exists sb.
    split; [reflexivity|]. split; [|reflexivity].
    rewrite app_length. cbn [length]. replace (length sb + 1 - 1)%nat with (length sb) by lia.
    rewrite <- app_assoc, firstn_app_exact. rewrite <- (SBody_raw w sb d H2 Er) at 2. assumption.
  - pose proof (SBody_escaped_nonempty w sb d H2 Er) as Hne. subst st1.
    destruct d as [|x d]; [congruence|]. cbn [has] in H. inversion H; subst. exists sb.
    auto.
Qed.

Lemma pstring_none : forall w r st st', pstring w r st = JOk (None, st') -> True.
Proof. trivial. Qed.

Lemma pstring_no_err : forall w r st e, pstring w r st <> JErr e.
Proof.
  intros w r st e H. unfold pstring in H. apply bind_JErr in H. destruct H as [H|[[len st1] [Hu H]]].
  - revert H. apply unescape_no_err.
  - destruct (len =? 0)%nat eqn:El; [discriminate|].
    unfold unescape in Hu. apply unesc_count in Hu. apply Nat.eqb_neq in El.
    destruct Hu as [Hu|Hu]; [lia|].
    rewrite advn_ok in H by lia. cbn [bind] in H. destruct (has st1); discriminate.
Qed.

(* a key / string that is accepted leaves a proper suffix *)
Lemma pstring_shorter : forall w r st str r2 st',
  pstring w r st = JOk (Some (str, r2), st') -> (length r2 < length r)%nat.
Proof.
  intros w r st str r2 st' H. unfold pstring in H.
  apply bind_JOk in H. destruct H as [[len st1] [Hu H]].
  destruct (len =? 0)%nat eqn:El; [inversion H|]. apply Nat.eqb_neq in El.
  unfold unescape in Hu. apply unesc_count in Hu. destruct Hu as [Hu|Hu]; [lia|].
  rewrite advn_ok in H by lia. cbn [bind] in H.
  assert (Hl : length (skipn len r) = (length r - len)%nat) by apply skipn_length.
  destruct (has st1); inversion H; subst; lia.
Qed.

(* D92: a high surrogate escape that is not followed by backslash-u ends the string reader with count 0 (failure),
   wherever it stands in the string: nothing behind it is looked at beyond the two units of the test *)
Definition low_escape_follows (t : list N) : bool :=
  match t with x1 :: x2 :: _ => (x1 =? jc_bslash) && ((x2 =? jc_cu) || (x2 =? jc_u)) | _ => false end.

Lemma unesc_lone_high_rejected : forall f w ch h1 h2 h3 h4 t k pend st,
  esc_simple ch = None -> is_u ch = true -> is_high (hex4v h1 h2 h3 h4) = true -> low_escape_follows t = false ->
  unesc (S f) w (jc_bslash :: ch :: h1 :: h2 :: h3 :: h4 :: t) k pend st = JOk (O, st ++ pend).
Proof.
  intros f w ch h1 h2 h3 h4 t k pend st Hn Hu Hh Hl.
  cbn [unesc has negb rd bind adv].
  assert (Hq : (jc_bslash =? jc_quote) = false) by reflexivity. rewrite Hq, N.eqb_refl.
  cbn [has negb rd bind adv].
  unfold esc_simple in Hn.
  destruct ((ch =? jc_quote) || (ch =? jc_bslash) || (ch =? jc_slash)); [discriminate|].
  destruct (ch =? jc_b); [discriminate|]. destruct (ch =? jc_t); [discriminate|].
  destruct (ch =? jc_n); [discriminate|]. destruct (ch =? jc_f); [discriminate|].
  destruct (ch =? jc_r); [discriminate|].
  unfold is_u in Hu. rewrite Hu.
  replace (3 <? length (h1 :: h2 :: h3 :: h4 :: t))%nat with true by (symmetry; apply Nat.ltb_lt; cbn; lia).
  rewrite hexrd_4. cbn [bind].
  destruct (negb (hexcount 4 (h1 :: h2 :: h3 :: h4 :: t) =? 4)%nat); [reflexivity|].
  cbn [bind advn]. unfold is_high in Hh. rewrite Hh. cbn [negb].
  destruct (5 <? length t)%nat eqn:E5; [|reflexivity].
  apply Nat.ltb_lt in E5. destruct t as [|x1 [|x2 t']]; cbn in E5; try lia.
  cbn [rd adv bind]. cbn [low_escape_follows] in Hl. rewrite Hl. reflexivity.
Qed.

(* D93: a hexadecimal group with fewer than four hexadecimal digits ends the string reader with count 0 (failure), in the
   first escape and in the second half of a pair *)
Lemma unesc_short_hex_rejected : forall f w ch t k pend st,
  esc_simple ch = None -> is_u ch = true -> (hexcount 4 t =? 4)%nat = false ->
  unesc (S f) w (jc_bslash :: ch :: t) k pend st = JOk (O, st ++ pend).
Proof.
  intros f w ch t k pend st Hn Hu Hc.
  cbn [unesc has negb rd bind adv].
  assert (Hq : (jc_bslash =? jc_quote) = false) by reflexivity. rewrite Hq, N.eqb_refl.
  cbn [has negb rd bind adv].
  unfold esc_simple in Hn.
  destruct ((ch =? jc_quote) || (ch =? jc_bslash) || (ch =? jc_slash)); [discriminate|].
  destruct (ch =? jc_b); [discriminate|]. destruct (ch =? jc_t); [discriminate|].
  destruct (ch =? jc_n); [discriminate|]. destruct (ch =? jc_f); [discriminate|].
  destruct (ch =? jc_r); [discriminate|].
  unfold is_u in Hu. rewrite Hu.
  destruct (3 <? length t)%nat eqn:E3; [|reflexivity]. apply Nat.ltb_lt in E3.
  destruct (hexrd 2142 4 t 0) as [code|e] eqn:Eh; [|exfalso; apply (hexrd_no_err 2142 4 t 0 e); [lia|exact Eh]].
  cbn [bind]. rewrite Hc. reflexivity.
Qed.

Lemma unesc_short_low_rejected : forall f w ch h1 h2 h3 h4 ch2 t k pend st,
  esc_simple ch = None -> is_u ch = true -> is_high (hex4v h1 h2 h3 h4) = true -> is_u ch2 = true ->
  (hexcount 4 t =? 4)%nat = false ->
  unesc (S f) w (jc_bslash :: ch :: h1 :: h2 :: h3 :: h4 :: jc_bslash :: ch2 :: t) k pend st = JOk (O, st ++ pend).
Proof.
  intros f w ch h1 h2 h3 h4 ch2 t k pend st Hn Hu Hh Hu2 Hc.
  destruct (hex4ok h1 h2 h3 h4) eqn:Ex.
  2:{ apply unesc_short_hex_rejected; try assumption. rewrite hexcount_4. exact Ex. }
  cbn [unesc has negb rd bind adv].
  assert (Hq : (jc_bslash =? jc_quote) = false) by reflexivity. rewrite Hq, N.eqb_refl.
  cbn [has negb rd bind adv].
  unfold esc_simple in Hn.
  destruct ((ch =? jc_quote) || (ch =? jc_bslash) || (ch =? jc_slash)); [discriminate|].
  destruct (ch =? jc_b); [discriminate|]. destruct (ch =? jc_t); [discriminate|].
  destruct (ch =? jc_n); [discriminate|]. destruct (ch =? jc_f); [discriminate|].
  destruct (ch =? jc_r); [discriminate|].
  unfold is_u in Hu. rewrite Hu.
  replace (3 <? length (h1 :: h2 :: h3 :: h4 :: jc_bslash :: ch2 :: t))%nat with true by (symmetry; apply Nat.ltb_lt; cbn; lia).
  rewrite hexrd_4. cbn [bind]. rewrite hexcount_4, Ex. cbn [negb bind advn]. unfold is_high in Hh. rewrite Hh. cbn [negb].
  destruct (5 <? length (jc_bslash :: ch2 :: t))%nat eqn:E5; [|reflexivity]. apply Nat.ltb_lt in E5. cbn [length] in E5.
  cbn [rd adv bind]. rewrite N.eqb_refl. unfold is_u in Hu2. rewrite Hu2. cbn [andb bind advn].
  destruct (hexrd 2156 4 t 0) as [lo|e] eqn:El; [|exfalso; apply (hexrd_no_err 2156 4 t 0 e); [lia|exact El]].
  cbn [bind]. rewrite Hc. reflexivity.
Qed.
