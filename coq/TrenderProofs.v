(* TrenderProofs.v -- C01 for the renderer model (TrenderModel.v): on a tree that obeys the offset
   discipline (TparseModel.tree_ok) rendering never fails -- no slice of negative length or past the
   end of the text, no read outside the text, no loop item or sub tag outside its array -- for every
   value, every escape function and every expression evaluator ([render_safe]); and therefore parsing
   any text and rendering the result never fails ([render_all_safe]). *)
From Coq Require Import NArith ZArith List Bool Arith Lia ZifyBool ZifyNat ZifyN.
From Qv Require Import gen.Tables_tparse TparseModel TparseIif TparseSafety TparseTree TrenderModel.
Import ListNotations.
Ltac Zify.zify_post_hook ::= Z.div_mod_to_equations.

Definition rgood {A} (P : A -> Prop) (r : rres A) : Prop := match r with ROk a => P a | RError _ => False end.
Lemma rgood_bind : forall A B (Q : A -> Prop) (P : B -> Prop) (x : rres A) (f : A -> rres B),
  rgood Q x -> (forall a, Q a -> rgood P (f a)) -> rgood P (rbind x f).
Proof. intros A B Q P [a|e] f Hx Hf; cbn in *; [apply Hf; exact Hx|destruct Hx]. Qed.
Lemma rgood_weaken : forall A (P Q : A -> Prop) r, rgood P r -> (forall a, P a -> Q a) -> rgood Q r.
Proof. intros A P Q [a|e] H HPQ; cbn in *; auto. Qed.

(* the ranged renderer as a top-level function (the local one inside render_tag is convertible to it) *)
Section Range.
  Variable value : Type.
  Variable get_key : value -> list N -> option value.
  Variable members : value -> list (option value * list N).
  Variable value_text : bool -> value -> option (list N).
  Variable value_chars : value -> option (list N).
  Variable group_by : value -> list N -> option value.
  Variable sort_value : bool -> value -> value.
  Variable esc : list N -> list N.
  Variable eval_math : nat -> list qexpr -> list (item value) -> option (list N).
  Variable eval_cond : nat -> list qexpr -> list (item value) -> option bool.
  Variable content : list N.
  Variable root : value.
  Notation len := (length content).
  Notation rtag := (render_tag value get_key members value_text value_chars group_by sort_value esc eval_math eval_cond content root).
  Notation rlist := (render_list value get_key members value_text value_chars group_by sort_value esc eval_math eval_cond content root).

  Fixpoint render_range (l : list tag) (skip take : nat) (offset end_offset : nat) (items : list (item value)) {struct l}
    : rres (list N * list (item value)) :=
    match l with
    | [] => rbind (wslice content 230 offset end_offset) (fun o => ROk (o, items))
    | x :: r =>
      match skip with
      | S k => render_range r k take offset end_offset items
      | O =>
        match take with
        | O => rbind (wslice content 230 offset end_offset) (fun o => ROk (o, items))
        | S m =>
          rbind (rtag x offset items) (fun res =>
            let '(o, off', items') := res in
            rbind (render_range r 0 m off' end_offset items') (fun res2 => ROk (o ++ fst res2, snd res2)))
        end
      end
    end.

  Definition render_each (l : looprec) (subs : list tag) : list (item value) -> list (item value) -> rres (list N * list (item value)) :=
    fix each (ms : list (item value)) (items : list (item value)) {struct ms} : rres (list N * list (item value)) :=
    match ms with
    | [] => ROk ([], items)
    | m :: r =>
      rbind (item_set value 240 items (l_level l) m) (fun items' =>
      rbind (match fst m with
             | Some _ => rlist subs (l_off l + N.to_nat (l_coff l)) (l_end l) items'
             | None => ROk ([], items')
             end) (fun res =>
      rbind (each r (snd res)) (fun res2 => ROk (fst res ++ fst res2, snd res2))))
    end.
  Definition render_pick (items : list (item value)) : list ifcase -> rres (list N * list (item value)) :=
    fix pick (cs : list ifcase) {struct cs} : rres (list N * list (item value)) :=
    match cs with
    | [] => ROk ([], items)
    | PCase co ce cc sb :: r =>
      if (match cc with [] => true | _ => match eval_cond co cc items with Some true => true | _ => false end end)
      then rlist sb co ce items
      else pick r
    end.

  Lemma render_each_cons : forall l subs m r items,
    render_each l subs (m :: r) items =
    rbind (item_set value 240 items (l_level l) m) (fun items' =>
      rbind (match fst m with
             | Some _ => rlist subs (l_off l + N.to_nat (l_coff l)) (l_end l) items'
             | None => ROk ([], items')
             end) (fun res =>
      rbind (render_each l subs r (snd res)) (fun res2 => ROk (fst res ++ fst res2, snd res2)))).
  Proof. reflexivity. Qed.
  Lemma render_pick_cons : forall items co ce cc sb r,
    render_pick items (PCase co ce cc sb :: r) =
    if (match cc with [] => true | _ => match eval_cond co cc items with Some true => true | _ => false end end)
    then rlist sb co ce items else render_pick items r.
  Proof. reflexivity. Qed.

  Lemma rtag_if : forall o e cases offset items,
    rtag (PIf o e cases) offset items =
    rbind (wslice content 241 offset o) (fun out1 =>
      match cases with
      | PCase _ _ (_ :: _) _ :: _ => rbind (render_pick items cases) (fun res => ROk (out1 ++ fst res, e, snd res))
      | _ => ROk (out1, e, items)
      end).
  Proof. reflexivity. Qed.

  Lemma rtag_iif : forall i c subs offset items,
    rtag (PIIf i c subs) offset items =
    rbind (wslice content 233 offset (i_off i)) (fun out1 =>
      let off' := i_off i + N.to_nat (i_len i) in
      match (match c with [] => None | _ => eval_cond (i_off i) c items end) with
      | None => ROk (out1, off', items)
      | Some true =>
        let vo := i_off i + N.to_nat (i_toff i) in
        rbind (if N.ltb (i_toff i) (i_foff i)
               then rbind (check_id 234 subs (i_fid i)) (fun id => render_range subs 0 id vo (vo + N.to_nat (i_tlen i)) items)
               else rbind (check_id 235 subs (i_tid i)) (fun id => render_range subs id (length subs) vo (vo + N.to_nat (i_tlen i)) items))
              (fun r => ROk (out1 ++ fst r, off', snd r))
      | Some false =>
        let vo := i_off i + N.to_nat (i_foff i) in
        rbind (if N.ltb (i_foff i) (i_toff i)
               then rbind (check_id 236 subs (i_tid i)) (fun id => render_range subs 0 id vo (vo + N.to_nat (i_flen i)) items)
               else rbind (check_id 237 subs (i_fid i)) (fun id => render_range subs id (length subs) vo (vo + N.to_nat (i_flen i)) items))
              (fun r => ROk (out1 ++ fst r, off', snd r))
      end).
  Proof. reflexivity. Qed.

  Lemma rtag_loop : forall l subs offset items,
    rtag (PLoop l subs) offset items =
    rbind (wslice content 238 offset (l_off l)) (fun out1 =>
      let off' := l_end l + tpp_LoopSuffixLength in
      rbind (if N.eqb (v_len (l_set l)) 0 then ROk (Some root) else get_value value get_key content root (l_set l) items) (fun set0 =>
        match set0 with
        | None => ROk (out1, off', items)
        | Some s0 =>
          rbind (if N.eqb (l_glen l) 0 then ROk (Some s0)
                 else rbind (kslice content 239 (l_off l + N.to_nat (l_goff l)) (N.to_nat (l_glen l))) (fun k => ROk (group_by s0 k))) (fun s1 =>
            match s1 with
            | None => ROk (out1, off', items)
            | Some s1 =>
              let s2 := if N.ltb 1 (l_opts l) then sort_value (N.eqb (N.land (l_opts l) tpp_SortAscend) tpp_SortAscend) s1 else s1 in
              let items1 := grow value items (l_level l) in
              let content_offset := l_off l + N.to_nat (l_coff l) in
              rbind (render_each l subs (members s2) items1) (fun res => ROk (out1 ++ fst res, off', snd res))
            end)
        end)).
  Proof. reflexivity. Qed.

  (* ---- basic checked operations ---- *)
  Lemma wslice_ok : forall site a b, a <= b -> b <= len -> exists o, wslice content site a b = ROk o.
  Proof.
    intros site a b H1 H2. unfold wslice. destruct (Nat.leb_spec a b); [|lia]. destruct (Nat.leb_spec b (length content)); [|lia].
    eexists; reflexivity.
  Qed.
  Lemma rdc_ok : forall site i, i < len -> exists c, rdc content site i = ROk c.
  Proof.
    intros site i H. unfold rdc. destruct (nth_error content i) as [c|] eqn:E; [eexists; reflexivity|].
    apply nth_error_None in E. lia.
  Qed.
  Lemma kslice_ok : forall site a n, (n <> 0 -> a + n <= len) -> exists k, kslice content site a n = ROk k.
  Proof.
    intros site a n H. unfold kslice. destruct (Nat.eqb_spec n 0); [eexists; reflexivity|].
    destruct (Nat.leb_spec (a + n) (length content)); [eexists; reflexivity|specialize (H n0); lia].
  Qed.
  Lemma rsub_ok : forall site a b, b <= a -> rsub site a b = ROk (a - b).
  Proof. intros site a b H. unfold rsub. destruct (Nat.leb_spec b a); [reflexivity|lia]. Qed.

  Definition lv_ok (lv : list N) (items : list (item value)) : Prop := forall x, In x lv -> N.to_nat x < length items.

  Lemma item_at_ok : forall site items level, N.to_nat level < length items -> exists it, item_at value site items level = ROk it.
  Proof.
    intros site items level H. unfold item_at. destruct (nth_error items (N.to_nat level)) eqn:E; [eexists; reflexivity|].
    apply nth_error_None in E. lia.
  Qed.

  (* ---- getValue ---- *)
  Lemma scan_to_ok : forall site c fuel base off lim, base + lim <= len -> lim - off <= fuel ->
    rgood (fun o => off <= o /\ (o <= lim \/ o = off)) (scan_to content site c fuel base off lim).
  Proof.
    intros site c fuel; induction fuel as [|f IH]; intros base off lim Hb Hf; cbn [scan_to].
    - destruct (Nat.ltb_spec off lim); [lia|]. cbn. lia.
    - destruct (Nat.ltb_spec off lim) as [Hlt|Hge]; [|cbn; lia].
      destruct (rdc_ok site (base + off)) as [ch Hc]; [lia|]. rewrite Hc. cbn [rbind].
      destruct (N.eqb ch c); [cbn; lia|]. eapply rgood_weaken; [apply IH; lia|]. cbn. intros; lia.
  Qed.

  Lemma walk_ok : forall fuel base length offset v, base + length <= len -> 1 <= fuel -> length - offset < fuel ->
    rgood (fun _ => True) (walk value get_key content fuel base length offset v).
  Proof.
    intros fuel; induction fuel as [|f IH]; intros base length offset v Hb H1 Hf; [lia|].
    cbn [walk]. destruct v as [x|]; [|exact I].
    apply rgood_bind with (Q := fun o => offset <= o /\ (o <= length \/ o = offset)); [apply scan_to_ok; lia|].
    intros o2 Ho2. rewrite rsub_ok by lia. cbn [rbind].
    destruct (kslice_ok 203 (base + offset) (o2 - offset)) as [k Hk]; [lia|]. rewrite Hk. cbn [rbind].
    destruct (Nat.leb_spec length (S o2)) as [Hend|Hmore]; [exact I|].
    destruct (rdc_ok 204 (base + S o2)) as [ch Hc]; [lia|]. rewrite Hc. cbn [rbind].
    destruct (N.eqb ch 91); [|exact I]. apply IH; lia.
  Qed.

  Lemma get_value_ok : forall v items, v_off v + N.to_nat (v_len v) <= len ->
    (v_idlen v <> 0%N -> N.to_nat (v_level v) < length items) ->
    exists r, get_value value get_key content root v items = ROk r.
  Proof.
    intros v items Hb Hl.
    assert (G : rgood (fun _ => True) (get_value value get_key content root v items)).
    { unfold get_value.
      apply rgood_bind with (Q := fun _ : bool => True).
      { destruct (Nat.eqb_spec (N.to_nat (v_len v)) 0); [exact I|].
        destruct (rdc_ok 205 (v_off v + (N.to_nat (v_len v) - 1))) as [ch Hc]; [lia|]. rewrite Hc. exact I. }
      intros has_index _.
      destruct (N.eqb_spec (v_idlen v) 0) as [E|E].
      - destruct has_index; cbn [negb].
        + apply rgood_bind with (Q := fun o => 0 <= o /\ (o <= N.to_nat (v_len v) \/ o = 0)); [apply scan_to_ok; lia|].
          intros o Ho.
          apply rgood_bind with (Q := fun _ : option value => True).
          { destruct (Nat.eqb_spec o 0); [exact I|]. destruct (kslice_ok 208 (v_off v) o) as [k Hk]; [lia|]. rewrite Hk. exact I. }
          intros v0 _. apply walk_ok; lia.
        + destruct (kslice_ok 206 (v_off v) (N.to_nat (v_len v))) as [k Hk]; [lia|]. rewrite Hk. exact I.
      - destruct (item_at_ok 209 items (v_level v) (Hl E)) as [it Hit]. rewrite Hit. cbn [rbind].
        destruct has_index; cbn [negb]; [apply walk_ok; lia|exact I]. }
    destruct (get_value value get_key content root v items) as [r|e]; [eexists; reflexivity|destruct G].
  Qed.

  Notation rvar := (render_var value get_key value_text esc content root).
  Notation rraw := (render_raw value get_key value_text content root).
  Notation rmath := (render_math value eval_math content).

  (* ---- leaves ---- *)
  Lemma render_var_ok : forall v offset items,
    tpp_VariablePrefixLength <= v_off v -> offset <= v_off v - tpp_VariablePrefixLength ->
    v_off v + N.to_nat (v_len v) + tpp_InLineSuffixLength <= len ->
    (v_idlen v <> 0%N -> N.to_nat (v_level v) < length items) ->
    exists out, rvar v offset items = ROk (out, v_off v + N.to_nat (v_len v) + tpp_InLineSuffixLength).
  Proof.
    intros v offset items H5 Ho Hb Hl. unfold render_var, tpp_VariablePrefixLength, tpp_InLineSuffixLength, tpp_VariableFullLength in *.
    rewrite rsub_ok by lia. cbn [rbind].
    destruct (wslice_ok 211 offset (v_off v - 5)) as [o1 Ho1]; [lia|lia|]. rewrite Ho1. cbn [rbind].
    destruct (get_value_ok v items) as [val Hv]; [lia|exact Hl|]. rewrite Hv. cbn [rbind].
    replace (v_off v - 5 + (N.to_nat (v_len v) + 6)) with (v_off v + N.to_nat (v_len v) + 1) by lia.
    destruct (match val with Some x => value_text true x | None => None end); [eexists; reflexivity|].
    assert (Hk : exists key, (if N.eqb (v_idlen v) 0 then ROk []
               else rbind (item_at value 212 items (v_level v)) (fun it => ROk (snd it))) = ROk key).
    { destruct (N.eqb_spec (v_idlen v) 0) as [E|E]; [eexists; reflexivity|].
      destruct (item_at_ok 212 items (v_level v) (Hl E)) as [it Hit]. rewrite Hit. eexists; reflexivity. }
    destruct Hk as [key Hk]. rewrite Hk. cbn [rbind]. destruct key; [|eexists; reflexivity].
    destruct (wslice_ok 213 (v_off v - 5) (v_off v + N.to_nat (v_len v) + 1)) as [e He]; [lia|lia|]. rewrite He. eexists; reflexivity.
  Qed.

  Lemma render_raw_ok : forall v offset items,
    tpp_VariablePrefixLength <= v_off v -> offset <= v_off v - tpp_VariablePrefixLength ->
    v_off v + N.to_nat (v_len v) + tpp_InLineSuffixLength <= len ->
    (v_idlen v <> 0%N -> N.to_nat (v_level v) < length items) ->
    exists out, rraw v offset items = ROk (out, v_off v + N.to_nat (v_len v) + tpp_InLineSuffixLength).
  Proof.
    intros v offset items H5 Ho Hb Hl. unfold render_raw, tpp_VariablePrefixLength, tpp_RawVariablePrefixLength, tpp_InLineSuffixLength, tpp_VariableFullLength in *.
    rewrite rsub_ok by lia. cbn [rbind].
    destruct (wslice_ok 215 offset (v_off v - 5)) as [o1 Ho1]; [lia|lia|]. rewrite Ho1. cbn [rbind].
    destruct (get_value_ok v items) as [val Hv]; [lia|exact Hl|]. rewrite Hv. cbn [rbind].
    replace (v_off v - 5 + (N.to_nat (v_len v) + 6)) with (v_off v + N.to_nat (v_len v) + 1) by lia.
    destruct (match val with Some x => value_text false x | None => None end); [eexists; reflexivity|].
    destruct (wslice_ok 216 (v_off v - 5) (v_off v + N.to_nat (v_len v) + 1)) as [e He]; [lia|lia|]. rewrite He. eexists; reflexivity.
  Qed.

  Lemma render_math_ok : forall o e ex offset items, offset <= o -> o <= e -> e <= len ->
    exists out, rmath o e ex offset items = ROk (out, e).
  Proof.
    intros o e ex offset items H1 H2 H3. unfold render_math.
    destruct (wslice_ok 217 offset o) as [o1 Ho1]; [lia|lia|]. rewrite Ho1. cbn [rbind].
    destruct (match ex with [] => None | _ => eval_math o ex items end); [eexists; reflexivity|].
    destruct (wslice_ok 218 o e) as [ec He]; [lia|lia|]. rewrite He. eexists; reflexivity.
  Qed.

  (* a leaf tag rendered by render_tag *)
  Lemma rtag_leaf_ok : forall lv t offset items, leaf_wf lv t -> offset <= tstart t -> tend t <= len -> lv_ok lv items ->
    exists out, rtag t offset items = ROk (out, tend t, items).
  Proof.
    intros lv t offset items Hw Ho He Hl. destruct t as [v|v|o e ex| | | |]; cbn [leaf_wf] in Hw; try contradiction; cbn [tstart tend] in *.
    - destruct Hw as [H5 Hlv]. destruct (render_var_ok v offset items H5 Ho He) as [out E]; [intros X; apply Hl, Hlv, X|].
      cbn [render_tag]. rewrite E. eexists; reflexivity.
    - destruct Hw as [H5 Hlv]. destruct (render_raw_ok v offset items H5 Ho He) as [out E]; [intros X; apply Hl, Hlv, X|].
      cbn [render_tag]. rewrite E. eexists; reflexivity.
    - destruct (render_math_ok o e ex offset items Ho) as [out E]; [lia|exact He|]. cbn [render_tag]. rewrite E. eexists; reflexivity.
  Qed.

  Lemma leaf_le : forall lv t, leaf_wf lv t -> tstart t <= tend t.
  Proof.
    intros lv t H. destruct t as [v|v|o e ex| | | |]; cbn [leaf_wf] in H; try contradiction; cbn [tstart tend];
      unfold tpp_VariablePrefixLength, tpp_InLineSuffixLength in *; lia.
  Qed.
  Lemma leaf_seq_le : forall lv l lo hi, leaf_seq lv lo hi l -> lo <= hi.
  Proof.
    intros lv l; induction l as [|x r IH]; intros lo hi H; [exact H|].
    destruct H as (H1 & H2 & H3). apply leaf_le in H2. apply IH in H3. lia.
  Qed.

  (* the sub tags of an inline if: a part of the array, all of them leaves inside the slice *)
  Lemma render_range_ok : forall lv l skip take lo hi offset end_offset items,
    leaf_seq lv lo hi (firstn take (skipn skip l)) -> offset <= lo -> hi <= end_offset -> end_offset <= len -> lv_ok lv items ->
    exists out, render_range l skip take offset end_offset items = ROk (out, items).
  Proof.
    intros lv l; induction l as [|x r IH]; intros skip take lo hi offset end_offset items Hs Ho Hh He Hl.
    - assert (E : firstn take (skipn skip (@nil tag)) = []) by (destruct skip; destruct take; reflexivity).
      rewrite E in Hs. cbn [leaf_seq] in Hs. cbn [render_range].
      destruct (wslice_ok 230 offset end_offset) as [o Hw]; [lia|lia|]. rewrite Hw. eexists; reflexivity.
    - cbn [render_range]. destruct skip as [|k]; [|cbn [skipn] in Hs; eapply IH; eassumption].
      cbn [skipn] in Hs. destruct take as [|m].
      + cbn [firstn leaf_seq] in Hs. destruct (wslice_ok 230 offset end_offset) as [o Hw]; [lia|lia|]. rewrite Hw. eexists; reflexivity.
      + cbn [firstn leaf_seq] in Hs. destruct Hs as (H1 & H2 & H3). pose proof (leaf_seq_le _ _ _ _ H3).
        destruct (rtag_leaf_ok lv x offset items H2) as [o E]; [lia|lia|exact Hl|]. rewrite E. cbn [rbind].
        destruct (IH 0 m (tend x) hi (tend x) end_offset items) as [o2 E2]; [exact H3|lia|lia|lia|exact Hl|].
        rewrite E2. eexists; reflexivity.
  Qed.

  (* ---- super variable ---- *)
  Definition sub_ok (lv : list N) (t : tag) : Prop :=
    match t with
    | PVar v | PRaw v => tpp_VariablePrefixLength <= v_off v /\ (v_idlen v <> 0%N -> In (v_level v) lv) /\
                         v_off v + N.to_nat (v_len v) + tpp_InLineSuffixLength <= len
    | PMath o e _ => o <= e /\ e <= len
    | _ => True
    end.

  Lemma render_sub_ok : forall lv t items, sub_ok lv t -> lv_ok lv items ->
    exists o, render_sub value get_key value_text esc eval_math content root t items = ROk o.
  Proof.
    intros lv t items Hs Hl. destruct t as [v|v|o e ex| | | |]; cbn [render_sub sub_ok] in *; try (eexists; reflexivity).
    - destruct Hs as (H5 & Hlv & Hb). unfold tpp_VariablePrefixLength in *. rewrite rsub_ok by lia. cbn [rbind].
      destruct (render_var_ok v (v_off v - 5) items) as [out E]; [exact H5|unfold tpp_VariablePrefixLength; lia|exact Hb|intros X; apply Hl, Hlv, X|].
      rewrite E. eexists; reflexivity.
    - destruct Hs as (H5 & Hlv & Hb). unfold tpp_VariablePrefixLength, tpp_RawVariablePrefixLength in *. rewrite rsub_ok by lia. cbn [rbind].
      destruct (render_raw_ok v (v_off v - 5) items) as [out E]; [exact H5|unfold tpp_VariablePrefixLength; lia|exact Hb|intros X; apply Hl, Hlv, X|].
      rewrite E. eexists; reflexivity.
    - destruct Hs as [H1 H2]. destruct (render_math_ok o e ex o items) as [out E]; [lia|exact H1|exact H2|]. rewrite E. eexists; reflexivity.
  Qed.

  Lemma phrase_scan_ok : forall lv subs items phrase fuel index last_index acc,
    (forall s, In s subs -> sub_ok lv s) -> lv_ok lv items -> length phrase - index <= fuel ->
    exists o, phrase_scan value get_key value_text esc eval_math content root fuel phrase subs items index last_index acc = ROk o.
  Proof.
    intros lv subs items phrase fuel; induction fuel as [|f IH]; intros index last_index acc Hs Hl Hf; cbn [phrase_scan].
    - destruct (Nat.ltb_spec index (length phrase)); [lia|eexists; reflexivity].
    - destruct (Nat.ltb_spec index (length phrase)) as [Hlt|Hge]; [|eexists; reflexivity].
      destruct (N.eqb (nth index phrase 0%N) 123); [|apply IH; [exact Hs|exact Hl|lia]].
      destruct (Nat.ltb_spec (S index) (length phrase)); [|apply IH; [exact Hs|exact Hl|lia]].
      destruct ((S (S index) <? length phrase) && N.eqb (nth (S (S index)) phrase 0%N) 125); [|apply IH; [exact Hs|exact Hl|lia]].
      destruct (N.leb 48 (nth (S index) phrase 0%N) && (N.to_nat (nth (S index) phrase 0%N - 48) <? length subs)) eqn:Eid;
        [|apply IH; [exact Hs|exact Hl|lia]].
      apply andb_prop in Eid. destruct Eid as [_ Eid]. apply Nat.ltb_lt in Eid.
      destruct (nth_error subs (N.to_nat (nth (S index) phrase 0%N - 48))) as [t|] eqn:En; [|apply nth_error_None in En; lia].
      destruct (render_sub_ok lv t items) as [o Ho]; [apply Hs; eapply nth_error_In; exact En|exact Hl|].
      rewrite Ho. cbn [rbind]. apply IH; [exact Hs|exact Hl|lia].
  Qed.

  (* ---- the whole tree ---- *)
  Lemma lv_ok_mono : forall lv (items items' : list (item value)), lv_ok lv items -> length items <= length items' -> lv_ok lv items'.
  Proof. intros lv items items' H Hl x Hx. specialize (H x Hx). lia. Qed.

  Lemma wf_tags_all : forall lv l lo hi s, wf_tags len lv lo hi l -> In s l -> wf_tag len lv s /\ lo <= tstart s /\ tend s <= hi.
  Proof.
    intros lv l; induction l as [|x r IH]; intros lo hi s H Hin; [destruct Hin|].
    cbn [wf_tags] in H. destruct H as (H1 & H2 & H3). pose proof (wf_tag_le _ _ _ H2). pose proof (wf_tags_le _ _ _ _ _ H3).
    destruct Hin as [<-|Hin]; [split; [exact H2|lia]|]. destruct (IH _ _ _ H3 Hin) as (A & B & C). split; [exact A|lia].
  Qed.

  Lemma wf_tag_if_inv : forall lv o e cs, wf_tag len lv (PIf o e cs) -> o <= e /\ wf_cases len lv e o cs.
  Proof.
    intros lv o e cs [H1 H2]. split; [exact H1|]. clear H1. revert o H2.
    induction cs as [|[co ce cc sb] r IH]; intros lo H2; [exact H2|].
    destruct H2 as (A & B & C). cbn [wf_cases]. split; [exact A|split; [exact B|apply (IH ce C)]].
  Qed.
  Lemma wf_cases_le : forall lv cs e lo, wf_cases len lv e lo cs -> lo <= e.
  Proof.
    intros lv cs; induction cs as [|[co ce cc sb] r IH]; intros e lo H; cbn [wf_cases] in H; [exact H|].
    destruct H as (H1 & H2 & H3). apply wf_tags_le in H2. apply IH in H3. lia.
  Qed.

  Fixpoint tsize (t : tag) : nat :=
    let ls := fix ls (l : list tag) : nat := match l with [] => 0 | x :: r => tsize x + ls r end in
    match t with
    | PSVar _ _ _ subs => S (ls subs)
    | PIIf _ _ subs => S (ls subs)
    | PLoop _ subs => S (ls subs)
    | PIf _ _ cases => S ((fix cs (c : list ifcase) : nat := match c with [] => 0 | PCase _ _ _ sb :: r => S (ls sb) + cs r end) cases)
    | _ => 1
    end.
  Fixpoint lsize (l : list tag) : nat := match l with [] => 0 | x :: r => tsize x + lsize r end.
  Fixpoint csize (c : list ifcase) : nat := match c with [] => 0 | PCase _ _ _ sb :: r => S (lsize sb) + csize r end.
  Lemma tsize_if : forall o e cases, tsize (PIf o e cases) = S (csize cases).
  Proof.
    intros o e cases. cbn [tsize]. apply f_equal. induction cases as [|[co ce cc sb] r IH]; [reflexivity|].
    cbn [csize]. rewrite <- IH. reflexivity.
  Qed.
  Lemma tsize_pos : forall t, 1 <= tsize t.
  Proof. intros t; destruct t; cbn; lia. Qed.

  Lemma grow_len : forall (items : list (item value)) level,
    N.to_nat level < length (grow value items level) /\ length items <= length (grow value items level).
  Proof. intros items level. unfold grow. rewrite app_length, repeat_length. lia. Qed.
  Lemma set_nth_len : forall (items : list (item value)) k it, length (set_nth value items k it) = length items.
  Proof. intros items; induction items as [|x r IH]; intros k it; [reflexivity|]. destruct k; cbn; [reflexivity|rewrite IH; reflexivity]. Qed.

  Definition tag_ok (t : tag) : Prop := forall lv offset items,
    wf_tag len lv t -> offset <= tstart t -> tend t <= len -> lv_ok lv items ->
    exists out items', rtag t offset items = ROk (out, tend t, items') /\ length items <= length items'.
  Definition list_ok (l : list tag) : Prop := forall lv lo hi offset end_offset items,
    wf_tags len lv lo hi l -> offset <= lo -> hi <= end_offset -> end_offset <= len -> lv_ok lv items ->
    exists out items', rlist l offset end_offset items = ROk (out, items') /\ length items <= length items'.

  Lemma list_from_tags : forall l, (forall t, In t l -> tag_ok t) -> list_ok l.
  Proof.
    intros l; induction l as [|x r IH]; intros Hall lv lo hi offset end_offset items Hw Ho Hh He Hl.
    - cbn [wf_tags] in Hw. cbn [render_list]. destruct (wslice_ok 230 offset end_offset) as [o E]; [lia|lia|]. rewrite E.
      eexists _, _. split; [reflexivity|lia].
    - cbn [wf_tags] in Hw. destruct Hw as (H1 & H2 & H3). pose proof (wf_tags_le _ _ _ _ _ H3). pose proof (wf_tag_le _ _ _ H2).
      destruct (Hall x (or_introl eq_refl) lv offset items H2) as (o & items' & E & Hlen); [lia|lia|exact Hl|].
      cbn [render_list]. rewrite E. cbn [rbind].
      destruct (IH (fun t Ht => Hall t (or_intror Ht)) lv (tend x) hi (tend x) end_offset items' H3) as (o2 & items2 & E2 & Hlen2);
        [lia|lia|lia|eapply lv_ok_mono; eassumption|].
      rewrite E2. eexists _, _. split; [reflexivity|cbn; lia].
  Qed.

  Lemma all_tags_ok : forall n t, tsize t <= n -> tag_ok t.
  Proof.
    intros n; induction n as [|n IH]; intros t Hn; [pose proof (tsize_pos t); lia|].
    assert (IHl : forall l, lsize l <= n -> list_ok l).
    { intros l Hl. apply list_from_tags. intros x Hx. apply IH.
      clear - Hl Hx. induction l as [|y r IHr]; [destruct Hx|]. cbn [lsize] in Hl. destruct Hx as [<-|Hx]; [lia|]. apply IHr; [lia|exact Hx]. }
    intros lv offset items Hw Ho He Hl.
    destruct t as [v|v|o e ex|o e v subs|i c subs|l subs|o e cases].
    - destruct (rtag_leaf_ok lv (PVar v) offset items Hw Ho He Hl) as [out E]. eexists _, _. split; [exact E|lia].
    - destruct (rtag_leaf_ok lv (PRaw v) offset items Hw Ho He Hl) as [out E]. eexists _, _. split; [exact E|lia].
    - destruct (rtag_leaf_ok lv (PMath o e ex) offset items Hw Ho He Hl) as [out E]. eexists _, _. split; [exact E|lia].
    - (* super variable *)
      cbn [wf_tag] in Hw. destruct Hw as (Hoe & [Hvb Hvl] & Hsubs). cbn [tstart tend] in *.
      change (wf_tags len lv o e subs) in Hsubs.
      cbn [render_tag].
      destruct (get_value_ok v items Hvb) as [sv Hsv]; [intros X; apply Hl, Hvl, X|]. rewrite Hsv. cbn [rbind].
      destruct (wslice_ok 231 offset o) as [o1 Ho1]; [lia|lia|]. rewrite Ho1. cbn [rbind].
      destruct (match sv with Some x => value_chars x | None => None end) as [phrase|].
      + destruct (phrase_scan_ok lv subs items phrase (S (length phrase)) 0 0 []) as [o2 Ho2]; [|exact Hl|lia|].
        { intros s Hs. destruct (wf_tags_all _ _ _ _ _ Hsubs Hs) as (Ws & _ & We).
          destruct s as [sv'|sv'|so se sx| | | |]; cbn [sub_ok wf_tag tend] in *; try exact I.
          - destruct Ws as [A B]. split; [exact A|split; [exact B|lia]].
          - destruct Ws as [A B]. split; [exact A|split; [exact B|lia]].
          - lia. }
        rewrite Ho2. eexists _, _. split; [reflexivity|lia].
      + destruct (wslice_ok 232 o e) as [ec Hec]; [lia|lia|]. rewrite Hec. eexists _, _. split; [reflexivity|lia].
    - (* inline if *)
      clear Hn. cbn [wf_tag] in Hw. unfold iif_ok in Hw. cbv zeta in Hw. destruct Hw as (Ht & Hf & Hte & Hfe). cbn [tstart tend] in *.
      rewrite rtag_iif.
      destruct (wslice_ok 233 offset (i_off i)) as [o1 Ho1]; [lia|lia|]. rewrite Ho1. cbn [rbind].
      assert (Hrange : forall skip take vo ve, leaf_seq lv vo ve (firstn take (skipn skip subs)) -> ve <= len ->
                exists o2, render_range subs skip take vo ve items = ROk (o2, items)).
      { intros skip take vo ve Hq Hve. apply (render_range_ok lv subs skip take vo ve vo ve items Hq); [lia|lia|exact Hve|exact Hl]. }
      assert (Hall : forall id, firstn (length subs) (skipn id subs) = skipn id subs)
        by (intros id; apply firstn_all2; rewrite skipn_length; lia).
      destruct (match c with [] => None | _ => eval_cond (i_off i) c items end) as [[|]|]; [| |eexists _, _; split; [reflexivity|lia]].
      + destruct (N.ltb (i_toff i) (i_foff i)); destruct Ht as [Hid Hseq]; unfold check_id.
        * destruct (Nat.leb_spec (N.to_nat (i_fid i)) (length subs)) as [_|X]; [|exfalso; exact (Nat.lt_irrefl _ (Nat.lt_le_trans _ _ _ X Hid))]. cbn [rbind].
          destruct (Hrange 0 (N.to_nat (i_fid i)) _ _ Hseq) as [o2 E2]; [exact (Nat.le_trans _ _ _ Hte He)|]. rewrite E2. eexists _, _. split; [reflexivity|apply Nat.le_refl].
        * destruct (Nat.leb_spec (N.to_nat (i_tid i)) (length subs)) as [_|X]; [|exfalso; exact (Nat.lt_irrefl _ (Nat.lt_le_trans _ _ _ X Hid))]. cbn [rbind].
          rewrite <- Hall in Hseq. destruct (Hrange _ _ _ _ Hseq) as [o2 E2]; [first [exact (Nat.le_trans _ _ _ Hte He)|exact (Nat.le_trans _ _ _ Hfe He)]|]. rewrite E2. eexists _, _. split; [reflexivity|apply Nat.le_refl].
      + destruct (N.ltb (i_foff i) (i_toff i)); destruct Hf as [Hid Hseq]; unfold check_id.
        * destruct (Nat.leb_spec (N.to_nat (i_tid i)) (length subs)) as [_|X]; [|exfalso; exact (Nat.lt_irrefl _ (Nat.lt_le_trans _ _ _ X Hid))]. cbn [rbind].
          destruct (Hrange 0 (N.to_nat (i_tid i)) _ _ Hseq) as [o2 E2]; [first [exact (Nat.le_trans _ _ _ Hte He)|exact (Nat.le_trans _ _ _ Hfe He)]|]. rewrite E2. eexists _, _. split; [reflexivity|apply Nat.le_refl].
        * destruct (Nat.leb_spec (N.to_nat (i_fid i)) (length subs)) as [_|X]; [|exfalso; exact (Nat.lt_irrefl _ (Nat.lt_le_trans _ _ _ X Hid))]. cbn [rbind].
          rewrite <- Hall in Hseq. destruct (Hrange _ _ _ _ Hseq) as [o2 E2]; [first [exact (Nat.le_trans _ _ _ Hte He)|exact (Nat.le_trans _ _ _ Hfe He)]|]. rewrite E2. eexists _, _. split; [reflexivity|apply Nat.le_refl].
    - (* loop *)
      cbn [wf_tag] in Hw. destruct Hw as (Hce & [Hsb Hsl] & Hgrp & Hsubs). cbn [tstart tend] in *.
      change (wf_tags len (l_level l :: lv) (l_off l + N.to_nat (l_coff l)) (l_end l) subs) in Hsubs.
      assert (Hsz : lsize subs <= n) by (cbn [tsize] in Hn; change (S (lsize subs) <= S n) in Hn; lia).
      clear Hn. unfold tpp_LoopSuffixLength in *.
      rewrite rtag_loop.
      destruct (wslice_ok 238 offset (l_off l)) as [o1 Ho1]; [lia|lia|]. rewrite Ho1. cbn [rbind].
      assert (Hset : exists set0, (if N.eqb (v_len (l_set l)) 0 then ROk (Some root)
                 else get_value value get_key content root (l_set l) items) = ROk set0).
      { destruct (N.eqb (v_len (l_set l)) 0); [eexists; reflexivity|]. apply get_value_ok; [exact Hsb|intros X; apply Hl, Hsl, X]. }
      destruct Hset as [set0 Hset]. rewrite Hset. cbn [rbind].
      destruct set0 as [s0|]; [|eexists _, _; split; [reflexivity|lia]].
      assert (Hg : exists s1, (if N.eqb (l_glen l) 0 then ROk (Some s0)
                 else rbind (kslice content 239 (l_off l + N.to_nat (l_goff l)) (N.to_nat (l_glen l))) (fun k => ROk (group_by s0 k))) = ROk s1).
      { destruct (N.eqb (l_glen l) 0); [eexists; reflexivity|].
        destruct (kslice_ok 239 (l_off l + N.to_nat (l_goff l)) (N.to_nat (l_glen l))) as [k Hk]; [lia|]. rewrite Hk. eexists; reflexivity. }
      destruct Hg as [s1 Hg]. rewrite Hg. cbn [rbind].
      destruct s1 as [s1|]; [|eexists _, _; split; [reflexivity|lia]].
      cbv zeta.
      set (s2 := if N.ltb 1 (l_opts l) then sort_value (N.eqb (N.land (l_opts l) tpp_SortAscend) tpp_SortAscend) s1 else s1).
      destruct (grow_len items (l_level l)) as [Hg1 Hg2].
      (* the iteration over the members *)
      assert (Heach : forall ms its, N.to_nat (l_level l) < length its -> lv_ok lv its ->
                exists out its', render_each l subs ms its = ROk (out, its') /\ length its <= length its').
      { intros ms; induction ms as [|m r IHm]; intros its Hlev Hlv; [eexists _, _; split; [reflexivity|lia]|].
        rewrite render_each_cons.
        unfold item_set. destruct (Nat.ltb_spec (N.to_nat (l_level l)) (length its)) as [_|X]; [|lia]. cbn [rbind].
        set (its1 := set_nth value its (N.to_nat (l_level l)) m).
        assert (Hl1 : length its1 = length its) by apply set_nth_len.
        assert (Hbody : exists o its2, (match fst m with
                                 | Some _ => rlist subs (l_off l + N.to_nat (l_coff l)) (l_end l) its1
                                 | None => ROk ([], its1)
                                 end) = ROk (o, its2) /\ length its1 <= length its2).
        { destruct (fst m); [|eexists _, _; split; [reflexivity|lia]].
          apply (IHl subs Hsz (l_level l :: lv) (l_off l + N.to_nat (l_coff l)) (l_end l)); [exact Hsubs|lia|lia|lia|].
          intros x [<-|Hx]; [lia|]. specialize (Hlv x Hx). lia. }
        destruct Hbody as (o & its2 & Eb & Hlb). rewrite Eb. cbn [rbind snd fst].
        destruct (IHm its2) as (o3 & its3 & E3 & Hl3); [lia|eapply lv_ok_mono; [exact Hlv|lia]|].
        rewrite E3. eexists _, _. split; [reflexivity|cbn; lia]. }
      destruct (Heach (members s2) (grow value items (l_level l)) Hg1) as (o2 & its' & E2 & Hl2); [eapply lv_ok_mono; eassumption|].
      rewrite E2. eexists _, _. split; [reflexivity|cbn; lia].
    - (* if *)
      destruct (wf_tag_if_inv _ _ _ _ Hw) as [Hoe Hcs]. cbn [tstart tend] in *.
      assert (Hsz : csize cases <= n) by (rewrite tsize_if in Hn; lia).
      clear Hn Hw. rewrite rtag_if.
      destruct (wslice_ok 241 offset o) as [o1 Ho1]; [lia|lia|]. rewrite Ho1. cbn [rbind].
      assert (Hpick : forall cs lo, wf_cases len lv e lo cs -> csize cs <= n ->
                exists out its', render_pick items cs = ROk (out, its') /\ length items <= length its').
      { intros cs; induction cs as [|[co ce cc sb] r IHc]; intros lo Hwc Hc; [eexists _, _; split; [reflexivity|lia]|].
        rewrite render_pick_cons.
        cbn [wf_cases] in Hwc. destruct Hwc as (W1 & W2 & W3). cbn [csize] in Hc. pose proof (wf_cases_le _ _ _ _ W3).
        destruct (match cc with [] => true | _ => match eval_cond co cc items with Some true => true | _ => false end end).
        - apply (IHl sb ltac:(lia) lv co ce); [exact W2|lia|lia|lia|exact Hl].
        - apply (IHc ce W3). lia. }
      destruct cases as [|[co ce cc sb] r]; [eexists _, _; split; [reflexivity|lia]|].
      destruct cc as [|q qs]; [eexists _, _; split; [reflexivity|lia]|].
      destruct (Hpick _ _ Hcs Hsz) as (o2 & its' & E2 & Hl2). rewrite E2. eexists _, _. split; [reflexivity|exact Hl2].
  Qed.

  Lemma all_lists_ok : forall l, list_ok l.
  Proof. intros l. apply list_from_tags. intros t _. apply (all_tags_ok (tsize t)). lia. Qed.

  (* C01, renderer: on a tree that obeys the offset discipline, rendering never fails -- whatever the value,
     the escape function and the expression evaluator are *)
  Theorem render_safe_gen : forall tags, tree_ok len tags ->
    exists out, render_model value get_key members value_text value_chars group_by sort_value esc eval_math eval_cond content root tags = ROk out.
  Proof.
    intros tags H. unfold render_model.
    destruct (all_lists_ok tags [] 0 len 0 len [] H) as (out & its & E & _); [lia|lia|lia|intros x []|].
    rewrite E. eexists; reflexivity.
  Qed.
End Range.

(* ---- parse, then render: the C01 statement on the model ---- *)
Section All.
  Variable value : Type.
  Variable get_key : value -> list N -> option value.
  Variable members : value -> list (option value * list N).
  Variable value_text : bool -> value -> option (list N).
  Variable value_chars : value -> option (list N).
  Variable group_by : value -> list N -> option value.
  Variable sort_value : bool -> value -> value.
  Variable esc : list N -> list N.
  Variable eval_math : nat -> list qexpr -> list (item value) -> option (list N).
  Variable eval_cond : nat -> list qexpr -> list (item value) -> option bool.

  (* Template::Render(content, length, value, stream) on an empty stream: Parse, then Render *)
  Definition render_all (w : N) (content : list N) (root : value) : rres (list N) :=
    match parse_model w content with
    | Ok tags => render_model value get_key members value_text value_chars group_by sort_value esc eval_math eval_cond content root tags
    | Error _ => RError RFuel
    end.

  Theorem render_safe : forall content root tags, tree_ok (length content) tags ->
    forall e, render_model value get_key members value_text value_chars group_by sort_value esc eval_math eval_cond content root tags <> RError e.
  Proof.
    intros content root tags H e He.
    destruct (render_safe_gen value get_key members value_text value_chars group_by sort_value esc eval_math eval_cond content root tags H) as [out E].
    rewrite E in He. discriminate He.
  Qed.

  Theorem render_all_safe : forall w content root e, render_all w content root <> RError e.
  Proof.
    intros w content root e H. unfold render_all in H.
    destruct (parse_model w content) as [tags|pe] eqn:Ep; [|exact (parse_safe w content pe Ep)].
    exact (render_safe content root tags (tree_ok_all w content tags Ep) e H).
  Qed.

  Corollary render_all_total : forall w content root, exists out, render_all w content root = ROk out.
  Proof.
    intros w content root. destruct (render_all w content root) as [out|e] eqn:E; [eexists; reflexivity|].
    exfalso. exact (render_all_safe w content root e E).
  Qed.
End All.
