(* DigitProofsAccNeg.v -- C09 accuracy, negative power of ten (Digit::powerOfNegativeTen): the reciprocal-of-five
   multiplications.  With E the decimal exponent, b the 64-bit-truncated product after k multiplications,
   sh the accumulated binary shift and A = m * 2^(sh - E) (so that the exact scaled value is A / 5^E):
       | b * 5^E - A | * 2^62  <=  k * 5^E * 2^62 + k * A
   i.e. the scaled integer is off by at most k units plus a relative k * 2^-62 (table rounding).  *)
From Coq Require Import NArith ZArith List Bool Lia ZifyBool ZifyN ZifyNat.
From Qv Require Import gen.Tables_digit DigitModel DigitModelSpec DigitProofsParse DigitProofsRoundtripInt DigitProofsAccPos DigitProofsAccScale.
Import ListNotations.
Local Open Scope N_scope.

(* one multiplication: pure arithmetic on abstract constants.
   F = 5^N (so far), f = 5^n (this step), S = 2^s, R the table entry, B = 2^64 = 4 D, D = 2^62 *)
Lemma step_bound : forall b b' F f S R B D A j,
  B = 4 * D -> 0 < D -> 0 < F -> 0 < f -> f <= B -> 4 * j <= B ->
  R * f < B * S + f -> B * S < (R + 1) * f -> S < f -> f <= 2 * S ->
  b' * B <= b * R -> b * R < (b' + 1) * B ->
  b * F * D <= A * D + j * F * D + j * A ->
  A * D <= b * F * D + j * F * D + j * A ->
  b' * (F * f) * D <= (A * S) * D + (j + 1) * (F * f) * D + (j + 1) * (A * S)
  /\ (A * S) * D <= b' * (F * f) * D + (j + 1) * (F * f) * D + (j + 1) * (A * S).
Proof.
  intros b b' F f S R B D A j HB HD HF Hf HfB Hj T1 T2 HS1 HS2 Hq1 Hq2 H1 H2.
  assert (HjD : j <= D) by lia.
  assert (HBpos : 0 < B) by lia.
  set (u := b * F * D) in *.
  (* product facts, each by monotonicity *)
  assert (P1 : u * f <= (A * D + j * F * D + j * A) * f) by (apply N.mul_le_mono_r; exact H1).
  assert (P2 : A * D * f <= A * D * (2 * S)) by (apply N.mul_le_mono_l; exact HS2).
  assert (P3 : j * A * f <= j * A * (2 * S)) by (apply N.mul_le_mono_l; exact HS2).
  assert (P4 : j * F * D * f <= j * F * D * B) by (apply N.mul_le_mono_l; exact HfB).
  assert (P5 : j * (A * S) <= D * (A * S)) by (apply N.mul_le_mono_r; exact HjD).
  assert (Huf : u * f <= B * (A * S) + j * (B * (F * D))).
  { subst B. clear - P1 P2 P3 P4 P5. lia. }
  clear P1 P2 P3 P4 P5.
  assert (Q1 : b' * B * (F * f * D) <= b * R * (F * f * D)) by (apply N.mul_le_mono_r; exact Hq1).
  assert (Q2 : b * R * (F * f * D) <= (b' + 1) * B * (F * f * D)) by (apply N.mul_le_mono_r; lia).
  assert (Q3 : u * (R * f) <= u * (B * S + f)) by (apply N.mul_le_mono_l; lia).
  assert (Q4 : u * (B * S) <= u * ((R + 1) * f)) by (apply N.mul_le_mono_l; lia).
  assert (Q5 : u * (B * S) <= (A * D + j * F * D + j * A) * (B * S)) by (apply N.mul_le_mono_r; exact H1).
  assert (Q6 : A * D * (B * S) <= (u + j * F * D + j * A) * (B * S)) by (apply N.mul_le_mono_r; exact H2).
  assert (Q7 : j * (B * (F * D)) * (S + 1) <= j * (B * (F * D)) * f) by (apply N.mul_le_mono_l; lia).
  assert (Eu : u * (R * f) = b * R * (F * f * D)) by (unfold u; ring).
  split.
  - apply (N.mul_le_mono_pos_r _ _ B); [exact HBpos|].
    replace (b' * (F * f) * D * B) with (b' * B * (F * f * D)) by ring.
    clear - Q1 Q3 Q5 Q7 Huf Eu. lia.
  - apply (N.mul_le_mono_pos_r _ _ B); [exact HBpos|].
    replace ((b' * (F * f) * D + (j + 1) * (F * f) * D + (j + 1) * (A * S)) * B)
      with ((b' + 1) * B * (F * f * D) + j * (B * (F * D)) * f + (j + 1) * (B * (A * S))) by ring.
    clear - Q2 Q4 Q6 Q7 Huf Eu. lia.
Qed.

(* ---- the table facts used (re-checked on every run against the generated tables) ---- *)
Definition recip_facts (i : N) : bool :=
  let r := recip5 i in let s := recip5_shift i in
  (r * 5 ^ i <? 2 ^ 64 * 2 ^ s + 5 ^ i) && (2 ^ 64 * 2 ^ s <? (r + 1) * 5 ^ i)
  && (2 ^ s <? 5 ^ i) && (5 ^ i <=? 2 * 2 ^ s) && (r <? 2 ^ 64) && (s <=? 62).
Lemma recip_facts_ok : forall i, 1 <= i <= 27 -> recip_facts i = true.
Proof.
  intros i Hi.
  assert (Hc : forallb recip_facts (map N.of_nat (seq 1 27)) = true) by (vm_compute; reflexivity).
  rewrite forallb_forall in Hc. apply Hc. rewrite <- (N2Nat.id i). apply in_map. apply in_seq. lia.
Qed.

Definition D62 : N := 2 ^ 62.
Definition NInv (j b N A : N) : Prop :=
  b * 5 ^ N * D62 <= A * D62 + j * 5 ^ N * D62 + j * A /\ A * D62 <= b * 5 ^ N * D62 + j * 5 ^ N * D62 + j * A.

Lemma NInv_step : forall j b N A i b1,
  1 <= i <= 27 -> j <= 1000 -> NInv j b N A -> b1 = b * recip5 i ->
  NInv (j + 1) (b1 / 2 ^ 64) (N + i) (A * 2 ^ recip5_shift i).
Proof.
  intros j b N A i b1 Hi Hj [H1 H2] Hb1.
  pose proof (recip_facts_ok i Hi) as Hf. unfold recip_facts in Hf.
  repeat (apply andb_prop in Hf; destruct Hf as [Hf ?]).
  rewrite ?N.ltb_lt, ?N.leb_le in *.
  set (R := recip5 i) in *. set (s := recip5_shift i) in *.
  unfold NInv, D62 in *. rewrite N.pow_add_r.
  set (b' := b1 / 2 ^ 64).
  assert (Hq1 : b' * 2 ^ 64 <= b * R) by (rewrite <- Hb1; unfold b'; rewrite N.mul_comm; apply N.mul_div_le; apply N.pow_nonzero; lia).
  assert (Hq2 : b * R < (b' + 1) * 2 ^ 64).
  { rewrite <- Hb1. unfold b'. rewrite N.add_1_r, N.mul_comm. apply N.mul_succ_div_gt. apply N.pow_nonzero. lia. }
  apply (step_bound b b' (5 ^ N) (5 ^ i) (2 ^ s) R (2 ^ 64) (2 ^ 62) A j); try assumption.
  - reflexivity.
  - apply pow2_pos.
  - apply N.neq_0_lt_0, N.pow_nonzero; lia.
  - apply N.neq_0_lt_0, N.pow_nonzero; lia.
  - eapply N.le_trans; [eassumption|]. replace (2 ^ 64) with (2 * 2 ^ 63) by reflexivity. apply N.mul_le_mono_l.
    apply N.pow_le_mono_r; lia.
  - change (2 ^ 64) with 18446744073709551616. lia.
Qed.

Lemma pnt_loop_inv : forall fuel b e sh j N A b' e' sh',
  NInv j b N A -> j + N.of_nat fuel <= 1000 -> sh + 64 * N.of_nat fuel < 2 ^ 32 ->
  pnt_loop fuel b e sh = Ok (b', e', sh') ->
  exists k, e = e' + 27 * k /\ e' < 27 /\ sh' = sh + 62 * k /\ k <= N.of_nat fuel
            /\ NInv (j + k) b' (N + 27 * k) (A * 2 ^ (62 * k)).
Proof.
  induction fuel as [|f IH]; intros b e sh j N A b' e' sh' HI Hj Hsh H; [discriminate|].
  cbn [pnt_loop] in H. change dg_max_pow5 with 27 in H. change dg_max_shift with 64 in H.
  change (recip5_shift 27) with 62 in H. rewrite Nat2N.inj_succ in Hj, Hsh.
  destruct (27 <=? e) eqn:Ee.
  - apply N.leb_le in Ee.
    destruct (big_mul dg_parse_big_maxindex b (recip5 27)) as [b1|] eqn:Em; [|discriminate]. cbn [bind] in H.
    apply big_mul_ok in Em. rewrite N.shiftr_div_pow2 in H.
    assert (Ha : add32 sh 62 = sh + 62) by (unfold add32, two32; apply N.mod_small; change (2 ^ 32) with 4294967296 in Hsh; lia).
    rewrite Ha in H.
    pose proof (NInv_step j b N A 27 b1 ltac:(lia) ltac:(lia) HI Em) as HI1. change (recip5_shift 27) with 62 in HI1.
    apply (IH _ _ _ (j + 1) (N + 27) (A * 2 ^ 62)) in H; [|exact HI1|lia|lia].
    destruct H as [k [H1 [H2 [H3 [H4 H5]]]]].
    exists (k + 1). split; [lia|]. split; [exact H2|]. split; [lia|]. split; [lia|].
    replace (j + (k + 1)) with (j + 1 + k) by lia. replace (N + 27 * (k + 1)) with (N + 27 + 27 * k) by lia.
    replace (A * 2 ^ (62 * (k + 1))) with (A * 2 ^ 62 * 2 ^ (62 * k)).
    + exact H5.
    + replace (62 * (k + 1)) with (62 + 62 * k) by lia. rewrite N.pow_add_r. ring.
  - apply N.leb_gt in Ee. injection H as <- <- <-. exists 0. rewrite !N.mul_0_r, !N.add_0_r, N.pow_0_r, N.mul_1_r.
    split; [reflexivity|]. split; [exact Ee|]. split; [reflexivity|]. split; [lia|exact HI].
Qed.

(* ---- powerOfNegativeTen = scaling, then rounding / packing ---- *)
Definition pnt_scaled (number exponent : N) : res (N * N) :=
  do b0 <- big_shl dg_parse_big_maxindex number 64;
  do '(b, e, shifted) <- pnt_loop 40 b0 exponent (add32 exponent 64);
  (if e =? 0 then Ok (b, shifted)
   else do b1 <- big_mul dg_parse_big_maxindex b (recip5 e);
        Ok (N.shiftr b1 dg_max_shift, add32 shifted (recip5_shift e))).

Definition pnt_final (b2 shifted2 : N) : res N :=
  if b2 =? 0 then Err EShiftUB else
  let bit := N.log2 b2 in
  if bit <? 53 then Err EShiftUB else
  let num := m64 (N.shiftr b2 (bit - 53)) in
  let bias := dg_d_bias in
  do '(num2, exp) <-
    (if shifted2 <=? bit then
       let n1 := round_half num in
       Ok (n1, bias + (bit - shifted2) + b2n (9007199254740991 <? n1))
     else
       let sh := shifted2 - bit in
       if sh <? bias then
         let n1 := round_half num in Ok (n1, bias - sh + b2n (9007199254740991 <? n1))
       else
         let sh2 := sh - bias + 1 in
         if 64 <=? sh2 then Err EShiftUB
         else let n1 := round_half (N.shiftr num sh2) in Ok (n1, b2n (4503599627370495 <? n1)));
  Ok (N.lor (N.land num2 mant_mask) (N.shiftl exp 52)).

Lemma pnt_unfold : forall m e,
  power_of_negative_ten m e = (do '(b2, sh2) <- pnt_scaled m e; pnt_final b2 sh2).
Proof.
  intros m e. unfold power_of_negative_ten, pnt_scaled, pnt_final.
  destruct (big_shl dg_parse_big_maxindex m 64) as [b0|]; [|reflexivity]. cbn [bind].
  destruct (pnt_loop 40 b0 e (add32 e 64)) as [[[b e'] sh]|]; [|reflexivity]. cbn [bind].
  destruct (e' =? 0); [reflexivity|].
  destruct (big_mul dg_parse_big_maxindex b (recip5 e')) as [b1|]; reflexivity.
Qed.

(* the generic bound on the scaled integer: K multiplications, each off by at most one unit plus 2^-62 relative *)
Theorem pnt_scaled_bound : forall m e b2 sh2,
  m < 2 ^ 64 -> e < 2 ^ 20 -> pnt_scaled m e = Ok (b2, sh2) ->
  exists K, K <= e / 27 + 1 /\ e + 64 <= sh2 /\ NInv K b2 e (m * 2 ^ (sh2 - e)).
Proof.
  intros m e b2 sh2 Hm He H. unfold pnt_scaled in H.
  destruct (big_shl dg_parse_big_maxindex m 64) as [b0|] eqn:E0; [|discriminate]. cbn [bind] in H.
  apply big_shl_ok in E0.
  change (2 ^ 20) with 1048576 in He.
  assert (Ha : add32 e 64 = e + 64) by (unfold add32, two32; apply N.mod_small; lia). rewrite Ha in H.
  destruct (pnt_loop 40 b0 e (e + 64)) as [[[b e'] sh]|] eqn:EL; [|discriminate]. cbn [bind] in H.
  assert (HI0 : NInv 0 b0 0 (m * 2 ^ 64)).
  { unfold NInv. rewrite E0, N.pow_0_r. split; lia. }
  apply (pnt_loop_inv 40 b0 e (e + 64) 0 0 (m * 2 ^ 64)) in EL; [|exact HI0|cbn; lia|change (2 ^ 32) with 4294967296; cbn; lia].
  destruct EL as [k [Ee [He' [Hsh [Hk HI]]]]]. rewrite !N.add_0_l in HI.
  assert (Hk27 : k = e / 27 /\ e' = e mod 27).
  { assert (e = 27 * k + e') by lia. split; [apply (N.div_unique e 27 k e'); lia|apply (N.mod_unique e 27 k e'); lia]. }
  destruct (e' =? 0) eqn:Ez.
  - apply N.eqb_eq in Ez. injection H as <- <-. exists k. split; [lia|]. split; [lia|].
    assert (HA : m * 2 ^ (sh - e) = m * 2 ^ 64 * 2 ^ (62 * k)).
    { replace (sh - e) with (64 + 62 * k) by lia. rewrite N.pow_add_r. ring. }
    rewrite HA. replace e with (27 * k) by lia. exact HI.
  - apply N.eqb_neq in Ez.
    destruct (big_mul dg_parse_big_maxindex b (recip5 e')) as [b1|] eqn:Em; [|discriminate]. cbn [bind] in H.
    apply big_mul_ok in Em. change dg_max_shift with 64 in H. rewrite N.shiftr_div_pow2 in H.
    pose proof (recip_facts_ok e' ltac:(lia)) as Hf. unfold recip_facts in Hf.
    repeat (apply andb_prop in Hf; destruct Hf as [Hf ?]). rewrite ?N.ltb_lt, ?N.leb_le in *.
    assert (Ha2 : add32 sh (recip5_shift e') = sh + recip5_shift e') by (unfold add32, two32; apply N.mod_small; lia).
    rewrite Ha2 in H. injection H as <- <-.
    pose proof (NInv_step k b (27 * k) (m * 2 ^ 64 * 2 ^ (62 * k)) e' b1 ltac:(lia) ltac:(lia) HI Em) as HI1.
    exists (k + 1). split; [lia|]. split; [lia|].
    assert (HA : m * 2 ^ (sh + recip5_shift e' - e) = m * 2 ^ 64 * 2 ^ (62 * k) * 2 ^ recip5_shift e').
    { replace (sh + recip5_shift e' - e) with (64 + 62 * k + recip5_shift e') by lia. rewrite !N.pow_add_r. ring. }
    rewrite HA. replace e with (27 * k + e') by lia. exact HI1.
Qed.

(* ---- one ulp under the guard-bit condition ---- *)
Lemma neg_round_bound : forall b2 K A F u n1,
  K <= 14 -> 32 <= u -> 0 < F -> b2 < 18014398509481984 * u ->
  b2 * F * D62 <= A * D62 + K * F * D62 + K * A ->
  A * D62 <= b2 * F * D62 + K * F * D62 + K * A ->
  n1 * 2 * u <= b2 + u -> b2 < n1 * 2 * u + u ->
  n1 * (2 * u * F) < A + 2 * u * F /\ A < n1 * (2 * u * F) + 2 * u * F.
Proof.
  intros b2 K A F u n1 HK Hu HF Hb H1 H2 R1 R2. unfold D62 in *. change (2 ^ 62) with 4611686018427387904 in *.
  assert (M1 : K * A <= 14 * A) by (apply N.mul_le_mono_r; exact HK).
  assert (M2 : K * F <= 14 * F) by (apply N.mul_le_mono_r; exact HK).
  assert (M3 : 32 * F <= u * F) by (apply N.mul_le_mono_r; exact Hu).
  assert (M4 : b2 * F < 18014398509481984 * (u * F)).
  { replace (18014398509481984 * (u * F)) with (18014398509481984 * u * F) by ring. apply N.mul_lt_mono_pos_r; assumption. }
  assert (M5 : n1 * (2 * u * F) <= b2 * F + u * F).
  { replace (n1 * (2 * u * F)) with (n1 * 2 * u * F) by ring. replace (b2 * F + u * F) with ((b2 + u) * F) by ring.
    apply N.mul_le_mono_r. exact R1. }
  assert (M6 : b2 * F < n1 * (2 * u * F) + u * F).
  { replace (n1 * (2 * u * F) + u * F) with ((n1 * 2 * u + u) * F) by ring. apply N.mul_lt_mono_pos_r; assumption. }
  replace (b2 * F * 4611686018427387904) with (4611686018427387904 * (b2 * F)) in * by ring.
  replace (K * F * 4611686018427387904) with (4611686018427387904 * (K * F)) in * by ring.
  replace (2 * u * F) with (2 * (u * F)) in * by ring.
  set (bF := b2 * F) in *. set (KF := K * F) in *. set (KA := K * A) in *. set (uF := u * F) in *.
  set (nuF := n1 * (2 * uF)) in *.
  clearbody bF KF KA uF nuF. clear R1 R2 Hb Hu HK. split; lia.
Qed.

Lemma pnt_final_shape : forall b2 sh2 bits,
  b2 <> 0 -> 53 <= N.log2 b2 -> sh2 < 1023 + N.log2 b2 ->
  pnt_final b2 sh2 = Ok bits ->
  let bit := N.log2 b2 in let u := 2 ^ (bit - 53) in
  exists n1 cy x0, 2 ^ 52 <= n1 <= 2 ^ 53 /\ n1 * 2 * u <= b2 + u /\ b2 < n1 * 2 * u + u
    /\ cy = b2n (9007199254740991 <? n1) /\ 1 <= x0 /\ x0 + sh2 = 1023 + bit
    /\ bits = n1 mod 2 ^ 52 + (x0 + cy) * 2 ^ 52.
Proof.
  intros b2 sh2 bits Hb0 Hbit Hn H bit u. unfold pnt_final in H. fold bit in H.
  assert (E0 : (b2 =? 0) = false) by (apply N.eqb_neq; exact Hb0). rewrite E0 in H.
  assert (E1 : (bit <? 53) = false) by (apply N.ltb_ge; exact Hbit). rewrite E1 in H.
  change dg_d_bias with 1023 in H.
  destruct (round54 b2 bit Hb0 eq_refl Hbit) as [Hx54 [Hn1 [R1 R2]]]. fold u in Hx54, Hn1, R1, R2.
  rewrite N.shiftr_div_pow2 in H. fold u in H.
  rewrite (m64_id (b2 / u)) in H by (eapply N.lt_trans; [apply Hx54|vm_compute; reflexivity]).
  set (n1 := round_half (b2 / u)) in *. set (cy := b2n (9007199254740991 <? n1)) in *.
  destruct (sh2 <=? bit) eqn:E2.
  - apply N.leb_le in E2. cbn [bind] in H. set (ex := 1023 + (bit - sh2) + cy) in *.
    injection H as Hbits. rewrite pack_fields in Hbits.
    exists n1, cy, (1023 + (bit - sh2)). repeat split; try assumption; try (apply Hn1); try lia; try (symmetry; exact Hbits).
  - apply N.leb_gt in E2.
    assert (E3 : (sh2 - bit <? 1023) = true) by (apply N.ltb_lt; lia). rewrite E3 in H. cbn [bind] in H.
    set (ex := 1023 - (sh2 - bit) + cy) in *.
    injection H as Hbits. rewrite pack_fields in Hbits.
    exists n1, cy, (1023 - (sh2 - bit)). repeat split; try assumption; try (apply Hn1); try lia; try (symmetry; exact Hbits).
Qed.

(* the guard: the scaled integer keeps at least 5 bits below the 53-bit result, at most 14 multiplications,
   and the result is a normal double *)
Definition pnt_guard (m e : N) : bool :=
  match pnt_scaled m e with
  | Ok (b2, sh2) => (58 <=? N.log2 b2) && (e <=? 377) && (sh2 <? 1023 + N.log2 b2)
  | Err _ => false
  end.

Theorem pnt_one_ulp_guarded : forall m e bits,
  0 < m -> m < 2 ^ 64 -> pnt_guard m e = true ->
  power_of_negative_ten m e = Ok bits ->
  1 <= dbl_x bits
  /\ dbl_M bits * 2 ^ dbl_x bits * 10 ^ e < m * 2 ^ 1075 + 2 ^ dbl_x bits * 10 ^ e
  /\ m * 2 ^ 1075 < dbl_M bits * 2 ^ dbl_x bits * 10 ^ e + 2 ^ dbl_x bits * 10 ^ e.
Proof.
  intros m e bits Hm0 Hm Hg H. unfold pnt_guard in Hg. rewrite pnt_unfold in H.
  destruct (pnt_scaled m e) as [[b2 sh2]|] eqn:ES; [|discriminate]. cbn [bind] in H.
  apply andb_prop in Hg. destruct Hg as [Hg Hn]. apply andb_prop in Hg. destruct Hg as [Hbit He].
  apply N.leb_le in Hbit. apply N.leb_le in He. apply N.ltb_lt in Hn.
  destruct (pnt_scaled_bound m e b2 sh2 Hm ltac:(change (2 ^ 20) with 1048576; lia) ES) as [K [HK [Hsh [I1 I2]]]].
  assert (HK14 : K <= 14).
  { assert (e / 27 <= 13) by (apply N.lt_succ_r; apply N.div_lt_upper_bound; lia). lia. }
  assert (Hb0 : b2 <> 0) by (intros ->; cbn in Hbit; lia).
  destruct (pnt_final_shape b2 sh2 bits Hb0 ltac:(lia) Hn H) as [n1 [cy [x0 [Hn1 [R1 [R2 [Hcy [Hx0 [Hsum Hbits]]]]]]]]].
  clear H ES.
  set (bit := N.log2 b2) in *. set (u := 2 ^ (bit - 53)) in *. set (F := 5 ^ e) in *. set (A := m * 2 ^ (sh2 - e)) in *.
  assert (HF : 0 < F) by (apply N.neq_0_lt_0, N.pow_nonzero; lia).
  assert (Hu : 32 <= u).
  { change 32 with (2 ^ 5). apply N.pow_le_mono_r; lia. }
  assert (Hb2 : b2 < 18014398509481984 * u).
  { change 18014398509481984 with (2 ^ 54). unfold u. rewrite <- N.pow_add_r. replace (54 + (bit - 53)) with (N.succ bit) by lia.
    apply N.log2_spec. lia. }
  destruct (neg_round_bound b2 K A F u n1 HK14 Hu HF Hb2 I1 I2 R1 R2) as [C1 C2].
  set (W := 2 * u * F) in *.
  set (Z := 2 ^ (sh2 - e)). assert (HZ : 0 < Z) by apply pow2_pos.
  set (S := 2 ^ 1075). assert (HS : 0 < S) by apply pow2_pos.
  assert (P2a : 2 ^ x0 * 2 ^ e * Z = 2 ^ (1023 + bit)).
  { unfold Z. rewrite <- !N.pow_add_r. f_equal. lia. }
  assert (P2b : 2 * u * S = 2 ^ (1023 + bit)).
  { unfold u, S. change 2 with (2 ^ 1) at 1. rewrite <- !N.pow_add_r. f_equal. lia. }
  assert (Id1 : 2 ^ x0 * 10 ^ e * Z = W * S).
  { change 10 with (2 * 5). rewrite N.pow_mul_l. fold F. unfold W.
    replace (2 ^ x0 * (2 ^ e * F) * Z) with (2 ^ x0 * 2 ^ e * Z * F) by ring. rewrite P2a.
    replace (2 * u * F * S) with (2 * u * S * F) by ring. rewrite P2b. reflexivity. }
  assert (Id2 : m * S * Z = A * S) by (unfold A; fold Z; ring).
  (* the bound at the scale Z, then cancel Z *)
  assert (G1 : n1 * (2 ^ x0 * 10 ^ e) < m * S + 2 ^ x0 * 10 ^ e).
  { apply (N.mul_lt_mono_pos_r Z); [exact HZ|].
    replace (n1 * (2 ^ x0 * 10 ^ e) * Z) with (n1 * (2 ^ x0 * 10 ^ e * Z)) by ring.
    replace ((m * S + 2 ^ x0 * 10 ^ e) * Z) with (m * S * Z + 2 ^ x0 * 10 ^ e * Z) by ring.
    rewrite Id1, Id2. replace (n1 * (W * S)) with (n1 * W * S) by ring.
    replace (A * S + W * S) with ((A + W) * S) by ring. apply N.mul_lt_mono_pos_r; assumption. }
  assert (G2 : m * S < n1 * (2 ^ x0 * 10 ^ e) + 2 ^ x0 * 10 ^ e).
  { apply (N.mul_lt_mono_pos_r Z); [exact HZ|].
    replace ((n1 * (2 ^ x0 * 10 ^ e) + 2 ^ x0 * 10 ^ e) * Z) with (n1 * (2 ^ x0 * 10 ^ e * Z) + 2 ^ x0 * 10 ^ e * Z) by ring.
    rewrite Id1, Id2. replace (n1 * (W * S) + W * S) with ((n1 * W + W) * S) by ring.
    apply N.mul_lt_mono_pos_r; assumption. }
  set (U := 2 ^ x0 * 10 ^ e) in *. assert (HU : 0 < U) by (unfold U; apply N.mul_pos_pos; [apply pow2_pos|apply N.neq_0_lt_0, N.pow_nonzero; lia]).
  clear C1 C2 Id1 Id2 P2a P2b I1 I2 R1 R2.
  subst bits. destruct (9007199254740991 <? n1) eqn:Ecy; cbn [b2n] in Hcy; subst cy.
  - apply N.ltb_lt in Ecy. assert (Hn53 : n1 = 2 ^ 53) by (change (2 ^ 53) with 9007199254740992 in *; lia).
    assert (Hmod : n1 mod 2 ^ 52 = 0) by (rewrite Hn53; reflexivity). rewrite Hmod.
    destruct (unpack 0 (x0 + 1)) as [UM Ux]; [apply pow2_pos|]. rewrite UM, Ux. rewrite N.add_0_r.
    assert (Hv : 2 ^ 52 * 2 ^ (x0 + 1) * 10 ^ e = n1 * U).
    { rewrite Hn53. unfold U. rewrite N.pow_add_r. change (2 ^ 53) with (2 ^ 52 * 2 ^ 1). ring. }
    assert (Hulp : 2 ^ (x0 + 1) * 10 ^ e = 2 * U) by (unfold U; rewrite N.pow_add_r; change (2 ^ 1) with 2; ring).
    rewrite Hv, Hulp. fold S. clearbody U S. split; [lia|]. split; lia.
  - apply N.ltb_ge in Ecy. assert (Hn52 : 2 ^ 52 <= n1 < 2 ^ 53) by (change (2 ^ 53) with 9007199254740992 in *; lia).
    rewrite (mod52_lt n1 Hn52). rewrite N.add_0_r.
    destruct (unpack (n1 - 2 ^ 52) x0) as [UM Ux]; [change (2 ^ 52) with 4503599627370496 in *; change (2 ^ 53) with 9007199254740992 in *; lia|].
    rewrite UM, Ux. replace (2 ^ 52 + (n1 - 2 ^ 52)) with n1 by (change (2 ^ 52) with 4503599627370496 in *; lia).
    replace (n1 * 2 ^ x0 * 10 ^ e) with (n1 * U) by (unfold U; ring). fold U. fold S.
    clearbody U S. split; [lia|]. split; lia.
Qed.

(* non-vacuity: 1.5e-10 = 15e-11 satisfies the guard and is within one ulp; 1e-325 (deep subnormal) does not *)
Example pnt_examples :
  pnt_guard 15 11 = true /\ power_of_negative_ten 15 11 = Ok 4459862875403570764
  /\ pnt_guard 12345678901234567 30 = true /\ pnt_guard 1 325 = false.
Proof. repeat (match goal with |- _ /\ _ => split end); vm_compute; reflexivity. Qed.
