(* BigIntProofs2.v -- C19 lemmas, part 2: Multiply and Divide by a word, relative to
   the contracts of the double-word helpers (mul2_ok / div2_ok, established in
   BigIntHelpers.v). *)
From Coq Require Import Arith NArith ZArith List Bool Lia Psatz.
From Coq Require Import ZifyBool ZifyNat ZifyN.
From Qv Require Import BigIntModel BigIntProofs.
Import ListNotations.
Local Open Scope N_scope.

Section W.
  Variable w : N.
  Notation B := (Bw w).
  Notation val := (value w).
  Notation pw := (pw w).
  Notation bval := (bval w).

  (* contract of DoubleSize<Number_T, w>::Multiply *)
  Definition mul2_ok : Prop := forall x m, x < B -> m < B ->
    let '(lo, hi) := mul2 w x m in lo < B /\ hi < B /\ lo + hi * B = x * m.

  (* contract of DoubleSize<Number_T, w>::Divide as called by BigInt::Divide *)
  Definition div_shift (d : N) : N := if w =? 64 then (w - 1) - N.log2 d else 0.
  Definition div2_ok : Prop := forall hi lo d, 0 < d < B -> hi < d -> lo < B ->
    div2 w hi lo d (div_shift d) = ((hi * B + lo) mod d, (hi * B + lo) / d).

  Lemma mul_loop_spec : mul2_ok -> forall k s m, WF0 w s -> m < B -> (k <= S (index s))%nat ->
    bval s + m * val (firstn k (words s)) < pw (length (words s)) + val (firstn k (words s)) ->
    exists s', mul_loop w k s m = Ok s' /\ WF0 w s' /\ length (words s') = length (words s) /\
      bval s' + val (firstn k (words s)) = bval s + m * val (firstn k (words s)).
  Proof.
    intros Hmul. induction k as [|i IH]; intros s m H0 Hm Hk Hfit.
    - exists s. cbn [mul_loop firstn value]. repeat split; auto; try apply H0. lia.
    - destruct H0 as (Hw & Hi & Ha).
      assert (Hil : (i < length (words s))%nat) by lia.
      cbn [mul_loop]. rewrite rd_ok by assumption. cbn [bind].
      set (x := nth i (words s) 0) in *.
      pose proof (wordsok_nth w _ i Hw Hil) as Hx. fold x in Hx.
      specialize (Hmul x m Hx Hm). destruct (mul2 w x m) as [lo hi]. destruct Hmul as (Hlo & Hhi & Hprod).
      rewrite wr_ok by assumption. cbn [bind].
      set (l1 := upd (words s) i lo).
      assert (H01 : WF0 w (mkBig l1 (index s))).
      { split; [apply wordsok_upd; assumption|]. split; [cbn; unfold l1; rewrite length_upd; lia|].
        intros j Hj. cbn [words index] in *. unfold l1. rewrite nth_upd_other by lia. apply Ha, Hj. }
      pose proof (value_upd w (words s) i lo Hil) as Hv1. fold x l1 in Hv1.
      rewrite (value_firstn_S w (words s) i Hil) in Hfit. fold x in Hfit.
      set (L := val (firstn i (words s))) in *.
      pose proof (pw_S w i) as HpS. pose proof (pw_pos w i) as Hpp.
      set (P := pw i) in *.
      assert (Hlen1 : length l1 = length (words s)) by (unfold l1; apply length_upd).
      assert (Hp3 : lo * P + hi * (B * P) = m * (x * P)).
      { transitivity ((lo + hi * B) * P); [ring|rewrite Hprod; ring]. }
      unfold BigIntProofs.bval in Hfit.
      assert (Hfit1 : BigIntProofs.bval w (mkBig l1 (index s)) + hi * pw (S i) < pw (length (words (mkBig l1 (index s))))).
      { unfold BigIntProofs.bval. cbn [words]. rewrite Hlen1, HpS.
        pose proof (value_bound w l1 (proj1 H01)) as Hb1. cbn [words] in Hb1. rewrite Hlen1 in Hb1.
        pose proof (B_pos w) as HBp.
        destruct (N.eq_dec m 0) as [->|Hm0].
        - assert (hi = 0) by nia. subst hi. lia.
        - assert (L <= m * L) by nia. lia. }
      destruct (add_spec0 w (mkBig l1 (index s)) hi (S i) H01 Hhi Hfit1)
        as (s2 & Hrun & H02 & Hv2 & Hl2 & Hidx & Hsame & _).
      rewrite Hrun. cbn [bind].
      cbn [words index] in Hl2, Hidx, Hsame.
      assert (Hf2 : firstn i (words s2) = firstn i (words s)).
      { apply firstn_ext_nth; [lia|]. intros j Hj. rewrite Hsame by lia. unfold l1.
        apply nth_upd_other. lia. }
      unfold BigIntProofs.bval in Hv2. cbn [words] in Hv2. rewrite HpS in Hv2.
      destruct (IH s2 m H02 Hm ltac:(lia)) as (s' & Hrun' & H0' & Hl' & Hv').
      + rewrite Hf2, Hl2, Hlen1. fold L. unfold BigIntProofs.bval in *. nia.
      + exists s'. split; [exact Hrun'|]. split; [exact H0'|]. split; [lia|].
        rewrite Hf2 in Hv'. fold L in Hv'.
        rewrite (value_firstn_S w (words s) i Hil). fold x L P.
        unfold BigIntProofs.bval in *. nia.
  Qed.

  Theorem multiply_correct : mul2_ok -> forall s m, WF w s -> m < B ->
    bval s * m < pw (length (words s)) ->
    exists s', multiply w s m = Ok s' /\ WF w s' /\ bval s' = bval s * m /\
               length (words s') = length (words s).
  Proof.
    intros Hmul s m (H0 & Ht) Hm Hfit. unfold multiply.
    pose proof (WF0_value_firstn w s H0) as Hf.
    destruct (mul_loop_spec Hmul (S (index s)) s m H0 Hm ltac:(lia)) as (s1 & Hrun & H01 & Hl1 & Hv1).
    - rewrite Hf. nia.
    - rewrite Hrun. cbn [bind]. rewrite Hf in Hv1.
      destruct (scan_down_WF w s1 H01) as (k & Hk & HWF & _).
      rewrite Hk. cbn [bind]. exists (mkBig (words s1) k).
      split; [reflexivity|]. split; [exact HWF|]. split; [|exact Hl1].
      unfold BigIntProofs.bval in *. cbn [words]. nia.
  Qed.

  (* ----------------------------------------------------------------------- *)
  Lemma div_loop_spec : div2_ok -> forall k l rem d, wordsok w l -> 0 < d < B -> rem < d ->
    (k <= length l)%nat ->
    exists l' r, div_loop w k l rem d (div_shift d) = Ok (l', r) /\ length l' = length l /\
      wordsok w l' /\ r < d /\
      rem * pw k + val (firstn k l) = d * val (firstn k l') + r /\
      (forall j, (k <= j)%nat -> nth j l' 0 = nth j l 0).
  Proof.
    intros Hdiv. induction k as [|i IH]; intros l rem d Hw Hd Hrem Hk.
    - exists l, rem. cbn [div_loop firstn value]. repeat split; auto. rewrite pw_0. lia.
    - assert (Hil : (i < length l)%nat) by lia.
      cbn [div_loop]. rewrite rd_ok by assumption. cbn [bind].
      set (lo := nth i l 0). pose proof (wordsok_nth w l i Hw Hil) as Hlo. fold lo in Hlo.
      rewrite (Hdiv rem lo d Hd Hrem Hlo).
      set (x := rem * B + lo).
      assert (Hq : x / d < B).
      { apply N.div_lt_upper_bound; [lia|]. unfold x. nia. }
      assert (Hr : x mod d < d) by (apply N.mod_lt; lia).
      pose proof (N.div_mod x d ltac:(lia)) as Hdm.
      rewrite wr_ok by assumption. cbn [bind].
      destruct (IH (upd l i (x / d)) (x mod d) d) as (l' & r & Hrun & Hlen & Hw' & Hrd & Hval & Hsame);
        [apply wordsok_upd; assumption|assumption|assumption|rewrite length_upd; lia|].
      rewrite length_upd in Hlen. rewrite firstn_upd_ge in Hval by lia.
      exists l', r. split; [exact Hrun|]. split; [exact Hlen|]. split; [exact Hw'|]. split; [exact Hrd|].
      split.
      + rewrite (value_firstn_S w l i Hil), (value_firstn_S w l' i ltac:(lia)).
        rewrite (Hsame i ltac:(lia)), nth_upd_same by assumption. fold lo.
        rewrite pw_S. pose proof (pw_pos w i). unfold x in *. nia.
      + intros j Hj. rewrite Hsame by lia. apply nth_upd_other. lia.
  Qed.

  Theorem divide_correct : div2_ok -> forall s d, WF w s -> 0 < d < B ->
    exists s' r, divide w s d = Ok (s', r) /\ WF w s' /\ bval s' = bval s / d /\ r = bval s mod d /\
                 length (words s') = length (words s).
  Proof.
    intros Hdiv s d HWF Hd. pose proof HWF as ((Hw & Hi & Ha) & Ht). unfold divide.
    destruct (N.eqb_spec d 0) as [|_]; [lia|].
    rewrite rd_ok by assumption. cbn [bind]. rewrite wr_ok by assumption. cbn [bind].
    set (idx := index s) in *. set (t := nth idx (words s) 0) in *.
    pose proof (wordsok_nth w _ idx Hw Hi) as Htb. fold t in Htb.
    assert (Htd : t / d < B).
    { apply N.div_lt_upper_bound; [lia|]. nia. }
    assert (Hrem : t mod d < d) by (apply N.mod_lt; lia).
    pose proof (N.div_mod t d ltac:(lia)) as Hdm.
    fold (div_shift d).
    destruct (div_loop_spec Hdiv idx (upd (words s) idx (t / d)) (t mod d) d)
      as (l2 & r & Hrun & Hlen & Hw2 & Hr & Hval & Hsame);
      [apply wordsok_upd; assumption|assumption|assumption|rewrite length_upd; lia|].
    rewrite Hrun. cbn [bind]. rewrite length_upd in Hlen. rewrite firstn_upd_ge in Hval by lia.
    rewrite rd_ok by lia. cbn [bind].
    assert (Ht2 : nth idx l2 0 = t / d).
    { rewrite Hsame by lia. apply nth_upd_same. assumption. }
    assert (Ha2 : forall j, (idx < j)%nat -> nth j l2 0 = 0).
    { intros j Hj. rewrite Hsame by lia. rewrite nth_upd_other by lia. apply Ha, Hj. }
    (* value of the quotient *)
    assert (Hv2 : val l2 = val (firstn idx l2) + (t / d) * pw idx).
    { rewrite <- (value_firstn_zero_above w l2 (S idx)) by (intros j Hj; apply Ha2; lia).
      rewrite value_firstn_S by lia. rewrite Ht2. reflexivity. }
    pose proof (WF0_value_firstn w s (conj Hw (conj Hi Ha))) as Hvs. fold idx in Hvs.
    rewrite value_firstn_S in Hvs by assumption. fold t in Hvs.
    pose proof (pw_pos w idx) as Hpp.
    assert (Heq : bval s = d * val l2 + r) by nia.
    assert (Hquo : val l2 = bval s / d /\ r = bval s mod d).
    { symmetry in Heq. rewrite N.mul_comm in Heq.
      split; [apply (N.div_unique _ _ _ r) | apply (N.mod_unique _ _ (val l2))]; lia. }
    destruct Hquo as (Hq & Hm).
    rewrite Ht2.
    destruct ((0 <? idx)%nat && (t / d =? 0)) eqn:Hc.
    - (* the top word became zero *)
      apply andb_true_iff in Hc. destruct Hc as (Hc1 & Hc2).
      apply Nat.ltb_lt in Hc1. apply N.eqb_eq in Hc2.
      exists (mkBig l2 (idx - 1)), r. split; [reflexivity|].
      split; [|split; [exact Hq|split; [exact Hm|exact Hlen]]].
      split; [split; [exact Hw2|split; [cbn; lia|]]|].
      + intros j Hj. cbn [words index] in *.
        destruct (Nat.eq_dec j idx) as [->|Hne]; [rewrite Ht2; exact Hc2|apply Ha2; lia].
      + unfold top_nonzero. cbn [words index].
        destruct (Nat.eq_dec (idx - 1) 0) as [E|E]; [left; exact E|right].
        intros Hz.
        (* then the quotient is below B^(idx-1) and the dividend below B^idx *)
        assert (Hsmall : val l2 < pw (idx - 1)).
        { rewrite <- (value_firstn_zero_above w l2 (idx - 1)).
          - apply value_firstn_bound; [assumption|lia].
          - intros j Hj. destruct (Nat.eq_dec j (idx - 1)) as [->|Hne]; [exact Hz|].
            destruct (Nat.eq_dec j idx) as [->|Hne2]; [rewrite Ht2; exact Hc2|apply Ha2; lia]. }
        pose proof (WF_lower w s HWF ltac:(fold idx; lia)) as Hlow. fold idx in Hlow.
        replace idx with (S (idx - 1)) in Hlow at 1 by lia. rewrite pw_S in Hlow.
        assert (H1 : d * (val l2 + 1) <= d * pw (idx - 1)) by (apply N.mul_le_mono_l; lia).
        assert (H2 : d * pw (idx - 1) <= B * pw (idx - 1)) by (apply N.mul_le_mono_r; lia).
        lia.
    - exists (mkBig l2 idx), r. split; [reflexivity|].
      split; [|split; [exact Hq|split; [exact Hm|exact Hlen]]].
      split; [split; [exact Hw2|split; [cbn; lia|exact Ha2]]|].
      unfold top_nonzero. cbn [words index]. apply andb_false_iff in Hc. destruct Hc as [Hc|Hc].
      + left. apply Nat.ltb_ge in Hc. lia.
      + right. rewrite Ht2. apply N.eqb_neq in Hc. exact Hc.
  Qed.
End W.
