(* Extract_ledger.v -- extraction of the nested-array ownership model (trace of contents) and of its
   value-semantics specification to OCaml.  ExtrOcamlBasic only. *)
From Coq Require Import Extraction ExtrOcamlBasic NArith ZArith.
From Qv Require Import SeqModel LedgerValueModel LedgerNestedModel.
Extraction Language OCaml.
Set Extraction Optimize.
Extraction "model_ledger.ml"
  N.add N.mul N.sub N.div_eucl N.compare Z.add Z.mul Z.sub Z.div_eucl Z.compare Z.of_N Z.to_N Z.opp
  LedgerNestedModel.ntrace LedgerNestedModel.strace LedgerNestedModel.nstate0
  LedgerNestedModel.nrun LedgerValueModel.destroy_all_values LedgerValueModel.live_ids.
