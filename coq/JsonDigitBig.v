(* JsonDigitBig.v -- integer numerals that do NOT fit: a run of digits whose value is 2^64 or more, and a
   negative numeral whose magnitude is above 2^63 (or is zero), are never given back as an integer by the number
   scanner (JsonModel.scan_number): the verdict is Real, or NaN by the range tests.  With JsonProofsInt.v
   (nat_ok, neg_ok) this classifies every digit-only numeral, and with JsonDigitRfc.v every numeral of the
   RFC 8259 number grammar. *)
From Coq Require Import NArith ZArith List Bool Lia.
From Qv Require Import gen.Tables_json JsonModel JsonSpec JsonProofsBase JsonProofsNum JsonProofsDoc JsonProofsInt JsonDigitExt JsonDigitRfc.
Import ListNotations.
Local Open Scope N_scope.

Lemma real_tail_realish : forall num i l hd fo dot start tmp, realish (real_tail num i l hd fo dot start tmp).
Proof.
  intros. unfold real_tail. destruct (tail_loop i l hd dot 0) as [t|]; [|exact I].
  repeat match goal with
         | |- context [let '(_, _) := ?x in _] => destruct x
         end.
  repeat match goal with
         | |- context [if ?b then _ else _] => destruct b
         | |- context [match ?x with DigitModel.Ok _ => _ | DigitModel.Err _ => _ end] => destruct x
         | |- context [match ?x with Some _ => _ | None => _ end] => destruct x
         end; exact I.
Qed.

(* the sign only matters at the very end of scan_go *)
Lemma scan_go_neg_of_pos : forall s m fo start v r,
  scan_go false s m fo start = JOk (NumNat v r) ->
  exists n, scan_go true s m fo start = JOk n /\
    (v = 0 -> n = NumReal r) /\
    (0 < v -> v <= int_min_abs -> n = NumInt (Z.opp (Z.of_N v)) r) /\
    (int_min_abs < v -> realish n).
Proof.
  intros s m fo start v r H. unfold scan_go in *.
  destruct (mant_loop 3 m s) as [[s1|s1|]|e]; cbn [bind] in *; try discriminate.
  match type of H with context [bind ?X _] => destruct X as [[[[[i2 r2] num2] tmp2] real2]|e] end; cbn [bind] in *; try discriminate.
  destruct real2; cbn [negb andb orb] in *.
  - rewrite orb_true_r in H. inversion H as [H1]. pose proof (real_tail_realish num2 i2 r2 (m_hasdot s1) fo (m_dot s1) start tmp2) as Hr.
    rewrite H1 in Hr. contradiction.
  - inversion H; subst num2 r2.
    destruct (v =? 0) eqn:E0.
    + apply N.eqb_eq in E0. subst v. eexists. split; [reflexivity|]. repeat split; intros; try reflexivity; try lia.
    + apply N.eqb_neq in E0. destruct (v <=? int_min_abs) eqn:E1.
      * apply N.leb_le in E1. eexists. split; [reflexivity|]. repeat split; intros; try reflexivity; try lia.
      * apply N.leb_gt in E1. cbn [negb orb]. eexists. split; [reflexivity|]. repeat split; intros; try lia.
        apply real_tail_realish.
Qed.

Lemma dig19_dig : forall d, is_dig19 d = true -> is_dig d = true.
Proof.
  intros d Hd19. unfold is_dig19 in Hd19. unfold is_dig. apply andb_true_iff in Hd19. destruct Hd19 as [H1 H2].
  rewrite H2. apply N.ltb_lt in H1. replace (dc_zero <=? d) with true by (symmetry; apply N.leb_le; lia). reflexivity.
Qed.

Lemma pacc_19_small : forall t d, is_dig d = true -> forallb is_dig t = true -> (length t = 18)%nat ->
  pacc t (d - dc_zero) < 10000000000000000000.
Proof.
  intros t d Hd Ht Hl.
  assert (G : forall t a k, forallb is_dig t = true -> a < 10 ^ k -> pacc t a < 10 ^ (k + N.of_nat (length t))).
  { clear. induction t as [|c t IH]; intros a k Ht Ha; [cbn [length pacc fold_left]; rewrite N.add_0_r; exact Ha|].
    cbn [forallb] in Ht. apply andb_true_iff in Ht. destruct Ht as [Hc Ht]. apply is_dig_bounds in Hc.
    cbn [pacc fold_left length]. fold (pacc t (a * 10 + (c - dc_zero))).
    replace (k + N.of_nat (S (length t))) with ((k + 1) + N.of_nat (length t)) by lia.
    apply IH; [exact Ht|]. rewrite N.pow_add_r. change (10 ^ 1) with 10. change dc_zero with 48. lia. }
  apply is_dig_bounds in Hd.
  specialize (G t (d - dc_zero) 1 Ht). rewrite Hl in G. change (10 ^ (1 + N.of_nat 18)) with 10000000000000000000 in G.
  apply G. change dc_zero with 48. change (10 ^ 1) with 10. lia.
Qed.

(* twenty digits or more, and the value is not below 2^64: the 20th digit is refused by the overflow test, or a
   21st digit follows it *)
Lemma go_big : forall neg i d t18 d20 more,
  is_dig19 d = true -> forallb is_dig t18 = true -> length t18 = 18%nat -> is_dig d20 = true -> forallb is_dig more = true ->
  18446744073709551616 <= pacc (t18 ++ d20 :: more) (d - dc_zero) ->
  exists n, scan_go neg (st1 i (t18 ++ d20 :: more) d) (window i (d :: t18 ++ d20 :: more)) false i = JOk n /\ realish n.
Proof.
  intros neg i d t18 d20 more Hd19 Ht Hlen Hd20 Hmore Hbig.
  pose proof (dig19_dig d Hd19) as Hd.
  assert (Hd0 : m64 (d - dc_zero) = d - dc_zero).
  { apply is_dig_bounds in Hd. unfold m64. change dc_zero with 48. apply N.mod_small. lia. }
  pose proof (pacc_19_small t18 d Hd Ht Hlen) as H19.
  set (n19 := pacc t18 (d - dc_zero)) in *.
  pose proof (is_dig_bounds _ Hd20) as Hb20.
  assert (Hw : window i (d :: t18 ++ d20 :: more) = (i + 19)%nat).
  { unfold window. cbn [length]. rewrite !app_length. cbn [length]. rewrite Hlen.
    replace (S (18 + S (length more)) <? 19)%nat with false by (symmetry; apply Nat.ltb_ge; lia). reflexivity. }
  rewrite Hw.
  assert (Hloop : exists d', mant_loop 3 (i + 19) (st1 i (t18 ++ d20 :: more) d) =
            JOk (MBreak {| m_i := (S i + 18)%nat; m_r := d20 :: more; m_digit := d'; m_num := n19; m_hasdot := false; m_real := false; m_dot := O |})).
  { cbn [mant_loop]. unfold st1 at 1. cbn [m_r].
    replace (has (t18 ++ d20 :: more)) with true by (destruct t18; reflexivity).
    unfold mant_iter. unfold st1. cbn [m_i m_r m_digit m_num m_hasdot m_real m_dot].
    assert (Ha1 : (S i + length t18 <= i + 19)%nat) by lia.
    assert (Ha2 : (i + 19 <= S i + length t18 + length (d20 :: more))%nat) by (cbn [length]; lia).
    assert (Ha3 : (S i + length t18 = i + 19)%nat \/ match d20 :: more with [] => True | c :: _ => is_dig c = false end) by (left; lia).
    destruct (du_all t18 (i + 19) (S i) d (m64 (d - dc_zero)) (d20 :: more) Ht Ha1 Ha2 Ha3) as (d' & E & Hd').
    rewrite Hlen in E. rewrite E. cbn [bind].
    assert (Hnd : (d' =? dc_dot) = false).
    { destruct Hd' as [H|[H|[tl H]]].
      - subst d'. apply is_dig_bounds in Hd. apply N.eqb_neq. change dc_dot with 46. lia.
      - apply is_dig_bounds in H. apply N.eqb_neq. change dc_dot with 46. lia.
      - inversion H; subst. apply N.eqb_neq. change dc_dot with 46. lia. }
    rewrite Hnd. rewrite Hd0. rewrite facc_pacc; [| assumption | fold n19; lia]. fold n19. cbn [bind]. eauto. }
  destruct Hloop as (d' & Hloop). unfold scan_go. rewrite Hloop. cbn [bind m_i m_r m_num m_real m_hasdot m_dot negb andb has rd].
  rewrite (is_dig_not_dee _ Hd20). rewrite Hd20.
  destruct ((nat_max_div10 <? n19) || (n19 =? nat_max_div10) && (dc_five <? d20)) eqn:Eov.
  - cbn [bind negb andb orb]. rewrite orb_true_r. eexists. split; [reflexivity|apply real_tail_realish].
  - cbn [adv bind].
    destruct more as [|c r].
    + exfalso. rewrite pacc_app in Hbig. cbn [pacc fold_left] in Hbig. fold (pacc t18 (d - dc_zero)) in Hbig. fold n19 in Hbig.
      apply orb_false_iff in Eov. destruct Eov as [E1 E2]. apply N.ltb_ge in E1. unfold nat_max_div10 in *.
      change dc_zero with 48 in Hbig. change dc_five with 53 in E2.
      destruct (n19 =? 1844674407370955161) eqn:E; cbn [andb] in E2.
      * apply N.eqb_eq in E. apply N.ltb_ge in E2. lia.
      * apply N.eqb_neq in E. lia.
    + cbn [forallb] in Hmore. apply andb_true_iff in Hmore. destruct Hmore as [Hc _].
      cbn [has rd bind]. rewrite Hc. rewrite orb_true_r. cbn [negb andb orb]. rewrite orb_true_r.
      eexists. split; [reflexivity|apply real_tail_realish].
Qed.

(* a run of at least 20 digits splits as 18 + 1 + the others *)
Lemma split_20 : forall (t : list N), (19 <= length t)%nat -> exists t18 d20 more, t = t18 ++ d20 :: more /\ length t18 = 18%nat.
Proof.
  intros t H. exists (firstn 18 t), (nth 18 t 0), (skipn 19 t). split.
  - do 19 (destruct t as [|? t]; [cbn in H; lia|]). reflexivity.
  - rewrite firstn_length. lia.
Qed.

Lemma shape_digs : forall l, forallb is_dig l = true -> Shape false l.
Proof. intros l H. exists l, []. split; [exact H|]. split; [constructor|]. left. rewrite app_nil_r. reflexivity. Qed.

Lemma pacc_lt_len : forall t d, is_dig d = true -> forallb is_dig t = true -> (length t <= 18)%nat ->
  pacc t (d - dc_zero) < 18446744073709551616.
Proof.
  intros t d Hd Ht Hl.
  assert (G : forall t a k, forallb is_dig t = true -> a < 10 ^ k -> pacc t a < 10 ^ (k + N.of_nat (length t))).
  { clear. induction t as [|c t IH]; intros a k Ht Ha; [cbn [length pacc fold_left]; rewrite N.add_0_r; exact Ha|].
    cbn [forallb] in Ht. apply andb_true_iff in Ht. destruct Ht as [Hc Ht]. apply is_dig_bounds in Hc.
    cbn [pacc fold_left length]. fold (pacc t (a * 10 + (c - dc_zero))).
    replace (k + N.of_nat (S (length t))) with ((k + 1) + N.of_nat (length t)) by lia.
    apply IH; [exact Ht|]. rewrite N.pow_add_r. change (10 ^ 1) with 10. change dc_zero with 48. lia. }
  apply is_dig_bounds in Hd.
  specialize (G t (d - dc_zero) 1 Ht).
  assert (H1 : 10 ^ (1 + N.of_nat (length t)) <= 10 ^ 19) by (apply N.pow_le_mono_r; lia).
  change (10 ^ 19) with 10000000000000000000 in H1.
  assert (H2 : d - dc_zero < 10 ^ 1) by (change dc_zero with 48; change (10 ^ 1) with 10; lia).
  specialize (G H2). lia.
Qed.

(* ---------------- the scanner on digit-only numerals that do not fit ---------------- *)
Theorem big_nat_is_real : forall ds, digits_wf ds = true -> 18446744073709551616 <= dval ds ->
  scan_number ds = JOk (NumReal []) \/ scan_number ds = JOk NumNaN.
Proof.
  intros ds Hwf Hbig.
  assert (H : exists n, scan_number ds = JOk n /\ whole n /\ realish n).
  2:{ destruct H as (n & E & Hw & Hr). rewrite E. destruct n; cbn in *; try contradiction; subst; auto. }
  destruct ds as [|d t]; [discriminate|].
  destruct (d =? dc_zero) eqn:Ez.
  { apply N.eqb_eq in Ez. subst d. destruct t; [cbn in Hbig; lia|].
    unfold digits_wf in Hwf. apply andb_true_iff in Hwf. destruct Hwf as [_ Hwf]. discriminate. }
  destruct (first_digit d t Hwf Ez) as [Hd19 Ht]. pose proof (dig19_dig d Hd19) as Hd.
  destruct (scan_number_rfc_whole (d :: t)) as (n & E & Hw).
  { exists [], d, t. split; [left; reflexivity|]. split; [exact Hd|]. split; [apply shape_digs; exact Ht|reflexivity]. }
  exists n. split; [exact E|]. split; [exact Hw|].
  rewrite dval_pacc in Hbig. cbn [pacc fold_left] in Hbig. fold (pacc t (0 * 10 + (d - dc_zero))) in Hbig. rewrite N.mul_0_l, N.add_0_l in Hbig.
  destruct (le_lt_dec 19 (length t)) as [Hl|Hl].
  2:{ exfalso. pose proof (pacc_lt_len t d Hd Ht) as Hs. assert (Hl' : (length t <= 18)%nat) by lia. specialize (Hs Hl'). lia. }
  destruct (split_20 t Hl) as (t18 & d20 & more & Et & El). subst t.
  rewrite forallb_app in Ht. apply andb_true_iff in Ht. destruct Ht as [Ht1 Ht2]. cbn [forallb] in Ht2. apply andb_true_iff in Ht2. destruct Ht2 as [Hd20 Hmore].
  destruct (go_big false O d t18 d20 more Hd19 Ht1 El Hd20 Hmore Hbig) as (n' & E' & Hr').
  unfold scan_number in E. cbn [has negb rd bind] in E.
  destruct (digit_not_sign d Hd) as [Hn Hp]. rewrite Hn, Hp in E.
  unfold scan_unsigned in E. cbn [has negb rd bind] in E. rewrite Hd19 in E. cbn [adv bind] in E.
  unfold st1 in E'. rewrite E' in E. inversion E; subst. exact Hr'.
Qed.

Theorem big_neg_is_real : forall ds, digits_wf ds = true -> int_min_abs < dval ds \/ dval ds = 0 ->
  scan_number (dc_neg :: ds) = JOk (NumReal []) \/ scan_number (dc_neg :: ds) = JOk NumNaN.
Proof.
  intros ds Hwf Hbig.
  assert (H : exists n, scan_number (dc_neg :: ds) = JOk n /\ whole n /\ realish n).
  2:{ destruct H as (n & E & Hw & Hr). rewrite E. destruct n; cbn in *; try contradiction; subst; auto. }
  destruct ds as [|d t]; [discriminate|].
  destruct (d =? dc_zero) eqn:Ez.
  { apply N.eqb_eq in Ez. subst d. destruct t.
    - eexists. split; [vm_compute; reflexivity|]. split; [reflexivity|exact I].
    - unfold digits_wf in Hwf. apply andb_true_iff in Hwf. destruct Hwf as [_ Hwf]. discriminate. }
  destruct (first_digit d t Hwf Ez) as [Hd19 Ht]. pose proof (dig19_dig d Hd19) as Hd.
  destruct (scan_number_rfc_whole (dc_neg :: d :: t)) as (n & E & Hw).
  { exists [dc_neg], d, t. split; [right; reflexivity|]. split; [exact Hd|]. split; [apply shape_digs; exact Ht|reflexivity]. }
  exists n. split; [exact E|]. split; [exact Hw|].
  assert (Hv : dval (d :: t) = pacc t (d - dc_zero)).
  { rewrite dval_pacc. cbn [pacc fold_left]. rewrite N.mul_0_l, N.add_0_l. reflexivity. }
  rewrite Hv in Hbig.
  assert (Hpos : 0 < pacc t (d - dc_zero)).
  { pose proof (pacc_mono t (d - dc_zero)) as Hm. unfold is_dig19 in Hd19. apply andb_true_iff in Hd19. destruct Hd19 as [H1 _].
    apply N.ltb_lt in H1. change dc_zero with 48 in *. lia. }
  destruct Hbig as [Hbig|Hbig]; [|lia].
  unfold scan_number in E. cbn [has negb rd bind] in E. rewrite N.eqb_refl in E. cbn [adv bind] in E.
  unfold scan_unsigned in E. cbn [has negb rd bind] in E. rewrite Hd19 in E. cbn [adv bind] in E.
  destruct (N.lt_ge_cases (pacc t (d - dc_zero)) 18446744073709551616) as [Hfit|Hnofit].
  - (* fits 64 bits unsigned: the unsigned scan gives the value, the signed one falls through to the real path *)
    pose proof (go_int false 1 d t [] (pacc t (d - dc_zero)) Hd19 Ht eq_refl Hfit eq_refl) as Hgo.
    rewrite app_nil_r in Hgo. unfold int_result in Hgo. cbn [negb] in Hgo. specialize (Hgo ltac:(discriminate)).
    unfold st1 in Hgo.
    destruct (scan_go_neg_of_pos _ _ _ _ _ _ Hgo) as (n' & E' & _ & _ & Hr').
    rewrite E' in E. inversion E; subst. apply Hr'. exact Hbig.
  - destruct (le_lt_dec 19 (length t)) as [Hl|Hl].
    2:{ exfalso. pose proof (pacc_lt_len t d Hd Ht) as Hs. assert (Hl' : (length t <= 18)%nat) by lia. specialize (Hs Hl'). lia. }
    destruct (split_20 t Hl) as (t18 & d20 & more & Et & El). subst t.
    rewrite forallb_app in Ht. apply andb_true_iff in Ht. destruct Ht as [Ht1 Ht2]. cbn [forallb] in Ht2. apply andb_true_iff in Ht2. destruct Ht2 as [Hd20 Hmore].
    destruct (go_big true 1 d t18 d20 more Hd19 Ht1 El Hd20 Hmore Hnofit) as (n' & E' & Hr').
    unfold st1 in E'. rewrite E' in E. inversion E; subst. exact Hr'.
Qed.

(* ---------------- the real numerals of RFC 8259 as the reader classifies them ---------------- *)
(* a fraction or an exponent; or digits only whose value is not representable as the integer kind the sign asks for *)
Definition RfcRealText (txt : list N) : Prop :=
  RfcFrac txt \/
  exists ds, digits_wf ds = true /\
    ((txt = ds /\ 18446744073709551616 <= dval ds) \/
     (txt = dc_neg :: ds /\ (int_min_abs < dval ds \/ dval ds = 0))).

Theorem rfc_realtext_real : forall txt, RfcRealText txt ->
  scan_number txt = JOk (NumReal []) \/ scan_number txt = JOk NumNaN.
Proof.
  intros txt [H|(ds & Hwf & [[-> Hb]|[-> Hb]])].
  - apply scan_number_rfc_real; exact H.
  - apply big_nat_is_real; assumption.
  - apply big_neg_is_real; assumption.
Qed.

Lemma realtext_nonempty : forall txt, RfcRealText txt -> txt <> [].
Proof.
  intros txt [(sg & d & rem & _ & _ & _ & _ & ->)|(ds & Hwf & [[-> _]|[-> _]])].
  - destruct sg; discriminate.
  - destruct ds; [discriminate|discriminate].
  - discriminate.
Qed.

Theorem realtext_leaf_ok : forall txt, RfcRealText txt -> real_in_range txt = true -> real_wholeb txt = true.
Proof.
  intros txt Hf Hr. unfold real_wholeb. unfold real_in_range in Hr.
  pose proof (realtext_nonempty txt Hf) as Hne.
  destruct (rfc_realtext_real txt Hf) as [E|E]; rewrite E in *; [|discriminate].
  destruct txt; [congruence|reflexivity].
Qed.

Theorem rfc_realtext_numeral : forall txt, RfcRealText txt -> real_in_range txt = true -> real_numeral txt.
Proof. intros txt Hf Hr. apply real_numeral_decided. apply realtext_leaf_ok; assumption. Qed.

(* every digit-only numeral, with what may follow a number in a document *)
Theorem int_numeral_classified : forall ds rest, digits_wf ds = true -> num_follow rest = true ->
  (dval ds < 18446744073709551616 -> scan_number (ds ++ rest) = JOk (NumNat (dval ds) rest)) /\
  (18446744073709551616 <= dval ds ->
     scan_number (ds ++ rest) = JOk (NumReal rest) \/ scan_number (ds ++ rest) = JOk NumNaN) /\
  (0 < dval ds -> dval ds <= int_min_abs ->
     scan_number (dc_neg :: ds ++ rest) = JOk (NumInt (Z.opp (Z.of_N (dval ds))) rest)) /\
  (int_min_abs < dval ds \/ dval ds = 0 ->
     scan_number (dc_neg :: ds ++ rest) = JOk (NumReal rest) \/ scan_number (dc_neg :: ds ++ rest) = JOk NumNaN).
Proof.
  intros ds rest Hwf Hf. repeat split.
  - intros H. apply nat_ok; assumption.
  - intros H. destruct (big_nat_is_real ds Hwf H) as [E|E]; [left|right];
      rewrite (scan_number_ext ds rest _ Hf E); reflexivity.
  - intros H1 H2. apply neg_ok; assumption.
  - intros H. change (dc_neg :: ds ++ rest) with ((dc_neg :: ds) ++ rest).
    destruct (big_neg_is_real ds Hwf H) as [E|E]; [left|right];
      rewrite (scan_number_ext (dc_neg :: ds) rest _ Hf E); reflexivity.
Qed.

(* non-vacuity: 2^64 itself, a 25-digit run, -(2^63+1), -0 *)
Example big_ex1 : scan_number [49;56;52;52;54;55;52;52;48;55;51;55;48;57;53;53;49;54;49;54] = JOk (NumReal []).
Proof. vm_compute. reflexivity. Qed.
Example big_ex1_text : RfcRealText [49;56;52;52;54;55;52;52;48;55;51;55;48;57;53;53;49;54;49;54].
Proof. right. eexists. split; [|left; split; [reflexivity|]]; [reflexivity|vm_compute; discriminate]. Qed.
Example big_ex2 : RfcRealText [45;57;50;50;51;51;55;50;48;51;54;56;53;52;55;55;53;56;48;57] /\
  real_in_range [45;57;50;50;51;51;55;50;48;51;54;56;53;52;55;55;53;56;48;57] = true.
Proof. split; [|vm_compute; reflexivity]. right. eexists. split; [|right; split; [reflexivity|left]]; [reflexivity|vm_compute; reflexivity]. Qed.
Example big_ex3 : RfcRealText [45;48] /\ real_in_range [45;48] = true.
Proof. split; [|vm_compute; reflexivity]. right. exists [48]. split; [reflexivity|]. right. split; [reflexivity|right; reflexivity]. Qed.
