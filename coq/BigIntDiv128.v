(* BigIntDiv128.v -- C19: DoubleSize<Number_T,64>::Divide (repaired overflow branch, D8),
   generically in the half width h: normalising shift, two half-word quotient digits with
   at most two corrections each (Knuth D with a one-digit divisor estimate), carry fix-up. *)
From Coq Require Import Arith NArith ZArith List Bool Lia Psatz.
From Coq Require Import ZifyBool ZifyNat ZifyN.
From Qv Require Import BigIntModel BigIntProofs BigIntProofs2.
Local Open Scope N_scope.

(* the digit estimate, over Z (prototype design-experiments/DivDigit_proto.v) *)
Lemma digit_estimate_Z : forall B ds dl dh x q r : Z,
  (2 <= B -> 0 <= dh < B -> 0 < dl -> ds = dl * B + dh -> B <= 2 * dl -> dl < B ->
   0 <= x < ds -> x = q * dl + r -> 0 <= r < dl -> 0 <= q ->
   r * B - q * dh < ds /\ - 2 * ds <= r * B - q * dh /\ q <= B + 1)%Z.
Proof.
  intros B ds dl dh x q r HB Hdh Hdl Hds Hn Hdl2 Hx Hq Hr Hq0.
  assert (Hqb : (q <= B + 1)%Z) by nia.
  split; [nia|]. split; [nia|exact Hqb].
Qed.

Lemma digit_estimate_N : forall B ds dl dh x q r : N,
  2 <= B -> dh < B -> 0 < dl -> ds = dl * B + dh -> B <= 2 * dl -> dl < B ->
  x < ds -> x = q * dl + r -> r < dl ->
  r * B < q * dh + ds /\ q * dh <= r * B + 2 * ds /\ q <= B + 1.
Proof.
  intros B ds dl dh x q r HB Hdh Hdl Hds Hn Hdl2 Hx Hq Hr.
  pose proof (digit_estimate_Z (Z.of_N B) (Z.of_N ds) (Z.of_N dl) (Z.of_N dh) (Z.of_N x) (Z.of_N q) (Z.of_N r)) as H.
  assert (Hds' : (Z.of_N ds = Z.of_N dl * Z.of_N B + Z.of_N dh)%Z) by (rewrite Hds; lia).
  assert (Hq' : (Z.of_N x = Z.of_N q * Z.of_N dl + Z.of_N r)%Z) by (rewrite Hq; lia).
  specialize (H ltac:(lia) ltac:(lia) ltac:(lia) Hds' ltac:(lia) ltac:(lia) ltac:(lia) Hq' ltac:(lia) ltac:(lia)).
  destruct H as (H1 & H2 & H3).
  assert (E1 : Z.of_N (r * B) = (Z.of_N r * Z.of_N B)%Z) by lia.
  assert (E2 : Z.of_N (q * dh) = (Z.of_N q * Z.of_N dh)%Z) by lia.
  split; [lia|]. split; lia.
Qed.

Lemma quot_digit_bound : forall x b ds q r, 0 < b -> x < ds -> x * b = q * ds + r -> q < b.
Proof.
  intros x b ds q r Hb Hx E.
  assert (H1 : x * b < ds * b) by (apply N.mul_lt_mono_pos_r; assumption).
  assert (H2 : q * ds < b * ds) by (rewrite (N.mul_comm b ds); lia).
  apply N.mul_lt_mono_pos_r in H2; [exact H2|lia].
Qed.

Section Half.
  Variable h : N.
  Hypothesis h_pos : 1 <= h.
  Notation Bh := (2 ^ h).
  Notation M := (2 ^ (2 * h)).

  Lemma M_sq : M = Bh * Bh.
  Proof. replace (2 * h) with (h + h) by lia. apply N.pow_add_r. Qed.
  Lemma Bh_ge2 : 2 <= Bh.
  Proof. replace 2 with (2 ^ 1) at 1 by reflexivity. apply N.pow_le_mono_r; lia. Qed.

  Lemma subM_char : forall a b, a < M -> b < M ->
    (subM h a b + b = a \/ subM h a b + b = a + M) /\ subM h a b < M.
  Proof.
    intros a b Ha Hb. unfold subM. split; [|apply N.mod_lt; lia].
    destruct (N.le_gt_cases b a) as [Hle|Hgt].
    - left. assert (E : (a + M - b) mod M = a - b).
      { symmetry. apply (N.mod_unique _ _ 1); lia. }
      rewrite E. lia.
    - right. rewrite N.mod_small by lia. lia.
  Qed.

  (* one quotient digit *)
  Lemma div_digit_correct : forall x ds dl dh,
    ds = dl * Bh + dh -> dh < Bh -> Bh <= 2 * dl -> dl < Bh -> x < ds ->
    let '(hi', q') := div_digit h x ds dl dh in
    x * Bh = q' * ds + hi' /\ hi' < ds.
  Proof.
    intros x ds dl dh Hds Hdh Hn Hdl Hx.
    pose proof M_sq as HM. pose proof Bh_ge2 as HB2.
    assert (Hdl0 : 0 < dl) by lia.
    pose proof (N.div_mod x dl ltac:(lia)) as Hdm. pose proof (N.mod_lt x dl ltac:(lia)) as Hr0.
    unfold div_digit.
    set (q := x / dl) in *. set (r0 := x mod dl) in *.
    assert (Hxq : x = q * dl + r0) by lia.
    destruct (digit_estimate_N Bh ds dl dh x q r0 HB2 Hdh Hdl0 Hds Hn Hdl Hx Hxq Hr0) as (K1 & K2 & Kq).
    set (bh := Bh) in *. set (m := M) in *.
    assert (Hqd : q * dh < m).
    { assert (q * dh <= (bh + 1) * (bh - 1)).
      { apply N.mul_le_mono; lia. }
      assert ((bh + 1) * (bh - 1) + 1 = bh * bh) by nia. lia. }
    assert (Hrb : r0 * bh < m).
    { rewrite HM. apply N.mul_lt_mono_pos_r; lia. }
    assert (Hdsm : ds < m).
    { rewrite HM, Hds. assert (dl * bh + bh <= bh * bh).
      { replace (dl * bh + bh) with ((dl + 1) * bh) by ring. apply N.mul_le_mono_r. lia. }
      lia. }
    assert (Hqm : q < m) by (rewrite HM; nia).
    assert (K4 : x * bh + q * dh = q * ds + r0 * bh).
    { rewrite Hxq, Hds. ring. }
    rewrite (N.mod_small (q * dh)) by assumption.
    rewrite (N.mod_small (r0 * bh)) by assumption.
    set (QD := q * dh) in *. set (R := r0 * bh) in *.
    clearbody q r0. clear Hdm.
    destruct (N.ltb_spec R QD) as [Hlt|Hge].
    - (* estimate too large: one or two corrections *)
      assert (Hq1 : 1 <= q) by (destruct (N.eq_dec q 0) as [->|]; [unfold QD in Hlt; lia|lia]).
      destruct (subM_char q 1 Hqm ltac:(lia)) as ([Eq1|Eq1] & Bq1); [|lia].
      destruct (subM_char QD R Hqd Hrb) as ([ED|ED] & BD); [|lia].
      set (q1 := subM h q 1) in *. set (D := subM h QD R) in *.
      destruct (N.ltb_spec ds D) as [Htwo|Hone].
      + (* two corrections *)
        assert (Hq2 : 2 <= q).
        { destruct (N.eq_dec q 1) as [->|]; [|lia]. exfalso. unfold QD in *.
          assert (bh <= ds) by (rewrite Hds; nia). lia. }
        assert (Bq1m : q1 < m) by lia.
        destruct (subM_char q1 1 Bq1m ltac:(lia)) as ([Eq2|Eq2] & Bq2); [|lia].
        destruct (subM_char QD ds Hqd Hdsm) as (Er1 & Br1).
        set (r1 := subM h QD ds) in *.
        destruct (subM_char r1 ds Br1 Hdsm) as (Er2 & Br2).
        set (r2 := subM h r1 ds) in *.
        destruct (subM_char R r2 Hrb Br2) as (Eh & Bh').
        set (hh := subM h R r2) in *. set (q2 := subM h q1 1) in *.
        assert (Hres : hh + QD = R + 2 * ds).
        { destruct Er1 as [Er1|Er1], Er2 as [Er2|Er2], Eh as [Eh|Eh]; lia. }
        assert (Hqs : q * ds = q2 * ds + 2 * ds).
        { replace q with (q2 + 2) by lia. ring. }
        split; lia.
      + (* one correction *)
        destruct (subM_char QD ds Hqd Hdsm) as (Er1 & Br1).
        set (r1 := subM h QD ds) in *.
        destruct (subM_char R r1 Hrb Br1) as (Eh & Bh').
        set (hh := subM h R r1) in *.
        assert (Hres : hh + QD = R + ds).
        { destruct Er1 as [Er1|Er1], Eh as [Eh|Eh]; lia. }
        assert (Hqs : q * ds = q1 * ds + ds).
        { replace q with (q1 + 1) by lia. ring. }
        split; lia.
    - (* estimate exact *)
      destruct (subM_char R QD Hrb Hqd) as ([Eh|Eh] & Bh'); [|lia].
      split; lia.
  Qed.

  Theorem div2_half_correct : forall hi lo d, 0 < d < M -> hi < d -> lo < M ->
    div2_half h hi lo d ((2 * h - 1) - N.log2 d) = ((hi * M + lo) mod d, (hi * M + lo) / d).
  Proof.
    intros hi lo d Hd Hhi Hlo.
    pose proof M_sq as HM. pose proof Bh_ge2 as HB2.
    (* the normalising shift *)
    destruct (N.log2_spec d ltac:(lia)) as (Hlg1 & Hlg2).
    assert (Hlg : N.log2 d < 2 * h) by (apply N.log2_lt_pow2; lia).
    set (s := 2 * h - 1 - N.log2 d).
    assert (Hs1 : 2 ^ N.log2 d * 2 ^ s * 2 = M).
    { rewrite <- N.pow_add_r. replace (2 ^ (N.log2 d + s) * 2) with (2 ^ N.succ (N.log2 d + s)) by (rewrite N.pow_succ_r'; ring).
      f_equal. unfold s. lia. }
    assert (Hsh : 0 < 2 ^ s) by (apply N.neq_0_lt_0, N.pow_nonzero; lia).
    set (sh := 2 ^ s) in *.
    assert (Hds_hi : d * sh < M).
    { rewrite N.pow_succ_r' in Hlg2. nia. }
    assert (Hds_lo : M <= 2 * (d * sh)) by nia.
    unfold div2_half. fold s. fold sh.
    rewrite (N.mod_small (d * sh)) by assumption.
    set (ds := d * sh) in *.
    assert (Hhin : hi * sh < ds) by (unfold ds; apply N.mul_lt_mono_pos_r; assumption).
    rewrite (N.mod_small (hi * sh)) by lia.
    pose proof (N.div_mod ds Bh ltac:(lia)) as Hdsdm. pose proof (N.mod_lt ds Bh ltac:(lia)) as Hdh.
    set (dl := ds / Bh) in *. set (dh := ds mod Bh) in *.
    assert (Hds : ds = dl * Bh + dh) by lia.
    assert (Hdl : dl < Bh) by (unfold dl; apply N.div_lt_upper_bound; lia).
    assert (Hn : Bh <= 2 * dl).
    { set (k := 2 ^ (h - 1)).
      assert (Hk : Bh = 2 * k).
      { unfold k. rewrite <- N.pow_succ_r'. f_equal. lia. }
      assert (HMk : M = 2 * (k * Bh)) by (rewrite HM; rewrite Hk at 1; ring).
      assert (H1 : k * Bh <= ds) by lia.
      assert (H2 : ds < (dl + 1) * Bh) by (replace ((dl + 1) * Bh) with (dl * Bh + Bh) by ring; lia).
      assert (H3 : k * Bh < (dl + 1) * Bh) by lia.
      apply N.mul_lt_mono_pos_r in H3; lia. }
    (* first digit *)
    pose proof (div_digit_correct (hi * sh) ds dl dh Hds Hdh Hn Hdl Hhin) as D1.
    destruct (div_digit h (hi * sh) ds dl dh) as [h1 q1]. destruct D1 as (E1 & Hh1).
    pose proof (div_digit_correct h1 ds dl dh Hds Hdh Hn Hdl Hh1) as D2.
    destruct (div_digit h h1 ds dl dh) as [h2 q2]. destruct D2 as (E2 & Hh2).
    assert (Hq1 : q1 < Bh) by (apply (quot_digit_bound (hi * sh) Bh ds q1 h1); [lia|assumption|assumption]).
    assert (Hq2 : q2 < Bh) by (apply (quot_digit_bound h1 Bh ds q2 h2); [lia|assumption|assumption]).
    (* the remainder of hi * M *)
    set (Q := q1 * Bh + q2).
    assert (EQ : hi * sh * M = Q * ds + h2).
    { rewrite HM. unfold Q.
      transitivity ((hi * sh * Bh) * Bh); [ring|]. rewrite E1.
      transitivity (q1 * ds * Bh + h1 * Bh); [ring|]. rewrite E2. ring. }
    assert (Hdiv : h2 = sh * (h2 / sh) /\ hi * M = Q * d + h2 / sh).
    { assert (Hmod : h2 mod sh = 0).
      { assert (Hh2e : h2 = hi * sh * M - Q * ds) by lia.
        assert (Hge : Q * ds <= hi * sh * M) by lia.
        rewrite Hh2e. unfold ds.
        replace (hi * sh * M - Q * (d * sh)) with ((hi * M - Q * d) * sh).
        - apply N.mod_mul. lia.
        - rewrite N.mul_sub_distr_r. f_equal; ring. }
      pose proof (N.div_mod h2 sh ltac:(lia)) as Hdm2. rewrite Hmod in Hdm2.
      split; [lia|].
      assert (sh * (hi * M) = sh * (Q * d + h2 / sh)).
      { assert (Hh2' : sh * (h2 / sh) = h2) by lia.
        rewrite N.mul_add_distr_l, Hh2'.
        transitivity (hi * sh * M); [ring|]. rewrite EQ. unfold ds. ring. }
      apply N.mul_cancel_l in H; [exact H|lia]. }
    destruct Hdiv as (Hh2s & Ehi).
    set (rh := h2 / sh) in *.
    assert (Hrh : rh < d).
    { apply (N.mul_lt_mono_pos_l sh); [assumption|]. rewrite <- Hh2s. unfold ds in Hh2. lia. }
    pose proof (N.div_mod lo d ltac:(lia)) as Hlodm. pose proof (N.mod_lt lo d ltac:(lia)) as Hcar.
    set (lo1 := lo / d) in *. set (carry := lo mod d) in *.
    (* the quotient words do not overflow *)
    assert (Htot : hi * M + lo = (Q + lo1) * d + (rh + carry)).
    { rewrite Ehi. rewrite Hlodm at 1. ring. }
    assert (HQdef : Q = q1 * Bh + q2) by reflexivity.
    clearbody lo1 carry rh Q.
    clear Hlg1 Hlg2 Hlg Hs1 Hds_hi Hds_lo Hhin Hdsdm Hdh Hds Hdl Hn E1 Hh1 E2 Hh2 EQ Hh2s Hsh Ehi Hlodm.
    assert (HQ : Q + lo1 + 1 < M \/ (Q + lo1 + 1 = M /\ rh + carry < d)).
    { assert (Hlt : hi * M + lo < d * M).
      { assert ((hi + 1) * M <= d * M) by (apply N.mul_le_mono_r; lia). clear - H Hlo. lia. }
      assert (HltM : (Q + lo1) * d < M * d) by (clear - Hlt Htot; lia).
      apply N.mul_lt_mono_pos_r in HltM; [|lia].
      destruct (N.lt_ge_cases (Q + lo1 + 1) M) as [|Hge]; [left; assumption|right].
      assert (HMd : M * d <= (Q + lo1 + 1) * d) by (apply N.mul_le_mono_r; assumption).
      split; [clear - HltM Hge; lia|clear - HMd Hlt Htot; lia]. }
    assert (Hqb : q1 * Bh < M) by (rewrite HM; apply N.mul_lt_mono_pos_r; lia).
    rewrite (N.mod_small (q1 * Bh)) by assumption.
    assert (HQlt : Q + lo1 < M) by (destruct HQ; lia).
    rewrite (N.mod_small (lo1 + q1 * Bh)) by (rewrite HQdef in HQlt; lia).
    rewrite (N.mod_small (lo1 + q1 * Bh + q2)) by (rewrite HQdef in HQlt; lia).
    replace (lo1 + q1 * Bh + q2) with (Q + lo1) by (rewrite HQdef; lia).
    (* carry fix-up *)
    clear Hq1 Hq2 HQdef Hqb. try clear h1 h2. try clear dl dh. try clear ds. try clear sh. try clear s.
    destruct (N.lt_ge_cases (rh + carry) M) as [Hnov|Hov].
    - rewrite (N.mod_small (rh + carry)) by assumption.
      destruct (N.ltb_spec (rh + carry) rh) as [|_]; [lia|].
      destruct (N.leb_spec d (rh + carry)) as [Hbig|Hsmall].
      + destruct HQ as [HQ|HQ]; [|lia].
        destruct (subM_char (rh + carry) d Hnov ltac:(lia)) as ([Es|Es] & Bs); [|lia].
        rewrite (N.mod_small (Q + lo1 + 1)) by assumption.
        set (r := subM h (rh + carry) d) in *.
        f_equal; [apply (N.mod_unique _ _ (Q + lo1 + 1)) | apply (N.div_unique _ _ _ r)]; lia.
      + f_equal; [apply (N.mod_unique _ _ (Q + lo1)) | apply (N.div_unique _ _ _ (rh + carry))]; lia.
    - (* the sum of the two partial remainders overflowed the word: D8 *)
      assert (Em : (rh + carry) mod M = rh + carry - M).
      { symmetry. apply (N.mod_unique _ _ 1); lia. }
      rewrite Em.
      destruct (N.ltb_spec (rh + carry - M) rh) as [_|]; [|lia].
      destruct HQ as [HQ|HQ]; [|lia].
      destruct (subM_char (rh + carry - M) d ltac:(lia) ltac:(lia)) as ([Es|Es] & Bs); [lia|].
      rewrite (N.mod_small (Q + lo1 + 1)) by assumption.
      set (r := subM h (rh + carry - M) d) in *.
      destruct (N.leb_spec d r) as [|_]; [lia|].
      f_equal; [apply (N.mod_unique _ _ (Q + lo1 + 1)) | apply (N.div_unique _ _ _ r)]; lia.
  Qed.
End Half.

(* the contract of DoubleSize<Number_T,64>::Divide as BigInt::Divide calls it *)
Theorem div2_ok_64 : div2_ok 64.
Proof.
  intros hi lo d Hd Hhi Hlo. unfold div2, div_shift. cbn [N.eqb Pos.eqb].
  change (Bw 64) with (2 ^ (2 * 32)) in *.
  exact (div2_half_correct 32 ltac:(lia) hi lo d Hd Hhi Hlo).
Qed.

Theorem div2_ok_all : forall w, div2_ok w.
Proof.
  intros w. destruct (N.eq_dec w 64) as [->|Hne]; [exact div2_ok_64|].
  intros hi lo d Hd Hhi Hlo. unfold div2, div_shift.
  destruct (N.eqb_spec w 64) as [|_]; [contradiction|].
  f_equal. apply N.mod_small. apply N.div_lt_upper_bound; [lia|]. nia.
Qed.
