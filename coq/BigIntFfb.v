(* BigIntFfb.v -- C19 lemmas, part 6: FindFirstBit (D6 repaired): the scan finds the
   lowest non-zero word and the result is the number of trailing zero bits of the value. *)
From Coq Require Import Arith NArith ZArith List Bool Lia Psatz.
From Coq Require Import ZifyBool ZifyNat ZifyN.
From Qv Require Import BigIntModel BigIntProofs BigIntHelpers BigIntShift.
Import ListNotations.
Local Open Scope N_scope.

(* ctz: y = 2^(ctz y) * odd *)
Lemma ctz_double : forall y, y <> 0 -> ctz (2 * y) = 1 + ctz y.
Proof. intros [|p] H; [contradiction|reflexivity]. Qed.

Lemma ctz_odd : forall m, ctz (2 * m + 1) = 0.
Proof. intros [|p]; reflexivity. Qed.

Lemma ctz_unique : forall k y m, y = 2 ^ k * (2 * m + 1) -> ctz y = k.
Proof.
  intros k. induction k as [|k IH] using N.peano_ind; intros y m E.
  - rewrite N.pow_0_r, N.mul_1_l in E. subst. apply ctz_odd.
  - rewrite N.pow_succ_r' in E. 
    assert (Hy : y = 2 * (2 ^ k * (2 * m + 1))) by (rewrite E; ring).
    rewrite Hy. rewrite ctz_double.
    + rewrite (IH _ m eq_refl). lia.
    + assert (0 < 2 ^ k) by (apply N.neq_0_lt_0, N.pow_nonzero; lia). nia.
Qed.

Lemma ctz_spec : forall y, y <> 0 -> exists m, y = 2 ^ (ctz y) * (2 * m + 1).
Proof.
  intros [|p] H; [contradiction|]. clear H. induction p as [p IH|p IH|].
  - exists (Npos p). cbn [ctz ctz_pos]. rewrite N.pow_0_r. lia.
  - destruct IH as (m & E). exists m. cbn [ctz ctz_pos] in *.
    change (N.pos p~0) with (2 * N.pos p). rewrite E at 1.
    replace (1 + ctz_pos p) with (N.succ (ctz_pos p)) by lia. rewrite N.pow_succ_r'. ring.
  - exists 0. reflexivity.
Qed.

Lemma ctz_shift : forall k y, y <> 0 -> ctz (2 ^ k * y) = k + ctz y.
Proof.
  intros k y H. destruct (ctz_spec y H) as (m & E).
  apply (ctz_unique _ _ m). rewrite E at 1. rewrite N.pow_add_r. ring.
Qed.

Lemma ctz_low_word : forall h x r, x <> 0 -> x < 2 ^ h -> ctz (x + 2 ^ h * r) = ctz x.
Proof.
  intros h x r Hx Hlt. destruct (ctz_spec x Hx) as (m & E).
  set (c := ctz x) in *.
  assert (Hc : c < h).
  { destruct (N.lt_ge_cases c h) as [|Hge]; [assumption|exfalso].
    assert (2 ^ h <= 2 ^ c) by (apply N.pow_le_mono_r; lia).
    assert (2 ^ c <= x) by (rewrite E; nia). lia. }
  assert (Eh : 2 ^ h = 2 ^ c * (2 * 2 ^ (h - c - 1))).
  { rewrite <- N.pow_succ_r', <- N.pow_add_r. f_equal. lia. }
  apply (ctz_unique _ _ (m + 2 ^ (h - c - 1) * r)). rewrite Eh. rewrite E at 1. ring.
Qed.

Section W.
  Variable w : N.
  Notation B := (Bw w).
  Notation val := (value w).
  Notation pw := (pw w).
  Notation bval := (bval w).

  Lemma first_nonzero : forall l, val l <> 0 ->
    exists i0, (i0 < length l)%nat /\ nth i0 l 0 <> 0 /\ (forall j, (j < i0)%nat -> nth j l 0 = 0).
  Proof.
    induction l as [|a t IH]; intros H; [cbn in H; contradiction|].
    destruct (N.eq_dec a 0) as [->|Ha].
    - destruct IH as (i0 & Hi & Hn & Hz).
      + intros Hz. apply H. cbn [value]. rewrite Hz. lia.
      + exists (S i0). cbn [length nth]. split; [lia|]. split; [exact Hn|].
        intros [|j] Hj; [reflexivity|]. apply Hz. lia.
    - exists O. cbn. split; [lia|]. split; [exact Ha|]. intros j Hj. lia.
  Qed.

  Lemma ffb_loop_spec : forall fuel l idx i i0, (i <= i0)%nat ->
    (forall j, (i <= j < i0)%nat -> nth j l 0 = 0) -> nth i0 l 0 <> 0 -> (i0 <= idx)%nat ->
    (i0 < length l)%nat -> (i0 - i < fuel)%nat -> ffb_loop fuel l idx i = Ok i0.
  Proof.
    induction fuel as [|f IH]; intros l idx i i0 Hi Hz Hn Hidx Hl Hf; [lia|].
    cbn [ffb_loop]. rewrite rd_ok by lia. cbn [bind].
    destruct (Nat.eq_dec i i0) as [->|Hne].
    - destruct (N.eqb_spec (nth i0 l 0) 0) as [|_]; [contradiction|]. reflexivity.
    - rewrite (Hz i) by lia. cbn [N.eqb andb].
      destruct (Nat.leb_spec i idx) as [_|]; [|lia].
      apply IH; auto; try lia. intros j Hj. apply Hz. lia.
  Qed.

  Hypothesis w_pos : 0 < w.

  Theorem find_first_bit_correct : forall s, WF w s -> bval s <> 0 ->
    find_first_bit w s = Ok (ctz (bval s)).
  Proof.
    intros s ((Hw & Hi & Ha) & Ht) Hnz. unfold find_first_bit.
    destruct (first_nonzero (words s) Hnz) as (i0 & Hl0 & Hn0 & Hz0).
    assert (Hidx : (i0 <= index s)%nat).
    { destruct (Nat.le_gt_cases i0 (index s)) as [|Hgt]; [assumption|]. exfalso. apply Hn0, Ha, Hgt. }
    rewrite (ffb_loop_spec (S (S (index s))) (words s) (index s) 0 i0) by (auto; try lia; intros j Hj; apply Hz0; lia).
    cbn [bind]. rewrite rd_ok by assumption. cbn [bind].
    set (x := nth i0 (words s) 0) in *.
    destruct (N.eqb_spec x 0) as [|_]; [contradiction|]. f_equal.
    (* the value is 2^(w*i0) * (x + 2^w * rest) *)
    pose proof (value_split w i0 (words s)) as Hsp.
    rewrite (val_all_zero w (firstn i0 (words s))) in Hsp.
    2:{ intros j. destruct (Nat.lt_ge_cases j i0) as [Hj|Hj].
        - rewrite <- (firstn_skipn i0 (words s)) in Hz0.
          specialize (Hz0 j Hj). rewrite app_nth1 in Hz0; [exact Hz0|].
          rewrite firstn_length_le by lia. exact Hj.
        - apply nth_overflow. rewrite firstn_length_le by lia. exact Hj. }
    assert (Hsk : val (skipn i0 (words s)) = x + B * val (skipn (S i0) (words s))).
    { assert (E : skipn i0 (words s) = x :: skipn (S i0) (words s)).
      { unfold x. clear - Hl0. revert i0 Hl0. induction (words s) as [|a t IH]; intros i0 Hl0; [cbn in Hl0; lia|].
        destruct i0 as [|i0]; [reflexivity|]. cbn [skipn nth]. apply IH. cbn in Hl0. lia. }
      rewrite E. reflexivity. }
    unfold BigIntProofs.bval. rewrite Hsp, Hsk, N.add_0_l, pw_bits.
    pose proof (wordsok_nth w _ i0 Hw Hl0) as Hxb. fold x in Hxb. unfold Bw in *.
    rewrite ctz_shift.
    - rewrite ctz_low_word by assumption. lia.
    - lia.
  Qed.
End W.
