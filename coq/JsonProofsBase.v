(* JsonProofsBase.v -- basic lemmas and computed examples for the JSON model. *)
From Coq Require Import NArith ZArith List Bool Lia.
From Qv Require Import gen.Tables_json JsonModel.
Import ListNotations.
Local Open Scope N_scope.

(* the constants the proofs rely on, re-checked against the generated table on every build *)
Lemma tables_json_ok :
  jc_quote = 34 /\ jc_comma = 44 /\ jc_colon = 58 /\ jc_scurly = 123 /\ jc_ecurly = 125 /\
  jc_ssquare = 91 /\ jc_esquare = 93 /\ jc_slash = 47 /\ jc_bslash = 92 /\
  jc_ctl_b = 8 /\ jc_ctl_t = 9 /\ jc_ctl_n = 10 /\ jc_ctl_f = 12 /\ jc_ctl_r = 13 /\
  jc_b = 98 /\ jc_t = 116 /\ jc_n = 110 /\ jc_f = 102 /\ jc_r = 114 /\ jc_u = 117 /\ jc_cu = 85 /\
  jc_true_lit = [116; 114; 117; 101; 0] /\ jc_false_lit = [102; 97; 108; 115; 101; 0] /\
  jc_null_lit = [110; 117; 108; 108; 0] /\
  jc_true_len = 4 /\ jc_false_len = 5 /\ jc_null_len = 4 /\
  jc_replace_list = [0; 0; 0; 0; 0; 0; 0; 0; 98; 116; 110; 0; 102; 114] /\
  ws_space = 32 /\ ws_line = 10 /\ ws_tab = 9 /\ ws_cr = 13 /\
  dc_zero = 48 /\ dc_five = 53 /\ dc_seven = 55 /\ dc_nine = 57 /\ dc_e = 101 /\ dc_ue = 69 /\
  dc_dot = 46 /\ dc_pos = 43 /\ dc_neg = 45 /\ dc_ua = 65 /\ dc_uf = 70 /\ dc_a = 97 /\ dc_f = 102 /\
  dc_uw = 87 /\ dc_x = 120 /\ dc_ux = 88 /\ jc_sizeof_wchar = 4 /\ jc_sizeof_SizeT = 4 /\
  jc_same_in_all_widths = true.
Proof. repeat split; reflexivity. Qed.

(* [[1 2]  and  {"a":[1 2}  (D2), and the one-past inputs of D15 *)
Example ex_d2_a : parse 0 [91; 91; 49; 32; 50; 93] = JOk JUndef.
Proof. vm_compute. reflexivity. Qed.
Example ex_d2_b : parse 0 [123; 34; 97; 34; 58; 91; 49; 32; 50; 125] = JOk JUndef.
Proof. vm_compute. reflexivity. Qed.
Example ex_ok : parse 0 [32; 91; 49; 44; 32; 34; 92; 117; 48; 48; 52; 49; 34; 44; 116; 114; 117; 101; 93; 10]
  = JOk (JArr [JNat 1; JStr [65]; JTrue]).
Proof. vm_compute. reflexivity. Qed.

(* ------------------------------------------------------------------ *)
(* generic facts *)
Lemma bind_JOk {A B} (x : jres A) (f : A -> jres B) (b : B) :
  bind x f = JOk b -> exists a, x = JOk a /\ f a = JOk b.
Proof. destruct x; cbn; intros H; [eauto | discriminate]. Qed.

Lemma bind_JErr {A B} (x : jres A) (f : A -> jres B) (e : jerr) :
  bind x f = JErr e -> x = JErr e \/ exists a, x = JOk a /\ f a = JErr e.
Proof. destruct x; cbn; intros H; [right; eauto | left; congruence]. Qed.

Lemma has_true_iff (r : list N) : has r = true <-> r <> [].
Proof. destruct r; cbn; split; congruence. Qed.

Lemma advn_ok : forall site n r, (n <= length r)%nat -> advn site n r = JOk (skipn n r).
Proof.
  induction n as [|n IH]; intros r Hn; cbn; [reflexivity|].
  destruct r as [|c t]; cbn in *; [lia|]. apply IH. lia.
Qed.

Lemma advn_JOk : forall site n r r', advn site n r = JOk r' -> (n <= length r)%nat /\ r' = skipn n r.
Proof.
  induction n as [|n IH]; intros r r' H; cbn in *.
  - inversion H. split; [lia|reflexivity].
  - destruct r as [|c t]; [discriminate|]. apply IH in H. cbn. split; [lia|tauto].
Qed.

Lemma advn_err : forall site n r e, advn site n r = JErr e -> (length r < n)%nat.
Proof.
  induction n as [|n IH]; intros r e H; cbn in *; [discriminate|].
  destruct r as [|c t]; cbn; [lia|]. apply IH in H. lia.
Qed.

(* trim *)
Lemma trim_suffix : forall r, exists ws, r = ws ++ trim r /\ Forall (fun c => is_ws c = true) ws.
Proof.
  induction r as [|c t IH]; cbn.
  - exists []. split; [reflexivity|constructor].
  - destruct (is_ws c) eqn:E.
    + destruct IH as [ws [H1 H2]]. exists (c :: ws). split; [cbn; congruence|constructor; assumption].
    + exists []. split; [reflexivity|constructor].
Qed.

Lemma trim_length : forall r, (length (trim r) <= length r)%nat.
Proof. induction r as [|c t IH]; cbn; [lia|]. destruct (is_ws c); cbn; lia. Qed.

Lemma trim_head : forall r c t, trim r = c :: t -> is_ws c = false.
Proof.
  induction r as [|a r IH]; cbn; intros c t H; [discriminate|].
  destruct (is_ws a) eqn:E; [eauto|]. inversion H; subst. assumption.
Qed.

Lemma trim_idem : forall r, trim (trim r) = trim r.
Proof.
  intros r. destruct (trim r) as [|c t] eqn:E; [reflexivity|].
  apply trim_head in E. cbn. rewrite E. reflexivity.
Qed.

Lemma trim_nonws : forall c t, is_ws c = false -> trim (c :: t) = c :: t.
Proof. intros c t H. cbn. rewrite H. reflexivity. Qed.

Lemma trim_ws_app : forall ws r, Forall (fun c => is_ws c = true) ws -> trim (ws ++ r) = trim r.
Proof. induction ws as [|c ws IH]; intros r H; cbn; [reflexivity|]. inversion H; subst. rewrite H2. auto. Qed.

Lemma list_eqb_refl : forall a, list_eqb a a = true.
Proof. induction a as [|x a IH]; cbn; [reflexivity|]. rewrite N.eqb_refl. assumption. Qed.

Lemma list_eqb_eq : forall a b, list_eqb a b = true <-> a = b.
Proof.
  induction a as [|x a IH]; destruct b as [|y b]; cbn; split; intros H; try congruence; try reflexivity.
  - apply andb_true_iff in H. destruct H as [H1 H2]. apply N.eqb_eq in H1. apply IH in H2. congruence.
  - inversion H; subst. rewrite N.eqb_refl. apply list_eqb_refl.
Qed.

(* ------------------------------------------------------------------ *)
(* the whitespace set of StringUtils::TrimLeft, probed from the current headers by
   tools/gentables_json.cpp (every unit of every width is tried): exactly space, LF, TAB, CR --
   and it is the set the model's [is_ws] decides *)
Lemma ws_set_exact :
  ws_probe_c8 = [9; 10; 13; 32] /\ ws_probe_c16 = [9; 10; 13; 32] /\
  ws_probe_c32 = [9; 10; 13; 32] /\ ws_probe_wc = [9; 10; 13; 32].
Proof. repeat split; reflexivity. Qed.

Lemma is_ws_probe : forall c, is_ws c = true <-> In c ws_probe_c8.
Proof.
  intros c. unfold is_ws. change ws_space with 32. change ws_line with 10. change ws_tab with 9. change ws_cr with 13.
  change ws_probe_c8 with [9; 10; 13; 32]. cbn [In]. split.
  - intros H. repeat (apply orb_true_iff in H; destruct H as [H|H]); apply N.eqb_eq in H; subst; auto.
  - intros [H|[H|[H|[H|[]]]]]; subst; reflexivity.
Qed.

(* wchar_t is four bytes on the modelled platform: width 3 takes the UTF-32 paths of width 2 *)
Lemma wchar_is_utf32 : jc_sizeof_wchar = 4 /\ cu_bits 3 = cu_bits 2 /\ forall c, to_utf 3 c = to_utf 2 c.
Proof. repeat split. Qed.
