(* Properties_C01.v -- the C01 theorems and nothing else (FinderProofs.v,
   TparseSafety.v, TparseTree.v).  They cover the scanner and the whole of
   Template.hpp::parse (model with every access checked); the renderer on the
   trees parse builds for arbitrary text is covered by the tree invariant only
   for texts without super-variable / inline-if tokens and is otherwise
   searched with sanitizers, not proved (DESIGN.md C01). *)
From Coq Require Import NArith List.
From Qv Require Import gen.Tables_tmpl FinderModel FinderProofs TparseModel TparseSafety TparseTree TrenderModel TrenderProofs TparseLevels.
Import ListNotations.

(* Finder::Next never reads content_[i] with i >= length_ and its loop terminates,
   for every text, every word list and every cursor *)
Theorem c01_finder_safe : forall first_chars single groups content offset,
  next first_chars single groups content offset <> FErr.
Proof. exact next_safe. Qed.
Print Assumptions c01_finder_safe.

(* the cursor only moves forward, stays inside the text, and moves strictly when something matched *)
Theorem c01_finder_progress : forall first_chars single groups content offset m off',
  offset <= length content ->
  next first_chars single groups content offset = FOk m off' ->
  offset <= off' <= length content /\ (m <> 0%N -> offset < off').
Proof. exact next_progress. Qed.
Print Assumptions c01_finder_progress.

(* with the generated word list, the index-and-offset scanner finds exactly the
   first tag word (in group order) or closing brace at or after the cursor *)
Theorem c01_finder_is_spec : forall content offset,
  offset <= length content ->
  next_c8 content offset = let (m, o) := next_spec_c8 (skipn offset content) offset in FOk m o.
Proof. exact next_c8_is_spec. Qed.
Print Assumptions c01_finder_is_spec.

(* parse()'s main loop consumes at most |text| matches and never sees a failed read *)
Theorem c01_scan_terminates : forall w content,
  length (scan_all (S (length content)) w content 0) <= length content /\
  ~ In 99%N (map fst (scan_all (S (length content)) w content 0)).
Proof. exact scan_all_bounded. Qed.
Print Assumptions c01_scan_terminates.

(* the generated word list is the documented one *)
Theorem c01_word_ids : tp_ids = [1; 2; 3; 4; 5; 6; 7; 8; 9; 10; 11]%N.
Proof. reflexivity. Qed.
Print Assumptions c01_word_ids.

(* Template.hpp::parse (TparseModel.v: all eleven match kinds, the storage stack,
   the loop chain, the attribute scanners, the reads of the expression parser,
   the 8/16-bit field truncations): for EVERY text, in every character width,
   no out-of-bounds read at any site, no Last() of an empty array, no tag record
   read as another kind, no negative unsigned difference, and the main loop
   terminates within |text|+2 iterations -- the model never yields an Error *)
Theorem c01_parse_safe : forall w content e, parse_model w content <> Error e.
Proof. exact parse_safe. Qed.
Print Assumptions c01_parse_safe.

Theorem c01_parse_total : forall w content, exists l, parse_model w content = Ok l.
Proof. exact parse_total. Qed.
Print Assumptions c01_parse_total.

(* the loop_tag chain never dangles: it is exactly the chain of loops still open on the stack *)
Theorem c01_loop_chain_is_open_loops : forall content st, Inv content st ->
  ps_chain st = open_loops (ps_stack st) /\ parents_ok (ps_stack st).
Proof. exact chain_is_open_loops. Qed.
Print Assumptions c01_loop_chain_is_open_loops.

(* renderer precondition: for texts without {svar: / {if tokens the tree obeys the
   offset discipline (tags ordered inside their range, Offset <= EndOffset <= length,
   children inside parents, loop content before its end): every slice the renderer
   copies has a non-negative length inside the text *)
Theorem c01_tree_ok_no_inline : forall w content l,
  (forall o m o', next_w w content o = FOk m o' -> m <> 5%N /\ m <> 6%N) ->
  parse_model w content = Ok l -> tree_ok (length content) l.
Proof. exact tree_ok_no_inline. Qed.
Print Assumptions c01_tree_ok_no_inline.

(* the tree parse builds obeys the offset discipline for EVERY text (incl. super
   variables and inline ifs): tags ordered inside their range, Offset <= EndOffset <=
   length, children inside parents, variable records inside the text with a Level of
   an enclosing loop, inline-if slices disjoint inside the tag and start ids
   partitioning the sub tags *)
Theorem c01_tree_ok_all : forall w content l, parse_model w content = Ok l -> tree_ok (length content) l.
Proof. exact tree_ok_all. Qed.
Print Assumptions c01_tree_ok_all.

(* the renderer model (TrenderModel.v: render, renderVariable, renderRawVariable,
   renderMath, renderSuperVariable, renderInLineIf, renderLoop, renderIf, getValue,
   with every slice, every index into the loop-item array, every start id and every
   read of the text checked) never fails on a tree that obeys the discipline --
   for an ARBITRARY value type and lookup / iteration / text / grouping / sorting
   functions, escape function and expression evaluators *)
Theorem c01_render_safe : forall (value : Type) get_key members value_text value_chars group_by sort_value esc eval_math eval_cond
  content (root : value) tags, tree_ok (length content) tags ->
  forall e, render_model value get_key members value_text value_chars group_by sort_value esc eval_math eval_cond content root tags <> RError e.
Proof. exact render_safe. Qed.
Print Assumptions c01_render_safe.

(* C01 on the model: Template::Render = Parse then Render never fails, for every
   template text in every character width and every value *)
Theorem c01_render_all_safe : forall (value : Type) get_key members value_text value_chars group_by sort_value esc eval_math eval_cond
  w content (root : value) e,
  render_all value get_key members value_text value_chars group_by sort_value esc eval_math eval_cond w content root <> RError e.
Proof. exact render_all_safe. Qed.
Print Assumptions c01_render_all_safe.

(* ---- D91: the Level of a loop is its true depth and never wraps; loops that are active at the same time never share
        a slot of the loop-item array.  [doks d l]: every loop tag lying under d open tags (loops, ifs, super variables,
        inline ifs) has Level = d and d <= 255.  [ldists lv l]: no loop carries a Level found among the loops enclosing
        it.  (The renderer MODEL copies items by value, so a shared slot would be a wrong item there, never an invalid
        read: the use-after-free of D91 exists only with C++ pointer lifetimes, which is why this is stated on the tree.) ---- *)
Theorem c01_parse_levels : forall w content l, parse_model w content = Ok l -> doks 0 l.
Proof. exact parse_levels. Qed.
Print Assumptions c01_parse_levels.

Theorem c01_parse_levels_distinct : forall w content l, parse_model w content = Ok l -> ldists [] l.
Proof. exact parse_levels_distinct. Qed.
Print Assumptions c01_parse_levels_distinct.
