(* Properties_C01.v -- the C01 theorems and nothing else (FinderProofs.v).
   They cover the scanner under Template.hpp::parse; the parser and renderer
   as a whole are searched with sanitizers, not proved (DESIGN.md C01). *)
From Coq Require Import NArith List.
From Qv Require Import gen.Tables_tmpl FinderModel FinderProofs.
Import ListNotations.

(* Finder::Next never reads content_[i] with i >= length_ and its loop terminates,
   for every text, every word list and every cursor *)
Theorem c01_finder_safe : forall first_chars single groups content offset,
  next first_chars single groups content offset <> FErr.
Proof. exact next_safe. Qed.
Print Assumptions c01_finder_safe.

(* the cursor only moves forward, stays inside the text, and moves strictly when something matched *)
Theorem c01_finder_progress : forall first_chars single groups content offset m off',
  offset <= length content ->
  next first_chars single groups content offset = FOk m off' ->
  offset <= off' <= length content /\ (m <> 0%N -> offset < off').
Proof. exact next_progress. Qed.
Print Assumptions c01_finder_progress.

(* with the generated word list, the index-and-offset scanner finds exactly the
   first tag word (in group order) or closing brace at or after the cursor *)
Theorem c01_finder_is_spec : forall content offset,
  offset <= length content ->
  next_c8 content offset = let (m, o) := next_spec_c8 (skipn offset content) offset in FOk m o.
Proof. exact next_c8_is_spec. Qed.
Print Assumptions c01_finder_is_spec.

(* parse()'s main loop consumes at most |text| matches and never sees a failed read *)
Theorem c01_scan_terminates : forall w content,
  length (scan_all (S (length content)) w content 0) <= length content /\
  ~ In 99%N (map fst (scan_all (S (length content)) w content 0)).
Proof. exact scan_all_bounded. Qed.
Print Assumptions c01_scan_terminates.

(* the generated word list is the documented one *)
Theorem c01_word_ids : tp_ids = [1; 2; 3; 4; 5; 6; 7; 8; 9; 10; 11]%N.
Proof. reflexivity. Qed.
Print Assumptions c01_word_ids.
