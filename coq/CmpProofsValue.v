(* CmpProofsValue.v -- C15: the Value comparison operators (after D4, D5) are the
   five results of one three-way comparison "kind first, then content", which is
   a total preorder on values that hold no NaN; Value arrays sort accordingly. *)
From Coq Require Import NArith ZArith List Bool Lia Permutation Sorted.
From Qv Require Import gen.Tables_cmp CmpModel CmpProofs.
Import ListNotations.
Local Open Scope N_scope.

(* ------------------------------------------------------------------ *)
(** * Pointers are followed on both sides *)

Lemma v_op_r_deref : forall w op a b, v_op_r w op a b = v_core w op a (deref b).
Proof. intros w op a b. induction b; simpl; auto. Qed.

Theorem v_op_deref : forall w op a b, v_op w op a b = v_core w op (deref a) (deref b).
Proof.
  intros w op a. induction a as [|pa IH| | | | | | | | |]; intros b; simpl; try apply v_op_r_deref.
  destruct b; simpl; apply IH.
Qed.

Definition nonptr (v : value) : Prop := match v with VPtr _ => False | _ => True end.
Lemma deref_nonptr : forall v, nonptr (deref v).
Proof. induction v; simpl; auto. Qed.
Lemma deref_idem : forall v, deref (deref v) = deref v.
Proof. induction v; simpl; auto. Qed.

(* the kinds have pairwise different numbers (re-checked against the headers on every run) *)
Lemma ranks_distinct :
  NoDup [vt_undefined; vt_valueptr; vt_object; vt_array; vt_string; vt_uintlong; vt_intlong; vt_double; vt_true; vt_false; vt_null].
Proof.
  repeat (constructor; [simpl; intros H; repeat (destruct H as [H|H]; [discriminate H|]); exact H|]).
  constructor.
Qed.

(* ------------------------------------------------------------------ *)
(** * The three-way comparison behind the five operators *)

Definition op_of_cmp (op : cop) (c : comparison) : bool :=
  match c, op with
  | Lt, OpLt | Lt, OpLe => true
  | Eq, OpLe | Eq, OpGe | Eq, OpEq => true
  | Gt, OpGt | Gt, OpGe => true
  | _, _ => false
  end.

(* kind first (the ValueType number), then content: slot count of objects and
   arrays, lexicographic order of strings, magnitude of numbers of one kind *)
Definition core_cmp (w : N) (a b : value) : comparison :=
  match a, b with
  | VObj x, VObj y => x ?= y
  | VArr x, VArr y => x ?= y
  | VUInt x, VUInt y => x ?= y
  | VStr x, VStr y => lex_cmp w x y
  | VInt x, VInt y => (x ?= y)%Z
  | VDbl x, VDbl y => (dbl_key x ?= dbl_key y)%Z
  | _, _ => rank a ?= rank b
  end.
Definition v_cmp (w : N) (a b : value) : comparison := core_cmp w (deref a) (deref b).

Lemma n_op_cmp : forall op x y, n_op op x y = op_of_cmp op (x ?= y).
Proof.
  intros op x y. destruct op; unfold n_op, N.ltb, N.leb; try rewrite (N.compare_antisym x y);
  try (destruct (x ?= y); reflexivity).
  destruct (N.compare_spec x y) as [E|E|E]; simpl.
  - subst. apply N.eqb_refl.
  - apply N.eqb_neq. lia.
  - apply N.eqb_neq. lia.
Qed.

Lemma z_op_cmp : forall op x y, z_op op x y = op_of_cmp op (x ?= y)%Z.
Proof.
  intros op x y. destruct op; unfold z_op, Z.ltb, Z.leb; try rewrite (Z.compare_antisym x y);
  try (destruct (x ?= y)%Z; reflexivity).
  destruct (Z.compare_spec x y) as [E|E|E]; simpl.
  - subst. apply Z.eqb_refl.
  - apply Z.eqb_neq. lia.
  - apply Z.eqb_neq. lia.
Qed.

Lemma s_op_cmp : forall w op x y, s_op w op x y = op_of_cmp op (lex_cmp w x y).
Proof.
  intros w op x y. destruct op; unfold s_op, str_lt, str_gt, str_le, str_ge, str_eqb;
  rewrite ?is_less_cmp, ?is_greater_cmp, ?str_eq_spec, ?(list_eqb_cmp w);
  destruct (lex_cmp w x y); reflexivity.
Qed.

Lemma d_op_cmp : forall op x y, dbl_isnan x = false -> dbl_isnan y = false ->
  d_op op x y = op_of_cmp op (dbl_key x ?= dbl_key y)%Z.
Proof.
  intros op x y Hx Hy. rewrite <- z_op_cmp.
  destruct op; unfold d_op, dbl_lt, dbl_gt, dbl_le, dbl_ge, dbl_eq, dbl_ord; rewrite Hx, Hy; reflexivity.
Qed.

Lemma core_spec : forall w op a b, nonptr a -> nonptr b -> v_nan a = false -> v_nan b = false ->
  v_core w op a b = op_of_cmp op (core_cmp w a b).
Proof.
  intros w op a b Pa Pb Na Nb.
  destruct a; try contradiction; destruct b; try contradiction; simpl;
  try (destruct op; reflexivity);
  try apply n_op_cmp; try apply z_op_cmp; try apply s_op_cmp.
  apply d_op_cmp; assumption.
Qed.

Lemma v_nan_deref : forall v, v_nan (deref v) = v_nan v.
Proof. intros v. unfold v_nan. now rewrite deref_idem. Qed.

(** the five operators are the five results of [v_cmp] *)
Theorem v_op_spec : forall w op a b, v_nan a = false -> v_nan b = false ->
  v_op w op a b = op_of_cmp op (v_cmp w a b).
Proof.
  intros w op a b Na Nb. rewrite v_op_deref. unfold v_cmp.
  apply core_spec; try apply deref_nonptr; now rewrite v_nan_deref.
Qed.

(* ------------------------------------------------------------------ *)
(** * [v_cmp] is a total preorder *)

Lemma core_cmp_antisym : forall w a b, nonptr a -> nonptr b -> core_cmp w b a = CompOpp (core_cmp w a b).
Proof.
  intros w a b Pa Pb.
  destruct a; try contradiction; destruct b; try contradiction; simpl; try reflexivity;
  try apply N.compare_antisym; try apply Z.compare_antisym; try apply lex_cmp_antisym.
Qed.

Theorem v_cmp_antisym : forall w a b, v_cmp w b a = CompOpp (v_cmp w a b).
Proof. intros w a b. unfold v_cmp. apply core_cmp_antisym; apply deref_nonptr. Qed.

Lemma core_cmp_refl : forall w a, nonptr a -> core_cmp w a a = Eq.
Proof.
  intros w a Pa. destruct a; try contradiction; simpl; try reflexivity;
  try apply N.compare_refl; try apply Z.compare_refl; try apply lex_cmp_refl.
Qed.

Theorem v_cmp_refl : forall w a, v_cmp w a a = Eq.
Proof. intros w a. unfold v_cmp. apply core_cmp_refl, deref_nonptr. Qed.

Lemma ncmp_lt_trans : forall x y z : N, (x ?= y) = Lt -> (y ?= z) = Lt -> (x ?= z) = Lt.
Proof. intros x y z. rewrite !N.compare_lt_iff. lia. Qed.
Lemma zcmp_lt_trans : forall x y z : Z, (x ?= y)%Z = Lt -> (y ?= z)%Z = Lt -> (x ?= z)%Z = Lt.
Proof. intros x y z. rewrite !Z.compare_lt_iff. lia. Qed.
Lemma ncmp_eq_lt : forall x y z : N, (x ?= y) = Eq -> (y ?= z) = Lt -> (x ?= z) = Lt.
Proof. intros x y z H J. apply N.compare_eq in H. now subst. Qed.
Lemma zcmp_eq_lt : forall x y z : Z, (x ?= y)%Z = Eq -> (y ?= z)%Z = Lt -> (x ?= z)%Z = Lt.
Proof. intros x y z H J. apply Z.compare_eq in H. now subst. Qed.
Lemma lex_eq_lt : forall w x y z, lex_cmp w x y = Eq -> lex_cmp w y z = Lt -> lex_cmp w x z = Lt.
Proof. intros w x y z H J. apply lex_cmp_eq in H. now subst. Qed.

Lemma core_cmp_lt_trans : forall w a b c, nonptr a -> nonptr b -> nonptr c ->
  core_cmp w a b = Lt -> core_cmp w b c = Lt -> core_cmp w a c = Lt.
Proof.
  intros w a b c Pa Pb Pc.
  destruct a; try contradiction; destruct b; try contradiction; simpl; try discriminate;
  destruct c; try contradiction; simpl; try discriminate; try reflexivity;
  try apply ncmp_lt_trans; try apply zcmp_lt_trans; try apply lex_cmp_lt_trans.
Qed.

Lemma core_cmp_eq_lt : forall w a b c, nonptr a -> nonptr b -> nonptr c ->
  core_cmp w a b = Eq -> core_cmp w b c = Lt -> core_cmp w a c = Lt.
Proof.
  intros w a b c Pa Pb Pc.
  destruct a; try contradiction; destruct b; try contradiction; simpl; try discriminate;
  destruct c; try contradiction; simpl; try discriminate; try reflexivity;
  try apply ncmp_eq_lt; try apply zcmp_eq_lt; try apply lex_eq_lt.
Qed.

Theorem v_cmp_lt_trans : forall w a b c, v_cmp w a b = Lt -> v_cmp w b c = Lt -> v_cmp w a c = Lt.
Proof. intros w a b c. unfold v_cmp. apply core_cmp_lt_trans; apply deref_nonptr. Qed.

(* equivalent values are interchangeable: with antisymmetry this makes v_cmp a total preorder *)
Theorem v_cmp_eq_lt : forall w a b c, v_cmp w a b = Eq -> v_cmp w b c = Lt -> v_cmp w a c = Lt.
Proof. intros w a b c. unfold v_cmp. apply core_cmp_eq_lt; apply deref_nonptr. Qed.

Theorem v_cmp_lt_eq : forall w a b c, v_cmp w a b = Lt -> v_cmp w b c = Eq -> v_cmp w a c = Lt.
Proof.
  intros w a b c H J.
  assert (J' : v_cmp w c b = Eq) by (rewrite v_cmp_antisym, J; reflexivity).
  assert (H' : v_cmp w b a = Gt) by (rewrite v_cmp_antisym, H; reflexivity).
  destruct (v_cmp w a c) eqn:E; [| reflexivity |].
  - assert (E' : v_cmp w c a = Eq) by (rewrite v_cmp_antisym, E; reflexivity).
    pose proof (v_cmp_eq_lt w c a b E' H) as C. rewrite J' in C. discriminate.
  - assert (E' : v_cmp w c a = Lt) by (rewrite v_cmp_antisym, E; reflexivity).
    pose proof (v_cmp_lt_trans w c a b E' H) as C. rewrite J' in C. discriminate.
Qed.

Theorem v_cmp_eq_trans : forall w a b c, v_cmp w a b = Eq -> v_cmp w b c = Eq -> v_cmp w a c = Eq.
Proof.
  intros w a b c H J. destruct (v_cmp w a c) eqn:E; [reflexivity| |].
  - assert (J' : v_cmp w c b = Eq) by (rewrite v_cmp_antisym, J; reflexivity).
    pose proof (v_cmp_lt_eq w a c b E J') as C. rewrite H in C. discriminate.
  - assert (E' : v_cmp w c a = Lt) by (rewrite v_cmp_antisym, E; reflexivity).
    pose proof (v_cmp_lt_eq w c a b E' H) as C.
    rewrite v_cmp_antisym, J in C. discriminate.
Qed.

(* ------------------------------------------------------------------ *)
(** * The operator-level statements *)

Theorem v_trichotomy : forall w a b, v_nan a = false -> v_nan b = false ->
  exactly_one (v_lt w a b) (v_eq w a b) (v_gt w a b).
Proof.
  intros w a b Na Nb. unfold v_lt, v_eq, v_gt, exactly_one. rewrite !v_op_spec by assumption.
  destruct (v_cmp w a b); simpl; auto.
Qed.

Theorem v_gt_flip : forall w a b, v_nan a = false -> v_nan b = false -> v_gt w a b = v_lt w b a.
Proof.
  intros w a b Na Nb. unfold v_gt, v_lt. rewrite !v_op_spec by assumption.
  rewrite (v_cmp_antisym w a b). destruct (v_cmp w a b); reflexivity.
Qed.

Theorem v_lt_trans : forall w a b c, v_nan a = false -> v_nan b = false -> v_nan c = false ->
  v_lt w a b = true -> v_lt w b c = true -> v_lt w a c = true.
Proof.
  intros w a b c Na Nb Nc. unfold v_lt. rewrite !v_op_spec by assumption.
  destruct (v_cmp w a b) eqn:E1; simpl; try discriminate.
  destruct (v_cmp w b c) eqn:E2; simpl; try discriminate.
  now rewrite (v_cmp_lt_trans w a b c E1 E2).
Qed.

Theorem v_gt_trans : forall w a b c, v_nan a = false -> v_nan b = false -> v_nan c = false ->
  v_gt w a b = true -> v_gt w b c = true -> v_gt w a c = true.
Proof.
  intros w a b c Na Nb Nc. rewrite !v_gt_flip by assumption. intros H J.
  exact (v_lt_trans w c b a Nc Nb Na J H).
Qed.

Theorem v_eq_trans : forall w a b c, v_nan a = false -> v_nan b = false -> v_nan c = false ->
  v_eq w a b = true -> v_eq w b c = true -> v_eq w a c = true.
Proof.
  intros w a b c Na Nb Nc. unfold v_eq. rewrite !v_op_spec by assumption.
  destruct (v_cmp w a b) eqn:E1; simpl; try discriminate.
  destruct (v_cmp w b c) eqn:E2; simpl; try discriminate.
  now rewrite (v_cmp_eq_trans w a b c E1 E2).
Qed.

Theorem v_lt_irrefl : forall w a, v_nan a = false -> v_lt w a a = false.
Proof. intros w a Na. unfold v_lt. rewrite v_op_spec by assumption. now rewrite v_cmp_refl. Qed.

Theorem v_gt_irrefl : forall w a, v_nan a = false -> v_gt w a a = false.
Proof. intros w a Na. unfold v_gt. rewrite v_op_spec by assumption. now rewrite v_cmp_refl. Qed.

(** <= is < or ==, >= is > or ==: for all values, NaN included *)
Lemma n_le_lt_eq : forall x y, (x <=? y) = (x <? y) || (x =? y).
Proof.
  intros x y. destruct (N.leb_spec x y), (N.ltb_spec x y), (N.eqb_spec x y); simpl; auto; lia.
Qed.
Lemma z_le_lt_eq : forall x y, (x <=? y)%Z = (x <? y)%Z || (x =? y)%Z.
Proof.
  intros x y. destruct (Z.leb_spec x y), (Z.ltb_spec x y), (Z.eqb_spec x y); simpl; auto; lia.
Qed.

Lemma core_le : forall w a b, v_core w OpLe a b = v_core w OpLt a b || v_core w OpEq a b.
Proof.
  intros w a b. destruct a, b; simpl; try (rewrite orb_false_r; reflexivity); try reflexivity;
  try apply n_le_lt_eq; try apply z_le_lt_eq.
  - apply str_le_lt_or_eq.
  - unfold dbl_le, dbl_lt, dbl_eq. destruct (dbl_ord bits bits0); simpl; [apply z_le_lt_eq|reflexivity].
Qed.

Lemma core_ge : forall w a b, v_core w OpGe a b = v_core w OpGt a b || v_core w OpEq a b.
Proof.
  intros w a b. destruct a, b; simpl; try (rewrite orb_false_r; reflexivity); try reflexivity;
  try (rewrite (N.eqb_sym size size0); apply n_le_lt_eq);
  try (rewrite (N.eqb_sym n n0); apply n_le_lt_eq).
  - rewrite str_ge_gt_or_eq. reflexivity.
  - rewrite (Z.eqb_sym z z0). apply z_le_lt_eq.
  - unfold dbl_ge, dbl_gt, dbl_eq. destruct (dbl_ord bits bits0); simpl; [|reflexivity].
    rewrite (Z.eqb_sym (dbl_key bits) (dbl_key bits0)). apply z_le_lt_eq.
Qed.

Theorem v_le_lt_or_eq : forall w a b, v_le w a b = v_lt w a b || v_eq w a b.
Proof. intros w a b. unfold v_le, v_lt, v_eq. rewrite !v_op_deref. apply core_le. Qed.

Theorem v_ge_gt_or_eq : forall w a b, v_ge w a b = v_gt w a b || v_eq w a b.
Proof. intros w a b. unfold v_ge, v_gt, v_eq. rewrite !v_op_deref. apply core_ge. Qed.

(** values of different kinds are never equal (D4), whatever they hold *)
Theorem v_eq_same_kind : forall w a b, v_eq w a b = true -> rank (deref a) = rank (deref b).
Proof.
  intros w a b. unfold v_eq. rewrite v_op_deref.
  pose proof (deref_nonptr a) as Pa. pose proof (deref_nonptr b) as Pb.
  destruct (deref a); try contradiction; destruct (deref b); try contradiction; simpl;
  intros H; try discriminate; reflexivity.
Qed.

(** numbers of one kind compare by magnitude; strings lexicographically *)
Theorem v_lt_uint : forall w x y, v_lt w (VUInt x) (VUInt y) = (x <? y).
Proof. reflexivity. Qed.
Theorem v_lt_int : forall w x y, v_lt w (VInt x) (VInt y) = (x <? y)%Z.
Proof. reflexivity. Qed.
Theorem v_lt_str : forall w x y, v_lt w (VStr x) (VStr y) = true <-> lex_lt w x y.
Proof. intros w x y. apply str_lt_iff_lex. Qed.
(* a pointer compares as its target, on either side (D5) *)
Theorem v_op_ptr_l : forall w op a b, v_op w op (VPtr a) b = v_op w op a b.
Proof. intros w op a b. now rewrite !v_op_deref. Qed.
Theorem v_op_ptr_r : forall w op a b, v_op w op a (VPtr b) = v_op w op a b.
Proof. intros w op a b. now rewrite !v_op_deref. Qed.

(* ------------------------------------------------------------------ *)
(** * Sorting an array of values *)

Theorem sort_val_perm : forall w asc l l', sort_val w asc l = Some l' -> Permutation l' l.
Proof. intros w asc l l'. unfold sort_val. apply sort_perm. Qed.

Theorem sort_val_correct : forall w asc l, Forall (fun v => v_nan v = false) l -> exists l',
  sort_val w asc l = Some l' /\ Permutation l' l /\
  StronglySorted (fun a b => v_cmp w a b <> (if asc then Gt else Lt)) l'.
Proof.
  intros w asc l Hn. unfold sort_val.
  set (cmp := if asc then v_lt w else v_gt w).
  destruct (sort_total cmp l) as [l' H]. exists l'. split; [exact H|].
  pose proof (sort_perm cmp l l' H) as Q. split; [exact Q|].
  assert (S : StronglySorted (fun a b => cmp b a = false) l').
  { apply (sort_sorted cmp (fun v => v_nan v = false)) with (l := l); auto.
    - intros x Nx. unfold cmp. destruct asc; [apply v_lt_irrefl|apply v_gt_irrefl]; assumption.
    - intros x y z Nx Ny Nz. unfold cmp. destruct asc; [apply v_lt_trans|apply v_gt_trans]; assumption. }
  assert (Hn' : Forall (fun v => v_nan v = false) l').
  { eapply Permutation_Forall; [apply Permutation_sym, Q|exact Hn]. }
  clear H Q. induction S as [|a l0 S1 IH F]; [constructor|].
  inversion Hn' as [|? ? Na Nl0]; subst. constructor; [apply IH; assumption|].
  rewrite Forall_forall in F, Nl0. apply Forall_forall. intros b Hb.
  pose proof (F b Hb) as Hc. pose proof (Nl0 b Hb) as Nb. unfold cmp in Hc. destruct asc.
  - unfold v_lt in Hc. rewrite v_op_spec, (v_cmp_antisym w a b) in Hc by assumption.
    destruct (v_cmp w a b); simpl in Hc; congruence.
  - unfold v_gt in Hc. rewrite v_op_spec, (v_cmp_antisym w a b) in Hc by assumption.
    destruct (v_cmp w a b); simpl in Hc; congruence.
Qed.

(* non-vacuity *)
Example ex_v_kinds : v_ops 0 (VUInt 5) (VStr [120]) = [false; true; false; true; false].   (* D4: not equal *)
Proof. reflexivity. Qed.
Example ex_v_ptr : v_gt 0 (VPtr (VUInt 7)) (VUInt 5) = true /\ v_gt 0 (VUInt 5) (VPtr (VUInt 9)) = false
                   /\ v_gt 0 (VPtr (VUInt 7)) (VPtr (VUInt 9)) = false.
Proof. repeat split; reflexivity. Qed.
(* what the right-hand pointer did before D5: the comparison fell through to the kinds *)
Example ex_v_d5_before : v_core 0 OpGt (VUInt 5) (VPtr (VUInt 9)) = true.
Proof. reflexivity. Qed.
Example ex_v_nan : v_ops 0 (VDbl 9221120237041090560) (VDbl 9221120237041090560) = [false; false; false; false; false].
Proof. vm_compute. reflexivity. Qed.
Example ex_v_zero : v_eq 0 (VDbl 0) (VDbl (2 ^ 63)) = true.
Proof. vm_compute. reflexivity. Qed.
Example ex_sort_val : sort_val 0 true [VNull; VUInt 5; VPtr (VUInt 3); VStr [97]; VUndef]
                      = Some [VUndef; VStr [97]; VPtr (VUInt 3); VUInt 5; VNull].
Proof. vm_compute. reflexivity. Qed.
