(* DigitModel.v -- C09 / C10 / C11: executable model of Include/Digit.hpp
   (StringToNumber, NumberToString for integers and reals, with the formatters).
   DEFINITIONS ONLY.  The specification side (exact rational arithmetic, the
   printf reference, the oracles) is in DigitModelSpec.v.

   The model describes the code AFTER the repairs findings/D28, D33, D41 .. D46, D48, D49, D94.

   Abstractions, stated explicitly:
   * BigInt<uint64, W> is modelled by its value in N.  Multiply / Divide /
     ShiftLeft / ShiftRight by a word are exact on N as long as the value fits
     the W/64 words; every operation that could leave that range is checked and
     yields [Err EBigOverflow] (never observed; the correspondence run would
     show it as a mismatch).  Index() is (log2 v) / 64.  The word-level
     algorithms of BigInt.hpp are the subject of C19 (component bigint).
   * A position in the input text is a pair (offset, remaining suffix); every
     read content[offset] of the C++ is guarded by offset < end_offset, which is
     "the suffix is not empty" here.
   * The destination stream is the list of its code units.  The formatters
     address it relative to started_at (the length before the number was
     written); the model runs them on the digit run alone, so an access outside
     [started_at, Length) is [Err (EOob site)] (never observed).
   * SizeT / SizeT32 arithmetic that can wrap is written with add32 / sub32.  *)
From Coq Require Import NArith List Bool.
From Qv Require Import gen.Tables_digit.
Import ListNotations.
Local Open Scope N_scope.

Inductive derr := EOob (site : N) | EFuel | EBigOverflow | EShiftUB | EHuge.
Inductive res (A : Type) := Ok (a : A) | Err (e : derr).
Arguments Ok {A} a.
Arguments Err {A} e.
Definition bind {A B} (r : res A) (f : A -> res B) : res B :=
  match r with Ok a => f a | Err e => Err e end.
Notation "'do' x <- r ; k" := (bind r (fun x => k)) (at level 200, x name, r at level 100, k at level 200).
Notation "'do' ' p <- r ; k" := (bind r (fun p => k)) (at level 200, p strict pattern, r at level 100, k at level 200).

Definition two32 : N := 4294967296.
Definition two64 : N := 18446744073709551616.
Definition m64 (x : N) : N := x mod two64.
Definition add32 (a b : N) : N := (a + b) mod two32.
Definition sub32 (a b : N) : N := (a + two32 - b mod two32) mod two32.
Definition b2n (b : bool) : N := if b then 1 else 0.

Definition tbl (t : list N) (i : N) : N := nth (N.to_nat i) t 0.
Definition pow5 (i : N) : N := tbl dg_pow5 i.
Definition recip5 (i : N) : N := tbl dg_recip5 i.
Definition recip5_shift (i : N) : N := tbl dg_recip5_shift i.

Definition is_digit (d : N) : bool := (ch_zero <=? d) && (d <=? ch_nine).
Definition is_nz_digit (d : N) : bool := (ch_zero <? d) && (d <=? ch_nine).

(* ------------------------------------------------------------------ *)
(* BigInt as a value                                                   *)

Definition big_fits (maxindex v : N) : bool := v <? 2 ^ (dg_max_shift * (maxindex + 1)).
Definition big_index (v : N) : N := if v =? 0 then 0 else N.log2 v / dg_max_shift.
Definition big_mul (maxindex v k : N) : res N :=
  let r := v * k in if big_fits maxindex r then Ok r else Err EBigOverflow.
Definition big_shl (maxindex v k : N) : res N :=
  let r := N.shiftl v k in if big_fits maxindex r then Ok r else Err EBigOverflow.

(* ------------------------------------------------------------------ *)
(* Integer to text (Digit::IntToString, both directions)               *)

(* forward: digits are stored backwards from the end of a local buffer, two at a
   time; [acc] is what has been stored so far (most significant first) *)
Fixpoint int_to_string_fwd (fuel : nat) (n : N) (acc : list N) : list N :=
  match fuel with
  | O => acc
  | S f =>
    if 10 <=? n then
      let i := (n mod 100) * 2 in
      int_to_string_fwd f (n / 100) (tbl dg_table1 i :: tbl dg_table1 (i + 1) :: acc)
    else if negb (n =? 0) || (match acc with [] => true | _ => false end)
         then tbl dg_table2 n :: acc else acc
  end.

(* Reverse_V_T = true: least significant digit first *)
Fixpoint int_to_string_rev (fuel : nat) (n : N) (started : bool) : list N :=
  match fuel with
  | O => []
  | S f =>
    if 10 <=? n then
      let i := (n mod 100) * 2 in
      tbl dg_table1 (i + 1) :: tbl dg_table1 i :: int_to_string_rev f (n / 100) true
    else if negb (n =? 0) || negb started then [tbl dg_table2 n] else []
  end.

Definition int_fuel : nat := 12.   (* 20 digits = 10 rounds + the last digit *)
Definition u64_to_string (n : N) : list N := int_to_string_fwd int_fuel n [].
Definition u64_to_string_rev (n : N) : list N := int_to_string_rev int_fuel n false.

(* Digit::NumberToString for an integer type of [w] bits; [v] is the value
   (two's complement pattern in [0, 2^w)), [sgn] says the type is signed.
   After D46 the magnitude is formed on the unsigned member. *)
Definition int_number_to_string (pre : list N) (w : N) (sgn : bool) (pat : N) : list N :=
  let neg := sgn && (2 ^ (w - 1) <=? pat) in
  let mag := if neg then (2 ^ w - pat) mod 2 ^ w else pat in
  (if neg then pre ++ [ch_neg] else pre) ++ u64_to_string mag.

(* ------------------------------------------------------------------ *)
(* Text to number (Digit::stringToNumber)                              *)

Record pres := mkPres { p_kind : N; p_bits : N; p_off : N }.

Definition hex_val (d : N) : option N :=
  if is_digit d then Some (d - ch_zero)
  else if (ch_ua <=? d) && (d <=? ch_uf) then Some (d - ch_seven)
  else if (ch_a <=? d) && (d <=? ch_f) then Some (d - ch_uw)
  else None.

Fixpoint hex_scan (rest : list N) (off num : N) : N * N :=
  match rest with
  | [] => (off, num)
  | d :: r => match hex_val d with
              | Some v => hex_scan r (off + 1) (N.lor (m64 (num * 16)) v)
              | None => (off, num)
              end
  end.

(* while (offset < max_end_offset) { digit = content[offset]; if digit: accumulate, ++offset; else break } *)
Fixpoint scan_window (rest : list N) (off maxend num digit : N) : list N * N * N * N :=
  match rest with
  | [] => (rest, off, num, digit)
  | d :: r =>
    if off <? maxend then
      if is_digit d then scan_window r (off + 1) maxend (m64 (num * 10 + d - ch_zero)) d
      else (rest, off, num, d)
    else (rest, off, num, digit)
  end.

Record st := mkSt { s_off : N; s_rest : list N; s_num : N; s_digit : N; s_dot : N;
                    s_isreal : bool; s_hasdot : bool }.

Inductive lres := LNaN | LFuel | LOk (s : st).

(* the outer while (offset < end_offset) of the mantissa *)
Fixpoint main_loop (fuel : nat) (maxend : N) (s : st) : lres :=
  match fuel with
  | O => LFuel
  | S f =>
    match s_rest s with
    | [] => LOk s
    | _ :: _ =>
      let '(rest, off, num, digit) := scan_window (s_rest s) (s_off s) maxend (s_num s) (s_digit s) in
      if digit =? ch_dot then
        if s_hasdot s then LNaN
        else
          let off1 := off + 1 in
          let rest1 := tl rest in
          let s1 d := mkSt off1 rest1 num d off true true in
          if off1 <? maxend then
            match rest1 with
            | [] => LOk (s1 digit)
            | d :: r2 =>
              if is_nz_digit d then main_loop f maxend (s1 d)
              else if (d =? ch_zero) && (off1 + 1 <? maxend) then
                match r2 with
                | [] => LOk (s1 d)
                | d2 :: _ => if is_digit d2 then main_loop f maxend (s1 d2) else LOk (s1 d2)
                end
              else LOk (s1 d)
            end
          else LOk (s1 digit)
      else LOk (mkSt off rest num digit (s_dot s) (s_isreal s) (s_hasdot s))
    end
  end.

(* parseExponent: Some (exponent, negative, offset, rest) or None *)
Fixpoint exp_digits (rest : list N) (off e : N) : list N * N * N :=
  match rest with
  | [] => (rest, off, e)
  | d :: r =>
    if is_digit d then
      exp_digits r (off + 1) (if e <? 100000000 then (e * 10 + (d - ch_zero)) mod two32 else e)
    else (rest, off, e)
  end.

Fixpoint parse_exponent (fuel : nat) (rest : list N) (off : N) (neg sign_set : bool) : option (list N * N * N * bool) :=
  match fuel with
  | O => None
  | S f =>
    match rest with
    | [] => None
    | d :: r =>
      if d =? ch_pos then (if sign_set then None else parse_exponent f r (off + 1) neg true)
      else if d =? ch_neg then (if sign_set then None else parse_exponent f r (off + 1) true true)
      else
        let '(rest', off', e) := exp_digits rest off 0 in
        if off' =? off then None else Some (rest', off', e, neg)
    end
  end.

(* the while (keep_going) scan after the 19/20-digit window *)
Record tail := mkTail { t_off : N; t_hasdot : bool; t_dot : N; t_expoff : N; t_exp : N; t_negexp : bool }.

Fixpoint tail_scan (rest : list N) (t : tail) : option tail :=
  match rest with
  | [] => Some t
  | d :: r =>
    if is_digit d then tail_scan r (mkTail (t_off t + 1) (t_hasdot t) (t_dot t) (t_expoff t) (t_exp t) (t_negexp t))
    else if d =? ch_dot then
      if t_hasdot t then None
      else tail_scan r (mkTail (t_off t + 1) true (t_off t) (t_expoff t) (t_exp t) (t_negexp t))
    else if (d =? ch_e) || (d =? ch_ue) then
      match parse_exponent 3 r (t_off t + 1) false false with
      | Some (_, off', e, neg) => Some (mkTail off' (t_hasdot t) (t_dot t) (t_off t) e neg)
      | None => None
      end
    else Some t
  end.

Definition mant_mask : N := dg_d_mantmask.
Definition round_half (n : N) : N := (n + N.land n 1) / 2.

(* powerOfPositiveTen: None = larger than the largest finite double (D43) *)
Fixpoint ppt_loop (fuel : nat) (b e shifted : N) : res (N * N * N) :=
  match fuel with
  | O => Err EFuel
  | S f =>
    if dg_max_pow5 <=? e then
      do b1 <- big_mul dg_parse_big_maxindex b (pow5 dg_max_pow5);
      if 2 <? big_index b1
      then ppt_loop f (N.shiftr b1 dg_max_shift) (e - dg_max_pow5) (add32 shifted dg_max_shift)
      else ppt_loop f b1 (e - dg_max_pow5) shifted
    else Ok (b, e, shifted)
  end.

Definition power_of_positive_ten (number exponent : N) : res (option N) :=
  do '(b, e, shifted) <- ppt_loop 40 number exponent exponent;
  do b2 <- (if e =? 0 then Ok b else big_mul dg_parse_big_maxindex b (pow5 e));
  let bit := N.log2 b2 in
  let '(num, shifted2) :=
    if bit <=? 52 then (m64 (N.shiftl (m64 b2) (52 - bit)), shifted)
    else let n1 := round_half (m64 (N.shiftr b2 (bit - 53))) in
         (n1, add32 shifted (b2n (9007199254740991 <? n1))) in
  let exp := dg_d_bias + bit + shifted2 in
  if 2046 <? exp then Ok None
  else Ok (Some (N.lor (N.land num mant_mask) (N.shiftl exp 52))).

Fixpoint pnt_loop (fuel : nat) (b e shifted : N) : res (N * N * N) :=
  match fuel with
  | O => Err EFuel
  | S f =>
    if dg_max_pow5 <=? e then
      do b1 <- big_mul dg_parse_big_maxindex b (recip5 dg_max_pow5);
      pnt_loop f (N.shiftr b1 dg_max_shift) (e - dg_max_pow5) (add32 shifted (recip5_shift dg_max_pow5))
    else Ok (b, e, shifted)
  end.

Definition power_of_negative_ten (number exponent : N) : res N :=
  do b0 <- big_shl dg_parse_big_maxindex number 64;
  do '(b, e, shifted) <- pnt_loop 40 b0 exponent (add32 exponent 64);
  do '(b2, shifted2) <-
    (if e =? 0 then Ok (b, shifted)
     else do b1 <- big_mul dg_parse_big_maxindex b (recip5 e);
          Ok (N.shiftr b1 dg_max_shift, add32 shifted (recip5_shift e)));
  if b2 =? 0 then Err EShiftUB else
  let bit := N.log2 b2 in
  if bit <? 53 then Err EShiftUB else
  let num := m64 (N.shiftr b2 (bit - 53)) in
  let bias := dg_d_bias in
  do '(num2, exp) <-
    (if shifted2 <=? bit then
       let n1 := round_half num in
       Ok (n1, bias + (bit - shifted2) + b2n (9007199254740991 <? n1))
     else
       let sh := shifted2 - bit in
       if sh <? bias then
         let n1 := round_half num in Ok (n1, bias - sh + b2n (9007199254740991 <? n1))
       else
         let sh2 := sh - bias + 1 in
         if 64 <=? sh2 then Err EShiftUB
         else let n1 := round_half (N.shiftr num sh2) in Ok (n1, b2n (4503599627370495 <? n1)));
  Ok (N.lor (N.land num2 mant_mask) (N.shiftl exp 52)).

Definition sign_bit : N := 9223372036854775808.
Definition nan_res (num off : N) : pres := mkPres qn_nan num off.

(* skip zeros after the point: 0.000000000x *)
Fixpoint skipz (rest : list N) (off dgt : N) : list N * N * N :=
  match rest with
  | [] => (rest, off, dgt)
  | z :: r => if z =? ch_zero then skipz r (off + 1) z else (rest, off, z)
  end.

(* everything after the mantissa loop: the 20th digit, the integer results, the
   scan of the remaining digits / point / exponent, and the scaling *)
Definition stn_after (is_neg : bool) (start : N) (fraconly : bool) (s : st) : res pres :=
    let tmp := s_off s in
    (* ---- 20th digit ---- *)
    let '(s2, tmp2) :=
      if negb (s_isreal s) then
        match s_rest s with
        | [] => (s, tmp)
        | dg :: r =>
          if (dg =? ch_dot) || (dg =? ch_e) || (dg =? ch_ue)
          then (mkSt (s_off s) (s_rest s) (s_num s) dg (s_dot s) true (s_hasdot s), tmp)
          else if is_digit dg then
            if (1844674407370955161 <? s_num s) || ((s_num s =? 1844674407370955161) && (ch_five <? dg))
            then (mkSt (s_off s) (s_rest s) (s_num s) dg (s_dot s) true (s_hasdot s), tmp)
            else
              let n1 := m64 (s_num s * 10 + dg - ch_zero) in
              let real1 := match r with
                           | [] => false
                           | d2 :: _ => (d2 =? ch_dot) || (d2 =? ch_e) || (d2 =? ch_ue) || is_digit d2
                           end in
              (mkSt (s_off s + 1) r n1 (match r with [] => dg | d2 :: _ => d2 end) (s_dot s) real1 (s_hasdot s), tmp + 1)
          else (mkSt (s_off s) (s_rest s) (s_num s) dg (s_dot s) false (s_hasdot s), tmp)
        end
      else (s, tmp) in
    let num := s_num s2 in
    let int_result : option pres :=
      if negb (s_isreal s2) then
        if negb is_neg then Some (mkPres qn_natural num (s_off s2))
        else if num =? 0 then Some (mkPres qn_real sign_bit (s_off s2))
        else if num <=? sign_bit then Some (mkPres qn_integer (m64 (two64 - num)) (s_off s2))
        else None
      else None in
    match int_result with
    | Some p => Ok p
    | None =>
      let e_p10 := sub32 (sub32 tmp2 start) (b2n (negb fraconly && s_hasdot s2)) in
      let e_n10 := if fraconly then add32 e_p10 (sub32 (sub32 start (s_dot s2)) 1)
                   else if s_hasdot s2 then sub32 (sub32 (s_off s2) (s_dot s2)) 1 else 0 in
      let old_dot := s_dot s2 in
      let start2 := s_off s2 in
      match tail_scan (s_rest s2) (mkTail (s_off s2) (s_hasdot s2) (s_dot s2) 0 0 false) with
      | None => Ok (nan_res num 0)
      | Some t =>
        let off := t_off t in
        let '(exponent1, negexp1) :=
          if negb fraconly && negb (start2 =? off) then
            let extra :=
              if negb (t_hasdot t) then (if t_expoff t =? 0 then sub32 off start2 else sub32 (t_expoff t) start2)
              else if negb (t_dot t =? old_dot) then sub32 (t_dot t) start2 else 0 in
            if negb (t_negexp t) then (add32 (t_exp t) extra, false)
            else if t_exp t <=? extra then (sub32 extra (t_exp t), false)
            else (sub32 (t_exp t) extra, true)
          else (t_exp t, t_negexp t) in
        let '(exponent, negexp) :=
          if negexp1 then (add32 exponent1 e_n10, true)
          else if e_n10 <=? exponent1 then (sub32 exponent1 e_n10, false)
          else (sub32 e_n10 exponent1, true) in
        let fin (bits : N) := Ok (mkPres qn_real (if is_neg then N.lor bits sign_bit else bits) off) in
        if num =? 0 then fin 0
        else if negb negexp && (309 <? add32 exponent e_p10) then Ok (nan_res num off)
        else if negexp then
          if (e_p10 <? exponent) && (324 <? sub32 exponent e_p10) then Ok (nan_res num off)
          else do b <- power_of_negative_ten num exponent; fin b
        else
          do ob <- power_of_positive_ten num exponent;
          match ob with Some b => fin b | None => Ok (nan_res num off) end
      end
    end.

(* the numeral after the optional sign: [off0] code units consumed, [rest0] left, [endo] = end_offset *)
Definition stn_body (is_neg : bool) (off0 : N) (rest0 : list N) (endo : N) : res pres :=
  let win o := if endo - o <? 19 then endo else o + 19 in
  match rest0 with
  | [] => Ok (nan_res 0 off0)
  | d :: r1 =>
      (* ---- first character ---- *)
      let first : res (pres + (st * N * N * bool)) :=   (* state, max_end_offset, start_offset, fraction_only *)
        if is_nz_digit d then
          Ok (inr (mkSt (off0 + 1) r1 (d - ch_zero) d 0 false false, win off0, off0, false))
        else if (d =? ch_zero) || (d =? ch_dot) then
          (* optional look at the character after a leading zero *)
          let look : option pres + (N * list N * N) :=
            if (d =? ch_zero) && (off0 + 1 <? endo) then
              match r1 with
              | [] => inr (off0, rest0, d)
              | d1 :: r2 =>
                if (d1 =? ch_x) || (d1 =? ch_ux) then
                  let '(o, n) := hex_scan r2 (off0 + 2) 0 in inl (Some (mkPres qn_natural n o))
                else if is_digit d1 then inl (Some (nan_res 0 (off0 + 1)))
                else inr (off0 + 1, r1, d1)
              end
            else inr (off0, rest0, d) in
          match look with
          | inl (Some p) => Ok (inl p)
          | inl None => Ok (inl (nan_res 0 off0))
          | inr (off1, rest1, dg) =>
            if dg =? ch_dot then
              let dot := off1 in
              let off2 := off1 + 1 in
              let rest2 := tl rest1 in
              let '(rest3, off3, dg3) := skipz rest2 off2 dg in
              if (off2 =? off3) && (dot =? off0) && negb (is_digit dg3)
              then Ok (inl (nan_res 0 off3))
              else Ok (inr (mkSt off3 rest3 0 dg3 dot true true, win off3, off3, true))
            else Ok (inr (mkSt off1 rest1 0 dg 0 false false, win off1, 0, false))
          end
        else Ok (inl (nan_res 0 off0)) in
      do f1 <- first;
      match f1 with
      | inl p => Ok p
      | inr (s0, maxend, start, fraconly) =>
        match main_loop (S (N.to_nat endo)) maxend s0 with
        | LFuel => Err EFuel
        | LNaN => Ok (nan_res 0 0)
        | LOk s => stn_after is_neg start fraconly s
        end
      end
  end.

Definition string_to_number (content : list N) : res pres :=
  match content with
  | [] => Ok (nan_res 0 0)
  | c0 :: r0 =>
    let endo := N.of_nat (length content) in
    if c0 =? ch_neg then stn_body true 1 r0 endo
    else if c0 =? ch_pos then stn_body false 1 r0 endo
    else stn_body false 0 content endo
  end.

(* ------------------------------------------------------------------ *)
(* Real to text (Digit::realToString and the formatters)               *)

Record finfo := mkFinfo { fi_bias : N; fi_msize : N; fi_sign : N; fi_expmask : N; fi_mantmask : N;
                          fi_lead : N; fi_maxcut : N; fi_maxindex : N }.
Definition finfo_double : finfo :=
  mkFinfo dg_d_bias dg_d_mantsize dg_d_signmask dg_d_expmask dg_d_mantmask dg_d_leadbit dg_d_maxcut dg_d_big_maxindex.
Definition finfo_float : finfo :=
  mkFinfo dg_f_bias dg_f_mantsize dg_f_signmask dg_f_expmask dg_f_mantmask dg_f_leadbit dg_f_maxcut dg_f_big_maxindex.

Definition getc (site : N) (buf : list N) (i : N) : res N :=
  match nth_error buf (N.to_nat i) with Some c => Ok c | None => Err (EOob site) end.
Fixpoint upd (l : list N) (i : nat) (x : N) : list N :=
  match l, i with
  | [], _ => []
  | _ :: t, O => x :: t
  | h :: t, S j => h :: upd t j x
  end.
Definition setc (site : N) (buf : list N) (i c : N) : res (list N) :=
  if i <? N.of_nat (length buf) then Ok (upd buf (N.to_nat i) c) else Err (EOob site).
Definition blen (buf : list N) : N := N.of_nat (length buf).
Definition zeros (n : N) : res (list N) :=
  if 100000 <? n then Err EHuge else Ok (repeat ch_zero (N.to_nat n)).

(* stream.InsertAt(ch, index) *)
Definition insert_at (buf : list N) (c i : N) : list N :=
  if i <? blen buf then firstn (N.to_nat i) buf ++ c :: skipn (N.to_nat i) buf else buf.
(* stream.Reverse(start) *)
Definition reverse_from (buf : list N) (start : N) : list N :=
  firstn (N.to_nat start) buf ++ rev (skipn (N.to_nat start) buf).
(* stream.StepBack(len) *)
Definition step_back (buf : list N) (n : N) : list N :=
  if n <=? blen buf then firstn (N.to_nat (blen buf - n)) buf else buf.

(* bigIntToString: chunks of MaxPowerOfTen digits, least significant first *)
Fixpoint big_to_string (fuel : nat) (b : N) : res (list N) :=
  match fuel with
  | O => Err EFuel
  | S f =>
    if two64 <=? b then
      let r := b mod dg_max_pow10_value in
      let ds := u64_to_string_rev r in
      do z <- zeros (dg_max_pow10 - blen ds);
      do more <- big_to_string f (b / dg_max_pow10_value);
      Ok (ds ++ z ++ more)
    else if b =? 0 then Ok [] else Ok (u64_to_string_rev b)
  end.

(* bigIntDropDigits (after D49): the quotient and whether any remainder was non-zero *)
Fixpoint drop_digits (fuel : nat) (b drop : N) (inexact : bool) : res (N * bool) :=
  match fuel with
  | O => Err EFuel
  | S f =>
    if dg_max_pow5 <=? drop then
      drop_digits f (b / pow5 dg_max_pow5) (drop - dg_max_pow5) (inexact || negb (b mod pow5 dg_max_pow5 =? 0))
    else if drop =? 0 then Ok (b, inexact) else Ok (b / pow5 drop, inexact || negb (b mod pow5 drop =? 0))
  end.

(* while (number < last and number[0] == '0') { ++number; ++index; } *)
Fixpoint skip_zeros (fuel : nat) (buf : list N) (index : N) : res N :=
  match fuel with
  | O => Err EFuel
  | S f =>
    if index + 1 <? blen buf then
      do c <- getc 1 buf index;
      if c =? ch_zero then skip_zeros f buf (index + 1) else Ok index
    else Ok index
  end.

(* while (number < last and number[0] == '9') { ++index; ++number; } *)
Fixpoint skip_nines (fuel : nat) (buf : list N) (index : N) : res N :=
  match fuel with
  | O => Err EFuel
  | S f =>
    if index + 1 <? blen buf then
      do c <- getc 2 buf index;
      if c =? ch_nine then skip_nines f buf (index + 1) else Ok index
    else Ok index
  end.

(* roundStringNumber (after D33, D49): returns (stream, index, power_increased).
   round_up: something non-zero was dropped below the digits of the stream; the
   digits of the stream below [index] count as well (D49) *)
Definition round_string_number (buf : list N) (started_at index : N) (round_up0 : bool) : res (list N * N * bool) :=
  do c <- getc 3 buf index;
  let lower := firstn (N.to_nat (index - started_at)) (skipn (N.to_nat started_at) buf) in
  let round_up := round_up0 || ((c =? ch_five) && existsb (fun x => negb (x =? ch_zero)) lower) in
  let index1 := add32 index 1 in
  let last := blen buf - 1 in
  do odd <- (if (c =? ch_five) && negb round_up && (index <? last)
             then do c1 <- getc 4 buf index1; Ok (N.land (sub32 c1 ch_zero) 1 =? 1)
             else Ok false);
  let round := (ch_five <? c) || ((c =? ch_five) && (round_up || odd)) in
  if round then
    do pos <- skip_nines (S (length buf)) buf index1;
    if last <? pos then Ok (buf ++ [ch_one], pos, true)
    else
      do c2 <- getc 5 buf pos;
      if c2 =? ch_nine then do b <- setc 6 buf pos ch_one; Ok (b, pos, true)
      else do b <- setc 7 buf pos (c2 + 1); Ok (b, pos, false)
  else Ok (buf, index1, false).

(* while (zeros != 0) { --index; storage[index] = '0'; --zeros; } *)
Fixpoint write_zeros_down (fuel : nat) (buf : list N) (index zeros : N) : res (list N * N) :=
  match fuel with
  | O => Err EFuel
  | S f =>
    if zeros =? 0 then Ok (buf, index)
    else if index =? 0 then Err (EOob 8)
    else do b <- setc 9 buf (index - 1) ch_zero; write_zeros_down f b (index - 1) (zeros - 1)
  end.

Definition insert_power_of_ten (buf : list N) (power : N) (positive : bool) : list N :=
  buf ++ [ch_e; if positive then ch_pos else ch_neg] ++ (if power <? 10 then [ch_zero] else []) ++ u64_to_string power.

(* after D48: without a carry the zeros given back are those of the integer part, index - dot_index *)
Definition restore_zeros (buf : list N) (dot_index index number_length fraction_length : N) (pinc : bool)
  : res (list N * N) :=
  let zeros := if pinc then sub32 number_length fraction_length else sub32 index dot_index in
  if 100000 <? zeros then Err EHuge else write_zeros_down (S (N.to_nat zeros)) buf index zeros.

Definition format_default (buf : list N) (started_at precision calc fraction_length : N)
           (is_positive_exp round_up : bool) : res (list N) :=
  let number_length := sub32 (blen buf) started_at in
  do '(buf1, index1, power1, pinc, fl1) <-
    (if precision <? number_length then
       let index := sub32 (add32 started_at (sub32 number_length precision)) 1 in
       do '(b, idx, pinc) <- round_string_number buf started_at index round_up;
       if is_positive_exp then
         let diff := sub32 (add32 (sub32 number_length fraction_length)
                                  (if calc <=? precision then 0 else sub32 calc (add32 precision 1)))
                           (b2n (negb pinc)) in
         if precision <=? diff then
           do idx2 <- skip_zeros (S (length b)) b idx;
           Ok (b, idx2, diff, pinc, 0)
         else Ok (b, idx, 0, pinc, fraction_length)
       else Ok (b, idx, 0, pinc, fraction_length)
     else Ok (buf, started_at, 0, false, fraction_length));
  do '(buf2, index2, power2) <-
    (if negb (fl1 =? 0) then
       let dot_index := add32 started_at fl1 in
       let fraction_only := number_length <=? fl1 in
       do idx <- skip_zeros (S (length buf1)) buf1 index1;
       if fraction_only then
         let diff := if number_length <? fl1 then sub32 fl1 number_length else 0 in
         if negb pinc then
           if diff <? 4 then do z <- zeros diff; Ok (buf1 ++ z ++ [ch_dot; ch_zero], idx, power1)
           else Ok (buf1, idx, add32 diff 1)
         else if negb (diff =? 0) && (diff <? 5) then
           do z <- zeros (diff - 1); Ok (buf1 ++ z ++ [ch_dot; ch_zero], idx, power1)
         else Ok (buf1, idx, diff)
       else if idx <? dot_index then Ok (insert_at buf1 ch_dot dot_index, idx, power1)
       else do '(b, i) <- restore_zeros buf1 dot_index idx number_length fl1 pinc; Ok (b, i, power1)
     else Ok (buf1, index1, power1));
  let buf3 := step_back (reverse_from buf2 started_at) (sub32 index2 started_at) in
  if negb (power2 =? 0) then
    Ok (insert_power_of_ten (insert_at buf3 ch_dot (add32 started_at 1)) power2 is_positive_exp)
  else Ok buf3.

Definition format_fixed (fixed_t : bool) (buf : list N) (started_at precision calc fraction_length : N)
           (round_up : bool) : res (list N) :=
  let number_length := sub32 (blen buf) started_at in
  let dot_index := add32 started_at fraction_length in
  let diff := if number_length <? fraction_length then sub32 fraction_length number_length else 0 in
  let fraction_only := number_length <=? fraction_length in
  do '(buf1, index1, pinc) <-
    (if negb (fraction_length =? 0) then
       if diff <=? precision then
         do '(b1, i1, pinc) <-
           (if precision <? fraction_length then
              let index := add32 started_at (sub32 fraction_length (add32 precision 1)) in
              do '(b, idx, pinc) <- round_string_number buf started_at index round_up;
              do idx2 <- skip_zeros (S (length b)) b idx;
              Ok (b, idx2, pinc)
            else Ok (buf, started_at, false));
         if fraction_only then
           if (i1 <? blen b1) || pinc then
             if negb (diff =? 0) then
               do '(b2, i2) <-
                 (if pinc then
                    let i := sub32 i1 (b2n (i1 =? blen b1)) in
                    do b <- setc 10 b1 i ch_one; Ok (b, i)
                  else Ok (b1, i1));
               do z <- zeros (sub32 diff (b2n pinc));
               Ok (b2 ++ z ++ [ch_dot; ch_zero], i2, pinc)
             else if negb pinc then Ok (b1 ++ [ch_dot; ch_zero], i1, pinc)
             else Ok (b1, i1, pinc)
           else
             if i1 =? 0 then Err (EOob 11)
             else do b <- setc 12 b1 (i1 - 1) ch_zero; Ok (b, i1 - 1, pinc)
         else if i1 <? dot_index then Ok (insert_at b1 ch_dot dot_index, i1, pinc)
         else do '(b, i) <- restore_zeros b1 dot_index i1 number_length fraction_length pinc; Ok (b, i, pinc)
       else
         let index := add32 started_at (sub32 number_length 1) in
         do b <- setc 13 buf index ch_zero; Ok (b, index, false)
     else Ok (buf, started_at, false));
  let buf2 := step_back (reverse_from buf1 started_at) (sub32 index1 started_at) in
  if fixed_t then
    if precision =? 0 then
      if (started_at <? blen buf2) && (last buf2 0 =? ch_dot) then Ok (step_back buf2 1) else Ok buf2
    else if (dot_index =? index1) || (sub32 (blen buf2) started_at =? 1) || (negb fraction_only && pinc) then
      do z <- zeros precision; Ok (buf2 ++ [ch_dot] ++ z)
    else if fraction_only then
      do z <- zeros (sub32 precision (sub32 (blen buf2) (add32 started_at 2))); Ok (buf2 ++ z)
    else do z <- zeros (sub32 precision (sub32 dot_index index1)); Ok (buf2 ++ z)
  else Ok buf2.

(* count of trailing zero bits (Platform::FindFirstBit), value > 0 *)
Fixpoint ctz_pos (p : positive) : N :=
  match p with xO q => 1 + ctz_pos q | _ => 0 end.
Definition ctz (n : N) : N := match n with N0 => 0 | Npos p => ctz_pos p end.

(* [lost]: a non-zero low word has been dropped (D49) *)
Fixpoint mul_loop (fuel : nat) (maxindex max_index b times shift : N) (lost : bool) : res (N * N * N * bool) :=
  match fuel with
  | O => Err EFuel
  | S f =>
    do b1 <- big_mul maxindex b (pow5 dg_max_pow5);
    let '(b2, shift2, lost2) :=
      if (max_index <=? big_index b1) && (dg_max_shift <=? shift)
      then (N.shiftr b1 dg_max_shift, shift - dg_max_shift, lost || negb (b1 mod 2 ^ dg_max_shift =? 0))
      else (b1, shift, lost) in
    let times2 := times - dg_max_pow5 in
    if dg_max_pow5 <=? times2 then mul_loop f maxindex max_index b2 times2 shift2 lost2
    else Ok (b2, times2, shift2, lost2)
  end.

Definition real_to_string (fi : finfo) (pre : list N) (number precision0 fmt : N) : res (list N) :=
  let is_fixed := (fmt =? rf_semifixed) || (fmt =? rf_fixed) in
  let precision := if (precision0 =? 0) && negb is_fixed then 1 else precision0 in   (* D41 *)
  let bias := N.land number (fi_expmask fi) in
  if negb (bias =? fi_expmask fi) then
    let s1 := if negb (N.land number (fi_sign fi) =? 0) then pre ++ [ch_neg] else pre in
    let mant0 := N.land number (fi_mantmask fi) in
    if negb (mant0 =? 0) || negb (bias =? 0) then
      let mantissa := if negb (bias =? 0) then N.lor mant0 (fi_lead fi) else mant0 * 2 in
      let first_shift := ctz mantissa in
      let be := N.shiftr bias (fi_msize fi) in
      let is_positive_exp := fi_bias fi <=? be in
      let positive_exp := if is_positive_exp then be - fi_bias fi else fi_bias fi - be in
      let first_bit := sub32 (fi_msize fi) first_shift in
      let exp_actual := add32 positive_exp (if bias =? 0 then first_bit else 0) in
      let digits := add32 ((exp_actual * 30103) mod two32 / 100000) 1 in
      let extra_digits := (precision <? digits) && negb is_fixed in
      let big_offset := first_bit <=? positive_exp in
      let no_fraction := is_positive_exp && (big_offset || extra_digits) in
      let mi := fi_maxindex fi in
      do '(b, fraction_length, round_up) <-
        (if no_fraction then
           let drop := if negb extra_digits then 0 else sub32 digits (add32 precision 1) in
           let m_shift := add32 (fi_msize fi) drop in
           do b1 <- (if m_shift <? positive_exp then big_shl mi mantissa (positive_exp - m_shift)
                     else Ok (N.shiftr mantissa (m_shift - positive_exp)));
           (* D49: bits of the mantissa are lost iff the shift passes its lowest set bit *)
           let lost := negb (m_shift <? positive_exp) && (first_shift <? m_shift - positive_exp) in
           if negb (drop =? 0) then do '(b2, inexact) <- drop_digits 60 b1 drop lost; Ok (b2, 0, inexact)
           else Ok (b1, 0, lost)
         else
           let '(fl0, needed0) :=
             if is_positive_exp then (sub32 first_bit positive_exp, if is_fixed then precision else sub32 precision digits)
             else (add32 first_bit positive_exp, add32 digits precision) in
           let needed := add32 needed0 1 in
           let '(shift, fl) := if needed <? fl0 then (fl0 - needed, needed) else (0, fl0) in
           let b0 := N.shiftr mantissa first_shift in
           do '(b1, times, shift1, lost) <-
             (if dg_max_pow5 <=? fl then
                let max_index := if precision <? fi_maxcut fi then precision / dg_max_pow10 + 3 else mi in
                mul_loop 200 mi max_index b0 fl shift false
              else Ok (b0, fl, shift, false));
           do b2 <- (if negb (times =? 0) then big_mul mi b1 (pow5 times) else Ok b1);
           (* D49: round_up = some bit dropped by the shifts was set (FindFirstBit() < shift) *)
           let lost2 := lost || (negb (shift1 =? 0) && negb (b2 =? 0) && (ctz b2 <? shift1)) in
           Ok (N.shiftr b2 shift1, fl, lost2));
      (* started_at = stream.Length(): the formatters address the stream relative to
         it; the digit run is modelled on its own (started_at = 0) and an access
         below started_at is an explicit error, so the text already in the stream
         is untouched by construction whenever the result is Ok *)
      do ds <- big_to_string 80 b;
      do run <-
        (if fmt =? rf_semifixed then format_fixed false ds 0 precision digits fraction_length round_up
         else if fmt =? rf_fixed then format_fixed true ds 0 precision digits fraction_length round_up
         else format_default ds 0 precision digits fraction_length is_positive_exp round_up);
      Ok (s1 ++ run)
    else
      if (fmt =? rf_fixed) && negb (precision =? 0) then do z <- zeros precision; Ok (s1 ++ [ch_zero; ch_dot] ++ z)
      else Ok (s1 ++ [ch_zero])
  else
    if N.land number (fi_mantmask fi) =? 0 then
      Ok ((if negb (N.land number (fi_sign fi) =? 0) then pre ++ [ch_neg] else pre) ++ dg_str_inf)
    else Ok (pre ++ dg_str_nan).

(* ------------------------------------------------------------------ *)
(* C11: format with 17 (double) / 9 (float) significant digits, then parse *)

Definition roundtrip (fi : finfo) (digits number : N) : res (list N * pres) :=
  do txt <- real_to_string fi [] number digits rf_default;
  do p <- string_to_number txt;
  Ok (txt, p).
