(* FinderModel.v -- Finder<Tags::List<Char_T>>::Next (Include/Finder.hpp), the
   scanner Template.hpp::parse is built on.  Index-and-offset model with
   checked reads ([FErr] when the C++ would read content_[i] with i >= length_),
   and the structural specification (first tag word at or after the cursor).
   Definitions only.  The word list comes from gen/Tables_tmpl.v. *)
From Coq Require Import NArith List Bool Arith.
From Qv Require Import gen.Tables_tmpl.
Import ListNotations.

Inductive fres :=
| FOk (mtch : N) (offset : nat)      (* match_ (0 = none) and offset_ after the call *)
| FErr.                              (* out-of-bounds read or fuel exhausted *)

Section Finder.
  Variable first_chars : list N.                 (* unique first characters *)
  Variable single : N.                           (* the single-character word *)
  Variable groups : list (list (N * list N)).    (* per first character: (match id, word without its first character) *)
  Variable content : list N.
  Let len := length content.

  Fixpoint index_of (c : N) (l : list N) (k : nat) : option nat :=
    match l with
    | [] => None
    | x :: r => if N.eqb x c then Some k else index_of c r (S k)
    end.

  (* while ((offset_ < word_end_offset) && (content_[offset_] == word[word_offset])) *)
  Fixpoint match_mid (fuel offset word_end : nat) (word : list N) : option nat :=
    match fuel with
    | O => None
    | S k =>
      if offset <? word_end then
        match nth_error content offset, word with
        | Some c, wc :: wr => if N.eqb c wc then match_mid k (S offset) word_end wr else Some offset
        | Some _, [] => Some offset
        | None, _ => None                                  (* out-of-bounds read *)
        end
      else Some offset
    end.

  Inductive gres := GMatch (id : N) (offset : nat) | GNone | GErr.

  (* the do-while over the words of one group; [offset] is start_offset *)
  Fixpoint try_group (offset : nat) (g : list (N * list N)) : gres :=
    match g with
    | [] => GNone
    | (id, word) :: r =>
      let word_length := length word - 1 in
      let word_end := offset + word_length in
      if word_end <? len then
        match nth_error content word_end with
        | None => GErr
        | Some c =>
          if N.eqb c (last word 0%N) then
            match match_mid (S word_length) offset word_end word with
            | None => GErr
            | Some off' => if off' =? word_end then GMatch id (S word_end) else try_group offset r
            end
          else try_group offset r
        end
      else try_group offset r
    end.

  Fixpoint next_go (fuel offset : nat) : fres :=
    match fuel with
    | O => FErr
    | S k =>
      if offset <? len then
        match nth_error content offset with
        | None => FErr
        | Some c =>
          match index_of c first_chars 0 with
          | Some g =>
            match try_group (S offset) (nth g groups []) with
            | GErr => FErr
            | GMatch id off' => FOk id off'
            | GNone => next_go k (S offset)
            end
          | None => if N.eqb c single then FOk 1 (S offset) else next_go k (S offset)
          end
        end
      else FOk 0 offset
    end.

  Definition next (offset : nat) : fres := next_go (S (len - offset)) offset.
End Finder.

(* ---- specification: scanning the remaining text structurally ---- *)
Fixpoint is_prefix_l (p s : list N) : bool :=
  match p, s with
  | [], _ => true
  | x :: p', y :: s' => N.eqb x y && is_prefix_l p' s'
  | _ :: _, [] => false
  end.

Fixpoint first_word (g : list (N * list N)) (t : list N) : option (N * nat) :=
  match g with
  | [] => None
  | (id, word) :: r => if is_prefix_l word t then Some (id, length word) else first_word r t
  end.

Section Spec.
  Variable first_chars : list N.
  Variable single : N.
  Variable groups : list (list (N * list N)).

  (* [s] is the text from [off] on *)
  Fixpoint next_spec (s : list N) (off : nat) : N * nat :=
    match s with
    | [] => (0%N, off)
    | c :: t =>
      match index_of c first_chars 0 with
      | Some g =>
        match first_word (nth g groups []) t with
        | Some (id, n) => (id, off + 1 + n)
        | None => next_spec t (S off)
        end
      | None => if N.eqb c single then (1%N, S off) else next_spec t (S off)
      end
    end.
End Spec.

(* the four instances *)
Definition next_c8 := next finder_first_chars_c8 finder_single_char_c8 finder_groups_c8.
Definition next_c16 := next finder_first_chars_c16 finder_single_char_c16 finder_groups_c16.
Definition next_c32 := next finder_first_chars_c32 finder_single_char_c32 finder_groups_c32.
Definition next_wc := next finder_first_chars_wc finder_single_char_wc finder_groups_wc.
Definition next_w (w : N) (content : list N) (offset : nat) : fres :=
  match w with 0%N => next_c8 content offset | 1%N => next_c16 content offset | 2%N => next_c32 content offset | _ => next_wc content offset end.
Definition next_spec_c8 := next_spec finder_first_chars_c8 finder_single_char_c8 finder_groups_c8.

(* all matches of a text, as the parser's main loop consumes them (fuel = length + 1) *)
Fixpoint scan_all (fuel : nat) (w : N) (content : list N) (offset : nat) : list (N * nat) :=
  match fuel with
  | O => []
  | S k =>
    match next_w w content offset with
    | FOk 0%N _ => []
    | FOk m off' => (m, off') :: scan_all k w content off'
    | FErr => [(99%N, offset)]
    end
  end.
