(* JsonProofsCst.v -- the string part of C06: every spelling of every character (raw in the
   target encoding, short escape, \uXXXX in either case, surrogate pair) is a string body of the
   reader's grammar and decodes to the character. *)
From Coq Require Import NArith ZArith List Bool Lia.
From Qv Require Import gen.Tables_json JsonModel JsonSpec JsonProofsBase JsonProofsStr JsonSweep JsonProofsDoc.
Import ListNotations.
Local Open Scope N_scope.

Lemma land63_lt : forall a, N.land a 63 < 64.
Proof. intros a. change 63 with (N.ones 6). rewrite N.land_ones. apply N.mod_lt. discriminate. Qed.
Lemma land1023_lt : forall a, N.land a 1023 < 1024.
Proof. intros a. change 1023 with (N.ones 10). rewrite N.land_ones. apply N.mod_lt. discriminate. Qed.
Lemma shiftr_lt : forall a n q, a < 2 ^ n * q -> N.shiftr a n < q.
Proof. intros a n q H. rewrite N.shiftr_div_pow2. apply N.div_lt_upper_bound; [apply N.pow_nonzero; discriminate|assumption]. Qed.

Lemma u8_ok : forall z, z < 64 -> chk_u8 z = true.
Proof. intros z H. apply (range_all_spec _ _ _ sweep_u8); cbn; lia. Qed.
Lemma u16_ok : forall z, z < 1024 -> chk_u16 z = true.
Proof. intros z H. apply (range_all_spec _ _ _ sweep_u16); cbn; lia. Qed.
Lemma u8_parts : forall z, z < 64 ->
  raw_ok (cut 0 (N.lor 128 z)) = true /\ raw_ok (cut 0 (N.lor 192 z)) = true /\
  raw_ok (cut 0 (N.lor 224 z)) = true /\ raw_ok (cut 0 (N.lor 240 z)) = true.
Proof.
  intros z H. pose proof (u8_ok z H) as Hc. unfold chk_u8 in Hc.
  apply andb_true_iff in Hc. destruct Hc as [Hc H4]. apply andb_true_iff in Hc. destruct Hc as [Hc H3].
  apply andb_true_iff in Hc. destruct Hc as [H1 H2]. auto.
Qed.

Lemma raw_ok_plain : forall c, 32 <= c -> c <> 34 -> c <> 92 -> raw_ok c = true.
Proof.
  intros c H1 H2 H3. unfold raw_ok.
  replace (c =? jc_quote) with false by (symmetry; apply N.eqb_neq; exact H2).
  replace (c =? jc_bslash) with false by (symmetry; apply N.eqb_neq; exact H3).
  replace (c =? jc_ctl_n) with false by (symmetry; apply N.eqb_neq; change jc_ctl_n with 10; lia).
  replace (c =? jc_ctl_t) with false by (symmetry; apply N.eqb_neq; change jc_ctl_t with 9; lia).
  replace (c =? jc_ctl_r) with false by (symmetry; apply N.eqb_neq; change jc_ctl_r with 13; lia).
  reflexivity.
Qed.

Lemma to_utf_raw : forall w cp, is_scalar cp = true -> 32 <= cp -> cp <> 34 -> cp <> 92 ->
  forallb raw_ok (to_utf w cp) = true.
Proof.
  intros w cp Hs H32 Hq Hb.
  assert (Hmax : cp <= 1114111).
  { unfold is_scalar in Hs. apply orb_true_iff in Hs. destruct Hs as [Hs|Hs].
    - apply N.ltb_lt in Hs. lia.
    - apply andb_true_iff in Hs. destruct Hs as [_ Hs]. apply N.leb_le in Hs. exact Hs. }
  unfold to_utf. destruct (w =? 0) eqn:E0.
  - destruct (cp <? 128) eqn:E1.
    + apply N.ltb_lt in E1. cbn [forallb]. unfold cut, cu_bits. rewrite E0. rewrite N.mod_small by (cbn; lia).
      rewrite raw_ok_plain by assumption. reflexivity.
    + destruct (u8_parts _ (land63_lt cp)) as (Hc0 & _).
      destruct (u8_parts _ (land63_lt (N.shiftr cp 6))) as (Hc1 & _).
      destruct (u8_parts _ (land63_lt (N.shiftr cp 12))) as (Hc2 & _).
      replace (cut w) with (cut 0) by (unfold cut, cu_bits; rewrite E0; reflexivity).
      rewrite forallb_app. cbn [forallb]. rewrite Hc0. rewrite andb_true_r.
      destruct (cp <? 2048) eqn:E2.
      * apply N.ltb_lt in E2. cbn [forallb].
        assert (Hz : N.shiftr cp 6 < 64) by (apply shiftr_lt; cbn; lia).
        destruct (u8_parts _ Hz) as (_ & Hl & _). rewrite Hl. reflexivity.
      * destruct (cp <? 65536) eqn:E3.
        -- apply N.ltb_lt in E3. cbn [forallb].
           assert (Hz : N.shiftr cp 12 < 64) by (apply shiftr_lt; cbn; lia).
           destruct (u8_parts _ Hz) as (_ & _ & Hl & _). rewrite Hl, Hc1. reflexivity.
        -- cbn [forallb].
           assert (Hz : N.shiftr cp 18 < 64) by (apply shiftr_lt; cbn; lia).
           destruct (u8_parts _ Hz) as (_ & _ & _ & Hl). rewrite Hl, Hc2, Hc1. reflexivity.
  - destruct (w =? 1) eqn:E1.
    + destruct (cp <? 65536) eqn:E2.
      * apply N.ltb_lt in E2. cbn [forallb]. unfold cut, cu_bits. rewrite E0, E1. rewrite N.mod_small by (cbn; lia).
        rewrite raw_ok_plain by assumption. reflexivity.
      * apply N.ltb_ge in E2. cbn [forallb].
        assert (Hu : m32 (cp + 4294967296 - 65536) = cp - 65536).
        { unfold m32. replace (cp + 4294967296 - 65536) with (cp - 65536 + 1 * 4294967296) by lia.
          rewrite N.mod_add by discriminate. apply N.mod_small. lia. }
        rewrite Hu.
        assert (Hz : N.shiftr (cp - 65536) 10 < 1024) by (apply shiftr_lt; cbn; lia).
        pose proof (u16_ok _ Hz) as Hl. pose proof (u16_ok _ (land1023_lt (cp - 65536))) as Hl2.
        unfold chk_u16 in Hl, Hl2. apply andb_true_iff in Hl. apply andb_true_iff in Hl2.
        destruct Hl as [Hl _]. destruct Hl2 as [_ Hl2].
        replace (cut w) with (cut 1) by (unfold cut, cu_bits; rewrite E0, E1; reflexivity).
        rewrite Hl, Hl2. reflexivity.
    + cbn [forallb]. unfold cut, cu_bits. rewrite E0, E1. rewrite N.mod_small by (cbn; lia).
      rewrite raw_ok_plain by assumption. reflexivity.
Qed.

Lemma raw_units_body : forall w u t d, forallb raw_ok u = true -> SBody w t d -> SBody w (u ++ t) (u ++ d).
Proof.
  induction u as [|c u IH]; intros t d Hu Ht; [exact Ht|].
  cbn [forallb] in Hu. apply andb_true_iff in Hu. destruct Hu as [Hc Hu]. cbn [app].
  apply SB_raw; [assumption|]. apply IH; assumption.
Qed.

(* four printed hex digits read back as the number *)
Lemma hex4_print_eq : forall v up,
  hex4_print v up = [hexchar (nib v 0) (N.testbit up 0); hexchar (nib v 1) (N.testbit up 1);
                     hexchar (nib v 2) (N.testbit up 2); hexchar (nib v 3) (N.testbit up 3)].
Proof. reflexivity. Qed.

Lemma hexval_hexchar : forall x b, x < 16 -> hexval (hexchar x b) = Some x.
Proof.
  intros x b H. assert (Hc : chk_digit x = true) by (apply (range_all_spec _ _ _ sweep_digit); cbn; lia).
  unfold chk_digit in Hc.
  destruct (hexval (hexchar x true)) as [a|] eqn:Ea; [|discriminate].
  destruct (hexval (hexchar x false)) as [c|] eqn:Ec; [|discriminate].
  apply andb_true_iff in Hc. destruct Hc as [H1 H2]. apply N.eqb_eq in H1. apply N.eqb_eq in H2.
  destruct b; congruence.
Qed.

Lemma hex4v_of_vals : forall a b c d x0 x1 x2 x3,
  hexval a = Some x0 -> hexval b = Some x1 -> hexval c = Some x2 -> hexval d = Some x3 ->
  hex4v a b c d = hexacc x0 x1 x2 x3.
Proof. intros. unfold hex4v. cbn [hexrd]. rewrite H, H0, H1, H2. reflexivity. Qed.

Lemma hex_facts : forall v, v < 65536 -> chk_hex v = true.
Proof. intros v H. apply (range_all_spec _ _ _ sweep_hex); cbn; lia. Qed.

Lemma hex4v_print : forall v up, v < 65536 ->
  hex4v (hexchar (nib v 0) (N.testbit up 0)) (hexchar (nib v 1) (N.testbit up 1))
        (hexchar (nib v 2) (N.testbit up 2)) (hexchar (nib v 3) (N.testbit up 3)) = v.
Proof.
  intros v up H. pose proof (hex_facts v H) as Hc. unfold chk_hex in Hc.
  repeat (apply andb_true_iff in Hc; destruct Hc as [Hc ?]).
  apply N.ltb_lt in H1, H2, H3, H4. apply N.eqb_eq in Hc.
  rewrite (hex4v_of_vals _ _ _ _ (nib v 0) (nib v 1) (nib v 2) (nib v 3)); auto using hexval_hexchar.
Qed.

Lemma hex4ok_print : forall v up, v < 65536 ->
  hex4ok (hexchar (nib v 0) (N.testbit up 0)) (hexchar (nib v 1) (N.testbit up 1))
         (hexchar (nib v 2) (N.testbit up 2)) (hexchar (nib v 3) (N.testbit up 3)) = true.
Proof.
  intros v up H. pose proof (hex_facts v H) as Hc. unfold chk_hex in Hc.
  repeat (apply andb_true_iff in Hc; destruct Hc as [Hc ?]).
  apply N.ltb_lt in H1, H2, H3, H4. unfold hex4ok, is_hexd.
  rewrite !hexval_hexchar by assumption. reflexivity.
Qed.

Lemma is_high_range : forall v, v < 65536 -> is_high v = (55296 <=? v) && (v <=? 56319).
Proof.
  intros v H. pose proof (hex_facts v H) as Hc. unfold chk_hex in Hc.
  apply andb_true_iff in Hc. destruct Hc as [_ Hc]. apply Bool.eqb_prop in Hc. exact Hc.
Qed.

Lemma short_esc : forall l, short_letter l = true -> esc_simple l = Some (short_value l).
Proof.
  intros l H. unfold short_letter in H.
  repeat (apply orb_true_iff in H; destruct H as [H|H]); apply N.eqb_eq in H; subst l; reflexivity.
Qed.

Lemma cchar_body : forall w c t d, cchar_wf w c = true -> SBody w t d ->
  SBody w (cchar_print w c ++ t) (cchar_denote w c ++ d).
Proof.
  intros w c t d Hw Ht. destruct c as [cp|l|cp up|cp up]; cbn [cchar_wf cchar_print cchar_denote] in *.
  - repeat (apply andb_true_iff in Hw; destruct Hw as [Hw ?]).
    apply raw_units_body; [|assumption].
    apply to_utf_raw; auto.
    + apply N.leb_le. assumption.
    + apply negb_true_iff in H0. apply N.eqb_neq in H0. exact H0.
    + apply negb_true_iff in H. apply N.eqb_neq in H. exact H.
  - cbn [app]. apply SB_esc; [apply short_esc; assumption|assumption].
  - apply andb_true_iff in Hw. destruct Hw as [Hs Hlt]. apply N.ltb_lt in Hlt.
    rewrite hex4_print_eq. cbn [app].
    rewrite <- (hex4v_print cp up Hlt) at 5.
    apply SB_u; [reflexivity|reflexivity|apply hex4ok_print; assumption| |assumption].
    rewrite hex4v_print by assumption. rewrite is_high_range by assumption.
    unfold is_scalar in Hs. apply orb_true_iff in Hs. destruct Hs as [Hs|Hs].
    + apply N.ltb_lt in Hs. replace (55296 <=? cp) with false by (symmetry; apply N.leb_gt; lia). reflexivity.
    + apply andb_true_iff in Hs. destruct Hs as [Hs _]. apply N.ltb_lt in Hs.
      replace (cp <=? 56319) with false by (symmetry; apply N.leb_gt; lia). apply andb_false_r.
  - apply andb_true_iff in Hw. destruct Hw as [Hlo Hhi]. apply N.leb_le in Hlo. apply N.leb_le in Hhi.
    set (u := cp - 65536).
    assert (Ha : N.shiftr u 10 < 1024) by (apply shiftr_lt; unfold u; cbn; lia).
    pose proof (land1023_lt u) as Hb.
    assert (Hhi1 : chk_hi (N.shiftr u 10) = true)
      by (apply (range_all_spec _ _ _ sweep_hi); [apply N.le_0_l|change (0 + N.of_nat (N.to_nat 1024)) with 1024; exact Ha]).
    assert (Hlo1 : chk_lo (N.land u 1023) = true)
      by (apply (range_all_spec _ _ _ sweep_lo); [apply N.le_0_l|change (0 + N.of_nat (N.to_nat 1024)) with 1024; exact Hb]).
    unfold chk_hi in Hhi1. unfold chk_lo in Hlo1.
    repeat (apply andb_true_iff in Hhi1; destruct Hhi1 as [Hhi1 ?]).
    apply andb_true_iff in Hlo1. destruct Hlo1 as [Hlo1 Hlo2].
    apply N.eqb_eq in Hhi1. apply N.eqb_eq in Hlo1. apply N.ltb_lt in H. apply N.ltb_lt in Hlo2.
    rewrite !hex4_print_eq. cbn [app].
    set (hi := 55296 + N.shiftr u 10) in *. set (lo := 56320 + N.land u 1023) in *.
    assert (Hcode : pair_code hi lo = cp).
    { unfold pair_code. rewrite Hhi1, Hlo1. rewrite N.shiftl_mul_pow2.
      assert (Hdm : u = 2 ^ 10 * N.shiftr u 10 + N.land u 1023).
      { rewrite N.shiftr_div_pow2. change 1023 with (N.ones 10). rewrite N.land_ones. apply N.div_mod. discriminate. }
      change (2 ^ 10) with 1024 in *.
      unfold m32. rewrite (N.mod_small (N.shiftr u 10 * 1024)) by lia.
      rewrite (N.mod_small (N.shiftr u 10 * 1024 + N.land u 1023)) by lia.
      rewrite N.mod_small by lia. unfold u in *. lia. }
    pose proof (SB_pair w jc_u
      (hexchar (nib hi 0) (N.testbit up 0)) (hexchar (nib hi 1) (N.testbit up 1))
      (hexchar (nib hi 2) (N.testbit up 2)) (hexchar (nib hi 3) (N.testbit up 3))
      jc_u
      (hexchar (nib lo 0) (N.testbit (N.shiftr up 4) 0)) (hexchar (nib lo 1) (N.testbit (N.shiftr up 4) 1))
      (hexchar (nib lo 2) (N.testbit (N.shiftr up 4) 2)) (hexchar (nib lo 3) (N.testbit (N.shiftr up 4) 3))
      t d eq_refl eq_refl (hex4ok_print hi up H)) as G.
    rewrite (hex4v_print hi up H) in G. rewrite (hex4v_print lo (N.shiftr up 4) Hlo2) in G.
    rewrite Hcode in G. apply G; try assumption; try reflexivity. apply hex4ok_print; assumption.
Qed.

Theorem str_ok : forall w, str_ok_stmt w.
Proof.
  intros w s. induction s as [|c s IH]; intros Hw; cbn [flat_map cstr_denote]; [constructor|].
  cbn [forallb] in Hw. apply andb_true_iff in Hw. destruct Hw as [Hc Hs].
  unfold cstr_denote in *. cbn [flat_map]. apply cchar_body; auto.
Qed.
