(* Extract_htab.v -- extraction of the C13 model, specification and oracle to OCaml
   (ExtrOcamlBasic only; nat, positive, N, Z stay the extracted inductive types). *)
From Coq Require Import Extraction ExtrOcamlBasic NArith ZArith.
From Qv Require Import HtabModel.
Extraction Language OCaml.
Set Extraction Optimize.
Extraction "model_htab.ml"
  N.add N.mul N.sub N.div_eucl N.compare Z.add Z.mul Z.sub Z.div_eucl Z.compare Z.of_N Z.to_N Z.opp
  HtabModel.c13_hash HtabModel.c13_hash_ok HtabModel.c13_model_trace HtabModel.c13_oracle
  HtabModel.empty_ht HtabModel.c13_step HtabModel.c13_sp_step.
