(* DigitProofsAccPos.v -- C09 accuracy, positive power of ten (Digit::powerOfPositiveTen):
   for every mantissa 0 < m < 2^64 and decimal exponent e the double r returned by the model
   satisfies  | m * 10^e - value(r) | < ulp(r)   (strict one ulp; exact when m * 5^e < 2^53),
   and a numeral with m * 10^e >= 2^1024 is rejected.
   Everything is exact integer arithmetic on N: with  M = 2^52 + (bits mod 2^52)  and
   x = bits / 2^52  the double is  M * 2^(x - 1075);  inequalities are multiplied by 2^1075.
   What the code does: the product m * 5^e is exact while it fits; whole low 64-bit words are
   dropped only when the value is >= 2^192 (relative loss < 2^-127 per drop); the final step
   rounds the 54-bit prefix half UP and ignores the bits below it, so the result is within one
   ulp but NOT always the correctly rounded double (ties, sticky bits). *)
From Coq Require Import NArith ZArith List Bool Lia ZifyBool ZifyN ZifyNat.
From Qv Require Import gen.Tables_digit DigitModel DigitModelSpec DigitProofsParse.
Import ListNotations.
Local Open Scope N_scope.

(* ---- decoding a finite normal double ---- *)
Definition dbl_M (bits : N) : N := 2 ^ 52 + bits mod 2 ^ 52.
Definition dbl_x (bits : N) : N := bits / 2 ^ 52.

(* agreement with the specification's decoder (DigitModelSpec.classify) *)
Lemma classify_normal : forall bits, 1 <= dbl_x bits <= 2046 ->
  classify fmt_double bits =
  (if 1075 <=? dbl_x bits then FFin false (dbl_M bits * 2 ^ (dbl_x bits - 1075)) 1
   else FFin false (dbl_M bits) (2 ^ (1075 - dbl_x bits))).
Proof.
  intros bits Hx. unfold classify, dbl_x, dbl_M in *. cbn [ff_msize ff_ebits ff_bias fmt_double].
  set (x := bits / 2 ^ 52) in *.
  assert (Hm : x mod 2 ^ 11 = x) by (apply N.mod_small; change (2 ^ 11) with 2048; lia). rewrite Hm.
  assert (Hs : (bits / 2 ^ (52 + 11)) mod 2 = 0).
  { rewrite N.pow_add_r, <- N.div_div by (apply N.pow_nonzero; lia). fold x.
    rewrite N.div_small by (change (2 ^ 11) with 2048; lia). reflexivity. }
  rewrite Hs. cbn [N.eqb negb].
  assert (E1 : (x =? 2 ^ 11 - 1) = false) by (apply N.eqb_neq; change (2 ^ 11 - 1) with 2047; lia). rewrite E1.
  assert (E2 : (x =? 0) = false) by (apply N.eqb_neq; lia). rewrite E2. cbn [andb].
  destruct (1075 <=? x) eqn:E.
  - apply N.leb_le in E.
    assert (Ez : (0 <=? Z.of_N x - Z.of_N 1023 - Z.of_N 52)%Z = true) by (apply Z.leb_le; lia). rewrite Ez.
    replace (Z.to_N (Z.of_N x - Z.of_N 1023 - Z.of_N 52)) with (x - 1075) by lia.
    rewrite N.add_comm. reflexivity.
  - apply N.leb_gt in E.
    assert (Ez : (0 <=? Z.of_N x - Z.of_N 1023 - Z.of_N 52)%Z = false) by (apply Z.leb_gt; lia). rewrite Ez.
    replace (Z.to_N (- (Z.of_N x - Z.of_N 1023 - Z.of_N 52))) with (1075 - x) by lia.
    rewrite N.add_comm. reflexivity.
Qed.

(* ---- packing ---- *)
Lemma land_low_shiftl : forall a x k, a < 2 ^ k -> N.land a (N.shiftl x k) = 0.
Proof.
  intros a x k H. apply N.bits_inj_0. intros i. rewrite N.land_spec.
  destruct (N.le_gt_cases k i) as [Hi|Hi].
  - rewrite <- (N.mod_small a (2 ^ k)) by exact H. rewrite N.mod_pow2_bits_high by exact Hi. reflexivity.
  - rewrite N.shiftl_spec_low by exact Hi. apply andb_false_r.
Qed.

Lemma lor_low_shiftl : forall a x k, a < 2 ^ k -> N.lor a (N.shiftl x k) = a + x * 2 ^ k.
Proof.
  intros a x k H. pose proof (land_low_shiftl a x k H) as Hl.
  rewrite <- N.shiftl_mul_pow2. rewrite (N.add_nocarry_lxor _ _ Hl). symmetry. apply N.lxor_lor. exact Hl.
Qed.

Lemma pack_fields : forall num x, N.lor (N.land num mant_mask) (N.shiftl x 52) = num mod 2 ^ 52 + x * 2 ^ 52.
Proof.
  intros num x. unfold mant_mask. change dg_d_mantmask with (N.ones 52). rewrite N.land_ones.
  apply lor_low_shiftl. apply N.mod_lt. apply N.pow_nonzero. lia.
Qed.

Lemma unpack : forall a x, a < 2 ^ 52 -> dbl_M (a + x * 2 ^ 52) = 2 ^ 52 + a /\ dbl_x (a + x * 2 ^ 52) = x.
Proof.
  intros a x H. unfold dbl_M, dbl_x. split.
  - rewrite N.mod_add by (apply N.pow_nonzero; lia). rewrite N.mod_small by exact H. reflexivity.
  - rewrite N.div_add by (apply N.pow_nonzero; lia). rewrite N.div_small by exact H. reflexivity.
Qed.

(* ---- the table ---- *)
Lemma pow5_spec : forall i, i <= 27 -> pow5 i = 5 ^ i.
Proof.
  intros i Hi.
  assert (Hc : forallb (fun i => pow5 i =? 5 ^ i) (map N.of_nat (seq 0 28)) = true) by (vm_compute; reflexivity).
  rewrite forallb_forall in Hc.
  assert (Hin : In i (map N.of_nat (seq 0 28))).
  { rewrite <- (N2Nat.id i). apply in_map. apply in_seq. lia. }
  specialize (Hc i Hin). apply N.eqb_eq in Hc. exact Hc.
Qed.

(* ---- the loop invariant ---- *)
(* b: the big integer; c: number of 64-bit words dropped so far; P: the exact product *)
Definition Inv (b c P : N) : Prop :=
  b * 2 ^ (64 * c) <= P /\ P * 2 ^ 127 <= b * (2 ^ 127 + c) * 2 ^ (64 * c) /\ (0 < c -> 2 ^ 128 <= b).

Lemma Inv_mul : forall b c P K, 0 < K -> Inv b c P -> Inv (b * K) c (P * K).
Proof.
  intros b c P K HK [H1 [H2 H3]]. unfold Inv. set (A := 2 ^ (64 * c)) in *. set (D := 2 ^ 127) in *.
  repeat split.
  - replace (b * K * A) with (b * A * K) by lia. apply N.mul_le_mono_r. exact H1.
  - replace (P * K * D) with (P * D * K) by lia.
    replace (b * K * (D + c) * A) with (b * (D + c) * A * K) by lia. apply N.mul_le_mono_r. exact H2.
  - intros Hc. specialize (H3 Hc). nia.
Qed.

Lemma Inv_drop : forall b1 c P, c <= 100 -> 2 ^ 192 <= b1 -> Inv b1 c P -> Inv (b1 / 2 ^ 64) (c + 1) P.
Proof.
  intros b1 c P Hc Hb [H1 [H2 _]]. unfold Inv.
  set (q := b1 / 2 ^ 64). set (r := b1 mod 2 ^ 64).
  assert (Hdm : b1 = 2 ^ 64 * q + r) by (apply N.div_mod; apply N.pow_nonzero; lia).
  assert (Hr : r < 2 ^ 64) by (apply N.mod_lt; apply N.pow_nonzero; lia).
  assert (Hq : 2 ^ 128 <= q).
  { unfold q. apply N.div_le_lower_bound; [apply N.pow_nonzero; lia|]. rewrite <- N.pow_add_r. exact Hb. }
  replace (64 * (c + 1)) with (64 + 64 * c) by lia. rewrite N.pow_add_r.
  set (A := 2 ^ (64 * c)) in *. set (B := 2 ^ 64) in *. set (D := 2 ^ 127) in *.
  assert (HD : 2 ^ 128 = 2 * D) by reflexivity. rewrite HD in Hq.
  assert (HA : 0 < A) by (apply N.neq_0_lt_0, N.pow_nonzero; lia).
  repeat split.
  - assert (q * B <= b1) by lia. 
    replace (q * (B * A)) with (q * B * A) by lia. eapply N.le_trans; [apply N.mul_le_mono_r; eassumption|exact H1].
  - eapply N.le_trans; [exact H2|].
    (* b1 * (D + c) <= q * (D + c + 1) * B *)
    replace (q * (D + (c + 1)) * (B * A)) with (q * (D + c + 1) * B * A) by lia.
    apply N.mul_le_mono_r.
    assert (b1 <= (q + 1) * B) by lia.
    assert ((q + 1) * (D + c) <= q * (D + c + 1)) by nia.
    nia.
  - intros _. rewrite HD. exact Hq.
Qed.

Lemma big_mul_ok : forall mi v k r, big_mul mi v k = Ok r -> r = v * k.
Proof. intros mi v k r H. unfold big_mul in H. destruct (big_fits mi (v * k)); inversion H; reflexivity. Qed.

Lemma big_index_gt2 : forall b, (2 <? big_index b) = true -> 2 ^ 192 <= b.
Proof.
  intros b H. apply N.ltb_lt in H. unfold big_index in H. change dg_max_shift with 64 in H.
  destruct (b =? 0) eqn:E; [lia|]. apply N.eqb_neq in E.
  assert (Hl : 192 <= N.log2 b).
  { destruct (N.le_gt_cases 192 (N.log2 b)) as [H'|H']; [exact H'|exfalso].
    assert (N.log2 b / 64 <= 2) by (apply N.lt_succ_r; apply N.div_lt_upper_bound; lia). lia. }
  eapply N.le_trans; [apply N.pow_le_mono_r; [lia|exact Hl]|]. apply N.log2_spec. lia.
Qed.

Lemma ppt_loop_inv : forall fuel b e sh c P b' e' sh',
  Inv b c P -> c + N.of_nat fuel <= 100 -> sh + 64 * N.of_nat fuel < 2 ^ 32 ->
  ppt_loop fuel b e sh = Ok (b', e', sh') ->
  exists c' j, e = e' + 27 * j /\ e' < 27 /\ c <= c' /\ c' <= c + N.of_nat fuel
            /\ sh' = sh + 64 * (c' - c) /\ Inv b' c' (P * 5 ^ (27 * j)).
Proof.
  induction fuel as [|f IH]; intros b e sh c P b' e' sh' HI Hc Hsh H; [discriminate|].
  cbn [ppt_loop] in H. change dg_max_pow5 with 27 in H. change dg_max_shift with 64 in H.
  rewrite Nat2N.inj_succ in Hc, Hsh.
  destruct (27 <=? e) eqn:Ee.
  - apply N.leb_le in Ee.
    destruct (big_mul dg_parse_big_maxindex b (pow5 27)) as [b1|] eqn:Em; [|discriminate]. cbn [bind] in H.
    apply big_mul_ok in Em. rewrite pow5_spec in Em by lia.
    assert (HI1 : Inv b1 c (P * 5 ^ 27)) by (subst b1; apply Inv_mul; [vm_compute; reflexivity|exact HI]).
    destruct (2 <? big_index b1) eqn:Ei.
    + apply big_index_gt2 in Ei.
      assert (Ha : add32 sh 64 = sh + 64) by (unfold add32, two32; apply N.mod_small; change (2 ^ 32) with 4294967296 in Hsh; lia).
      rewrite Ha in H. rewrite N.shiftr_div_pow2 in H.
      apply (IH _ _ _ (c + 1) (P * 5 ^ 27)) in H; [|apply Inv_drop; [lia|exact Ei|exact HI1]|lia|lia].
      destruct H as [c' [j [H1 [H2 [H3 [H4 [H5 H6]]]]]]].
      exists c', (j + 1). do 5 (split; [lia|]).
      replace (27 * (j + 1)) with (27 + 27 * j) by lia. rewrite N.pow_add_r, N.mul_assoc. exact H6.
    + apply (IH _ _ _ c (P * 5 ^ 27)) in H; [|exact HI1|lia|lia].
      destruct H as [c' [j [H1 [H2 [H3 [H4 [H5 H6]]]]]]].
      exists c', (j + 1). do 5 (split; [lia|]).
      replace (27 * (j + 1)) with (27 + 27 * j) by lia. rewrite N.pow_add_r, N.mul_assoc. exact H6.
  - apply N.leb_gt in Ee. inversion H; subst. exists c, 0. do 5 (split; [lia|]).
    change (27 * 0) with 0. rewrite N.pow_0_r, N.mul_1_r. exact HI.
Qed.

(* ---- the final rounding step ---- *)
Ltac Zify.zify_post_hook ::= Z.div_mod_to_equations.

Lemma pow2_pos : forall k, 0 < 2 ^ k.
Proof. intros k. apply N.neq_0_lt_0, N.pow_nonzero. lia. Qed.

Lemma round54 : forall b2 bit, b2 <> 0 -> bit = N.log2 b2 -> 53 <= bit ->
  let u := 2 ^ (bit - 53) in
  let x54 := b2 / u in
  let n1 := round_half x54 in
  2 ^ 53 <= x54 < 2 ^ 54 /\ 2 ^ 52 <= n1 <= 2 ^ 53 /\ n1 * 2 * u <= b2 + u /\ b2 < n1 * 2 * u + u.
Proof.
  intros b2 bit Hb Hbit H53 u x54 n1.
  assert (Hl : 2 ^ bit <= b2 < 2 ^ N.succ bit) by (subst bit; apply N.log2_spec; lia).
  assert (Hu : 0 < u) by apply pow2_pos.
  assert (E1 : 2 ^ bit = 2 ^ 53 * u) by (unfold u; rewrite <- N.pow_add_r; f_equal; lia).
  assert (E2 : 2 ^ N.succ bit = 2 ^ 54 * u) by (unfold u; rewrite <- N.pow_add_r; f_equal; lia).
  rewrite E1, E2 in Hl.
  assert (Hdm : b2 = u * x54 + b2 mod u) by (apply N.div_mod; lia).
  assert (Hr : b2 mod u < u) by (apply N.mod_lt; lia).
  set (r := b2 mod u) in *.
  assert (Hx : 2 ^ 53 <= x54 < 2 ^ 54).
  { split.
    - unfold x54. apply N.div_le_lower_bound; [lia|]. lia.
    - unfold x54. apply N.div_lt_upper_bound; [lia|]. lia. }
  split; [exact Hx|].
  unfold n1, round_half. change 1 with (N.ones 1). rewrite N.land_ones. change (2 ^ 1) with 2. change (N.ones 1) with 1.
  change (2 ^ 53) with 9007199254740992 in *. change (2 ^ 54) with 18014398509481984 in *. change (2 ^ 52) with 4503599627370496.
  assert (Hh : x54 = 2 * (x54 / 2) + x54 mod 2) by (apply N.div_mod; lia).
  assert (Hp : x54 mod 2 < 2) by (apply N.mod_lt; lia).
  set (h := x54 / 2) in *. set (p := x54 mod 2) in *.
  assert (Hn : (x54 + p) / 2 = h + p).
  { rewrite Hh. replace (2 * h + p + p) with ((h + p) * 2) by lia. apply N.div_mul. lia. }
  rewrite Hn.
  assert (Hp01 : p = 0 \/ p = 1) by lia.
  destruct Hp01 as [Hp0|Hp1].
  - rewrite Hp0 in *. rewrite N.add_0_r in *. repeat split; nia.
  - rewrite Hp1 in *. repeat split; nia.
Qed.

Lemma m64_id : forall x, x < 2 ^ 64 -> m64 x = x.
Proof. intros x H. unfold m64, two64. change 18446744073709551616 with (2 ^ 64). apply N.mod_small. exact H. Qed.

(* ---- the theorem ---- *)
(* the part of powerOfPositiveTen after the multiplications *)
Definition ppt_final (b2 shifted : N) : res (option N) :=
  let bit := N.log2 b2 in
  let '(num, shifted2) :=
    if bit <=? 52 then (m64 (N.shiftl (m64 b2) (52 - bit)), shifted)
    else let n1 := round_half (m64 (N.shiftr b2 (bit - 53))) in
         (n1, add32 shifted (b2n (9007199254740991 <? n1))) in
  let exp := dg_d_bias + bit + shifted2 in
  if 2046 <? exp then Ok None
  else Ok (Some (N.lor (N.land num mant_mask) (N.shiftl exp 52))).

Definition acc_goal (P e bits : N) : Prop :=
  1023 <= dbl_x bits <= 2046
  /\ dbl_M bits * 2 ^ dbl_x bits < P * 2 ^ (e + 1075) + 2 ^ dbl_x bits
  /\ P * 2 ^ (e + 1075) < dbl_M bits * 2 ^ dbl_x bits + 2 ^ dbl_x bits.

Lemma ppt_final_exact : forall b2 c P e sh bits,
  e < 2 ^ 20 -> c <= 40 -> sh = e + 64 * c -> 0 < P -> b2 <> 0 ->
  b2 * 2 ^ (64 * c) <= P -> P * 2 ^ 127 <= b2 * (2 ^ 127 + c) * 2 ^ (64 * c) -> (0 < c -> 2 ^ 128 <= b2) ->
  N.log2 b2 <= 52 ->
  ppt_final b2 sh = Ok (Some bits) -> acc_goal P e bits.
Proof.
  intros b2 c P e sh bits He Hc Hsh HP Hb20 I1 I2 I3 Ebit H. unfold ppt_final in H. unfold acc_goal.
  set (A := 2 ^ (64 * c)) in *. assert (HA : 0 < A) by apply pow2_pos.
  set (bit := N.log2 b2) in *.
  assert (Hl : 2 ^ bit <= b2 < 2 ^ N.succ bit) by (apply N.log2_spec; lia).
  change dg_d_bias with 1023 in H.
  assert (Eb : (bit <=? 52) = true) by (apply N.leb_le; exact Ebit). rewrite Eb in H.
    assert (Hlt : b2 < 2 ^ 53).
    { eapply N.lt_le_trans; [apply Hl|]. apply N.pow_le_mono_r; lia. }
    assert (Hc0 : c = 0).
    { destruct (N.eq_dec c 0) as [E|E]; [exact E|]. assert (2 ^ 128 <= b2) by (apply I3; lia).
      change (2 ^ 128) with 340282366920938463463374607431768211456 in *. change (2 ^ 53) with 9007199254740992 in *. lia. }
    subst c. unfold A in *. change (64 * 0) with 0 in *. rewrite N.pow_0_r in *. rewrite ?N.mul_0_r, ?N.add_0_r in Hsh. subst sh.
    assert (HPb : P = b2).
    { assert (0 < 2 ^ 127) by apply pow2_pos. rewrite N.add_0_r in I2. nia. }
    rewrite (m64_id b2) in H by (eapply N.lt_trans; [exact Hlt|vm_compute; reflexivity]).
    rewrite N.shiftl_mul_pow2 in H.
    set (num := b2 * 2 ^ (52 - bit)) in *.
    assert (Hnum : 2 ^ 52 <= num < 2 ^ 53).
    { unfold num. split.
      - replace 52 with (bit + (52 - bit)) at 1 by lia. rewrite N.pow_add_r. apply N.mul_le_mono_r. apply Hl.
      - replace 53 with (N.succ bit + (52 - bit)) by lia. rewrite N.pow_add_r. apply N.mul_lt_mono_pos_r; [apply pow2_pos|apply Hl]. }
    rewrite (m64_id num) in H by (eapply N.lt_trans; [apply Hnum|vm_compute; reflexivity]).
    set (ex := 1023 + bit + e) in *.
    destruct (2046 <? ex) eqn:Eov; [discriminate|]. apply N.ltb_ge in Eov.
    injection H as Hbits. rewrite pack_fields in Hbits. subst bits. unfold ex in *.
    assert (Hmod : num mod 2 ^ 52 = num - 2 ^ 52).
    { change (2 ^ 52) with 4503599627370496 in *. change (2 ^ 53) with 9007199254740992 in *.
      replace num with (num - 4503599627370496 + 1 * 4503599627370496) at 1 by lia.
      rewrite N.mod_add by lia. apply N.mod_small. lia. }
    rewrite Hmod.
    destruct (unpack (num - 2 ^ 52) (1023 + bit + e)) as [UM Ux]; [change (2 ^ 52) with 4503599627370496 in *; change (2 ^ 53) with 9007199254740992 in *; lia|].
    rewrite UM, Ux. replace (2 ^ 52 + (num - 2 ^ 52)) with num by (change (2 ^ 52) with 4503599627370496 in *; lia).
    assert (Heq : num * 2 ^ (1023 + bit + e) = P * 2 ^ (e + 1075)).
    { rewrite HPb. unfold num. rewrite <- N.mul_assoc, <- N.pow_add_r. f_equal. f_equal. lia. }
    rewrite Heq. assert (0 < 2 ^ (1023 + bit + e)) by apply pow2_pos. lia.
Qed.

Lemma ppt_final_exact_eq : forall b2 c P e sh bits,
  e < 2 ^ 20 -> c <= 40 -> sh = e + 64 * c -> 0 < P -> b2 <> 0 ->
  b2 * 2 ^ (64 * c) <= P -> P * 2 ^ 127 <= b2 * (2 ^ 127 + c) * 2 ^ (64 * c) -> (0 < c -> 2 ^ 128 <= b2) ->
  N.log2 b2 <= 52 ->
  ppt_final b2 sh = Ok (Some bits) ->
  1023 <= dbl_x bits <= 2046 /\ dbl_M bits * 2 ^ dbl_x bits = P * 2 ^ (e + 1075).
Proof.
  intros b2 c P e sh bits He Hc Hsh HP Hb20 I1 I2 I3 Ebit H. unfold ppt_final in H.
  set (A := 2 ^ (64 * c)) in *. assert (HA : 0 < A) by apply pow2_pos.
  set (bit := N.log2 b2) in *.
  assert (Hl : 2 ^ bit <= b2 < 2 ^ N.succ bit) by (apply N.log2_spec; lia).
  change dg_d_bias with 1023 in H.
  assert (Eb : (bit <=? 52) = true) by (apply N.leb_le; exact Ebit). rewrite Eb in H.
    assert (Hlt : b2 < 2 ^ 53).
    { eapply N.lt_le_trans; [apply Hl|]. apply N.pow_le_mono_r; lia. }
    assert (Hc0 : c = 0).
    { destruct (N.eq_dec c 0) as [E|E]; [exact E|]. assert (2 ^ 128 <= b2) by (apply I3; lia).
      change (2 ^ 128) with 340282366920938463463374607431768211456 in *. change (2 ^ 53) with 9007199254740992 in *. lia. }
    subst c. unfold A in *. change (64 * 0) with 0 in *. rewrite N.pow_0_r in *. rewrite ?N.mul_0_r, ?N.add_0_r in Hsh. subst sh.
    assert (HPb : P = b2).
    { assert (0 < 2 ^ 127) by apply pow2_pos. rewrite N.add_0_r in I2. nia. }
    rewrite (m64_id b2) in H by (eapply N.lt_trans; [exact Hlt|vm_compute; reflexivity]).
    rewrite N.shiftl_mul_pow2 in H.
    set (num := b2 * 2 ^ (52 - bit)) in *.
    assert (Hnum : 2 ^ 52 <= num < 2 ^ 53).
    { unfold num. split.
      - replace 52 with (bit + (52 - bit)) at 1 by lia. rewrite N.pow_add_r. apply N.mul_le_mono_r. apply Hl.
      - replace 53 with (N.succ bit + (52 - bit)) by lia. rewrite N.pow_add_r. apply N.mul_lt_mono_pos_r; [apply pow2_pos|apply Hl]. }
    rewrite (m64_id num) in H by (eapply N.lt_trans; [apply Hnum|vm_compute; reflexivity]).
    set (ex := 1023 + bit + e) in *.
    destruct (2046 <? ex) eqn:Eov; [discriminate|]. apply N.ltb_ge in Eov.
    injection H as Hbits. rewrite pack_fields in Hbits. subst bits. unfold ex in *.
    assert (Hmod : num mod 2 ^ 52 = num - 2 ^ 52).
    { change (2 ^ 52) with 4503599627370496 in *. change (2 ^ 53) with 9007199254740992 in *.
      replace num with (num - 4503599627370496 + 1 * 4503599627370496) at 1 by lia.
      rewrite N.mod_add by lia. apply N.mod_small. lia. }
    rewrite Hmod.
    destruct (unpack (num - 2 ^ 52) (1023 + bit + e)) as [UM Ux]; [change (2 ^ 52) with 4503599627370496 in *; change (2 ^ 53) with 9007199254740992 in *; lia|].
    rewrite UM, Ux. replace (2 ^ 52 + (num - 2 ^ 52)) with num by (change (2 ^ 52) with 4503599627370496 in *; lia).
    assert (Heq : num * 2 ^ (1023 + bit + e) = P * 2 ^ (e + 1075)).
    { rewrite HPb. unfold num. rewrite <- N.mul_assoc, <- N.pow_add_r. f_equal. f_equal. lia. }
    split; [lia|exact Heq].
Qed.

(* shape of the result in the rounded case *)
Lemma ppt_final_round_shape : forall b2 sh bits,
  b2 <> 0 -> sh < 2 ^ 31 -> 52 < N.log2 b2 ->
  ppt_final b2 sh = Ok (Some bits) ->
  let bit := N.log2 b2 in
  let u := 2 ^ (bit - 53) in
  exists n1 cy, 2 ^ 52 <= n1 <= 2 ^ 53 /\ n1 * 2 * u <= b2 + u /\ b2 < n1 * 2 * u + u
    /\ cy = b2n (9007199254740991 <? n1) /\ 1023 + bit + (sh + cy) <= 2046
    /\ bits = n1 mod 2 ^ 52 + (1023 + bit + (sh + cy)) * 2 ^ 52.
Proof.
  intros b2 sh bits Hb20 Hshv Ebit H bit u. unfold ppt_final in H. fold bit in H.
  change dg_d_bias with 1023 in H.
  assert (Eb : (bit <=? 52) = false) by (apply N.leb_gt; exact Ebit). rewrite Eb in H.
  destruct (round54 b2 bit Hb20 eq_refl ltac:(unfold bit; lia)) as [Hx54 [Hn1 [R1 R2]]].
  rewrite N.shiftr_div_pow2 in H. fold u in H, Hx54, Hn1, R1, R2.
  rewrite (m64_id (b2 / u)) in H by (eapply N.lt_trans; [apply Hx54|vm_compute; reflexivity]).
  set (n1 := round_half (b2 / u)) in *.
  set (cy := b2n (9007199254740991 <? n1)) in *.
  assert (Hcy : cy <= 1) by (unfold cy; destruct (9007199254740991 <? n1); cbn; lia).
  assert (Hadd : add32 sh cy = sh + cy).
  { unfold add32, two32. apply N.mod_small. change (2 ^ 31) with 2147483648 in Hshv. lia. }
  rewrite Hadd in H.
  set (ex := 1023 + bit + (sh + cy)) in *.
  destruct (2046 <? ex) eqn:Eov; [discriminate|]. apply N.ltb_ge in Eov.
  injection H as Hbits. rewrite pack_fields in Hbits.
  exists n1, cy. repeat split; try assumption; try (apply Hn1). symmetry. exact Hbits.
Qed.

(* pure arithmetic: the two-sided bound at the scale 2^(e+1075) *)
Lemma ppt_round_bound : forall b2 c P n1 u A S,
  0 < u -> 0 < A -> 0 < S -> c <= 40 -> n1 <= 2 ^ 53 ->
  b2 * A <= P -> P * 2 ^ 127 <= b2 * (2 ^ 127 + c) * A ->
  n1 * 2 * u <= b2 + u -> b2 < n1 * 2 * u + u ->
  let W := 2 * u * A * S in
  n1 * W < P * S + W /\ P * S < n1 * W + W.
Proof.
  intros b2 c P n1 u A S Hu HA HS Hc Hn1 I1 I2 R1 R2 W.
  set (T := 2 * u * A). assert (HT : 0 < T) by (unfold T; nia).
  assert (B1 : n1 * T < P + T).
  { unfold T. assert (n1 * 2 * u * A <= (b2 + u) * A) by (apply N.mul_le_mono_r; exact R1).
    assert ((b2 + u) * A <= P + u * A) by nia. assert (0 < u * A) by nia. nia. }
  assert (B2 : P < n1 * T + T).
  { set (D := 2 ^ 127) in *. assert (HD : 0 < D) by apply pow2_pos.
    assert (Hsmall : (2 * n1 + 1) * c <= D).
    { change (2 ^ 53) with 9007199254740992 in Hn1. unfold D. change (2 ^ 127) with 170141183460469231731687303715884105728. nia. }
    assert (Hk0 : b2 * (D + c) < (n1 * 2 * u + 2 * u) * D) by nia.
    assert (Hk : P * D < (n1 * T + T) * D).
    { eapply N.le_lt_trans; [exact I2|]. unfold T.
      replace ((n1 * (2 * u * A) + 2 * u * A) * D) with ((n1 * 2 * u + 2 * u) * D * A) by lia.
      apply N.mul_lt_mono_pos_r; [exact HA|exact Hk0]. }
    apply (N.mul_lt_mono_pos_r D); [exact HD|exact Hk]. }
  assert (HW : W = T * S) by reflexivity. rewrite HW. clearbody T. clear HW W.
  split.
  - pose proof (proj1 (N.mul_lt_mono_pos_r S (n1 * T) (P + T) HS) B1). lia.
  - pose proof (proj1 (N.mul_lt_mono_pos_r S P (n1 * T + T) HS) B2). lia.
Qed.

Lemma mod52_lt : forall n, 2 ^ 52 <= n < 2 ^ 53 -> n mod 2 ^ 52 = n - 2 ^ 52.
Proof.
  intros n H. change (2 ^ 52) with 4503599627370496 in *. change (2 ^ 53) with 9007199254740992 in *.
  replace n with (n - 4503599627370496 + 1 * 4503599627370496) at 1 by lia.
  rewrite N.mod_add by lia. apply N.mod_small. lia.
Qed.

Lemma ppt_final_round : forall b2 c P e sh bits,
  e < 2 ^ 20 -> c <= 40 -> sh = e + 64 * c -> 0 < P -> b2 <> 0 ->
  b2 * 2 ^ (64 * c) <= P -> P * 2 ^ 127 <= b2 * (2 ^ 127 + c) * 2 ^ (64 * c) -> (0 < c -> 2 ^ 128 <= b2) ->
  52 < N.log2 b2 ->
  ppt_final b2 sh = Ok (Some bits) -> acc_goal P e bits.
Proof.
  intros b2 c P e sh bits He Hc Hsh HP Hb20 I1 I2 I3 Ebit H.
  assert (Hshv : sh < 2 ^ 31).
  { subst sh. change (2 ^ 20) with 1048576 in He. change (2 ^ 31) with 2147483648. lia. }
  destruct (ppt_final_round_shape b2 sh bits Hb20 Hshv Ebit H) as [n1 [cy [Hn1 [R1 [R2 [Hcy [Eov Hbits]]]]]]].
  clear H. set (bit := N.log2 b2) in *. set (u := 2 ^ (bit - 53)) in *.
  unfold acc_goal.
  set (A := 2 ^ (64 * c)) in *. set (S := 2 ^ (e + 1075)) in *.
  destruct (ppt_round_bound b2 c P n1 u A S (pow2_pos _) (pow2_pos _) (pow2_pos _) Hc (proj2 Hn1) I1 I2 R1 R2) as [C1 C2].
  assert (Hscale : 2 * u * A * S = 2 ^ (1023 + bit + sh)).
  { unfold u, A, S. subst sh. change 2 with (2 ^ 1) at 1. rewrite <- !N.pow_add_r. f_equal. lia. }
  set (W := 2 * u * A * S) in *. assert (HW : 0 < W) by (rewrite Hscale; apply pow2_pos).
  clearbody W S A u. clear I1 I2 I3 R1 R2.
  subst bits.
  destruct (9007199254740991 <? n1) eqn:Ecy; cbn [b2n] in Hcy; subst cy.
  - apply N.ltb_lt in Ecy. assert (Hn : n1 = 2 ^ 53) by (change (2 ^ 53) with 9007199254740992 in *; lia).
    assert (Hmod : n1 mod 2 ^ 52 = 0) by (rewrite Hn; reflexivity). rewrite Hmod.
    destruct (unpack 0 (1023 + bit + (sh + 1))) as [UM Ux]; [apply pow2_pos|]. rewrite UM, Ux.
    rewrite N.add_0_r.
    assert (Hval : 2 ^ 52 * 2 ^ (1023 + bit + (sh + 1)) = n1 * W).
    { rewrite Hscale, Hn. rewrite <- !N.pow_add_r. f_equal. lia. }
    assert (Hulp : 2 ^ (1023 + bit + (sh + 1)) = 2 * W).
    { rewrite Hscale. change 2 with (2 ^ 1) at 2. rewrite <- N.pow_add_r. f_equal. lia. }
    rewrite Hval, Hulp. clear Hval Hulp Hscale UM Ux Hmod. split; [lia|]. split; lia.
  - apply N.ltb_ge in Ecy. assert (Hn : 2 ^ 52 <= n1 < 2 ^ 53) by (change (2 ^ 53) with 9007199254740992 in *; lia).
    rewrite (mod52_lt n1 Hn). rewrite N.add_0_r in *.
    destruct (unpack (n1 - 2 ^ 52) (1023 + bit + sh)) as [UM Ux]; [change (2 ^ 52) with 4503599627370496 in *; change (2 ^ 53) with 9007199254740992 in *; lia|].
    rewrite UM, Ux. replace (2 ^ 52 + (n1 - 2 ^ 52)) with n1 by (change (2 ^ 52) with 4503599627370496 in *; lia).
    rewrite <- Hscale. clear Hscale UM Ux. split; [lia|]. split; [exact C1|exact C2].
Qed.

Lemma ppt_last_mul : forall b e' c j m e,
  e = e' + 27 * j -> e' < 27 -> Inv b c (m * 5 ^ (27 * j)) ->
  forall r, (if e' =? 0 then Ok b else big_mul dg_parse_big_maxindex b (pow5 e')) = Ok r -> Inv r c (m * 5 ^ e).
Proof.
  intros b e' c j m e Ee He' HI r Hr. destruct (e' =? 0) eqn:E0.
  - apply N.eqb_eq in E0. injection Hr as <-. rewrite Ee, E0, N.add_0_l. exact HI.
  - apply big_mul_ok in Hr. rewrite pow5_spec in Hr by lia. subst r.
    rewrite Ee, N.pow_add_r. replace (m * (5 ^ e' * 5 ^ (27 * j))) with (m * 5 ^ (27 * j) * 5 ^ e') by lia.
    apply Inv_mul; [apply N.neq_0_lt_0, N.pow_nonzero; lia|exact HI].
Qed.

Lemma ppt_unfold : forall m e,
  power_of_positive_ten m e =
  (do '(b, e', shifted) <- ppt_loop 40 m e e;
   do b2 <- (if e' =? 0 then Ok b else big_mul dg_parse_big_maxindex b (pow5 e'));
   ppt_final b2 shifted).
Proof. reflexivity. Qed.

Theorem ppt_accuracy_P : forall m e bits,
  0 < m -> m < 2 ^ 64 -> e < 2 ^ 20 ->
  power_of_positive_ten m e = Ok (Some bits) -> acc_goal (m * 5 ^ e) e bits.
Proof.
  intros m e bits Hm0 Hm He H. rewrite ppt_unfold in H.
  destruct (ppt_loop 40 m e e) as [[[b e'] sh]|] eqn:EL; [|discriminate]. cbn [bind] in H.
  assert (HI0 : Inv m 0 m).
  { unfold Inv. change (64 * 0) with 0. rewrite N.pow_0_r. repeat split; try lia. }
  assert (Hf1 : 0 + N.of_nat 40 <= 100) by (change (N.of_nat 40) with 40; lia).
  assert (Hf2 : e + 64 * N.of_nat 40 < 2 ^ 32).
  { change (N.of_nat 40) with 40. change (2 ^ 20) with 1048576 in He. change (2 ^ 32) with 4294967296. lia. }
  destruct (ppt_loop_inv 40 m e e 0 m b e' sh HI0 Hf1 Hf2 EL) as [c [j [Ee [He' [_ [Hc [Hsh HI]]]]]]].
  change (N.of_nat 40) with 40 in Hc. rewrite N.add_0_l in Hc. rewrite N.sub_0_r in Hsh.
  destruct (if e' =? 0 then Ok b else big_mul dg_parse_big_maxindex b (pow5 e')) as [b2|] eqn:Eb2; [|discriminate].
  cbn [bind] in H.
  pose proof (ppt_last_mul b e' c j m e Ee He' HI b2 Eb2) as HI2.
  set (P := m * 5 ^ e) in *.
  assert (HP : 0 < P) by (unfold P; apply N.mul_pos_pos; [exact Hm0|apply N.neq_0_lt_0, N.pow_nonzero; lia]).
  destruct HI2 as [I1 [I2 I3]].
  assert (Hb20 : b2 <> 0).
  { intros ->. rewrite !N.mul_0_l in I2. assert (0 < 2 ^ 127) by apply pow2_pos. lia. }
  destruct (N.le_gt_cases (N.log2 b2) 52) as [Hbit|Hbit].
  - exact (ppt_final_exact b2 c P e sh bits He Hc Hsh HP Hb20 I1 I2 I3 Hbit H).
  - exact (ppt_final_round b2 c P e sh bits He Hc Hsh HP Hb20 I1 I2 I3 Hbit H).
Qed.

Theorem ppt_accuracy : forall m e bits,
  0 < m -> m < 2 ^ 64 -> e < 2 ^ 20 ->
  power_of_positive_ten m e = Ok (Some bits) ->
  1023 <= dbl_x bits <= 2046
  /\ dbl_M bits * 2 ^ dbl_x bits < m * 10 ^ e * 2 ^ 1075 + 2 ^ dbl_x bits
  /\ m * 10 ^ e * 2 ^ 1075 < dbl_M bits * 2 ^ dbl_x bits + 2 ^ dbl_x bits.
Proof.
  intros m e bits Hm0 Hm He H. pose proof (ppt_accuracy_P m e bits Hm0 Hm He H) as G. unfold acc_goal in G.
  assert (H10 : m * 10 ^ e * 2 ^ 1075 = m * 5 ^ e * 2 ^ (e + 1075)).
  { change 10 with (5 * 2). rewrite N.pow_mul_l, N.pow_add_r. lia. }
  rewrite H10. exact G.
Qed.

(* exact when the product fits 53 bits: the double IS m * 10^e *)
Theorem ppt_exact : forall m e bits,
  0 < m -> m < 2 ^ 64 -> e < 2 ^ 20 -> m * 5 ^ e < 2 ^ 53 ->
  power_of_positive_ten m e = Ok (Some bits) ->
  1023 <= dbl_x bits <= 2046 /\ dbl_M bits * 2 ^ dbl_x bits = m * 10 ^ e * 2 ^ 1075.
Proof.
  intros m e bits Hm0 Hm He Hsmall H. rewrite ppt_unfold in H.
  destruct (ppt_loop 40 m e e) as [[[b e'] sh]|] eqn:EL; [|discriminate]. cbn [bind] in H.
  assert (HI0 : Inv m 0 m).
  { unfold Inv. change (64 * 0) with 0. rewrite N.pow_0_r. repeat split; try lia. }
  assert (Hf1 : 0 + N.of_nat 40 <= 100) by (change (N.of_nat 40) with 40; lia).
  assert (Hf2 : e + 64 * N.of_nat 40 < 2 ^ 32).
  { change (N.of_nat 40) with 40. change (2 ^ 20) with 1048576 in He. change (2 ^ 32) with 4294967296. lia. }
  destruct (ppt_loop_inv 40 m e e 0 m b e' sh HI0 Hf1 Hf2 EL) as [c [j [Ee [He' [_ [Hc [Hsh HI]]]]]]].
  change (N.of_nat 40) with 40 in Hc. rewrite N.add_0_l in Hc. rewrite N.sub_0_r in Hsh.
  destruct (if e' =? 0 then Ok b else big_mul dg_parse_big_maxindex b (pow5 e')) as [b2|] eqn:Eb2; [|discriminate].
  cbn [bind] in H.
  pose proof (ppt_last_mul b e' c j m e Ee He' HI b2 Eb2) as HI2.
  set (P := m * 5 ^ e) in *.
  assert (HP : 0 < P) by (unfold P; apply N.mul_pos_pos; [exact Hm0|apply N.neq_0_lt_0, N.pow_nonzero; lia]).
  destruct HI2 as [I1 [I2 I3]].
  assert (Hb20 : b2 <> 0).
  { intros ->. rewrite !N.mul_0_l in I2. assert (0 < 2 ^ 127) by apply pow2_pos. lia. }
  assert (Hbit : N.log2 b2 <= 52).
  { assert (HA : 0 < 2 ^ (64 * c)) by apply pow2_pos.
    assert (b2 < 2 ^ 53) by nia.
    apply N.lt_succ_r. apply N.log2_lt_pow2; [lia|]. exact H0. }
  destruct (ppt_final_exact_eq b2 c P e sh bits He Hc Hsh HP Hb20 I1 I2 I3 Hbit H) as [G1 G2].
  split; [exact G1|]. rewrite G2. unfold P. change 10 with (5 * 2). rewrite N.pow_mul_l, N.pow_add_r. lia.
Qed.

(* a numeral of this path at or above 2^1024 is never given a finite double *)
Theorem ppt_overflow_rejected : forall m e bits,
  0 < m -> m < 2 ^ 64 -> e < 2 ^ 20 -> 2 ^ 1024 <= m * 10 ^ e ->
  power_of_positive_ten m e <> Ok (Some bits).
Proof.
  intros m e bits Hm0 Hm He Hbig H.
  destruct (ppt_accuracy m e bits Hm0 Hm He H) as [[_ Hx] [_ G]].
  assert (HM : dbl_M bits < 2 ^ 53).
  { unfold dbl_M. assert (bits mod 2 ^ 52 < 2 ^ 52) by (apply N.mod_lt; apply N.pow_nonzero; lia).
    change (2 ^ 53) with (2 ^ 52 + 2 ^ 52). lia. }
  assert (H1 : dbl_M bits * 2 ^ dbl_x bits + 2 ^ dbl_x bits <= 2 ^ 53 * 2 ^ 2046).
  { assert (2 ^ dbl_x bits <= 2 ^ 2046) by (apply N.pow_le_mono_r; lia).
    replace (dbl_M bits * 2 ^ dbl_x bits + 2 ^ dbl_x bits) with ((dbl_M bits + 1) * 2 ^ dbl_x bits) by lia.
    apply N.mul_le_mono; lia. }
  assert (H2 : 2 ^ 53 * 2 ^ 2046 = 2 ^ 1024 * 2 ^ 1075) by (rewrite <- !N.pow_add_r; reflexivity).
  assert (H3 : 2 ^ 1024 * 2 ^ 1075 <= m * 10 ^ e * 2 ^ 1075) by (apply N.mul_le_mono_r; exact Hbig).
  lia.
Qed.

(* non-vacuity: 12345e10 is exact; 7999952e302 (7.999952e308, the old KF-C09a witness) is rejected;
   1e23 = 5^23 * 2^23 with 5^23 a 54-bit odd number is an EXACT TIE between the doubles ...670 and ...671:
   round-half-even (strtod) gives ...670, this code rounds the tie up to ...671 -- within one ulp, not
   correctly rounded *)
Example ppt_examples :
  power_of_positive_ten 12345 10 = Ok (Some 4817745202031689728)
  /\ power_of_positive_ten 7999952 302 = Ok None
  /\ power_of_positive_ten 1 23 = Ok (Some 4950912855330343671).
Proof. repeat (match goal with |- _ /\ _ => split end); vm_compute; reflexivity. Qed.
