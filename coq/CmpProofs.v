(* CmpProofs.v -- C15: the string comparison operators are the lexicographic
   order; Memory::Sort returns an ordered permutation.  (Values: CmpProofsValue.v) *)
From Coq Require Import NArith ZArith List Bool Lia Permutation Sorted.
From Qv Require Import gen.Tables_cmp CmpModel.
Import ListNotations.
Local Open Scope N_scope.

(* ------------------------------------------------------------------ *)
(** * Code units *)

Lemma ukey_sb_inj : forall s bits a b, ukey_sb s bits a = ukey_sb s bits b -> a = b.
Proof.
  intros s bits a b. unfold ukey_sb. destruct s; [|auto].
  set (h := 2 ^ (bits - 1)). cbv zeta.
  destruct (a <? h) eqn:A1; destruct (b <? h) eqn:B1;
  destruct (a <? 2 * h) eqn:A2; destruct (b <? 2 * h) eqn:B2;
  repeat match goal with
         | H : (_ <? _) = true |- _ => apply N.ltb_lt in H
         | H : (_ <? _) = false |- _ => apply N.ltb_ge in H
         end; lia.
Qed.

Lemma ukey_inj : forall w a b, ukey w a = ukey w b -> a = b.
Proof.
  intros w a b. unfold ukey.
  destruct w as [|[p|p|]]; try destruct p; apply ukey_sb_inj.
Qed.

(* what the key means for the three fixed-width types of this platform *)
Lemma cu_lt_unsigned16 : forall a b, cu_lt 1 a b = (a <? b).
Proof. reflexivity. Qed.
Lemma cu_lt_unsigned32 : forall a b, cu_lt 2 a b = (a <? b).
Proof. reflexivity. Qed.

(* char is signed here: units compare as two's-complement 8-bit numbers *)
Definition signed8 (u : N) : Z := if u <? 128 then Z.of_N u else (Z.of_N u - 256)%Z.
Lemma cu_lt_char : char8_signed = true ->
  forall a b, a < 256 -> b < 256 -> cu_lt 0 a b = (signed8 a <? signed8 b)%Z.
Proof.
  intros Hs a b Ha Hb. unfold cu_lt, ukey, ukey_sb, signed8. rewrite Hs.
  change (2 ^ (8 - 1)) with 128. cbv zeta. change (2 * 128) with 256.
  destruct (a <? 128) eqn:A1; destruct (b <? 128) eqn:B1;
  destruct (a <? 256) eqn:A2; destruct (b <? 256) eqn:B2;
  repeat match goal with
         | H : (_ <? _) = true |- _ => apply N.ltb_lt in H
         | H : (_ <? _) = false |- _ => apply N.ltb_ge in H
         end; try lia;
  match goal with |- ?x = ?y => destruct x eqn:X; destruct y eqn:Y; auto end;
  repeat match goal with
         | H : (_ <? _) = true |- _ => apply N.ltb_lt in H
         | H : (_ <? _) = false |- _ => apply N.ltb_ge in H
         | H : (_ <? _)%Z = true |- _ => apply Z.ltb_lt in H
         | H : (_ <? _)%Z = false |- _ => apply Z.ltb_ge in H
         end; lia.
Qed.

(* ------------------------------------------------------------------ *)
(** * The three-way lexicographic comparison *)

Lemma lex_cmp_refl : forall w l, lex_cmp w l l = Eq.
Proof. intros w l. induction l as [|x l IH]; simpl; [reflexivity|]. now rewrite N.compare_refl. Qed.

Lemma lex_cmp_eq : forall w l r, lex_cmp w l r = Eq -> l = r.
Proof.
  intros w l. induction l as [|x l IH]; intros [|y r] H; simpl in H; try discriminate; [reflexivity|].
  destruct (ukey w x ?= ukey w y) eqn:E; try discriminate.
  apply N.compare_eq in E. apply ukey_inj in E. subst. f_equal. now apply IH.
Qed.

Lemma lex_cmp_eq_iff : forall w l r, lex_cmp w l r = Eq <-> l = r.
Proof. intros w l r. split; [apply lex_cmp_eq|intros ->; apply lex_cmp_refl]. Qed.

Lemma lex_cmp_antisym : forall w l r, lex_cmp w r l = CompOpp (lex_cmp w l r).
Proof.
  intros w l. induction l as [|x l IH]; intros [|y r]; simpl; try reflexivity.
  rewrite (N.compare_antisym (ukey w x) (ukey w y)).
  destruct (ukey w x ?= ukey w y); simpl; auto.
Qed.

Lemma lex_cmp_lt_trans : forall w a b c, lex_cmp w a b = Lt -> lex_cmp w b c = Lt -> lex_cmp w a c = Lt.
Proof.
  intros w a. induction a as [|x a IH]; intros [|y b] [|z c] H1 H2; simpl in *; try discriminate; try reflexivity.
  destruct (N.compare_spec (ukey w x) (ukey w y)) as [E1|E1|E1]; try discriminate;
  destruct (N.compare_spec (ukey w y) (ukey w z)) as [E2|E2|E2]; try discriminate.
  - rewrite E1, E2, N.compare_refl. eapply IH; eauto.
  - rewrite E1. now apply N.compare_lt_iff in E2 as ->.
  - rewrite <- E2. now apply N.compare_lt_iff in E1 as ->.
  - assert (E : ukey w x < ukey w z) by lia. now apply N.compare_lt_iff in E as ->.
Qed.

Lemma lex_cmp_lt_iff : forall w l r, lex_cmp w l r = Lt <-> lex_lt w l r.
Proof.
  intros w l r. split.
  - revert r. induction l as [|x l IH]; intros [|y r] H; simpl in H; try discriminate.
    + constructor.
    + destruct (N.compare_spec (ukey w x) (ukey w y)) as [E|E|E]; try discriminate.
      * apply ukey_inj in E. subst. apply lex_tail. now apply IH.
      * now apply lex_head.
  - intros H. induction H as [y r|x y l r Hxy|x l r H IH]; simpl.
    + reflexivity.
    + now apply N.compare_lt_iff in Hxy as ->.
    + now rewrite N.compare_refl.
Qed.

(* ------------------------------------------------------------------ *)
(** * IsLess / IsGreater / IsEqual in terms of the three-way comparison *)

Definition pick_lt (c : comparison) (orEqual : bool) : bool :=
  match c with Lt => true | Eq => orEqual | Gt => false end.
Definition pick_gt (c : comparison) (orEqual : bool) : bool :=
  match c with Gt => true | Eq => orEqual | Lt => false end.

Lemma is_less_cmp : forall w l r oe, is_less w l r oe = pick_lt (lex_cmp w l r) oe.
Proof.
  intros w l. induction l as [|x l IH]; intros [|y r] oe; simpl; try (destruct oe; reflexivity).
  unfold cu_gt, cu_lt, N.ltb. rewrite (N.compare_antisym (ukey w x) (ukey w y)).
  destruct (ukey w x ?= ukey w y); simpl; auto.
Qed.

Lemma is_greater_cmp : forall w l r oe, is_greater w l r oe = pick_gt (lex_cmp w l r) oe.
Proof.
  intros w l. induction l as [|x l IH]; intros [|y r] oe; simpl; try (destruct oe; reflexivity).
  unfold cu_gt, cu_lt, N.ltb. rewrite (N.compare_antisym (ukey w x) (ukey w y)).
  destruct (ukey w x ?= ukey w y); simpl; auto.
Qed.

Lemma is_equal_same_length : forall l r, length l = length r ->
  is_equal l r (length l) = Some (list_eqb l r).
Proof.
  induction l as [|x l IH]; intros [|y r] H; simpl in *; try discriminate; [reflexivity|].
  destruct (x =? y); simpl; [apply IH; lia|reflexivity].
Qed.

Lemma list_eqb_eq : forall l r, list_eqb l r = true <-> l = r.
Proof.
  induction l as [|x l IH]; intros [|y r]; simpl; split; intros H; try discriminate; try reflexivity.
  - apply andb_true_iff in H as [H1 H2]. apply N.eqb_eq in H1. apply IH in H2. now subst.
  - injection H as -> ->. rewrite N.eqb_refl. simpl. now apply IH.
Qed.

Lemma list_eqb_length : forall l r, length l <> length r -> list_eqb l r = false.
Proof.
  intros l r H. destruct (list_eqb l r) eqn:E; [|reflexivity].
  apply list_eqb_eq in E. subst. contradiction.
Qed.

(* operator== never reads out of bounds and decides equality of the strings *)
Lemma str_eq_spec : forall a b, str_eq a b = Some (list_eqb a b).
Proof.
  intros a b. unfold str_eq. destruct (Nat.eqb_spec (length a) (length b)) as [E|E].
  - now apply is_equal_same_length.
  - now rewrite list_eqb_length.
Qed.

Lemma list_eqb_cmp : forall w a b, list_eqb a b = match lex_cmp w a b with Eq => true | _ => false end.
Proof.
  intros w a b. destruct (lex_cmp w a b) eqn:E.
  - apply lex_cmp_eq in E. subst. now apply list_eqb_eq.
  - destruct (list_eqb a b) eqn:F; [|reflexivity]. apply list_eqb_eq in F. subst. now rewrite lex_cmp_refl in E.
  - destruct (list_eqb a b) eqn:F; [|reflexivity]. apply list_eqb_eq in F. subst. now rewrite lex_cmp_refl in E.
Qed.

(* the six operators are the six results of one total order *)
Theorem str_ops_spec : forall w a b, str_ops w a b = Some (ops_of_cmp (lex_cmp w a b)).
Proof.
  intros w a b. unfold str_ops, str_lt, str_le, str_gt, str_ge.
  rewrite str_eq_spec, !is_less_cmp, !is_greater_cmp, (list_eqb_cmp w).
  now destruct (lex_cmp w a b).
Qed.

(* exactly one of three booleans *)
Definition exactly_one (x y z : bool) : Prop :=
  (x = true /\ y = false /\ z = false) \/ (x = false /\ y = true /\ z = false) \/ (x = false /\ y = false /\ z = true).

Theorem str_trichotomy : forall w a b,
  exists e, str_eq a b = Some e /\ exactly_one (str_lt w a b) e (str_gt w a b).
Proof.
  intros w a b. exists (list_eqb a b). split; [apply str_eq_spec|].
  unfold str_lt, str_gt, exactly_one. rewrite is_less_cmp, is_greater_cmp, (list_eqb_cmp w).
  destruct (lex_cmp w a b); simpl; auto.
Qed.

Theorem str_le_lt_or_eq : forall w a b, str_le w a b = str_lt w a b || str_eqb a b.
Proof.
  intros w a b. unfold str_le, str_lt, str_eqb. rewrite str_eq_spec, !is_less_cmp, (list_eqb_cmp w).
  now destruct (lex_cmp w a b).
Qed.

Theorem str_ge_gt_or_eq : forall w a b, str_ge w a b = str_gt w a b || str_eqb a b.
Proof.
  intros w a b. unfold str_ge, str_gt, str_eqb. rewrite str_eq_spec, !is_greater_cmp, (list_eqb_cmp w).
  now destruct (lex_cmp w a b).
Qed.

Theorem str_lt_iff_lex : forall w a b, str_lt w a b = true <-> lex_lt w a b.
Proof.
  intros w a b. rewrite <- lex_cmp_lt_iff. unfold str_lt. rewrite is_less_cmp.
  destruct (lex_cmp w a b); simpl; split; intros H; auto; discriminate.
Qed.

Theorem str_gt_flip : forall w a b, str_gt w a b = str_lt w b a.
Proof.
  intros w a b. unfold str_gt, str_lt. rewrite is_less_cmp, is_greater_cmp, (lex_cmp_antisym w a b).
  now destruct (lex_cmp w a b).
Qed.

Theorem str_eq_iff : forall a b, str_eq a b = Some true <-> a = b.
Proof.
  intros a b. rewrite str_eq_spec. split.
  - intros H. injection H as H. now apply list_eqb_eq.
  - intros ->. f_equal. now apply list_eqb_eq.
Qed.

Theorem str_lt_trans : forall w a b c, str_lt w a b = true -> str_lt w b c = true -> str_lt w a c = true.
Proof.
  intros w a b c. rewrite !str_lt_iff_lex, <- !lex_cmp_lt_iff. apply lex_cmp_lt_trans.
Qed.

Theorem str_lt_irrefl : forall w a, str_lt w a a = false.
Proof. intros w a. unfold str_lt. now rewrite is_less_cmp, lex_cmp_refl. Qed.

Theorem str_gt_trans : forall w a b c, str_gt w a b = true -> str_gt w b c = true -> str_gt w a c = true.
Proof. intros w a b c. rewrite !str_gt_flip. intros H1 H2. eapply str_lt_trans; eauto. Qed.

Theorem str_gt_irrefl : forall w a, str_gt w a a = false.
Proof. intros w a. rewrite str_gt_flip. apply str_lt_irrefl. Qed.

(* D3: a proper prefix sorts first, whatever follows *)
Theorem prefix_sorts_first : forall w a x b,
  str_lt w a (a ++ x :: b) = true /\ str_gt w (a ++ x :: b) a = true /\
  str_le w a (a ++ x :: b) = true /\ str_ge w (a ++ x :: b) a = true.
Proof.
  intros w a x b.
  assert (L : lex_cmp w a (a ++ x :: b) = Lt).
  { induction a as [|y a IH]; simpl; [reflexivity|]. now rewrite N.compare_refl. }
  unfold str_lt, str_gt, str_le, str_ge.
  rewrite !is_less_cmp, !is_greater_cmp, (lex_cmp_antisym w a (a ++ x :: b)), L. simpl. auto.
Qed.

(* the boolean oracle accepts exactly the model's answers *)
Theorem str_oracle_accepts_model : forall w a b bits,
  str_ops w a b = Some bits -> str_pair_oracle w a b bits = true.
Proof.
  intros w a b bits H. rewrite str_ops_spec in H. injection H as <-.
  unfold str_pair_oracle. now destruct (lex_cmp w a b).
Qed.

(* ------------------------------------------------------------------ *)
(** * The (const Char_T * ) overloads and the item operators are the same order *)

Lemma cstr_cut_no_nul : forall b, ~ In 0 b -> cstr_cut b = b.
Proof.
  induction b as [|x b IH]; intros H; simpl; [reflexivity|].
  destruct (N.eqb_spec x 0) as [E|E].
  - exfalso. apply H. left. assumption.
  - f_equal. apply IH. intros J. apply H. right. assumption.
Qed.

(* the cut is the part before the first NUL *)
Lemma cstr_cut_spec : forall b, ~ In 0 (cstr_cut b) /\
  (cstr_cut b = b \/ exists r, b = cstr_cut b ++ 0 :: r).
Proof.
  induction b as [|x b [IH1 IH2]]; simpl.
  - split; [intros []|left; reflexivity].
  - destruct (N.eqb_spec x 0) as [E|E].
    + subst. split; [intros []|right; exists b; reflexivity].
    + split.
      * intros [J|J]; [congruence|contradiction].
      * destruct IH2 as [J|[r J]]; [left; congruence|right; exists r; simpl; congruence].
Qed.

Theorem cstr_ops_spec : forall w a b,
  cstr_ops w a b = Some (ops_of_cmp (lex_cmp w a (cstr_cut b))).
Proof. intros w a b. apply str_ops_spec. Qed.

Theorem cstr_ops_no_nul : forall w a b, ~ In 0 b -> cstr_ops w a b = str_ops w a b.
Proof. intros w a b H. unfold cstr_ops. now rewrite cstr_cut_no_nul. Qed.

Theorem cstr_oracle_accepts_model : forall w a b bits,
  cstr_ops w a b = Some bits -> cstr_pair_oracle w a b bits = true.
Proof. intros w a b bits. apply str_oracle_accepts_model. Qed.

Theorem item_ops_spec : forall w ka kb, item_ops w ka kb = Some (item_ops_of_cmp (lex_cmp w ka kb)).
Proof.
  intros w ka kb. unfold item_ops, str_lt, str_le, str_gt, str_ge.
  rewrite str_eq_spec, !is_less_cmp, !is_greater_cmp, (list_eqb_cmp w).
  now destruct (lex_cmp w ka kb).
Qed.

Theorem item_oracle_accepts_model : forall w ka kb bits,
  item_ops w ka kb = Some bits -> item_pair_oracle w ka kb bits = true.
Proof.
  intros w ka kb bits H. rewrite item_ops_spec in H. injection H as <-.
  unfold item_pair_oracle. now destruct (lex_cmp w ka kb).
Qed.

Example ex_cstr_cut : cstr_ops 0 [97] [97; 0; 98] = Some [false; true; false; true; true; false].
Proof. reflexivity. Qed.
Example ex_item : item_ops 0 [97] [97; 98] = Some [true; false; true; false; false].
Proof. reflexivity. Qed.

(* non-vacuity *)
Example ex_prefix : str_ops 0 [97] [97; 98] = Some [true; true; false; false; false; true].
Proof. reflexivity. Qed.
Example ex_signed_char : str_lt 0 [200] [97] = char8_signed /\ str_lt 1 [200] [97] = false.
Proof. split; reflexivity. Qed.
Example ex_lex : lex_lt 0 [97; 98] [97; 99].
Proof. apply lex_tail, lex_head. vm_compute. reflexivity. Qed.

(* ------------------------------------------------------------------ *)
(** * Memory::Sort *)

Section SortProofs.
  Context {A : Type}.
  Variable cmp : A -> A -> bool.

  Lemma part_perm : forall p rem los his l' h',
    part cmp p los his rem = (l', h') -> Permutation (l' ++ h') (los ++ his ++ rem).
  Proof.
    intros p rem. induction rem as [|x rem IH]; intros los his l' h' H; simpl in H.
    - injection H as <- <-. now rewrite app_nil_r.
    - destruct (cmp x p).
      + destruct his as [|h hs].
        * apply IH in H. rewrite H. simpl. rewrite <- app_assoc. reflexivity.
        * apply IH in H. rewrite H. rewrite <- !app_assoc. simpl. apply Permutation_app_head.
          transitivity (x :: h :: hs ++ rem).
          -- apply perm_skip. apply Permutation_sym, Permutation_middle.
          -- etransitivity; [apply perm_swap|]. apply perm_skip. apply Permutation_middle.
      + apply IH in H. rewrite H. rewrite <- !app_assoc. reflexivity.
  Qed.

  Lemma part_forall : forall p rem los his l' h',
    part cmp p los his rem = (l', h') ->
    Forall (fun x => cmp x p = true) los -> Forall (fun x => cmp x p = false) his ->
    Forall (fun x => cmp x p = true) l' /\ Forall (fun x => cmp x p = false) h'.
  Proof.
    intros p rem. induction rem as [|x rem IH]; intros los his l' h' H Hl Hh; simpl in H.
    - injection H as <- <-. auto.
    - destruct (cmp x p) eqn:E.
      + destruct his as [|h hs].
        * eapply IH; eauto. apply Forall_app; auto.
        * eapply IH; eauto.
          -- apply Forall_app; auto.
          -- inversion Hh; subst. apply Forall_app; auto.
      + eapply IH; eauto. apply Forall_app; auto.
  Qed.

  Definition rotate_last (p : A) (los : list A) : list A :=
    match los with [] => [] | _ :: _ => last los p :: removelast los end.

  Lemma rotate_last_perm : forall p los, Permutation (rotate_last p los) los.
  Proof.
    intros p los. destruct los as [|a los]; [constructor|].
    unfold rotate_last.
    assert (N : a :: los <> []) by discriminate.
    rewrite (app_removelast_last p N) at 3.
    apply Permutation_cons_append.
  Qed.

  Lemma msort_unfold : forall f p rest,
    msort cmp (S f) (p :: rest) =
    let (los, his) := part cmp p [] [] rest in
    match msort cmp f (rotate_last p los), msort cmp f his with
    | Some a, Some b => Some (a ++ p :: b)
    | _, _ => None
    end.
  Proof. reflexivity. Qed.

  (** the result is a permutation of the input: no hypothesis on the comparison *)
  Theorem msort_perm : forall fuel l l', msort cmp fuel l = Some l' -> Permutation l' l.
  Proof.
    induction fuel as [|f IH]; intros l l' H; [discriminate|].
    destruct l as [|p rest]; [injection H as <-; constructor|].
    rewrite msort_unfold in H.
    destruct (part cmp p [] [] rest) as [los his] eqn:P.
    destruct (msort cmp f (rotate_last p los)) as [a|] eqn:Ma; [|discriminate].
    destruct (msort cmp f his) as [b|] eqn:Mb; [|discriminate].
    injection H as <-.
    apply IH in Ma. apply IH in Mb. apply part_perm in P. simpl in P.
    rewrite Ma, Mb, rotate_last_perm.
    etransitivity; [apply Permutation_sym, Permutation_middle|]. now apply perm_skip.
  Qed.

  (** fuel: recursion depth is at most the length *)
  Theorem msort_fuel : forall fuel l, (length l < fuel)%nat -> exists l', msort cmp fuel l = Some l'.
  Proof.
    induction fuel as [|f IH]; intros l H; [lia|].
    destruct l as [|p rest]; [exists []; reflexivity|].
    rewrite msort_unfold.
    destruct (part cmp p [] [] rest) as [los his] eqn:P.
    pose proof (part_perm _ _ _ _ _ _ P) as Q. simpl in Q.
    apply Permutation_length in Q. rewrite app_length in Q. simpl in H.
    destruct (IH (rotate_last p los)) as [a Ha].
    { rewrite (Permutation_length (rotate_last_perm p los)). lia. }
    destruct (IH his) as [b Hb]; [lia|].
    rewrite Ha, Hb. eauto.
  Qed.

  Theorem sort_total : forall l, exists l', sort cmp l = Some l'.
  Proof. intros l. apply msort_fuel. lia. Qed.

  Theorem sort_perm : forall l l', sort cmp l = Some l' -> Permutation l' l.
  Proof. intros l l'. apply msort_perm. Qed.

  (** ordered result: the comparison is irreflexive and transitive on the
      elements (given as a predicate [P] that holds for every element) *)
  Variable P : A -> Prop.
  Hypothesis cmp_irrefl : forall x, P x -> cmp x x = false.
  Hypothesis cmp_trans : forall x y z, P x -> P y -> P z -> cmp x y = true -> cmp y z = true -> cmp x z = true.

  Let R (a b : A) : Prop := cmp b a = false.   (* b does not belong before a *)

  Lemma sorted_app : forall a p b,
    StronglySorted R a -> StronglySorted R b ->
    Forall (fun x => R x p) a -> Forall (fun y => R p y) b ->
    (forall x y, In x a -> In y b -> R x y) ->
    StronglySorted R (a ++ p :: b).
  Proof.
    induction a as [|x a IH]; intros p b Sa Sb Hap Hpb Hab; simpl.
    - constructor; auto.
    - inversion Sa; subst. inversion Hap; subst. constructor.
      + apply IH; auto. intros; apply Hab; simpl; auto.
      + apply Forall_app. split; [assumption|]. constructor; [assumption|].
        apply Forall_forall. intros y Hy. apply Hab; simpl; auto.
  Qed.

  Theorem msort_sorted : forall fuel l l', Forall P l -> msort cmp fuel l = Some l' -> StronglySorted R l'.
  Proof.
    induction fuel as [|f IH]; intros l l' HP H; [discriminate|].
    destruct l as [|p rest]; [injection H as <-; constructor|].
    rewrite msort_unfold in H.
    destruct (part cmp p [] [] rest) as [los his] eqn:Pt.
    destruct (msort cmp f (rotate_last p los)) as [a|] eqn:Ma; [|discriminate].
    destruct (msort cmp f his) as [b|] eqn:Mb; [|discriminate].
    injection H as <-.
    inversion HP as [|? ? Pp Prest]; subst.
    pose proof (part_perm _ _ _ _ _ _ Pt) as Q. simpl in Q.
    destruct (part_forall _ _ _ _ _ _ Pt (Forall_nil _) (Forall_nil _)) as [Flo Fhi].
    assert (Plh : Forall P (los ++ his)) by (eapply Permutation_Forall; [apply Permutation_sym, Q|assumption]).
    apply Forall_app in Plh as [Plo Phi].
    pose proof (msort_perm _ _ _ Ma) as Qa. pose proof (msort_perm _ _ _ Mb) as Qb.
    assert (Pa : Forall P a).
    { eapply Permutation_Forall; [apply Permutation_sym; etransitivity; [apply Qa|apply rotate_last_perm]|assumption]. }
    assert (Pb : Forall P b) by (eapply Permutation_Forall; [apply Permutation_sym, Qb|assumption]).
    assert (Fa : Forall (fun x => cmp x p = true) a).
    { eapply Permutation_Forall; [apply Permutation_sym; etransitivity; [apply Qa|apply rotate_last_perm]|assumption]. }
    assert (Fb : Forall (fun x => cmp x p = false) b) by (eapply Permutation_Forall; [apply Permutation_sym, Qb|assumption]).
    rewrite Forall_forall in Pa, Pb, Fa, Fb.
    apply sorted_app.
    - eapply IH; [|exact Ma].
      eapply Permutation_Forall; [apply Permutation_sym, rotate_last_perm|assumption].
    - eapply IH; [|exact Mb]. assumption.
    - apply Forall_forall. intros x Hx. unfold R.
      destruct (cmp p x) eqn:E; [|reflexivity].
      pose proof (cmp_trans x p x (Pa x Hx) Pp (Pa x Hx) (Fa x Hx) E) as C.
      rewrite (cmp_irrefl x (Pa x Hx)) in C. discriminate.
    - apply Forall_forall. intros y Hy. unfold R. now apply Fb.
    - intros x y Hx Hy. unfold R.
      destruct (cmp y x) eqn:E; [|reflexivity].
      pose proof (cmp_trans y x p (Pb y Hy) (Pa x Hx) Pp E (Fa x Hx)) as C.
      rewrite (Fb y Hy) in C. discriminate.
  Qed.

  Theorem sort_sorted : forall l l', Forall P l -> sort cmp l = Some l' -> StronglySorted R l'.
  Proof. intros l l'. apply msort_sorted. Qed.
End SortProofs.

(* everything together for a comparison that is irreflexive and transitive everywhere *)
Theorem sort_correct : forall (A : Type) (cmp : A -> A -> bool),
  (forall x, cmp x x = false) ->
  (forall x y z, cmp x y = true -> cmp y z = true -> cmp x z = true) ->
  forall l, exists l', sort cmp l = Some l' /\ Permutation l' l /\
                       StronglySorted (fun a b => cmp b a = false) l'.
Proof.
  intros A cmp Hi Ht l. destruct (sort_total cmp l) as [l' H]. exists l'.
  split; [assumption|]. split; [eapply sort_perm; eauto|].
  apply (sort_sorted cmp (fun _ => True) (fun x _ => Hi x) (fun x y z _ _ _ => Ht x y z) l l'); [|exact H].
  apply Forall_forall. auto.
Qed.

(** ** Strings: ascending and descending *)
Theorem sort_str_correct : forall w asc l, exists l',
  sort_str w asc l = Some l' /\ Permutation l' l /\
  StronglySorted (fun a b => lex_cmp w a b <> (if asc then Gt else Lt)) l'.
Proof.
  intros w asc l. unfold sort_str.
  destruct asc.
  - destruct (sort_correct _ (str_lt w) (str_lt_irrefl w) (str_lt_trans w) l) as [l' [H1 [H2 H3]]].
    exists l'. repeat split; auto.
    eapply StronglySorted_ind with (P := fun l => StronglySorted _ l); [constructor| |exact H3].
    intros a l0 S1 S2 F. constructor; auto.
    eapply Forall_impl; [|exact F]. cbv beta. intros b Hb. unfold str_lt in Hb.
    rewrite is_less_cmp, (lex_cmp_antisym w a b) in Hb. destruct (lex_cmp w a b); simpl in Hb; congruence.
  - destruct (sort_correct _ (str_gt w) (str_gt_irrefl w) (str_gt_trans w) l) as [l' [H1 [H2 H3]]].
    exists l'. repeat split; auto.
    eapply StronglySorted_ind with (P := fun l => StronglySorted _ l); [constructor| |exact H3].
    intros a l0 S1 S2 F. constructor; auto.
    eapply Forall_impl; [|exact F]. cbv beta. intros b Hb. unfold str_gt in Hb.
    rewrite is_greater_cmp, (lex_cmp_antisym w a b) in Hb. destruct (lex_cmp w a b); simpl in Hb; congruence.
Qed.

(** ** Numbers *)
Theorem sort_n_correct : forall asc l, exists l',
  sort_n asc l = Some l' /\ Permutation l' l /\
  StronglySorted (fun a b => if asc then a <= b else b <= a) l'.
Proof.
  intros asc l. unfold sort_n. destruct asc.
  - destruct (sort_correct _ N.ltb N.ltb_irrefl) with (l := l) as [l' [H1 [H2 H3]]].
    { intros x y z H J. apply N.ltb_lt in H, J. apply N.ltb_lt. lia. }
    exists l'. repeat split; auto.
    eapply StronglySorted_ind with (P := fun l => StronglySorted _ l); [constructor| |exact H3].
    intros a l0 S1 S2 F. constructor; auto.
    eapply Forall_impl; [|exact F]. cbv beta. intros b Hb. apply N.ltb_ge in Hb. assumption.
  - destruct (sort_correct _ (fun a b => N.ltb b a)) with (l := l) as [l' [H1 [H2 H3]]].
    { intros x. apply N.ltb_irrefl. }
    { intros x y z H J. apply N.ltb_lt in H, J. apply N.ltb_lt. lia. }
    exists l'. repeat split; auto.
    eapply StronglySorted_ind with (P := fun l => StronglySorted _ l); [constructor| |exact H3].
    intros a l0 S1 S2 F. constructor; auto.
    eapply Forall_impl; [|exact F]. cbv beta. intros b Hb. apply N.ltb_ge in Hb. assumption.
Qed.

(** ** Hash-array items: compared by key only; removed slots carry the empty key *)
Theorem sort_items_correct : forall w asc l, exists l',
  sort_items w asc l = Some l' /\ Permutation l' l /\
  StronglySorted (fun a b => lex_cmp w (fst a) (fst b) <> (if asc then Gt else Lt)) l'.
Proof.
  intros w asc l. unfold sort_items.
  destruct (sort_correct _ (fun a b : item => if asc then str_lt w (fst a) (fst b) else str_gt w (fst a) (fst b))) with (l := l)
    as [l' [H1 [H2 H3]]].
  { intros x. destruct asc; [apply str_lt_irrefl|apply str_gt_irrefl]. }
  { intros x y z. destruct asc; [apply str_lt_trans|apply str_gt_trans]. }
  exists l'. repeat split; auto.
  eapply StronglySorted_ind with (P := fun l => StronglySorted _ l); [constructor| |exact H3].
  intros a l0 S1 S2 F. constructor; auto.
  eapply Forall_impl; [|exact F]. cbv beta. intros b Hb. destruct asc.
  - unfold str_lt in Hb. rewrite is_less_cmp, (lex_cmp_antisym w (fst a) (fst b)) in Hb.
    destruct (lex_cmp w (fst a) (fst b)); simpl in Hb; congruence.
  - unfold str_gt in Hb. rewrite is_greater_cmp, (lex_cmp_antisym w (fst a) (fst b)) in Hb.
    destruct (lex_cmp w (fst a) (fst b)); simpl in Hb; congruence.
Qed.

(* non-vacuity: the exact element movement of the partition, and a comparison that is not an order *)
Example ex_sort_n : sort_n true [3; 1; 2; 2; 0] = Some [0; 1; 2; 2; 3] /\ sort_n false [3; 1; 2; 2; 0] = Some [3; 2; 2; 1; 0].
Proof. split; reflexivity. Qed.
Example ex_sort_str : sort_str 0 true [[97; 98]; [97]; [97; 98; 99]; []] = Some [[]; [97]; [97; 98]; [97; 98; 99]].
Proof. reflexivity. Qed.
Example ex_sort_any_cmp : sort (fun _ _ : N => true) [1; 2; 3] = Some [2; 3; 1].
Proof. reflexivity. Qed.
