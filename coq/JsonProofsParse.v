(* JsonProofsParse.v -- the reader against the grammar Val: soundness (everything accepted is a
   document of the grammar: all-or-nothing), absence of out-of-bounds reads, termination. *)
From Coq Require Import NArith ZArith List Bool Lia.
From Qv Require Import gen.Tables_json JsonModel JsonSpec JsonProofsBase JsonProofsStr JsonProofsNum.
Import ListNotations.
Local Open Scope N_scope.

(* ---------------- keywords ---------------- *)
Lemma kw_loop_spec : forall body r, Forall (fun t => t <> 0) body ->
  exists l' r', kw_loop (body ++ [0]) r = JOk (l', r') /\
    ((l' = [0] /\ r = body ++ r') \/ (exists t l'', l' = t :: l'' /\ t <> 0 /\ forall x, r <> body ++ x)).
Proof.
  induction body as [|t b IH]; intros r Hb.
  - exists [0], r. cbn. rewrite andb_false_r. split; [reflexivity|left; auto].
  - inversion Hb as [|? ? Ht Hb']; subst. cbn [app kw_loop].
    destruct r as [|c r1]; cbn [has andb].
    + exists (t :: b ++ [0]), []. split; [reflexivity|]. right. exists t, (b ++ [0]). repeat split; auto. discriminate.
    + assert (Et : (t =? 0) = false) by (apply N.eqb_neq; assumption). rewrite Et. cbn [negb rd bind adv].
      destruct (c =? t) eqn:Ec.
      * apply N.eqb_eq in Ec; subst c. destruct (IH r1 Hb') as (l' & r' & H1 & H2).
        exists l', r'. split; [assumption|]. destruct H2 as [[H2 H3]|(t' & l'' & H2 & H3 & H4)].
        -- left. subst. auto.
        -- right. exists t', l''. repeat split; auto. intros x Hx. inversion Hx. eapply H4; eauto.
      * exists (t :: b ++ [0]), (c :: r1). split; [reflexivity|]. right. exists t, (b ++ [0]).
        repeat split; auto. intros x Hx. inversion Hx; subst. rewrite N.eqb_refl in Ec. discriminate.
Qed.

Lemma kw_match_spec : forall l0 body v r, Forall (fun t => t <> 0) body ->
  (exists r', r = body ++ r' /\ kw_match (l0 :: body ++ [0]) v r = JOk (Some (v, r'))) \/
  ((forall x, r <> body ++ x) /\ kw_match (l0 :: body ++ [0]) v r = JOk None).
Proof.
  intros l0 body v r Hb. unfold kw_match. cbn [tl].
  destruct (kw_loop_spec body r Hb) as (l' & r' & H1 & H2). rewrite H1. cbn [bind].
  destruct H2 as [[H2 H3]|(t & l'' & H2 & H3 & H4)]; subst l'; cbn [rd bind].
  - left. exists r'. auto.
  - right. apply N.eqb_neq in H3. rewrite H3. auto.
Qed.

Lemma nz3 : forall a b c : N, a <> 0 -> b <> 0 -> c <> 0 -> Forall (fun t => t <> 0) [a; b; c].
Proof. intros. repeat constructor; assumption. Qed.

Lemma kw_true : forall r,
  (exists r', r = [114; 117; 101] ++ r' /\ kw_match jc_true_lit JTrue r = JOk (Some (JTrue, r'))) \/
  ((forall x, r <> [114; 117; 101] ++ x) /\ kw_match jc_true_lit JTrue r = JOk None).
Proof. intros r. apply (kw_match_spec 116 [114; 117; 101] JTrue r). repeat constructor; discriminate. Qed.
Lemma kw_false : forall r,
  (exists r', r = [97; 108; 115; 101] ++ r' /\ kw_match jc_false_lit JFalse r = JOk (Some (JFalse, r'))) \/
  ((forall x, r <> [97; 108; 115; 101] ++ x) /\ kw_match jc_false_lit JFalse r = JOk None).
Proof. intros r. apply (kw_match_spec 102 [97; 108; 115; 101] JFalse r). repeat constructor; discriminate. Qed.
Lemma kw_null : forall r,
  (exists r', r = [117; 108; 108] ++ r' /\ kw_match jc_null_lit JNull r = JOk (Some (JNull, r'))) \/
  ((forall x, r <> [117; 108; 108] ++ x) /\ kw_match jc_null_lit JNull r = JOk None).
Proof. intros r. apply (kw_match_spec 110 [117; 108; 108] JNull r). repeat constructor; discriminate. Qed.

(* ---------------- soundness ---------------- *)
Definition failed (v : jv) (r' : list N) : Prop := v = JUndef /\ r' = [].

Definition psound (f : nat) : Prop :=
  (forall w r v r' st', pval f w [] r = JOk (v, r', st') -> failed v r' \/ (Val w r v r' /\ st' = [])) /\
  (forall w acc r v r' st', obj_loop f w acc [] r = JOk (v, r', st') ->
      failed v r' \/ (exists out, v = JObj out /\ Members w r acc out r' /\ st' = [])) /\
  (forall w acc r v r' st', arr_loop f w acc [] r = JOk (v, r', st') ->
      failed v r' \/ (exists out, v = JArr out /\ Elems w r acc out r' /\ st' = [])).

Lemma pfail_inv : forall st v r' st', pfail st = JOk (v, r', st') -> failed v r'.
Proof. intros st v r' st' H. inversion H. split; reflexivity. Qed.

Lemma has_trim_cases : forall r, (trim r = [] /\ has (trim r) = false) \/ (exists c t, trim r = c :: t /\ has (trim r) = true).
Proof. intros r. destruct (trim r) as [|c t]; [left; auto|right; eauto]. Qed.

Lemma psound_all : forall f, psound f.
Proof.
  induction f as [|f [IHv [IHo IHa]]].
  { repeat split; intros; discriminate. }
  repeat split.
  - (* pval *)
    intros w r v r' st' H. cbn [pval] in H.
    destruct r as [|c t]; cbn [has negb rd bind adv] in H; [left; eapply pfail_inv; eauto|].
    destruct (c =? jc_scurly) eqn:E1.
    { apply N.eqb_eq in E1; subst c.
      destruct (trim t) as [|c2 r3] eqn:Et; cbn [has negb rd bind adv] in H.
      - apply IHo in H. destruct H as [H|(out & H1 & H2 & H3)]; [left; assumption|].
        right. subst v. split; [|assumption]. apply V_obj. rewrite Et. assumption.
      - destruct (c2 =? jc_ecurly) eqn:E2; cbn [bind adv] in H.
        + apply N.eqb_eq in E2; subst c2. inversion H; subst. right. split; [|reflexivity]. apply V_obj0. assumption.
        + apply IHo in H. destruct H as [H|(out & H1 & H2 & H3)]; [left; assumption|].
          right. subst v. split; [|assumption]. apply V_obj. rewrite Et. assumption. }
    destruct (c =? jc_ssquare) eqn:E2.
    { apply N.eqb_eq in E2; subst c.
      destruct (trim t) as [|c2 r3] eqn:Et; cbn [has negb rd bind adv] in H.
      - apply IHa in H. destruct H as [H|(out & H1 & H2 & H3)]; [left; assumption|].
        right. subst v. split; [|assumption]. apply V_arr. rewrite Et. assumption.
      - destruct (c2 =? jc_esquare) eqn:E3; cbn [bind adv] in H.
        + apply N.eqb_eq in E3; subst c2. inversion H; subst. right. split; [|reflexivity]. apply V_arr0. assumption.
        + apply IHa in H. destruct H as [H|(out & H1 & H2 & H3)]; [left; assumption|].
          right. subst v. split; [|assumption]. apply V_arr. rewrite Et. assumption. }
    destruct (c =? jc_quote) eqn:E3.
    { apply N.eqb_eq in E3; subst c. apply bind_JOk in H. destruct H as [[s st1] [Hs H]].
      destruct s as [[str r2]|].
      - inversion H; subst. apply pstring_sound in Hs. destruct Hs as (sb & H1 & H2 & H3). subst.
        right. split; [|reflexivity]. apply V_str. assumption.
      - left. eapply pfail_inv; eauto. }
    destruct (c =? jc_t) eqn:E4.
    { apply N.eqb_eq in E4; subst c. destruct (kw_true t) as [(r2 & H1 & H2)|[H1 H2]]; rewrite H2 in H; cbn [bind] in H.
      - inversion H; subst. right. split; [|reflexivity]. apply (V_true w r'). 
      - left. eapply pfail_inv; eauto. }
    destruct (c =? jc_f) eqn:E5.
    { apply N.eqb_eq in E5; subst c. destruct (kw_false t) as [(r2 & H1 & H2)|[H1 H2]]; rewrite H2 in H; cbn [bind] in H.
      - inversion H; subst. right. split; [|reflexivity]. apply (V_false w r').
      - left. eapply pfail_inv; eauto. }
    destruct (c =? jc_n) eqn:E6.
    { apply N.eqb_eq in E6; subst c. destruct (kw_null t) as [(r2 & H1 & H2)|[H1 H2]]; rewrite H2 in H; cbn [bind] in H.
      - inversion H; subst. right. split; [|reflexivity]. apply (V_null w r').
      - left. eapply pfail_inv; eauto. }
    apply bind_JOk in H. destruct H as [n [Hn H]].
    assert (Hstart : num_start c = true) by (unfold num_start; rewrite E1, E2, E3, E4, E5, E6; reflexivity).
    destruct n as [|x r2|z r2|r2]; inversion H; subst.
    + left. split; reflexivity.
    + right. split; [|reflexivity]. eapply V_num; eauto.
    + right. split; [|reflexivity]. eapply V_num; eauto.
    + right. split; [|reflexivity]. eapply V_num; eauto.
  - (* obj_loop *)
    intros w acc r v r' st' H. cbn [obj_loop] in H.
    destruct r as [|c t]; cbn [has rd bind adv] in H; [left; eapply pfail_inv; eauto|].
    destruct (c =? jc_quote) eqn:E1; cbn [bind adv] in H; [|left; eapply pfail_inv; eauto].
    apply N.eqb_eq in E1; subst c.
    apply bind_JOk in H. destruct H as [[s st1] [Hs H]].
    destruct s as [[key r2]|]; [|left; eapply pfail_inv; eauto].
    apply pstring_sound in Hs. destruct Hs as (sb & H1 & H2 & H3). subst t st1.
    destruct (trim r2) as [|c3 r4] eqn:Et3; cbn [has rd bind adv] in H; [left; eapply pfail_inv; eauto|].
    destruct (c3 =? jc_colon) eqn:E2; cbn [bind adv] in H; [|left; eapply pfail_inv; eauto].
    apply N.eqb_eq in E2; subst c3.
    apply bind_JOk in H. destruct H as [[[v1 r6] st2] [Hv H]].
    apply IHv in Hv. destruct Hv as [[Hv1 Hv2]|[Hv1 Hv2]].
    { subst. cbn [trim has] in H. left. eapply pfail_inv; eauto. }
    subst st2.
    destruct (trim r6) as [|c7 r8] eqn:Et7; cbn [has rd bind adv] in H; [left; eapply pfail_inv; eauto|].
    destruct (c7 =? jc_comma) eqn:E3.
    { apply N.eqb_eq in E3; subst c7. cbn [bind adv] in H. apply IHo in H.
      destruct H as [H|(out & H4 & H5 & H6)]; [left; assumption|].
      right. exists out. split; [assumption|]. split; [|assumption].
      eapply M_more; eauto. }
    destruct (c7 =? jc_ecurly) eqn:E4; [|left; eapply pfail_inv; eauto].
    apply N.eqb_eq in E4; subst c7. cbn [bind adv] in H. inversion H; subst.
    right. eexists. split; [reflexivity|]. split; [|reflexivity].
    eapply M_last; eauto.
  - (* arr_loop *)
    intros w acc r v r' st' H. cbn [arr_loop] in H.
    destruct (has r) eqn:Eh; [|left; eapply pfail_inv; eauto].
    apply bind_JOk in H. destruct H as [[[v1 r1] st1] [Hv H]].
    apply IHv in Hv. destruct Hv as [[Hv1 Hv2]|[Hv1 Hv2]].
    { subst. cbn [trim has] in H. left. eapply pfail_inv; eauto. }
    subst st1.
    destruct (trim r1) as [|c2 r3] eqn:Et; cbn [has rd bind adv] in H; [left; eapply pfail_inv; eauto|].
    destruct (c2 =? jc_comma) eqn:E3.
    { apply N.eqb_eq in E3; subst c2. cbn [bind adv] in H. apply IHa in H.
      destruct H as [H|(out & H4 & H5 & H6)]; [left; assumption|].
      right. exists out. split; [assumption|]. split; [|assumption].
      eapply E_more; eauto. }
    destruct (c2 =? jc_esquare) eqn:E4; [|left; eapply pfail_inv; eauto].
    apply N.eqb_eq in E4; subst c2. cbn [bind adv] in H. inversion H; subst.
    right. eexists. split; [reflexivity|]. split; [|reflexivity].
    eapply E_last; eauto.
Qed.

(* ---------------- values of the grammar are defined; consumed text is a proper prefix ------------- *)
Lemma obj_insert_defined : forall acc k v,
  forallb (fun kv => definedb (snd kv)) acc = true -> definedb v = true ->
  forallb (fun kv : list N * jv => definedb (snd kv)) (obj_insert acc k v) = true.
Proof.
  induction acc as [|[k' v'] t IH]; intros k v Ha Hv; cbn in *.
  - rewrite Hv. reflexivity.
  - apply andb_true_iff in Ha. destruct Ha as [H1 H2].
    destruct (list_eqb k k'); cbn; [rewrite Hv|rewrite H1, IH]; auto.
Qed.

Lemma Val_defined_all : forall w,
  (forall r v r', Val w r v r' -> definedb v = true) /\
  (forall r acc out r', Elems w r acc out r' -> forallb definedb acc = true -> forallb definedb out = true) /\
  (forall r acc out r', Members w r acc out r' ->
     forallb (fun kv => definedb (snd kv)) acc = true -> forallb (fun kv : list N * jv => definedb (snd kv)) out = true).
Proof.
  intros w. apply (Val_mutind w
    (fun r v r' => definedb v = true)
    (fun r acc out r' => forallb definedb acc = true -> forallb definedb out = true)
    (fun r acc out r' => forallb (fun kv => definedb (snd kv)) acc = true ->
                         forallb (fun kv : list N * jv => definedb (snd kv)) out = true)); intros; cbn; auto.
  - destruct n; cbn in *; try discriminate; inversion H1; subst; reflexivity.
  - rewrite forallb_app. cbn. rewrite H2, H0. reflexivity.
  - apply H3. rewrite forallb_app. cbn. rewrite H4, H0. reflexivity.
  - apply obj_insert_defined; auto.
  - apply H5. apply obj_insert_defined; auto.
Qed.

Lemma Val_defined : forall w r v r', Val w r v r' -> definedb v = true.
Proof. intros w. apply (Val_defined_all w). Qed.

Lemma trim_split : forall r c t, trim r = c :: t -> exists ws, r = ws ++ c :: t /\ all_ws ws.
Proof. intros r c t H. destruct (trim_suffix r) as [ws [H1 H2]]. exists ws. rewrite H in H1. auto. Qed.

Lemma Val_consumes_all : forall w,
  (forall r v r', Val w r v r' -> exists body, body <> [] /\ r = body ++ r') /\
  (forall r acc out r', Elems w r acc out r' -> exists body, body <> [] /\ r = body ++ r') /\
  (forall r acc out r', Members w r acc out r' -> exists body, body <> [] /\ r = body ++ r').
Proof.
  intros w. apply (Val_mutind w
    (fun r v r' => exists body, body <> [] /\ r = body ++ r')
    (fun r acc out r' => exists body, body <> [] /\ r = body ++ r')
    (fun r acc out r' => exists body, body <> [] /\ r = body ++ r')); intros.
  - exists (strip0 jc_null_lit). split; [discriminate|reflexivity].
  - exists (strip0 jc_true_lit). split; [discriminate|reflexivity].
  - exists (strip0 jc_false_lit). split; [discriminate|reflexivity].
  - eapply scan_number_suffix; eauto. destruct n; cbn in *; try discriminate; inversion H1; reflexivity.
  - exists (jc_quote :: sb ++ [jc_quote]). split; [discriminate|]. cbn. rewrite <- app_assoc. reflexivity.
  - apply trim_split in H. destruct H as (ws & H1 & _). exists (jc_ssquare :: ws ++ [jc_esquare]).
    split; [discriminate|]. subst r1. cbn. rewrite <- app_assoc. reflexivity.
  - destruct H0 as (body & Hb & H0). destruct (trim_suffix r1) as (ws & H1 & _). rewrite H0 in H1.
    exists (jc_ssquare :: ws ++ body). split; [discriminate|]. subst r1. cbn. rewrite <- app_assoc. reflexivity.
  - apply trim_split in H. destruct H as (ws & H1 & _). exists (jc_scurly :: ws ++ [jc_ecurly]).
    split; [discriminate|]. subst r1. cbn. rewrite <- app_assoc. reflexivity.
  - destruct H0 as (body & Hb & H0). destruct (trim_suffix r1) as (ws & H1 & _). rewrite H0 in H1.
    exists (jc_scurly :: ws ++ body). split; [discriminate|]. subst r1. cbn. rewrite <- app_assoc. reflexivity.
  - destruct H0 as (body & Hb & H0). apply trim_split in H1. destruct H1 as (ws & H1 & _).
    exists (body ++ ws ++ [jc_esquare]). split; [destruct body; [congruence|discriminate]|].
    subst. rewrite <- !app_assoc. reflexivity.
  - destruct H0 as (body & Hb & H0). apply trim_split in H1. destruct H1 as (ws & H1 & _).
    destruct H3 as (body2 & Hb2 & H3). destruct (trim_suffix r2) as (ws2 & H4 & _). rewrite H3 in H4.
    exists (body ++ ws ++ jc_comma :: ws2 ++ body2). split; [destruct body; [congruence|discriminate]|].
    subst. rewrite <- !app_assoc. cbn. rewrite <- !app_assoc. reflexivity.
  - apply trim_split in H0. destruct H0 as (ws & H0 & _).
    destruct H2 as (body & Hb & H2). destruct (trim_suffix r3) as (ws3 & H4 & _). rewrite H2 in H4.
    apply trim_split in H3. destruct H3 as (ws4 & H3 & _).
    exists (jc_quote :: sb ++ jc_quote :: ws ++ jc_colon :: ws3 ++ body ++ ws4 ++ [jc_ecurly]). split; [discriminate|].
    subst. cbn. repeat (rewrite <- !app_assoc; cbn). reflexivity.
  - apply trim_split in H0. destruct H0 as (ws & H0 & _).
    destruct H2 as (body & Hb & H2). destruct (trim_suffix r3) as (ws3 & H6 & _). rewrite H2 in H6.
    apply trim_split in H3. destruct H3 as (ws4 & H3 & _).
    destruct H5 as (body5 & Hb5 & H5). destruct (trim_suffix r5) as (ws5 & H7 & _). rewrite H5 in H7.
    exists (jc_quote :: sb ++ jc_quote :: ws ++ jc_colon :: ws3 ++ body ++ ws4 ++ jc_comma :: ws5 ++ body5). split; [discriminate|].
    subst. cbn. repeat (rewrite <- !app_assoc; cbn). reflexivity.
Qed.

(* ---------------- the top-level statement ---------------- *)
Theorem parse_fuel_sound : forall f w s v,
  parse_fuel f w s = JOk v -> v = JUndef \/ (definedb v = true /\ Document w s v).
Proof.
  intros f w s v H. unfold parse_fuel in H.
  destruct (length s =? 0)%nat; [inversion H; left; reflexivity|].
  apply bind_JOk in H. destruct H as [[[v1 r1] st1] [Hv H]].
  destruct (has (trim r1)) eqn:Eh; inversion H; subst; [left; reflexivity|].
  destruct (psound_all f) as [Hs _]. apply Hs in Hv. destruct Hv as [[Hv _]|[Hv _]]; [left; assumption|].
  right. split; [eapply Val_defined; eauto|]. exists r1. split; [assumption|].
  destruct (trim r1); [reflexivity|discriminate].
Qed.

Theorem document_shape : forall w s v, Document w s v ->
  exists ws1 body ws2, s = ws1 ++ body ++ ws2 /\ all_ws ws1 /\ all_ws ws2 /\ body <> [] /\ Val w (body ++ ws2) v ws2.
Proof.
  intros w s v (r1 & Hv & Ht).
  destruct (trim_suffix s) as (ws1 & H1 & Hw1).
  destruct (proj1 (Val_consumes_all w) _ _ _ Hv) as (body & Hb & H2).
  destruct (trim_suffix r1) as (ws2 & H3 & Hw2). rewrite Ht, app_nil_r in H3. subst r1.
  exists ws1, body, ws2. rewrite H2 in H1. repeat split; auto. rewrite <- H2. assumption.
Qed.

(* ---------------- no out-of-bounds read, no overrun, termination ---------------- *)
Definition okres (f bound : nat) (r : list N) (x : jres pres) : Prop :=
  match x with
  | JErr e => e = Fuel /\ (f <= bound)%nat
  | JOk (v, r', st') => (length r' <= length r)%nat
  end.

Lemma okres_weaken : forall f b1 b r1 r x,
  okres f b1 r1 x -> (length r1 <= length r)%nat -> (S b1 <= b)%nat -> okres (S f) b r x.
Proof. intros f b1 b r1 r x H Hl Hb. destruct x as [[[v r'] st']|e]; cbn in *; [lia|]. destruct H. split; [assumption|lia]. Qed.

Lemma okres_fail : forall f b r st, okres f b r (pfail st).
Proof. intros. cbn. lia. Qed.

Ltac len_lia :=
  cbn in *;
  repeat match goal with
         | H : _ |- _ =>
           lazymatch type of H with
           | (_ <= _)%nat => fail
           | (_ < _)%nat => fail
           | @eq nat _ _ => fail
           | _ => clear H
           end
         end; lia.

(* a value needs at most 2|r| levels of fuel, a member / element loop 2|r|+1 *)
Definition pnoerr (f : nat) : Prop :=
  (forall w st r, okres f (2 * length r) r (pval f w st r)) /\
  (forall w acc st r, okres f (2 * length r + 1) r (obj_loop f w acc st r)) /\
  (forall w acc st r, okres f (2 * length r + 1) r (arr_loop f w acc st r)).

Lemma kw_okres : forall f b lit body l0 v t c st, lit = l0 :: body ++ [0] -> Forall (fun t => t <> 0) body ->
  okres f b (c :: t)
    (k <- kw_match lit v t ;; match k with Some (v, r2) => JOk (v, r2, st) | None => pfail st end).
Proof.
  intros f b lit body l0 v t c st Hl Hb. subst lit.
  destruct (kw_match_spec l0 body v t Hb) as [(r2 & H1 & H2)|[H1 H2]]; rewrite H2; cbn [bind].
  - cbn. subst t. rewrite app_length. lia.
  - cbn. lia.
Qed.

Lemma pnoerr_all : forall f, pnoerr f.
Proof.
  induction f as [|f [IHv [IHo IHa]]].
  { repeat split; intros; cbn; lia. }
  split; [|split].
  - intros w st r. cbn [pval].
    destruct r as [|c t]; cbn [has negb rd bind adv]; [apply okres_fail|].
    destruct (c =? jc_scurly).
    { pose proof (trim_length t) as Hl.
      destruct (trim t) as [|c2 r3] eqn:Et; cbn [has negb rd bind adv].
      - eapply okres_weaken; [apply (IHo w [] st [])|len_lia|len_lia].
      - destruct (c2 =? jc_ecurly); cbn [bind adv].
        + len_lia.
        + eapply okres_weaken; [apply (IHo w [] st (c2 :: r3))|len_lia|len_lia]. }
    destruct (c =? jc_ssquare).
    { pose proof (trim_length t) as Hl.
      destruct (trim t) as [|c2 r3] eqn:Et; cbn [has negb rd bind adv].
      - eapply okres_weaken; [apply (IHa w [] st [])|len_lia|len_lia].
      - destruct (c2 =? jc_esquare); cbn [bind adv].
        + len_lia.
        + eapply okres_weaken; [apply (IHa w [] st (c2 :: r3))|len_lia|len_lia]. }
    destruct (c =? jc_quote).
    { destruct (pstring w t st) as [[s st1]|e] eqn:Es; [|exfalso; eapply pstring_no_err; eauto].
      cbn [bind]. destruct s as [[str r2]|]; [|apply okres_fail].
      apply pstring_shorter in Es. cbn. lia. }
    destruct (c =? jc_t). { eapply (kw_okres _ _ jc_true_lit [114; 117; 101] 116); [reflexivity|repeat constructor; discriminate]. }
    destruct (c =? jc_f). { eapply (kw_okres _ _ jc_false_lit [97; 108; 115; 101] 102); [reflexivity|repeat constructor; discriminate]. }
    destruct (c =? jc_n). { eapply (kw_okres _ _ jc_null_lit [117; 108; 108] 110); [reflexivity|repeat constructor; discriminate]. }
    destruct (scan_number (c :: t)) as [n|e] eqn:En; [|exfalso; eapply scan_number_no_err; eauto].
    cbn [bind].
    destruct n as [|x r2|z r2|r2]; try apply okres_fail;
      (destruct (scan_number_suffix _ _ r2 En eq_refl) as (body & Hb & H1);
       apply (f_equal (@length N)) in H1; rewrite app_length in H1; len_lia).
  - intros w acc st r. cbn [obj_loop].
    destruct r as [|c t]; cbn [has rd bind adv]; [apply okres_fail|].
    destruct (c =? jc_quote); cbn [bind adv]; [|apply okres_fail].
    destruct (pstring w t st) as [[s st1]|e] eqn:Es; [|exfalso; eapply pstring_no_err; eauto].
    cbn [bind]. destruct s as [[key r2]|]; [|apply okres_fail].
    apply pstring_shorter in Es.
    pose proof (trim_length r2) as Hl2.
    destruct (trim r2) as [|c3 r4] eqn:Et3; cbn [has rd bind adv]; [apply okres_fail|].
    destruct (c3 =? jc_colon); cbn [bind adv]; [|apply okres_fail].
    pose proof (trim_length r4) as Hl4.
    pose proof (IHv w st1 (trim r4)) as Hv.
    destruct (pval f w st1 (trim r4)) as [[[v1 r6] st2]|e] eqn:Ev; cbn [bind].
    2:{ cbn in Hv. destruct Hv as [Hv1 Hv2]. split; [assumption|len_lia]. }
    cbn in Hv. pose proof (trim_length r6) as Hl6.
    destruct (trim r6) as [|c7 r8] eqn:Et7; cbn [has rd bind adv]; [apply okres_fail|].
    destruct (c7 =? jc_comma); cbn [bind adv].
    { pose proof (trim_length r8) as Hl8.
      eapply okres_weaken; [apply IHo|len_lia|len_lia]. }
    destruct (c7 =? jc_ecurly); cbn [bind adv]; [|apply okres_fail].
    len_lia.
  - intros w acc st r. cbn [arr_loop].
    destruct r as [|c t]; cbn [has]; [apply okres_fail|].
    pose proof (IHv w st (c :: t)) as Hv.
    destruct (pval f w st (c :: t)) as [[[v1 r1] st1]|e] eqn:Ev; cbn [bind].
    2:{ cbn in Hv. destruct Hv as [Hv1 Hv2]. split; [assumption|len_lia]. }
    cbn in Hv. pose proof (trim_length r1) as Hl1.
    destruct (trim r1) as [|c2 r3] eqn:Et; cbn [has rd bind adv]; [apply okres_fail|].
    destruct (c2 =? jc_comma); cbn [bind adv].
    { pose proof (trim_length r3) as Hl3.
      eapply okres_weaken; [apply IHa|len_lia|len_lia]. }
    destruct (c2 =? jc_esquare); cbn [bind adv]; [|apply okres_fail].
    len_lia.
Qed.

Theorem parse_fuel_no_err : forall f w s e, parse_fuel f w s = JErr e -> e = Fuel /\ (f <= 2 * length s)%nat.
Proof.
  intros f w s e H. unfold parse_fuel in H.
  destruct (length s =? 0)%nat; [discriminate|].
  destruct (pnoerr_all f) as [Hv _]. specialize (Hv w [] (trim s)).
  destruct (pval f w [] (trim s)) as [[[v1 r1] st1]|e1]; cbn [bind] in H.
  - destruct (has (trim r1)); discriminate.
  - inversion H; subst. cbn in Hv. pose proof (trim_length s). split; [tauto|lia].
Qed.

Theorem parse_total : forall w s, exists v, parse w s = JOk v /\ (v = JUndef \/ (definedb v = true /\ Document w s v)).
Proof.
  intros w s. unfold parse. destruct (parse_fuel (2 * length s + 4) w s) as [v|e] eqn:E.
  - exists v. split; [reflexivity|]. eapply parse_fuel_sound; eauto.
  - apply parse_fuel_no_err in E. lia.
Qed.

(* ---------------- the caller's scratch stream (D81) ---------------- *)
(* whatever the scratch stream holds on entry, the result is that of a parse with a fresh stream *)
Theorem parse_stream_any : forall w st s,
  match parse_stream w st s with JOk (v, _) => JOk v | JErr e => JErr e end = parse w s.
Proof.
  intros w st s. unfold parse_stream, parse_stream_fuel, parse, parse_fuel.
  destruct (length s =? 0)%nat; [reflexivity|].
  destruct (pval (2 * length s + 4) w [] (trim s)) as [[[v r1] st1]|e]; cbn [bind]; [|reflexivity].
  destruct (has (trim r1)); reflexivity.
Qed.

(* a sequence of texts through one stream: every result is the result for that text alone *)
Theorem parse_history_independent : forall w texts st, parse_history w st texts = map (parse w) texts.
Proof.
  intros w texts. induction texts as [|s more IH]; intros st; [reflexivity|]. cbn [parse_history map].
  pose proof (parse_stream_any w st s) as H.
  destruct (parse_stream w st s) as [[v st']|e]; rewrite <- H; f_equal; apply IH.
Qed.

(* what D81 repaired: WITHOUT the clearing step a leftover shows up in the next escaped string.
   Stream [a; LF] as left by a failed parse; the text  [ quote x backslash t y quote ]  then yields  a LF x TAB y *)
Example d81_leftover_without_clear :
  pval 20 0 [97; 10] [91; 34; 120; 92; 116; 121; 34; 93] = JOk (JArr [JStr [97; 10; 120; 9; 121]], [], []) /\
  parse_stream 0 [97; 10] [91; 34; 120; 92; 116; 121; 34; 93] = JOk (JArr [JStr [120; 9; 121]], []).
Proof. split; vm_compute; reflexivity. Qed.
