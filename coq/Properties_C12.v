(* Properties_C12.v -- a Value behaves as an abstract JSON document under every
   operation sequence.  Statements only; proofs in ValueProofs.v / ValueProofsObs.v. *)
From Coq Require Import NArith ZArith List Bool.
From Qv Require Import ValueModel ValueProofs ValueProofsObs.
Import ListNotations.

(* One step: for every state-changing operation family (assignment, keyed and
   indexed write, append, += of values, Merge, Insert, Remove, RemoveIndex,
   Reset, Compress, copy / move assignment and construction, pointer-to-value,
   GroupBy) the abstraction of the model's next state is the specification's
   next state, with the same outcome (done / skipped / unspecified). *)
Theorem c12_step_refines : forall st o, is_reader o = false ->
    oc_abs (step st o) = d_step (abss st) o.
Proof. exact step_abs. Qed.
Print Assumptions c12_step_refines.

(* Histories: after ANY finite sequence of operations (reads included) the
   model's state abstracts to the specification's state; an unspecified
   positional operation on an object with a removed entry is reached in the
   model exactly when it is reached in the specification. *)
Theorem c12_history_refines : forall ops st,
    oc_abs (final st ops) = d_final (abss st) ops.
Proof. exact history_refines. Qed.
Print Assumptions c12_history_refines.

(* Copies are deep: a copy abstracts to a fresh document (no dirty object in it). *)
Theorem c12_copy_is_fresh_document : forall v, abs (copy_value v) = d_copy (abs v).
Proof. exact copy_abs. Qed.
Print Assumptions c12_copy_is_fresh_document.

(* Compress is the document compaction. *)
Theorem c12_compress_is_compaction : forall v, abs (compress v) = d_compact (abs v).
Proof. exact compress_abs. Qed.
Print Assumptions c12_compress_is_compaction.

(* A moved-from value is Undefined (+=, Merge, Insert with an rvalue). *)
Theorem c12_moved_from_undefined : forall v1 v2 k,
    is_undef (snd (append_v true v1 v2)) = true
    /\ is_undef (snd (merge_v true v1 v2)) = true
    /\ is_undef (snd (insert_v v1 k v2)) = true.
Proof. exact moved_from_undefined. Qed.
Print Assumptions c12_moved_from_undefined.

(* Path lookups (GetValue by key / index along a path) agree. *)
Theorem c12_lookup_agrees : forall p v, oabs (get_at p v) = d_get_at p (abs v).
Proof. exact get_at_abs. Qed.
Print Assumptions c12_lookup_agrees.
