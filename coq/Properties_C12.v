(* Properties_C12.v -- a Value behaves as an abstract JSON document under every
   operation sequence.  Statements only; proofs in ValueProofs.v / ValueProofsObs.v. *)
From Coq Require Import NArith ZArith List Bool.
From Qv Require Import ValueModel ValueProofs ValueProofsObs ValueProofsRead.
Import ListNotations.

(* One step: for every state-changing operation family (assignment, keyed and
   indexed write, append, += of values, Merge, Insert, Remove, RemoveIndex,
   Reset, Compress, copy / move assignment and construction, pointer-to-value,
   GroupBy) the abstraction of the model's next state is the specification's
   next state, with the same outcome (done / skipped / unspecified). *)
Theorem c12_step_refines : forall st o, is_reader o = false ->
    oc_abs (step st o) = d_step (abss st) o.
Proof. exact step_abs. Qed.
Print Assumptions c12_step_refines.

(* Histories: after ANY finite sequence of operations (reads included) the
   model's state abstracts to the specification's state; an unspecified
   positional operation on an object with a removed entry is reached in the
   model exactly when it is reached in the specification. *)
Theorem c12_history_refines : forall ops st,
    oc_abs (final st ops) = d_final (abss st) ops.
Proof. exact history_refines. Qed.
Print Assumptions c12_history_refines.

(* Copies are deep: a copy abstracts to a fresh document (no dirty object in it). *)
Theorem c12_copy_is_fresh_document : forall v, abs (copy_value v) = d_copy (abs v).
Proof. exact copy_abs. Qed.
Print Assumptions c12_copy_is_fresh_document.

(* Compress is the document compaction. *)
Theorem c12_compress_is_compaction : forall v, abs (compress v) = d_compact (abs v).
Proof. exact compress_abs. Qed.
Print Assumptions c12_compress_is_compaction.

(* A moved-from value is Undefined (+=, Merge, Insert with an rvalue). *)
Theorem c12_moved_from_undefined : forall v1 v2 k,
    is_undef (snd (append_v true v1 v2)) = true
    /\ is_undef (snd (merge_v true v1 v2)) = true
    /\ is_undef (snd (insert_v v1 k v2)) = true.
Proof. exact moved_from_undefined. Qed.
Print Assumptions c12_moved_from_undefined.

(* Path lookups (GetValue by key / index along a path) agree. *)
Theorem c12_lookup_agrees : forall p v, oabs (get_at p v) = d_get_at p (abs v).
Proof. exact get_at_abs. Qed.
Print Assumptions c12_lookup_agrees.

(* ---- every read is a function of the abstract document ---- *)

(* The canonical getter dump (kind tests, keys and values by index and by key,
   iteration, Size -- '?' for an object that holds a removed entry) plus the
   Stringify skeleton of a value is the dump of its abstraction. *)
Theorem c12_dump_is_document_dump : forall v, dump_value v = d_dump_value (abs v).
Proof. exact dump_value_abs. Qed.
Print Assumptions c12_dump_is_document_dump.

Theorem c12_stringify_is_document_text : forall v, stringify v = d_stringify (abs v).
Proof. exact stringify_abs. Qed.
Print Assumptions c12_stringify_is_document_text.

(* The typed getters and coercions (SetNumber, GetUInt64/GetInt64/GetDouble,
   SetBool, SetCharAndLength, CopyValueTo, Length, Size), through one pointer. *)
Theorem c12_typed_reads_are_document_reads : forall v, read_value v = d_read (abs v).
Proof. exact read_value_abs. Qed.
Print Assumptions c12_typed_reads_are_document_reads.

(* One step of ANY operation, outputs included. *)
Theorem c12_step_refines_all : forall st o, oc_abs (step st o) = d_step (abss st) o.
Proof. exact step_abs_all. Qed.
Print Assumptions c12_step_refines_all.

(* Histories, text level: for every finite operation sequence the complete
   observable trace of the model (per step: the operation's own output, then
   the dump of every variable; 'S' skipped; 'X' unspecified) is the trace of
   the document specification. *)
Theorem c12_every_read_is_predicted : forall ops, run_model ops = run_spec ops.
Proof. exact run_model_is_run_spec. Qed.
Print Assumptions c12_every_read_is_predicted.

Theorem c12_trace_refines : forall ops st, run st ops = d_run (abss st) ops.
Proof. exact run_abs. Qed.
Print Assumptions c12_trace_refines.

(* The planner (which positional operations are unspecified) is decided by the
   specification alone. *)
Theorem c12_plan_is_spec_plan : forall ops st, plan st ops = d_plan (abss st) ops.
Proof. exact plan_abs. Qed.
Print Assumptions c12_plan_is_spec_plan.

(* Coercions agree with the stored content. *)
Theorem c12_coercions_agree :
  (forall n, get_uint64 (set_number (SUInt n)) = n /\ get_double_q (set_number (SUInt n)) = (real_den * Z.of_N n)%Z
             /\ set_bool (SUInt n) = Some (0 <? n)%N)
  /\ (forall z, get_int64 (set_number (SInt z)) = z /\ get_uint64 (set_number (SInt z)) = wrap_u64 z
                /\ get_double_q (set_number (SInt z)) = (real_den * z)%Z /\ set_bool (SInt z) = Some (Z.ltb 0 z))
  /\ (forall q, get_double_q (set_number (SReal q)) = q /\ get_int64 (set_number (SReal q)) = Z.quot q real_den
                /\ set_bool (SReal q) = Some (Z.ltb 0 q))
  /\ (set_number STrue = NNat 1 /\ set_number SFalse = NNat 0 /\ set_number SNull = NNat 0
      /\ set_bool STrue = Some true /\ set_bool SFalse = Some false /\ set_bool SNull = Some false)
  /\ (forall t, set_number (SStr t) = parse_num t /\ char_and_length (SStr t) = Some t /\ scalar_text (SStr t) = t).
Proof. exact coercions_agree. Qed.
Print Assumptions c12_coercions_agree.

Theorem c12_signed_unsigned_roundtrip : forall z,
    (- two63 <= z < two63)%Z -> wrap_i64 (Z.of_N (wrap_u64 z)) = z.
Proof. exact wrap_roundtrip. Qed.
Print Assumptions c12_signed_unsigned_roundtrip.
