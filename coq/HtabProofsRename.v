(* HtabProofsRename.v -- C13: Rename relinks the item without moving it
   (HashTable.hpp:207-236), including the aliasing cases where the link to patch
   in the target bucket is the renamed item's own Next field. *)
From Coq Require Import List NArith Arith Bool Lia ZifyBool ZifyNat ZifyN.
From Qv Require Import HtabModel HtabProofsBase HtabProofsInv HtabProofsOps HtabProofsOps2 HtabProofsOps3.
Import ListNotations.

Lemma upd_upd {A} (l : list A) i x y : upd (upd l i x) i y = upd l i y.
Proof. revert i; induction l as [|a l IH]; intros [|i]; simpl; auto. f_equal. apply IH. Qed.

Section Rename.
Context {K V : Type}.
Variable keqb : K -> K -> bool.
Variable H : K -> N.
Variable kdef : K.
Variable vdef : V.
Hypothesis keqb_spec : forall a b, keqb a b = true <-> a = b.
Hypothesis H_nz : forall k, H k <> 0%N.

Notation ht := (ht K V).
Notation item := (item K V).
Notation it := (@it K V kdef vdef).
Notation rd_link := (@rd_link K V kdef vdef).
Notation wr_link := (@wr_link K V kdef vdef).
Notation set_item := (@set_item K V).
Notation find_key := (@find_key K V keqb kdef vdef).
Notation rename := (@rename K V keqb H kdef vdef).
Notation Seg := (@Seg K V kdef vdef).
Notation Inv := (@Inv K V H kdef vdef).
Notation items_ok := (@items_ok K V H).
Notation hash_ok := (@hash_ok K V H).
Notation bucket_chain := (@bucket_chain K V kdef vdef).
Notation live_at := (@live_at K V kdef vdef).
Notation live_l := (@live_l K V).
Notation kv := (@kv K V).
Notation no_dead := (@no_dead K V).
Notation link_ok := (@link_ok K V).
Local Notation Inv_empty := (@Inv_empty K V keqb H kdef vdef).
Local Notation Inv_bucket_lt := (@Inv_bucket_lt K V keqb H kdef vdef).
Local Notation live_item_iff := (@live_item_iff K V keqb H kdef vdef).
Local Notation items_ok_idx := (@items_ok_idx K V keqb H kdef vdef).
Local Notation bucket_chain_frame := (@bucket_chain_frame K V keqb H kdef vdef).
Local Notation link_end_step := (@link_end_step K V keqb H kdef vdef).
Local Notation matches_iff := (@matches_iff K V keqb H kdef vdef keqb_spec H_nz).
Local Notation find_key_inv := (@find_key_inv K V keqb H kdef vdef keqb_spec H_nz).
Local Notation live_is_live_l := (@live_is_live_l K V keqb H kdef vdef keqb_spec H_nz).
Local Notation live_l_app := (@live_l_app K V keqb H kdef vdef keqb_spec H_nz).
Local Notation keqb_refl := (@keqb_refl K V keqb H kdef vdef keqb_spec H_nz).
Local Notation keqb_neq := (@keqb_neq K V keqb H kdef vdef keqb_spec H_nz).
Local Notation sp_get_none := (@sp_get_none K V keqb H kdef vdef keqb_spec H_nz).
Local Notation sp_get_found := (@sp_get_found K V keqb H kdef vdef keqb_spec H_nz).
Local Notation sp_index_none := (@sp_index_none K V keqb H kdef vdef keqb_spec H_nz).
Local Notation sp_index_found := (@sp_index_found K V keqb H kdef vdef keqb_spec H_nz).
Local Notation sp_put_fresh := (@sp_put_fresh K V keqb H kdef vdef keqb_spec H_nz).
Local Notation sp_put_found := (@sp_put_found K V keqb H kdef vdef keqb_spec H_nz).
Local Notation sp_remove_none := (@sp_remove_none K V keqb H kdef vdef keqb_spec H_nz).
Local Notation sp_remove_found := (@sp_remove_found K V keqb H kdef vdef keqb_spec H_nz).
Local Notation sp_rekey_found := (@sp_rekey_found K V keqb H kdef vdef keqb_spec H_nz).
Local Notation In_nth_lt := (@In_nth_lt K V keqb H kdef vdef keqb_spec H_nz).
Local Notation split_at := (@split_at K V keqb H kdef vdef keqb_spec H_nz).
Local Notation no_key_before := (@no_key_before K V keqb H kdef vdef keqb_spec H_nz).
Local Notation no_key_all := (@no_key_all K V keqb H kdef vdef keqb_spec H_nz).
Local Notation live_l_replace := (@live_l_replace K V keqb H kdef vdef keqb_spec H_nz).
Local Notation live_upd_same := (@live_upd_same K V keqb H kdef vdef keqb_spec H_nz).
Local Notation live_wr := (@live_wr K V keqb H kdef vdef keqb_spec H_nz).
Local Notation hash_ok_it := (@hash_ok_it K V keqb H kdef vdef keqb_spec H_nz).
Local Notation items_ok_wr := (@items_ok_wr K V keqb H kdef vdef keqb_spec H_nz).
Local Notation set_val_inv := (@set_val_inv K V keqb H kdef vdef keqb_spec H_nz).
Local Notation insert_item_inv := (@insert_item_inv K V keqb H kdef vdef keqb_spec H_nz).
Local Notation gh_step_inv := (@gh_step_inv K V keqb H kdef vdef keqb_spec H_nz).
Local Notation gh_loop_inv := (@gh_loop_inv K V keqb H kdef vdef keqb_spec H_nz).
Local Notation live_of_fields := (@live_of_fields K V keqb H kdef vdef keqb_spec H_nz).
Local Notation hash_ok_of_fields := (@hash_ok_of_fields K V keqb H kdef vdef keqb_spec H_nz).
Local Notation generate_hash_inv := (@generate_hash_inv K V keqb H kdef vdef keqb_spec H_nz).
Local Notation live_filter := (@live_filter K V keqb H kdef vdef keqb_spec H_nz).
Local Notation no_dead_fields := (@no_dead_fields K V keqb H kdef vdef keqb_spec H_nz).
Local Notation resize_inv := (@resize_inv K V keqb H kdef vdef keqb_spec H_nz).
Local Notation live_length_le := (@live_length_le K V keqb H kdef vdef keqb_spec H_nz).
Local Notation no_dead_live_length := (@no_dead_live_length K V keqb H kdef vdef keqb_spec H_nz).
Local Notation grow_if_full_inv := (@grow_if_full_inv K V keqb H kdef vdef keqb_spec H_nz).
Local Notation sp_put_absent := (@sp_put_absent K V keqb H kdef vdef keqb_spec H_nz).
Local Notation no_dead_set_val := (@no_dead_set_val K V keqb H kdef vdef keqb_spec H_nz).
Local Notation no_dead_wr := (@no_dead_wr K V keqb H kdef vdef keqb_spec H_nz).
Local Notation insert_refines := (@insert_refines K V keqb H kdef vdef keqb_spec H_nz).
Local Notation get_refines := (@get_refines K V keqb H kdef vdef keqb_spec H_nz).
Local Notation NoDup_keys_sp_remove := (@NoDup_keys_sp_remove K V keqb H kdef vdef keqb_spec H_nz).
Local Notation unlink_inv := (@unlink_inv K V keqb H kdef vdef keqb_spec H_nz).
Local Notation live_nil_of_size0 := (@live_nil_of_size0 K V keqb H kdef vdef keqb_spec H_nz).
Local Notation remove_refines := (@remove_refines K V keqb H kdef vdef keqb_spec H_nz).
Local Notation lookup_spec := (@lookup_spec K V keqb H kdef vdef keqb_spec H_nz).
Local Notation no_dead_live_map := (@no_dead_live_map K V keqb H kdef vdef keqb_spec H_nz).
Local Notation live_l_firstn_all := (@live_l_firstn_all K V keqb H kdef vdef keqb_spec H_nz).
Local Notation index_clean := (@index_clean K V keqb H kdef vdef keqb_spec H_nz).
Local Notation get_slot_spec := (@get_slot_spec K V keqb H kdef vdef keqb_spec H_nz).
Local Notation key_index_key := (@key_index_key K V keqb H kdef vdef keqb_spec H_nz).
Local Notation index_key_index := (@index_key_index K V keqb H kdef vdef keqb_spec H_nz).
Local Notation remove_index_spec := (@remove_index_spec K V keqb H kdef vdef keqb_spec H_nz).
Local Notation sp_remove_nth_key := (@sp_remove_nth_key K V keqb H kdef vdef keqb_spec H_nz).
Local Notation remove_index_clean := (@remove_index_clean K V keqb H kdef vdef keqb_spec H_nz).
Local Notation chains_of_zero_heads := (@chains_of_zero_heads K V keqb H kdef vdef keqb_spec H_nz).
Local Notation Inv_fresh_nil := (@Inv_fresh_nil K V keqb H kdef vdef keqb_spec H_nz).
Local Notation reset_inv := (@reset_inv K V keqb H kdef vdef keqb_spec H_nz).
Local Notation reserve_inv := (@reserve_inv K V keqb H kdef vdef keqb_spec H_nz).
Local Notation clear_inv := (@clear_inv K V keqb H kdef vdef keqb_spec H_nz).
Local Notation filter_firstn_prefix := (@filter_firstn_prefix K V keqb H kdef vdef keqb_spec H_nz).
Local Notation items_ok_firstn := (@items_ok_firstn K V keqb H kdef vdef keqb_spec H_nz).
Local Notation resize_pub_inv := (@resize_pub_inv K V keqb H kdef vdef keqb_spec H_nz).
Local Notation expect_inv := (@expect_inv K V keqb H kdef vdef keqb_spec H_nz).
Local Notation compress_inv := (@compress_inv K V keqb H kdef vdef keqb_spec H_nz).
Local Notation copy_inv := (@copy_inv K V keqb H kdef vdef keqb_spec H_nz).
Local Notation merge_loop_inv := (@merge_loop_inv K V keqb H kdef vdef keqb_spec H_nz).
Local Notation merge_inv := (@merge_inv K V keqb H kdef vdef keqb_spec H_nz).
Local Set Default Proof Using "All".

(* ---------- set_item reads ---------- *)
Lemma it_set_item_same s i x : i < size s -> it (set_item s i x) i = x.
Proof. intros Hi. unfold HtabModel.it, HtabModel.set_item. simpl. apply nth_upd_same. exact Hi. Qed.
Lemma it_set_item_other s i x j : j <> i -> it (set_item s i x) j = it s j.
Proof. intros Hj. unfold HtabModel.it, HtabModel.set_item. simpl. apply nth_upd_other. auto. Qed.
Lemma size_set_item s i x : size (set_item s i x) = size s.
Proof. unfold size, HtabModel.set_item. simpl. apply length_upd. Qed.

(* ---------- extensionality of states ---------- *)
Lemma item_ext (x y : item) :
  ikey x = ikey y -> ihash x = ihash y -> inext x = inext y -> ival x = ival y -> x = y.
Proof. destruct x, y; simpl; intros; subst; reflexivity. Qed.
Lemma ht_ext (s s' : ht) :
  cap s = cap s' -> length (heads s) = length (heads s') ->
  (forall b, nth b (heads s) 0 = nth b (heads s') 0) ->
  size s = size s' -> (forall j, it s j = it s' j) -> s = s'.
Proof.
  destruct s as [c h its], s' as [c' h' its']. unfold size, HtabModel.it. simpl. intros -> Hl Hh Hs Hi.
  f_equal.
  - apply nth_ext with (d := 0) (d' := 0); auto.
  - apply nth_ext with (d := @dummy K V kdef vdef) (d' := @dummy K V kdef vdef); auto.
Qed.

(* chains of a state in which item i is (temporarily) in no chain *)
Definition chain_ex (s : ht) (i b : nat) (c : list nat) : Prop :=
  Seg s (nth b (heads s) 0) c 0 /\ NoDup c /\
  (forall j, In j c -> j < size s /\ j <> i /\ bucket (cap s) (ihash (it s j)) = b) /\
  (forall j, j < size s -> j <> i -> live_at s j -> bucket (cap s) (ihash (it s j)) = b -> In j c).

(* ---------- unlinking item i from its chain ---------- *)
Lemma unlink_chains s b pre i post :
  length (heads s) = cap s -> b < cap s ->
  bucket_chain s (size s) b (pre ++ i :: post) ->
  (forall b', b' < cap s -> exists c', bucket_chain s (size s) b' c') ->
  let u := wr_link s (link_after (Head b) pre) (inext (it s i)) in
  chain_ex u i b (pre ++ post) /\
  (forall b', b' < cap s -> b' <> b -> exists c', chain_ex u i b' c' /\ bucket_chain s (size s) b' c').
Proof.
  intros Hhd Hb (Hseg & Hnd & Hmem & Hcomp) Hch. set (L := link_after (Head b) pre). intros u.
  destruct (NoDup_app_parts pre post i Hnd) as (Hndpre & Hndpost & Hipre & Hipost & Hdisj & Hndpp).
  apply Seg_app in Hseg. destruct Hseg as (m & Hsegpre & (Hm & Hi & Hsegpost)).
  assert (Hszu : size u = size s) by (unfold u; apply size_wr).
  assert (Hcapu : cap u = cap s) by (unfold u; apply cap_wr).
  assert (Hfld : forall j, ihash (it u j) = ihash (it s j)) by (intros j; apply (it_wr_fields kdef vdef s L (inext (it s i)) j)).
  assert (HL : L = Head b \/ exists p, In p pre /\ L = NextOf p).
  { unfold L. destruct pre as [|p0 pre0]; [left; reflexivity|right].
    destruct (link_after_in (Head b) (p0 :: pre0) ltac:(discriminate)) as (p & Hp & E). exists p. auto. }
  assert (Hnext : forall j, ~ In j pre -> inext (it u j) = inext (it s j)).
  { intros j Hj. unfold u. apply it_wr_next_other. destruct HL as [->|(p & Hp & ->)]; [discriminate|].
    intros E. inversion E; subst. contradiction. }
  assert (Hbi : bucket (cap s) (ihash (it s i)) = b).
  { apply Hmem. apply in_or_app. right. left. reflexivity. }
  split.
  - split; [|split; [exact Hndpp|split]].
    + apply Seg_app. exists (inext (it s i)). split.
      * change (nth b (heads u) 0) with (rd_link u (Head b)). unfold u, L.
        apply Seg_wr with (m := m); auto.
        -- simpl. rewrite Hhd. exact Hb.
        -- intros p Hp. discriminate.
      * eapply Seg_frame; [|exact Hsegpost]. intros j Hj Hlt. split; [lia|].
        apply Hnext. intros Hjp. apply (Hdisj j Hjp Hj).
    + intros j Hj.
      assert (Hji : j <> i) by (intros ->; apply in_app_or in Hj; tauto).
      assert (Hj' : In j (pre ++ i :: post)).
      { apply in_app_or in Hj. apply in_or_app. destruct Hj; [left|right; right]; auto. }
      destruct (Hmem j Hj') as (Hlt & Hbj). rewrite Hszu, Hcapu, Hfld. auto.
    + intros j Hj Hji Hlj Hbj. unfold HtabProofsInv.live_at in Hlj. rewrite Hfld in Hlj. rewrite Hcapu, Hfld in Hbj.
      rewrite Hszu in Hj. specialize (Hcomp j Hj Hlj Hbj). apply in_app_or in Hcomp. apply in_or_app.
      destruct Hcomp as [Hc1|[Hc1|Hc1]]; [left; exact Hc1|congruence|right; exact Hc1].
  - intros b' Hb' Hne. destruct (Hch b' Hb') as (c' & Hbc'). exists c'. split; [|exact Hbc'].
    destruct Hbc' as (Hseg' & Hnd' & Hmem' & Hcomp').
    assert (Hic' : ~ In i c').
    { intros Hin. destruct (Hmem' i Hin) as (_ & E). congruence. }
    split; [|split; [exact Hnd'|split]].
    + assert (Hhd' : nth b' (heads u) 0 = nth b' (heads s) 0).
      { change (rd_link u (Head b') = rd_link s (Head b')).
        unfold u. apply rd_wr_other. destruct HL as [->|(p & _ & ->)]; [|discriminate].
        intros E. inversion E. auto. }
      rewrite Hhd'. eapply Seg_frame; [|exact Hseg']. intros j Hj Hlt. split; [lia|].
      apply Hnext. intros Hjp.
      assert (Hj' : In j (pre ++ i :: post)) by (apply in_or_app; auto).
      destruct (Hmem j Hj') as (_ & B1). destruct (Hmem' j Hj) as (_ & B2). congruence.
    + intros j Hj. destruct (Hmem' j Hj) as (Hlt & Hbj). rewrite Hszu, Hcapu, Hfld.
      split; [exact Hlt|]. split; [intros ->; contradiction|exact Hbj].
    + intros j Hj Hji Hlj Hbj. unfold HtabProofsInv.live_at in Hlj. rewrite Hfld in Hlj. rewrite Hcapu, Hfld in Hbj.
      rewrite Hszu in Hj. apply Hcomp'; auto.
Qed.

(* ---------- linking item i (in no chain, Next = 0) at the end of the chain of its bucket ---------- *)
Lemma link_end_gen s i b c :
  i < size s -> inext (it s i) = 0 -> b < length (heads s) ->
  bucket (cap s) (ihash (it s i)) = b ->
  chain_ex s i b c ->
  forall b', (b' = b \/ exists c', chain_ex s i b' c') ->
  exists c', bucket_chain (wr_link s (link_after (Head b) c) (S i)) (size s) b' c'.
Proof.
  intros Hn Hnext Hb Hbk (Hseg & Hnd & Hmem & Hcomp) b' Hb'.
  set (L := link_after (Head b) c). set (s2 := wr_link s L (S i)).
  assert (HLn : L <> NextOf i).
  { unfold L. destruct c as [|j c']; [discriminate|].
    destruct (link_after_in (Head b) (j :: c') ltac:(discriminate)) as (p & Hp & ->).
    intros E. inversion E; subst. destruct (Hmem i Hp) as (_ & Hne & _). apply Hne. reflexivity. }
  assert (Hfld : forall j, ihash (it s2 j) = ihash (it s j)).
  { intros j. apply (it_wr_fields kdef vdef s L (S i) j). }
  destruct (Nat.eq_dec b' b) as [->|Hne].
  - exists (c ++ [i]). split; [|split; [|split]].
    + apply Seg_app. exists (S i). split.
      * change (nth b (heads s2) 0) with (rd_link s2 (Head b)). unfold s2, L.
        apply Seg_wr with (m := 0); auto. intros p Hp. discriminate.
      * simpl. split; [reflexivity|]. split; [unfold s2; rewrite size_wr; exact Hn|].
        unfold s2. rewrite it_wr_next_other by exact HLn. exact Hnext.
    + apply NoDup_app_snoc; auto. intros Hin. destruct (Hmem i Hin) as (_ & Hne & _). apply Hne. reflexivity.
    + intros j Hj. apply in_app_or in Hj. unfold s2 at 1. rewrite cap_wr, Hfld. destruct Hj as [Hj|[<-|[]]].
      * destruct (Hmem j Hj) as (H1 & _ & H3). auto.
      * auto.
    + intros j Hj Hl Hbj. unfold HtabProofsInv.live_at in Hl. rewrite Hfld in Hl. unfold s2 in Hbj. rewrite cap_wr in Hbj.
      fold s2 in Hbj. rewrite Hfld in Hbj. apply in_or_app.
      destruct (Nat.eq_dec j i) as [->|Hji]; [right; left; reflexivity|].
      left. apply Hcomp; auto.
  - destruct Hb' as [E|(c' & Hseg' & Hnd' & Hmem' & Hcomp')]; [contradiction|].
    exists c'. split; [|split; [exact Hnd'|split]].
    + assert (Hhd : nth b' (heads s2) 0 = nth b' (heads s) 0).
      { change (rd_link s2 (Head b') = rd_link s (Head b')). unfold s2. apply rd_wr_other.
        unfold L. destruct c as [|j c0]; [simpl; intros E; inversion E; auto|].
        destruct (link_after_in (Head b) (j :: c0) ltac:(discriminate)) as (p & _ & ->). discriminate. }
      rewrite Hhd. eapply Seg_frame; [|exact Hseg'].
      intros j Hj Hlt. split; [unfold s2; rewrite size_wr; exact Hlt|].
      unfold s2. apply it_wr_next_other. unfold L. destruct c as [|j0 c0]; [discriminate|].
      destruct (link_after_in (Head b) (j0 :: c0) ltac:(discriminate)) as (p & Hp & ->).
      intros E. inversion E; subst. destruct (Hmem j Hp) as (_ & _ & B1). destruct (Hmem' j Hj) as (_ & _ & B2). congruence.
    + intros j Hj. destruct (Hmem' j Hj) as (H1 & _ & H3). unfold s2 at 1. rewrite cap_wr, Hfld. auto.
    + intros j Hj Hl Hbj. unfold HtabProofsInv.live_at in Hl. rewrite Hfld in Hl. unfold s2 in Hbj. rewrite cap_wr in Hbj.
      fold s2 in Hbj. rewrite Hfld in Hbj.
      assert (j <> i) by (intros ->; congruence).
      apply Hcomp'; auto.
Qed.

(* chain_ex is insensitive to the contents of item i *)
Lemma chain_ex_set_item s i x b c : chain_ex s i b c -> chain_ex (set_item s i x) i b c.
Proof.
  intros (Hseg & Hnd & Hmem & Hcomp). split; [|split; [exact Hnd|split]].
  - change (nth b (heads (set_item s i x)) 0) with (nth b (heads s) 0).
    eapply Seg_frame; [|exact Hseg]. intros j Hj Hlt. rewrite size_set_item. split; [exact Hlt|].
    rewrite it_set_item_other; [reflexivity|]. destruct (Hmem j Hj) as (_ & Hne & _). exact Hne.
  - intros j Hj. destruct (Hmem j Hj) as (H1 & H2 & H3). rewrite size_set_item.
    rewrite it_set_item_other by exact H2. auto.
  - intros j Hj Hji Hl Hbj. rewrite size_set_item in Hj. unfold HtabProofsInv.live_at in Hl.
    rewrite it_set_item_other in Hl, Hbj by exact Hji. apply Hcomp; auto.
Qed.

(* ---------- reads after writes, as a function of the cell ---------- *)
Lemma rd_wr s l v c :
  link_ok s l -> rd_link (wr_link s l v) c = if link_eq_dec c l then v else rd_link s c.
Proof.
  intros Hok. destruct (link_eq_dec c l) as [->|Hne]; [apply rd_wr_same; exact Hok|apply rd_wr_other; exact Hne].
Qed.
Lemma rd_set_item s i x c :
  i < size s -> rd_link (set_item s i x) c = if link_eq_dec c (NextOf i) then inext x else rd_link s c.
Proof.
  intros Hi. destruct (link_eq_dec c (NextOf i)) as [->|Hne].
  - simpl. rewrite it_set_item_same by exact Hi. reflexivity.
  - destruct c as [b|j]; [reflexivity|]. simpl. rewrite it_set_item_other; [reflexivity|].
    intros ->. apply Hne. reflexivity.
Qed.
Lemma link_ok_wr s l v c : link_ok s c -> link_ok (wr_link s l v) c.
Proof. destruct c; simpl; [rewrite heads_len_wr|rewrite size_wr]; auto. Qed.
Lemma link_ok_set_item s i x c : link_ok s c -> link_ok (set_item s i x) c.
Proof. destruct c; simpl; [|rewrite size_set_item]; auto. Qed.
Lemma link_ok_after s b c :
  b < length (heads s) -> (forall j, In j c -> j < size s) -> link_ok s (link_after (Head b) c).
Proof.
  intros Hb Hc. destruct c as [|j c']; [exact Hb|].
  destruct (link_after_in (Head b) (j :: c') ltac:(discriminate)) as (p & Hp & ->). simpl. apply Hc. exact Hp.
Qed.
Lemma link_after_not_member l c i : (forall p, l <> NextOf p) -> ~ In i c -> link_after l c <> NextOf i.
Proof.
  intros Hl Hi. destruct c as [|j c']; [apply Hl|].
  destruct (link_after_in l (j :: c') ltac:(discriminate)) as (p & Hp & ->). intros E. inversion E; subst. contradiction.
Qed.
Lemma link_after_same_tail l l' a a' post : post <> [] -> link_after l (a ++ post) = link_after l' (a' ++ post).
Proof.
  intros Hp. destruct (exists_last Hp) as (post' & q & ->).
  rewrite !app_assoc, !link_after_snoc. reflexivity.
Qed.

Lemma link_after_tail_member l a post :
  post <> [] -> exists q, In q post /\ link_after l (a ++ post) = NextOf q.
Proof.
  intros Hp. destruct (exists_last Hp) as (post' & q & ->). exists q. split.
  - apply in_or_app. right. left. reflexivity.
  - rewrite app_assoc, link_after_snoc. reflexivity.
Qed.

Lemma NoDup_keys_rekey (l : list (K * V)) from to :
  NoDup (map fst l) -> ~ In to (map fst l) -> NoDup (map fst (sp_rekey keqb l from to)).
Proof.
  induction l as [|(k', v') r IH]; intros Hnd Hto; simpl in *; [constructor|].
  inversion Hnd as [|? ? Hni Hr]; subst.
  destruct (keqb k' from) eqn:E; simpl.
  - constructor; [|exact Hr]. intros Hin. apply Hto. right. exact Hin.
  - constructor; [|apply IH; auto].
    intros Hin. assert (Hk : k' <> to) by (intros ->; apply Hto; left; reflexivity).
    clear - Hin Hni Hk keqb_spec. induction r as [|(k2, v2) r IH]; simpl in *; [contradiction|].
    destruct (keqb k2 from); simpl in *.
    + destruct Hin as [Hin|Hin]; [congruence|]. apply Hni. right. exact Hin.
    + destruct Hin as [Hin|Hin]; [apply Hni; left; exact Hin|]. apply IH; auto.
Qed.

(* ---------- the relink of a successful Rename ---------- *)
Lemma relink_inv s from to pre i post ct :
  Inv s -> 0 < cap s ->
  bucket_chain s (size s) (bucket (cap s) (H from)) (pre ++ i :: post) ->
  i < size s -> live_at s i -> ikey (it s i) = from ->
  bucket_chain s (size s) (bucket (cap s) (H to)) ct ->
  (forall j, j < size s -> live_at s j -> ikey (it s j) <> to) ->
  let ll := link_after (Head (bucket (cap s) (H from))) pre in
  let rl := link_after (Head (bucket (cap s) (H to))) ct in
  let s1 := wr_link s rl (S i) in
  let s2 := wr_link s1 ll (inext (it s1 i)) in
  let s3 := set_item s2 i (mkItem to (H to) 0 (ival (it s2 i))) in
  Inv s3 /\ live s3 = sp_rekey keqb (live s) from to.
Proof.
  intros HI Hc Hbcf Hi Hli Hk Hbct Hnot.
  set (bf := bucket (cap s) (H from)) in *. set (bt := bucket (cap s) (H to)) in *.
  intros ll rl s1 s2 s3.
  destruct HI as [Hcap Hhd Hsize Hok Hch].
  assert (Hbf : bf < cap s) by (destruct Hcap as [E|(n & E)]; [lia|]; unfold bf; rewrite E; apply bucket_lt).
  assert (Hbt : bt < cap s) by (destruct Hcap as [E|(n & E)]; [lia|]; unfold bt; rewrite E; apply bucket_lt).
  pose proof Hbcf as (Hsegf & Hndf & Hmemf & Hcompf).
  pose proof Hbct as (Hsegt & Hndt & Hmemt & Hcompt).
  destruct (NoDup_app_parts pre post i Hndf) as (Hndpre & Hndpost & Hipre & Hipost & Hdisj & Hndpp).
  pose proof Hsegf as Hsegf'. apply Seg_app in Hsegf'. destruct Hsegf' as (m & Hsegpre & (Hm & _ & Hsegpost)). subst m.
  assert (Hrdll : rd_link s ll = S i) by (apply (Seg_rd_after kdef vdef s (Head bf) pre (S i)); exact Hsegpre).
  assert (Hrdrl : rd_link s rl = 0) by (apply (Seg_rd_after kdef vdef s (Head bt) ct 0); exact Hsegt).
  assert (Hllrl : ll <> rl) by (intros E; rewrite E in Hrdll; lia).
  assert (Hlli : ll <> NextOf i) by (apply link_after_not_member; [discriminate|exact Hipre]).
  assert (Hokll : link_ok s ll).
  { apply link_ok_after; [rewrite Hhd; exact Hbf|]. intros j Hj. apply Hmemf. apply in_or_app. left. exact Hj. }
  assert (Hokrl : link_ok s rl).
  { apply link_ok_after; [rewrite Hhd; exact Hbt|]. intros j Hj. apply Hmemt. exact Hj. }
  (* fields *)
  assert (Hf1 : forall j, ikey (it s1 j) = ikey (it s j) /\ ihash (it s1 j) = ihash (it s j) /\ ival (it s1 j) = ival (it s j))
    by (intros j; apply (it_wr_fields kdef vdef s rl (S i) j)).
  assert (Hf2 : forall j, ikey (it s2 j) = ikey (it s j) /\ ihash (it s2 j) = ihash (it s j) /\ ival (it s2 j) = ival (it s j)).
  { intros j. destruct (it_wr_fields kdef vdef s1 ll (inext (it s1 i)) j) as (E1 & E2 & E3). destruct (Hf1 j) as (F1 & F2 & F3).
    unfold s2. rewrite E1, E2, E3. auto. }
  assert (Hsz2 : size s2 = size s) by (unfold s2, s1; rewrite !size_wr; reflexivity).
  assert (Hcap2 : cap s2 = cap s) by (unfold s2, s1; rewrite !cap_wr; reflexivity).
  assert (Hhd2 : length (heads s2) = length (heads s)) by (unfold s2, s1; rewrite !heads_len_wr; reflexivity).
  assert (Hok2 : items_ok s2) by (unfold s2, s1; apply items_ok_wr; apply items_ok_wr; exact Hok).
  assert (Hlive2 : live s2 = live s) by (unfold s2, s1; rewrite !live_wr; reflexivity).
  set (new := mkItem to (H to) 0 (ival (it s i))).
  assert (Hs3 : s3 = set_item s2 i new) by (unfold s3, new; destruct (Hf2 i) as (_ & _ & ->); reflexivity).
  assert (Hi2 : i < size s2) by lia.
  assert (Hlive : live s3 = sp_rekey keqb (live s) from to).
  { rewrite Hs3, <- Hlive2, !live_is_live_l. unfold HtabModel.set_item. simpl.
    rewrite upd_split by exact Hi2. rewrite (split_at s2 i Hi2) at 3. symmetry.
    apply sp_rekey_found.
    - apply (no_key_before s2 i from); auto.
      + unfold HtabProofsInv.live_at. destruct (Hf2 i) as (_ & -> & _). exact Hli.
      + destruct (Hf2 i) as (-> & _). exact Hk.
    - apply live_item_iff. destruct (Hf2 i) as (_ & -> & _). exact Hli.
    - destruct (Hf2 i) as (-> & _). exact Hk.
    - apply live_item_iff. simpl. apply H_nz.
    - unfold HtabProofsInv.kv, new. simpl. destruct (Hf2 i) as (_ & _ & ->). reflexivity. }
  split; [|exact Hlive].
  (* the normal form: unlink, relabel, link at the end of the target chain *)
  set (ct' := if Nat.eq_dec bt bf then pre ++ post else ct).
  set (rl' := link_after (Head bt) ct').
  set (u := wr_link s ll (inext (it s i))).
  set (w := set_item u i new).
  set (NF := wr_link w rl' (S i)).
  assert (Hict' : ~ In i ct').
  { unfold ct'. destruct (Nat.eq_dec bt bf) as [E|E].
    - intros Hin. apply in_app_or in Hin. tauto.
    - intros Hin. destruct (Hmemt i Hin) as (_ & B1).
      assert (B2 : bucket (cap s) (ihash (it s i)) = bf) by (apply Hmemf; apply in_or_app; right; left; reflexivity).
      congruence. }
  assert (Hrl'i : rl' <> NextOf i) by (apply link_after_not_member; [discriminate|exact Hict']).
  assert (Hszu : size u = size s) by (unfold u; apply size_wr).
  assert (Hszw : size w = size s) by (unfold w; rewrite size_set_item; exact Hszu).
  assert (Hokrl' : link_ok s rl').
  { apply link_ok_after; [rewrite Hhd; exact Hbt|]. intros j Hj. unfold ct' in Hj.
    destruct (Nat.eq_dec bt bf).
    - apply Hmemf. apply in_app_or in Hj. apply in_or_app. destruct Hj; [left|right; right]; auto.
    - apply Hmemt. exact Hj. }
  (* the three cases of the C++ aliasing all produce the normal form *)
  assert (Hcases : (rl = NextOf i /\ post = [] /\ bt = bf /\ rl' = ll /\ inext (it s i) = 0) \/ (rl <> NextOf i /\ rl' = rl)).
  { unfold rl', ct'. destruct (Nat.eq_dec bt bf) as [E|E].
    - assert (Ect : ct = pre ++ i :: post).
      { eapply (Seg_functional kdef vdef s); [exact Hsegt|]. rewrite E. exact Hsegf. }
      destruct post as [|q0 post0].
      + left. unfold rl. rewrite Ect, link_after_snoc, app_nil_r. unfold ll. rewrite E. repeat split; auto.
      + right. unfold rl. rewrite Ect. split.
        * change (pre ++ i :: q0 :: post0) with (pre ++ [i] ++ (q0 :: post0)). rewrite app_assoc.
          destruct (link_after_tail_member (Head bt) (pre ++ [i]) (q0 :: post0) ltac:(discriminate)) as (q & Hq & ->).
          intros Ex. inversion Ex; subst. contradiction.
        * change (pre ++ i :: q0 :: post0) with (pre ++ [i] ++ (q0 :: post0)). rewrite app_assoc.
          apply link_after_same_tail. discriminate.
    - right. split; [|reflexivity]. unfold rl. apply link_after_not_member; [discriminate|].
      intros Hin. destruct (Hmemt i Hin) as (_ & B1).
      assert (B2 : bucket (cap s) (ihash (it s i)) = bf) by (apply Hmemf; apply in_or_app; right; left; reflexivity).
      congruence. }
  assert (HNF : s3 = NF).
  { rewrite Hs3. apply ht_ext.
    - unfold NF, w, u, s2, s1. simpl. rewrite !cap_wr. simpl. rewrite !cap_wr. reflexivity.
    - unfold NF, w, u, s2, s1. simpl. rewrite !heads_len_wr. simpl. rewrite !heads_len_wr. reflexivity.
    - intros b0. change (rd_link (set_item s2 i new) (Head b0) = rd_link NF (Head b0)).
      unfold NF, w, u, s2, s1.
      rewrite rd_set_item by (rewrite !size_wr; exact Hi).
      rewrite (rd_wr _ rl' (S i)) by (apply link_ok_set_item, link_ok_wr; exact Hokrl').
      rewrite rd_set_item by (rewrite size_wr; exact Hi).
      rewrite !rd_wr by (try apply link_ok_wr; assumption).
      destruct Hcases as [(E1 & E2 & E3 & E4 & E5)|(E1 & E2)].
      + rewrite E4. destruct (link_eq_dec (Head b0) (NextOf i)); [discriminate|].
        destruct (link_eq_dec (Head b0) ll) as [E|E]; [|rewrite E1; destruct (link_eq_dec (Head b0) (NextOf i)); [discriminate|reflexivity]].
        unfold s1. change (rd_link (wr_link s rl (S i)) (NextOf i) = S i). rewrite <- E1. apply rd_wr_same. exact Hokrl.
      + rewrite E2. destruct (link_eq_dec (Head b0) (NextOf i)); [discriminate|].
        destruct (link_eq_dec (Head b0) rl) as [E|E].
        * destruct (link_eq_dec (Head b0) ll) as [E'|E']; [congruence|reflexivity].
        * destruct (link_eq_dec (Head b0) ll) as [E'|E']; [|reflexivity].
          unfold s1. change (rd_link (wr_link s rl (S i)) (NextOf i) = rd_link s (NextOf i)).
          apply rd_wr_other. intros Hx. apply E1. symmetry. exact Hx.
    - unfold NF, w, u. rewrite size_set_item, size_wr, size_set_item, size_wr. exact Hsz2.
    - intros j. unfold NF. apply item_ext.
      + destruct (Nat.eq_dec j i) as [->|Hji].
        * rewrite it_set_item_same by exact Hi2.
          destruct (it_wr_fields kdef vdef w rl' (S i) i) as (-> & _). unfold w. rewrite it_set_item_same by lia. reflexivity.
        * rewrite it_set_item_other by exact Hji. destruct (Hf2 j) as (-> & _).
          destruct (it_wr_fields kdef vdef w rl' (S i) j) as (-> & _). unfold w, u. rewrite it_set_item_other by exact Hji.
          destruct (it_wr_fields kdef vdef s ll (inext (it s i)) j) as (-> & _). reflexivity.
      + destruct (Nat.eq_dec j i) as [->|Hji].
        * rewrite it_set_item_same by exact Hi2.
          destruct (it_wr_fields kdef vdef w rl' (S i) i) as (_ & -> & _). unfold w. rewrite it_set_item_same by lia. reflexivity.
        * rewrite it_set_item_other by exact Hji. destruct (Hf2 j) as (_ & -> & _).
          destruct (it_wr_fields kdef vdef w rl' (S i) j) as (_ & -> & _). unfold w, u. rewrite it_set_item_other by exact Hji.
          destruct (it_wr_fields kdef vdef s ll (inext (it s i)) j) as (_ & -> & _). reflexivity.
      + change (rd_link (set_item s2 i new) (NextOf j) = rd_link NF (NextOf j)).
        unfold NF, w, u, s2, s1.
        rewrite rd_set_item by (rewrite !size_wr; exact Hi).
        rewrite (rd_wr _ rl' (S i)) by (apply link_ok_set_item, link_ok_wr; exact Hokrl').
        rewrite rd_set_item by (rewrite size_wr; exact Hi).
        rewrite !rd_wr by (try apply link_ok_wr; assumption).
        destruct Hcases as [(E1 & E2 & E3 & E4 & E5)|(E1 & E2)].
        * rewrite E4. destruct (link_eq_dec (NextOf j) (NextOf i)) as [E|E].
          -- destruct (link_eq_dec (NextOf j) ll) as [E'|E']; [congruence|reflexivity].
          -- destruct (link_eq_dec (NextOf j) ll) as [E'|E'].
             ++ unfold s1. change (rd_link (wr_link s rl (S i)) (NextOf i) = S i). rewrite <- E1. apply rd_wr_same. exact Hokrl.
             ++ rewrite E1. destruct (link_eq_dec (NextOf j) (NextOf i)); [contradiction|reflexivity].
        * rewrite E2. destruct (link_eq_dec (NextOf j) (NextOf i)) as [E|E].
          -- destruct (link_eq_dec (NextOf j) rl) as [E'|E']; [congruence|reflexivity].
          -- destruct (link_eq_dec (NextOf j) rl) as [E'|E'].
             ++ destruct (link_eq_dec (NextOf j) ll) as [E''|E'']; [congruence|reflexivity].
             ++ destruct (link_eq_dec (NextOf j) ll) as [E''|E'']; [|reflexivity].
                unfold s1. change (rd_link (wr_link s rl (S i)) (NextOf i) = rd_link s (NextOf i)).
                apply rd_wr_other. intros Hx. apply E1. symmetry. exact Hx.
      + destruct (Nat.eq_dec j i) as [->|Hji].
        * rewrite it_set_item_same by exact Hi2.
          destruct (it_wr_fields kdef vdef w rl' (S i) i) as (_ & _ & ->). unfold w. rewrite it_set_item_same by lia. reflexivity.
        * rewrite it_set_item_other by exact Hji. destruct (Hf2 j) as (_ & _ & ->).
          destruct (it_wr_fields kdef vdef w rl' (S i) j) as (_ & _ & ->). unfold w, u. rewrite it_set_item_other by exact Hji.
          destruct (it_wr_fields kdef vdef s ll (inext (it s i)) j) as (_ & _ & ->). reflexivity. }
  (* the invariant *)
  split.
  - rewrite Hs3. change (cap (set_item s2 i new)) with (cap s2). rewrite Hcap2. exact Hcap.
  - rewrite Hs3. change (heads (set_item s2 i new)) with (heads s2). change (cap (set_item s2 i new)) with (cap s2).
    rewrite Hhd2, Hcap2. exact Hhd.
  - rewrite Hs3, size_set_item, Hsz2. change (cap (set_item s2 i new)) with (cap s2). rewrite Hcap2. exact Hsize.
  - split.
    + rewrite Hs3. unfold HtabModel.set_item. simpl. apply Forall_upd; [exact (proj1 Hok2)|]. intros _. reflexivity.
    + rewrite Hlive. apply NoDup_keys_rekey; [exact (proj2 Hok)|].
      intros Hin. apply in_map_iff in Hin. destruct Hin as ((k', v') & Hk' & Hin). simpl in Hk'. subst k'.
      unfold live in Hin. apply in_map_iff in Hin. destruct Hin as (y & Hy & Hin).
      apply filter_In in Hin. destruct Hin as (Hin & Hly).
      apply (no_key_all s to Hnot y Hin Hly). inversion Hy. reflexivity.
  - intros b' Hb'. rewrite HNF in *.
    assert (HcapNF : cap NF = cap s) by (unfold NF, w, u; rewrite cap_wr; simpl; rewrite cap_wr; reflexivity).
    assert (HszNF : size NF = size s) by (unfold NF; rewrite size_wr; exact Hszw).
    rewrite HcapNF in Hb'. rewrite HszNF, <- Hszw.
    destruct (unlink_chains s bf pre i post Hhd Hbf Hbcf Hch) as (Hcf & Hcothers). fold ll in Hcf, Hcothers. fold u in Hcf, Hcothers.
    assert (Hchw : forall b0, b0 < cap s -> exists c0, chain_ex w i b0 c0 /\ (b0 = bt -> c0 = ct')).
    { intros b0 Hb0. destruct (Nat.eq_dec b0 bf) as [->|Hne].
      - exists (pre ++ post). split; [apply chain_ex_set_item; exact Hcf|].
        intros E. unfold ct'. destruct (Nat.eq_dec bt bf); [reflexivity|congruence].
      - destruct (Hcothers b0 Hb0 Hne) as (c0 & Hc0 & Hbc0). exists c0. split; [apply chain_ex_set_item; exact Hc0|].
        intros ->. unfold ct'. destruct (Nat.eq_dec bt bf) as [E|E]; [congruence|].
        eapply (Seg_functional kdef vdef s); [exact (proj1 Hbc0)|exact Hsegt]. }
    destruct (Hchw bt Hbt) as (c0 & Hc0 & Ec0). rewrite (Ec0 eq_refl) in Hc0.
    apply (link_end_gen w i bt ct').
    + lia.
    + unfold w. rewrite it_set_item_same by lia. reflexivity.
    + unfold w, u. simpl. rewrite heads_len_wr, Hhd. exact Hbt.
    + unfold w. rewrite it_set_item_same by lia. simpl. unfold u. rewrite cap_wr. reflexivity.
    + exact Hc0.
    + destruct (Nat.eq_dec b' bt) as [E|E]; [left; exact E|right].
      destruct (Hchw b' Hb') as (c1 & Hc1 & _). exists c1. exact Hc1.
Qed.

Lemma sp_has_found s i k :
  Inv s -> i < size s -> live_at s i -> ikey (it s i) = k -> sp_has keqb (live s) k = true.
Proof.
  intros HI Hi Hl Hk. unfold sp_has. rewrite live_is_live_l, (split_at s i Hi).
  rewrite sp_get_found; auto.
  - eapply no_key_before; eauto. apply (inv_items _ _ _ _ HI).
  - apply live_item_iff. exact Hl.
Qed.
Lemma sp_has_absent s k :
  (forall j, j < size s -> live_at s j -> ikey (it s j) <> k) -> sp_has keqb (live s) k = false.
Proof.
  intros Hno. unfold sp_has. rewrite live_is_live_l, sp_get_none; [reflexivity|]. apply no_key_all. exact Hno.
Qed.

Lemma rename_refines from to s :
  Inv s ->
  exists s' r, rename from to s = Some (s', r) /\ Inv s' /\ (live s', r) = sp_rename keqb (live s) from to /\
               (no_dead s -> no_dead s').
Proof.
  intros HI. unfold HtabModel.rename. destruct (size s =? 0) eqn:E0.
  - apply Nat.eqb_eq in E0. exists s, false. split; [reflexivity|]. split; [exact HI|].
    rewrite (live_nil_of_size0 s E0). split; [reflexivity|auto].
  - apply Nat.eqb_neq in E0. pose proof (inv_size _ _ _ _ HI) as Hsz.
    assert (Hc : 0 < cap s) by lia.
    destruct (find_key_inv s from HI Hc) as (cf & Hbcf & [(pre & i & post & -> & Hi & Hli & Hk & ->)|(Hno & ->)]).
    + assert (Hrdll : rd_link s (link_after (Head (bucket (cap s) (H from))) pre) = S i).
      { destruct Hbcf as (Hseg & _). apply Seg_app in Hseg. destruct Hseg as (m & Hpre & (Hm & _)). subst m.
        apply (Seg_rd_after kdef vdef s (Head (bucket (cap s) (H from))) pre (S i)). exact Hpre. }
      rewrite Hrdll.
      pose proof (sp_has_found s i from HI Hi Hli Hk) as Hhf.
      destruct (find_key_inv s to HI Hc) as (ct & Hbct & [(pre' & j & post' & -> & Hj & Hlj & Hkj & ->)|(Hnot & ->)]).
      * assert (Hrdrl : rd_link s (link_after (Head (bucket (cap s) (H to))) pre') = S j).
        { destruct Hbct as (Hseg & _). apply Seg_app in Hseg. destruct Hseg as (m & Hpre & (Hm & _)). subst m.
          apply (Seg_rd_after kdef vdef s (Head (bucket (cap s) (H to))) pre' (S j)). exact Hpre. }
        rewrite Hrdrl. exists s, false. split; [reflexivity|]. split; [exact HI|]. split; [|auto].
        unfold sp_rename. rewrite Hhf, (sp_has_found s j to HI Hj Hlj Hkj). reflexivity.
      * assert (Hrdrl : rd_link s (link_after (Head (bucket (cap s) (H to))) ct) = 0).
        { destruct Hbct as (Hseg & _). apply (Seg_rd_after kdef vdef s (Head (bucket (cap s) (H to))) ct 0). exact Hseg. }
        rewrite Hrdrl.
        destruct (relink_inv s from to pre i post ct HI Hc Hbcf Hi Hli Hk Hbct Hnot) as (HI' & Hl').
        eexists. exists true. split; [reflexivity|]. split; [exact HI'|]. split.
        -- unfold sp_rename. rewrite Hhf, (sp_has_absent s to Hnot). simpl. rewrite Hl'. reflexivity.
        -- intros Hnd. unfold HtabProofsOps.no_dead, HtabModel.set_item. simpl. apply Forall_upd.
           ++ apply no_dead_wr. apply no_dead_wr. exact Hnd.
           ++ apply live_item_iff. simpl. apply H_nz.
    + assert (Hrdll : rd_link s (link_after (Head (bucket (cap s) (H from))) cf) = 0).
      { destruct Hbcf as (Hseg & _). apply (Seg_rd_after kdef vdef s (Head (bucket (cap s) (H from))) cf 0). exact Hseg. }
      rewrite Hrdll. exists s, false. split; [reflexivity|]. split; [exact HI|]. split; [|auto].
      unfold sp_rename. rewrite (sp_has_absent s from Hno). reflexivity.
Qed.

End Rename.
