(* ExprProofs3.v -- C04, part 3: no trap; the integer fragment is exact. *)
From Coq Require Import NArith ZArith List Bool Lia Arith ZifyBool ZifyN ZifyNat Floats.SpecFloat.
From Qv Require Import gen.Tables_expr ExprModel ExprProofs ExprProofs2.
Import ListNotations.
Local Open Scope N_scope.
Ltac Zify.zify_post_hook ::= Z.div_mod_to_equations.

(* ------------------------------------------------------------------ *)
(* NO TRAP.  The only trap outcome of the (repaired) evaluator is INT64_MIN % -1 *)

(* the integer view the remainder takes of an operand *)
Definition iview (v : qval) : outcome N :=
  match v with
  | QNat a | QInt a => Ok a
  | QReal x => to_i64 x
  | _ => Err (EUnsupported 1)
  end.

Ltac crush_trap H :=
  repeat match type of H with
  | Ok _ = Err _ => discriminate H
  | NoValue = Err _ => discriminate H
  | Err _ = Err _ => discriminate H
  | context [match ?x with _ => _ end] => destruct x eqn:?; cbn [bind] in H
  | context [if ?x then _ else _] => destruct x eqn:?; cbn [bind] in H
  end.

Lemma to_i64_no_trap : forall f s, to_i64 f <> Err (ETrap s).
Proof. intros f s. unfold to_i64. destruct (sf_trunc f); [destruct (_ && _)|]; discriminate. Qed.

Definition notrap {A} (x : outcome A) : Prop := forall s, x <> Err (ETrap s).
Lemma notrap_bind : forall A B (x : outcome A) (f : A -> outcome B),
  notrap x -> (forall a, notrap (f a)) -> notrap (bind x f).
Proof. intros A B [a| |e] f Hx Hf s; cbn [bind]; [apply Hf|discriminate|intros H; inversion H; subst; exact (Hx s eq_refl)]. Qed.
Ltac nt :=
  repeat first
    [ apply notrap_bind; [|intros]
    | match goal with
      | |- notrap (Ok _) => intros ? ?; discriminate
      | |- notrap NoValue => intros ? ?; discriminate
      | |- notrap (Err (EUB _)) => intros ? ?; discriminate
      | |- notrap (Err (EUnsupported _)) => intros ? ?; discriminate
      | |- notrap (to_i64 _) => intros ?; apply to_i64_no_trap
      | |- notrap (match ?x with _ => _ end) => destruct x
      | |- notrap (if ?c then _ else _) => destruct c
      end ].

Lemma set_number_notrap : forall v, notrap (set_number v).
Proof. intros v. unfold set_number, qval_of_numres. nt. Qed.
Lemma q_eq_notrap : forall a b, notrap (q_eq a b).
Proof. intros a b. unfold q_eq, q_cmp. nt. Qed.
Lemma is_equal_notrap : forall e a b, notrap (is_equal e a b).
Proof.
  intros e a b. unfold is_equal, eq_classify, eq_force_number, get_value.
  pose proof set_number_notrap. pose proof q_eq_notrap.
  repeat first
    [ apply notrap_bind; [|intros]
    | match goal with
      | |- notrap (set_number _) => apply set_number_notrap
      | |- notrap (q_eq _ _) => apply q_eq_notrap
      | |- notrap (Ok _) => intros ? ?; discriminate
      | |- notrap NoValue => intros ? ?; discriminate
      | |- notrap (Err (EUnsupported _)) => intros ? ?; discriminate
      | |- notrap (match ?x with _ => _ end) => destruct x
      | |- notrap (if ?c then _ else _) => destruct c
      end ].
Qed.

Lemma q_rem_notrap : forall l r, notrap (q_rem l r).
Proof. intros l r. unfold q_rem. nt. Qed.

Lemma apply_no_trap : forall e op a b, notrap (apply_op e op a b).
Proof.
  intros e op a b. unfold apply_op.
  destruct (op =? op_Exponent) eqn:E1.
  { unfold q_pow, pow_left, pow_right. nt. }
  destruct (op =? op_Remainder) eqn:E2.
  { apply q_rem_notrap. }
  pose proof (is_equal_notrap e a b) as Heq.
  repeat match goal with |- notrap (if ?c then _ else _) => destruct c end.
  all: try exact Heq.
  all: unfold q_mul, q_div, q_add, q_sub, q_bit, q_lt, q_le, q_gt, q_ge, q_cmp, q_true, q_nonzero, to_real.
  all: try (nt; fail).
  all: try (apply notrap_bind; [exact Heq|intros; nt]).
Qed.

(* x % -1 answers 0 without dividing (and without converting the left operand) *)
Lemma rem_minus_one : forall l r d, iview r = Ok d -> signed d = (-1)%Z -> is_nan_type l = false ->
  q_rem l r = Ok (QInt 0).
Proof.
  intros l r d Hr Hd Hl. unfold q_rem.
  assert (Hd0 : (d =? 0) = false).
  { apply N.eqb_neq. intros ->. cbn in Hd. discriminate Hd. }
  destruct r; cbn [iview] in Hr; try discriminate Hr.
  - inversion Hr; subst. cbn [bind]. rewrite Hd0, Hd. cbn. destruct l; try reflexivity; discriminate Hl.
  - inversion Hr; subst. cbn [bind]. rewrite Hd0, Hd. cbn. destruct l; try reflexivity; discriminate Hl.
  - rewrite Hr. cbn [bind]. rewrite Hd0, Hd. cbn. destruct l; try reflexivity; discriminate Hl.
Qed.

(* a zero divisor gives "no value" for % and / *)
Lemma rem_zero_no_value : forall l r, iview r = Ok 0 -> q_rem l r = NoValue.
Proof.
  intros l r H. unfold q_rem. destruct r; cbn [iview] in H; try discriminate H.
  - inversion H; reflexivity.
  - inversion H; reflexivity.
  - rewrite H. reflexivity.
Qed.
Lemma div_zero_no_value : forall l, q_div l (QNat 0) = NoValue /\ q_div l (QInt 0) = NoValue /\
  q_div l (QReal (S754_zero false)) = NoValue /\ q_div l (QReal (S754_zero true)) = NoValue.
Proof. intros l. repeat split. Qed.

(* ------------------------------------------------------------------ *)
(* THE INTEGER FRAGMENT IS EXACT *)

Local Open Scope Z_scope.

Definition in63 (z : Z) : Prop := - 9223372036854775808 < z < 9223372036854775808.
(* a value of the integer fragment: unsigned (Natural) or signed (Integer) *)
Definition enc (u : bool) (z : Z) : qval := if u then QNat (Z.to_N z) else QInt (wrapZ z).
Definition okv (u : bool) (z : Z) : Prop := in63 z /\ (u = true -> 0 <= z).

Lemma two64_Z : Z.of_N two64 = 18446744073709551616. Proof. reflexivity. Qed.
Lemma two63_Z : Z.of_N two63 = 9223372036854775808. Proof. reflexivity. Qed.

Lemma wrapZ_spec : forall z, Z.of_N (wrapZ z) = z mod 18446744073709551616.
Proof. intros z. unfold wrapZ. rewrite two64_Z. rewrite Z2N.id; [reflexivity|]. apply Z.mod_pos_bound. lia. Qed.
Lemma wrapN_spec : forall n, Z.of_N (wrapN n) = Z.of_N n mod 18446744073709551616.
Proof. intros n. unfold wrapN. rewrite N2Z.inj_mod. rewrite two64_Z. reflexivity. Qed.

Lemma wrapN_congr : forall n z, Z.of_N n mod 18446744073709551616 = z mod 18446744073709551616 -> wrapN n = wrapZ z.
Proof. intros n z H. apply N2Z.inj. rewrite wrapN_spec, wrapZ_spec. exact H. Qed.

Lemma signed_spec : forall b, (b < two64)%N ->
  signed b mod 18446744073709551616 = Z.of_N b /\ - 9223372036854775808 <= signed b < 9223372036854775808.
Proof.
  intros b Hb. unfold signed. assert (Z.of_N b < 18446744073709551616) by (rewrite <- two64_Z; lia).
  destruct (b <? two63)%N eqn:E.
  - apply N.ltb_lt in E. assert (Z.of_N b < 9223372036854775808) by (rewrite <- two63_Z; lia). try rewrite two64_Z. lia.
  - apply N.ltb_ge in E. assert (9223372036854775808 <= Z.of_N b) by (rewrite <- two63_Z; lia). rewrite two64_Z. lia.
Qed.

Lemma signed_wrapZ : forall z, in63 z -> signed (wrapZ z) = z.
Proof.
  intros z Hz. unfold in63 in Hz. unfold signed.
  pose proof (wrapZ_spec z) as Hw.
  destruct (wrapZ z <? two63)%N eqn:E.
  - apply N.ltb_lt in E. assert (Z.of_N (wrapZ z) < 9223372036854775808) by (rewrite <- two63_Z; lia). lia.
  - apply N.ltb_ge in E. assert (9223372036854775808 <= Z.of_N (wrapZ z)) by (rewrite <- two63_Z; lia). rewrite two64_Z. lia.
Qed.

(* the machine word behind a fragment value *)
Definition bitsof (v : qval) : N := match v with QNat b | QInt b => b | _ => 0%N end.
Lemma enc_bits : forall u z, okv u z ->
  Z.of_N (bitsof (enc u z)) mod 18446744073709551616 = z mod 18446744073709551616 /\
  (bitsof (enc u z) < two64)%N /\ signed (bitsof (enc u z)) = z.
Proof.
  intros u z [Hz Hu]. unfold in63 in Hz. destruct u; cbn [enc bitsof].
  - specialize (Hu eq_refl). rewrite Z2N.id by lia. repeat split.
    + assert (Z.of_N (Z.to_N z) < Z.of_N two64) by (rewrite Z2N.id, two64_Z; lia). lia.
    + unfold signed. replace (Z.to_N z <? two63)%N with true; [rewrite Z2N.id; lia|].
      symmetry. apply N.ltb_lt. assert (Z.of_N (Z.to_N z) < Z.of_N two63) by (rewrite Z2N.id, two63_Z; lia). lia.
  - rewrite wrapZ_spec. repeat split.
    + rewrite Z.mod_mod; lia.
    + assert (Z.of_N (wrapZ z) < Z.of_N two64) by (rewrite wrapZ_spec, two64_Z; apply Z.mod_pos_bound; lia). lia.
    + apply signed_wrapZ. exact Hz.
Qed.

Lemma wrapN_small : forall n, Z.of_N n < 18446744073709551616 -> wrapN n = n.
Proof. intros n H. unfold wrapN. apply N.mod_small. assert (Z.of_N n < Z.of_N two64) by (rewrite two64_Z; exact H). lia. Qed.

Lemma add_exact : forall ux x uy y, okv ux x -> okv uy y -> in63 (x + y) ->
  q_add (enc ux x) (enc uy y) = Ok (enc (ux && uy) (x + y)).
Proof.
  intros ux x uy y Hx Hy Hs.
  destruct (enc_bits _ _ Hx) as (Ex & Bx & _). destruct (enc_bits _ _ Hy) as (Ey & By & _).
  destruct Hx as [Hx Hux], Hy as [Hy Huy]. unfold in63 in *.
  destruct ux, uy; cbn [enc bitsof q_add andb] in *; f_equal; f_equal.
  - specialize (Hux eq_refl). specialize (Huy eq_refl). rewrite wrapN_small by lia. lia.
  - apply wrapN_congr. rewrite N2Z.inj_add. lia.
  - apply wrapN_congr. rewrite N2Z.inj_add. lia.
  - apply wrapN_congr. rewrite N2Z.inj_add. lia.
Qed.

Lemma sub64_spec : forall a b, (b < two64)%N ->
  Z.of_N (a + two64 - b) mod 18446744073709551616 = (Z.of_N a - Z.of_N b) mod 18446744073709551616.
Proof. intros a b Hb. rewrite N2Z.inj_sub by lia. rewrite N2Z.inj_add, two64_Z. lia. Qed.

Lemma sub_exact : forall ux x uy y, okv ux x -> okv uy y -> in63 (x - y) ->
  q_sub (enc ux x) (enc uy y) = Ok (enc (ux && uy && (y <=? x)) (x - y)).
Proof.
  intros ux x uy y Hx Hy Hs.
  destruct (enc_bits _ _ Hx) as (Ex & Bx & _). destruct (enc_bits _ _ Hy) as (Ey & By & _).
  destruct Hx as [Hx Hux], Hy as [Hy Huy]. unfold in63 in *.
  destruct ux, uy; cbn [enc bitsof q_sub andb] in *.
  - specialize (Hux eq_refl). specialize (Huy eq_refl).
    destruct (Z.to_N x <? Z.to_N y)%N eqn:E.
    + apply N.ltb_lt in E. replace (y <=? x) with false by (symmetry; apply Z.leb_gt; lia).
      cbn [enc]. f_equal. f_equal. unfold sub64. apply wrapN_congr. rewrite sub64_spec by exact By. lia.
    + apply N.ltb_ge in E. replace (y <=? x) with true by (symmetry; apply Z.leb_le; lia).
      cbn [enc]. f_equal. f_equal. unfold sub64. apply N2Z.inj. rewrite wrapN_spec, sub64_spec by exact By. lia.
  - f_equal. f_equal. unfold sub64. apply wrapN_congr. rewrite sub64_spec by exact By. lia.
  - f_equal. f_equal. unfold sub64. apply wrapN_congr. rewrite sub64_spec by exact By. lia.
  - f_equal. f_equal. unfold sub64. apply wrapN_congr. rewrite sub64_spec by exact By. lia.
Qed.

Lemma mul_congr : forall a b x y, Z.of_N a mod 18446744073709551616 = x mod 18446744073709551616 ->
  Z.of_N b mod 18446744073709551616 = y mod 18446744073709551616 ->
  Z.of_N (a * b) mod 18446744073709551616 = (x * y) mod 18446744073709551616.
Proof. intros a b x y Ha Hb. rewrite N2Z.inj_mul. rewrite Z.mul_mod by lia. rewrite Ha, Hb. rewrite <- Z.mul_mod by lia. reflexivity. Qed.

Lemma mul_exact : forall ux x uy y, okv ux x -> okv uy y -> in63 (x * y) ->
  q_mul (enc ux x) (enc uy y) = Ok (enc (ux && uy) (x * y)).
Proof.
  intros ux x uy y Hx Hy Hs.
  destruct (enc_bits _ _ Hx) as (Ex & Bx & _). destruct (enc_bits _ _ Hy) as (Ey & By & _).
  destruct Hx as [Hx Hux], Hy as [Hy Huy]. unfold in63 in *.
  destruct ux, uy; cbn [enc bitsof q_mul andb] in *; f_equal; f_equal.
  - specialize (Hux eq_refl). specialize (Huy eq_refl).
    rewrite <- Z2N.inj_mul by lia. apply wrapN_small. rewrite Z2N.id by nia. lia.
  - apply wrapN_congr. apply mul_congr; assumption.
  - apply wrapN_congr. apply mul_congr; assumption.
  - apply wrapN_congr. apply mul_congr; assumption.
Qed.

Lemma enc_zero_bits : forall u z, okv u z -> (bitsof (enc u z) =? 0)%N = (z =? 0).
Proof.
  intros u z H. destruct (enc_bits _ _ H) as (_ & _ & S).
  destruct (bitsof (enc u z) =? 0)%N eqn:E.
  - apply N.eqb_eq in E. rewrite E in S. cbn in S. subst z. reflexivity.
  - apply N.eqb_neq in E. symmetry. apply Z.eqb_neq. intros ->. apply E.
    destruct H as [_ Hu]. destruct u; cbn [enc bitsof] in *; reflexivity.
Qed.

Lemma rem_exact : forall ux x uy y, okv ux x -> okv uy y ->
  q_rem (enc ux x) (enc uy y) = if y =? 0 then NoValue else Ok (enc false (Z.rem x y)).
Proof.
  intros ux x uy y Hx Hy.
  destruct (enc_bits _ _ Hx) as (_ & _ & Sx). destruct (enc_bits _ _ Hy) as (_ & _ & Sy).
  pose proof (enc_zero_bits _ _ Hy) as Zy.
  assert (G : forall a d, signed a = x -> signed d = y -> (d =? 0)%N = (y =? 0) ->
            (if (d =? 0)%N then NoValue
             else if signed d =? -1 then Ok (QInt 0%N)
             else bind (Ok a) (fun a0 => Ok (QInt (wrapZ (Z.rem (signed a0) (signed d)))))) =
            if y =? 0 then NoValue else Ok (enc false (Z.rem x y))).
  { intros a d Ha Hd Hz. rewrite Hz. destruct (y =? 0); [reflexivity|]. rewrite Hd.
    destruct (y =? -1) eqn:E1.
    - apply Z.eqb_eq in E1. rewrite E1. replace (Z.rem x (-1)) with 0; [reflexivity|].
      change (-1) with (- (1)). rewrite Z.rem_opp_r by lia. rewrite Z.rem_1_r. reflexivity.
    - cbn [bind]. rewrite Ha. reflexivity. }
  destruct ux, uy; cbn [enc bitsof q_rem bind] in *; apply G; auto.
Qed.

(* ---- comparisons, truth, equality: exact for every Natural below 2^64 (after findings/D90) ---- *)
(* the WIDE value domain: a Natural anywhere below 2^64, an Integer inside (-2^63, 2^63) *)
Definition okw (u : bool) (z : Z) : Prop := if u then 0 <= z < 18446744073709551616 else in63 z.
Lemma okv_okw : forall u z, okv u z -> okw u z.
Proof. intros u z [Hz Hu]. unfold okw, in63 in *. destruct u; [specialize (Hu eq_refl); lia|exact Hz]. Qed.

(* the five comparison operators read the three-way result the way they read two numbers *)
Definition cmp_like (ci : Z -> Z -> bool) : Prop := forall x y, ci (cmp_int (x ?= y)) 0 = ci x y.
Lemma cmp_like_ltb : cmp_like Z.ltb.
Proof. intros x y. destruct (Z.compare_spec x y); cbn [cmp_int]; symmetry; [apply Z.ltb_ge|apply Z.ltb_lt|apply Z.ltb_ge]; lia. Qed.
Lemma cmp_like_leb : cmp_like Z.leb.
Proof. intros x y. destruct (Z.compare_spec x y); cbn [cmp_int]; symmetry; [apply Z.leb_le|apply Z.leb_le|apply Z.leb_gt]; lia. Qed.
Lemma cmp_like_gtb : cmp_like Z.gtb.
Proof. intros x y. rewrite !Z.gtb_ltb. destruct (Z.compare_spec x y); cbn [cmp_int]; symmetry; [apply Z.ltb_ge|apply Z.ltb_ge|apply Z.ltb_lt]; lia. Qed.
Lemma cmp_like_geb : cmp_like Z.geb.
Proof. intros x y. rewrite !Z.geb_leb. destruct (Z.compare_spec x y); cbn [cmp_int]; symmetry; [apply Z.leb_le|apply Z.leb_gt|apply Z.leb_le]; lia. Qed.
Lemma cmp_like_eqb : cmp_like Z.eqb.
Proof. intros x y. destruct (Z.compare_spec x y); cbn [cmp_int]; symmetry; [apply Z.eqb_eq|apply Z.eqb_neq|apply Z.eqb_neq]; lia. Qed.

Lemma wrapZ_nonneg : forall z, 0 <= z < 9223372036854775808 -> wrapZ z = Z.to_N z.
Proof. intros z H. apply N2Z.inj. rewrite wrapZ_spec, Z2N.id by lia. apply Z.mod_small. lia. Qed.

(* compareWhole compares by value *)
Lemma compare_whole_enc : forall ux x uy y, okw ux x -> okw uy y ->
  compare_whole (enc ux x) (enc uy y) = (x ?= y).
Proof.
  intros ux x uy y Hx Hy. unfold compare_whole, okw, in63 in *.
  assert (Sg : forall z, -9223372036854775808 < z < 9223372036854775808 -> signed (wrapZ z) = z) by (intros; apply signed_wrapZ; assumption).
  destruct ux, uy; cbn [enc whole_negative whole_bits].
  - cbn [Bool.eqb negb]. rewrite <- Z2N.inj_compare by lia. reflexivity.
  - rewrite (Sg y Hy). destruct (y <? 0) eqn:E; cbn [Bool.eqb negb].
    + apply Z.ltb_lt in E. symmetry. apply Z.compare_gt_iff. lia.
    + apply Z.ltb_ge in E. rewrite wrapZ_nonneg by lia. rewrite <- Z2N.inj_compare by lia. reflexivity.
  - rewrite (Sg x Hx). destruct (x <? 0) eqn:E; cbn [Bool.eqb negb].
    + apply Z.ltb_lt in E. symmetry. apply Z.compare_lt_iff. lia.
    + apply Z.ltb_ge in E. rewrite wrapZ_nonneg by lia. rewrite <- Z2N.inj_compare by lia. reflexivity.
  - rewrite (Sg x Hx), (Sg y Hy).
    destruct (x <? 0) eqn:Ex, (y <? 0) eqn:Ey; cbn [Bool.eqb negb].
    + reflexivity.
    + apply Z.ltb_lt in Ex. apply Z.ltb_ge in Ey. symmetry. apply Z.compare_lt_iff. lia.
    + apply Z.ltb_ge in Ex. apply Z.ltb_lt in Ey. symmetry. apply Z.compare_gt_iff. lia.
    + apply Z.ltb_ge in Ex. apply Z.ltb_ge in Ey. rewrite !wrapZ_nonneg by lia. rewrite <- Z2N.inj_compare by lia. reflexivity.
Qed.

Lemma cmp_exact_wide : forall ci cf ux x uy y, cmp_like ci -> okw ux x -> okw uy y ->
  q_cmp ci cf (enc ux x) (enc uy y) = Ok (ci x y).
Proof.
  intros ci cf ux x uy y Hci Hx Hy. pose proof (compare_whole_enc ux x uy y Hx Hy) as Hc.
  destruct ux, uy; cbn [enc q_cmp] in *; rewrite Hc, Hci; reflexivity.
Qed.
Lemma cmp_exact : forall ci cf ux x uy y, cmp_like ci -> okv ux x -> okv uy y ->
  q_cmp ci cf (enc ux x) (enc uy y) = Ok (ci x y).
Proof. intros. apply cmp_exact_wide; [assumption|apply okv_okw; assumption|apply okv_okw; assumption]. Qed.

Lemma true_exact_wide : forall u z, okw u z -> q_true (enc u z) = Ok (0 <? z).
Proof.
  intros u z H. unfold okw, in63 in H. destruct u; cbn [enc q_true].
  - f_equal. destruct (0 <? z) eqn:E; [apply N.ltb_lt; lia|apply N.ltb_ge; lia].
  - rewrite signed_wrapZ by exact H. reflexivity.
Qed.
Lemma true_exact : forall u z, okv u z -> q_true (enc u z) = Ok (0 <? z).
Proof. intros u z H. apply true_exact_wide, okv_okw, H. Qed.

Lemma equal_exact_wide : forall e ux x uy y, okw ux x -> okw uy y ->
  is_equal e (enc ux x) (enc uy y) = Ok (of_bool (x =? y)).
Proof.
  intros e ux x uy y Hx Hy. pose proof (cmp_exact_wide Z.eqb f_eq _ _ _ _ cmp_like_eqb Hx Hy) as H.
  unfold is_equal. destruct ux, uy; cbn [enc eq_classify bind eq_force_number] in *; unfold q_eq; rewrite H; reflexivity.
Qed.
Lemma equal_exact : forall e ux x uy y, okv ux x -> okv uy y ->
  is_equal e (enc ux x) (enc uy y) = Ok (of_bool (x =? y)).
Proof. intros. apply equal_exact_wide; apply okv_okw; assumption. Qed.

(* QExpression::PowerOf computes the power modulo 2^64 *)
Lemma powerof_spec : forall x p, (x < two64)%N ->
  Z.of_N (powerof x p) = (Z.of_N x ^ Zpos p) mod 18446744073709551616.
Proof.
  intros x p Hx. assert (Hx' : Z.of_N x < 18446744073709551616) by (rewrite <- two64_Z; lia).
  induction p as [q IH|q IH|]; cbn [powerof].
  - rewrite !wrapN_spec, N2Z.inj_mul, wrapN_spec, N2Z.inj_mul, IH.
    rewrite (Pos2Z.inj_xI q). rewrite Z.pow_add_r, Z.pow_twice_r, Z.pow_1_r by lia.
    rewrite <- Z.mul_mod by lia. rewrite Z.mul_mod_idemp_l by lia. reflexivity.
  - rewrite wrapN_spec, N2Z.inj_mul, IH. rewrite (Pos2Z.inj_xO q), Z.pow_twice_r.
    rewrite <- Z.mul_mod by lia. reflexivity.
  - rewrite Z.pow_1_r. rewrite Z.mod_small; lia.
Qed.

Lemma neg64_congr : forall a, (a < two64)%N ->
  Z.of_N (two64 - a) mod 18446744073709551616 = (- Z.of_N a) mod 18446744073709551616.
Proof. intros a Ha. rewrite N2Z.inj_sub by lia. rewrite two64_Z. lia. Qed.

(* the base of operator^= : (left_negative, |x|) *)
Lemma pow_left_exact : forall u x, okv u x ->
  pow_left (enc u x) = Ok ((x <? 0), Z.to_N (Z.abs x)).
Proof.
  intros u x H. destruct (enc_bits _ _ H) as (E & B & S). destruct H as [Hz Hu]. unfold in63 in Hz.
  destruct u; cbn [enc bitsof pow_left] in *.
  - specialize (Hu eq_refl). replace (x <? 0) with false by (symmetry; apply Z.ltb_ge; lia).
    rewrite Z.abs_eq by lia. reflexivity.
  - rewrite S. destruct (x <? 0) eqn:Ex.
    + apply Z.ltb_lt in Ex. f_equal. f_equal. unfold neg64.
      apply N2Z.inj. rewrite wrapN_spec, neg64_congr by exact B. rewrite Z2N.id by lia.
      rewrite wrapZ_spec. rewrite Z.abs_neq by lia.
      lia.
    + apply Z.ltb_ge in Ex. f_equal. f_equal. apply N2Z.inj. rewrite wrapZ_spec, Z2N.id by lia.
      rewrite Z.abs_eq by lia. apply Z.mod_small. lia.
Qed.

Lemma pow_exact : forall ux x uy y, okv ux x -> okv uy y -> 0 <= y -> in63 (x ^ y) ->
  q_pow (enc ux x) (enc uy y) =
  Ok (if x =? 0 then QNat 0                         (* also 0^0 *)
      else if y =? 0 then QNat 1
      else enc (negb ((x <? 0) && Z.odd y)) (x ^ y)).
Proof.
  intros ux x uy y Hx Hy Hy0 Hp. unfold q_pow.
  rewrite (pow_left_exact _ _ Hx). cbn [bind].
  assert (Hr : pow_right (enc uy y) = Ok (false, Z.to_N y)).
  { pose proof (pow_left_exact _ _ Hy) as H. unfold pow_left in H. unfold pow_right.
    replace (y <? 0) with false in H by (symmetry; apply Z.ltb_ge; lia). rewrite Z.abs_eq in H by lia.
    destruct uy; cbn [enc] in *; exact H. }
  rewrite Hr. cbn [bind].
  destruct Hx as [Hx Hux], Hy as [Hy Huy]. unfold in63 in *.
  destruct (x =? 0) eqn:Ex0.
  { apply Z.eqb_eq in Ex0. subst x. reflexivity. }
  apply Z.eqb_neq in Ex0.
  replace (Z.to_N (Z.abs x) =? 0)%N with false by (symmetry; apply N.eqb_neq; lia).
  destruct (y =? 0) eqn:Ey0.
  { apply Z.eqb_eq in Ey0. subst y. reflexivity. }
  apply Z.eqb_neq in Ey0.
  destruct (Z.to_N y) as [|p] eqn:Ep; [lia|].
  assert (Hyp : y = Zpos p) by lia. subst y.
  (* |x|^p = |x^p| fits, hence PowerOf is exact *)
  assert (Habs : Z.abs x ^ Zpos p = Z.abs (x ^ Zpos p)) by (symmetry; apply Z.abs_pow).
  assert (Hpw : Z.of_N (powerof (Z.to_N (Z.abs x)) p) = Z.abs (x ^ Zpos p)).
  { rewrite powerof_spec.
    - rewrite Z2N.id by lia. rewrite Habs. apply Z.mod_small. lia.
    - assert (Z.of_N (Z.to_N (Z.abs x)) < Z.of_N two64) by (rewrite Z2N.id, two64_Z; lia). lia. }
  replace (N.odd (Npos p)) with (Z.odd (Zpos p)) by (destruct p; reflexivity).
  destruct ((x <? 0) && Z.odd (Zpos p)) eqn:Eneg; cbn [negb enc].
  - apply andb_true_iff in Eneg. destruct Eneg as [Exn Eodd]. apply Z.ltb_lt in Exn.
    f_equal. f_equal. unfold neg64. apply wrapN_congr. rewrite neg64_congr.
    + rewrite Hpw. f_equal.
      assert (x ^ Zpos p < 0).
      { replace x with (- Z.abs x) by lia. rewrite Z.pow_opp_odd by (apply Z.odd_spec; exact Eodd).
        assert (0 < Z.abs x ^ Zpos p) by (apply Z.pow_pos_nonneg; lia). lia. }
      lia.
    + assert (Z.of_N (powerof (Z.to_N (Z.abs x)) p) < Z.of_N two64) by (rewrite Hpw, two64_Z; lia). lia.
  - f_equal. f_equal. apply N2Z.inj. rewrite Hpw.
    assert (0 <= x ^ Zpos p).
    { apply andb_false_iff in Eneg. destruct Eneg as [E|E].
      - apply Z.ltb_ge in E. apply Z.pow_nonneg. exact E.
      - replace x with (- - x) by lia. destruct (Z.odd (Zpos p)) eqn:Eo; [discriminate|].
        assert (Ev : Z.even (Zpos p) = true) by (rewrite <- Z.negb_odd, Eo; reflexivity).
        apply Z.even_spec in Ev. rewrite Z.pow_opp_even by exact Ev. apply Z.pow_even_nonneg. exact Ev. }
    rewrite Z2N.id by lia. lia.
Qed.

(* ------------------------------------------------------------------ *)
(* the exact integer semantics of a tree (over Z, no machine words); None =
   outside the fragment (real / text / variable operand, / & |, negative
   exponent, an intermediate result outside (-2^63, 2^63)) or no value (% 0).
   The boolean is the kind: true = Natural (unsigned), false = Integer. *)
Definition in63b (z : Z) : bool := (-9223372036854775808 <? z) && (z <? 9223372036854775808).
Definition b2z (b : bool) : Z := if b then 1 else 0.
Definition zret (z : Z) (u : bool) : option (Z * bool) := if in63b z then Some (z, u) else None.

(* one operator on two exact values *)
Definition zdispatch (op : N) (x : Z) (ux : bool) (y : Z) (uy : bool) : option (Z * bool) :=
  if (op =? op_Exponent)%N then
    (if y <? 0 then None
     else if x =? 0 then Some (0, true)          (* the code's 0^0 = 0 included *)
     else if y =? 0 then Some (1, true)
     else zret (x ^ y) (negb ((x <? 0) && Z.odd y)))
  else if (op =? op_Remainder)%N then (if y =? 0 then None else Some (Z.rem x y, false))
  else if (op =? op_Multiplication)%N then zret (x * y) (ux && uy)
  else if (op =? op_Division)%N then None
  else if (op =? op_Addition)%N then zret (x + y) (ux && uy)
  else if (op =? op_Subtraction)%N then zret (x - y) (ux && uy && (y <=? x))
  else if (op =? op_BitwiseAnd)%N then None
  else if (op =? op_BitwiseOr)%N then None
  else if (op =? op_Less)%N then Some (b2z (x <? y), true)
  else if (op =? op_LessOrEqual)%N then Some (b2z (x <=? y), true)
  else if (op =? op_Greater)%N then Some (b2z (x >? y), true)
  else if (op =? op_GreaterOrEqual)%N then Some (b2z (x >=? y), true)
  else if (op =? op_And)%N then Some (b2z ((0 <? x) && (0 <? y)), true)
  else if (op =? op_Or)%N then Some (b2z ((0 <? x) || (0 <? y)), true)
  else if (op =? op_Equal)%N then Some (b2z (x =? y), true)
  else if (op =? op_NotEqual)%N then Some (b2z (negb (x =? y)), true)
  else None.
(* + - * % ^ (and / & |, outside the fragment anyway) *)
Definition is_arith (op : N) : bool :=
  ((op =? op_Exponent) || (op =? op_Remainder) || (op =? op_Multiplication) || (op =? op_Division) ||
   (op =? op_Addition) || (op =? op_Subtraction) || (op =? op_BitwiseAnd) || (op =? op_BitwiseOr))%N.

(* THE GUARD (after findings/D90).  Leaves: a Natural anywhere below 2^64, an Integer inside
   (-2^63, 2^63).  Operands and results of + - * % ^ lie inside (-2^63, 2^63).  Operands of the
   comparisons, of && and ||, and of == and != may be any Natural below 2^64 or Integer inside
   (-2^63, 2^63); their result is the Natural 0 or 1. *)
Fixpoint zspec (t : tree) : option (Z * bool) :=
  match t with
  | Leaf (ONum (QNat b)) => if (b <? two64)%N then Some (Z.of_N b, true) else None
  | Leaf (ONum (QInt b)) => if (b <? two64)%N && in63b (signed b) then Some (signed b, false) else None
  | Leaf _ => None
  | Node op l r =>
    match zspec l, zspec r with
    | Some (x, ux), Some (y, uy) =>
      if is_arith op && negb (in63b x && in63b y) then None else zdispatch op x ux y uy
    | _, _ => None
    end
  end.

Lemma in63b_spec : forall z, in63b z = true -> in63 z.
Proof. intros z H. unfold in63b in H. apply andb_true_iff in H. destruct H as [H1 H2]. apply Z.ltb_lt in H1. apply Z.ltb_lt in H2. split; assumption. Qed.

Lemma zret_ok : forall z u z' u', (u = true -> 0 <= z) -> zret z u = Some (z', u') -> z' = z /\ u' = u /\ okv u z.
Proof.
  intros z u z' u' Hu H. unfold zret in H. destruct (in63b z) eqn:E; [|discriminate]. inversion H; subst.
  split; [reflexivity|]. split; [reflexivity|]. split; [apply in63b_spec; exact E|exact Hu].
Qed.

Lemma okv_b2z : forall b, okv true (b2z b).
Proof. intros [|]; split; unfold in63; cbn; lia. Qed.
Lemma enc_b2z : forall b, enc true (b2z b) = of_bool b.
Proof. intros [|]; reflexivity. Qed.

Lemma wrapZ_signed : forall b, (b < two64)%N -> wrapZ (signed b) = b.
Proof.
  intros b Hb. apply N2Z.inj. rewrite wrapZ_spec. destruct (signed_spec b Hb) as [H _]. exact H.
Qed.

Lemma okw_narrow : forall u z, okw u z -> in63b z = true -> okv u z.
Proof. intros u z H Hb. apply in63b_spec in Hb. split; [exact Hb|]. intros ->. unfold okw in H. lia. Qed.
Lemma okw_b2z : forall b, okw true (b2z b).
Proof. intros [|]; unfold okw; cbn; lia. Qed.

(* one operator, both operands (and the result) inside (-2^63, 2^63) *)
Lemma node_exact_narrow : forall e op x ux y uy z u (T : N -> outcome qval),
  (forall c, T c = apply_op e op (enc ux x) (enc uy y)) -> okv ux x -> okv uy y ->
  zdispatch op x ux y uy = Some (z, u) -> okv u z /\ forall c, T c = Ok (enc u z).
Proof.
  intros e op x ux y uy z u T Hev Hx Hy H. unfold zdispatch in H.
    assert (Hux : ux = true -> 0 <= x) by (destruct Hx; auto).
    assert (Huy : uy = true -> 0 <= y) by (destruct Hy; auto).
    unfold apply_op in Hev.
    destruct (op =? op_Exponent)%N.
    { destruct (y <? 0) eqn:Ey; [discriminate|]. apply Z.ltb_ge in Ey.
      destruct (x =? 0) eqn:Ex0.
      { inversion H; subst. apply Z.eqb_eq in Ex0. subst x. split; [split; [unfold in63|]; lia|].
        intros c. rewrite Hev. rewrite pow_exact; auto.
        destruct (Z.eq_dec y 0) as [->|Hn]; [rewrite Z.pow_0_r|rewrite Z.pow_0_l by lia]; unfold in63; lia. }
      destruct (y =? 0) eqn:Ey0.
      { inversion H; subst. apply Z.eqb_eq in Ey0. subst y. split; [split; [unfold in63|]; lia|].
        intros c. rewrite Hev. rewrite pow_exact; auto; [rewrite Ex0; reflexivity|]. unfold in63. rewrite Z.pow_0_r. lia. }
      assert (Hk : negb ((x <? 0) && Z.odd y) = true -> 0 <= x ^ y).
      { intros Hk. apply negb_true_iff in Hk. apply andb_false_iff in Hk. destruct Hk as [E|E].
        - apply Z.ltb_ge in E. apply Z.pow_nonneg. exact E.
        - assert (Ev : Z.even y = true) by (rewrite <- Z.negb_odd, E; reflexivity).
          apply Z.even_spec in Ev. apply Z.pow_even_nonneg. exact Ev. }
      destruct (zret_ok _ _ _ _ Hk H) as (-> & -> & Hok). split; [exact Hok|].
      intros c. rewrite Hev. rewrite pow_exact; auto; [rewrite Ex0, Ey0; reflexivity|destruct Hok; assumption]. }
    destruct (op =? op_Remainder)%N.
    { destruct (y =? 0) eqn:Ey0; [discriminate|]. inversion H; subst.
      assert (Hok : okv false (Z.rem x y)).
      { split; [|discriminate]. apply Z.eqb_neq in Ey0. pose proof (Z.rem_bound_abs x y Ey0).
        destruct Hx as [Hx _], Hy as [Hy _]. unfold in63 in *. lia. }
      split; [exact Hok|]. intros c. rewrite Hev. rewrite rem_exact by assumption. rewrite Ey0. reflexivity. }
    destruct (op =? op_Multiplication)%N.
    { assert (Hk : ux && uy = true -> 0 <= x * y).
      { intros Hk. apply andb_true_iff in Hk. destruct Hk. apply Z.mul_nonneg_nonneg; auto. }
      destruct (zret_ok _ _ _ _ Hk H) as (-> & -> & Hok). split; [exact Hok|].
      intros c. rewrite Hev. apply mul_exact; auto. destruct Hok; assumption. }
    destruct (op =? op_Division)%N; [discriminate|].
    destruct (op =? op_Addition)%N.
    { assert (Hk : ux && uy = true -> 0 <= x + y).
      { intros Hk. apply andb_true_iff in Hk. destruct Hk. specialize (Hux H0). specialize (Huy H1). lia. }
      destruct (zret_ok _ _ _ _ Hk H) as (-> & -> & Hok). split; [exact Hok|].
      intros c. rewrite Hev. apply add_exact; auto. destruct Hok; assumption. }
    destruct (op =? op_Subtraction)%N.
    { assert (Hk : ux && uy && (y <=? x) = true -> 0 <= x - y).
      { intros Hk. apply andb_true_iff in Hk. destruct Hk as [_ Hk]. apply Z.leb_le in Hk. lia. }
      destruct (zret_ok _ _ _ _ Hk H) as (-> & -> & Hok). split; [exact Hok|].
      intros c. rewrite Hev. apply sub_exact; auto. destruct Hok; assumption. }
    destruct (op =? op_BitwiseAnd)%N; [discriminate|].
    destruct (op =? op_BitwiseOr)%N; [discriminate|].
    destruct (op =? op_Less)%N.
    { inversion H; subst. split; [apply okv_b2z|]. intros c. rewrite Hev. unfold q_lt. rewrite cmp_exact by (assumption || apply cmp_like_ltb). cbn [bind]. rewrite enc_b2z. reflexivity. }
    destruct (op =? op_LessOrEqual)%N.
    { inversion H; subst. split; [apply okv_b2z|]. intros c. rewrite Hev. unfold q_le. rewrite cmp_exact by (assumption || apply cmp_like_leb). cbn [bind]. rewrite enc_b2z. reflexivity. }
    destruct (op =? op_Greater)%N.
    { inversion H; subst. split; [apply okv_b2z|]. intros c. rewrite Hev. unfold q_gt. rewrite cmp_exact by (assumption || apply cmp_like_gtb). cbn [bind]. rewrite enc_b2z. reflexivity. }
    destruct (op =? op_GreaterOrEqual)%N.
    { inversion H; subst. split; [apply okv_b2z|]. intros c. rewrite Hev. unfold q_ge. rewrite cmp_exact by (assumption || apply cmp_like_geb). cbn [bind]. rewrite enc_b2z. reflexivity. }
    destruct (op =? op_And)%N.
    { inversion H; subst. split; [apply okv_b2z|]. intros c. rewrite Hev. rewrite !true_exact by assumption. cbn [bind]. rewrite enc_b2z. reflexivity. }
    destruct (op =? op_Or)%N.
    { inversion H; subst. split; [apply okv_b2z|]. intros c. rewrite Hev. rewrite !true_exact by assumption. cbn [bind]. rewrite enc_b2z. reflexivity. }
    destruct (op =? op_Equal)%N.
    { inversion H; subst. split; [apply okv_b2z|]. intros c. rewrite Hev. rewrite equal_exact by assumption. rewrite enc_b2z. reflexivity. }
    destruct (op =? op_NotEqual)%N; [|discriminate].
    inversion H; subst. split; [apply okv_b2z|]. intros c. rewrite Hev. rewrite equal_exact by assumption.
    cbn [bind]. destruct (x =? y); reflexivity.
Qed.

(* a comparison, && / ||, == / != : operands in the wide domain *)
Lemma node_exact_wide : forall e op x ux y uy z u, is_arith op = false -> okw ux x -> okw uy y ->
  zdispatch op x ux y uy = Some (z, u) -> okw u z /\ apply_op e op (enc ux x) (enc uy y) = Ok (enc u z).
Proof.
  intros e op x ux y uy z u Ha Hx Hy H. unfold zdispatch in H. unfold is_arith in Ha. unfold apply_op.
  repeat (apply orb_false_iff in Ha; destruct Ha as [Ha ?]).
  repeat match goal with E : (op =? _)%N = false |- _ => rewrite E in *; clear E end.
  destruct (op =? op_Less)%N.
  { inversion H; subst. split; [apply okw_b2z|]. unfold q_lt. rewrite cmp_exact_wide by (assumption || apply cmp_like_ltb). cbn [bind]. rewrite enc_b2z. reflexivity. }
  destruct (op =? op_LessOrEqual)%N.
  { inversion H; subst. split; [apply okw_b2z|]. unfold q_le. rewrite cmp_exact_wide by (assumption || apply cmp_like_leb). cbn [bind]. rewrite enc_b2z. reflexivity. }
  destruct (op =? op_Greater)%N.
  { inversion H; subst. split; [apply okw_b2z|]. unfold q_gt. rewrite cmp_exact_wide by (assumption || apply cmp_like_gtb). cbn [bind]. rewrite enc_b2z. reflexivity. }
  destruct (op =? op_GreaterOrEqual)%N.
  { inversion H; subst. split; [apply okw_b2z|]. unfold q_ge. rewrite cmp_exact_wide by (assumption || apply cmp_like_geb). cbn [bind]. rewrite enc_b2z. reflexivity. }
  destruct (op =? op_And)%N.
  { inversion H; subst. split; [apply okw_b2z|]. rewrite !true_exact_wide by assumption. cbn [bind]. rewrite enc_b2z. reflexivity. }
  destruct (op =? op_Or)%N.
  { inversion H; subst. split; [apply okw_b2z|]. rewrite !true_exact_wide by assumption. cbn [bind]. rewrite enc_b2z. reflexivity. }
  destruct (op =? op_Equal)%N.
  { inversion H; subst. split; [apply okw_b2z|]. rewrite equal_exact_wide by assumption. rewrite enc_b2z. reflexivity. }
  destruct (op =? op_NotEqual)%N; [|discriminate].
  inversion H; subst. split; [apply okw_b2z|]. rewrite equal_exact_wide by assumption.
  cbn [bind]. destruct (x =? y); reflexivity.
Qed.

Theorem integer_exact : forall e sub t z u, zspec t = Some (z, u) ->
  okw u z /\
  forall c, tree_eval_ctx (fun ctx o => leaf_value e sub ctx op_NoOp o) (apply_op e) c t = Ok (enc u z).
Proof.
  intros e sub. induction t as [o|op l IHl r IHr]; intros z u H.
  - destruct o as [v| | |]; try discriminate H. destruct v as [b|b| | |]; try discriminate H; cbn [zspec] in H.
    + destruct (b <? two64)%N eqn:E; [|discriminate]. inversion H; subst. apply N.ltb_lt in E.
      assert (Z.of_N b < 18446744073709551616) by (rewrite <- two64_Z; lia).
      split; [unfold okw; lia|]. intros c. cbn [tree_eval_ctx leaf_value enc]. rewrite N2Z.id. reflexivity.
    + destruct ((b <? two64)%N && in63b (signed b)) eqn:E; [|discriminate]. inversion H; subst.
      apply andb_true_iff in E. destruct E as [E1 E2]. apply N.ltb_lt in E1.
      split; [apply in63b_spec; exact E2|].
      intros c. cbn [tree_eval_ctx leaf_value enc]. rewrite wrapZ_signed by exact E1. reflexivity.
  - cbn [zspec] in H.
    destruct (zspec l) as [[x ux]|]; [|discriminate]. destruct (zspec r) as [[y uy]|]; [|discriminate].
    destruct (IHl _ _ eq_refl) as [Hx Hl]. destruct (IHr _ _ eq_refl) as [Hy Hr].
    assert (Hev : forall c, tree_eval_ctx (fun ctx o => leaf_value e sub ctx op_NoOp o) (apply_op e) c (Node op l r)
                  = apply_op e op (enc ux x) (enc uy y)).
    { intros c. cbn [tree_eval_ctx]. rewrite Hl, Hr. reflexivity. }
    destruct (in63b x && in63b y) eqn:En.
    + (* both operands narrow: every operator of the fragment *)
      rewrite andb_false_r in H. apply andb_true_iff in En. destruct En as [Enx Eny].
      destruct (node_exact_narrow e op x ux y uy z u _ Hev (okw_narrow _ _ Hx Enx) (okw_narrow _ _ Hy Eny) H) as [Hok Hv].
      split; [apply okv_okw; exact Hok|exact Hv].
    + destruct (is_arith op) eqn:Ea; [discriminate H|]. cbn [andb] in H.
      destruct (node_exact_wide e op x ux y uy z u Ea Hx Hy H) as [Hok Hv].
      split; [exact Hok|]. intros c. rewrite Hev. exact Hv.
Qed.

(* with the precedence theorem: the flat list of an integer expression
   evaluates to the exact Z value of its precedence-climbing tree *)
Corollary integer_exact_flat : forall e sub l t z u, wf l -> std_tree l = Some t -> zspec t = Some (z, u) ->
  ev_top (leaf_value e sub) (apply_op e) is_nan_type l = Ok (enc u z).
Proof.
  intros e sub l t z u Hw Ht Hz.
  destruct (precedence_level e sub l Hw) as (t' & Ht' & Heq). rewrite Ht in Ht'. inversion Ht'; subst t'.
  rewrite Heq. unfold tree_eval_top. destruct (integer_exact e sub t z u Hz) as [_ Hv]. rewrite Hv. cbn [bind].
  destruct u; reflexivity.
Qed.

(* non-vacuity: the tree of 10 - 2 * 3 ^ 2 + 5 has the exact value -3, kind Integer *)
Example ex_d1_zspec : exists t, std_tree ex_d1 = Some t /\ zspec t = Some (-3, false).
Proof. eexists. split; [exact ex_d1_tree|]. vm_compute. reflexivity. Qed.

(* non-vacuity of the wide domain: 18446744073709551615 > 1 is 1, 18446744073709551615 == -1 is 0 *)
Example ex_wide_gt : zspec (Node op_Greater (Leaf (ONum (QNat 18446744073709551615))) (Leaf (ONum (QNat 1)))) = Some (1, true).
Proof. vm_compute. reflexivity. Qed.
Example ex_wide_eq : zspec (Node op_Equal (Leaf (ONum (QNat 18446744073709551615))) (Leaf (ONum (QInt 18446744073709551615)))) = Some (0, true).
Proof. vm_compute. reflexivity. Qed.
Example ex_wide_eval :
  apply_op [] op_Greater (QNat 18446744073709551615) (QNat 1) = Ok (QNat 1) /\
  apply_op [] op_Equal (QNat 18446744073709551615) (QInt 18446744073709551615) = Ok (QNat 0) /\
  apply_op [] op_Less (QInt 18446744073709551615) (QNat 9223372036854775808) = Ok (QNat 1).
Proof. vm_compute. repeat split. Qed.

(* seeded C04_r7m2: a REAL left operand holding exactly -2^63 and a divisor that truncates to -1:
   the -1 guard sits before the left operand is converted, the answer is Integer 0 (no INT64_MIN % -1) *)
Example ex_real_min_rem :
  let rmin := QReal (SpecFloat.S754_finite true 4503599627370496 11) in      (* -2^63 *)
  q_rem rmin (QInt (wrapZ (-1))) = Ok (QInt 0) /\
  q_rem rmin (QReal (SpecFloat.S754_finite true 6755399441055744 (-52))) = Ok (QInt 0) /\   (* -1.5 *)
  q_rem rmin (QNat 3) = Ok (QInt (wrapZ (-2))) /\
  q_rem rmin (QNat 0) = NoValue.
Proof. vm_compute. repeat split. Qed.
