(* BigIntTop.v -- C19: the per-operation refinement theorem lifted over histories,
   comparisons, index = top word of the value, non-vacuity examples, and the finite
   sweep of the 128/64 division algorithm at 3-bit halves. *)
From Coq Require Import Arith NArith ZArith List Bool Lia Psatz.
From Coq Require Import ZifyBool ZifyNat ZifyN.
From Qv Require Import BigIntModel BigIntProofs BigIntProofs2 BigIntHelpers BigIntShift BigIntShiftL BigIntBits BigIntFfb BigIntWide BigIntNarrow BigIntSetWide BigIntOrAnd BigIntMove.
Import ListNotations.
Local Open Scope N_scope.

Section W.
  Variable w : N.
  Hypothesis w_pos : 0 < w.
  Notation B := (Bw w).
  Notation pw := (pw w).
  Notation bval := (bval w).

  (* the operations whose refinement is PROVED (the others are tied by the
     correspondence run only): Add / Subtract at any word index, += / -= of a word,
     = |= &= and copy-assignment from a constructed BigInt (operand type at most one word wide, or at
     least two words wide), Multiply, Divide, ShiftLeft, ShiftRight, Clear, FindFirstBit, FindLastBit,
     the comparison family, the conversion operator: i.e. EVERY operation of the model *)
  Inductive proved_op : op -> Prop :=
  | P_AddAt : forall v i, proved_op (OAddAt v i)
  | P_SubAt : forall v i, proved_op (OSubAt v i)
  | P_Add : forall ow v, ow <= w \/ 2 * w <= ow -> proved_op (OAdd ow v)
  | P_Sub : forall ow v, ow <= w \/ 2 * w <= ow -> proved_op (OSub ow v)
  | P_Mul : forall v, proved_op (OMul v)
  | P_Div : forall v, proved_op (ODiv v)
  | P_Shl : forall k, proved_op (OShl k)
  | P_Shr : forall k, proved_op (OShr k)
  | P_Clear : proved_op OClear
  | P_Set : forall ow v, ow <= w \/ 2 * w <= ow -> proved_op (OSet ow v)
  | P_And : forall ow v, ow <= w \/ 2 * w <= ow -> proved_op (OAnd ow v)
  | P_Or : forall ow v, ow <= w \/ 2 * w <= ow -> proved_op (OOr ow v)
  | P_Copy : forall ow v, ow <= w \/ 2 * w <= ow -> proved_op (OCopy ow v)
  | P_Narrow : forall tw, (tw <= w \/ exists c : nat, (2 <= c)%nat /\ tw = w * N.of_nat c) -> proved_op (ONarrow tw)
  | P_Ffb : proved_op OFfb
  | P_Flb : proved_op OFlb
  | P_Cmp : forall v, proved_op (OCmp v)
  | P_DivAssign : forall v, proved_op (ODivAssign v)
  | P_MoveAssign : forall ow v, ow <= w \/ 2 * w <= ow -> proved_op (OMoveAssign ow v)
  | P_MoveRound : proved_op OMoveRound
  | P_CopyRound : proved_op OCopyRound
  | P_SelfMove : proved_op OSelfMove
  | P_Poke : forall i v k, proved_op (OPoke i v k).

  (* the only side conditions: operand / target TYPES are at most one word or a whole number (>= 2)
     of words wide -- true of uint8/16/32/64 operands on uint8/16/32/64 words *)
  Definition op_types_ok (o : op) : Prop :=
    match o with
    | OSet ow _ | OAdd ow _ | OSub ow _ | OOr ow _ | OAnd ow _ | OCopy ow _ | OMoveAssign ow _ => ow <= w \/ 2 * w <= ow
    | ONarrow tw => tw <= w \/ exists c : nat, (2 <= c)%nat /\ tw = w * N.of_nat c
    | _ => True
    end.

  Lemma proved_op_all : forall o, op_types_ok o -> proved_op o.
  Proof. intros o H. destruct o; cbn [op_types_ok] in H; constructor; assumption. Qed.

  Lemma lim_pw : forall n, 2 ^ (w * N.of_nat n) = pw n.
  Proof. intros n. symmetry. apply pw_bits. Qed.

  Lemma pw_1 : pw 1 = B.
  Proof. rewrite pw_S, pw_0. lia. Qed.

  (* Index() is the word holding the highest set bit of the value (what the oracle checks) *)
  Theorem WF_index_top : forall s, WF w s -> index s = top_index w (bval s).
  Proof.
    intros s HWF. unfold top_index.
    destruct (N.eqb_spec (bval s) 0) as [Hz|Hnz].
    - apply (WF_zero_iff w s HWF) in Hz. apply Hz.
    - pose proof (WF0_bound w s (proj1 HWF)) as Hub. rewrite pw_bits in Hub.
      assert (Hlb : 2 ^ (w * N.of_nat (index s)) <= bval s).
      { destruct (Nat.eq_dec (index s) 0) as [E|E].
        - rewrite E. cbn. rewrite N.mul_0_r. cbn. lia.
        - rewrite <- pw_bits. apply WF_lower; assumption. }
      assert (Hl1 : w * N.of_nat (index s) <= N.log2 (bval s)).
      { apply N.log2_le_pow2; [lia|assumption]. }
      assert (Hl2 : N.log2 (bval s) < w * N.of_nat (S (index s))).
      { apply N.log2_lt_pow2; [lia|assumption]. }
      assert (Hq : N.log2 (bval s) / w = N.of_nat (index s)).
      { symmetry. apply (N.div_unique _ _ _ (N.log2 (bval s) - w * N.of_nat (index s))); lia. }
      rewrite Hq. lia.
  Qed.

  (* the comparison family, IsZero / NotZero / IsBig agree with the value *)
  Theorem compare_correct : forall s v, WF w s -> v < B ->
    compare_word s v = Ok (cmp_bits w (bval s) v).
  Proof.
    intros s v HWF Hv. pose proof HWF as ((Hw & Hi & Ha) & Ht).
    unfold compare_word. rewrite rd_ok by lia. cbn [bind]. unfold cmp_bits. f_equal.
    destruct (Nat.eqb_spec (index s) 0) as [E|E].
    - (* one word: the value is word 0 *)
      pose proof (WF0_value_firstn w s (proj1 HWF)) as Hval. rewrite E in Hval.
      rewrite value_firstn_S in Hval by lia. cbn [firstn value] in Hval. rewrite pw_0 in Hval.
      assert (Hx : nth 0 (words s) 0 = bval s) by lia. rewrite Hx.
      pose proof (wordsok_nth w _ 0%nat Hw ltac:(lia)) as Hb. rewrite Hx in Hb.
      destruct (N.leb_spec B (bval s)); [lia|]. cbn [andb orb negb]. reflexivity.
    - pose proof (WF_lower w s HWF E) as Hlow.
      assert (HB : B <= bval s).
      { replace (index s) with (S (index s - 1)) in Hlow by lia. rewrite pw_S in Hlow.
        pose proof (pw_pos w (index s - 1)). nia. }
      cbn [andb orb negb].
      destruct (N.ltb_spec (bval s) v); [lia|]. destruct (N.leb_spec (bval s) v); [lia|].
      destruct (N.ltb_spec v (bval s)); [|lia]. destruct (N.leb_spec v (bval s)); [|lia].
      destruct (N.eqb_spec (bval s) v); [lia|]. destruct (N.eqb_spec (bval s) 0); [lia|].
      destruct (N.leb_spec B (bval s)); [|lia]. reflexivity.
  Qed.

  (* the initial object *)
  Lemma zero_big_WF : forall n, (0 < n)%nat -> WF w (zero_big n) /\ bval (zero_big n) = 0.
  Proof.
    intros n Hn. unfold zero_big, BigIntProofs.bval. cbn [words index]. split; [|apply value_repeat0].
    split; [split; [apply wordsok_repeat|split; [cbn [words index]; rewrite repeat_length; lia|]]|left; reflexivity].
    intros i _. cbn [words]. apply nth_repeat.
  Qed.


  (* an operand type not wider than a word behaves like Number_T itself *)
  Lemma do_operation_le : forall k ow s v, ow <= w -> v < 2 ^ ow ->
    do_operation w k ow s v = do_operation w k w s v /\ v < B.
  Proof.
    intros k ow s v How Hv.
    assert (HvB : v < B).
    { unfold Bw. assert (2 ^ ow <= 2 ^ w) by (apply N.pow_le_mono_r; lia). lia. }
    split; [|exact HvB]. unfold do_operation. rewrite N.eqb_refl.
    destruct (N.eqb_spec ow w) as [|Hne]; [reflexivity|].
    apply do_operation_t_narrow; [exact w_pos| |exact HvB].
    rewrite N.div_small by lia. lia.
  Qed.

  Lemma assign_le : forall ow s v, ow <= w -> v < 2 ^ ow -> assign w ow s v = assign w w s v.
  Proof.
    intros ow s v How Hv. unfold assign. rewrite (proj1 (do_operation_le KSet ow s v How Hv)). reflexivity.
  Qed.

  Lemma assign_any : forall ow s v, ow <= w \/ 2 * w <= ow -> v < 2 ^ ow -> WF w s ->
    v < pw (length (words s)) ->
    exists s', assign w ow s v = Ok s' /\ WF w s' /\ bval s' = v /\ length (words s') = length (words s).
  Proof.
    intros ow s v [How|How] Hvo HWF Hfit.
    - rewrite (assign_le ow s v How Hvo). apply assign_word_correct; [exact HWF|].
      exact (proj2 (do_operation_le KSet ow s v How Hvo)).
    - assert (H2 : 1 < ow / w) by (assert (2 <= ow / w) by (apply N.div_le_lower_bound; lia); lia).
      exact (assign_wide_correct w w_pos ow s v H2 HWF Hfit).
  Qed.

  Theorem step_correct : mul2_ok w -> div2_ok w -> forall n s o v' r,
    proved_op o -> WF w s -> length (words s) = n ->
    spec_op w n (bval s) o = Some (v', r) ->
    exists s', run_op w s o = Ok (s', r) /\ WF w s' /\ bval s' = v' /\ length (words s') = n.
  Proof.
    intros Hmul Hdiv n s o v' r Hp HWF Hn Hs.
    destruct Hp as [v i|v i|ow v How|ow v How|v|v|k|k| |ow v How|ow v How|ow v How|ow v How|tw Htw| | |v|v|ow v How| | | |i v k]; cbn [spec_op run_op] in *; rewrite ?lim_pw in Hs.
    - destruct (N.ltb_spec v B) as [Hv|]; [|discriminate].
      destruct (N.ltb_spec (bval s + v * pw i) (pw n)) as [Hfit|]; [|discriminate].
      inversion Hs; subst v' r.
      destruct (add_correct w s v i HWF Hv ltac:(rewrite Hn; exact Hfit)) as (s' & Hrun & HWF' & Hval & Hl).
      rewrite Hrun. cbn [bind]. exists s'. repeat split; try apply HWF'; auto; lia.
    - destruct (N.ltb_spec v B) as [Hv|]; [|discriminate].
      destruct (N.leb_spec (v * pw i) (bval s)) as [Hfit|]; [|discriminate].
      destruct (Nat.ltb_spec i n) as [Hi|]; [|discriminate]. cbn [andb] in Hs.
      inversion Hs; subst v' r.
      destruct (sub_correct w s v i HWF Hv Hfit) as (s' & Hrun & HWF' & Hval & Hl).
      rewrite Hrun. cbn [bind]. exists s'. repeat split; try apply HWF'; auto; lia.
    - destruct (N.ltb_spec v (2 ^ ow)) as [Hvo|]; [|discriminate].
      destruct (N.ltb_spec (bval s + v) (pw n)) as [Hfit|]; [|discriminate].
      inversion Hs; subst v' r.
      destruct How as [How|How].
      + destruct (do_operation_le KAdd ow s v How Hvo) as (Eop & Hv). rewrite Eop.
        unfold do_operation. rewrite N.eqb_refl. cbn [do_operation_s word0_step].
        destruct (add_correct w s v 0 HWF Hv ltac:(rewrite Hn, pw_0; lia)) as (s' & Hrun & HWF' & Hval & Hl).
        rewrite Hrun. cbn [bind]. rewrite pw_0 in Hval. exists s'. repeat split; try apply HWF'; auto; lia.
      + unfold do_operation. destruct (N.eqb_spec ow w) as [|_]; [lia|].
        assert (H2 : 1 < ow / w) by (assert (2 <= ow / w) by (apply N.div_le_lower_bound; lia); lia).
        destruct (add_wide_correct w w_pos ow s v H2 HWF ltac:(rewrite Hn; exact Hfit)) as (s' & Hrun & HWF' & Hval & Hl).
        rewrite Hrun. cbn [bind]. exists s'. repeat split; try apply HWF'; auto; lia.
    - destruct (N.ltb_spec v (2 ^ ow)) as [Hvo|]; [|discriminate].
      destruct (N.leb_spec v (bval s)) as [Hfit|]; [|discriminate]. cbn [andb] in Hs.
      inversion Hs; subst v' r.
      destruct How as [How|How].
      + destruct (do_operation_le KSub ow s v How Hvo) as (Eop & Hv). rewrite Eop.
        unfold do_operation. rewrite N.eqb_refl. cbn [do_operation_s word0_step].
        destruct (sub_correct w s v 0 HWF Hv ltac:(rewrite pw_0; lia)) as (s' & Hrun & HWF' & Hval & Hl).
        rewrite Hrun. cbn [bind]. rewrite pw_0 in Hval. exists s'. repeat split; try apply HWF'; auto; lia.
      + unfold do_operation. destruct (N.eqb_spec ow w) as [|_]; [lia|].
        assert (H2 : 1 < ow / w) by (assert (2 <= ow / w) by (apply N.div_le_lower_bound; lia); lia).
        destruct (sub_wide_correct w w_pos ow s v H2 HWF Hfit) as (s' & Hrun & HWF' & Hval & Hl).
        rewrite Hrun. cbn [bind]. exists s'. repeat split; try apply HWF'; auto; lia.
    - destruct (N.ltb_spec v B) as [Hv|]; [|discriminate].
      destruct (N.ltb_spec (bval s * v) (pw n)) as [Hfit|]; [|discriminate].
      inversion Hs; subst v' r.
      destruct (multiply_correct w Hmul s v HWF Hv ltac:(rewrite Hn; exact Hfit)) as (s' & Hrun & HWF' & Hval & Hl).
      rewrite Hrun. cbn [bind]. exists s'. repeat split; try apply HWF'; auto; lia.
    - destruct (N.eqb_spec v 0) as [|Hv0]; [discriminate|].
      destruct (N.leb_spec B v) as [|Hv]; [discriminate|]. cbn [orb] in Hs.
      inversion Hs; subst v' r.
      destruct (divide_correct w Hdiv s v HWF ltac:(lia)) as (s' & r' & Hrun & HWF' & Hval & Hr & Hl).
      rewrite Hrun. subst r'. exists s'. repeat split; try apply HWF'; auto; lia.
    - destruct (N.ltb_spec (bval s * 2 ^ k) (pw n)) as [Hfit|]; [|discriminate].
      inversion Hs; subst v' r.
      destruct (shift_left_correct w w_pos s k HWF ltac:(rewrite Hn; exact Hfit)) as (s' & Hrun & HWF' & Hval & Hl).
      rewrite Hrun. cbn [bind]. exists s'. repeat split; try apply HWF'; auto; lia.
    - inversion Hs; subst v' r.
      destruct (shift_right_correct w w_pos s k HWF) as (s' & Hrun & HWF' & Hval & Hl).
      rewrite Hrun. cbn [bind]. exists s'. repeat split; try apply HWF'; auto; lia.
    - inversion Hs; subst v' r.
      destruct (clear_correct w s (proj1 HWF)) as (s' & Hrun & HWF' & Hval & Hl).
      rewrite Hrun. cbn [bind]. exists s'. repeat split; try apply HWF'; auto; lia.
    - destruct (N.ltb_spec v (2 ^ ow)) as [Hvo|]; [|discriminate].
      destruct (N.ltb_spec v (pw n)) as [Hfit|]; [|discriminate]. inversion Hs; subst v' r.
      destruct (assign_any ow s v How Hvo HWF ltac:(rewrite Hn; exact Hfit)) as (s' & Hrun & HWF' & Hval & Hl).
      rewrite Hrun. cbn [bind]. exists s'. repeat split; try apply HWF'; auto; lia.
    - destruct (N.ltb_spec v (2 ^ ow)) as [Hvo|]; [|discriminate].
      destruct (N.ltb_spec v (pw n)) as [Hfit|]; [|discriminate]. cbn [andb] in Hs. inversion Hs; subst v' r.
      destruct How as [How|How].
      + destruct (do_operation_le KAnd ow s v How Hvo) as (Eop & Hv). rewrite Eop.
        destruct (and_word_correct w s v HWF Hv) as (s' & Hrun & HWF' & Hval & Hl).
        rewrite Hrun. cbn [bind]. exists s'. repeat split; try apply HWF'; auto; lia.
      + unfold do_operation. destruct (N.eqb_spec ow w) as [|_]; [lia|].
        assert (H2 : 1 < ow / w) by (assert (2 <= ow / w) by (apply N.div_le_lower_bound; lia); lia).
        destruct (and_wide_correct w w_pos ow s v H2 HWF ltac:(rewrite Hn; exact Hfit)) as (s' & Hrun & HWF' & Hval & Hl).
        rewrite Hrun. cbn [bind]. exists s'. repeat split; try apply HWF'; auto; lia.
    - destruct (N.ltb_spec v (2 ^ ow)) as [Hvo|]; [|discriminate].
      destruct (N.ltb_spec v (pw n)) as [Hfit|]; [|discriminate]. cbn [andb] in Hs. inversion Hs; subst v' r.
      destruct How as [How|How].
      + destruct (do_operation_le KOr ow s v How Hvo) as (Eop & Hv). rewrite Eop.
        destruct (or_word_correct w s v HWF Hv) as (s' & Hrun & HWF' & Hval & Hl).
        rewrite Hrun. cbn [bind]. exists s'. repeat split; try apply HWF'; auto; lia.
      + unfold do_operation. destruct (N.eqb_spec ow w) as [|_]; [lia|].
        assert (H2 : 1 < ow / w) by (assert (2 <= ow / w) by (apply N.div_le_lower_bound; lia); lia).
        destruct (or_wide_correct w w_pos ow s v H2 HWF ltac:(rewrite Hn; exact Hfit)) as (s' & Hrun & HWF' & Hval & Hl).
        rewrite Hrun. cbn [bind]. exists s'. repeat split; try apply HWF'; auto; lia.
    - destruct (N.ltb_spec v (2 ^ ow)) as [Hvo|]; [|discriminate].
      destruct (N.ltb_spec v (pw n)) as [Hfit|]; [|discriminate]. inversion Hs; subst v' r.
      assert (Hn0 : (0 < length (words s))%nat) by (destruct HWF as ((_ & Hi & _) & _); lia).
      destruct (zero_big_WF (length (words s)) Hn0) as (HWFz & _).
      assert (Hlz : length (words (zero_big (length (words s)))) = length (words s)) by (cbn; apply repeat_length).
      destruct (assign_any ow (zero_big (length (words s))) v How Hvo HWFz ltac:(rewrite Hlz, Hn; exact Hfit))
        as (src & Hrun1 & HWFs & Hvs & Hls).
      rewrite Hrun1. cbn [bind].
      destruct (copy_assign_correct w s src HWF HWFs ltac:(lia)) as (s' & Hrun & HWF' & Hval & Hl).
      rewrite Hrun. cbn [bind]. exists s'. repeat split; try apply HWF'; auto; lia.
    - inversion Hs; subst v' r.
      rewrite (narrow_correct w w_pos s tw HWF Htw). cbn [bind]. exists s. repeat split; try apply HWF; auto.
    - destruct (N.eqb_spec (bval s) 0) as [|Hnz]; [discriminate|]. inversion Hs; subst v' r.
      rewrite (find_first_bit_correct w w_pos s HWF Hnz). cbn [bind]. exists s. repeat split; try apply HWF; auto.
    - destruct (N.eqb_spec (bval s) 0) as [|Hnz]; [discriminate|]. inversion Hs; subst v' r.
      rewrite (find_last_bit_correct w w_pos s HWF Hnz). cbn [bind]. exists s. repeat split; try apply HWF; auto.
    - destruct (N.ltb_spec v B) as [Hv|]; [|discriminate]. inversion Hs; subst v' r.
      rewrite (compare_correct s v HWF Hv). cbn [bind]. exists s. repeat split; try apply HWF; auto.
    - destruct (N.eqb_spec v 0) as [|Hv0]; [discriminate|].
      destruct (N.leb_spec B v) as [|Hv]; [discriminate|]. cbn [orb] in Hs.
      inversion Hs; subst v' r.
      destruct (divide_correct w Hdiv s v HWF ltac:(lia)) as (s' & r' & Hrun & HWF' & Hval & Hr & Hl).
      rewrite Hrun. cbn [bind]. exists s'. repeat split; try apply HWF'; auto; lia.
    - destruct (N.ltb_spec v (2 ^ ow)) as [Hvo|]; [|discriminate].
      destruct (N.ltb_spec v (pw n)) as [Hfit|]; [|discriminate]. inversion Hs; subst v' r.
      assert (Hn0 : (0 < length (words s))%nat) by (destruct HWF as ((_ & Hi & _) & _); lia).
      destruct (zero_big_WF (length (words s)) Hn0) as (HWFz & _).
      assert (Hlz : length (words (zero_big (length (words s)))) = length (words s)) by (cbn; apply repeat_length).
      destruct (assign_any ow (zero_big (length (words s))) v How Hvo HWFz ltac:(rewrite Hlz, Hn; exact Hfit))
        as (src & Hrun1 & HWFs & Hvs & Hls).
      rewrite Hrun1. cbn [bind].
      destruct (move_assign_correct w s src HWF HWFs ltac:(lia)) as (s' & src' & Hrun & HWF' & Hval & _ & _ & Hobs & Hl & _).
      rewrite Hrun. cbn [bind]. rewrite Hobs. exists s'. repeat split; try apply HWF'; auto; lia.
    - inversion Hs; subst v' r.
      destruct (move_construct_correct w s HWF) as (t & s1 & Hrun1 & HWFt & Hvt & HWF1 & _ & Hobs1 & Hlt & Hl1).
      rewrite Hrun1. cbn [bind].
      destruct (move_assign_correct w s1 t HWF1 HWFt ltac:(lia)) as (s2 & t' & Hrun2 & HWF2 & Hv2 & _ & _ & Hobs2 & Hl2 & _).
      rewrite Hrun2. cbn [bind]. rewrite Hobs1, Hobs2. exists s2. repeat split; try apply HWF2; auto; lia.
    - inversion Hs; subst v' r.
      destruct (construct_copy_correct w s HWF) as (t & Hrun1 & HWFt & Hvt & Hlt). rewrite Hrun1. cbn [bind].
      destruct (clear_correct w s (proj1 HWF)) as (s1 & Hrun2 & HWF1 & _ & Hl1). rewrite Hrun2. cbn [bind].
      destruct (copy_assign_correct w s1 t HWF1 HWFt ltac:(lia)) as (s2 & Hrun3 & HWF2 & Hv2 & Hl2).
      rewrite Hrun3. cbn [bind]. exists s2. repeat split; try apply HWF2; auto; lia.
    - inversion Hs; subst v' r. exists s. repeat split; try apply HWF; auto.
    - destruct (Nat.ltb_spec i n) as [Hi|]; [|discriminate].
      destruct (N.ltb_spec v B) as [Hv|]; [|discriminate]. cbn [andb] in Hs.
      match type of Hs with (if (k =? ?t)%nat then _ else _) = _ => destruct (Nat.eqb_spec k t) as [Hk|]; [|discriminate] end.
      inversion Hs; subst v' r.
      destruct (poke_correct w w_pos s i v k HWF ltac:(lia) Hv Hk) as (s' & Hrun & HWF' & Hval & Hl).
      rewrite Hrun. cbn [bind]. exists s'. repeat split; try apply HWF'; auto; lia.
  Qed.

  (* what the specification says about a whole history; None as soon as a result
     does not fit / a precondition fails *)
  Fixpoint spec_run (n : nat) (v : N) (ops : list op) : option (list (N * N)) :=
    match ops with
    | [] => Some []
    | o :: rest =>
      match spec_op w n v o with
      | None => None
      | Some (v', r) => option_map (cons (v', r)) (spec_run n v' rest)
      end
    end.

  Definition obs_ok (n : nat) (e : res (bigint * N)) (p : N * N) : Prop :=
    match e with
    | Ok (s', r) => WF w s' /\ bval s' = fst p /\ r = snd p /\ length (words s') = n
    | Error _ => False
    end.

  Theorem history_correct : mul2_ok w -> div2_ok w -> forall n ops s outs,
    Forall proved_op ops -> WF w s -> length (words s) = n ->
    spec_run n (bval s) ops = Some outs ->
    Forall2 (obs_ok n) (run_ops w s ops) outs.
  Proof.
    intros Hmul Hdiv n ops. induction ops as [|o rest IH]; intros s outs Hp HWF Hn Hs.
    - cbn in Hs. inversion Hs. constructor.
    - inversion Hp as [|? ? Hpo Hprest]; subst. cbn [spec_run] in Hs.
      destruct (spec_op w (length (words s)) (bval s) o) as [[v' r]|] eqn:Eo; [|discriminate].
      destruct (step_correct Hmul Hdiv _ s o v' r Hpo HWF eq_refl Eo) as (s' & Hrun & HWF' & Hval & Hl).
      cbn [run_ops]. rewrite Hrun.
      destruct (spec_run (length (words s)) v' rest) as [outs'|] eqn:Er; [|discriminate].
      cbn in Hs. inversion Hs; subst outs.
      constructor.
      + unfold obs_ok. cbn [fst snd]. split; [exact HWF'|]. split; [exact Hval|]. split; [reflexivity|exact Hl].
      + apply IH; auto. rewrite Hval. exact Er.
  Qed.

  (* the model passes the oracle that judges the C++ in the correspondence run *)
  Fixpoint oks (l : list (res (bigint * N))) : list (nat * list N * N) :=
    match l with
    | Ok (s, r) :: t => (index s, words s, r) :: oks t
    | _ => []
    end.

  Lemma wordsok_forallb : forall l, wordsok w l -> forallb (fun x => x <? B) l = true.
  Proof.
    intros l H. apply forallb_forall. intros x Hx. unfold wordsok in H. rewrite Forall_forall in H.
    apply N.ltb_lt, H, Hx.
  Qed.

  Theorem model_passes_oracle : mul2_ok w -> div2_ok w -> forall n ops s,
    Forall proved_op ops -> WF w s -> length (words s) = n ->
    oracle w n (bval s) ops (oks (run_ops w s ops)) = true.
  Proof.
    intros Hmul Hdiv n ops. induction ops as [|o rest IH]; intros s Hp HWF Hn; [reflexivity|].
    inversion Hp as [|? ? Hpo Hprest]; subst. cbn [oracle].
    destruct (spec_op w (length (words s)) (bval s) o) as [[v' r]|] eqn:Eo; [|reflexivity].
    destruct (step_correct Hmul Hdiv _ s o v' r Hpo HWF eq_refl Eo) as (s' & Hrun & HWF' & Hval & Hl).
    cbn [run_ops]. rewrite Hrun. cbn [oks].
    apply andb_true_iff. split.
    - unfold step_ok. rewrite Hl, Nat.leb_refl. rewrite (wordsok_forallb _ (proj1 (proj1 HWF'))).
      unfold BigIntProofs.bval in Hval. rewrite Hval, N.eqb_refl. rewrite <- Hval.
      fold (bval s'). rewrite <- (WF_index_top s' HWF'), Nat.eqb_refl, N.eqb_refl. reflexivity.
    - rewrite <- Hval. apply IH; auto.
  Qed.
End W.

(* ------------------------------------------------------------------------- *)
(* non-vacuity: concrete histories on which the specification speaks on every step
   and the model (8-bit words, 4 words) produces exactly the specified values *)
Example history_example :
  let ops := [OAddAt 255 0; OAddAt 1 0; OMul 255; OAddAt 200 1; OMul 251; ODiv 7; OSubAt 3 1; ODiv 255] in
  spec_run 8 4 0 ops = Some [(255, 0); (256, 0); (65280, 0); (116480, 0); (29236480, 0); (4176640, 0); (4175872, 0); (16375, 247)]
  /\ map (fun e => match e with Ok (s, r) => Some (words s, index s, r) | Error _ => None end)
         (run_ops 8 (zero_big 4) ops)
     = [Some ([255; 0; 0; 0], 0%nat, 0); Some ([0; 1; 0; 0], 1%nat, 0); Some ([0; 255; 0; 0], 1%nat, 0);
        Some ([0; 199; 1; 0], 2%nat, 0); Some ([0; 29; 190; 1], 3%nat, 0); Some ([0; 187; 63; 0], 2%nat, 0);
        Some ([0; 184; 63; 0], 2%nat, 0); Some ([247; 63; 0; 0], 1%nat, 247)].
Proof. vm_compute. split; reflexivity. Qed.

(* the repaired defects, on the model: *= 0 gives index 0; FindFirstBit looks at the word it found *)
Example d9_example :
  map (fun e => match e with Ok (s, r) => Some (words s, index s, r) | Error _ => None end)
      (run_ops 8 (zero_big 3) [OSet 8 1; OShl 8; OMul 0; OCmp 5; OSet 8 1; OShl 16; OOr 8 4; OFfb; OShl 0; OClear; OShl 9])
  = [Some ([1; 0; 0], 0%nat, 0); Some ([0; 1; 0], 1%nat, 0); Some ([0; 0; 0], 0%nat, 0);
     Some ([0; 0; 0], 0%nat, cmp_bits 8 0 5); Some ([1; 0; 0], 0%nat, 0); Some ([0; 0; 1], 2%nat, 0);
     Some ([4; 0; 1], 2%nat, 0); Some ([4; 0; 1], 2%nat, 2); Some ([4; 0; 1], 2%nat, 0);
     Some ([0; 0; 0], 0%nat, 0); Some ([0; 0; 0], 0%nat, 0)].
Proof. vm_compute. reflexivity. Qed.

(* ------------------------------------------------------------------------- *)
(* The 128/64 division algorithm (DoubleSize<.,64>::Divide, repaired overflow branch),
   exhaustively at 3-bit halves (6-bit words): every (hi, lo, d) with 0 < d, hi < d. *)
Definition div2_half_ok_at (h hi lo d : N) : bool :=
  let W := 2 * h in
  let '(r, q) := div2_half h hi lo d ((W - 1) - N.log2 d) in
  let x := hi * 2 ^ W + lo in
  (r =? x mod d) && (q =? x / d).

Definition range (n : N) : list N := map N.of_nat (seq 0 (N.to_nat n)).

Definition div2_sweep (h : N) : bool :=
  forallb (fun d => (d =? 0) ||
     forallb (fun hi => forallb (fun lo => div2_half_ok_at h hi lo d) (range (2 ^ (2 * h)))) (range d))
    (range (2 ^ (2 * h))).

Lemma div2_sweep_h3 : div2_sweep 3 = true.
Proof. vm_compute. reflexivity. Qed.

Lemma in_range : forall n x, x < n -> In x (range n).
Proof.
  intros n x H. unfold range. apply in_map_iff. exists (N.to_nat x). split; [lia|].
  apply in_seq. lia.
Qed.

Lemma div2_sweep_sound : forall h, div2_sweep h = true ->
  forall hi lo d, 0 < d < 2 ^ (2 * h) -> hi < d -> lo < 2 ^ (2 * h) -> div2_half_ok_at h hi lo d = true.
Proof.
  intros h H hi lo d Hd Hhi Hlo. unfold div2_sweep in H.
  rewrite forallb_forall in H. specialize (H d (in_range _ d (proj2 Hd))).
  destruct (N.eqb_spec d 0) as [|_]; [lia|]. cbn [orb] in H.
  rewrite forallb_forall in H. specialize (H hi (in_range _ hi Hhi)).
  rewrite forallb_forall in H. exact (H lo (in_range _ lo Hlo)).
Qed.

Theorem div2_half_h3_partial : forall hi lo d, 0 < d < 64 -> hi < d -> lo < 64 ->
  div2_half 3 hi lo d (5 - N.log2 d) = ((hi * 64 + lo) mod d, (hi * 64 + lo) / d).
Proof.
  intros hi lo d Hd Hhi Hlo.
  pose proof (div2_sweep_sound 3 div2_sweep_h3 hi lo d Hd Hhi Hlo) as H.
  unfold div2_half_ok_at in H. change (2 * 3 - 1) with 5 in H. change (2 ^ (2 * 3)) with 64 in H.
  destruct (div2_half 3 hi lo d (5 - N.log2 d)) as [r q].
  apply andb_true_iff in H. destruct H as (H1 & H2).
  apply N.eqb_eq in H1. apply N.eqb_eq in H2. subst. reflexivity.
Qed.

Example history_nonvacuous :
  let ops := [OSet 64 18446744073709551615; OShr 9; OMul 255; OAdd 64 4294967296; OSub 8 7; ODiv 129;
              OShl 13; OFfb; OFlb; OCmp 5; ONarrow 16; OAnd 64 1099511627775; OOr 32 16777217; OCopy 64 65536; OClear] in
  Forall (proved_op 8) ops /\ exists outs, spec_run 8 9 0 ops = Some outs /\ length outs = 15%nat.
Proof.
  split.
  - cbv zeta.
    repeat match goal with
           | |- Forall _ (_ :: _) => apply Forall_cons
           | |- Forall _ [] => apply Forall_nil
           end;
    match goal with
    | |- proved_op _ (ONarrow _) => apply P_Narrow; right; exists 2%nat; split; [lia|reflexivity]
    | |- proved_op _ _ => constructor; ((left; lia) || (right; lia))
    | |- proved_op _ _ => constructor; lia
    | |- proved_op _ _ => constructor
    end.
  - eexists. split; [vm_compute; reflexivity|reflexivity].
Qed.

(* non-vacuity of the construction / move / SetIndex operations (8-bit words, 3 words) *)
Example move_setindex_example :
  let ops := [OSet 8 7; OShl 8; OOr 8 5; OMoveRound; OCopyRound; OSelfMove; OMoveAssign 8 9; OPoke 2 1 2;
              ODivAssign 3; OPoke 2 0 1; OPoke 1 0 0] in
  Forall (proved_op 8) ops /\
  spec_run 8 3 0 ops = Some [(7, 0); (1792, 0); (1797, 0); (1797, 0); (1797, 0); (1797, 0); (9, 0); (65545, 0);
                             (21848, 0); (21848, 0); (88, 0)] /\
  map (fun e => match e with Ok (s, r) => Some (words s, index s, r) | Error _ => None end)
      (run_ops 8 (zero_big 3) ops)
  = [Some ([7; 0; 0], 0%nat, 0); Some ([0; 7; 0], 1%nat, 0); Some ([5; 7; 0], 1%nat, 0); Some ([5; 7; 0], 1%nat, 0);
     Some ([5; 7; 0], 1%nat, 0); Some ([5; 7; 0], 1%nat, 0); Some ([9; 0; 0], 0%nat, 0); Some ([9; 0; 1], 2%nat, 0);
     Some ([88; 85; 0], 1%nat, 0); Some ([88; 85; 0], 1%nat, 0); Some ([88; 0; 0], 0%nat, 0)].
Proof.
  split; [|split; vm_compute; reflexivity].
  cbv zeta.
  repeat match goal with
         | |- Forall _ (_ :: _) => apply Forall_cons
         | |- Forall _ [] => apply Forall_nil
         end;
  match goal with
  | |- proved_op _ _ => constructor; ((left; lia) || (right; lia))
  | |- proved_op _ _ => constructor; lia
  | |- proved_op _ _ => constructor
  end.
Qed.
